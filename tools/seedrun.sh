#!/bin/sh
# tools/seedrun.sh <patch.diff> <check ids...> : apply a seeded change to a scratch worktree of /repo
# (never to /repo itself while builders are using it), run the given checks against it, remove the worktree.
# Prints, per check, DETECTED (exit 1 with a VIOLATION line) or MISSED.
P="$1"; shift
WT=/tmp/seedrun_$$
git -C /repo worktree add -q "$WT" HEAD || exit 2
if ! git -C "$WT" apply "$P"; then echo "patch does not apply"; git -C /repo worktree remove --force "$WT"; exit 2; fi
for c in "$@"; do
  OUT=$(cd /verif && BEE2_REPO="$WT" ./check "$c" --tier "${TIER:-quick}" 2>/dev/null); RC=$?
  N=$(printf '%s\n' "$OUT" | grep -c '^VIOLATION')
  if [ "$RC" = 1 ] && [ "$N" -gt 0 ]; then echo "$c DETECTED ($N violation lines): $(printf '%s\n' "$OUT" | grep '^VIOLATION' | head -2 | tr '\n' ' ')";
  else echo "$c MISSED (rc=$RC): $(printf '%s\n' "$OUT" | tail -1)"; fi
done
git -C /repo worktree remove --force "$WT"
