#!/usr/bin/env python3
"""setup_cmd: offline preparation after a fresh restore.  Pre-builds the library variants most
checks need (checks rebuild on demand anyway: the cache key is a hash of /repo's sources)."""
import os, sys
sys.path.insert(0, os.path.dirname(os.path.abspath(__file__)))
import vlib
for d in ("build", "evidence", "replays"):
    os.makedirs(os.path.join(vlib.VERIF, d), exist_ok=True)
for v in ("rel", "asan", "dbg"):
    try:
        vlib.build(v)
    except Exception as e:
        print("setup: variant %s failed: %s" % (v, str(e)[:500]))
        sys.exit(1)
print("setup ok")
