#!/bin/sh
# tools/timeall.sh [tier] : run every registered check once, print wall time and verdict
T=${1:-quick}
for c in $(python3 -c "import json; print(' '.join(x['property_id'] for x in json.load(open('/verif/MANIFEST.json'))['checks']))"); do
  S=$(date +%s); OUT=$(./check $c --tier $T 2>/dev/null | tail -1); E=$(date +%s)
  echo "$c $((E-S))s $OUT"
done
