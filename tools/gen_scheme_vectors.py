#!/usr/bin/env python3
"""Generates spec/ref/SchemeVectors.tla: anchors of ref/Schemes.tla evaluated by TLC (one vector per state):
GOST R 34.10-2012 A.1 / A.2, DSTU 4145-2002 B.1, the bign96 vectors of the library's authors, the pfok vectors of the
NII PPMI test methodology (values as reproduced in /repo/test/crypto/*_test.c), plus algebraic laws of the definitions.
The standard parameter sets are read from `drv_valid std`.   usage: python3 tools/gen_scheme_vectors.py <std.ndjson>"""
import sys, json, os, re

def le(a): return int.from_bytes(bytes(a), 'little')
def seq(a): return "<<" + ",".join(str(x) for x in a) + ">>"
def nat(v):
    l = []
    while v:
        l.append(v & 4095); v >>= 12
    return seq(l)
def octs_le(v, n): return seq(v.to_bytes(n, 'little'))
def hexo(h): return seq(bytes.fromhex(h))                 # octets as written
def hexrev(h): return seq(bytes.fromhex(h)[::-1])         # hexToRev
def poly(v):
    l = []
    while v:
        l.append(v & 0xFFFF); v >>= 16
    return seq(l)

rows = [json.loads(l) for l in open(sys.argv[1])]
def std(scheme, name): return next(r for r in rows if r["scheme"] == scheme and r.get("name") == name)
V = []
def add(n, e): V.append((n, e))

# ---- tapes and hash reductions
add("draw_first", "LET q == OfInt(1000) IN DrawNZ(<<5, 0>>, q).v = OfInt(5) /\\ DrawNZ(<<5, 0>>, q).tries = 1")
add("draw_skips", "LET q == OfInt(1000) r == DrawNZ(<<0, 0, 232, 3, 255, 255, 231, 3>>, q) IN r.ok /\\ r.tries = 4 /\\ r.v = OfInt(999)")
add("draw_trim", "LET q == OfInt(1000) r == DrawNZ(<<231, 255>>, q) IN r.ok /\\ r.v = OfInt(999)")      # 0xFFE7 trimmed to 10 bits
add("draw_none", "~DrawNZ(<<0, 0, 232, 3>>, OfInt(1000)).ok /\\ ~DrawNZ(<<>>, OfInt(1000)).ok")
add("draw_bits", "LET r == DrawBits(<<0, 0, 255, 255>>, 9) IN r.ok /\\ r.tries = 2 /\\ r.v = OfInt(511)")
add("g12s_e", "LET q == OfInt(1009) IN Eq(G12sE(<<0, 0>>, q), One) /\\ Eq(G12sE(<<3, 241>>, q), One) /\\ Eq(G12sE(<<3, 246>>, q), OfInt(5)) /\\ Eq(G12sE(<<0, 5>>, q), OfInt(5)) /\\ Eq(G12sE(<<7, 231>>, q), OfInt(5))")
add("dstu_h", "PEq(DstuH(<<0, 0, 0>>, 20), POne) /\\ PEq(DstuH(<<1>>, 20), POne) /\\ PEq(DstuH(<<255, 255, 255, 255>>, 20), <<65535, 15>>) /\\ PEq(DstuH(<<3, 0, 240>>, 20), <<3>>)")

# ---- g12s A.1 (256 bits) and A.2 (512 bits, cheap parts)
a1 = std("g12s", "1.2.643.2.2.35.0")
def g12s_ctx(r):
    return "LET q == Num(%s) p == Num(%s) E == EB!BCurve(p, Num(%s), Num(%s)) P == EB!BPt(Num(%s), Num(%s))" % (
        seq(r["q"]), seq(r["p"]), seq(r["a"]), seq(r["b"]), seq(r["xP"]), seq(r["yP"]))
d1 = "7A929ADE789BB9BE10ED359DD39A72C11B60961F49397EEE1D19CE9891EC3B28"
Q1 = ("7F2B49E270DB6D90D8595BEC458B50C58585BA1D4E9B788F6689DBD8E56FD80B", "26F1B489D6701DD185C8413A977B3CBBAF64D1C593D26627DFFB101A87FF77DA")
h1 = "2DFBC1B372D89A1188C09C52E0EEC61FCE52032AB1022E8E67ECE6672B043EE5"
k1 = "77105C9B20BCD3122823C8CF6FCC7B956DE33814E95B7FE64FED924594DCEAB3"
s1 = "41AA28D2F1AB148280CD9ED56FEDA41974053554A42767B83AD043FD39DC049301456C64BA4642A1653C235A98A60249BCD6D3F746B631DF928014F6C5BF9C40"
add("g12s_A1_pubkey", g12s_ctx(a1) + " IN EB!ScalarMulJ(E, NumBE(%s), P) = <<NumBE(%s), NumBE(%s)>>" % (hexo(d1), hexo(Q1[0]), hexo(Q1[1])))
add("g12s_A1_sign", g12s_ctx(a1) + " d == NumBE(%s) k == NumBE(%s) e == G12sE(%s, q) r == G12sROf(E, P, k, q) IN G12sSigOct(r, G12sSOf(r, d, k, e, q), 256) = %s" % (hexo(d1), hexo(k1), hexo(h1), hexo(s1)))
# the same signature as the result of the loop of 6.1 on a tape whose first draws are out of range (0, q); the chunks are
# little-endian
add("g12s_A1_signloop", g12s_ctx(a1) + " d == NumBE(%s) e == G12sE(%s, q) sg == G12sSign(E, P, q, d, e, %s \\o %s \\o %s) IN sg.ok /\\ sg.used = 3 /\\ sg.why = <<\"k=0\", \"k>=q\", \"used\">> /\\ G12sSigOct(sg.r, sg.s, 256) = %s" % (
    hexo(d1), hexo(h1), seq([0] * 32), seq(a1["q"]), hexrev(k1), hexo(s1)))
add("g12s_A1_verify", g12s_ctx(a1) + " IN G12sVerify(E, P, q, %s, %s, 256, <<NumBE(%s), NumBE(%s)>>)" % (hexo(h1), hexo(s1), hexo(Q1[0]), hexo(Q1[1])))
bad = bytearray(bytes.fromhex(s1)); bad[0] ^= 1
add("g12s_A1_altered", g12s_ctx(a1) + " IN ~G12sVerify(E, P, q, %s, %s, 256, <<NumBE(%s), NumBE(%s)>>)" % (hexo(h1), seq(bad), hexo(Q1[0]), hexo(Q1[1])))
# the verification equation cannot tell e from q - e (C becomes -C): a hash value H' = q - (H mod q) verifies as well
qa1 = le(a1["q"]); hneg = (qa1 - int(h1, 16) % qa1) % qa1
add("g12s_A1_negated_hash", g12s_ctx(a1) + " IN G12sVerify(E, P, q, %s, %s, 256, <<NumBE(%s), NumBE(%s)>>)" % (seq(hneg.to_bytes(32, "big")), hexo(s1), hexo(Q1[0]), hexo(Q1[1])))
a2 = std("g12s", "1.2.643.7.1.2.1.2.0")
d2 = "0BA6048AADAE241BA40936D47756D7C93091A0E8514669700EE7508E508B102072E8123B2200A0563322DAD2827E2714A2636B7BFD18AADFC62967821FA18DD4"
h2 = "3754F3CFACC9E0615C4F4A7C4D8DAB531B09B6F9C170C533A71D147035B0C5917184EE536593F4414339976C647C5D5A407ADEDB1D560C4FC6777D2972075B8C"
k2 = "0359E7F4B1410FEACC570456C6801496946312120B39D019D455986E364F365886748ED7A44B3E794434006011842286212273A6D14CF70EA3AF71BB1AE679F1"
s2 = ("2F86FA60A081091A23DD795E1E3C689EE512A3C82EE0DCC2643C78EEA8FCACD35492558486B20F1C9EC197C90699850260C93BCBCD9C5C3317E19344E173AE36"
      "1081B394696FFE8E6585E7A9362D26B6325F56778AADBC081C0BFBE933D52FF5823CE288E8C4F362526080DF7F70CE406A6EEB1F56919CB92A9853BDE73E5B4A")
add("g12s_A2_s_equation", g12s_ctx(a2) + " rs == G12sRS(%s, 512) IN G12sSigInRange(rs[1], rs[2], q) /\\ Eq(rs[2], G12sSOf(rs[1], NumBE(%s), NumBE(%s), G12sE(%s, q), q))" % (hexo(s2), hexo(d2), hexo(k2), hexo(h2)))

# ---- bign96 (vectors of the library's authors)
b96 = std("bign96", "1.2.112.0.2.0.34.101.45.3.0")
def b96_ctx(r):
    return "LET q == Num(%s) p == Num(%s) E == EB!BCurve(p, Num(%s), Num(%s)) G == EB!BPt(Zero, Num(%s))" % (seq(r["q"]), seq(r["p"]), seq(r["a"]), seq(r["b"]), seq(r["yG"]))
bd = "B1E1CDDFCF5DD7BA278390F292EEB72B661B79922933BFB9"
bQ = "4CED8FBBA1842BE58B4C0444F359CB14C6F2CE13B710F1172D2C962F53D13115DE14E56D9EB2628C9A884F668059EEA5"
bs = "4981BBDD8721C08FA347B89BD16FDDE647D310F55474C4182C1CC5BBD5642CC7E1B2"
bs2 = "D95DEF43F36A4C73D19399B79FB0C692CF44D615CCE5F45D474E7593D30E70B9B0C3"
oid = "06092A7000020022651F51"                                 # DER of 1.2.112.0.2.0.34.101.31.81
Qpt = "<<Num(%s), Num(%s)>>" % (hexo(bQ[:48]), hexo(bQ[48:]))
add("bign96_pubkey", b96_ctx(b96) + " IN EB!ScalarMulJ(E, Num(%s), G) = %s" % (hexo(bd), Qpt))
add("bign96_verify", b96_ctx(b96) + " IN B96Verify(E, G, q, %s, TakeN(BM!Hash(BM!HSlice(0, 13)), 24), %s, %s)" % (hexo(oid), hexo(bs), Qpt))
add("bign96_verify_det", b96_ctx(b96) + " IN B96Verify(E, G, q, %s, TakeN(BM!Hash(BM!HSlice(0, 13)), 24), %s, %s)" % (hexo(oid), hexo(bs2), Qpt))
bad = bytearray(bytes.fromhex(bs)); bad[0] ^= 1
add("bign96_altered", b96_ctx(b96) + " IN ~B96Verify(E, G, q, %s, TakeN(BM!Hash(BM!HSlice(0, 13)), 24), %s, %s)" % (hexo(oid), seq(bad), Qpt))

# ---- dstu B.1 (GF(2^163))
ds = std("dstu", "1.2.804.2.1.1.1.1.3.1.1.1.2.0")
def dstu_ctx(r):
    return "LET C == [F |-> DstuField(%s), A |-> %d, B |-> PNorm(POfOct(%s))] n == Num(%s) P == <<PNorm(POfOct(%s)), PNorm(POfOct(%s))>>" % (
        seq(r["f"]), r["A"], seq(r["B"]), seq(r["n"]), seq(r["Px"]), seq(r["Py"]))
dd = "0183F60FDF7951FF47D67193F8D073790C1C9B5A3E"
dQx = "057DE7FDE023FF929CB6AC785CE4B79CF64ABDC2DA"
dQy = "03E85444324BCF06AD85ABF6AD7B5F34770532B9AA"
dh = "003A2EB95B7180166DDF73532EEB76EDAEF52247FF"
de = "01025E40BD97DB012B7A1D79DE8E12932D247F61C6"
dsig = ("000000000000000000000002100D86957331832B8E8C230F5BD6A332B3615ACA"
        "00000000000000000000000274EA2C0CAA014A0D80A424F59ADE7A93068D08A7")
Qd = "<<PNorm(POfOct(%s)), PNorm(POfOct(%s))>>" % (hexrev(dQx), hexrev(dQy))
add("dstu_B1_base_point", dstu_ctx(ds) + " IN E2OnCurve(C, P[1], P[2]) /\\ E2IsO(E2Add(C, P, E2Neg(C, P))) /\\ LET D == E2Dbl(C, P) IN E2OnCurve(C, D[1], D[2]) /\\ E2Add(C, D, E2Neg(C, P)) = P")
add("dstu_B1_pubkey", dstu_ctx(ds) + " IN E2Neg(C, E2Mul(C, Num(%s), P)) = %s" % (hexrev(dd), Qd))
add("dstu_B1_order", dstu_ctx(ds) + " IN E2IsO(E2Mul(C, n, P))")
add("dstu_B1_sign", dstu_ctx(ds) + " sig == %s parts == DstuSigParts(sig, 512, n) h == DstuH(%s, 163) e == Num(%s) R == E2Mul(C, e, P) IN parts[3] /\\ Eq(parts[1], DstuTrunc(GMul(h, R[1], C.F), BitLen(n))) /\\ Eq(parts[2], DstuSOf(e, Num(%s), parts[1], n))" % (
    hexrev(dsig), hexrev(dh), hexrev(de), hexrev(dd)))
# the same signature as the result of the loop of section 11 on a tape whose first draws are trimmed to zero
add("dstu_B1_signloop", dstu_ctx(ds) + " sg == DstuSign(C, P, n, Num(%s), DstuH(%s, 163), %s \\o %s \\o %s) IN sg.ok /\\ sg.used = 3 /\\ sg.why = <<\"e=0\", \"e=0\", \"used\">> /\\ DstuSigOct(sg.r, sg.s, 512) = %s" % (
    hexrev(dd), hexrev(dh), seq([0] * 21), seq([0] * 20 + [0xFC]), hexrev(de), hexrev(dsig)))
add("dstu_B1_verify", dstu_ctx(ds) + " sig == %s parts == DstuSigParts(sig, 512, n) IN DstuVerifyEq(C, P, n, DstuH(%s, 163), parts[1], parts[2], %s)" % (hexrev(dsig), hexrev(dh), Qd))
add("dstu_B1_compress", dstu_ctx(ds) + " Q == %s xp == DstuCompress(C, Q[1], Q[2]) IN DstuRoundTripDomain(C, Q[1], Q[2]) /\\ DstuRecoverOk(C, xp, Q[1], Q[2]) /\\ ~DstuRecoverOk(C, xp, Q[1], PNorm(PAdd(Q[1], Q[2]))) /\\ DstuRecoverOk(C, PNorm(PAdd(xp, POne)), Q[1], PNorm(PAdd(Q[1], Q[2])))" % Qd)
# complete small field: trace is additive, tr(x^2) = tr(x), half of the elements have trace 0; z^2 + z has trace 0
add("trace_newton_163", dstu_ctx(ds) + " IN \\A k \\in {0, 1, 2, 80, 162} : GTr(PMonomial(k), C.F) = GTrDef(PMonomial(k), C.F) /\\ GTr(P[1], C.F) = GTrDef(P[1], C.F) /\\ GTr(P[2], C.F) = GTrDef(P[2], C.F)")
add("trace_newton_small", "\\A f \\in {<<7, 1, 0, 0>>, <<9, 4, 0, 0>>, <<8, 4, 3, 1>>, <<13, 4, 3, 1>>} : LET F == DstuField(f) IN \\A x \\in 0..(2 ^ f[1] - 1) : (f[1] > 9 /\\ x % 17 # 3) \\/ (GTr(<<x>>, F) = GTrDef(<<x>>, F))")
add("gf2_7_trace", "LET F == DstuField(<<7, 1, 0, 0>>) IN Cardinality({x \\in 0..127 : GTr(<<x>>, F) = 0}) = 64 /\\ \\A x \\in 0..127 : GTr(GSqr(<<x>>, F), F) = GTr(<<x>>, F) /\\ GTr(PAdd(GSqr(<<x>>, F), <<x>>), F) = 0")
# a complete tiny binary curve: the group law closes and every point has order dividing the group order
add("gred_equals_pmod", dstu_ctx(ds) + " F7 == DstuField(<<7, 1, 0, 0>>) F13 == DstuField(<<13, 4, 3, 1>>) IN GEq(GMul(P[1], P[2], C.F), PMulMod(P[1], P[2], C.F)) /\\ GEq(GSqr(P[2], C.F), PMulMod(P[2], P[2], C.F)) /\\ (\\A a \\in 0..127 : \\A b \\in {3, 77, 127} : GEq(GMul(<<a>>, <<b>>, F7), PMulMod(<<a>>, <<b>>, F7))) /\\ (\\A a \\in {1, 4097, 8191, 5555} : \\A b \\in {8191, 4096, 77} : GEq(GMul(<<a>>, <<b>>, F13), PMulMod(<<a>>, <<b>>, F13)))")
add("e2_ld_equals_affine", "LET C == [F |-> DstuField(<<5, 2, 0, 0>>), A |-> 1, B |-> <<1>>] C0 == [F |-> DstuField(<<5, 2, 0, 0>>), A |-> 0, B |-> <<5>>] IN \\A cv \\in {C, C0} : LET mm == PDeg(cv.F) pts == {xy \\in (0..(2 ^ mm - 1)) \\X (0..(2 ^ mm - 1)) : E2OnCurve(cv, PNorm(<<xy[1]>>), PNorm(<<xy[2]>>))} IN \\A xy \\in pts : \\A k \\in 0..24 : LET P == <<PNorm(<<xy[1]>>), PNorm(<<xy[2]>>)>> IN E2Mul(cv, OfInt(k), P) = E2MulA(cv, OfInt(k), P)")
add("e2_ld_B1", dstu_ctx(ds) + " IN E2Mul(C, OfInt(1000003), P) = E2MulA(C, OfInt(1000003), P)")
add("e2_tiny_group", "LET C == [F |-> DstuField(<<5, 2, 0, 0>>), A |-> 1, B |-> <<1>>] pts == {xy \\in (0..31) \\X (0..31) : E2OnCurve(C, PNorm(<<xy[1]>>), PNorm(<<xy[2]>>))} N == Cardinality(pts) + 1 IN N >= 22 /\\ N <= 44 /\\ \\A xy \\in pts : LET P == <<PNorm(<<xy[1]>>), PNorm(<<xy[2]>>)>> IN E2IsO(E2Mul(C, OfInt(N), P)) /\\ LET D == E2Dbl(C, P) IN E2IsO(D) \\/ E2OnCurve(C, D[1], D[2])")

# ---- the signing loops on complete tiny structures, where the repetitions are frequent: every signature the loop defines
# verifies, the branch list ends with "used" at the draw used, a discarded first draw does not influence the result, and
# every branch (r = 0 and s = 0 included) occurs
TINY2 = "LET C == [F |-> DstuField(<<5, 2, 0, 0>>), A |-> 1, B |-> <<1>>] n == OfInt(11) P == <<<<8>>, <<23>>>>"     # 22 points, P of order 11
add("dstu_tiny_order", TINY2 + " IN E2OnCurve(C, P[1], P[2]) /\\ E2IsO(E2Mul(C, n, P)) /\\ ~E2IsO(P)")
for dI in (1, 4, 10):                                                  # one vector per private key: evaluated in parallel
    add("dstu_tiny_signloop_d%d" % dI, TINY2 + " D == {%d} HS == {1, 7, %d, 31} T == (0..9) \\X (0..7)" % (dI, 13 if dI == 1 else 19) +
        " res == [c \\in D \\X HS \\X T |-> DstuSign(C, P, n, OfInt(c[1]), <<c[2]>>, <<c[3][1], c[3][2]>>)]"
        " Qof == [d \\in D |-> E2Neg(C, E2Mul(C, OfInt(d), P))]"
        " IN (\\A c \\in D \\X HS \\X T : LET sg == res[c] h == <<c[2]>> IN"
        " IF sg.ok THEN DstuSigInRange(sg.r, sg.s, n) /\\ DstuVerifyEq(C, P, n, h, sg.r, sg.s, Qof[c[1]]) /\\ Len(sg.why) = sg.used /\\ sg.why[sg.used] = \"used\""
        " /\\ (\\A j \\in 1..(sg.used - 1) : sg.why[j] \\in {\"e=0\", \"r=0\", \"s=0\"})"
        " /\\ (sg.used = 2 => LET s2 == DstuSign(C, P, n, OfInt(c[1]), h, <<c[3][2]>>) IN s2.ok /\\ s2.used = 1 /\\ Eq(s2.r, sg.r) /\\ Eq(s2.s, sg.s))"
        " ELSE Len(sg.why) = 2 /\\ \\A j \\in 1..2 : sg.why[j] \\in {\"e=0\", \"r=0\", \"s=0\"})"
        " /\\ (\\A w \\in {\"e=0\", \"r=0\", \"s=0\"} : \\E c \\in D \\X HS \\X T : res[c].why = <<w, \"used\">>)"
        " /\\ (\\A e \\in 8..9 : res[<<%d, 1, <<e, 1>>>>] = res[<<%d, 1, <<e - 8, 1>>>>])" % (dI, dI))
TINYP = "LET q == OfInt(19) p == OfInt(23) E == EB!BCurve(p, OfInt(3), OfInt(15)) P == EB!BPt(OfInt(2), OfInt(12))"           # 19 points (prime), abscissa 19 occurs: r = 0
add("g12s_tiny_order", TINYP + " IN EB!IsOnCurve(E, P[1], P[2]) /\\ EB!IsO(EB!ScalarMulJ(E, q, P)) /\\ ~EB!IsO(EB!ScalarMulJ(E, OfInt(18), P))")
add("g12s_tiny_signloop", TINYP + " D == {1, 7, 18} ES == {1, 5} T == (0..31) \\X {0, 3, 11, 25}"
    " res == [c \\in D \\X ES \\X T |-> G12sSign(E, P, q, OfInt(c[1]), OfInt(c[2]), <<c[3][1], c[3][2]>>)]"
    " Qof == [dI \\in D |-> EB!ScalarMulJ(E, OfInt(dI), P)]"
    " IN (\\A c \\in D \\X ES \\X T : LET sg == res[c] IN"
    " IF sg.ok THEN G12sSigInRange(sg.r, sg.s, q) /\\ G12sVerifyEq(E, P, q, OfInt(c[2]), sg.r, sg.s, Qof[c[1]]) /\\ Len(sg.why) = sg.used /\\ sg.why[sg.used] = \"used\""
    " /\\ (\\A j \\in 1..(sg.used - 1) : sg.why[j] \\in {\"k=0\", \"k>=q\", \"r=0\", \"s=0\"})"
    " /\\ (sg.used = 2 => LET s2 == G12sSign(E, P, q, OfInt(c[1]), OfInt(c[2]), <<c[3][2]>>) IN s2.ok /\\ s2.used = 1 /\\ Eq(s2.r, sg.r) /\\ Eq(s2.s, sg.s))"
    " ELSE Len(sg.why) = 2 /\\ \\A j \\in 1..2 : sg.why[j] \\in {\"k=0\", \"k>=q\", \"r=0\", \"s=0\"})"
    " /\\ (\\A w \\in {\"k=0\", \"k>=q\", \"r=0\", \"s=0\"} : \\E c \\in D \\X ES \\X T : res[c].why = <<w, \"used\">>)"
    " /\\ (\\A k \\in 32..63 : G12sSign(E, P, q, One, One, <<k, 3>>) = res[<<1, 1, <<k - 32, 3>>>>])")
add("signloop_gives_up", "LET q == OfInt(19) z == [i \\in 1..70 |-> 0] IN ~SignLoop(z, 1, LAMBDA j : [why |-> \"k=0\", r |-> Zero, s |-> Zero], LAMBDA w : TRUE).ok"
    " /\\ Len(SignLoop(z, 1, LAMBDA j : [why |-> \"k=0\", r |-> Zero, s |-> Zero], LAMBDA w : TRUE).why) = MaxTries"
    " /\\ SignLoop(z \\o <<1>>, 1, LAMBDA j : IF j = 71 THEN [why |-> \"used\", r |-> One, s |-> One] ELSE [why |-> \"k=0\", r |-> Zero, s |-> Zero], LAMBDA w : FALSE).used = 71")

# ---- pfok (test parameters, l = 638)
pf = std("pfok", "test")
pctx = "LET P == [l |-> %d, r |-> %d, n |-> %d, p |-> Num(%s), g |-> Num(%s)]" % (pf["l"], pf["r"], pf["n"], seq(pf["p"]), seq(pf["g"]))
ua1 = "011D4665B357DB361D106E32E353CD534B"
vb1 = "0739539C2AE25B53A05C8D16A14351D8EA86A1DD1893E08EE4A266F970E0243F8DF27F738F64E99E262E337792E5DD847CF2A83362C6EC3C024E47313AA49A1E0A2E637AD35E31EB5F034D889B666701"
key1 = "777BB35E950D3080C1E896BE4172DBD061423D3BFEF78F15E3F7A7F2FF7A242B"
add("pfok_ANON1", pctx + " IN Eq(PfokDH(P, Num(%s), Num(%s)), Num(%s))" % (hexrev(ua1), hexrev(vb1), hexrev(key1)))
xa = "0078E7101B4A8F421D2AF5740D6ED27680"
yb = "193E5E1E0839091BC7ABBDD09E8D22988812D37EDEB39E077130A244888BE1A753337AB5743C898D1CFC94743081344816AF5189A4E84D5B6EA310F72534D2E5E531B579CEA862EAB0251A3C20F0EC1D"
ua = "0127E33C0D7595566570936FEF0AA53A24"
vb = "0947264BEFA107E99616F347B6A05C62D7F5F26804D848FC4A7D81915F4546DD22949C07131D84F8B5A73A60ED61BC6E158E9B83F38C1EE6AD97F2BF771AA4FFB10A38298498D943995697FD0F65284C"
keym = "EA92D5BCEC18BB44514E096748DB3E21D6E7B9C97D604699BEA7D3B96C87E18B"
add("pfok_AUTH1", pctx + " IN Eq(PfokMTI(P, Num(%s), Num(%s), Num(%s), Num(%s)), Num(%s))" % (hexrev(xa), hexrev(ua), hexrev(yb), hexrev(vb), hexrev(keym)))
add("pfok_symmetry", pctx + " x == OfInt(123457) u == OfInt(7654321) IN Eq(PfokDH(P, x, PfokPub(P, u)), PfokDH(P, u, PfokPub(P, x)))")

if len(sys.argv) > 2:
    V = [(n, e) for n, e in V if re.search(sys.argv[2], n)]
names = [n for n, _ in V]
out = ["--------------------------- MODULE SchemeVectors ---------------------------",
       "(* GENERATED by tools/gen_scheme_vectors.py.  Anchors of ref/Schemes.tla evaluated by TLC (one vector per state):",
       "   appendix examples of GOST R 34.10-2012 (A.1, A.2), DSTU 4145-2002 (B.1), the bign96 and pfok reference vectors, tape and",
       "   hash-reduction facts, group laws on complete tiny structures.  A failing vector means the SPECIFICATION is wrong. *)",
       "EXTENDS Schemes, TLC, IOUtils", ""]
for n, e in V:
    out.append("V_%s(dummy) == %s" % (n, e))
HEAVY = ["g12s_A1_negated_hash", "g12s_A1_pubkey", "g12s_A1_verify", "g12s_A1_altered", "bign96_verify_det", "bign96_altered", "dstu_B1_order", "dstu_B1_verify",
         "dstu_B1_pubkey", "pfok_symmetry"]
out += ["", "AllNames == {%s}" % ", ".join('"%s"' % n for n in names),
        "\\* VSEL=quick leaves out the vectors that cost several scalar multiplications (all of them run in the thorough tier)",
        "HeavyNames == {%s}" % ", ".join('"%s"' % n for n in HEAVY if n in names),
        'VecNames == IF "VSEL" \\in DOMAIN IOEnv /\\ IOEnv.VSEL = "quick" THEN AllNames \\ HeavyNames ELSE AllNames',
        "VecOk(n) == CASE " + "\n          [] ".join('n = "%s" -> V_%s(0)' % (n, n) for n in names), "",
        "VARIABLES phase, name, ok", 'VInit == phase = 0 /\\ name = "" /\\ ok = TRUE',
        "VNext == \\/ phase = 0 /\\ phase' = 1 /\\ name' \\in VecNames /\\ ok' = TRUE",
        "         \\/ phase = 1 /\\ phase' = 2 /\\ name' = name /\\ ok' = VecOk(name)", "VecGood == ok",
        "============================================================================="]
dst = os.path.join(os.path.dirname(os.path.abspath(__file__)), "..", "spec", "ref", "SchemeVectors.tla")
open(dst, "w").write("\n".join(out) + "\n")
open(dst[:-4] + ".cfg", "w").write("INIT VInit\nNEXT VNext\nINVARIANT VecGood\n")
print("%d vectors" % len(V))
