#!/usr/bin/env python3
"""Regenerates the findings table of DESIGN.md (between the FINDINGS markers) from KNOWN_FINDINGS.txt."""
import re
rows = []
for l in open("/verif/KNOWN_FINDINGS.txt"):
    m = re.match(r"fixed:\s+property=(\S+)\s+(\S+)\s+(.*)", l.strip())
    if m:
        rows.append(m.groups())
rows.sort(key=lambda r: r[0])
# open findings (recorded, not repaired): grouped by property and text
openf = {}
for l in open("/verif/KNOWN_FINDINGS.txt"):
    m = re.match(r"finding:\s+property=(\S+)\s+key=(\S+)\s+(.*)", l.strip())
    if m:
        openf.setdefault((m.group(1), m.group(3)), []).append(m.group(2))
tab = ["| property | fix commit | what failed on the pinned tree (failing input / key of the check) |", "|---|---|---|"]
for p, c, t in rows:
    tab.append("| %s | %s | %s |" % (p, c, t.replace("|", "\\|")))
for (p, t), keys in sorted(openf.items()):
    tab.append("| %s | OPEN (known finding, keys: %s) | %s |" % (p, ", ".join("`%s`" % k for k in keys), t.replace("|", "\\|")))
s = open("/verif/DESIGN.md").read()
a, b = "<!-- FINDINGS:BEGIN -->", "<!-- FINDINGS:END -->"
s = s[:s.index(a) + len(a)] + "\n" + "\n".join(tab) + "\n" + s[s.index(b):]
open("/verif/DESIGN.md", "w").write(s)
print(len(rows), "findings")
