#!/usr/bin/env python3
"""tools/settimings.py <timeall output> : write the measured quick-tier wall times into the last column of DESIGN.md 0.5"""
import re, sys
t = {}
for l in open(sys.argv[1]):
    m = re.match(r"(C\d\d) (\d+)s ", l)
    if m:
        t[m.group(1)] = int(m.group(2))
p = "/verif/DESIGN.md"; s = open(p).read().split("\n"); inside = False
for i, l in enumerate(s):
    if l.startswith("### 0.5 "):
        inside = True
    elif l.startswith("### ") and inside:
        inside = False
    if inside:
        m = re.match(r"\| (C\d\d) \|", l)
        if m and m.group(1) in t:
            cells = l.rstrip().rstrip("|").split("|")
            cells[-1] = " %d s " % t[m.group(1)]
            s[i] = "|".join(cells) + "|"
open(p, "w").write("\n".join(s))
print("updated", len(t))
