#!/bin/sh
# Runs the repository's own test suite with the verification guard OFF (plain cmake build,
# no -DBEE2_VERIF) from /repo's current working tree; prints one line per sub-test.
set -e
B=/verif/build/baseline
rm -rf "$B"; mkdir -p "$B"
cmake -G Ninja -S /repo -B "$B" -DCMAKE_BUILD_TYPE=Release > "$B/cmake.log" 2>&1
cmake --build "$B" -j16 > "$B/build.log" 2>&1
cd "$B"
ctest --test-dir "$B" -j8 --timeout 900 --output-on-failure > "$B/ctest.log" 2>&1 || true
# the single ctest entry runs testbee2, which prints "<name>Test: OK/Err" per sub-test
grep -E "^(bee2|[a-zA-Z0-9]+Test|.*: (OK|Err))" "$B/ctest.log" || true
"$B/test/testbee2" > "$B/testbee2.log" 2>&1 || true
N_OK=$(grep -c ": OK" "$B/testbee2.log" || true)
N_ERR=$(grep -c ": Err" "$B/testbee2.log" || true)
echo "baseline (guard off): $N_OK passed, $N_ERR failed"
test "$N_ERR" = "0" && test "$N_OK" -ge 38
