#!/usr/bin/env python3
"""Shared machinery of the bee2 verification framework (stdlib only).

build(variant)        -> directory with libbee2.a compiled from /repo's *current* tree
harness(name, ...)    -> binary linking harness C files against that library
tlc(...)              -> run TLC on a module/config, parse its summary and PrintT lines
Evidence              -> writes /verif/evidence/<id>.json
Findings              -> reads /verif/KNOWN_FINDINGS.txt
"""
import hashlib, json, os, re, shutil, subprocess, sys, time, glob, random, uuid

VERIF = os.path.dirname(os.path.dirname(os.path.abspath(__file__)))
REPO = os.environ.get("BEE2_REPO", "/repo")
BUILD = os.path.join(VERIF, "build")
SPEC = os.path.join(VERIF, "spec")
HARNESS = os.path.join(VERIF, "harness")
EVID = os.path.join(VERIF, "evidence")
NCPU = os.cpu_count() or 4
TLA_JAR = "/opt/veriftools/tla/tla2tools.jar"
TLA_CP = TLA_JAR + ":/opt/veriftools/tla/CommunityModules-deps.jar"

GUARD = "BEE2_VERIF"

# sources #included by bash_f.c, never compiled on their own
SKIP_SRC = {"bash_f32.c", "bash_f64.c", "bash_favx2.c", "bash_favx512.c",
            "bash_fneon.c", "bash_fsse2.c"}

COMMON = ["-fno-strict-aliasing", "-fPIC", "-D" + GUARD, "-w"]
VARIANTS = {
    # name: (cc, flags)
    "rel":   ("gcc",   ["-O2", "-DNDEBUG"]),
    "rel3":  ("gcc",   ["-O3", "-DNDEBUG"]),
    "dbg":   ("gcc",   ["-O1", "-g"]),
    "asan":  ("clang", ["-O1", "-g", "-fsanitize=address,undefined", "-fno-sanitize=alignment,pointer-overflow",
                        "-fno-sanitize-recover=undefined", "-fno-omit-frame-pointer", "-fno-common",
                        "-DBEE2_VERIF_EXACT_BLOB"]),
    # page-rounded blobs (the shipped BLOB_PAGE_SIZE): the blob bookkeeping itself is under test
    "asanpage": ("clang", ["-O1", "-g", "-fsanitize=address,undefined", "-fno-sanitize=alignment,pointer-overflow",
                        "-fno-sanitize-recover=undefined", "-fno-omit-frame-pointer", "-fno-common"]),
    "asanw32": ("clang", ["-O1", "-g", "-fsanitize=address,undefined", "-fno-sanitize=alignment,pointer-overflow",
                        "-fno-sanitize-recover=undefined", "-fno-omit-frame-pointer", "-fno-common",
                        "-DBEE2_VERIF_EXACT_BLOB", "-DBEE2_VERIF_W32"]),
    "asanrel": ("clang", ["-O1", "-g", "-DNDEBUG", "-fsanitize=address,undefined", "-fno-sanitize=alignment,pointer-overflow",
                        "-fno-sanitize-recover=undefined", "-fno-omit-frame-pointer", "-fno-common",
                        "-DBEE2_VERIF_EXACT_BLOB"]),
    "tsan":  ("clang", ["-O1", "-g", "-DNDEBUG", "-fsanitize=thread"]),
    "fast":  ("gcc",   ["-O2", "-DNDEBUG", "-DSAFE_FAST"]),
    "w32":   ("gcc",   ["-O2", "-DNDEBUG", "-DBEE2_VERIF_W32"]),
    "w32dbg": ("gcc",  ["-O1", "-g", "-DBEE2_VERIF_W32"]),
    "base":  ("gcc",   []),                      # flags supplied through extra= (C19 thorough product)
    "O0":    ("gcc",   ["-O0", "-DNDEBUG"]),
    "O0dbg": ("gcc",   ["-O0"]),
    "O1":    ("gcc",   ["-O1", "-DNDEBUG"]),
    "O3dbg": ("gcc",   ["-O3"]),
    "clangO2": ("clang", ["-O2", "-DNDEBUG"]),
    "bash32":  ("gcc", ["-O2", "-DNDEBUG", "-DBASH_32"]),
    "bashsse2": ("gcc", ["-O2", "-DNDEBUG", "-DBASH_SSE2", "-msse2"]),
    "bashavx2": ("gcc", ["-O2", "-DNDEBUG", "-DBASH_AVX2", "-mavx2"]),
    "bashavx512": ("gcc", ["-O2", "-DNDEBUG", "-DBASH_AVX512", "-mavx512f",
                           "-fno-asynchronous-unwind-tables"]),
    "fastw32": ("gcc", ["-O2", "-DNDEBUG", "-DSAFE_FAST", "-DBEE2_VERIF_W32"]),
}


def log(*a):
    print(*a, file=sys.stderr, flush=True)


def sh(cmd, **kw):
    return subprocess.run(cmd, **kw)


def repo_sources():
    out = []
    for root, _, files in os.walk(os.path.join(REPO, "src")):
        for f in sorted(files):
            if f.endswith(".c") and f not in SKIP_SRC:
                out.append(os.path.join(root, f))
    return sorted(out)


def tree_hash(extra=""):
    h = hashlib.sha256()
    for top in ("src", "include"):
        for root, dirs, files in os.walk(os.path.join(REPO, top)):
            dirs.sort()
            for f in sorted(files):
                p = os.path.join(root, f)
                h.update(p.encode())
                with open(p, "rb") as fh:
                    h.update(fh.read())
    h.update(extra.encode())
    return h.hexdigest()[:16]


def _compile_many(jobs):
    """jobs: list of (cmd, src). Runs NCPU at a time; returns list of failures."""
    procs, fails = [], []
    jobs = list(jobs)
    while jobs or procs:
        while jobs and len(procs) < NCPU:
            cmd, src = jobs.pop()
            procs.append((subprocess.Popen(cmd, stdout=subprocess.PIPE, stderr=subprocess.STDOUT), src, cmd))
        p, src, cmd = procs.pop(0)
        out, _ = p.communicate()
        if p.returncode != 0:
            fails.append((src, out.decode(errors="replace")))
    return fails


def variant_flags(variant, extra=()):
    cc, fl = VARIANTS[variant]
    return cc, fl + COMMON + list(extra)


def build(variant="rel", extra=()):
    """Compile /repo/src into a static library for the variant; cached by tree hash."""
    cc, flags = variant_flags(variant, extra)
    key = tree_hash(cc + " ".join(flags))
    tag = variant + ("+" + hashlib.sha256(" ".join(extra).encode()).hexdigest()[:6] if extra else "")
    d = os.path.join(BUILD, "lib", "%s-%s" % (tag, key))
    lib = os.path.join(d, "libbee2.a")
    if os.path.exists(lib):
        return d
    # drop stale caches of the same variant
    for old in glob.glob(os.path.join(BUILD, "lib", tag + "-*")):
        if re.match(r"^[0-9a-f]{16}$", os.path.basename(old)[len(tag) + 1:]) and time.time() - os.path.getmtime(old) > 900:
            shutil.rmtree(old, ignore_errors=True)
    tmp = d + ".tmp%d_%s" % (os.getpid(), uuid.uuid4().hex[:8])      # unique per call: threads of one process may build concurrently
    os.makedirs(tmp, exist_ok=True)
    jobs, objs = [], []
    inc = ["-I" + os.path.join(REPO, "include"), "-I" + os.path.join(REPO, "src")]
    for s in repo_sources():
        o = os.path.join(tmp, os.path.relpath(s, os.path.join(REPO, "src")).replace("/", "_")[:-2] + ".o")
        objs.append(o)
        jobs.append(([cc] + flags + inc + ["-c", s, "-o", o], s))
    t0 = time.time()
    fails = _compile_many(jobs)
    if fails:
        shutil.rmtree(tmp, ignore_errors=True)
        raise BuildError("library build (%s) failed:\n%s\n%s" % (variant, fails[0][0], fails[0][1][-3000:]))
    r = sh(["ar", "rcs", os.path.join(tmp, "libbee2.a")] + objs, capture_output=True)
    if r.returncode != 0:
        raise BuildError("ar failed: " + r.stderr.decode())
    try:
        os.rename(tmp, d)
    except OSError:
        shutil.rmtree(tmp, ignore_errors=True)          # somebody else finished the same build first
    if not os.path.exists(lib):
        raise BuildError("library build (%s): %s missing after the build" % (variant, lib))
    log("[build] %s in %.1fs -> %s" % (variant, time.time() - t0, d))
    return d


class BuildError(Exception):
    pass


def harness(name, sources, variant="rel", extra=(), libs=(), lib_extra=()):
    """Compile harness sources (paths relative to /verif/harness) and link against the library."""
    libdir = build(variant, lib_extra)
    cc, flags = variant_flags(variant, list(extra) + list(lib_extra))
    srcs = [s if os.path.isabs(s) else os.path.join(HARNESS, s) for s in sources]
    h = hashlib.sha256()
    for s in srcs + glob.glob(os.path.join(HARNESS, "*.h")):
        with open(s, "rb") as fh:
            h.update(fh.read())
    h.update((libdir + " ".join(flags) + " ".join(libs)).encode())
    out = os.path.join(BUILD, "bin", "%s-%s-%s" % (name, variant, h.hexdigest()[:12]))
    if os.path.exists(out):
        return out
    os.makedirs(os.path.dirname(out), exist_ok=True)
    for old in glob.glob(os.path.join(BUILD, "bin", "%s-%s-*" % (name, variant))):
        try:
            if time.time() - os.path.getmtime(old) > 900:
                os.remove(old)
        except OSError:
            pass
    inc = ["-I" + os.path.join(REPO, "include"), "-I" + os.path.join(REPO, "src"), "-I" + HARNESS]
    cmd = [cc] + flags + inc + srcs + [os.path.join(libdir, "libbee2.a")] + list(libs) + ["-lpthread", "-o", "@TMP@"]
    tmpo = out + ".tmp%d_%s" % (os.getpid(), uuid.uuid4().hex[:8])
    cmd[-1] = tmpo
    r = sh(cmd, capture_output=True)
    if r.returncode != 0:
        raise BuildError("harness %s failed:\n%s" % (name, r.stderr.decode()[-4000:]))
    os.rename(tmpo, out)
    return out


# ---------------------------------------------------------------- TLC

TLA_DIRS = [os.path.join(SPEC, d) for d in ("lib", "ref", "sm", "mon", "mc", "gen", "trace")]


class TlcResult:
    def __init__(self):
        self.rc = None
        self.out = ""
        self.generated = 0
        self.distinct = 0
        self.depth = 0
        self.violation = None      # text of first violation
        self.prints = []           # values printed by PrintT (raw strings)
        self.error = None
        self.coverage = {}
        self.wall = 0.0

    @property
    def ok(self):
        return self.rc == 0

    def jsons(self, prefix="@J "):
        """PrintT lines of the form "@J {...}" (quoted string) -> parsed objects."""
        res = []
        for p in self.prints:
            s = p
            if s.startswith('"') and s.endswith('"'):
                s = json.loads(s) if False else s[1:-1].replace('\\"', '"').replace("\\\\", "\\")
            if s.startswith(prefix):
                try:
                    res.append(json.loads(s[len(prefix):]))
                except Exception:
                    pass
        return res


def tlc(module, cfg=None, env=None, workers=None, timeout=1100, simulate=None, depth=None,
        seed=None, coverage=False, deadlock=False, extra=(), xmx="12g", cwd=None, dfs=False, quiet=False):
    """Run TLC.  module: path to .tla (absolute or relative to /verif/spec/*)."""
    mpath = module if os.path.isabs(module) else find_spec(module)
    mdir = os.path.dirname(mpath)
    cfgp = cfg if cfg else mpath[:-4] + ".cfg"
    if not os.path.isabs(cfgp):
        cfgp = os.path.join(mdir, cfgp)
    import uuid
    meta = os.path.join(BUILD, "tlc", "m%d_%s" % (os.getpid(), uuid.uuid4().hex[:12]))
    os.makedirs(meta, exist_ok=True)
    libpath = os.pathsep.join(TLA_DIRS)
    jopts = ["-Xss64m", "-Xmx" + xmx, "-XX:+UseParallelGC", "-DTLA-Library=" + libpath]
    if dfs:
        jopts.append("-Dtlc2.tool.queue.IStateQueue=StateDeque")
    cmd = ["java"] + jopts + ["-cp", TLA_CP, "tlc2.TLC", "-metadir", meta,
           "-workers", str(workers or NCPU), "-config", cfgp, "-noGenerateSpecTE"]
    if not deadlock:
        cmd.append("-deadlock")          # disables deadlock checking
    if coverage:
        cmd += ["-coverage", "1"]
    if simulate:
        cmd += ["-simulate", "num=%d" % simulate]
        if depth:
            cmd += ["-depth", str(depth)]
    if seed is not None:
        cmd += ["-seed", str(seed)]
    cmd += list(extra) + [mpath]
    e = dict(os.environ)
    e.pop("JAVA_TOOL_OPTIONS", None)
    if env:
        e.update({k: str(v) for k, v in env.items()})
    res = TlcResult()
    t0 = time.time()
    try:
        p = subprocess.run(["timeout", "-k", "10", str(timeout)] + cmd, env=e, cwd=cwd or mdir,
                           stdout=subprocess.PIPE, stderr=subprocess.STDOUT)
        res.rc = p.returncode
        res.out = p.stdout.decode(errors="replace")
    finally:
        shutil.rmtree(meta, ignore_errors=True)
    res.wall = time.time() - t0
    _parse_tlc(res)
    if not quiet:
        log("[tlc] %s rc=%s states=%d/%d %.1fs" % (os.path.basename(mpath), res.rc, res.generated, res.distinct, res.wall))
    return res


def find_spec(name):
    if not name.endswith(".tla"):
        name += ".tla"
    for d in TLA_DIRS:
        p = os.path.join(d, name)
        if os.path.exists(p):
            return p
    raise FileNotFoundError(name)


_re_states = re.compile(r"(\d[\d,]*) states generated, (\d[\d,]*) distinct states found")
_re_depth = re.compile(r"The depth of the complete state graph search is (\d+)")


def _parse_tlc(res):
    out = res.out
    for m in _re_states.finditer(out):
        res.generated = int(m.group(1).replace(",", ""))
        res.distinct = int(m.group(2).replace(",", ""))
    m = _re_depth.search(out)
    if m:
        res.depth = int(m.group(1))
    lines = out.splitlines()
    for i, l in enumerate(lines):
        if l.startswith("Error:"):
            if res.violation is None:
                res.violation = "\n".join(lines[i:i + 60])
        if l.startswith('"@') or l.startswith("<<\"@") :
            res.prints.append(l)
    # coverage lines:  <Action line ..., col ... of module M>: distinct:generated
    for m in re.finditer(r"^<(\w+) line \d+, col \d+ to line \d+, col \d+ of module (\w+)>: (\d+):(\d+)", out, re.M):
        res.coverage[m.group(2) + "!" + m.group(1)] = (int(m.group(3)), int(m.group(4)))
    if res.rc not in (0, None) and res.violation is None:
        res.error = out[-3000:]


def tlc_infra_failed(res):
    """TLC did not reach a verdict (parse error, OOM, timeout, ...)."""
    if res.rc == 0:
        return False
    if res.rc in (124, 137):
        return True
    # rc 12 = safety violation, 13 = liveness violation, 11 = deadlock
    if res.rc in (10, 11, 12, 13):
        return False
    return True


# ---------------------------------------------------------------- evidence / findings

class Evidence:
    def __init__(self, pid, tier, seed, level):
        self.d = {"property_id": pid, "tier": tier, "seed": int(seed), "level": level,
                  "coverage": {"samples": []}, "assumptions": [], "wall_s": 0.0, "violations": 0}
        self.t0 = time.time()

    @property
    def cov(self):
        return self.d["coverage"]

    def add(self, key, n):
        self.cov[key] = self.cov.get(key, 0) + int(n)

    def sample(self, s, cap=6):
        if len(self.cov["samples"]) < cap:
            self.cov["samples"].append(s)

    def assume(self, s):
        if s not in self.d["assumptions"]:
            self.d["assumptions"].append(s)

    def write(self):
        self.d["wall_s"] = round(time.time() - self.t0, 2)
        # schema hygiene: typed keys of the evidence schema keep their types (free text goes to *_scope / *_note keys)
        cov = self.d.get("coverage", {})
        if "exhaustive" in cov and not isinstance(cov["exhaustive"], bool):
            cov["exhaustive_scope"] = str(cov["exhaustive"])
            cov["exhaustive"] = False
        for k in ("evaluations", "distinct_nontrivial", "states", "transitions", "traces_validated_against_impl", "obligations",
                  "discharged", "programs", "disagreements_checked"):
            if k in cov and not (isinstance(cov[k], int) and not isinstance(cov[k], bool)):
                try:
                    cov[k] = max(0, int(cov[k]))
                except (TypeError, ValueError):
                    cov[k + "_note"] = str(cov.pop(k))
        for k in ("rule", "explanation", "checker_cmd"):
            if k in cov and not isinstance(cov[k], str):
                cov[k] = json.dumps(cov[k], default=str)
        os.makedirs(EVID, exist_ok=True)
        p = os.path.join(EVID, self.d["property_id"] + ".json")
        with open(p + ".tmp", "w") as f:
            json.dump(self.d, f, indent=1, sort_keys=True, default=str)
        os.replace(p + ".tmp", p)


class Findings:
    """KNOWN_FINDINGS.txt: lines  'finding: property=Cxx key=<identity> <text>'  and
    'fixed: property=Cxx <commit> <text>' (fixed lines suppress nothing)."""

    def __init__(self):
        self.known = {}
        p = os.path.join(VERIF, "KNOWN_FINDINGS.txt")
        if os.path.exists(p):
            for l in open(p):
                l = l.strip()
                m = re.match(r"finding:\s+property=(\S+)\s+key=(\S+)\s+(.*)", l)
                if m:
                    self.known.setdefault(m.group(1), {})[m.group(2)] = m.group(3)

    def match(self, pid, key):
        return self.known.get(pid, {}).get(key)


class Ctx:
    """Per-run context handed to checks/Cxx.py: tier, seed, evidence, violation reporting."""

    def __init__(self, pid, tier, seed, level):
        self.pid, self.tier, self.seed = pid, tier, int(seed)
        self.quick = tier == "quick"
        self.ev = Evidence(pid, tier, seed, level)
        self.findings = Findings()
        self.nviol = 0
        self.inconclusive = []
        self.rng = random.Random(self.seed)
        self.work = os.path.join(BUILD, "work", pid)
        # one run of a given check at a time (runs share build/work/<id>): later runs wait for the lock
        os.makedirs(os.path.join(BUILD, "work"), exist_ok=True)
        import fcntl
        self._lock = open(os.path.join(BUILD, "work", pid + ".lock"), "w")
        fcntl.flock(self._lock, fcntl.LOCK_EX)
        shutil.rmtree(self.work, ignore_errors=True)
        os.makedirs(self.work, exist_ok=True)
        self.replays = os.path.join(VERIF, "replays")
        os.makedirs(self.replays, exist_ok=True)
        self._seen_known = set()

    def path(self, name):
        return os.path.join(self.work, name)

    def violation(self, key, text, replay_data=None):
        """Report one disagreement between code and specification.
        key: stable identity of the failing input / call site (used by KNOWN_FINDINGS)."""
        known = self.findings.match(self.pid, key)
        if known is not None:
            if key not in self._seen_known:
                self._seen_known.add(key)
                print("KNOWN-FINDING: property=%s key=%s %s" % (self.pid, key, known), flush=True)
            return False
        self.nviol += 1
        rp = os.path.join(self.replays, "%s_%s.txt" % (self.pid, re.sub(r"[^A-Za-z0-9_.-]", "_", key)[:80]))
        with open(rp, "w") as f:
            f.write("# property=%s key=%s\n# %s\n" % (self.pid, key, text))
            if replay_data is not None:
                f.write(replay_data if isinstance(replay_data, str) else json.dumps(replay_data, indent=1))
                f.write("\n")
        if self.nviol <= 20:
            print("VIOLATION property=%s replay=%s" % (self.pid, rp), flush=True)
            log("  -> %s: %s" % (key, text[:500]))
        return True

    def note_inconclusive(self, what):
        self.inconclusive.append(what)
        log("[inconclusive] " + what)

    def finish(self):
        self.ev.d["violations"] = self.nviol
        if self.inconclusive:
            self.ev.cov["inconclusive"] = self.inconclusive[:20]
        self.ev.write()
        return 1 if self.nviol else 0


def run_harness(binpath, args=(), stdin=None, timeout=600, env=None, out_path=None):
    e = dict(os.environ)
    e.setdefault("ASAN_OPTIONS", "detect_leaks=0:abort_on_error=0:exitcode=86:allocator_may_return_null=1")
    e.setdefault("UBSAN_OPTIONS", "print_stacktrace=1:halt_on_error=1:exitcode=87")
    if env:
        e.update({k: str(v) for k, v in env.items()})
    if out_path:
        with open(out_path, "wb") as fo:
            p = subprocess.run(["timeout", "-k", "5", str(timeout), binpath] + [str(a) for a in args],
                               input=stdin, stdout=fo, stderr=subprocess.PIPE, env=e)
        return p.returncode, None, p.stderr.decode(errors="replace")
    p = subprocess.run(["timeout", "-k", "5", str(timeout), binpath] + [str(a) for a in args],
                       input=stdin, stdout=subprocess.PIPE, stderr=subprocess.PIPE, env=e)
    return p.returncode, p.stdout.decode(errors="replace"), p.stderr.decode(errors="replace")


def read_ndjson(path):
    out = []
    with open(path) as f:
        for l in f:
            l = l.strip()
            if l:
                out.append(json.loads(l))
    return out


def write_ndjson(path, rows):
    with open(path, "w") as f:
        for r in rows:
            f.write(json.dumps(r, separators=(",", ":")) + "\n")


def shard(rows, n):
    n = max(1, min(n, len(rows)))
    return [rows[i::n] for i in range(n)]


def parse_tlc_trace(out):
    """Parse the 'behavior up to this point' of a TLC violation into a list of
    (action_label, {var: value_string})."""
    states = []
    cur = None
    for l in out.splitlines():
        m = re.match(r"^State (\d+): <?(.*?)>?$", l)
        if m:
            cur = (m.group(2), {})
            states.append(cur)
            continue
        if cur is not None:
            m = re.match(r"^/\\ (\w+) = (.*)$", l)
            if m:
                cur[1][m.group(1)] = m.group(2).strip()
            elif re.match(r"^(\w+) = (.*)$", l) and not l.startswith("The "):
                m = re.match(r"^(\w+) = (.*)$", l)
                cur[1][m.group(1)] = m.group(2).strip()
            elif l.strip() == "" or l.startswith("  "):
                continue
            elif l.startswith("Error:") or l.startswith("The coverage") or l.startswith("Finished"):
                cur = None
    return states


def violated_property(out):
    m = re.search(r"Error: (?:Action property|Invariant|Temporal property) (\w+) (?:is violated|was violated)", out)
    if m:
        return m.group(1)
    m = re.search(r"Error: Invariant (\w+) is violated", out)
    if m:
        return m.group(1)
    m = re.search(r"Error: The invariant of (\w+) is equal to FALSE", out)
    return m.group(1) if m else None


def parallel(fns, n=None):
    """Run zero-argument callables in threads; returns their results in order."""
    import concurrent.futures as cf
    with cf.ThreadPoolExecutor(max_workers=n or NCPU) as ex:
        futs = [ex.submit(f) for f in fns]
        return [f.result() for f in futs]


def validate_lines(ctx, module, rows_or_path, env=None, timeout=1100, cfg=None, workers=None):
    """Pattern F: run a two-level trace module (variables phase, idx, ok; PrintT(<<"@BAD", idx>>))
    over an ndjson file.  Returns (n_evaluated, bad_indices(1-based), TlcResult).
    n_evaluated < number of lines means TLC gave no verdict for some lines (infrastructure)."""
    if isinstance(rows_or_path, str):
        path = rows_or_path
        with open(path) as f:
            n = sum(1 for l in f if l.strip())
    else:
        path = ctx.path("lines_%s_%d_%s.ndjson" % (module, len(os.listdir(ctx.work)), uuid.uuid4().hex[:6]))
        write_ndjson(path, rows_or_path)
        n = len(rows_or_path)
    if n == 0:
        r = TlcResult(); r.rc = 0
        return 0, [], r
    e = {"TRACE": path}
    if env:
        e.update(env)
    r = tlc(module, cfg=cfg, env=e, timeout=timeout, workers=workers, quiet=True)
    bad = sorted(set(int(x) for x in re.findall(r'<<\s*"@BAD",\s*(\d+)', r.out)))
    if r.rc != 0 or r.distinct != 1 + 2 * n:
        # evaluation error inside TLC (spec applied to an unexpected shape) or timeout
        evaluated = max(0, (r.distinct - 1 - n)) if r.distinct > n else 0
        log("[validate_lines] %s: rc=%s distinct=%d expected=%d\n%s" % (module, r.rc, r.distinct, 1 + 2 * n,
            (r.violation or r.error or "")[:1500]))
        return evaluated, bad, r
    return n, bad, r


def failed_vectors(out, namevar="name", okvar="ok"):
    """Names of the vectors whose `ok` is FALSE in a TLC run with -continue (one vector per state).
    Independent of the order in which TLC prints the variables."""
    bad = []
    for blk in re.split(r"\n(?=State \d+:|Error:)", out):
        if re.search(r"/\\ %s = FALSE" % okvar, blk):
            m = re.search(r'/\\ %s = "?([\w.:-]+)"?' % namevar, blk)
            bad.append(m.group(1) if m else "?")
    return sorted(set(bad))
