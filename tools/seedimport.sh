#!/bin/sh
# tools/seedimport.sh <scratch worktree> <property id> : copy seeded_<k> directories of a seeding agent into
# /verif/seeded/<id>_<next index> (patch.diff, demo.c, meta.json only), print the new directories.
WT="$1"; P="$2"
for S in "$WT"/seeded_*; do
  [ -f "$S/patch.diff" ] || continue
  K=1; while [ -e /verif/seeded/${P}_$K ]; do K=$((K+1)); done
  D=/verif/seeded/${P}_$K; mkdir -p "$D"
  cp "$S/patch.diff" "$S/meta.json" "$D/" 2>/dev/null
  cp "$S"/demo*.c "$D/" 2>/dev/null
  echo "$D"
done
