#!/usr/bin/env python3
"""Generate spec/sm/ErrContract.tla from the headers of bee2.

  python3 tools/gen_errcontract.py [--repo /repo] [--out spec/sm/ErrContract.tla] [--dump]

For every err_t function of include/bee2/crypto/*.h (+ core/rng.h, core/der.h where err_t) the
doc comment in front of the prototype is parsed: `\\expect{ERR_X} cond.` clauses (single line or
itemised list "- cond;" ... "." ) become contract clauses.  A clause whose text is a C-like
predicate over the function's scalar parameters ("len == 16 || len == 24 || len == 32",
"count % 16 == 0 && count >= 16", "8 <= mac_len && mac_len <= 16") is translated into a TLA+
predicate over the record `a` of logged arguments.  Prose clauses ("ключ privkey корректен") are
mapped by the OVERRIDES table below to a named boolean flag of the driver (ok_privkey, ...) or left
undriven (then the clause is listed with pred TRUE and `driven |-> FALSE`, and no case violating it
is ever generated: E1 never demands more than the header states).

The hand-written part (DRIVE) gives per driven function: the baseline values of the scalar
arguments (a valid call, taken from /repo/test/crypto/*_test.c), extra sweep values and the
secret / authentication attributes.  Boundary values are derived from the constants of the
header's predicates: every constant c compared with a variable yields c-1, c, c+1, plus 0 and 1.
"""
import os, re, sys, json, glob, argparse

HEADERS = ["crypto/belt.h", "crypto/bash.h", "crypto/brng.h", "crypto/botp.h", "crypto/bels.h",
           "crypto/bign.h", "crypto/bign96.h", "crypto/bake.h", "crypto/bpki.h", "crypto/btok.h",
           "crypto/g12s.h", "crypto/dstu.h", "crypto/pfok.h", "crypto/stb99.h", "core/rng.h"]


# ------------------------------------------------------------------ header parsing

def strip_comment_markers(txt):
    txt = re.sub(r"^/\*!?", "", txt)
    txt = re.sub(r"\*/$", "", txt)
    return txt


def parse_header(path):
    """-> list of dict(name, params=[(type,name,dir)], doc, clauses=[(err, text)], pre=[text])"""
    src = open(path, encoding="utf-8", errors="replace").read()
    out = []
    # doc comment immediately followed by "err_t name("
    for m in re.finditer(r"/\*!?((?:(?!\*/).)*?)\*/\s*err_t\s+(\w+)\s*\(([^;{]*?)\)\s*;", src, re.S):
        doc, name, plist = m.group(1), m.group(2), m.group(3)
        params = []
        for pm in re.finditer(r"([^,/]+?)(?:,|\s*$|\s*/\*!<\s*\[([^\]]*)\][^*]*\*/)", plist, re.S):
            decl = pm.group(1).strip()
            if not decl or decl == "void":
                continue
            d = pm.group(2)
            mm = re.match(r"(.*?)(\w+)\s*(\[[^\]]*\])?$", decl, re.S)
            if not mm:
                continue
            params.append([(mm.group(1) + (mm.group(3) or "")).strip(), mm.group(2), d])
        # directions: comments follow the comma, so re-scan by lines
        params = []
        for line in plist.split("\n"):
            lm = re.match(r"\s*([^/]+?)\s*,?\s*(?:/\*!<\s*\[([^\]]*)\]\s*(.*?)\*/)?\s*$", line)
            if not lm or not lm.group(1).strip():
                continue
            decl = lm.group(1).strip().rstrip(",").strip()
            mm = re.match(r"(.*?)(\w+)\s*(\[[^\]]*\])?$", decl, re.S)
            if not mm or decl == "void":
                continue
            params.append([(mm.group(1) + (mm.group(3) or "")).strip(), mm.group(2), lm.group(2) or ""])
        out.append({"name": name, "params": params, "doc": doc,
                    "clauses": parse_clauses(doc, "expect"), "pre": parse_clauses(doc, "pre")})
    return out


def parse_clauses(doc, kind):
    """\\expect{ERR} text.   or   \\expect{ERR}\\n - item;\\n - item.\\n .   -> [(err, text)]"""
    res = []
    lines = [l.strip() for l in doc.split("\n")]
    i = 0
    pat = re.compile(r"\\%s(?:\{(\w+)\})?:?\s*(.*)$" % kind)
    while i < len(lines):
        m = pat.match(lines[i])
        if not m:
            i += 1
            continue
        err, rest = m.group(1), m.group(2).strip()
        i += 1
        if kind == "expect" and err is None:
            continue                      # protocol-order clauses of the step functions
        if rest:
            # single clause, possibly continued on following lines until one starting with '\'
            while i < len(lines) and lines[i] and not lines[i].startswith("\\") and not lines[i].startswith("-") and lines[i] != ".":
                rest += " " + lines[i]
                i += 1
            res.append((err, rest.rstrip(".;").strip()))
        else:
            # itemised list
            cur = None
            while i < len(lines):
                l = lines[i]
                if l == ".":
                    i += 1
                    break
                if l.startswith("\\"):
                    break
                if l.startswith("-"):
                    if cur is not None:
                        res.append((err, cur.rstrip(".;").strip()))
                    cur = l[1:].strip()
                elif cur is not None and l:
                    cur += " " + l
                i += 1
            if cur is not None:
                res.append((err, cur.rstrip(".;").strip()))
    return res



# ------------------------------------------------------------------ predicate translation

class NotPred(Exception):
    pass

TOK = re.compile(r"\s*(\\in|==|!=|<=|>=|&&|\|\||[A-Za-z_]\w*|\d+|[<>%*/+\-(){},])")
CONSTS = {"TIME_ERR": -1, "TRUE": 1, "FALSE": 0}


def tokenize(text):
    text = text.replace("< =", "<=").replace("> =", ">=")
    out, i = [], 0
    while i < len(text):
        if text[i].isspace():
            i += 1
            continue
        m = TOK.match(text, i)
        if not m:
            raise NotPred(text[i:i + 10])
        out.append(m.group(1))
        i = m.end()
    return out


class P:
    """recursive descent: or > and > chained comparison / \in > additive > multiplicative > atom.
    Produces (tla_text, vars, consts, pairs) where pairs = (var, const) compared directly."""

    def __init__(self, toks, scalars):
        self.t, self.i, self.sc = toks, 0, scalars
        self.vars, self.consts, self.varvar = set(), set(), set()

    def peek(self):
        return self.t[self.i] if self.i < len(self.t) else None

    def eat(self, x=None):
        v = self.peek()
        if v is None or (x is not None and v != x):
            raise NotPred("expected %s got %s" % (x, v))
        self.i += 1
        return v

    def parse(self):
        r = self.p_or()
        if self.peek() is not None:
            raise NotPred("trailing " + str(self.peek()))
        return r

    def p_or(self):
        a = [self.p_and()]
        while self.peek() == "||":
            self.eat()
            a.append(self.p_and())
        return a[0] if len(a) == 1 else "(" + " \\/ ".join(a) + ")"

    def p_and(self):
        a = [self.p_cmp()]
        while self.peek() == "&&":
            self.eat()
            a.append(self.p_cmp())
        return a[0] if len(a) == 1 else "(" + " /\\ ".join(a) + ")"

    def p_cmp(self):
        if self.peek() == "(":
            # parenthesised boolean or arithmetic: try boolean first
            save = (self.i, set(self.vars), set(self.consts))
            try:
                self.eat("(")
                r = self.p_or()
                self.eat(")")
                if self.peek() in ("==", "!=", "<=", ">=", "<", ">", "%", "*", "/", "+", "-"):
                    raise NotPred("arith")
                return r
            except NotPred:
                self.i, self.vars, self.consts = save[0], save[1], save[2]
        first = self.p_add()
        if self.peek() == "\\in":
            self.eat()
            self.eat("{")
            els = [self.p_add()]
            while self.peek() == ",":
                self.eat()
                els.append(self.p_add())
            self.eat("}")
            self.note(first, els)
            return "%s \\in {%s}" % (first[0], ", ".join(e[0] for e in els))
        ops = {"==": "=", "!=": "#", "<=": "<=", ">=": ">=", "<": "<", ">": ">"}
        parts, cur = [], first
        while self.peek() in ops:
            op = ops[self.eat()]
            nxt = self.p_add()
            self.note(cur, [nxt])
            self.note(nxt, [cur])
            parts.append("%s %s %s" % (cur[0], op, nxt[0]))
            cur = nxt
        if not parts:
            raise NotPred("no comparison")
        return parts[0] if len(parts) == 1 else "(" + " /\\ ".join(parts) + ")"

    def note(self, a, others):
        # a = (text, kind, value): remember which constants a variable is compared with
        for o in others:
            if a[1] == "var" and o[1] == "const":
                self.consts.add((a[2], o[2]))
            if a[1] == "var" and o[1] == "var":
                self.varvar.add((a[2], o[2]))
            if a[1] == "expr" and o[1] == "const":
                for v in a[2]:
                    self.consts.add((v, o[2]))

    def p_add(self):
        a = self.p_mul()
        while self.peek() in ("+", "-"):
            op = self.eat()
            b = self.p_mul()
            a = ("(%s %s %s)" % (a[0], op, b[0]), "expr", self.vs(a) | self.vs(b))
        return a

    def p_mul(self):
        a = self.p_atom()
        while self.peek() in ("%", "*", "/"):
            op = self.eat()
            b = self.p_atom()
            if b[1] == "const" and a[1] == "var":
                self.consts.add((a[2], b[2]))           # l % 16: 16 is a boundary of l
            o = {"%": "%", "*": "*", "/": "\\div"}[op]
            a = ("(%s %s %s)" % (a[0], o, b[0]), "expr", self.vs(a) | self.vs(b))
        return a

    def vs(self, a):
        return {a[2]} if a[1] == "var" else (a[2] if a[1] == "expr" else set())

    def p_atom(self):
        t = self.eat()
        if t == "(":
            r = self.p_add()
            self.eat(")")
            return r
        if t.isdigit():
            return (t, "const", int(t))
        if t in CONSTS:
            return ("(%d)" % CONSTS[t] if CONSTS[t] < 0 else str(CONSTS[t]), "const", CONSTS[t])
        if re.match(r"[A-Za-z_]\w*$", t):
            if t not in self.sc:
                raise NotPred("unknown identifier " + t)
            self.vars.add(t)
            return ("a." + t, "var", t)
        raise NotPred("token " + t)


def translate(text, scalars):
    """-> (tla, vars, {(var,const)}, {(var,var)}) or None if the clause is prose"""
    try:
        p = P(tokenize(text), scalars)
        tla = p.parse()
        if not p.vars:
            return None
        return tla, sorted(p.vars), p.consts, p.varvar
    except NotPred:
        return None


# ------------------------------------------------------------------ hand-written part

# prose clause (regex on its text) -> driver flag (1 = the clause holds); None = not driven
PROSE = [
    (r"^Параметры params.*корректны", "ok_params"),
    (r"^Личный ключ privkey корректен", "ok_privkey"),
    (r"^Открытый ключ pubkey корректен", "ok_pubkey"),
    (r"^открытый ключ pubkey корректен", "ok_pubkey"),
    (r"^Генератор rng .*корректен", "ok_rng"),
    (r"^Идентификатор oid_der корректен", "ok_oid"),
    (r"^Ключ m0 корректен", "ok_m0"),
    (r"^Открытые ключи m0, mi корректны", "ok_m0"),
    (r"^Формат suite корректен", "ok_suite"),
    (r"^Сертификат cert корректен", "ok_cert"),
    (r"^Ключ id_privkey получен", "ok_privkey"),
    (r"^открытый ключ id_pubkey получен", "ok_idpubkey"),
    (r"^Формат запроса соответствует", "ok_format"),
    (r"^Генератор ang", "ok_ang"),
    (r"^Номера открытых ключей", "ok_num"),
    (r"^Если share != 0, то 1 <= share\[0\]", "ok_num"),
]

# error classes that mean "authentication / integrity verification failed" (E2)
AUTH_ERRS = ["ERR_BAD_MAC", "ERR_BAD_KEYTOKEN", "ERR_BAD_SIG", "ERR_AUTH", "ERR_BAD_PWD",
             "ERR_BAD_CERT", "ERR_BAD_FORMAT", "ERR_BAD_SHAREKEY", "ERR_BAD_PRIVKEY", "ERR_BAD_PUBKEY",
             "ERR_BAD_CRC", "ERR_BAD_NAME", "ERR_BAD_DATE", "ERR_OUTOFRANGE", "ERR_NO_TRUST",
             "ERR_BAD_SECKEY", "ERR_BAD_ACL", "ERR_BAD_KEYPAIR"]

# header typos normalised while transcribing
ERR_ALIAS = {"ERR_BAD_PARAM": "ERR_BAD_PARAMS"}

# pseudo-scalars the driver logs besides the prototype's scalar parameters
#   l      security level of the bign parameters in use (bignDH: key_len <= l / 2)
#   digit  strlen(otp) for the botp verify functions (the header speaks of `digit`)
EXTRA_SCALARS = {"bignDH": ["l"], "botpHOTPVerify": ["digit"], "botpTOTPVerify": ["digit"],
                 "bakeBSTSStart": [], }


def D(base=None, secret=0, auth=(), extra=None, flags=(), tamper=(), fault=True, skip_clause=(), slow=0, hand=(), hand2=(), level_is_arg=False):
    """hand: hand-written clauses (argument, TLA+ predicate over a, error class or ERR_ANY, source text) for
    conditions the header gives in prose (\\return, \\remark, or the \\expect of the Start function a Run driver calls)"""
    return dict(base=base or {}, secret=secret, auth=list(auth), extra=extra or {}, flags=list(flags),
                tamper=list(tamper), fault=fault, skip_clause=list(skip_clause), slow=slow, hand=list(hand) + list(hand2),
                level_is_arg=level_is_arg)


# the Run drivers inherit the \expect clauses of the Start functions they call (bake.h documents them there)
RUNHAND = [("ok_params", "a.ok_params = 1", "ERR_BAD_PARAMS", "as bake*Start: parameters params are valid"),
           ("ok_rng", "a.ok_rng = 1", "ERR_BAD_RNG", "as bake*Start: generator settings->rng is valid")]
CERTHAND = [("ok_cert", "a.ok_cert = 1", "ERR_ANY", "the caller's validator (val) accepts the peer's certificate")]


KL = {"len": 32}
DRIVE = {
    # ---- belt (baselines follow test/crypto/belt_test.c: 32-octet key, a few blocks)
    "beltECBEncr": D({"len": 32, "count": 48}, 1),
    "beltECBDecr": D({"len": 32, "count": 48}, 1),
    "beltCBCEncr": D({"len": 32, "count": 36}, 1),
    "beltCBCDecr": D({"len": 32, "count": 36}, 1),
    "beltCFBEncr": D({"len": 32, "count": 40}, 1, extra={"count": [0, 1, 16, 17]}),
    "beltCFBDecr": D({"len": 32, "count": 40}, 1, extra={"count": [0, 1, 16, 17]}),
    "beltCTR": D({"len": 32, "count": 40}, 1, extra={"count": [0, 1, 16, 17]}),
    "beltMAC": D({"len": 32, "count": 40}, 1, extra={"count": [0, 1, 16, 17]}),
    "beltDWPWrap": D({"len": 32, "count1": 24, "count2": 20}, 1, extra={"count1": [0, 1, 16], "count2": [0, 1, 16]}),
    "beltDWPUnwrap": D({"len": 32, "count1": 24, "count2": 20}, 1, auth=["ERR_BAD_MAC"],
                       extra={"count1": [0, 1, 16], "count2": [0, 1, 16]}, tamper=["mac", "mac0", "ct", "ad", "iv", "key"]),
    "beltCHEWrap": D({"len": 32, "count1": 24, "count2": 20}, 1, extra={"count1": [0, 1, 16], "count2": [0, 1, 16]}),
    "beltCHEUnwrap": D({"len": 32, "count1": 24, "count2": 20}, 1, auth=["ERR_BAD_MAC"],
                       extra={"count1": [0, 1, 16], "count2": [0, 1, 16]}, tamper=["mac", "mac0", "ct", "ad", "iv", "key"]),
    "beltKWPWrap": D({"len": 32, "count": 32}, 1),
    "beltKWPUnwrap": D({"len": 32, "count": 48}, 1, auth=["ERR_BAD_KEYTOKEN"], tamper=["token", "tokenlast", "hdr", "key", "hdrnull", "tokennull", "zerotok"]),
    "beltHash": D({"count": 40}, 0, extra={"count": [0, 1, 31, 32, 33]}),
    "beltBDEEncr": D({"len": 32, "count": 48}, 1),
    "beltBDEDecr": D({"len": 32, "count": 48}, 1),
    "beltSDEEncr": D({"len": 32, "count": 48}, 1),
    "beltSDEDecr": D({"len": 32, "count": 48}, 1),
    "beltFMTEncr": D({"mod": 10, "count": 10, "len": 32}, 1, extra={"mod": [256, 257, 49667, 70000]}),
    "beltFMTDecr": D({"mod": 10, "count": 10, "len": 32}, 1, extra={"mod": [256, 257, 49667, 70000]}),
    "beltKRP": D({"m": 16, "n": 32}, 1),
    "beltHMAC": D({"count": 40, "len": 29}, 1, extra={"len": [0, 1, 32, 33, 42], "count": [0, 1]}),
    "beltPBKDF2": D({"pwd_len": 9, "iter": 100, "salt_len": 8}, 1, extra={"pwd_len": [0, 1, 33], "salt_len": [0, 1]}),

    # ---- bash, brng, botp
    "bashHash": D({"l": 128, "count": 40}, 0, extra={"count": [0, 1, 191, 192, 193]}, level_is_arg=True),
    # the shared generator: the monitored unit is rngCreate (+ rngClose on success); the driver adds a follow-up probe
    "rngCreate": D({}, 0),
    "brngCTRRand": D({"count": 96}, 1, extra={"count": [0, 1, 31, 32, 33]}),
    "brngHMACRand": D({"count": 96, "key_len": 32, "iv_len": 32}, 1,
                      extra={"count": [0, 1, 32, 33], "key_len": [0, 1, 31, 33, 127], "iv_len": [0, 1, 127]}),
    "botpHOTPRand": D({"digit": 8, "key_len": 32}, 1, extra={"key_len": [0, 1, 33]}),
    "botpHOTPVerify": D({"digit": 8, "key_len": 32}, 1, auth=["ERR_BAD_PWD"], tamper=["otp", "key", "ctr"], extra={"key_len": [1, 33]}),
    "botpTOTPRand": D({"digit": 8, "key_len": 32, "t": 24472180}, 1, extra={"key_len": [0, 1, 33], "t": [-1, 0, 1]}),
    "botpTOTPVerify": D({"digit": 8, "key_len": 32, "t": 24472180}, 1, auth=["ERR_BAD_PWD"], tamper=["otp", "key", "time"],
                        extra={"t": [-1, 0, 1]}),
    "botpOCRARand": D({"key_len": 32, "q_len": 8, "t": 24472183}, 1, flags=["ok_suite"],
                      hand=[("q_len", "4 <= a.q_len /\\ a.q_len <= 16", "ERR_BAD_PARAMS", "4 <= q_len && q_len <= 2 * q_max with q_max = 8 of the suite QN08 used by the driver")],
                      extra={"q_len": [3, 4, 5, 15, 16, 17, 0, 1], "key_len": [1, 33], "t": [-1]},
                      hand2=[("t", "a.t # (-1)", "ERR_BAD_TIME", "the driver's suite uses T: t != TIME_ERR")]),
    "botpOCRAVerify": D({"key_len": 32, "q_len": 8, "t": 24472183}, 1, flags=["ok_suite"], auth=["ERR_BAD_PWD"], tamper=["otp", "key", "q"],
                        hand=[("q_len", "4 <= a.q_len /\\ a.q_len <= 16", "ERR_BAD_PARAMS", "4 <= q_len && q_len <= 2 * q_max with q_max = 8 of the suite QN08 used by the driver")],
                        extra={"q_len": [3, 4, 5, 15, 16, 17, 0, 1], "t": [-1]},
                        hand2=[("t", "a.t # (-1)", "ERR_BAD_TIME", "the driver's suite uses T: t != TIME_ERR")]),
    # ---- bels
    "belsStdM": D({"len": 32, "num": 3}, 0),
    "belsValM": D({"len": 32}, 0),
    "belsGenM0": D({"len": 32}, 0, flags=["ok_ang"]),
    "belsGenMi": D({"len": 32}, 0, flags=["ok_ang"]),
    "belsGenMid": D({"len": 32, "id_len": 5}, 0, extra={"id_len": [0, 1, 64]}),
    "belsShare": D({"count": 5, "threshold": 3, "len": 32}, 1, flags=["ok_rng"], extra={"count": [16, 17]}),
    "belsShare2": D({"count": 5, "threshold": 3, "len": 32}, 1, flags=["ok_rng"]),
    "belsShare3": D({"count": 5, "threshold": 3, "len": 32}, 1),
    "belsRecover": D({"count": 3, "len": 32}, 1, extra={"count": [1, 2, 4, 5]}),
    "belsRecover2": D({"count": 3, "len": 32}, 1, extra={"count": [1, 2, 4, 5]},
                      hand=[("ok_num", "a.ok_num = 1 \\/ a.count < 2", "ERR_BAD_PUBKEY",
                             "key numbers in the first octets of the shares differ (the driver repeats the number of share 1 in share 2, "
                             "which only matters when at least 2 shares are passed)")]),
    # ---- bign (level l = 128, standard curve; keys generated by the library itself)
    "bignParamsVal": D({"l": 128}, 0, hand=[("ok_params", "a.ok_params = 1", "ERR_ANY", "\\return ERR_OK iff the parameters are valid")], extra={"l": [192, 256]}),
    "bignOidToDER": D({"query": 1, "cnt": 0}, 0, flags=["ok_oidstr"], extra={"query": [0, 1], "cnt": [0, 10, 11, 12]},
                       hand=[("ok_oidstr", "a.ok_oidstr = 1", "ERR_BAD_OID", "the identifier string is valid (bign.h: otherwise ERR_BAD_OID)"),
                             ("cnt", "a.query = 1 \\/ a.cnt >= 11", "ERR_OUTOFMEMORY", "der != 0: *count octets are reserved at der and suffice (11 for this identifier); the length query (der == 0) does not look at *count")]),
    "bignKeypairGen": D({"l": 128}, 1, flags=["ok_params", "ok_rng"], extra={"l": [192, 256]}),
    "bignKeypairVal": D({"l": 128}, 1, flags=["ok_params"], extra={"l": [192, 256]},
                        hand=[("ok_privkey", "a.ok_privkey = 1", "ERR_ANY", "\\return ERR_OK iff the pair is valid"),
                              ("ok_pubkey", "a.ok_pubkey = 1", "ERR_ANY", "\\return ERR_OK iff the pair is valid")]),
    "bignPubkeyVal": D({"l": 128}, 0, flags=["ok_params"], extra={"l": [192, 256]},
                       hand=[("ok_pubkey", "a.ok_pubkey = 1", "ERR_ANY", "\\return ERR_OK iff the key is valid")]),
    "bignPubkeyCalc": D({"l": 128}, 1, flags=["ok_params", "ok_privkey"], extra={"ok_privkey": [2, 3], "l": [192, 256]}),
    "bignDH": D({"l": 128, "key_len": 32}, 1, flags=["ok_params", "ok_privkey", "ok_pubkey"], extra={"ok_privkey": [2, 3], "key_len": [0, 1, 63, 64, 65]}),
    "bignSign": D({"l": 128}, 1, flags=["ok_params", "ok_oid", "ok_privkey", "ok_rng"], extra={"ok_privkey": [2, 3], "l": [192, 256]}),
    "bignSign2": D({"l": 128, "t_len": 16}, 1, flags=["ok_params", "ok_oid", "ok_privkey"], extra={"ok_privkey": [2, 3], "l": [192, 256], "t_len": [0, 1, 64]}),
    "bignVerify": D({"l": 128}, 0, flags=["ok_params", "ok_oid", "ok_pubkey"], auth=["ERR_BAD_SIG"], tamper=["sig0", "sig1", "hash", "s1max"],
                    extra={"l": [192, 256]}),
    "bignKeyWrap": D({"l": 128, "len": 32}, 1, flags=["ok_params", "ok_pubkey", "ok_rng"], extra={"len": [18, 64]}),
    "bignKeyUnwrap": D({"l": 128, "len": 80}, 1, flags=["ok_params", "ok_privkey"], auth=["ERR_BAD_KEYTOKEN"],
                       tamper=["token", "point", "hdr", "key", "hdrnull", "tokennull", "zerotok"],
                       hand=[("len", "a.len >= 64", "ERR_BAD_KEYTOKEN", "token [len] = [l/4 + 16 + key]: at least 16 key octets (bignKeyWrap: len >= 16; \\remark: broken token => ERR_BAD_KEYTOKEN)")],
                       extra={"len": [63, 64, 65, 0, 1], "ok_privkey": [2, 3]}),
    "bignIdExtract": D({"l": 128}, 1, flags=["ok_params", "ok_oid", "ok_pubkey"], auth=["ERR_BAD_SIG"], tamper=["sig0", "idhash"]),
    "bignIdSign": D({"l": 128}, 1, flags=["ok_params", "ok_oid", "ok_privkey", "ok_rng"]),
    "bignIdSign2": D({"l": 128, "t_len": 16}, 1, flags=["ok_params", "ok_oid", "ok_privkey"]),
    "bignIdVerify": D({"l": 128}, 0, flags=["ok_params", "ok_oid", "ok_pubkey", "ok_idpubkey"], auth=["ERR_BAD_SIG"], tamper=["sig0", "hash", "idhash"]),
    # ---- bign96
    "bign96ParamsVal": D({}, 0, hand=[("ok_params", "a.ok_params = 1", "ERR_ANY", "\\return ERR_OK iff the parameters are valid")]),
    "bign96KeypairGen": D({}, 1, flags=["ok_params", "ok_rng"]),
    "bign96KeypairVal": D({}, 1, flags=["ok_params"],
                          hand=[("ok_privkey", "a.ok_privkey = 1", "ERR_ANY", "\\return ERR_OK iff the pair is valid"),
                                ("ok_pubkey", "a.ok_pubkey = 1", "ERR_ANY", "\\return ERR_OK iff the pair is valid")]),
    "bign96PubkeyVal": D({}, 0, flags=["ok_params"], hand=[("ok_pubkey", "a.ok_pubkey = 1", "ERR_ANY", "\\return ERR_OK iff the key is valid")]),
    "bign96PubkeyCalc": D({}, 1, flags=["ok_params", "ok_privkey"]),
    "bign96Sign": D({}, 1, flags=["ok_params", "ok_oid", "ok_privkey", "ok_rng"]),
    "bign96Sign2": D({"t_len": 16}, 1, flags=["ok_params", "ok_oid", "ok_privkey"], extra={"t_len": [0, 1]}),
    "bign96Verify": D({}, 0, flags=["ok_params", "ok_oid", "ok_pubkey"], auth=["ERR_BAD_SIG"], tamper=["sig0", "sig1", "hash"]),
    # ---- bake (Run drivers over an in-memory channel; certlen 600 makes M2/M3 span several blocks)
    "bakeKDF": D({"secret_len": 32, "iv_len": 64, "num": 1}, 1, extra={"secret_len": [0, 1], "iv_len": [0, 1], "num": [0, 2]}),
    "bakeSWU": D({"l": 128}, 0, flags=["ok_params"], extra={"l": [192, 256]}),
    "bakeBMQVRunA": D({"certlen": 69}, 1, auth=["ERR_ANY"], tamper=["msg1", "msg2", "msg1kcb"],
                      hand=RUNHAND, extra={"certlen": [64, 600]}),
    "bakeBMQVRunB": D({"certlen": 69}, 1, auth=["ERR_ANY"], tamper=["msg1", "msg2", "msg1kca"],
                      hand=RUNHAND, extra={"certlen": [64, 600]}),
    "bakeBSTSRunA": D({"certlen": 69, "chunk": 0}, 1, auth=["ERR_ANY"],
                      tamper=["msg1", "msg2", "msgcert", "short"], hand=RUNHAND + CERTHAND, extra={"certlen": [64, 600, 1100], "chunk": [100, 200]}),
    "bakeBSTSRunB": D({"certlen": 69, "chunk": 0}, 1, auth=["ERR_ANY"],
                      tamper=["msg1", "msg2", "msgcert", "short"], hand=RUNHAND + CERTHAND, extra={"certlen": [64, 600, 1100], "chunk": [100, 200]}),
    "btokBAuthTStep5": D({"certlen": 72}, 1, auth=["ERR_ANY"], tamper=["msg"], hand=CERTHAND, extra={"certlen": [64, 600]}),
    "bakeBPACERunA": D({"pwd_len": 4}, 1, auth=["ERR_ANY"], tamper=["msg1", "msg2", "pwd", "pwdkcb", "msg1kcb"], hand=RUNHAND, extra={"pwd_len": [0, 1, 8]}),
    "bakeBPACERunB": D({"pwd_len": 4}, 1, auth=["ERR_ANY"], tamper=["msg1", "msg2", "pwd", "pwdkca", "msg1kca"], hand=RUNHAND, extra={"pwd_len": [0, 1, 8]}),
    # ---- bpki
    "bpkiPrivkeyWrap": D({"privkey_len": 32, "pwd_len": 8, "iter": 10000}, 1, extra={"pwd_len": [0, 1]}),
    "bpkiPrivkeyUnwrap": D({"pwd_len": 8, "epki_len": 160}, 1, auth=["ERR_ANY"], tamper=["pwd", "ct", "last", "der", "kind"]),
    "bpkiShareWrap": D({"share_len": 33, "pwd_len": 8, "iter": 10000}, 1, flags=["ok_num"]),
    "bpkiShareUnwrap": D({"pwd_len": 8, "epki_len": 160}, 1, auth=["ERR_ANY"], tamper=["pwd", "ct", "last", "kind"]),
    "bpkiCSRUnwrap": D({"csr_len": 382}, 0, auth=["ERR_ANY"], tamper=["sig", "body"]),
    "bpkiCSRRewrap": D({"csr_len": 382, "privkey_len": 32}, 1),
    # ---- btok CVC
    "btokCVCWrap": D({"privkey_len": 64}, 1),
    "btokCVCUnwrap": D({"cert_len": 322, "pubkey_len": 128}, 0, auth=["ERR_ANY"], tamper=["sig", "body", "key", "selfsig", "selfbody"]),
    "btokCVCIss": D({"certa_len": 356, "privkeya_len": 64}, 1),
    "btokCVCVal": D({"cert_len": 322, "certa_len": 356}, 0, auth=["ERR_ANY"], tamper=["sig", "body", "date"]),
    "btokCVCVal2": D({"cert_len": 322}, 0, auth=["ERR_ANY"], tamper=["sig", "body", "date"]),
    "btokCVCMatch": D({"cert_len": 322, "privkey_len": 48}, 1, auth=["ERR_ANY"], tamper=["key"]),
    # ---- g12s, dstu, pfok, stb99
    "g12sParamsVal": D({"l": 256}, 0, hand=[("ok_params", "a.ok_params = 1", "ERR_ANY", "\\return ERR_OK iff the parameters are valid")], extra={"l": [512]}),
    "g12sKeypairGen": D({"l": 256}, 1, flags=["ok_params", "ok_rng"], extra={"l": [512]}),
    "g12sSign": D({"l": 256}, 1, flags=["ok_params", "ok_privkey", "ok_rng"], extra={"l": [512]}),
    "g12sVerify": D({"l": 256}, 0, flags=["ok_params", "ok_pubkey"], auth=["ERR_ANY"], tamper=["sig0", "hash"], extra={"l": [512]}),
    "dstuParamsVal": D({}, 0, hand=[("ok_params", "a.ok_params = 1", "ERR_ANY", "\\return ERR_OK iff the parameters are valid")]),
    "dstuPointGen": D({}, 0, flags=["ok_params"]),
    "dstuPointVal": D({}, 0, flags=["ok_params"], hand=[("ok_point", "a.ok_point = 1", "ERR_ANY", "\\return ERR_OK iff the point is valid")]),
    "dstuPointCompress": D({}, 0, flags=["ok_params"]),
    "dstuPointRecover": D({}, 0, flags=["ok_params"]),
    "dstuKeypairGen": D({}, 1, flags=["ok_params", "ok_rng"]),
    "dstuSign": D({"ld": 512, "hash_len": 21}, 1, flags=["ok_params", "ok_privkey", "ok_rng"],
                  hand=[("ld", "(a.ld % 16) = 0 /\\ a.ld >= 326", "ERR_BAD_INPUT", "ld is a multiple of 16; two residues mod n (163 bits) fit into ld bits")],
                  extra={"ld": [320, 336, 352, 511, 512, 513, 528, 0, 1, 16], "hash_len": [0, 1, 32]}),
    "dstuVerify": D({"ld": 512, "hash_len": 21}, 0, flags=["ok_params", "ok_pubkey"], auth=["ERR_ANY"], tamper=["sig0", "hash"]),
    "pfokParamsVal": D({}, 0, hand=[("ok_params", "a.ok_params = 1", "ERR_ANY", "\\return ERR_OK iff the parameters are valid")]),
    # ok_rng is not driven for pfokKeypairGen: pfok.h also states "\expect{ERR_BAD_INPUT} all input pointers are valid";
    # the implementation answers a null rng with ERR_BAD_INPUT, which the header admits (coordinator's triage).
    "pfokKeypairGen": D({}, 1, flags=["ok_params"]),
    "pfokPubkeyVal": D({}, 0, flags=["ok_params"], hand=[("ok_pubkey", "a.ok_pubkey = 1", "ERR_ANY", "\\return ERR_OK iff the key is valid")]),
    "pfokPubkeyCalc": D({}, 1, flags=["ok_params", "ok_privkey"]),
    "pfokDH": D({"n": 256}, 1, flags=["ok_params", "ok_privkey", "ok_pubkey"], extra={"n": [255, 250, 13, 1]}),
    "pfokMTI": D({"n": 256}, 1, flags=["ok_params", "ok_privkey", "ok_pubkey"], extra={"n": [255, 250, 13, 1]}),
    "stb99ParamsVal": D({}, 0, hand=[("ok_params", "a.ok_params = 1", "ERR_ANY", "\\return ERR_OK iff the parameters are valid")]),
}

# ------------------------------------------------------------------ table construction

SCALAR_T = re.compile(r"^(size_t|u32|u16|u64|word|tm_time_t|int|bool_t|octet)$")


def err_codes(repo):
    src = open(os.path.join(repo, "include/bee2/core/err.h"), encoding="utf-8", errors="replace").read()
    codes = {"ERR_OK": 0}
    for m in re.finditer(r"#define\s+(ERR_\w+)\s+_ERR_REG\((\d+)\)", src):
        codes[m.group(1)] = int(m.group(2))
    return codes


def build_table(repo):
    fns = []
    for h in HEADERS:
        for f in parse_header(os.path.join(repo, "include/bee2", h)):
            f["header"] = h.split("/")[-1]
            scal = [n for t, n, d in f["params"] if SCALAR_T.match(t.replace("const ", "").strip())]
            scal += EXTRA_SCALARS.get(f["name"], [])
            drv = DRIVE.get(f["name"])
            if drv:
                scal = list(dict.fromkeys(scal + [k for k in drv["base"] if not k.startswith("ok_")]))
            f["scalars"] = scal
            cl = []
            for idx, (err, text) in enumerate(f["clauses"]):
                err = ERR_ALIAS.get(err, err)
                c = {"err": err, "text": text, "kind": "prose", "tla": "TRUE", "vars": [], "consts": set(), "varvar": set()}
                tr = translate(text, scal)
                if tr and (not drv or all(v in drv["base"] for v in tr[1])):
                    c.update(kind="pred", tla=tr[0], vars=tr[1], consts=tr[2], varvar=tr[3])
                elif not tr:
                    for rx, flag in PROSE:
                        if re.search(rx, text):
                            if drv and flag in drv["flags"]:
                                c.update(kind="flag", tla="a.%s = 1" % flag, vars=[flag])
                            break
                if drv and idx in drv["skip_clause"]:
                    c.update(kind="prose", tla="TRUE", vars=[])
                cl.append(c)
            if drv:
                for arg, pred, err, text in drv["hand"]:
                    cl.append({"err": err, "text": "[hand] " + text, "kind": "hand", "tla": pred, "vars": [arg],
                               "consts": set(), "varvar": set()})
            f["cl"] = cl
            f["drive"] = drv
            fns.append(f)
    return fns


def sweeps(f):
    """boundary values derived from the constants of the header's predicates"""
    drv = f["drive"]
    base = dict(drv["base"])
    for fl in drv["flags"]:
        base.setdefault(fl, 1)
    for arg, pred, err, text in drv["hand"]:
        if arg.startswith("ok_"):
            base.setdefault(arg, 1)
    sw = {}
    for c in f["cl"]:
        if c["kind"] == "pred":
            for v in c["vars"]:
                sw.setdefault(v, set()).update([0, 1])
            for v, k in c["consts"]:
                sw.setdefault(v, set()).update(x for x in (k - 1, k, k + 1) if x >= -1)
            for v, w in c["varvar"]:
                sw.setdefault(v, set()).update(x for x in (base[w] - 1, base[w], base[w] + 1) if x >= 0)
        elif c["kind"] == "flag" or (c["kind"] == "hand" and c["vars"][0].startswith("ok_")):
            sw.setdefault(c["vars"][0], set()).update([0, 1])
    for v, xs in drv["extra"].items():
        sw.setdefault(v, set()).update(xs)
    if "l" in sw and not drv["level_is_arg"]:                      # pseudo-scalar naming the standard parameter set: only listed levels
        sw["l"] = set(drv["extra"].get("l", []))
        if not sw["l"]:
            del sw["l"]
    for v in sw:
        if not v.startswith("ok_") and v != "t":
            sw[v] = {x for x in sw[v] if x >= 0}
    return base, sw


def tla_str(s):
    return '"' + s.replace("\\", "\\\\").replace('"', "'") + '"'


def tla_rec(d):
    return "[" + ", ".join("%s |-> %s" % (k, v) for k, v in d.items()) + "]"


def emit(fns, codes, out):
    w = out.write
    w("---------------------------- MODULE ErrContract ----------------------------\n")
    w("(* GENERATED by tools/gen_errcontract.py from include/bee2/crypto/*.h and include/bee2/core/err.h\n"
      "   -- do not edit by hand; edit the DRIVE / PROSE tables of the generator and re-run it.\n\n"
      "   C09, rules E1 and E2.  For every err_t function of the crypto headers the `\\expect{ERR_x}`\n"
      "   clauses of its doc comment are transcribed as contract clauses:\n"
      "     kind \"pred\"   the clause is a predicate over the scalar arguments; H_<fn>(a) evaluates it on\n"
      "                   the record `a` of logged arguments\n"
      "     kind \"flag\"   prose about an object (parameters, private key, generator ...): the driver\n"
      "                   builds a valid (a.ok_x = 1) or an invalid (a.ok_x = 0) object\n"
      "     kind \"hand\"   hand-written from prose of the header (\\return, \\remark, clauses of a called Start\n"
      "                   function); text says where it comes from\n"
      "     kind \"prose\"  not driven: never violated by a generated case (pred TRUE)\n"
      "   E1: some clause violated => rc is the error class of one of the violated clauses, rc # OK and\n"
      "       the outputs are untouched; no clause violated => rc = OK.\n"
      "   E2: after a failed authentication the output equals its pre-image or zeros and does not\n"
      "       contain the plaintext of the corresponding correct call.\n"
      "   Replay direction: spec/gen/Gen_Err.tla enumerates `Cases` (per driven function the baseline\n"
      "   and every boundary value of every scalar argument) with the verdict the contract predicts. *)\n")
    w("EXTENDS Naturals, Integers, Sequences, FiniteSets, TLC, Json\n\n")
    w("\\* ERR_ANY: the header only says `an error code` (\\return ERR_OK iff ...)\n")
    w("ErrCode == [\n  " + ",\n  ".join("%s |-> %d" % (k, v) for k, v in list(codes.items()) + [("ERR_ANY", -1)]) + " ]\n\n")
    w("AuthErrs == {" + ", ".join(tla_str(e) for e in AUTH_ERRS) + "}\n\n")
    nclauses = 0
    cur_h = None
    for f in fns:
        if f["header"] != cur_h:
            cur_h = f["header"]
            w("\\* " + "=" * 20 + " " + cur_h + "\n\n")
        drv = f["drive"]
        proto = "err_t %s(%s)" % (f["name"], ", ".join(("%s %s" % (t, n)).strip() for t, n, d in f["params"]))
        w("\\* %s\n" % proto)
        cls = []
        for c in f["cl"]:
            nclauses += 1
            cls.append("    [err |-> %s, kind |-> %s, text |-> %s]" % (tla_str(c["err"]), tla_str(c["kind"]), tla_str(c["text"])))
        base, sw = ({}, {})
        if drv:
            base, sw = sweeps(f)
        sweep_set = ", ".join("<<%s, %d>>" % (tla_str(v), x) for v in sw for x in sorted(sw[v]))
        w("C_%s == [fn |-> %s, header |-> %s, driven |-> %s, secret |-> %s,\n" % (
            f["name"], tla_str(f["name"]), tla_str(f["header"]), "TRUE" if drv else "FALSE",
            "TRUE" if drv and drv["secret"] else "FALSE"))
        w("  auth |-> {%s},\n" % ", ".join(tla_str(e) for e in (drv["auth"] if drv else [])))
        w("  tamper |-> {%s},\n" % ", ".join(tla_str(e) for e in (drv["tamper"] if drv else [])))
        w("  fault |-> %s,\n" % ("TRUE" if drv and drv["fault"] else "FALSE"))
        w("  base |-> %s,\n" % (tla_rec(base) if base else "[none |-> 0]"))
        w("  sweep |-> {%s},\n" % sweep_set)
        w("  clauses |-> <<%s>>]\n" % ("\n" + ",\n".join(cls) + " " if cls else ""))
        w("H_%s(a) == <<%s>>\n\n" % (f["name"], (",\n" + " " * (8 + len(f["name"]))).join(c["tla"] for c in f["cl"])))
    names = [f["name"] for f in fns]
    w("\\* " + "=" * 60 + "\n\n")
    w("AllFns == {%s}\n\n" % ",\n  ".join(tla_str(n) for n in names))
    w("Contract(f) ==\n  CASE " + "\n    [] ".join("f = %s -> C_%s" % (tla_str(n), n) for n in names) + "\n\n")
    w("Holds(f, a) ==\n  CASE " + "\n    [] ".join("f = %s -> H_%s(a)" % (tla_str(n), n) for n in names) + "\n\n")
    w(TAIL)
    return nclauses


TAIL = r"""DrivenFns == {f \in AllFns : Contract(f).driven}
SecretFns == {f \in DrivenFns : Contract(f).secret}
NClauses(f) == Len(Contract(f).clauses)

\* indices of the clauses the arguments violate
Violated(f, a) == LET h == Holds(f, a) IN {i \in 1..Len(h) : ~h[i]}
\* error codes the header admits for these arguments
Expect(f, a) == {ErrCode[Contract(f).clauses[i].err] : i \in Violated(f, a)}

\* E1 on one observed call
E1(f, a, rc, touched) ==
  IF Violated(f, a) = {} THEN rc = 0
  ELSE rc # 0 /\ (rc \in Expect(f, a) \/ ErrCode["ERR_ANY"] \in Expect(f, a)) /\ ~touched

\* E2 on one observed failed authentication: pre-image or zeros, never the plaintext
Zeros(n) == [i \in 1..n |-> 0]
Contains(hay, needle) ==
  /\ Len(needle) > 0 /\ Len(hay) >= Len(needle)
  /\ \E o \in 0..(Len(hay) - Len(needle)) : \A i \in 1..Len(needle) : hay[o + i] = needle[i]
\* windows of 8 octets of the plaintext (whole plaintext if shorter)
Windows(p) == IF Len(p) <= 8 THEN {p} ELSE {SubSeq(p, o, o + 7) : o \in 1..(Len(p) - 7)}
Released(post, plain) == Len(plain) > 0 /\ \E w \in Windows(plain) : Contains(post, w)
E2strict(pre, post) == post = pre \/ post = Zeros(Len(post))
E2(f, rc, pre, post, plain) ==
  /\ rc # 0
  /\ (rc \in {ErrCode[e] : e \in Contract(f).auth} \/ "ERR_ANY" \in Contract(f).auth)
  /\ ~Released(post, plain)
  /\ E2strict(pre, post)

-----------------------------------------------------------------------------
(* replay direction: the cases *)

Args(f, p, v) == IF p = "" THEN Contract(f).base ELSE [Contract(f).base EXCEPT ![p] = v]
Args2(f, p, v, q, w) == IF q = "" THEN Args(f, p, v) ELSE [Contract(f).base EXCEPT ![p] = v, ![q] = w]
Cases == {<<f, "", 0, "", 0>> : f \in DrivenFns}
         \cup UNION {{<<f, pv[1], pv[2], "", 0>> : pv \in Contract(f).sweep} : f \in DrivenFns}
\* thorough tier: every value of one argument x every value of another one (valid and invalid)
PairsOf(f) == UNION {{<<f, pv[1], pv[2], qw[1], qw[2]>> : qw \in {x \in Contract(f).sweep : x[1] # pv[1]}} :
                       pv \in Contract(f).sweep}
PairCases == UNION {PairsOf(f) : f \in DrivenFns}

\* table consistency: the baseline of every driven function satisfies every clause
BaselineValid == \A f \in DrivenFns : Violated(f, Contract(f).base) = {}
\* every driven clause (pred or flag) is violated by at least one generated case
Reached(f) == UNION {Violated(f, Args(f, pv[1], pv[2])) : pv \in Contract(f).sweep}
DrivenClauses(f) == {i \in 1..NClauses(f) : Contract(f).clauses[i].kind \in {"pred", "flag", "hand"}}
EveryClauseReachable == \A f \in DrivenFns : DrivenClauses(f) \subseteq Reached(f)
\* a sweep changes one argument only, so a case violates clauses of that argument only
TableOK == BaselineValid /\ EveryClauseReachable
=============================================================================
"""


if __name__ == "__main__":
    ap = argparse.ArgumentParser()
    ap.add_argument("--repo", default=os.environ.get("BEE2_REPO", "/repo"))
    ap.add_argument("--out", default=os.path.join(os.path.dirname(os.path.dirname(os.path.abspath(__file__))),
                                                  "spec", "sm", "ErrContract.tla"))
    ap.add_argument("--dump", action="store_true")
    a = ap.parse_args()
    fns = build_table(a.repo)
    if a.dump:
        for f in fns:
            print("%s %s scalars=%s %s" % (f["header"], f["name"], f["scalars"], "DRIVEN" if f["drive"] else ""))
            for c in f["cl"]:
                print("     %-18s %-5s %s   ==>  %s" % (c["err"], c["kind"], c["text"][:70], c["tla"]))
        sys.exit(0)
    with open(a.out + ".tmp", "w") as fo:
        n = emit(fns, err_codes(a.repo), fo)
    os.replace(a.out + ".tmp", a.out)
    nd = sum(1 for f in fns if f["drive"])
    ndc = sum(1 for f in fns if f["drive"] for c in f["cl"] if c["kind"] != "prose")
    print("%s: %d functions (%d driven), %d clauses (%d driven)" % (a.out, len(fns), nd, n, ndc))
