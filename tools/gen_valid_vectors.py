#!/usr/bin/env python3
"""Generates spec/ref/ValidatorVectors.tla: anchors of Pri.tla / Validators.tla evaluated by TLC (one vector per state).
Literature facts (pseudoprimes and their factorisations, counts of primes / irreducible polynomials, calendar facts) are
written here as data; the standard parameter sets are read from `drv_valid std` (they reproduce the standards' tables).
usage: python3 tools/gen_valid_vectors.py <std.ndjson>"""
import sys, json, os
sys.path.insert(0, os.path.dirname(os.path.abspath(__file__)))
import pricert

def le(a): return int.from_bytes(bytes(a), 'little')
def seq(a): return "<<" + ",".join(str(x) for x in a) + ">>"
def nat(v):
    """BigNat literal (base 4096 limbs, little-endian)"""
    l = []
    while v:
        l.append(v & 4095); v >>= 12
    return seq(l)
def octs(v, n=None):
    n = n or max(1, (v.bit_length() + 7) // 8)
    return seq(v.to_bytes(n, 'little'))
def cert_tla(nodes):
    out = []
    for nd in nodes:
        n = int(nd["n"])
        if nd["kind"] == "mr":
            out.append('[n |-> %s, kind |-> "mr"]' % octs(n))
        else:
            out.append('[n |-> %s, kind |-> "pock", fs |-> <<%s>>]' % (octs(n), ",".join(seq(f) for f in nd["fs"])))
    return "<<" + ", ".join(out) + ">>"

rows = [json.loads(l) for l in open(sys.argv[1])]
V = []   # (name, expression)
def add(name, expr): V.append((name, expr))

# ---- primes
add("small_primes", "{p \\in 0..100 : IsPrimeInt16(p)} = {2,3,5,7,11,13,17,19,23,29,31,37,41,43,47,53,59,61,67,71,73,79,83,89,97}")
add("pi_65536", "Cardinality(PrimeSet16) = 6542 /\\ Len(OddPrimeSeq) = 6541 /\\ OddPrimeSeq[1] = 3 /\\ OddPrimeSeq[1024] = 8167 /\\ OddPrimeSeq[6541] = 65521")
add("mr_eq_def_lo", "\\A v \\in 0..3000 : IsPrimeMR(OfInt(v)) = IsPrimeInt16(v)")
add("mr_eq_td_64k", "\\A v \\in 65536..65936 : IsPrimeMR(OfInt(v)) = IsPrimeTD32(OfInt(v))")
add("mr_eq_td_2g", "\\A v \\in 2147483000..2147483647 : (v % 2 = 0) \\/ IsPrimeMR(OfInt(v)) = IsPrimeTD32(OfInt(v))")
add("mr_eq_td_4g", "\\A k \\in 0..300 : LET n == AddInt(%s, 2 * k + 1) IN IsPrimeMR(n) = IsPrimeTD32(n)" % nat((1 << 32) - 400))
PSI = [(2047, [23, 89], 1), (1373653, [829, 1657], 2), (25326001, [2251, 11251], 3), (3215031751, [151, 751, 28351], 4),
       (2152302898747, [6763, 10627, 29947], 5), (3474749660383, [1303, 16927, 157543], 6), (341550071728321, [10670053, 32010157], 7),
       (3825123056546413051, [149491, 747451, 34233211], 9), (318665857834031151167461, [399165290221, 798330580441], 12),
       (3317044064679887385961981, [1287836182261, 2575672364521], 13)]
for n, fs, k in PSI:
    prod = 1
    for f in fs: prod *= f
    assert prod == n
    e = "LET n == %s IN Eq(n, %s) /\\ FactorWitness(n, %s) /\\ (\\A i \\in 1..%d : SPRP(n, Base13[i]))" % (
        nat(n), " , ".join([]) or "FoldLeft(LAMBDA acc, f : Mul(acc, f), One, <<%s>>)" % ",".join(nat(f) for f in fs), nat(fs[0]), k)
    if k < 13:
        nxt = {7: 9, 9: 12}.get(k, k + 1)          # psi_7 = psi_8 and psi_9 = psi_10 = psi_11: the first base that exposes n
        e += " /\\ ~SPRP(n, Base13[%d]) /\\ ~IsPrimeMR(n)" % nxt
    else:
        e += " /\\ ~Decidable(n) /\\ Eq(n, MRBound)"
    add("psi_%d" % k, e)
# psi_7 = psi_8 and psi_9 = psi_10 = psi_11: also strong pseudoprimes to the following bases
add("psi_8", "LET n == %s IN SPRP(n, 19) /\\ ~SPRP(n, 23)" % nat(341550071728321))
add("psi_11", "LET n == %s IN SPRP(n, 29) /\\ SPRP(n, 31) /\\ ~SPRP(n, 37)" % nat(3825123056546413051))
for c in (561, 1105, 1729, 41041, 825265, 321197185, 5394826801, 232250619601, 9746347772161):
    add("carmichael_%d" % c, "LET n == %s IN ~IsPrimeMR(n) /\\ Eq(ModExp(Two, Sub2(n, One), n), One) /\\ (RemInt(n, 3) = 0 \\/ Eq(ModExp(OfInt(3), Sub2(n, One), n), One))" % nat(c))
for p in ((1 << 31) - 1, (1 << 32) - 5, (1 << 32) + 15, (1 << 61) - 1, (1 << 64) - 59, (1 << 64) + 13):
    add("prime_%d" % p, "IsPrimeMR(%s) /\\ ~IsPrimeMR(%s)" % (nat(p), nat(p + 2 if not pricert.is_prp(p + 2) else p + 4)))
for e_ in (89, 107, 127):
    p = (1 << e_) - 1
    c = pricert.certificate(p, 60)
    assert c and pricert.check(c)
    add("cert_M%d" % e_, "CertProves(%s, %s)" % (cert_tla(c), nat(p)))
    if e_ == 127:
        # tampered certificates must be rejected: a witness changed to 1, an exponent raised, the target changed
        bad = json.loads(json.dumps(c)); bad[-1]["fs"][0][2] = 1
        add("cert_M127_bad_witness", "~CertOk(%s)" % cert_tla(bad))
        bad = json.loads(json.dumps(c)); bad[-1]["fs"][0][1] += 1
        add("cert_M127_bad_exponent", "~CertOk(%s)" % cert_tla(bad))
        bad = json.loads(json.dumps(c)); bad[-1]["fs"] = bad[-1]["fs"][:1]
        add("cert_M127_too_small_F", "~CertOk(%s)" % cert_tla(bad))
        add("cert_M127_wrong_target", "~CertProves(%s, %s)" % (cert_tla(c), nat(p + 2)))
# a composite presented with a certificate: 2^67 - 1 = 193707721 * 761838257287 (Cole), "factors" of n - 1 are genuine
n = (1 << 67) - 1
add("cert_composite_M67", "~IsPrimeMR(%s)" % nat(n))
# a forged node: composite child declared "mr"
add("cert_forged_child", "~CertOk(<<[n |-> %s, kind |-> \"mr\"], [n |-> %s, kind |-> \"pock\", fs |-> <<<<0, 1, 2>>>>]>>)" % (octs(561), octs(2 * 561 + 1)))
# next prime
add("next_prime", " /\\ ".join([
    "NextPrime(OfInt(0), 10).found = FALSE", "NextPrime(OfInt(1), 10).found = FALSE",
    "NextPrimeIs(OfInt(2), TRUE, OfInt(3), 10)", "NextPrimeIs(OfInt(3), TRUE, OfInt(3), 10)", "NextPrimeIs(OfInt(4), TRUE, OfInt(5), 10)",
    "NextPrimeIs(OfInt(8), TRUE, OfInt(11), 10)", "NextPrimeIs(OfInt(14), FALSE, Zero, 10)", "NextPrimeIs(OfInt(24), TRUE, OfInt(29), 10)",
    "NextPrimeIs(OfInt(65522), FALSE, Zero, 100)", "NextPrimeIs(OfInt(65500), TRUE, OfInt(65519), 100)",
    "~NextPrimeIs(OfInt(90), TRUE, OfInt(101), 100)", "NextPrime(OfInt(1328), 3).done = FALSE",
    "NextPrimeIs(%s, TRUE, %s, 100)" % (nat((1 << 64) - 82), nat((1 << 64) - 59)), "NextPrimeIs(%s, TRUE, %s, 100)" % (nat((1 << 64) - 94), nat((1 << 64) - 83)), "NextPrimeIs(%s, TRUE, %s, 100)" % (nat((1 << 64) - 100), nat((1 << 64) - 95)), "NextPrimeIs(%s, FALSE, Zero, 100)" % nat((1 << 64) - 58)]))
add("sieve_smooth", " /\\ ".join([
    "IsSieved(One, 10)", "~IsSieved(OfInt(3), 1)", "IsSieved(OfInt(3), 0)", "~IsSieved(OfInt(2), 0)", "~IsSieved(Zero, 0)", "IsSieved(OfInt(37), 10)", "~IsSieved(OfInt(31), 10)",
    "~IsSieved(OfInt(35), 2)", "IsSieved(OfInt(49), 2)", "~IsSieved(OfInt(49), 3)",
    "IsSmooth(One, 0)", "~IsSmooth(Zero, 5)", "IsSmooth(OfInt(1024), 0)", "~IsSmooth(OfInt(3), 0)", "IsSmooth(%s, 1)" % nat(2 ** 20 * 3 ** 5),
    "~IsSmooth(OfInt(7), 2)", "IsSmooth(OfInt(7), 3)", "IsSmooth(%s, 2)" % nat(3 ** 50 * 5 ** 3), "~IsSmooth(%s, 2)" % nat(3 ** 50 * 7)]))
# ---- polynomials
add("rabin_eq_def", "\\A v \\in 2..511 : PIsIrred(<<v>>) = PIsIrredByDef(<<v>>)")
add("irred_count_10", "Cardinality({v \\in 1024..2047 : PIsIrred(<<v>>)}) = 99")
add("irred_count_9", "Cardinality({v \\in 512..1023 : PIsIrred(<<v>>)}) = 56")
add("belt_poly", "PIsIrred(BelsPoly(<<135,0,0,0,0,0,0,0,0,0,0,0,0,0,0,0>>, 16)) /\\ ~PIsIrred(BelsPoly(<<133,0,0,0,0,0,0,0,0,0,0,0,0,0,0,0>>, 16))")
for r in rows:
    if r["scheme"] == "bels" and r["num"] in (0, 1, 16):
        add("bels_%d_%d" % (r["len"], r["num"]), "BelsValM(%s, %d)" % (seq(r["m"]), r["len"]))
for r in rows:
    if r["scheme"] == "dstu" and r["f"][0] <= 191:
        add("dstu_field_%d" % r["f"][0], "PIsIrred(DstuPoly(%s))" % seq(r["f"]))
add("dstu_reducible", "~PIsIrred(DstuPoly(<<163, 7, 6, 2>>))")
# ---- dates
add("leap", "IsLeap(2000) /\\ IsLeap(2024) /\\ IsLeap(2400) /\\ ~IsLeap(1900) /\\ ~IsLeap(2100) /\\ ~IsLeap(2023) /\\ IsLeap(1584) /\\ ~IsLeap(1700)")
add("year_lengths", "\\A y \\in {1583, 1900, 2000, 2023, 2024, 2100} : Cardinality({md \\in (0..13) \\X (0..32) : DateIsValid(y, md[1], md[2])}) = IF IsLeap(y) THEN 366 ELSE 365")
add("gregorian_start", "~DateIsValid(1582, 12, 31) /\\ DateIsValid(1583, 1, 1) /\\ ~DateIsValid(0, 1, 1)")
add("feb29", "DateIsValid(2024, 2, 29) /\\ ~DateIsValid(2023, 2, 29) /\\ ~DateIsValid(2100, 2, 29) /\\ DateIsValid(2000, 2, 29) /\\ ~DateIsValid(2024, 2, 30) /\\ ~DateIsValid(2024, 4, 31) /\\ DateIsValid(2024, 12, 31) /\\ ~DateIsValid(2024, 13, 1) /\\ ~DateIsValid(2024, 0, 1) /\\ ~DateIsValid(2024, 1, 0)")
add("yymmdd_year", "Cardinality({v \\in 0..9999 : DateIsValid2(<<2, 4, v \\div 1000, (v \\div 100) % 10, (v \\div 10) % 10, v % 10>>)}) = 366 /\\ Cardinality({v \\in 0..9999 : DateIsValid2(<<0, 1, v \\div 1000, (v \\div 100) % 10, (v \\div 10) % 10, v % 10>>)}) = 365")
add("yymmdd", "DateIsValid2(<<2,2,0,7,2,9>>) /\\ DateIsValid2(<<0,0,0,2,2,9>>) /\\ ~DateIsValid2(<<0,1,0,2,2,9>>) /\\ ~DateIsValid2(<<0,10,0,1,0,1>>) /\\ ~DateIsValid2(<<2,4,0,11,0,1>>) /\\ ~DateIsValid2(<<2,4,1,2,3,255>>) /\\ ~DateIsValid2(<<2,4,1,2,3>>)")
add("big_year", "DateIsValidN(%s, 2, 29) /\\ ~DateIsValidN(%s, 2, 29) /\\ DateIsValidN(%s, 2, 29)" % (nat(2 ** 64 - 16), nat(2 ** 64 - 15), nat(4294967296 + 1104)))
# ---- seeds
for r in rows:
    if r["scheme"] == "stb99seed":
        add("stb99seed_%d" % r["l"], "Stb99SeedVal([l |-> %d, zi |-> %s, di |-> %s, ri |-> %s])" % (r["l"], seq(r["zi"]), seq(r["di"]), seq(r["ri"])))
    if r["scheme"] == "pfokseed":
        add("pfokseed_%d_%s" % (r["l"], "t" if r["name"] == "test" else "s"), "PfokSeedVal([l |-> %d, zi |-> %s, li |-> %s])" % (r["l"], seq(r["zi"]), seq(r["li"])))
zi = seq(range(1, 32))
add("stb99_longest_chains", "Stb99SeedVal([l |-> 2462, zi |-> %s, di |-> <<1897,1514,1207,962,766,609,483,383,303,239,187,146,113,87,66,49,35,24>>, ri |-> <<257,205,163,130,103,82,65,51,40,31>>])" % zi)
add("stb99_di0_over", "~Stb99SeedVal([l |-> 2462, zi |-> %s, di |-> HalfChain(1898, 18), ri |-> HalfChain(257, 10)]) /\\ Stb99SeedVal([l |-> 2462, zi |-> %s, di |-> HalfChain(1897, 18), ri |-> HalfChain(257, 10)])" % (zi, zi))
add("pfok_longest_chain", "PfokSeedVal([l |-> 2942, zi |-> %s, li |-> <<2941,2349,1875,1496,1193,951,757,602,478,379,299,235,184,143,111,85,64,47,34,23>>])" % zi)
add("seed_adj_default", "LET a == Stb99SeedAdj([l |-> 638, zi |-> [i \\in 1..31 |-> 0], di |-> [i \\in 1..18 |-> 0], ri |-> [i \\in 1..10 |-> 0]]) IN a[1] /\\ a[2].zi = [i \\in 1..31 |-> i] /\\ a[2].di[1] = 320 /\\ a[2].ri[1] = 143 /\\ a[2].di[2] = 161")
add("chain_rules", "LinkD(33, 17) /\\ LinkD(26, 17) /\\ ~LinkD(25, 17) /\\ LinkD(34, 17) /\\ ~LinkD(35, 17) /\\ LinkR(22, 17) /\\ ~LinkR(21, 17) /\\ LinkR(257, 205) /\\ ~LinkD(257, 205) /\\ ~LinkD(26, 18) /\\ LinkD(27, 18) /\\ LinkD(27, 17)")
# ---- standard parameter sets: cheap conditions of the small sets
def rec_bign(r):
    no = 24 if r["l"] == 96 else r["l"] // 4
    f = {k: le(r[k]) for k in ("p", "a", "b", "q", "yG")}
    return "[l |-> %d, p |-> %s, a |-> %s, b |-> %s, q |-> %s, yG |-> %s, seed |-> %s, p_o |-> %s, a_o |-> %s, b_o |-> %s, q_o |-> %s, yG_o |-> %s]" % (
        r["l"], nat(f["p"]), nat(f["a"]), nat(f["b"]), nat(f["q"]), nat(f["yG"]), seq(r["seed"]), seq(r["p"]), seq(r["a"]), seq(r["b"]), seq(r["q"]), seq(r["yG"]))
for r in rows:
    if r["scheme"] in ("bign", "bign96") and r["l"] in (96, 128):
        sch = "Bign96Cond" if r["l"] == 96 else "BignCond"
        for c in ("l", "pad", "plen", "p3mod4", "arange", "brange", "bseed", "disc", "qlen", "qnep", "mov"):
            add("%s_%d_%s" % (r["scheme"], r["l"], c), '%s("%s", %s, [x |-> 0])' % (sch, c, rec_bign(r)))
        add("%s_%d_seed_flip" % (r["scheme"], r["l"]), '~%s("bseed", [%s EXCEPT !.seed = <<1,2,3,4,5,6,7,8>>], [x |-> 0])' % (sch, rec_bign(r)))

if len(sys.argv) > 2:          # development aid: keep the vectors whose name matches the regular expression
    import re
    V = [(n, e) for n, e in V if re.search(sys.argv[2], n)]
names = [n for n, _ in V]
assert len(set(names)) == len(names)
out = []
out.append("-------------------------- MODULE ValidatorVectors --------------------------")
out.append("(* GENERATED by tools/gen_valid_vectors.py.  Anchors of ref/Pri.tla and ref/Validators.tla evaluated by TLC (one vector")
out.append("   per state): literature facts on primes and pseudoprimes, checked and forged certificates, counts of primes and of")
out.append("   irreducible polynomials, calendar facts, the headers' documented chains, conditions of the smallest standard sets.")
out.append("   A failing vector means the SPECIFICATION is wrong. *)")
out.append("EXTENDS Validators, TLC")
out.append("\\* (the dummy parameter keeps TLC from evaluating the vectors serially while it pre-processes constants)")
out.append("")
for n, e in V:
    out.append("V_%s(dummy) == %s" % (n, e))
out.append("")
out.append("VecNames == {%s}" % ", ".join('"%s"' % n for n in names))
out.append("VecOk(n) == CASE " + "\n          [] ".join('n = "%s" -> V_%s(0)' % (n, n) for n in names))
out.append("")
out.append("VARIABLES phase, name, ok")
out.append('VInit == phase = 0 /\\ name = "" /\\ ok = TRUE')
out.append("VNext == \\/ phase = 0 /\\ phase' = 1 /\\ name' \\in VecNames /\\ ok' = TRUE")
out.append("         \\/ phase = 1 /\\ phase' = 2 /\\ name' = name /\\ ok' = VecOk(name)")
out.append("VecGood == ok")
out.append("=============================================================================")
dst = os.path.join(os.path.dirname(os.path.abspath(__file__)), "..", "spec", "ref", "ValidatorVectors.tla")
open(dst, "w").write("\n".join(out) + "\n")
open(dst[:-4] + ".cfg", "w").write("INIT VInit\nNEXT VNext\nINVARIANT VecGood\n")
print("%d vectors" % len(V))
