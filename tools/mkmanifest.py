#!/usr/bin/env python3
"""Generates /verif/MANIFEST.json from the table below (single source of truth) and validates it."""
import json, os, sys, subprocess
V = os.path.dirname(os.path.dirname(os.path.abspath(__file__)))
REPO_HOOK_COMMITS = subprocess.run(["git", "-C", "/repo", "log", "--format=%h %s", "--grep=verif hook"],
                                   capture_output=True, text=True).stdout.strip().splitlines()

# id: (category, technique, text, note, design_ref)
CHECKS = {
 "C01": ("exploration",
         "TLA+ reference semantics of STB 34.101.31 (spec/ref/BeltBlock, BeltModes, BeltFmt) anchored by 50 appendix vectors evaluated by TLC; TLC recomputes every recorded call of the real library (Trace_Belt) and generates cases with predicted outputs that the harness replays (Gen_Belt); message-level reuse of WBL / SDE / FMT states as a state machine (spec/sm/MsgApi.tla), every history of <= 2 whole-message calls replayed on one real state",
         "Every belt mechanism is called on enumerated boundary structure (all CTS lengths, wide-block lengths 32..208, header lengths straddling 16, counters wrapping 32/64/128 bits, alteration classes of authenticated unwrapping, FMT alphabets x word lengths, the FMT block-count table by breakpoints) and each result is recomputed by TLC from the standard's definition; not a proof over all keys/data: data octets are seeded samples.",
         "Trusted: TLC, the transcription of the standard in spec/ref (anchored by the appendix vectors in the same run), the C driver. ASan/UBSan build with exact-size buffers.",
         "DESIGN.md section 4, C01"),
 "C02": ("exploration",
         "TLA+ reference semantics of STB 34.101.45 (spec/ref/Bign.tla over ECp/BigNat and BeltModes) anchored by the appendix tables G.1-G.7 evaluated by TLC; tape-driven recorded calls of the real bign functions in the release AND assert-enabled builds judged by Trace_Bign (error classes, ranges, the signing equation for the tape's nonce, sign->verify, gen->val, wrap->unwrap, DH symmetry; a subset recomputed in full); TLC-generated replay cases (Gen_Bign)",
         "Enumerated classes: generator tapes (valid / zero / in [q,2^2l) / in [q,p) / k rejected then valid / all rejected), d x H x nonce grid incl. H >= q and nonces around 2^l, 20 verifier alterations and 15 token alterations classified by the spec (alterations that leave the reduced hash unchanged are ACCEPT), key transport and DH; curves l = 128 (192, 256 in thorough). Data seeded.",
         "Trusted: TLC, the transcription of the standard (anchored by the appendix vectors), the C driver. The identity-based signatures (appendix B: IdExtract / IdSign / IdSign2 / IdVerify incl. boundary identity keys 0, 1, q-1) are specified and driven; an in-field off-curve public key is an observation only (see DESIGN section 0).",
         "DESIGN.md section 4, C02"),
 "C03": ("model_checking",
         "TLA+ reference semantics of STB 34.101.77 / 34.101.47 (spec/ref/BashF, Brng, Botp) anchored by appendix vectors evaluated by TLC; the bash programmable automaton as a state machine (spec/sm/BashPrg.tla) model-checked over command histories, every explored behaviour replayed on the real bashPrg* functions; recorded one-shot calls and random automaton scripts validated by TLC (Trace_Bash); the one-time-password state objects as a state machine (spec/sm/BotpSM.tla): all bounded histories of Start / StepS / StepR / StepV / StepG with predicted outputs replayed on one real object, recorded random histories stepped through the spec (Trace_Botp)",
         "bash-f in every platform variant the CPU supports, hash levels x length classes around the rate, all automaton command histories to depth 2-3 on the 12 configurations (deeper by simulation), brng CTR counters wrapping one word / two words / all 256 bits, HMAC key/IV length classes, OTP digit counts and counter wrap-around: each result recomputed by TLC from the standards' text.",
         "Trusted: TLC, the transcription of the standards (anchored by the appendix vectors), the C driver.",
         "DESIGN.md section 4, C03"),
 "C04": ("model_checking",
         "symbolic protocol state machine spec/sm/Bake.tla (BMQV, BSTS, BPACE, BAUTH x kca/kcb x one attacker action) model-checked exhaustively; every terminal case replayed step by step and through RunA/RunB on the real code with concrete keys; altered points classified by TLC with exact curve arithmetic before the prediction is selected (Trace_Bake)",
         "Honest runs end with equal keys and all steps OK; a tampered message is rejected by the party that requires confirmation at the predicted step with the predicted error class, and without confirmation the keys differ; exhaustive over protocol x flags x attacker action (message part x kind), concrete octet positions and curves per tier.",
         "Trusted: TLC, the symbolic model of the headers' step contracts, the C driver; derived key VALUES of honest runs are not recomputed (only agreement), negated points are accepted by design where only x-coordinates are used. Hello strings of different lengths (or absent) and short reads of the block-wise message collection are part of the replayed set-ups.",
         "DESIGN.md section 4, C04"),
 "C08": ("model_checking",
         "TLA+ specification of the DER profile of der.h and of the OID / APDU / hex / base64 / decimal codecs (spec/ref/Der.tla, Codecs.tla) as partial functions with consumed length; TLC evaluates the decoders on ALL short strings (two-level enumeration, per-prefix aggregates compared with the real decoders, differing prefixes expanded) and on structure-aware mutants recorded from the real code (Trace_Codec)",
         "Exhaustive: every octet string of <= 3 octets for TL / SIZE / OID decoding (thorough; quick takes a slice of first octets), every string of <= 3 symbols for hex / decimal, a structured 4-symbol space for base64. Mutants: every tag form, length form (incl. near SIZE_MAX), typed values, all APDU Lc x Le forms, truncations / octet changes of bign parameters and CV certificates; inputs end at a PROT_NONE guard page so any over-read faults.",
         "Trusted: TLC, the transcription of X.690 / ISO 7816-4 as profiled by the headers, guard pages + ASan as the bounds sensor.",
         "DESIGN.md section 4, C08"),
 "C16": ("exploration",
         "TLA+ reference semantics of bign96, GOST R 34.10-2012, DSTU 4145 and the pfok DH/MTI protocols (spec/ref/Schemes.tla over ECp / BigNat / GF2Poly), anchored by the standards' reference vectors evaluated by TLC; TLC judges recorded scenarios of the real functions (Trace_Schemes): first admissible draw, component ranges, the s-equation given r, Sign->Verify, Gen->Val, compression round trips, agreement of both pfok parties, alteration classes classified by the reduced hash; expensive values (scalar multiplications, exponentiations) recomputed on a subset",
         "Every standard parameter set x private-key class {1, order-1, seeded} x hash class {0, all-ones, >= order, seeded} x tape class x signature length x 15-25 single-bit / boundary alterations of r, s, Q; the repeat loops of every signing algorithm over the generator tape (SignLoop) with histories that force each retry branch (draw out of range, r = 0, s = 0 by a key tied to the tape); bign96Sign2 with optional data; dstuPointCompress / Recover with overlapping point and xpoint; gf2 trace / quadratic solver on 14 fields with exact-size stacks.",
         "Trusted: TLC, the transcription of the standards (anchored), the C driver; full-value oracle only on the recomputed subset, relational + range oracle elsewhere. An alteration that leaves the reduced hash unchanged is ACCEPT by the specification.",
         "DESIGN.md section 4, C16"),
 "C17": ("model_checking",
         "secure-messaging state machine spec/sm/BtokSM.tla model-checked over all operation sequences <= 6 of two peers, all behaviours replayed on btokSM*; CV-certificate chains spec/sm/CvcChain.tla enumerated (field classes, alterations, depth 1..3) and executed with real signatures; protected-APDU and key-container VALUES recomputed by TLC from BeltModes (CFB, MAC, PBKDF2, KWP)",
         "Accepted => recovered APDU = protected APDU, counters in step, parity right; altered => rejected; wrong parity => ERR_BAD_LOGIC (replay detection not claimed). Certificates validate exactly when signature, names and validity periods line up; every single-octet alteration of sampled certificates / containers / protected APDUs is rejected; containers open only with the right password.",
         "Trusted: TLC, the model of btok.h / bpki.h, real bign signatures (tied to the standard by C02), the C driver.",
         "DESIGN.md section 4, C17"),
 "C05": ("exploration",
         "TLA+ big-natural and GF(2)[x] libraries (spec/lib/BigNat.tla, GF2Poly.tla) and one line of mathematics per public function of word / ww / zz / zm-qr / pp / gf2 (spec/ref/ZZ.tla, WW.tla, PP.tla, WordOps.tla), anchored by 138 TLC-evaluated identities; TLC recomputes every recorded call of the real functions (Trace_Arith), both editions of every SAFE/FAST pair called by name, in the 64- and 32-bit word builds",
         "157 functions on enumerated structure: operand lengths 0..21 words crossing every algorithm switch, boundary-alphabet words, multiples of the modulus with quotients drawn from the boundary alphabet, Knuth-D over-estimate cases, 17 modulus classes reaching every reduction strategy of zmCreate, documented aliasing patterns; all 16-bit helpers exhaustively. Values AND carries/borrows/flags are compared; modular results must be fully reduced.",
         "Trusted: TLC, the header formulas as transcribed (anchored), the C driver. Longer operands are a seeded subset of the enumerated classes; The result arrays carry canaries beyond the documented output length (an overrun is a rejected line). ppMinPolyMod has no specification; zzRandMod is judged for its range and for the octets it draws (a multiple of O_OF_B(l), zz.h). The pure Montgomery ring of zmMontCreate is driven for bits(mod) <= l <= B_OF_W(n), the range the implementation asserts (the header's inequality is read accordingly, DESIGN 0.2).",
         "DESIGN.md section 4, C05"),
 "C06": ("model_checking",
         "the affine chord-and-tangent group law as TLA+ definition (spec/ref/ECp.tla, instantiated over TLC integers and over BigNat), validated by TLC as a group on complete small curves; TLC emits COMPLETE tables (points, addition, negation, doubling, tripling, all multiples up to 2*order+2, on-curve decisions for all coordinate pairs, SWU) per curve (Gen_ECSmall) and the same generic C functions are run over all of them in the assert-enabled ASan builds for 64- and 32-bit words; sampled calls on multi-word and standard curves recomputed by TLC (Trace_EC)",
         "Exhaustive on complete curves of 9-120 points (quick; ~1000 points thorough) and on cyclic subgroups of order 5/7 over 64..192-bit primes (plain, Crandall, Montgomery rings): every ordered pair incl. O, P = Q, P = -Q, order-2 points, in J / AJ / AA forms under aliasing c=a, c=b, a=b (never a=b=c), all scalars 0..2*order+2 and multi-word scalars at every NAF width, ecpIsOnA on all pairs incl. coordinates >= p, SWU on all inputs. Standard curves: boundary scalars and TLC-checked laws on recorded results.",
         "Trusted: TLC, the group-law definition (validated as a group by TLC), the C driver with exact ec->deep stacks. Binary curves (ec2.c): the same design over GF(2^m) (spec/ref/EC2*.tla): complete curves over a subfield carried into GF(2^m) by an explicit, TLC-checked field embedding, all pairs x aliasing x Z classes, scalars, the Hasse test of ec2SeemsValidGroup.",
         "DESIGN.md section 4, C06"),
 "C07": ("exploration",
         "resource monitor spec/mon/Regions.tla (TLC trace validation of region / abort events) over the enumerated replay suites executed in exact-size ASan+UBSan+assert builds for 64- and 32-bit words; sensor = AddressSanitizer/UBSan/utilAssert (thorough: + valgrind memcheck); the blob object as a state machine (spec/sm/Blob.tla) whose create / resize / fill / wipe / copy / close histories are replayed with predicted observations in the page-rounded and the exact-size builds; output canaries of the arithmetic driver",
         "Memory safety is not decided by a TLA+ model: the specification family contributes the systematic behaviour space (all lengths / levels / alphabets / fragmentings / overlaps that the functional specs enumerate) and the region monitor; the verdict comes from the sanitizers on executions where every state, stack, blob and caller buffer has exactly the documented size.",
         "Trusted: clang ASan/UBSan (alignment check off by design of the library), the guarded exact-blob hook, the drivers allocating exact sizes. Only behaviours in checks/suites.py are exercised.",
         "DESIGN.md section 4, C07 and section 7"),
 "C09": ("fault_enumeration",
         "error-contract table transcribed from the headers' \\expect clauses (spec/sm/ErrContract.tla, generated + checked by TLC) and heap state machine spec/sm/Heap.tla; TLC generates the argument sweeps (Gen_Err), the harness runs every case with link-time allocator interposition (k-th allocation failure for k = 1..n+1), TLC judges result lines (Trace_Err: E1 error class, E2 no release on failed authentication) and allocator traces (Trace_Heap: E3 failure => error, E4 no leak)",
         "105 err_t functions (192 header clauses) are driven: each scalar argument across and beyond its documented domain, every allocation position of every valid call failed once, tampered tokens with pre/post images of the outputs. Quick runs a seeded third of the functions (plus the persistent-object and blob-growing drivers), thorough all. The shared generator is driven as a persistent object with a follow-up probe after every (failed) creation.",
         "Trusted: TLC, the header transcription (every clause carries its source line), --wrap allocator interposition, ASan build with exact-size blobs. Pointer-validity / overlap clauses and on-curve / primality-type \\expect conditions (only partially checked by design, util.h) are not demanded.",
         "DESIGN.md section 4, C09"),
 "C10": ("model_checking",
         "TLC exhaustive model checking of the buffering state machine spec/sm/StepApi.tla per discipline; every explored fragment script replayed on the real Start/Step/Get bundles (Get/Verify and state relocation at scripted positions); TLC judges each executed script against the one-shot reference semantics (Trace_Belt!StepsOk); two further state machines: spec/sm/MsgApi.tla (one Start, many whole-message StepE/StepD/StepD2/StepR calls on WBL / SDE / FMT) and spec/sm/StepAead.tla (DWP / CHE with the cipher and the authentication half decoupled), their behaviours replayed the same way",
         "Within the bounds (fragments, total length, marks) over the boundary alphabet {0,1,blk-1,blk,blk+1,2blk-1,2blk,2blk+1} every fragment script is enumerated by TLC and executed on the real code (quick: a seeded subset of the larger families); the value oracle is the one-shot specification.",
         "Trusted: TLC, spec/ref belt semantics (anchored in C01), the C driver; data octets are seeded. The bash / brng / botp bundles run through the same scripts (checks/C10_other.py).",
         "DESIGN.md section 4, C10"),
 "C11": ("exploration",
         "TLC enumerates buffer placements from the headers' rule set (spec/sm/Overlap.tla, forbidden pairs excluded, table closure checked); harness lays each placement out in one arena and calls the real function; TLC judges each recorded call against the reference semantics applied to the pre-call inputs (Trace_Belt)",
         "All relative offsets of dest against src in [-(len+16), len+16] for the listed lengths and 11 positions of each auxiliary buffer inside/straddling the output and input regions are executed for the overlap-tolerant one-shot functions (belt, bash, memMove / memJoin, beltKRP, beltFMT); second rule group: the key of every *Start and the tag of StepG / StepG2 swept over EVERY offset sharing an octet with the state; third: DER encoders / decoders with val / len swept against der; result must equal F(inputs before the call).",
         "Trusted: TLC, spec/ref belt semantics, the arena harness. ECB and brng make no overlap statement in their headers (not driven); dstuPointCompress / Recover are swept in C16's driver.",
         "DESIGN.md section 4, C11"),
 "C12": ("exploration",
         "condition lists of the standards as TLA+ predicates (spec/ref/Validators.tla) over BigNat / GF2Poly / ECp, primality by deterministic Miller-Rabin base sets and TLC-checked n-1 certificates (spec/ref/Pri.tla), anchored by 107 TLC-evaluated vectors; TLC judges every recorded decision of the real validators (Trace_Valid): accept iff every condition holds, each rejection justified by a certificate TLC verifies (factor, remainder, recomputed belt-hash, curve equation)",
         "Exhaustive: all 10^6 digit dates and every non-digit octet at each position; priIsPrime* / priNextPrime* on [0,2^16) and around 2^32 in 1- and 2-word forms with several factor-base sizes; all binary polynomials of degree <= 12; every (x,y) on complete tiny curves incl. coordinates >= p and the twist. Enumerated: every standard parameter set of bign, bign96, g12s, stb99, pfok, dstu with each single-field perturbation; key classes d in {0,1,q-1,q,q+1}; Carmichael numbers, strong pseudoprimes, products of primes near 2^32 / 2^64; chain-rule boundaries of stb99 / pfok seeds.",
         "Trusted: TLC, the transcription of the standards' condition lists, python only SEARCHES certificates (TLC verifies them). bignParamsGen is walked over its first seeds only (seed sequence, b = B mod p, which seeds reach calc_q): completing a generation needs point counting, which is outside the library. Primality of a few large standard moduli for which no n-1 certificate was found is assumed (listed in the evidence).",
         "DESIGN.md section 4, C12"),
 "C13": ("exploration",
         "TLA+ reference semantics of STB 34.101.60 over GF(2)[x] (spec/ref/Bels.tla: shares, CRT recovery, irreducibility, minimal polynomial) anchored by 84 TLC-evaluated vectors; TLC recomputes every recorded share / recovery of the real library (Trace_Bels) and checks recovered = secret for every subset of at least threshold shares in every order enumerated",
         "len x count x threshold enumerated; for count <= 6 ALL subsets of size >= threshold and all orders of small subsets are recovered by the real code and recomputed by TLC from the definition; larger counts by seeded subsets; secrets and one-time keys seeded.",
         "Trusted: TLC, the transcription of the standard (anchored by appendix B and the irreducibility of the 51 standard keys), the C driver (ASan build, exact-size buffers).",
         "DESIGN.md section 4, C13"),
 "C14": ("other",
         "noninterference (2-safety) monitor spec/mon/CT.tla checked by TLC over program-counter traces recorded by a ptrace single-stepper on the optimised objects of the current tree; value equality of SAFE and FAST editions against the TLA+ arithmetic specification",
         "Every SAFE edition of the 33 SAFE/FAST pairs, the tag/hash/header verification entry points and the symmetric primitives are single-stepped for enumerated secret variants per public length; all PC traces of one public class must coincide (the irregular FAST(memEq) must be flagged: sensor self-test). Address independence is not part of the statement and not checked.",
         "Trusted: PTRACE_SINGLESTEP as the sensor of executed branches, TLC, the secret-variant classes of harness/drv_ct.c; x86-64 objects produced by gcc -O2 (thorough: also -O3 and clang -O2).",
         "DESIGN.md section 4, C14"),
 "C15": ("model_checking",
         "heap-block lifecycle state machine spec/sm/Heap.tla model-checked exhaustively (MC_Heap) and used as the trace specification (Trace_Heap) for allocator events recorded by link-time interposition; the wiped attribute of a block is computed at free time from memWipe's deterministic pattern over the whole exact-size block",
         "For every secret-processing function of the contract table (all of them in the quick tier too), on success and on every driven error exit and fault position, every block handed back to the allocator must carry the wipe pattern over its whole size (exact-size blobs); realloc is interposed as allocate-copy-snapshot-free so released old blocks are judged too; a content search for the call's secrets in freed blocks is a second signal.",
         "Trusted: TLC, the interposed allocator and its pattern test (src/core/mem.c memWipe), the driven function table of harness/drv_err.c.",
         "DESIGN.md section 4, C15"),
 "C18": ("model_checking",
         "spec/sm/RngMT.tla + Once.tla at the grain of the code's atomic steps (once CAS / initialiser / publication, mutex, critical-section bodies, reference count; every action declares its memory accesses as atomic or plain) model-checked exhaustively by TLC (mutual exclusion, run-once, NoRace in the SC-race sense, ref balance, full length, distinct output blocks, liveness under fairness); TLC-generated schedules replayed on real pthreads through a cooperative scheduler at the guarded VERIF_POINTs; free-running stress traces validated by Trace_RngMT; ThreadSanitizer reports logged as Race events for which the trace spec has no action",
         "All interleavings of 2 threads x <= 5 calls and 3 threads x <= 3 calls (thorough: 2x6, 3x4, 4x3; 9.5 M states) on the model; 2..16 threads by simulation, replay and recorded stress bound to the real code (projection once/inited/refcount/validity compared after every step; output units compared on real octets). TSan binds the atomic/plain attribute of the model's accesses to the code.",
         "Trusted: TLC, the model's correspondence to rng.c/mt.c (bound by replay + trace validation + 13 rejection self-tests), ThreadSanitizer, the guarded hooks. Weak-memory behaviours only through the SC-race criterion plus TSan. Unreferenced rngIsValid is outside the quantifier (observation only).",
         "DESIGN.md section 4, C18"),
 "C19": ("translation_validation",
         "re-execution of the replay suites in every build configuration; TLC judges every distinct answer with the TLA+ reference semantics and checks with spec/mon/Configs.tla that all configurations answered every case identically",
         "The enumerated cases of the functional checks (belt record/FMT/generated cases/fragment scripts/overlap placements, plus the suites of the other drivers) are executed by harnesses built per configuration: {64,32}-bit words x {SAFE,FAST} x {-O0..-O3} x {NDEBUG on,off} x bash-f platform (quick: 6 configurations toggling each axis once; thorough: the product the CPU supports). The right value is pinned by the specification, not merely a common one.",
         "Trusted: TLC, the reference semantics, gcc/clang as used; 32-bit words via the guarded BEE2_VERIF_W32 hook on a 64-bit host (no 32-bit libc).",
         "DESIGN.md section 4, C19"),
 "C20": ("model_checking",
         "TLC exhaustive model checking of sm/BtokPwd.tla rules on the transition table extracted from btokPwdTransition; counterexample replay; trace validation of random walks (trace/Trace_Pwd.tla)",
         "Exhaustive: all 16x4 states x 9 events of the real function are extracted, TLC checks rules R1..R8 on that graph from every initial PIN state (complete finite space), every counterexample is re-executed on the real function, and recorded random walks are validated step by step.",
         "Trusted: TLC, the table extraction harness (drv_pwd.c), determinism of btokPwdTransition. The formalisation of the statement's rules is sm/BtokPwd.tla (R1..R8).",
         "DESIGN.md section 4, C20 and Appendix A"),
}
NOT_APPLICABLE = {}

def main():
    props = [json.loads(l)["id"] for l in open(os.path.join(V, "properties.jsonl"))]
    man = {
        "version": 1,
        "setup_cmd": "python3 tools/setup.py",
        "hooks": {
            "guard": "BEE2_VERIF",
            "enable": "checks compile /repo/src/**/*.c directly (tools/vlib.py build()) with -DBEE2_VERIF plus per-variant defines (BEE2_VERIF_W32, BEE2_VERIF_EXACT_BLOB); /repo/_build is never used",
            "baseline_off_cmd": "sh tools/baseline.sh",
            "source_commits": [c.split()[0] for c in REPO_HOOK_COMMITS],
            "add_only": True,
        },
        "engines": [
            {"name": "tlc", "path": "/opt/veriftools/tla/tla2tools.jar", "serves_properties": sorted(CHECKS),
             "kind_free_text": "explicit-state model checker for the TLA+ specifications under spec/ (model checking, case generation, trace validation)"},
            {"name": "harness", "path": "harness/", "serves_properties": sorted(CHECKS),
             "kind_free_text": "C drivers linked against objects compiled from /repo's current sources (record and replay directions)"},
        ],
        "checks": [],
        "not_applicable": [],
        "notes": "Every check: ./check <id> --tier quick|thorough. Specifications under spec/ (lib, ref, sm, mon, mc, gen, trace). Known findings: KNOWN_FINDINGS.txt. See DESIGN.md.",
    }
    for pid in props:
        if pid in CHECKS:
            cat, tech, text, note, ref = CHECKS[pid]
            man["checks"].append({
                "property_id": pid,
                "quick_cmd": "./check %s --tier quick" % pid,
                "thorough_cmd": "./check %s --tier thorough" % pid,
                "evidence_file": "/verif/evidence/%s.json" % pid,
                "replay_cmd_template": "./check %s --replay {path}" % pid,
                "engine": "tlc",
                "level_claimed": {"category": cat, "text": text, "design_ref": ref},
                "level_note": note,
                "technique": tech,
            })
        else:
            man["not_applicable"].append({"property_id": pid,
                "reason": NOT_APPLICABLE.get(pid, "check not built yet (work in progress; planned per DESIGN.md section 4)")})
    with open(os.path.join(V, "MANIFEST.json"), "w") as f:
        json.dump(man, f, indent=1)
    try:
        import jsonschema
        jsonschema.validate(man, json.load(open("/root/.vp/MANIFEST.schema.json")))
        print("MANIFEST.json valid: %d checks, %d not_applicable" % (len(man["checks"]), len(man["not_applicable"])))
    except ImportError:
        print("jsonschema not available; wrote MANIFEST.json unvalidated")

if __name__ == "__main__":
    main()
