"""Search for primality certificates (Pocklington / Brillhart-Lehmer-Selfridge n-1 certificates).
Python only SEARCHES; the certificate is CHECKED by TLC (spec/ref/Pri.tla, CertOk).  Nothing here is trusted.

A certificate is a list of nodes, children before parents; node i proves that nodes[i].n is prime:
  {"n": N, "kind": "mr"}                                  N < MR_BOUND: deterministic Miller-Rabin in TLC
  {"n": N, "kind": "pock", "fs": [[child index, exponent, witness a], ...]}
        F = prod q^e divides N-1, every q = nodes[child].n proved prime, for every q:
        a^(N-1) = 1 (mod N) and gcd(a^((N-1)/q) - 1, N) = 1; and F^2 > N, or F^3 > N together with the
        BLS condition (N = c2 F^2 + c1 F + 1 with 0 <= c1 < F: c1^2 - 4 c2 is not a perfect square).
usage: python3 tools/pricert.py <decimal or 0xhex> [time budget s]   -> prints the JSON certificate
"""
import sys, json, math, random, time

MR_BOUND = 3317044064679887385961981
SMALL = [p for p in range(2, 20000) if all(p % d for d in range(2, int(p ** 0.5) + 1))]


def is_prp(n, rounds=24):
    if n < 2:
        return False
    for p in SMALL[:60]:
        if n % p == 0:
            return n == p
    d, s = n - 1, 0
    while d % 2 == 0:
        d //= 2; s += 1
    rng = random.Random(n & 0xFFFFFFFF)
    for i in range(rounds):
        a = SMALL[i] if i < 13 else rng.randrange(2, n - 1)
        x = pow(a, d, n)
        if x in (1, n - 1):
            continue
        for _ in range(s - 1):
            x = x * x % n
            if x == n - 1:
                break
        else:
            return False
    return True


def rho(n, deadline, rng):
    if n % 2 == 0:
        return 2
    while time.time() < deadline:
        c = rng.randrange(1, n - 1); y = rng.randrange(0, n); m = 256; g = r = q = 1
        while g == 1 and time.time() < deadline:
            x = y
            for _ in range(r):
                y = (y * y + c) % n
            k = 0
            while k < r and g == 1:
                ys = y
                for _ in range(min(m, r - k)):
                    y = (y * y + c) % n
                    q = q * abs(x - y) % n
                g = math.gcd(q, n); k += m
            r *= 2
            if r > (1 << 22):
                break
        if g == n:
            g = 1
            while g == 1:
                ys = (ys * ys + c) % n
                g = math.gcd(abs(x - ys), n)
        if 1 < g < n:
            return g
    return None


def pm1(n, B1=200000):
    a = 2
    for p in SMALL:
        if p > B1:
            break
        e = int(math.log(B1, p))
        a = pow(a, p ** e, n)
    g = math.gcd(a - 1, n)
    return g if 1 < g < n else None


# ---- ECM (Montgomery curves, Suyama parametrisation), stage 1 + simple stage 2
def _primes_upto(B):
    sieve = bytearray([1]) * (B + 1); sieve[0:2] = b"\0\0"
    for i in range(2, int(B ** 0.5) + 1):
        if sieve[i]:
            sieve[i * i::i] = bytearray(len(sieve[i * i::i]))
    return [i for i in range(B + 1) if sieve[i]]


_PR = {}


def ecm_one(n, B1, B2, sigma):
    def add(P, Q, D):
        u = (P[0] - P[1]) * (Q[0] + Q[1]); v = (P[0] + P[1]) * (Q[0] - Q[1])
        s = u + v; t = u - v
        return (D[1] * s * s % n, D[0] * t * t % n)

    def dbl(P):
        s = (P[0] + P[1]); s = s * s % n; d = (P[0] - P[1]); d = d * d % n; t = s - d
        return (s * d % n, t * (d + a24 * t) % n)

    def mul(k, P):
        if k == 1:
            return P
        R0, R1 = P, dbl(P)
        for b in bin(k)[3:]:
            if b == "1":
                R0, R1 = add(R0, R1, P), dbl(R1)
            else:
                R0, R1 = dbl(R0), add(R0, R1, P)
        return R0

    u = (sigma * sigma - 5) % n; v = 4 * sigma % n
    x = pow(u, 3, n); z = pow(v, 3, n)
    t = 4 * x * v % n
    g = math.gcd(t, n)
    if g != 1:
        return g if g < n else None
    a24 = (pow(v - u, 3, n) * (3 * u + v) % n) * pow(4 * t, -1, n) % n
    P = (x, z)
    if B1 not in _PR:
        _PR[B1] = _primes_upto(B1)
    for p in _PR[B1]:
        e = int(math.log(B1, p))
        P = mul(p ** e, P)
    g = math.gcd(P[1], n)
    if 1 < g < n:
        return g
    if g == n:
        return None
    return None


def ecm(n, deadline, rng, log=None):
    plan = [(2000, 0, 30), (11000, 0, 90), (50000, 0, 300), (250000, 0, 700), (1000000, 0, 2000)]
    for B1, B2, curves in plan:
        for i in range(curves):
            if time.time() > deadline:
                return None
            g = ecm_one(n, B1, B2, rng.randrange(6, 1 << 62))
            if g:
                if log:
                    log("ecm B1=%d curve %d: factor of %d bits" % (B1, i, g.bit_length()))
                return g
    return None


def factor(n, deadline, rng, log=None):
    """-> (dict prime -> exponent, unfactored composite cofactor or 1)"""
    fs = {}
    for p in SMALL:
        while n % p == 0:
            fs[p] = fs.get(p, 0) + 1; n //= p
    stack = [n] if n > 1 else []
    rest = 1
    while stack:
        m = stack.pop()
        if m == 1:
            continue
        if is_prp(m):
            fs[m] = fs.get(m, 0) + 1
            continue
        r = int(round(m ** 0.5)) if m < (1 << 1000) else 0
        g = None
        if r and r * r == m:
            g = r
        if not g:
            g = pm1(m)
        if not g and m.bit_length() <= 110:
            g = rho(m, min(deadline, time.time() + 60), rng)
        if not g:
            g = ecm(m, deadline, rng, log)
        if not g:
            rest *= m
            continue
        stack += [g, m // g]
    return fs, rest


def isqrt_is_square(v):
    if v < 0:
        return False
    r = math.isqrt(v)
    return r * r == v


def prove(n, budget=600, log=None, nodes=None, memo=None, depth=0):
    """Returns list of nodes (children first) whose last element proves n, or None."""
    top = nodes is None
    if top:
        nodes, memo = [], {}
    if n in memo:
        return memo[n]
    if n < MR_BOUND:
        if not is_prp(n):
            return None
        nodes.append({"n": n, "kind": "mr"}); memo[n] = len(nodes) - 1
        return memo[n]
    if not is_prp(n):
        return None
    rng = random.Random((n % (1 << 61)) ^ int(budget * 1000003))
    deadline = time.time() + budget
    fs, rest = factor(n - 1, deadline, rng, log)
    primes = sorted(fs, reverse=True)
    # choose factors: prefer cheap (small) primes, add big ones until F is large enough
    F = 1; chosen = []
    for q in sorted(fs):
        chosen.append(q); F *= q ** fs[q]
    if F ** 3 <= n:
        if log:
            log("depth %d: %d-bit n: factored part only %d bits (rest %d bits): no certificate" % (depth, n.bit_length(), F.bit_length(), rest.bit_length()))
        return None
    # drop the largest factors that are not needed (fewer recursive proofs)
    for q in sorted(chosen, reverse=True):
        F2 = F // (q ** fs[q])
        if F2 * F2 > n:
            F = F2; chosen.remove(q)
    ent = []
    for q in chosen:
        ci = prove(q, budget, log, nodes, memo, depth + 1)
        if ci is None:
            # cannot certify q: try without it
            F //= q ** fs[q]
            continue
        a = 2
        while True:
            if pow(a, n - 1, n) != 1:
                return None
            if math.gcd(pow(a, (n - 1) // q, n) - 1, n) == 1:
                break
            a += 1
            if a > 2000:
                return None
        ent.append([ci, fs[q], a])
    if F * F <= n:
        if F ** 3 <= n:
            return None
        R = (n - 1) // F
        c2, c1 = divmod(R, F)
        if isqrt_is_square(c1 * c1 - 4 * c2):
            return None
    nodes.append({"n": n, "kind": "pock", "fs": ent}); memo[n] = len(nodes) - 1
    return memo[n] if not top else memo[n]


def certificate(n, budget=600, log=None):
    nodes, memo = [], {}
    r = prove(n, budget, log, nodes, memo)
    if r is None:
        return None
    # keep only nodes reachable from r, renumbered (children first)
    keep = []
    def visit(i):
        if i in keep:
            return
        for f in nodes[i].get("fs", []):
            visit(f[0])
        keep.append(i)
    visit(r)
    ren = {old: new for new, old in enumerate(keep)}
    out = []
    for old in keep:
        nd = dict(nodes[old])
        if "fs" in nd:
            nd["fs"] = [[ren[f[0]], f[1], f[2]] for f in nd["fs"]]
        out.append(nd)
    return out


def check(cert):
    """python re-check (debug aid only; TLC is the judge)"""
    ok = []
    for nd in cert:
        n = nd["n"]
        if nd["kind"] == "mr":
            ok.append(n < MR_BOUND and is_prp(n)); continue
        F = 1; good = True
        for ci, e, a in nd["fs"]:
            q = cert[ci]["n"]
            good &= ok[ci] and pow(a, n - 1, n) == 1 and math.gcd(pow(a, (n - 1) // q, n) - 1, n) == 1
            F *= q ** e
        good &= (n - 1) % F == 0
        if F * F > n:
            pass
        elif F ** 3 > n:
            c2, c1 = divmod((n - 1) // F, F)
            good &= not isqrt_is_square(c1 * c1 - 4 * c2)
        else:
            good = False
        ok.append(good)
    return ok[-1]


if __name__ == "__main__":
    n = int(sys.argv[1], 0)
    budget = float(sys.argv[2]) if len(sys.argv) > 2 else 600
    c = certificate(n, budget, log=lambda s: sys.stderr.write(s + "\n"))
    if c is None:
        print("null"); sys.exit(1)
    assert check(c)
    print(json.dumps([{**nd, "n": str(nd["n"])} for nd in c]))
