#!/usr/bin/env python3
"""Validate evidence/*.json and MANIFEST.json against the schemas (all errors listed). Run with python3-vt (jsonschema)."""
import json, glob, sys
import jsonschema
sch = json.load(open('/root/.vp/EVIDENCE.schema.json'))
v = jsonschema.Draft202012Validator(sch) if hasattr(jsonschema, "Draft202012Validator") else jsonschema.Draft7Validator(sch)
bad = 0
for f in sorted(glob.glob('/verif/evidence/*.json')):
    errs = list(v.iter_errors(json.load(open(f))))
    for e in errs:
        bad += 1
        print(f, "/".join(str(x) for x in e.absolute_path), e.message[:160])
m = json.load(open('/verif/MANIFEST.json'))
for e in jsonschema.Draft7Validator(json.load(open('/root/.vp/MANIFEST.schema.json'))).iter_errors(m):
    bad += 1
    print("MANIFEST", e.message[:200])
print("errors:", bad)
sys.exit(1 if bad else 0)
