#!/bin/sh
# tools/seedverify.sh <seed dir>... : independent confirmation of a seeded change in a scratch worktree:
#  (1) demo passes on the pristine tree, (2) patched tree builds, (3) testbee2 still 38 OK, (4) demo fails.
# Result in <seed dir>/verify.txt.  Never touches /repo's working tree.
for D0 in "$@"; do D=$(cd "$D0" && pwd)
  WT=/tmp/seedverify_$$_$(basename "$D"); rm -rf "$WT"
  git -C /repo worktree add -q "$WT" HEAD || continue
  R="$D/verify.txt"; : > "$R"
  EXTRA=$(grep -o '\-Wl,--wrap=[a-z,=-]*' "$D/meta.json" | head -1)
  build() { (cd "$WT" && cmake -G Ninja -B _build -DCMAKE_BUILD_TYPE=Release >/dev/null 2>&1 && cmake --build _build -j6 >/dev/null 2>&1); }
  demo() { LIB=$(ls "$WT"/_build/src/libbee2_static.a 2>/dev/null); 
           if [ -n "$EXTRA" ] && [ -n "$LIB" ]; then cc "$D/demo.c" -I"$WT/include" -I"$WT/src" $EXTRA "$LIB" -lpthread -o "$WT/demo" 2>>"$R";
           else cc "$D/demo.c" -I"$WT/include" -I"$WT/src" -L"$WT/_build/src" -lbee2 -Wl,-rpath,"$WT/_build/src" -lpthread -o "$WT/demo" 2>>"$R"; fi && (cd "$WT" && timeout 600 ./demo >/dev/null 2>&1); echo $?; }
  build || echo "pristine build failed" >> "$R"
  echo "demo on pristine tree: exit $(demo)" >> "$R"
  if git -C "$WT" apply "$D/patch.diff" 2>>"$R"; then
    if build; then
      N=$(cd "$WT" && timeout 1500 ./_build/test/testbee2 2>/dev/null | grep -c ": OK")
      echo "patched tree: testbee2 sub-tests OK = $N" >> "$R"
      echo "demo on patched tree: exit $(demo)" >> "$R"
    else echo "patched build failed" >> "$R"; fi
  else echo "patch does not apply" >> "$R"; fi
  git -C /repo worktree remove --force "$WT"
  echo "$D: $(tr '\n' ';' < "$R")"
done
