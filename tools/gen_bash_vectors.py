#!/usr/bin/env python3
"""Generates spec/ref/BashVectors.tla: the appendix tables of STB 34.101.77 (A.2-A.6) and of
STB 34.101.47 (B.2, B.4, botp) as TLC-evaluated checks of the reference semantics
(ref/BashF.tla, sm/BashPrg.tla, ref/Brng.tla, ref/Botp.tla).  The hex strings are the standards'
(as reproduced in /repo/test/crypto/{bash,brng,botp}_test.c); inputs are slices of the belt
S-box table H, as in the standards.  A failing vector means the SPECIFICATION is wrong."""
import re


def tup(h):
    b = bytes.fromhex(re.sub(r"\s+", "", h))
    return "<<" + ",".join(str(x) for x in b) + ">>"


def s2t(s):
    return "<<" + ",".join(str(ord(c)) for c in s) + ">>"


H = lambda off, n: "HSlice(%d, %d)" % (off, n)

PRE = r'''
\* ---- composition of automaton commands for the vectors: st = [s, pos, r, l, d]
PStart(lv, dv, A, K) == [s |-> StartS(lv, dv, A, K), pos |-> 1 + Len(A) + Len(K),
                         r |-> BufLen(lv, dv, Len(K) # 0), l |-> lv, d |-> dv]
PRestart(st, A, K) ==
  [st EXCEPT !.s = XorAt(CommitS(st.s, st.pos, st.r, IF Len(K) # 0 THEN CodeKEY ELSE CodeNULL), 0, HeadOf(A, K)),
             !.pos = 1 + Len(A) + Len(K),
             !.r = IF Len(K) # 0 THEN BufLen(st.l, st.d, TRUE) ELSE st.r]
\* a whole data command: returns <<st', out>>
PCmd(st, code, mode, X) ==
  LET res == Duplex(CommitS(st.s, st.pos, st.r, code), 0, st.r, X, mode)
  IN << [st EXCEPT !.s = res.s, !.pos = res.pos], res.out >>
PAbsorb(st, X) == PCmd(st, CodeDATA, "absorb", X)[1]
PSqueeze(st, n) == PCmd(st, CodeOUT, "squeeze", Zeros(n))
PEncr(st, X) == PCmd(st, CodeTEXT, "encr", X)
PDecr(st, Y) == PCmd(st, CodeTEXT, "decr", Y)
PRatchet(st) == [st EXCEPT !.s = RatchetS(st.s, st.pos, st.r), !.pos = 0]
\* a data command in several steps (chunk lengths ns): returns <<st', out>>
PCmdSteps(st, code, mode, X, ns) ==
  LET c == CommitS(st.s, st.pos, st.r, code)
      res == FoldLeft(LAMBDA a, n : LET q == Duplex(a.s, a.pos, st.r, Sub(X, a.off + 1, a.off + n), mode)
                                    IN [s |-> q.s, pos |-> q.pos, out |-> a.out \o q.out, off |-> a.off + n],
                      [s |-> c, pos |-> 0, out |-> <<>>, off |-> 0], ns)
  IN << [st EXCEPT !.s = res.s, !.pos = res.pos], res.out >>

A4alpha == PSqueeze(PRatchet(PAbsorb(PStart(256, 2, <<>>, HSlice(0, 32)), HSlice(32, 95))), 16)[2]
A4beta0 == PStart(128, 1, HSlice(128, 16), A4alpha)
A4gamma0 == PRestart(A4beta0, HSlice(144, 4), <<>>)
A5(lv, dv, n, m) == PSqueeze(PAbsorb(PStart(lv, dv, <<>>, <<>>), HSlice(0, n)), m)[2]
A6st == PAbsorb(PStart(256, 1, HSlice(0, 16), HSlice(32, 32)), HSlice(64, 49))
'''

A2 = """8FE727775EA7F140B95BB6A200CBB28C7F0809C0C0BC68B7DC5AEDC841BD94E4
03630C301FC255DF5B67DB53EF65E376E8A4D797A6172F2271BA48093173D329
C3502AC946767326A2891971392D3F7089959F5D61621238655975E00E2132A0
D5018CEEDB17731CCD88FC50151D37C0D4A3359506AEDC2E6109511E7703AFBB
014642348D8568AA1A5D9868C4C7E6DFA756B1690C7C2608A2DC136F5997AB8F
BB3F4D9F033C87CA6070E117F099C4094972ACD9D976214B7CED8E3F8B6E058E"""
A6E = """690673766C3E848CAC7C05169FFB7B7751E52A011040E5602573FAF991044A00
4329EEF7BED8E6875830A91854D1BD2EDC6FC2FF37851DBAC249DF400A0549EA
2E0C811D499E1FF1E5E32FAE7F0532FA4051D0F9E300D9B1DBF119AC8CFFC48D
D3CBF1CA0DBA5DD97481C88DF0BE412785E40988B31585537948B80F5A9C49E0
8DD684A7DCA871C380DFDC4C4DFBE61F50D2D0FBD24D8B9D32974A347247D001
BAD5B168440025693967E77394DC088B0ECCFA8D291BA13D44F60B06E2EDB351"""
A6H = "CDE5AF6EF9A14B7D0C191B869A6343ED6A4E9AAB4EE00A579E9E682D0EC051E3"

V = [
 # ---- STB 34.101.77
 ("A2", "BashF(%s)" % H(0, 192), A2),
 ("A2_C24", "WordTo(RoundC[24])", None, "WordTo(RoundC[24])"),   # placeholder replaced below
 ("A3_1", "BashHash(128, <<>>)", "114C3DFAE373D9BCBC3602D6386F2D6A2059BA1BF9048DBAA5146A6CB775709D"),
 ("A3_2", "BashHash(128, %s)" % H(0, 127), "3D7F4EFA00E9BA33FEED259986567DCF5C6D12D51057A968F14F06CC0F905961"),
 ("A3_3", "BashHash(128, %s)" % H(0, 128), "D7F428311254B8B2D00F7F9EEFBD8F3025FA87C4BABD1BDDBE87E35B7AC80DD6"),
 ("A3_4", "BashHash(128, %s)" % H(0, 135), "1393FA1B65172F2D18946AEAE576FA1CF54FDD354A0CB2974A997DC4865D3100"),
 ("A3_5", "BashHash(192, %s)" % H(0, 95), "64334AF830D33F63E9ACDFA184E32522103FFF5C6860110A2CD369EDBC04387C501D8F92F749AE4DE15A8305C353D64D"),
 ("A3_6", "BashHash(192, %s)" % H(0, 96), "D06EFBC16FD6C0880CBFC6A4E3D65AB101FA82826934190FAABEBFBFFEDE93B22B85EA72A7FB3147A133A5A8FEBD8320"),
 ("A3_7", "BashHash(192, %s)" % H(0, 108), "FF763296571E2377E71A1538070CC0DE88888606F32EEE6B082788D246686B00FC05A17405C5517699DA44B7EF5F55AB"),
 ("A3_8", "BashHash(256, %s)" % H(0, 63), "2A66C87C189C12E255239406123BDEDBF19955EAF0808B2AD705E249220845E20F4786FB6765D0B5C48984B1B16556EF19EA8192B985E4233D9C09508D6339E7"),
 ("A3_9", "BashHash(256, %s)" % H(0, 64), "07ABBF8580E7E5A321E9B940F667AE209E2952CEF557978AE743DB086BAB4885B708233C3F5541DF8AAFC3611482FDE498E58B3379A6622DAC2664C9C118A162"),
 ("A3_10", "BashHash(256, %s)" % H(0, 127), "526073918F97928E9D15508385F42F03ADE3211A23900A30131F8A1E3E1EE21CC09D13CFF6981101235D895746A4643F0AA62B0A7BC98A269E4507A257F0D4EE"),
 ("A3_11", "BashHash(256, %s)" % H(0, 192), "8724C7FF8A2A83F22E38CB9763777B96A70ABA3444F214C763D93CD6D19FCFDE6C3D3931857C4FF6CCCD49BD99852FE9EAA7495ECCDD96B571E0EDCF47F89768"),
 ("A4_alpha", "A4alpha", "71CC358A0D5082173DE04803F7E905CB"),
 ("A4_beta", "PEncr(A4beta0, %s)[2]" % H(160, 23), "51ED3B28D345FFD1AD22815B86ECC17C278C8FE8920214"),
 ("A4_beta_inv", "PDecr(A4beta0, %s)[2]" % tup("51ED3B28D345FFD1AD22815B86ECC17C278C8FE8920214"), None, H(160, 23)),
 ("A4_gamma", "PEncr(A4gamma0, %s)[2]" % H(160, 23), "28FE0998BFC010F13B260685A27AFB36CCF580F753521B"),
 ("A4_gamma_inv", "PDecr(A4gamma0, %s)[2]" % tup("28FE0998BFC010F13B260685A27AFB36CCF580F753521B"), None, H(160, 23)),
 ("A5_1", "A5(128, 2, 0, 32)", "36FA075EC15721F250B9A641A8CB99A333A9EE7BA8586D0646CBAC3686C03DF3"),
 ("A5_2", "A5(128, 2, 127, 32)", "C930FF427307420DA6E4182969AA1FFC3310179B8A0EDB3E20BEC285B568BA17"),
 ("A5_3", "A5(128, 2, 128, 32)", "92AD1402C2007191F2F7CFAD6A2F8807BB0C50F73DFF95EF1B8AF08504D54007"),
 ("A5_4", "A5(128, 2, 150, 32)", "48DB61832CA1009003BC0D8BDE67893A9DC683C48A5BC23AC884EB4613B480A6"),
 ("A5_4_steps", "PCmdSteps(PCmdSteps(PStart(128, 2, <<>>, <<>>), CodeDATA, \"absorb\", %s, <<0, 50, 50, 50>>)[1], CodeOUT, \"squeeze\", Zeros(32), <<13, 19>>)[2]" % H(0, 150),
  "48DB61832CA1009003BC0D8BDE67893A9DC683C48A5BC23AC884EB4613B480A6"),
 ("A5_5", "A5(192, 1, 143, 48)", "6166032D6713D401A6BC687CCFFF2E603287143A84C78D2C62C71551E0E2FB2AF6B799EE33B5DECD7F62F190B1FBB052"),
 ("A5_6", "A5(192, 1, 144, 48)", "8D84C82ECD0AB6468CC451CFC5EEB3B298DFD381D200DA69FBED5AE67D26BAD5C727E2652A225BF465993043039E338B"),
 ("A5_7", "A5(192, 1, 150, 48)", "47529F9D499AB6AB8AD72B1754C90C39E7DA237BEB16CDFC00FE87934F5AFC1101862DFA50560F062A4DAC859CC13DBC"),
 ("A6_encr", "PEncr(A6st, Zeros(192))[2]", A6E),
 ("A6_hash", "PSqueeze(PEncr(A6st, Zeros(192))[1], 32)[2]", A6H),
 ("A6_decr", "LET q == PCmdSteps(A6st, CodeTEXT, \"decr\", %s, <<32, 32, 32, 32, 32, 32>>) IN <<q[2], PCmdSteps(q[1], CodeOUT, \"squeeze\", Zeros(32), <<14, 18>>)[2]>>" % tup(A6E),
  None, "<<Zeros(192), %s>>" % tup(A6H)),
 ("BufTable", "BufTableOk", None, "TRUE"),
]
V = [v for v in V if v[0] != "A2_C24"]

# ---- STB 34.101.47: brng (B.2, B.4 and the additional tests of brng_test.c)
B2 = """1F66B5B84B7339674533F0329C74F21834281FED0732429E0C79235FC273E269
4C0E74B2CD5811AD21F23DE7E0FA742C3ED6EC483C461CE15C33A77AA308B7D2
0F51D91347617C20BD4AB07AEF4F26A1AD1362A8F9A3D42FBE1B8E6F1C88AAD5
0A4E8298BE0839E46F19409F637F4415572251DD0D39284F0F0390D93BBCE9EC
F81B29D571F6452FF8B2B97F57E18A58BC946FEE45EAB32B06FCAC23A33F422B
C431B41BBE8E802288737ACF45A29251FC736A3C6F478F77A7ED271D5EEDAA58
E98309303623AFD33017C42BC6D43C15438446EE57D46E412EFC0B61B5FBA39E
D37BABE50BFEEB8ED162BB1393D46FB43534A201EB3B1A5C085DC5068ED6F89A"""
B2IV = "C132971343FC9A48A02A885F194B09A17ECDA4D01544AF8CA58450BF66D2E88A"
B4 = """AF907A0E470A3A1B268ECCCCC0B90F239FE94A2DC6E014179FC789CB3C3887E4
695C6B96B84948F8D76924E22260859DB9B5FE757BEDA2E17103EE44655A9FEF
648077CCC5002E0561C6EF512C513B8C24B4F3A157221CFBC1597E969778C1E4"""
VB = [
 ("B2", "CTRRand(%s, %s, %s)[1]" % (H(128, 32), H(192, 32), H(0, 256)), B2),
 ("B2_iv3", "CTRRand(%s, %s, %s)[2]" % (H(128, 32), H(192, 32), H(0, 96)), B2IV),
 ("B4", "HMACRand(%s, %s, 96)" % (H(128, 32), H(192, 32)), B4),
 ("B4_short", "HMACRand(%s, %s, 2)" % (H(128, 1), H(192, 1)), "42B1"),
]

# ---- botp (botp_test.c): HOTP.1-3, TOTP.1-3, OCRA.format, OCRA.1-3
SUITE = "OCRA-1:HOTP-HBELT-8:C-QN08-PHBELT-S064-T1M"
T0 = 1449165288
def be8(v):
    return "<<" + ",".join(str((v >> (8 * (7 - i))) & 255) for i in range(8)) + ">>"
CTR0 = H(192, 8)
VO = [
 ("HOTP_1", "HOTP(8, %s, %s)" % (H(128, 32), CTR0), None, s2t("21157984")),
 ("HOTP_2", "HOTP(8, %s, CtrNext(%s))" % (H(128, 32), CTR0), None, s2t("17877985")),
 ("HOTP_3", "HOTP(8, %s, CtrNext(CtrNext(%s)))" % (H(128, 32), CTR0), None, s2t("26078636")),
 ("TOTP_1", "HOTP(8, %s, %s)" % (H(128, 32), be8(T0 // 60)), None, s2t("97660664")),
 ("TOTP_2", "HOTP(8, %s, %s)" % (H(128, 32), be8(T0 // 60 + 1)), None, s2t("94431522")),
 ("TOTP_3", "HOTP(8, %s, %s)" % (H(128, 32), be8(T0 // 60 + 2)), None, s2t("55973851")),
]
bad = ["OCRA-:HOTP-HBELT-6:C-QN08", "OCRA-1:HOTP-HBELT-3:C-QN08", "OCRA-1:HOTP-HBELT-6-QN08",
       "OCRA-1:HOTP-HBELT-8:C-QA65", "OCRA-1:HOTP-HBELT-8:C-QN08-", "OCRA-1:HOTP-HBELT-8:C-QN08-PSHA",
       "OCRA-1:HOTP-HBELT-8:QN08-SA13", "OCRA-1:HOTP-HBELT-8:QN08-T1N", "OCRA-1:HOTP-HBELT-8:QN08-T61S",
       "OCRA-1:HOTP-HBELT-8:QN08-T51H"]
for i, b in enumerate(bad):
    VO.append(("OCRA_fmt_bad%d" % (i + 1), "SuiteOk(%s)" % s2t(b), None, "FALSE"))
VO.append(("OCRA_fmt_good", "SuiteOk(%s)" % s2t("OCRA-1:HOTP-HBELT-9:QN08-T8S"), None, "TRUE"))
VO.append(("OCRA_fmt_parse", "SuiteParse(%s)" % s2t(SUITE), None,
           '[ok |-> TRUE, digit |-> 8, ctr |-> TRUE, qtype |-> "N", qmax |-> 8, plen |-> 32, slen |-> 64, ts |-> 60]'))
# OCRA.1: ctr = HOTP counter after three passwords, p = belt-hash(H[0..13)), s = H[0..64),
# q = "21157984", t = T0/60 + 5;  OCRA.2: q = otp2 || otp3, t + 10, ctr + 1;  OCRA.3: q = otp3 || otp2, t + 11
CTR3 = "CtrNext(CtrNext(CtrNext(%s)))" % CTR0
def ocra(q, ctr, t):
    return "OCRA(%s, %s, %s, %s, Hash(%s), %s, %s)" % (s2t(SUITE), H(128, 32), s2t(q), ctr, H(0, 13), H(0, 64), be8(t))
VO += [
 ("OCRA_1", ocra("21157984", CTR3, T0 // 60 + 5), None, s2t("85199085")),
 ("OCRA_2", ocra("1787798526078636", "CtrNext(%s)" % CTR3, T0 // 60 + 15), None, s2t("89873725")),
 ("OCRA_3", ocra("2607863617877985", "CtrNext(CtrNext(%s))" % CTR3, T0 // 60 + 16), None, s2t("21318915")),
]
V += VB + VO

out = ["---------------------------- MODULE BashVectors ----------------------------",
       "(* GENERATED by tools/gen_bash_vectors.py.  Appendix vectors of STB 34.101.77 (A.2-A.6) and",
       "   STB 34.101.47 (B.2, B.4; HOTP/TOTP/OCRA of botp_test.c), evaluated by TLC on the reference",
       "   semantics (one vector per TLC state, so that the workers evaluate them in parallel).",
       "   A failing vector means the SPECIFICATION is wrong. *)",
       "EXTENDS BashPrg, Brng, Botp, TLC", PRE]
names = []
for v in V:
    name, expr = v[0], v[1]
    exp = tup(v[2]) if v[2] else v[3]
    out.append("V_%s == (%s) = %s" % (name, expr, exp))
    names.append(name)
out.append("")
out.append("VecNames == {%s}" % ", ".join('"%s"' % n for n in names))
out.append("VecOk(n) == CASE " + "\n          [] ".join('n = "%s" -> V_%s' % (n, n) for n in names))
out += ["", "VARIABLES phase, vname, ok", "vvars == <<phase, vname, ok>>",
        "VInit == Init /\\ phase = 0 /\\ vname = \"\" /\\ ok = TRUE",
        "VNext == /\\ UNCHANGED vars",
        "         /\\ \\/ phase = 0 /\\ phase' = 1 /\\ vname' \\in VecNames /\\ ok' = TRUE",
        "            \\/ phase = 1 /\\ phase' = 2 /\\ vname' = vname /\\ ok' = VecOk(vname)",
        "                         /\\ (ok' \\/ PrintT(<<\"@BADVEC\", vname>>))",
        "VecGood == ok", "============================================================================="]
open("/verif/spec/ref/BashVectors.tla", "w").write("\n".join(out) + "\n")
open("/verif/spec/ref/BashVectors.cfg", "w").write("INIT VInit\nNEXT VNext\nINVARIANT VecGood\n")
print(len(V), "vectors")
