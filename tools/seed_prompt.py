#!/usr/bin/env python3
"""Prints the prompt for a fresh mutation-seeding sub-agent: ONLY the property text and a scratch worktree."""
import json, sys
pid, wt, n = sys.argv[1], sys.argv[2], (sys.argv[3] if len(sys.argv) > 3 else "2")
p = [json.loads(l) for l in open("/verif/properties.jsonl") if json.loads(l)["id"] == pid][0]
print(f"""You are given a C library (bee2: Belarusian cryptographic standards, with its own bignum/EC arithmetic) as a git worktree at {wt} (a scratch checkout you may edit freely; do NOT touch /repo or /verif, and do not look at /verif). Build and test it ONLY inside the worktree:
  cd {wt} && cmake -G Ninja -B _build -DCMAKE_BUILD_TYPE=Release > /dev/null && cmake --build _build -j4 > /dev/null && ./_build/test/testbee2
(testbee2 prints one line per sub-test, e.g. "beltTest: OK"; all 38 must stay OK; it takes ~2-3 minutes — the machine is busy, use -j4).

Here is a semantic property that the library is supposed to satisfy:

  TITLE: {p['title']}
  STATEMENT: {p['statement']}
  QUANTIFIED OVER: {p['quantifier']['text']}

YOUR TASK: produce {n} DIFFERENT, INDEPENDENT source changes ("seeded defects") to the library under {wt}/src (or include), each of which
  (a) BREAKS the property above for some admissible input / history,
  (b) still COMPILES without new warnings-as-errors and leaves ALL 38 existing sub-tests of testbee2 passing (run the suite with the change applied and show the tail of its output),
  (c) is REALISTIC (the kind of slip a maintainer could make in a refactoring or optimisation: an off-by-one in a boundary branch, a dropped check, a wrong operand order, a condition that is right for common inputs only, two sites that each look fine alone) and
  (d) needs something SPECIFIC to manifest — a particular length or boundary, a multi-step sequence of calls, an unusual but admissible input, a particular placement of buffers, a rarely taken branch — NOT something ordinary use would expose at once (a change that garbles every output is useless).
Read the relevant sources carefully first and choose changes in DIFFERENT functions/mechanisms. Prefer subtle ones.

For EACH change deliver, in a new directory {wt}/seeded_<k>/ (k = 1, 2, ...):
  - patch.diff   : `git -C {wt} diff` of ONLY that change (make the change, save the diff, then `git -C {wt} checkout -- src include` before starting the next one, so that every patch applies to the pristine tree on its own);
  - demo.c       : a small standalone C program (linking against the library built in the worktree: cc demo.c -I{wt}/include -L{wt}/_build/src -lbee2 -Wl,-rpath,{wt}/_build/src  — check where libbee2.so / libbee2_static.a ends up in _build) that exits 0 and prints PASS on the pristine tree and exits 1 and prints FAIL with the change applied — it must demonstrate the violation of the PROPERTY (e.g. by comparing with a value computed another way, with the one-shot call, with disjoint buffers, with a known-answer derived from the unmodified library's output that you hard-code, or by walking an event history);
  - meta.json    : {{"property": "{pid}", "title": "<one line>", "needs": "<what specific input / sequence / placement it needs to manifest>", "files": [...], "ran": "<the commands you ran and their outcome: suite still 38 OK with the patch, demo FAIL with the patch, demo PASS without>"}}.
Verify all of (a)-(d) yourself by actually running the commands. At the end leave the worktree's src/include pristine (git checkout) and reply with a short summary listing the seeded_<k> directories and one line per change. Do not write anything outside {wt}.""")
