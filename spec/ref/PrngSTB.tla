------------------------------ MODULE PrngSTB ------------------------------
(* Reference semantics of the pseudorandom generators of include/bee2/core/prng.h
   (not to be confused with spec/lib/Prng.tla, the PRNG of the harnesses).

   STB generator (prng.h, section prng-stb: "the generator of STB 1176.2-99, 7.2.2; its output
   sequences are used to build primes").  The header refers to the standard; the recurrences
   of 7.2.2 in the standard's own indexing (one GLOBAL index i = 1, 2, ..., no circular buffer):

       z_1, ..., z_31 given,  0 < z_i < 65257   (prngSTBStart: z = 0 means z_i = i)
       z_{i+31} = (z_i - z_{i+10}) mod 65257
       v_0 = w_0 = 0
       v_i = (v_{i-1} + z_i) mod 2^16
       w_i = (z_{i+20} + rot(w_{i-1})) mod 2^16,   rot = cyclic shift of the 16-bit word by one bit
       u_i = v_i XOR w_i
       output octet number k = 1, 2, ... :   t_k = (u_{256+k} + floor(u_{255+k} / 255)) mod 256

   (the first 256 values of u are discarded: "idle run").  The direction of the one-bit cyclic
   shift is the one under which the definition reproduces the 128-octet vector of
   /repo/test/core/prng_test.c (z = 0): a shift towards the LOW bits, (w >> 1) | (w << 15);
   with the opposite direction the vector fails (STBVectorOtherRot below is FALSE) - evaluated
   by TLC in spec/ref/MiscVectors.

   Echo generator (prng.h, section prng-echo): "repeats the data buffer passed at the
   initialisation".

   COMBO generator (prng.h, section prng-combo, G. Marsaglia, keynote.ps of the DIEHARD CD-ROM):
       x_n = x_{n-1} * x_{n-2} mod 2^32,   z_n = 30903 * (z_{n-1} mod 2^16) + floor(z_{n-1} / 2^16),
       output word number n = x_n + z_n mod 2^32, written as 4 octets, little-endian.
   The header fixes neither the initial values nor the seeding; ComboStream takes them as
   parameters.  (See the builder's report: the code computes x_n = x_{n-2}^2.)

   All generators implement the interface gen_i: the stream is a function of the initial state
   only, however the caller fragments its requests (an instance of property C10). *)
EXTENDS Bytes

STBMod == 65257
DefaultZ == [i \in 1..31 |-> i]
ZOk(z) == Len(z) = 31 /\ \A i \in 1..31 : z[i] > 0 /\ z[i] < STBMod

\* z_1 .. z_n
ZSeq(z, n) == FoldLeft(LAMBDA s, i : Append(s, (s[i - 31] + STBMod - s[i - 21]) % STBMod), z,
                       [k \in 1..Max2(n - 31, 0) |-> 31 + k])
RotLo1(w) == (w \div 2) + ((w % 2) * 32768)
RotHi1(w) == ((2 * w) % 65536) + (w \div 32768)
\* u_1 .. u_n  (rot = the one-bit cyclic shift)
USeqWith(z, n, rot(_)) ==
  LET zs == ZSeq(z, n + 20)
      res == FoldLeft(LAMBDA a, i : LET v == (a.v + zs[i]) % 65536
                                        w == (zs[i + 20] + rot(a.w)) % 65536
                                    IN [v |-> v, w |-> w, u |-> Append(a.u, v ^^ w)],
                      [v |-> 0, w |-> 0, u |-> <<>>], Upto(n))
  IN res.u
USeq(z, n) == USeqWith(z, n, RotLo1)
\* the first n output octets
STBOutWith(z, n, rot(_)) == LET u == USeqWith(z, 256 + n, rot)
                            IN [k \in 1..n |-> (u[256 + k] + (u[255 + k] \div 255)) % 256]
STBOut(z, n) == STBOutWith(z, n, RotLo1)

\* ---- Echo
EchoOut(seed, n) == [k \in 1..n |-> seed[((k - 1) % Len(seed)) + 1]]

\* ---- COMBO: 32-bit words are 4 octets, little-endian
Mul32(a, b) ==       \* a * b mod 2^32, schoolbook on octets
  LET col(k) == FoldLeft(LAMBDA acc, i : acc + (a[i] * b[k + 1 - i]), 0, Upto(k))      \* k = 1..4
      c1 == col(1)
      c2 == col(2) + (c1 \div 256)
      c3 == col(3) + (c2 \div 256)
      c4 == col(4) + (c3 \div 256)
  IN <<c1 % 256, c2 % 256, c3 % 256, c4 % 256>>
Add32(a, b) ==
  LET c1 == a[1] + b[1]
      c2 == a[2] + b[2] + (c1 \div 256)
      c3 == a[3] + b[3] + (c2 \div 256)
      c4 == a[4] + b[4] + (c3 \div 256)
  IN <<c1 % 256, c2 % 256, c3 % 256, c4 % 256>>
MwcNext(z) == LET lo == z[1] + (256 * z[2])   hi == z[3] + (256 * z[4])
                  t == (30903 * lo) + hi                 \* < 2^31
              IN <<t % 256, (t \div 256) % 256, (t \div 65536) % 256, t \div 16777216>>
\* the first n octets of the stream from x_{-1} = xa, x_0 = xb, z_0 = z0
ComboStream(xa, xb, z0, n) ==
  LET res == FoldLeft(LAMBDA a, i : LET x == Mul32(a.y, a.x)
                                        z == MwcNext(a.z)
                                    IN [x |-> a.y, y |-> x, z |-> z, out |-> a.out \o Add32(x, z)],
                      [x |-> xa, y |-> xb, z |-> z0, out |-> <<>>], Upto((n + 3) \div 4))
  IN TakeN(res.out, n)

\* ---- anchor: the vector of prng_test.c (prngSTBStart(state, 0); prngSTBStepR(buf, 128, state))
STBTestVector ==
  <<64,41,113,233,35,191,208,182,33,226,48,212,203,250,240,16,
    226,209,243,45,92,118,181,138,224,90,176,43,184,91,42,16,
    103,248,220,111,255,245,25,50,217,86,227,179,116,152,132,197,
    98,51,49,214,22,255,57,28,138,241,37,86,160,203,167,84,
    121,246,130,246,221,134,218,203,89,52,108,80,221,1,207,175,
    98,85,211,80,195,183,57,44,143,106,161,20,150,187,210,93,
    216,12,1,115,51,26,156,13,247,33,136,78,78,39,115,197,
    127,228,226,56,36,227,31,201,2,241,199,160,158,177,195,18>>
STBVectorOk == STBOut(DefaultZ, 128) = STBTestVector
STBVectorOtherRot == STBOutWith(DefaultZ, 128, RotHi1) = STBTestVector        \* expected FALSE
\* the stream is a stream: a longer request continues a shorter one
STBPrefixOk == \A n \in {0, 1, 2, 33, 127} : STBOut(DefaultZ, n) = TakeN(STBTestVector, n)
=============================================================================
