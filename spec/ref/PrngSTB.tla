------------------------------ MODULE PrngSTB ------------------------------
(* Reference semantics of the pseudorandom generators of include/bee2/core/prng.h
   (not to be confused with spec/lib/Prng.tla, the PRNG of the harnesses).

   STB generator (prng.h, section prng-stb: "the generator of STB 1176.2-99, 7.2.2; its output
   sequences are used to build primes").  The header refers to the standard; the recurrences
   of 7.2.2 in the standard's own indexing (one GLOBAL index i = 1, 2, ..., no circular buffer):

       z_1, ..., z_31 given,  0 < z_i < 65257   (prngSTBStart: z = 0 means z_i = i)
       z_{i+31} = (z_i - z_{i+10}) mod 65257
       v_0 = w_0 = 0
       v_i = (v_{i-1} + z_i) mod 2^16
       w_i = (z_{i+20} + rot(w_{i-1})) mod 2^16,   rot = cyclic shift of the 16-bit word by one bit
       u_i = v_i XOR w_i
       output octet number k = 1, 2, ... :   t_k = (u_{256+k} + floor(u_{255+k} / 255)) mod 256

   (the first 256 values of u are discarded: "idle run").  The direction of the one-bit cyclic
   shift is the one under which the definition reproduces the 128-octet vector of
   /repo/test/core/prng_test.c (z = 0): a shift towards the LOW bits, (w >> 1) | (w << 15);
   with the opposite direction the vector fails (STBVectorOtherRot below is FALSE) - evaluated
   by TLC in spec/ref/MiscVectors.

   Echo generator (prng.h, section prng-echo): "repeats the data buffer passed at the
   initialisation".

   COMBO generator (prng.h, section prng-combo): the header names the author (G. Marsaglia, keynote.ps of
   the DIEHARD CD-ROM) but defines neither the recurrence nor the seeding, so no recurrence is pinned
   here (coordinator's ruling; the deviation of the code from Marsaglia's x_n = x_{n-1} x_{n-2} is
   recorded as an observation in DESIGN.md).  What prng.h does state is judged in Trace_Misc: the stream
   is determined by the seed and does not depend on the fragmentation of the requests.

   All generators implement the interface gen_i: the stream is a function of the initial state
   only, however the caller fragments its requests (an instance of property C10). *)
EXTENDS Bytes

STBMod == 65257
DefaultZ == [i \in 1..31 |-> i]
ZOk(z) == Len(z) = 31 /\ \A i \in 1..31 : z[i] > 0 /\ z[i] < STBMod

\* z_1 .. z_n
ZSeq(z, n) == FoldLeft(LAMBDA s, i : Append(s, (s[i - 31] + STBMod - s[i - 21]) % STBMod), z,
                       [k \in 1..Max2(n - 31, 0) |-> 31 + k])
RotLo1(w) == (w \div 2) + ((w % 2) * 32768)
RotHi1(w) == ((2 * w) % 65536) + (w \div 32768)
\* u_1 .. u_n  (rot = the one-bit cyclic shift)
USeqWith(z, n, rot(_)) ==
  LET zs == ZSeq(z, n + 20)
      res == FoldLeft(LAMBDA a, i : LET v == (a.v + zs[i]) % 65536
                                        w == (zs[i + 20] + rot(a.w)) % 65536
                                    IN [v |-> v, w |-> w, u |-> Append(a.u, v ^^ w)],
                      [v |-> 0, w |-> 0, u |-> <<>>], Upto(n))
  IN res.u
USeq(z, n) == USeqWith(z, n, RotLo1)
\* the first n output octets
STBOutWith(z, n, rot(_)) == LET u == USeqWith(z, 256 + n, rot)
                            IN [k \in 1..n |-> (u[256 + k] + (u[255 + k] \div 255)) % 256]
STBOut(z, n) == STBOutWith(z, n, RotLo1)

\* ---- Echo
EchoOut(seed, n) == [k \in 1..n |-> seed[((k - 1) % Len(seed)) + 1]]

\* ---- anchor: the vector of prng_test.c (prngSTBStart(state, 0); prngSTBStepR(buf, 128, state))
STBTestVector ==
  <<64,41,113,233,35,191,208,182,33,226,48,212,203,250,240,16,
    226,209,243,45,92,118,181,138,224,90,176,43,184,91,42,16,
    103,248,220,111,255,245,25,50,217,86,227,179,116,152,132,197,
    98,51,49,214,22,255,57,28,138,241,37,86,160,203,167,84,
    121,246,130,246,221,134,218,203,89,52,108,80,221,1,207,175,
    98,85,211,80,195,183,57,44,143,106,161,20,150,187,210,93,
    216,12,1,115,51,26,156,13,247,33,136,78,78,39,115,197,
    127,228,226,56,36,227,31,201,2,241,199,160,158,177,195,18>>
STBVectorOk == STBOut(DefaultZ, 128) = STBTestVector
STBVectorOtherRot == STBOutWith(DefaultZ, 128, RotHi1) = STBTestVector        \* expected FALSE
\* the stream is a stream: a longer request continues a shorter one
STBPrefixOk == \A n \in {0, 1, 2, 33, 127} : STBOut(DefaultZ, n) = TakeN(STBTestVector, n)
=============================================================================
