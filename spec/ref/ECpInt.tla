------------------------------- MODULE ECpInt -------------------------------
(* ECp over plain TLC integers: p < 2^15 (so that products fit 31 bits); scalars are TLC integers >= 0.
   Usage:  EI == INSTANCE ECpInt   then  EI!PAdd([p |-> 751, A |-> 748, B |-> 5], P, Q) ... *)
EXTENDS Integers, Sequences, SequencesExt

IAdd(a, b, p) == (a + b) % p
ISub(a, b, p) == ((a - b) + p) % p
IMul(a, b, p) == (a * b) % p
\* number of bits of k >= 0 (k < 2^31)
INBits(k) == FoldLeft(LAMBDA acc, i : IF k >= 2 ^ (i - 1) THEN i ELSE acc, 0, <<1,2,3,4,5,6,7,8,9,10,11,12,13,14,15,16,
                      17,18,19,20,21,22,23,24,25,26,27,28,29,30,31>>)
\* bits of k, most significant first
IBits(k) == LET n == INBits(k) IN [i \in 1..n |-> (k \div (2 ^ (n - i))) % 2]
\* a^e mod p, square-and-multiply from the top (0^0 = 1)
IPow(a, e, p) == FoldLeft(LAMBDA acc, b : LET s == (acc * acc) % p IN IF b = 1 THEN (s * a) % p ELSE s, 1 % p, IBits(e))
IInv(a, p) == IPow(a, p - 2, p)

INSTANCE ECp WITH FAdd <- IAdd, FSub <- ISub, FMul <- IMul, FInv <- IInv, FPow <- IPow,
                  FIn <- LAMBDA a, p : a >= 0 /\ a < p,
                  FIsZero <- LAMBDA a : a = 0,
                  FOfInt <- LAMBDA v : v,
                  SBits <- IBits,
                  PMinus2 <- LAMBDA p : p - 2,
                  SwuExp <- LAMBDA p : (p - 1) - ((p + 1) \div 4),
                  SqrtExp <- LAMBDA p : (p + 1) \div 4,
                  PMod4 <- LAMBDA p : p % 4
=============================================================================
