---------------------------- MODULE MiscVectors ----------------------------
(* Anchors of the reference modules of the miscellaneous group, evaluated by TLC (one anchor per
   TLC state, so that the workers evaluate them in parallel).  A failing anchor means the
   SPECIFICATION is wrong.
     STB        the 128-octet vector of /repo/test/core/prng_test.c (z = 0) with the definition of
                ref/PrngSTB; the same definition with the opposite one-bit rotation must FAIL it
     FIPS       hand-computable buffers (0x55.., 0x0F.., 0x00.., a 32-bit pattern) and the laws of the
                run decomposition on seeded buffers
     calendar   day numbers computed independently, year lengths, the YYMMDD example of tm.h *)
EXTENDS PrngSTB, FipsTests, CalDate, TLC

Lcg(n, seed) == FoldLeft(LAMBDA a, i : Append(a, ((a[Len(a)] * 1103) + 12345) % 65521), <<seed>>, Upto(n))
SeededBuf(seed) == LET g == Lcg(NOctets, seed) IN [i \in 1..NOctets |-> g[i + 1] % 256]

VecNames == {"stb", "stb_otherrot", "stb_prefix", "stb_explicit_z", "echo", "fips55", "fips0F", "fips00", "fips4",
             "fipslaws1", "fipslaws2", "fipslaws3", "cal"}
VecOk(n) ==
  CASE n = "stb" -> STBVectorOk
    [] n = "stb_otherrot" -> ~STBVectorOtherRot
    [] n = "stb_prefix" -> STBPrefixOk
    [] n = "stb_explicit_z" -> ZOk(DefaultZ) /\ ~ZOk([DefaultZ EXCEPT ![7] = 65257]) /\ ~ZOk([DefaultZ EXCEPT ![31] = 0])
                               /\ ZSeq(DefaultZ, 33) = DefaultZ \o <<(1 + 65257) - 11, (2 + 65257) - 12>>
    [] n = "echo" -> EchoOut(<<7, 8, 9>>, 8) = <<7, 8, 9, 7, 8, 9, 7, 8>> /\ EchoOut(<<5>>, 3) = <<5, 5, 5>> /\ EchoOut(<<1, 2>>, 0) = <<>>
    [] n = "fips55" -> Anchor55
    [] n = "fips0F" -> Anchor0F
    [] n = "fips00" -> Anchor00
    [] n = "fips4" -> Anchor4
    [] n = "fipslaws1" -> StatLaws(SeededBuf(1))
    [] n = "fipslaws2" -> StatLaws(SeededBuf(2))
    [] n = "fipslaws3" -> StatLaws(RepBuf(15)) /\ StatLaws(<<1, 0, 0, 224, 255>>)
    [] n = "cal" -> CalAnchors

VARIABLES phase, vname, ok
VInit == phase = 0 /\ vname = "" /\ ok = TRUE
VNext == \/ phase = 0 /\ phase' = 1 /\ vname' \in VecNames /\ ok' = TRUE
         \/ phase = 1 /\ phase' = 2 /\ vname' = vname /\ ok' = VecOk(vname)
                      /\ (ok' \/ PrintT(<<"@BADVEC", vname>>))
VecGood == ok
=============================================================================
