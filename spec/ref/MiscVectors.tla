---------------------------- MODULE MiscVectors ----------------------------
(* Anchors of the reference modules of the miscellaneous group, evaluated by TLC (one anchor per
   TLC state, so that the workers evaluate them in parallel).  A failing anchor means the
   SPECIFICATION is wrong.
     STB        the 128-octet vector of /repo/test/core/prng_test.c (z = 0) with the definition of
                ref/PrngSTB; the same definition with the opposite one-bit rotation must FAIL it
     FIPS       hand-computable buffers (0x55.., 0x0F.., 0x00.., a 32-bit pattern) and the laws of the
                run decomposition on seeded buffers
     calendar   day numbers computed independently, year lengths, the YYMMDD example of tm.h
     COMBO      32-bit arithmetic of the Marsaglia recurrence (documentation only, see ref/PrngSTB) *)
EXTENDS PrngSTB, FipsTests, CalDate, TLC

Lcg(n, seed) == FoldLeft(LAMBDA a, i : Append(a, ((a[Len(a)] * 1103) + 12345) % 65521), <<seed>>, Upto(n))
SeededBuf(seed) == LET g == Lcg(NOctets, seed) IN [i \in 1..NOctets |-> g[i + 1] % 256]

LE4(t) == <<t % 256, (t \div 256) % 256, (t \div 65536) % 256, t \div 16777216>>
VecNames == {"stb", "stb_otherrot", "stb_prefix", "stb_explicit_z", "echo", "fips55", "fips0F", "fips00", "fips4",
             "fipslaws1", "fipslaws2", "fipslaws3", "cal", "mul32", "mwc"}
VecOk(n) ==
  CASE n = "stb" -> STBVectorOk
    [] n = "stb_otherrot" -> ~STBVectorOtherRot
    [] n = "stb_prefix" -> STBPrefixOk
    [] n = "stb_explicit_z" -> ZOk(DefaultZ) /\ ~ZOk([DefaultZ EXCEPT ![7] = 65257]) /\ ~ZOk([DefaultZ EXCEPT ![31] = 0])
                               /\ ZSeq(DefaultZ, 33) = DefaultZ \o <<(1 + 65257) - 11, (2 + 65257) - 12>>
    [] n = "echo" -> EchoOut(<<7, 8, 9>>, 8) = <<7, 8, 9, 7, 8, 9, 7, 8>> /\ EchoOut(<<5>>, 3) = <<5, 5, 5>> /\ EchoOut(<<1, 2>>, 0) = <<>>
    [] n = "fips55" -> Anchor55
    [] n = "fips0F" -> Anchor0F
    [] n = "fips00" -> Anchor00
    [] n = "fips4" -> Anchor4
    [] n = "fipslaws1" -> StatLaws(SeededBuf(1))
    [] n = "fipslaws2" -> StatLaws(SeededBuf(2))
    [] n = "fipslaws3" -> StatLaws(RepBuf(15)) /\ StatLaws(<<1, 0, 0, 224, 255>>)
    [] n = "cal" -> CalAnchors
    \* 0xF8B7BB93 * 0xBEE3B54B mod 2^32 = 0x32CBE311 ; 0xFFFFFFFF^2 = 1 ; (x + y) mod 2^32
    [] n = "mul32" -> /\ Mul32(<<147, 187, 183, 248>>, <<75, 181, 227, 190>>) = <<17, 227, 203, 50>>
                      /\ Mul32(<<255, 255, 255, 255>>, <<255, 255, 255, 255>>) = <<1, 0, 0, 0>>
                      /\ Add32(<<255, 255, 255, 255>>, <<2, 0, 0, 0>>) = <<1, 0, 0, 0>>
    \* z = 0x1F6B7FBE: 30903 * 0x7FBE + 0x1F6B
    [] n = "mwc" -> MwcNext(<<190, 127, 107, 31>>) = LE4((30903 * 32702) + 8043)

VARIABLES phase, vname, ok
VInit == phase = 0 /\ vname = "" /\ ok = TRUE
VNext == \/ phase = 0 /\ phase' = 1 /\ vname' \in VecNames /\ ok' = TRUE
         \/ phase = 1 /\ phase' = 2 /\ vname' = vname /\ ok' = VecOk(vname)
                      /\ (ok' \/ PrintT(<<"@BADVEC", vname>>))
VecGood == ok
=============================================================================
