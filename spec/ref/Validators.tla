----------------------------- MODULE Validators -----------------------------
(* C12: the condition lists of the standards / headers as predicates (written from include/bee2/**.h and the
   standards they cite, not from the .c files).  Numbers are BigNat values, polynomials GF2Poly values.
   INTERFACE
     dates      IsLeap(y)  DaysIn(y, m)  DateIsValid(y, m, d)  DateIsValidN(yNat, m, d)  DateIsValid2(octets)
     bels       BelsPoly(m, len)  BelsValM(m, len)                     x^(8 len) + m(x) irreducible
     seeds      Stb99SeedVal(s)  Stb99SeedAdj(s) = <<ok, s'>>   PfokSeedVal(s)  PfokSeedAdj(s)   (s = [l, zi, di, ri] / [l, zi, li])
     conditions BignConds / Bign96Conds / G12sConds / Stb99Conds / PfokConds / DstuConds  (names) and
                CondHolds(scheme, c, P, C)   the named condition holds for the parameter record P (C = certificates)
                CondFails(scheme, c, P, C)   the named condition is violated (for primality: by an exhibited witness)
                a parameter set is valid iff every condition of its scheme holds.
     groups     SafeGroup(p, q, qprime, thr)  OrderIs(p, q, k)            (ecp.h ecpIsSafeGroup: MOV bound inclusive)
     keys       BignPubkeyVal(P, x, y)  BignKeypairVal(P, d, x, y)  (in-range point; 0 < d < q /\ Q = dG)
                PfokPubkeyVal(P, y)
   P is the record of the logged fields converted by the trace module (numbers: BigNat; *_o: the logged octets).
   bign 6.1.4 (STB 34.101.45): l; p prime of 2l bits, p = 3 (mod 4); 0 < a, b < p; b = B mod p with
   B = belt-hash(p || a || seed) || belt-hash(p || a || seed + 1); (b / p) = 1; 4a^3 + 27b^2 # 0; q prime of 2l bits,
   q # p; p^m # 1 (mod q), m = 1..50; G = (0, b^((p+1)/4)); qG = O.  *)
EXTENDS Pri, GF2Poly

Belt == INSTANCE BeltModes
EB == INSTANCE ECpBig

\* ------------------------------------------------------------------ dates (include/bee2/core/tm.h)
IsLeap(y) == y % 400 = 0 \/ (y % 4 = 0 /\ y % 100 # 0)
DaysIn(y, m) == IF m \in {1, 3, 5, 7, 8, 10, 12} THEN 31
                ELSE IF m \in {4, 6, 9, 11} THEN 30
                ELSE IF m = 2 THEN (IF IsLeap(y) THEN 29 ELSE 28)
                ELSE 0
\* Gregorian calendar: years before 1583 are not accepted
DateIsValid(y, m, d) == y >= 1583 /\ m >= 1 /\ m <= 12 /\ d >= 1 /\ d <= DaysIn(y, m)
\* the same for a year given as a number of any size (the leap rule has period 400)
DateIsValidN(yN, m, d) ==
  IF BitLen(yN) <= 30 THEN DateIsValid(ToInt(yN), m, d)
  ELSE DateIsValid(2000 + RemInt(yN, 400), m, d)
\* YYMMDD: six octets, each one decimal digit, year of the 21st century
DateIsValid2(o) ==
  /\ Len(o) = 6
  /\ \A i \in 1..6 : o[i] >= 0 /\ o[i] <= 9
  /\ DateIsValid(2000 + 10 * o[1] + o[2], 10 * o[3] + o[4], 10 * o[5] + o[6])

\* ------------------------------------------------------------------ polynomials from octets; bels keys
POfOctets(o) == PStrict([i \in 1..((Len(o) + 1) \div 2) |->
                  o[2 * i - 1] + (IF 2 * i <= Len(o) THEN 256 * o[2 * i] ELSE 0)])
BelsPoly(m, len) == PAdd(PMonomial(8 * len), POfOctets(m))
BelsValM(m, len) == len \in {16, 24, 32} /\ Len(m) = len /\ PIsIrred(BelsPoly(m, len))

\* ------------------------------------------------------------------ seeds of stb99 / pfok (headers)
Stb99Levels == << <<638, 143>>, <<766, 154>>, <<1022, 175>>, <<1118, 182>>, <<1310, 195>>, <<1534, 208>>,
                  <<1790, 222>>, <<2046, 235>>, <<2334, 249>>, <<2462, 257>> >>
PfokLevels == << <<638, 130>>, <<702, 136>>, <<766, 141>>, <<862, 149>>, <<958, 154>>, <<1022, 161>>, <<1118, 168>>,
                 <<1214, 175>>, <<1310, 181>>, <<1438, 188>>, <<1534, 194>>, <<1662, 201>>, <<1790, 208>>, <<1918, 214>>,
                 <<2046, 221>>, <<2174, 225>>, <<2334, 234>>, <<2462, 240>>, <<2622, 246>>, <<2782, 253>>, <<2942, 259>> >>
LevelR(tab, l) == FoldLeft(LAMBDA acc, e : IF e[1] = l THEN e[2] ELSE acc, 0, tab)          \* 0: l is not a level
ZiOk(zi) == \A i \in 1..Len(zi) : zi[i] >= 1 /\ zi[i] <= 65256
\* a chain c[1], ..., c[t] with c[t] in {17..32}, then zeros; link(x, next) relates consecutive elements.
\* x <= 2 next in every link and at most 20 elements: every element of a valid chain is <= 32 * 2^19 = 2^24, so larger
\* entries (the driver clips logged values at 2^31 - 1) make the chain invalid and the arithmetic below cannot overflow.
ChainSmall(c) == \A i \in 1..Len(c) : c[i] >= 0 /\ c[i] <= 16777216
ChainEnd(c) == FoldLeft(LAMBDA acc, i : IF acc = 0 /\ c[i] <= 32 THEN i ELSE acc, 0, Rng(1, Len(c)))
ChainOk(c, link(_, _)) ==
  /\ ChainSmall(c)
  /\ LET t == ChainEnd(c)
     IN /\ t >= 1
        /\ c[t] >= 17
        /\ \A i \in 1..(t - 1) : link(c[i], c[i + 1])
        /\ \A i \in (t + 1)..Len(c) : c[i] = 0
\* 5 y / 4 + 4 < x <= 2 y   (floor(5y/4) + 4 < x  <=>  5 y < 4 x - 16 for integers)
LinkD(x, y) == 5 * y < 4 * x - 16 /\ x <= 2 * y
\* 5 y / 4 < x <= 2 y
LinkR(x, y) == 5 * y < 4 * x /\ x <= 2 * y
Stb99SeedVal(s) ==
  LET r == LevelR(Stb99Levels, s.l)
  IN /\ r # 0
     /\ ZiOk(s.zi)
     /\ ChainOk(s.di, LinkD) /\ ChainOk(s.ri, LinkR)
     /\ s.l <= 2 * s.di[1] /\ 8 * s.di[1] <= 7 * s.l - 8 * r         \* l/2 <= di[0] <= 7l/8 - r
     /\ s.ri[1] = r
AllZero(c) == \A i \in 1..Len(c) : c[i] = 0
HalfChain(x0, len) ==          \* x0, x0/2 + 1, ... down to the first element in {17..32}, padded with zeros to len
  LET st == FoldLeft(LAMBDA acc, i : IF acc[2] THEN <<Append(acc[1], 0), TRUE>>
                                     ELSE LET v == (acc[1][Len(acc[1])] \div 2) + 1
                                          IN <<Append(acc[1], v), v <= 32>>,
                     <<<<x0>>, x0 <= 32>>, Rng(2, len))
  IN st[1]
Stb99SeedAdj(s) ==
  LET r == LevelR(Stb99Levels, s.l)
      s2 == [l |-> s.l,
             zi |-> IF AllZero(s.zi) THEN [i \in 1..31 |-> i] ELSE s.zi,
             di |-> IF AllZero(s.di) THEN HalfChain((s.l \div 2) + 1, 18) ELSE s.di,
             ri |-> IF AllZero(s.ri) THEN HalfChain(r, 10) ELSE s.ri]
  IN IF r = 0 THEN <<FALSE, s>> ELSE <<Stb99SeedVal(s2), s2>>
PfokSeedVal(s) ==
  /\ LevelR(PfokLevels, s.l) # 0
  /\ ZiOk(s.zi)
  /\ ChainOk(s.li, LinkD)
  /\ s.li[1] = s.l - 1
PfokSeedAdj(s) ==
  LET s2 == [l |-> s.l,
             zi |-> IF AllZero(s.zi) THEN [i \in 1..31 |-> i] ELSE s.zi,
             li |-> IF AllZero(s.li) THEN HalfChain(s.l - 1, 20) ELSE s.li]
  IN IF LevelR(PfokLevels, s.l) = 0 THEN <<FALSE, s>> ELSE <<PfokSeedVal(s2), s2>>

\* ------------------------------------------------------------------ helpers of the parameter conditions
N(o) == Norm(FromOctets(o))
ZeroFrom(o, k) == \A i \in (k + 1)..Len(o) : o[i] = 0                  \* unused octets are zero
Half(a) == Norm(Shr(a, 1))
\* p^m # 1 (mod q) for m = 1..k
MovOk(p, q, k) ==
  LET pm == Mod(p, q)
      st == FoldLeft(LAMBDA acc, m : IF ~acc[2] THEN acc
                                     ELSE <<MulMod(acc[1], pm, q), ~Eq(acc[1], One)>>,
                     <<pm, TRUE>>, Rng(1, k))
  IN st[2]
\* primality with the supplied evidence: a certificate proves, a witness refutes
PrimeHolds(n, cert) == IsPrimeC(n, cert)
PrimeFails(n, C) ==
  IF Decidable(n) THEN ~IsPrimeMR(n)
  ELSE \/ ("sf" \in DOMAIN C /\ SmallFactorWitness(n, C.sf))
       \/ ("fo" \in DOMAIN C /\ FactorWitness(n, N(C.fo)))
       \/ ("w" \in DOMAIN C /\ MRWitness(n, C.w))
CertOf(C, k) == IF k \in DOMAIN C THEN C[k] ELSE <<>>
\* Hasse: |m - (p + 1)| <= 2 sqrt(p)  <=>  (m - p - 1)^2 <= 4 p
HasseOk(m, p) == LET d == AbsDiff(m, Add(p, One)) IN Leq(Mul(d, d), MulInt(p, 4))
Curve(P) == EB!BCurve(P.p, P.a, P.b)

\* ------------------------------------------------------------------ bign (STB 34.101.45, 6.1.4) and bign96
\* B = belt-hash(p || a || seed) || belt-hash(p || a || seed + 1) as a little-endian number (seed + 1 modulo 2^64)
BignB(po, ao, seed) == N(Belt!Hash(po \o ao \o seed) \o Belt!Hash(po \o ao \o IncLE(seed)))
BignNo(l) == IF l = 96 THEN 24 ELSE l \div 4
BignConds == <<"l", "pad", "plen", "p3mod4", "pprime", "arange", "brange", "bseed", "bqr", "disc",
               "qlen", "qprime", "qnep", "mov", "yG", "order">>
BignCondL(levels, c, P, C) ==
  LET no == BignNo(P.l)  p == P.p  q == P.q
  IN CASE c = "l" -> P.l \in levels
       [] c = "pad" -> ZeroFrom(P.p_o, no) /\ ZeroFrom(P.a_o, no) /\ ZeroFrom(P.b_o, no) /\ ZeroFrom(P.q_o, no) /\ ZeroFrom(P.yG_o, no)
       [] c = "plen" -> BitLen(p) = 2 * P.l
       [] c = "p3mod4" -> Get(p, 1) % 4 = 3
       [] c = "pprime" -> PrimeHolds(p, CertOf(C, "pcert"))
       [] c = "arange" -> ~IsZero(P.a) /\ Less(P.a, p)
       [] c = "brange" -> ~IsZero(P.b) /\ Less(P.b, p)
       [] c = "bseed" -> Eq(P.b, Mod(BignB(TakeN(P.p_o, no), TakeN(P.a_o, no), P.seed), p))
       [] c = "bqr" -> Eq(ModExp(P.b, Half(Sub2(p, One)), p), One)
       [] c = "disc" -> Less(P.a, p) /\ Less(P.b, p) /\ EB!IsSmooth(Curve(P))
       [] c = "qlen" -> BitLen(q) = 2 * P.l
       [] c = "qprime" -> PrimeHolds(q, CertOf(C, "qcert"))
       [] c = "qnep" -> ~Eq(q, p)
       [] c = "mov" -> MovOk(p, q, 50)
       [] c = "yG" -> Eq(P.yG, ModExp(P.b, Norm(Shr(Add(p, One), 2)), p))
       [] c = "order" -> /\ EB!IsOnCurve(Curve(P), Zero, P.yG)
                         /\ EB!IsO(EB!ScalarMulJ(Curve(P), q, EB!BPt(Zero, P.yG)))
BignCond(c, P, C) == BignCondL({128, 192, 256}, c, P, C)
Bign96Cond(c, P, C) == BignCondL({96}, c, P, C)

\* ------------------------------------------------------------------ g12s (GOST R 34.10-2012, 5.2)
G12sConds == <<"l", "pprime", "arange", "brange", "J", "disc", "qlen", "qprime", "qnep", "mnep", "hasse", "mov", "base", "order">>
G12sCond(c, P, C) ==
  LET p == P.p  q == P.q  m == MulInt(q, P.n)
  IN CASE c = "l" -> P.l \in {256, 512}
       [] c = "pprime" -> Less(OfInt(3), p) /\ PrimeHolds(p, CertOf(C, "pcert"))
       [] c = "arange" -> Less(P.a, p)
       [] c = "brange" -> Less(P.b, p)
       [] c = "J" -> ~IsZero(Mod(P.a, p)) /\ ~IsZero(Mod(P.b, p))                     \* J(E) not in {0, 1728}
       [] c = "disc" -> EB!IsSmooth(Curve(P))
       [] c = "qlen" -> IF P.l = 256 THEN BitLen(q) \in {255, 256} /\ ~Eq(q, PowerOf2(254))
                                     ELSE BitLen(q) \in {509, 510, 511, 512} /\ ~Eq(q, PowerOf2(508))
       [] c = "qprime" -> PrimeHolds(q, CertOf(C, "qcert"))
       [] c = "qnep" -> ~Eq(q, p)
       [] c = "mnep" -> ~Eq(m, p)
       [] c = "hasse" -> P.n >= 1 /\ HasseOk(m, p)
       [] c = "mov" -> MovOk(p, q, IF P.l = 256 THEN 31 ELSE 131)
       [] c = "base" -> EB!IsOnCurve(Curve(P), P.xP, P.yP)
       [] c = "order" -> EB!IsO(EB!ScalarMulJ(Curve(P), q, EB!BPt(P.xP, P.yP)))

\* ------------------------------------------------------------------ stb99 (STB 1176.2-99; header list)
\* Montgomery group B_p: u o v = u v R^(-1) mod p, R = 2^(l+2); unity R mod p; u^(k) = (u R^(-1))^k R mod p
MontR(l, p) == Mod(PowerOf2(l + 2), p)
MontPow(u, k, l, p) == LET R == MontR(l, p) IN MulMod(ModExp(MulMod(u, ModInv(R, p), p), k, p), R, p)
Stb99Conds == <<"lr", "pad", "plen", "pprime", "qlen", "qprime", "qdiv", "arange", "drange", "agen", "anotone">>
Stb99Cond(c, P, C) ==
  LET p == P.p  q == P.q
  IN CASE c = "lr" -> LevelR(Stb99Levels, P.l) # 0 /\ LevelR(Stb99Levels, P.l) = P.r
       [] c = "pad" -> ZeroFrom(P.p_o, (P.l + 7) \div 8) /\ ZeroFrom(P.q_o, (P.r + 7) \div 8)
                       /\ ZeroFrom(P.a_o, (P.l + 7) \div 8) /\ ZeroFrom(P.d_o, (P.l + 7) \div 8)
       [] c = "plen" -> BitLen(p) = P.l
       [] c = "pprime" -> PrimeHolds(p, CertOf(C, "pcert"))
       [] c = "qlen" -> BitLen(q) = P.r
       [] c = "qprime" -> PrimeHolds(q, CertOf(C, "qcert"))
       [] c = "qdiv" -> ~IsZero(q) /\ IsZero(Mod(Sub2(p, One), q))
       [] c = "arange" -> ~IsZero(P.a) /\ Less(P.a, p)
       [] c = "drange" -> ~IsZero(P.d) /\ Less(P.d, p)
       [] c = "agen" -> Eq(P.a, MontPow(P.d, Div(Sub2(p, One), q), P.l, p))
       [] c = "anotone" -> ~Eq(P.a, MontR(P.l, p))

\* ------------------------------------------------------------------ pfok (header list of pfokParamsVal)
PfokConds == <<"lr", "nl", "plen", "pprime", "qprime", "grange", "gord">>
PfokCond(c, P, C) ==
  LET p == P.p  q == Half(Sub2(P.p, One))
  IN CASE c = "lr" -> LevelR(PfokLevels, P.l) # 0 /\ LevelR(PfokLevels, P.l) = P.r
       [] c = "nl" -> P.n < P.l
       [] c = "plen" -> BitLen(p) = P.l
       [] c = "pprime" -> PrimeHolds(p, CertOf(C, "pcert"))
       [] c = "qprime" -> IsOdd(p) /\ PrimeHolds(q, CertOf(C, "qcert"))
       [] c = "grange" -> ~IsZero(P.g) /\ Less(P.g, p)
       \* order p - 1 = 2q: g^(q) and g^(2) differ from the unity
       [] c = "gord" -> LET e == MontR(P.l, p)
                        IN ~Eq(MontPow(P.g, q, P.l, p), e) /\ ~Eq(MontPow(P.g, Two, P.l, p), e)
PfokPubkeyVal(P, y) == ~IsZero(y) /\ Less(y, P.p)

\* ------------------------------------------------------------------ dstu (DSTU 4145-2002): field-level conditions
\* f = <<m, k3, k2, k1>>: x^m + x^k3 + x^k2 + x^k1 + 1 (pentanomial) or x^m + x^k3 + 1 (k2 = k1 = 0)
DstuPoly(f) == LET t == PAdd(PAdd(PMonomial(f[1]), PMonomial(f[2])), POne)
               IN IF f[3] = 0 THEN t ELSE PAdd(PAdd(t, PMonomial(f[3])), PMonomial(f[4]))
DstuConds == <<"fshape", "firred", "A", "B", "n160", "nprime", "hasse", "mov">>
DstuCond(c, P, C) ==
  LET m == P.f[1]  n == P.n
  IN CASE c = "fshape" -> /\ m >= 163 /\ m <= 509
                          /\ m > P.f[2] /\ P.f[2] > 0
                          /\ ((P.f[3] = 0 /\ P.f[4] = 0) \/ (P.f[2] > P.f[3] /\ P.f[3] > P.f[4] /\ P.f[4] > 0))
       [] c = "firred" -> PIsIrred(DstuPoly(P.f))
       [] c = "A" -> P.A \in {0, 1}
       [] c = "B" -> ~PIsZero(P.B) /\ PDeg(P.B) < m
       [] c = "n160" -> BitLen(n) >= 161                                           \* n >= 2^160
       [] c = "nprime" -> PrimeHolds(n, CertOf(C, "ncert"))
       [] c = "hasse" -> P.c >= 1 /\ LET d == AbsDiff(MulInt(n, P.c), Add(PowerOf2(m), One))
                                     IN Leq(Mul(d, d), PowerOf2(m + 2))           \* |cn - (2^m + 1)| <= 2 sqrt(2^m)
       [] c = "mov" -> MovOk(PowerOf2(m), n, 32)                                  \* 2^(mk) # 1 (mod n), k = 1..32

\* ------------------------------------------------------------------ dispatch
CondHolds(scheme, c, P, C) ==
  CASE scheme = "bign" -> BignCond(c, P, C)
    [] scheme = "bign96" -> Bign96Cond(c, P, C)
    [] scheme = "g12s" -> G12sCond(c, P, C)
    [] scheme = "stb99" -> Stb99Cond(c, P, C)
    [] scheme = "pfok" -> PfokCond(c, P, C)
    [] scheme = "dstu" -> DstuCond(c, P, C)
PrimeField(scheme, c, P) ==
  CASE c = "pprime" -> P.p
    [] c = "qprime" -> IF scheme = "pfok" THEN Half(Sub2(P.p, One)) ELSE P.q
    [] c = "nprime" -> P.n
CondFails(scheme, c, P, C) ==
  IF c \in {"pprime", "qprime", "nprime"}
  THEN (scheme = "pfok" /\ c = "qprime" /\ ~IsOdd(P.p)) \/ PrimeFails(PrimeField(scheme, c, P), C)
  ELSE ~CondHolds(scheme, c, P, C)

\* ------------------------------------------------------------------ ecp.h ecpIsSafeGroup(ec, mov_threshold)
\* "order is prime; order # p (Semaev); order does not divide p^i - 1, i <= mov_threshold (MOV)": the bound is inclusive,
\* threshold 0 imposes no MOV condition.  qprime: the primality of the order as decided with the line's evidence.
SafeGroup(p, q, qprime, thr) == qprime /\ ~Eq(q, p) /\ MovOk(p, q, thr)
\* the multiplicative order of p modulo q is exactly k (the generator's claim about a crafted pair)
OrderIs(p, q, k) == k >= 1 /\ Eq(ModExp(Mod(p, q), OfInt(k), q), Mod(One, q)) /\ MovOk(p, q, k - 1)

\* ------------------------------------------------------------------ keys (bign 6.2.3; bign.h)
BignPubkeyVal(P, x, y) == EB!IsOnCurve(Curve(P), x, y)                         \* x, y < p and on the curve
BignKeypairVal(P, d, x, y) ==
  /\ ~IsZero(d) /\ Less(d, P.q)
  /\ EB!ScalarMulJ(Curve(P), d, EB!BPt(Zero, P.yG)) = EB!BPt(x, y)
=============================================================================
