------------------------------- MODULE EC2Big -------------------------------
(* EC2 over GF(2^m) = GF(2)[x]/(F(x)) with field elements as lib/GF2Poly.tla values (little-endian 16-bit limbs =
   the arrays logged by jLimbs16), kept reduced and normalised (PNorm), so points compare with "=".  Scalars are
   BigNat numbers.  The field descriptor is built by BField(m, k, l, l1): F = x^m + x^k + 1 (l = l1 = 0) or
   x^m + x^k + x^l + x^l1 + 1, exactly the [4]p of gf2.h.
   Multiplication is the polynomial product followed by the remainder modulo F.  BRed computes the remainder by
   substituting x^m = x^k (+ x^l + x^l1) + 1 into the high part (at most three rounds) and finishes with the generic
   long division PMod (which returns at once when the degree is already below m); ref/EC2Vectors.tla checks
   BRed = PMod on seeded products.  The inverse is PInvMod (extended Euclid).
   Usage:  E2B == INSTANCE EC2Big   then  E2B!EAdd(E2B!BCurve(f, A16, B16), P, Q);  B16(s) turns a jLimbs16 array into
   an element, BPt(v) a logged point ([] or [[x limbs],[y limbs]]) into a point. *)
EXTENDS BigNat, GF2Poly

BField(m, k, l, l1) ==
  LET t == PAdd(PAdd(PMonomial(m), PMonomial(k)), POne)
  IN [F |-> PNorm(IF l = 0 THEN t ELSE PAdd(PAdd(t, PMonomial(l)), PMonomial(l1))), m |-> m,
      ks |-> IF l = 0 THEN <<k, 0>> ELSE <<k, l, l1, 0>>]
\* a mod F for deg a <= 2m - 2
BRed(a, f) ==
  LET step(x, i) == IF PDeg(x) < f.m THEN x
                    ELSE LET H == PShr(x, f.m) IN PNorm(FoldLeft(LAMBDA acc, k : PAdd(acc, PShl(H, k)), PTrunc(x, f.m), f.ks))
  IN PMod(FoldLeft(step, PNorm(a), <<1, 2, 3>>), f.F)
BFAdd(a, b) == PNorm(PAdd(a, b))
BFMul(a, b, f) == BRed(PMul(a, b), f)
\* a^(-1) by the extended Euclidean algorithm in its shift-and-add form (Hankerson, Menezes, Vanstone, algorithm 2.48):
\* invariants  g1 a = u,  g2 a = v  (mod F);  every step cancels the leading term of the polynomial of larger degree, so
\* deg u + deg v decreases and at most 2m steps are needed.  0 for a non-invertible a.  ref/EC2Vectors.tla checks
\* a * BFInv(a) = 1 on seeded elements and BFInv = PInvMod (the generic Euclid of lib/GF2Poly.tla).
BFInv(a, f) ==
  LET step(st, i) ==
        IF st.du <= 0 THEN st                                   \* u = 1 (done) or u = 0 (not invertible)
        ELSE LET j == st.du - st.dv
             IN IF j >= 0
                  THEN LET u2 == PNorm(PAdd(st.u, PShl(st.v, j)))
                       IN [st EXCEPT !.u = u2, !.du = PDeg(u2), !.g1 = PNorm(PAdd(st.g1, PShl(st.g2, j)))]
                  ELSE LET u2 == PNorm(PAdd(st.v, PShl(st.u, 0 - j)))
                       IN [u |-> u2, du |-> PDeg(u2), v |-> st.u, dv |-> st.du,
                           g1 |-> PNorm(PAdd(st.g2, PShl(st.g1, 0 - j))), g2 |-> st.g1]
      a0 == PMod(a, f.F)
      fin == FoldLeft(step, [u |-> a0, du |-> PDeg(a0), v |-> f.F, dv |-> f.m, g1 |-> POne, g2 |-> PZero],
                      PRng(1, 2 * f.m + 2))
  IN IF fin.du = 0 THEN PMod(fin.g1, f.F) ELSE PZero
BFIn(a, f) == PDeg(a) < f.m /\ a = PNorm(a)
BBits(k) == LET n == BitLen(k) IN Strict([i \in 1..n |-> Bit(k, n - i)])

INSTANCE EC2 WITH FAdd <- BFAdd, FMul <- BFMul, FInv <- BFInv, FIn <- BFIn,
                  FIsZero <- LAMBDA a : PIsZero(a),
                  F0 <- PZero, F1 <- POne,
                  SBits <- BBits

\* trace of GF(2^m) over GF(2) by the definition: a + a^2 + ... + a^(2^(m-1)), 0 or 1
BTr(a, f) ==
  LET st == FoldLeft(LAMBDA acc, i : LET s == BFMul(acc[1], acc[1], f) IN <<s, BFAdd(acc[2], s)>>, <<a, a>>, PRng(2, f.m))
  IN IF PIsZero(st[2]) THEN 0 ELSE 1
B16(s) == PNorm(s)
BCurve(f, A, B) == [f |-> f, A |-> PNorm(A), B |-> PNorm(B)]
BPt(v) == IF Len(v) = 0 THEN O ELSE <<PNorm(v[1]), PNorm(v[2])>>
=============================================================================
