------------------------------- MODULE Brng -------------------------------
(* STB 34.101.47, section 6: pseudorandom generation over belt-hash.

   6.2 brng-ctr.  Input: key K (256 bits), synchro S (256 bits), additional words X_1..X_n
   (256 bits each).   s <- S;  r <- ~S;   for i = 1..n:  Y_i <- belt-hash(K || s || X_i || r),
   s <- s [+] <1>_256  (s as a little-endian number modulo 2^256),  r <- r + Y_i  (XOR).
   Output Y_1 || ... || Y_n and the updated synchro s.

   6.3 brng-hmac.  Input: key K, synchro S (any lengths).  r <- hmac(K, S);
   for i = 1..n:  Y_i <- hmac(K, r || S),  r <- hmac(K, r).
   (Anchored by table B.4: with the two assignments in the other order the vector fails.)

   Profile of include/bee2/crypto/brng.h: the prior content of the output buffer is the
   additional word X (split into 32-octet blocks, the last one zero-padded); an incomplete
   last block is truncated and its unread tail is kept ("reserved") and returned first by the
   next StepR call, whose corresponding buffer octets are skipped (not used as X). *)
EXTENDS BeltModes

Not32(S) == [i \in 1..Len(S) |-> 255 - S[i]]

\* ---- CTR: state [k, s, r, blk, res]   (blk = last output block, res = unread octets of it)
CTRStart(K, S) == [k |-> K, s |-> S, r |-> Not32(S), blk |-> Zeros(32), res |-> 0]

\* one block: additional word x (at most 32 octets, zero-padded)
CTRBlock(st, x) ==
  LET Y == Hash(st.k \o st.s \o PadZ(x, 32) \o st.r)
  IN [st EXCEPT !.s = IncLE(st.s), !.r = XorS(st.r, Y), !.blk = Y, !.res = 32 - Len(x)]

\* StepR on a buffer with prior content X: returns <<state', output>>
CTRStepR(st, X) ==
  LET take == Min2(st.res, Len(X))
      head == Sub(st.blk, 32 - st.res + 1, 32 - st.res + take)
      st0 == [st EXCEPT !.res = st.res - take]
      acc == FoldLeft(LAMBDA a, x : LET n == CTRBlock(a[1], x) IN <<n, a[2] \o TakeN(n.blk, Len(x))>>,
                      <<st0, head>>, Chunks(DropN(X, take), 32))
  IN acc
CTRStepG(st) == st.s

\* brngCTRRand(buf, count, key, iv): <<output, updated iv>>
CTRRand(K, S, X) == LET a == CTRStepR(CTRStart(K, S), X) IN <<a[2], a[1].s>>

\* ---- HMAC: state [k, iv, r, blk, res]
HMACStart(K, S) == [k |-> K, iv |-> S, r |-> HMAC(K, S), blk |-> Zeros(32), res |-> 0]
HMACBlock(st, n) ==       \* n = octets wanted from this block (1..32)
  [st EXCEPT !.r = HMAC(st.k, st.r), !.blk = HMAC(st.k, st.r \o st.iv), !.res = 32 - n]
HMACStepR(st, count) ==
  LET take == Min2(st.res, count)
      head == Sub(st.blk, 32 - st.res + 1, 32 - st.res + take)
      st0 == [st EXCEPT !.res = st.res - take]
      rest == count - take
      sizes == [j \in 1..((rest + 31) \div 32) |-> Min2(32, rest - (32 * (j - 1)))]
  IN FoldLeft(LAMBDA a, n : LET b == HMACBlock(a[1], n) IN <<b, a[2] \o TakeN(b.blk, n)>>,
              <<st0, head>>, sizes)
HMACRand(K, S, count) == HMACStepR(HMACStart(K, S), count)[2]

\* a sequence of StepR calls: CTR with buffers Xs (sequence of strings), HMAC with counts
CTRSteps(K, S, Xs) ==
  FoldLeft(LAMBDA a, X : LET q == CTRStepR(a[1], X) IN <<q[1], Append(a[2], q[2])>>,
           <<CTRStart(K, S), <<>>>>, Xs)
HMACSteps(K, S, ns) ==
  FoldLeft(LAMBDA a, n : LET q == HMACStepR(a[1], n) IN <<q[1], Append(a[2], q[2])>>,
           <<HMACStart(K, S), <<>>>>, ns)[2]
=============================================================================
