--------------------------------- MODULE ZZ ---------------------------------
(* include/bee2/math/zz.h as mathematics.  One definition per public function, transcribed from the
   header's formula (never from src/math/zz/*.c).  Numbers are BigNat values (lib/BigNat.tla);
   W is the word size in bits (B = 2^W), n, m are lengths in words; a "word" result (carry, borrow,
   remainder) is a number < B.  Results that the header stores in [n] words are returned reduced
   modulo B^n; modular results are always the fully reduced representative in 0..mod-1.

   Preconditions of the header (operands < mod, mod odd, b # 0, ...) are constraints of the
   generator (harness/drv_arith.c), they are not re-checked here.

   Where a function exists in a regular (SAFE) and a fast (FAST) edition, both editions have this one
   specification (C14 part 1). *)
EXTENDS BigNat

BPow(W, n) == PowerOf2(W * n)                    \* B^n
LoW(x, W, n) == Norm(ModPow2(x, W * n))          \* x mod B^n
HiW(x, W, n) == Norm(Shr(x, W * n))              \* x div B^n
Split(x, W, n) == <<LoW(x, W, n), HiW(x, W, n)>>
B01(p) == IF p THEN One ELSE Zero

\* ---- properties
zzIsEven(a) == ~IsOdd(a)
zzIsOdd(a) == IsOdd(a)

\* ---- additive operations: <<value in [n] words, carry / borrow word>>
zzAdd(a, b, W, n) == Split(Add(a, b), W, n)                      \* c <- (a+b) mod B^n, carry <- (a+b) div B^n
zzAdd2(b, a, W, n) == zzAdd(a, b, W, n)
zzAdd3(a, b, W, n, m) == Split(Add(a, b), W, Max2(n, m))
zzAddW(a, w, W, n) == Split(Add(a, w), W, n)
zzAddW2(a, w, W, n) == zzAddW(a, w, W, n)
zzIsSumEq(c, a, b) == Eq(Add(a, b), c)                           \* a + b == c ?  (as integers)
zzIsSumWEq(b, a, w) == Eq(Add(a, w), b)
\* subtraction on [n] words: <<c, borrow>> with  c - B^n * borrow == a - x,  0 <= c < B^n  (the identity the header
\* states for zzSub).  For operands below B^n (n >= 1) the borrow is the header's truth value (a < x); for a word or a
\* product subtracted from a shorter number it is the borrow WORD.
SubWithBorrow(a, x, W, n) ==
  IF Leq(x, a) THEN <<Norm(Sub2(a, x)), Zero>>
  ELSE LET d == Sub2(x, a)                                     \* d = x - a > 0; borrow = ceil(d / B^n)
           lo == LoW(d, W, n)  hi == HiW(d, W, n)
       IN IF IsZero(lo) THEN <<Zero, hi>> ELSE <<Norm(Sub2(BPow(W, n), lo)), Norm(Add(hi, One))>>
zzSub(a, b, W, n) == SubWithBorrow(a, b, W, n)
zzSub2(b, a, W, n) == zzSub(b, a, W, n)                          \* b <- b - a
zzSubW(a, w, W, n) == SubWithBorrow(a, w, W, n)
zzSubW2(a, w, W, n) == SubWithBorrow(a, w, W, n)
zzNeg(a, W, n) == LoW(Sub2(BPow(W, n), LoW(a, W, n)), W, n)                 \* B^n - a  (mod B^n)

\* ---- multiplicative operations
zzMulW(a, w, W, n) == Split(Mul(a, w), W, n)
zzAddMulW(b, a, w, W, n) == Split(Add(b, Mul(a, w)), W, n)
\* b <- (b - a*w) mod B^n together with the borrow word:  b - a*w == result - B^n * borrow, 0 <= borrow < B.
\* (the header's "carry <- (b < a*w)" is the truth value of borrow # 0)
zzSubMulW(b, a, w, W, n) == SubWithBorrow(b, Mul(a, w), W, n)
zzMul(a, b) == Norm(Mul(a, b))
zzSqr(a) == Norm(Mul(a, a))
zzSqrt(a) == LET s == Sqrt(a) IN <<Norm(s), Eq(Mul(s, s), a)>>   \* <<floor(sqrt a), a is a perfect square>>
zzDivW(a, w) == LET r == DivMod(a, w) IN <<Norm(r[1]), Norm(r[2])>>  \* <<a div w, a mod w>>, w # 0
zzModW(a, w) == Mod(a, w)
zzModW2(a, w) == Mod(a, w)                                        \* pre: w*w <= B
\* zzDiv: the pair (q, r) is correct iff a == q*b + r /\ r < b  (uniqueness of Euclidean division)
zzDivOk(q, r, a, b) == Eq(a, Add(Mul(q, b), r)) /\ Less(r, b)
zzDiv(a, b) == LET r == DivMod(a, b) IN <<Norm(r[1]), Norm(r[2])>>
zzMod(a, b) == Mod(a, b)

\* ---- Euclid
zzGCD(a, b) == Norm(GCD(a, b))
zzIsCoprime(a, b) == Eq(GCD(a, b), One)
zzLCM(a, b) == Norm(Div(Mul(a, b), GCD(a, b)))                    \* a, b # 0
\* d = gcd(a, b) and da*a - db*b == d   (the coefficients are not unique: the identity is the statement)
zzExGCDOk(d, da, db, a, b) == Eq(d, GCD(a, b)) /\ Eq(Mul(da, a), Add(d, Mul(db, b)))

\* ---- Jacobi symbol (a / b), b odd: -1, 0, 1.  Binary algorithm from the reciprocity law:
\* (2/b) = -1 iff b = 3,5 (mod 8);  (a/b)(b/a) = -1 iff a = b = 3 (mod 4)
Low3(x) == Get(x, 1) % 8
Jacobi(a0, b0) ==
  LET step(st, i) ==            \* st = <<a, b, sign>>, invariant (a0/b0) = sign * (a/b), b odd
        IF IsZero(st[1]) THEN st
        ELSE LET a == st[1]  b == st[2]
             IN IF ~IsOdd(a)
                THEN <<Norm(Shr(a, 1)), b, IF Low3(b) = 3 \/ Low3(b) = 5 THEN -st[3] ELSE st[3]>>
                ELSE LET sg == IF (Low3(a) % 4 = 3) /\ (Low3(b) % 4 = 3) THEN -st[3] ELSE st[3]
                     IN <<Mod(b, a), a, sg>>
      fin == FoldLeft(step, <<Mod(a0, b0), Norm(b0), 1>>, Rng(1, 3 * (BitLen(b0) + 2)))
  IN IF Eq(fin[2], One) THEN fin[3] ELSE 0
zzJacobi(a, b) == Jacobi(a, b)

\* ---- modular arithmetic (pre: operands < mod)
zzAddMod(a, b, mod) == AddMod(a, b, mod)
zzAddWMod(a, w, mod) == AddMod(a, w, mod)
zzSubMod(a, b, mod) == SubMod(a, b, mod)
zzSubWMod(a, w, mod) == SubMod(a, w, mod)
zzNegMod(a, mod) == SubMod(Zero, a, mod)
zzMulMod(a, b, mod) == MulMod(a, b, mod)
zzMulWMod(a, w, mod) == MulMod(a, w, mod)
zzSqrMod(a, mod) == MulMod(a, a, mod)
zzInvMod(a, mod) == ModInv(a, mod)                                \* 0 when gcd(a, mod) # 1
zzDivMod(dv, a, mod) == LET i == ModInv(a, mod) IN IF IsZero(i) /\ ~Eq(mod, One) THEN Zero ELSE MulMod(dv, i, mod)
zzDoubleMod(a, mod) == AddMod(a, a, mod)
zzHalfMod(a, mod) == IF IsOdd(a) THEN Norm(Shr(Add(a, mod), 1)) ELSE Norm(Shr(a, 1))   \* mod odd
\* zzAlmostInvMod: b == a^{-1} * 2^k mod mod with bitsize(mod) <= k <= 2 bitsize(mod); b = 0 if not invertible
zzAlmostInvModOk(b, k, a, mod) ==
  LET i == ModInv(a, mod)  l == BitLen(mod)
  IN IF IsZero(i) /\ ~Eq(mod, One) THEN IsZero(b)
     ELSE l <= k /\ k <= 2 * l /\ Eq(b, MulMod(i, ModExp(Two, OfInt(k), mod), mod))

\* ---- reductions of [2n]a modulo [n]mod
zzRed(a, mod) == Mod(a, mod)
zzRedCrand(a, mod) == Mod(a, mod)                                 \* pre: mod = B^n - c, 0 < c < B, n >= 2
zzRedBarrStart(mod, W, n) == Norm(Div(BPow(W, 2 * n), mod))       \* B^(2n) div mod
zzRedBarr(a, mod) == Mod(a, mod)
MontParam(mod, W) == LET B == BPow(W, 1) IN Norm(Sub2(B, ModInv(Mod(mod, B), B)))   \* -mod^{-1} mod B (wordNegInv)
zzRedMont(a, mod, W, n) == MulMod(a, ModInv(Mod(BPow(W, n), mod), mod), mod)        \* a * R^{-1} mod mod, R = B^n
zzRedCrandMont(a, mod, W, n) == zzRedMont(a, mod, W, n)

\* ---- powers
zzPowerMod(a, b, mod) == ModExp(a, b, mod)                        \* 0^0 = 1 (mod mod)
zzPowerModW(a, b, mod) == ModExp(Mod(a, mod), b, mod)
\* ---- the "pure" Montgomery ring of zmMontCreate (zm.h): R = 2^l, elements kept as they are
zmMont2R(l, mod) == Mod(PowerOf2(l), mod)                                                   \* the unity
zmMont2Mul(a, b, l, mod) == MulMod(MulMod(a, b, mod), ModInv(zmMont2R(l, mod), mod), mod)   \* a b R^-1
zmMont2Inv(a, l, mod) == MulMod(ModInv(a, mod), MulMod(zmMont2R(l, mod), zmMont2R(l, mod), mod), mod)   \* a^-1 R^2 (a invertible)
zmMont2Div(dv, a, l, mod) == MulMod(MulMod(dv, ModInv(a, mod), mod), zmMont2R(l, mod), mod)  \* dv (*) inv(a) = dv a^-1 R
\* ---- random residues: zzRandMod  a <-R {0, ..., mod - 1},  zzRandNZMod  a <-R {1, ..., mod - 1}  (pre: mod[n-1] # 0; mod # 1)
\* zz.h promises the range of a on success; a failure is possible only when the generator's output is of low statistical
\* quality (for true random octets its probability is below 2^-B_PER_IMPOSSIBLE): a seeded pseudorandom tape must succeed,
\* a constant tape may fail (and must then fail by RETURNING).  How the octets of the tape become a is not defined by the
\* header and is not judged; uniformity is out of scope.
zzRandModOk(ok, a, mod, nz, tape) ==
  /\ ok \in {0, 1}
  /\ (tape = "seeded" => ok = 1)
  /\ (ok = 1 => Less(a, mod) /\ (nz => ~IsZero(a)))
\* octets drawn from the caller's generator: zz.h states the cost - every attempt takes O_OF_B(l) octets for 2^{l-1} <= mod < 2^l
\* ("O_OF_B(l) * 2^l / mod octets on average") - so the total is a positive multiple of O_OF_B(l), whatever the word length
zzRandUsedOk(used, mod) == LET ol == (BitLen(mod) + 7) \div 8 IN used >= ol /\ used % ol = 0
=============================================================================
