----------------------------- MODULE EC2Vectors -----------------------------
(* C06 (0), binary curves: the ORACLE is validated before it is used.
   IOEnv.CURVES2 (ndjson): one record {name, m, k, l, l1, d, A, B} per line: the field GF(2^m) of gf2.h ([4]p = m,k,l,l1),
   the degree d | m of the subfield K = GF(2^d) constructed by ref/EC2Embed.tla and the coefficients A, B as elements of
   K (integers < 2^d).  TLC enumerates ALL points of E(K) by the curve equation and checks that the affine definition
   of ref/EC2.tla
     emb    the construction of K inside GF(2^m) is sound (EmbOk), a * KInv(a) = 1 for every a # 0 of K, the
            shift-and-add product of EC2Int agrees with the polynomial product modulo g (GF2Poly) and phi is multiplicative
     attr   B # 0; #E(K) is even, and divisible by 4 exactly when Tr(A) = 0; the Hasse bound; every listed point is on
            the curve and the count is 1 + the number of solutions; coordinates outside the field are rejected
     grp    closed, commutative, identity O, inverses, P - Q + Q = P                        (all ordered pairs)
     assoc  associative on ALL triples                                                      (curves with <= AssocMax points)
     mul    ScalarMul (double-and-add) = iterated sum MulSeq = Lopez-Dahab evaluation ScalarMulLD for all k in
            0 .. 2*order+2, order * P = O, HasOrder(P, k) <=> k P = O, MulAdd = sum of multiples
     big    the GF2Poly instantiation over GF(2^m) agrees with the integer instantiation over K through phi
            (addition / subtraction rows, multiples, on-curve test)                          (curves with <= BigMax points)
   and, in the large fields listed in IOEnv.FIELDS2 (ndjson {m, k, l, l1}):
     fld    F is irreducible (Rabin), BRed = PMod on seeded products, a * a^(-1) = 1
   and, on the DSTU 4145-2002 curve over GF(2^163) (the first curve of its table of recommended curves, with the base
   point of dstuParamsStd):
     d163   P is on the curve, n P = O, (n - 1) P = -P, ScalarMulLD = ScalarMul, Tr(A) = 1 <=> cofactor 2.
   One case per TLC state (two-level pattern); a failing case prints <<"@BAD", case>>. *)
EXTENDS EC2Embed, Prng, Json, IOUtils, TLC

Curves == ndJsonDeserialize(IOEnv.CURVES2)
Fields == ndJsonDeserialize(IOEnv.FIELDS2)
AssocMax == atoi(IOEnv.ASSOC_MAX)
BigMax == atoi(IOEnv.BIG_MAX)
WithDstu == IOEnv.WITH_DSTU = "1"
Seed == atoi(IOEnv.GEN_SEED)
NC == Len(Curves)
NF == Len(Fields)

BF(c) == E2B!BField(Curves[c].m, Curves[c].k, Curves[c].l, Curves[c].l1)
Emb == PStrict([c \in 1..NC |-> Embed(BF(c), Curves[c].d)])      \* PStrict: evaluated once
KF(c) == KField(Emb[c])
E(c) == [f |-> KF(c), A |-> Curves[c].A, B |-> Curves[c].B]
Q(c) == 2 ^ Curves[c].d
PtsOfX(c, x) == LET e == E(c)  r == E2I!Rhs(e, x)
                IN FoldLeft(LAMBDA acc, y : IF E2I!Lhs(e, x, y) = r THEN Append(acc, <<x, y>>) ELSE acc, <<>>, PRng(0, Q(c) - 1))
PtsOf == PStrict([c \in 1..NC |-> <<E2I!O>> \o FoldLeft(LAMBDA acc, x : acc \o PtsOfX(c, x), <<>>, PRng(0, Q(c) - 1))])
Ord(c) == Len(PtsOf[c])

\* ---- the checks
EmbCase(c) ==
  LET em == Emb[c]  f == KF(c)  q == Q(c)  bf == BF(c)
  IN /\ EmbOk(em, bf)
     /\ \A a \in 1..(q - 1) : E2I!KMul(a, E2I!KInv(a, f), f) = 1
     /\ \A a \in {1, 2, 3, q \div 2, q - 2, q - 1}, b \in 0..(q - 1) :
          /\ <<E2I!KMul(a, b, f)>> = PFit(PMod(PMul(<<a>>, <<b>>), <<f.g>>), 1)
          /\ Phi(em, E2I!KMul(a, b, f)) = E2B!BFMul(Phi(em, a), Phi(em, b), bf)
     /\ \A a \in 0..(q - 1) : E2B!BFIn(Phi(em, a), bf) /\ (a # 0 => ~PIsZero(Phi(em, a)))
     /\ Phi(em, 1) = POne
     /\ \A a \in 0..(q - 1) : E2I!KTr(a, f) \in {0, 1}
Attr(c) ==
  LET e == E(c)  ps == PtsOf[c]  n == Len(ps)  q == Q(c)
  IN /\ E2I!IsNonSingular(e)
     /\ n % 2 = 0 /\ ((n % 4 = 0) <=> (E2I!KTr(e.A, e.f) = 0))
     /\ (n - (q + 1)) * (n - (q + 1)) <= 4 * q
     /\ \A i \in 1..n : E2I!IsPoint(e, ps[i])
     /\ n = 1 + Cardinality({xy \in (0..(q - 1)) \X (0..(q - 1)) : E2I!IsOnCurve(e, xy[1], xy[2])})
     /\ ~E2I!IsOnCurve(e, ps[2][1] + q, ps[2][2]) /\ ~E2I!IsOnCurve(e, ps[2][1], ps[2][2] + q)
     /\ \E i \in 2..n : ps[i][1] = 0 /\ E2I!ENeg(e, ps[i]) = ps[i]                    \* the point of order two
Grp(c, i) ==
  LET e == E(c)  ps == PtsOf[c]  P == ps[i]
  IN /\ E2I!IsPoint(e, P) /\ E2I!IsPoint(e, E2I!ENeg(e, P))
     /\ E2I!EAdd(e, P, E2I!O) = P /\ E2I!EAdd(e, E2I!O, P) = P
     /\ E2I!IsO(E2I!EAdd(e, P, E2I!ENeg(e, P)))
     /\ E2I!ENeg(e, E2I!ENeg(e, P)) = P
     /\ \A j \in 1..Len(ps) :
          LET R == ps[j]  S == E2I!EAdd(e, P, R)
          IN /\ E2I!IsPoint(e, S)
             /\ S = E2I!EAdd(e, R, P)
             /\ E2I!EAdd(e, E2I!ESub(e, P, R), R) = P
             /\ E2I!ESub(e, S, R) = P
             /\ E2I!ENeg(e, S) = E2I!EAdd(e, E2I!ENeg(e, P), E2I!ENeg(e, R))
Assoc(c, i) ==
  LET e == E(c)  ps == PtsOf[c]  P == ps[i]
  IN \A j \in 1..Len(ps), k \in 1..Len(ps) :
       E2I!EAdd(e, E2I!EAdd(e, P, ps[j]), ps[k]) = E2I!EAdd(e, P, E2I!EAdd(e, ps[j], ps[k]))
MulOk(c, i) ==
  LET e == E(c)  ps == PtsOf[c]  P == ps[i]  n == Len(ps)  K == 2 * n + 2
      ms == E2I!MulSeq(e, P, K)
  IN /\ E2I!IsO(ms[n + 1])                                       \* Lagrange: order * P = O
     /\ \A k \in 0..K : /\ E2I!ScalarMul(e, k, P) = ms[k + 1]
                        /\ E2I!ScalarMulLD(e, k, P) = ms[k + 1]
                        /\ (k >= 1 /\ ~E2I!IsO(P)) => (E2I!HasOrder(e, P, k) <=> E2I!IsO(ms[k + 1]))
     /\ E2I!EDbl(e, P) = ms[3]
     /\ \A j \in {1, 2, (n + 1) \div 2, n} :
          LET R == ps[j] IN
          /\ E2I!MulAdd(e, <<3, n - 1>>, <<P, R>>) = E2I!EAdd(e, ms[4], E2I!MulSeq(e, R, n)[n])
          /\ E2I!MulAddLD(e, <<3, n - 1>>, <<P, R>>) = E2I!MulAdd(e, <<3, n - 1>>, <<P, R>>)
BigOk(c, i) ==
  LET e == E(c)  ps == PtsOf[c]  P == ps[i]  n == Len(ps)  em == Emb[c]
      eb == E2B!BCurve(BF(c), Phi(em, e.A), Phi(em, e.B))
      T(X) == PhiPt(em, X)
  IN /\ \A j \in 1..n : /\ E2B!EAdd(eb, T(P), T(ps[j])) = T(E2I!EAdd(e, P, ps[j]))
                        /\ E2B!ESub(eb, T(P), T(ps[j])) = T(E2I!ESub(e, P, ps[j]))
     /\ E2B!IsPoint(eb, T(P)) /\ E2B!ENeg(eb, T(P)) = T(E2I!ENeg(e, P))
     /\ \A k \in {0, 1, 2, n - 1, n, n + 1, 2 * n + 2} :
          /\ E2B!ScalarMul(eb, OfInt(k), T(P)) = T(E2I!ScalarMul(e, k, P))
          /\ E2B!ScalarMulLD(eb, OfInt(k), T(P)) = T(E2I!ScalarMul(e, k, P))
     /\ (i > 1) => /\ ~E2B!IsOnCurve(eb, PAdd(T(P)[1], PMonomial(BF(c).m)), T(P)[2])          \* abscissa outside the field
                    /\ ~E2B!IsOnCurve(eb, T(P)[1], PAdd(T(P)[2], PMonomial(BF(c).m + 1)))
                    /\ E2B!IsOnCurve(eb, T(P)[1], E2B!BFAdd(T(P)[2], POne)) <=> (T(P)[1] = POne)   \* (x, y + 1) solves iff x = 1

\* ---- large fields
RndElt(f, stream) == PNorm(PTrunc(PStrict([i \in 1..((f.m + 15) \div 16) |->
                        LET o == PrngOctets(Seed, stream * 100 + i, 2) IN o[1] + 256 * o[2]]), f.m))
FldOk(t) ==
  LET f == E2B!BField(Fields[t].m, Fields[t].k, Fields[t].l, Fields[t].l1)
  IN /\ PIsIrred(f.F) /\ PDeg(f.F) = f.m
     /\ \A s \in 1..6 :
          LET a == RndElt(f, 2 * s)  b == IF s = 6 THEN PAdd(f.F, POne) ELSE RndElt(f, 2 * s + 1)
              b1 == PMod(b, f.F)
          IN /\ E2B!BRed(PMul(a, b1), f) = PMod(PMul(a, b1), f.F)
             /\ E2B!BFIn(E2B!BFMul(a, b1, f), f)
             /\ (~PIsZero(a)) => E2B!BFMul(a, E2B!BFInv(a, f), f) = POne
             /\ E2B!BFInv(a, f) = PInvMod(a, f.F) /\ E2B!BFInv(PZero, f) = PZero
             /\ E2B!BFMul(a, E2B!BFAdd(b1, POne), f) = E2B!BFAdd(E2B!BFMul(a, b1, f), a)

\* ---- DSTU 4145-2002, curve over GF(2^163): F = x^163 + x^7 + x^6 + x^3 + 1, A = 1 (little-endian octets)
HexVal(ch) == CHOOSE v \in 0..15 : SubSeq("0123456789ABCDEF", v + 1, v + 1) = ch
HexOct(s) == [i \in 1..(Len(s) \div 2) |-> HexVal(SubSeq(s, 2 * i - 1, 2 * i - 1)) * 16 + HexVal(SubSeq(s, 2 * i, 2 * i))]
POfOct(o) == PNorm(PStrict([i \in 1..((Len(o) + 1) \div 2) |-> o[2 * i - 1] + (IF 2 * i <= Len(o) THEN 256 * o[2 * i] ELSE 0)]))
F163 == E2B!BField(163, 7, 6, 3)
E163 == E2B!BCurve(F163, POne, POfOct(HexOct("215D45C1198A635E9203B40A21C82D2A460861FF05")))
N163 == Norm(FromOctets(HexOct("4DF1BC392D26E22BC1BE0200000000000000000004")))
G163 == <<POfOct(HexOct("2004548C5C8874FEAF01FFF97DC23AA9937F862D07")), POfOct(HexOct("9BFDC3AD2211B84A5F9D59C5972B8547399C4A2200"))>>
D163(k) == CASE k = 1 -> E2B!IsNonSingular(E163) /\ E2B!IsPoint(E163, G163) /\ BitLen(N163) = 163 /\ E2B!BTr(E163.A, F163) = 1
             [] k = 2 -> E2B!IsO(E2B!ScalarMulLD(E163, N163, G163))
             [] k = 3 -> E2B!ScalarMulLD(E163, Norm(Sub2(N163, One)), G163) = E2B!ENeg(E163, G163)
             [] k = 4 -> \A s \in {OfInt(0), OfInt(1), OfInt(2), OfInt(3), OfInt(1000003)} :
                           E2B!ScalarMulLD(E163, s, G163) = E2B!ScalarMul(E163, s, G163)

AllCases ==
  {<<"attr", c, 0>> : c \in 1..NC} \cup {<<"emb", c, 0>> : c \in 1..NC}
  \cup UNION {{<<"grp", c, i>> : i \in 1..Ord(c)} : c \in 1..NC}
  \cup UNION {{<<"mul", c, i>> : i \in 1..Ord(c)} : c \in 1..NC}
  \cup UNION {{<<"assoc", c, i>> : i \in 1..Ord(c)} : c \in {d \in 1..NC : Ord(d) <= AssocMax}}
  \cup UNION {{<<"big", c, i>> : i \in 1..Ord(c)} : c \in {d \in 1..NC : Ord(d) <= BigMax}}
  \cup {<<"fld", t, 0>> : t \in 1..NF}
  \cup (IF WithDstu THEN {<<"d163", 0, k>> : k \in 1..4} ELSE {})
CaseOk(x) ==
  CASE x[1] = "attr" -> Attr(x[2])
    [] x[1] = "emb" -> EmbCase(x[2])
    [] x[1] = "grp" -> Grp(x[2], x[3])
    [] x[1] = "assoc" -> Assoc(x[2], x[3])
    [] x[1] = "mul" -> MulOk(x[2], x[3])
    [] x[1] = "big" -> BigOk(x[2], x[3])
    [] x[1] = "fld" -> FldOk(x[2])
    [] x[1] = "d163" -> D163(x[3])

VARIABLES phase, case, ok
Init == phase = 0 /\ case = <<"", 0, 0>> /\ ok = TRUE
Next == \/ phase = 0 /\ phase' = 1 /\ case' \in AllCases /\ ok' = TRUE
        \/ phase = 1 /\ phase' = 2 /\ case' = case /\ ok' = CaseOk(case)
                     /\ (ok' \/ PrintT(<<"@BAD", case>>))
=============================================================================
