---------------------------- MODULE BignVectors ----------------------------
(* Anchors of ref/Bign.tla: the appendix of STB 34.101.45 (tables G.1 - G.7, as reproduced in
   /repo/test/crypto/bign_test.c) evaluated by TLC, one vector per state, plus algebraic laws of the specification.
     G.1  key pair: Q = d G                                  G.2, G.3  signatures: Verify accepts them, rejects an altered S0,
     G.2  Sign with the nonce recovered from the signature reproduces it     an altered public key is not a point
     G.6, G.7  deterministic nonce (alg. 6.3.3) equals the k implied by the appendix signature data
     G.4, G.5  key tokens unwrap to the transported keys     laws: wrap -> unwrap, DH symmetry, sampling boundaries
     G.8  identity key pair extracted from the signature of G.2 (appendix B.2.3)
     G.9, G.10  identity-based signatures: IdVerify accepts them, IdSign with the implied nonce reproduces them, the
     point V of B.2.5 as written equals its one-pass evaluation; altered S0 / S1 / H0 / H / R are rejected *)
EXTENDS Bign, IOUtils, TLC

\* VEC_TIER = "quick": the vectors of Sel (every table of the appendix once); anything else: all of them
Quick == "VEC_TIER" \in DOMAIN IOEnv /\ IOEnv.VEC_TIER = "quick"

P == Params128
OID == <<6, 9, 42, 112, 0, 2, 0, 34, 101, 31, 81>>           \* 1.2.112.0.2.0.34.101.31.81 (belt-hash)
BH(off, n) == Strict(BM!HSlice(off, n))
D1 == LEHex("1F66B5B84B7339674533F0329C74F21834281FED0732429E0C79235FC273E269")
QO == HexOct("BD1A5650179D79E03FCEE49D4C2BD5DDF54CE46D0CF11E4FF87BF7A890857FD07AC6A60361E8C8173491686D461B2826190C2EDA5909054A9AB84D2AB9D99A90")
H2 == BM!Hash(BH(0, 13))
H3 == BM!Hash(BH(0, 48))
SIG2 == HexOct("E36B7F0377AE4C524027C387FADF1B20CE72F1530B71F2B5FD3A8C584FE2E1AED20082E30C8AF65011F4FB54649DFD3D")
SIG3 == HexOct("47A63C8B9C936E94B5FAB3D9CBD78366290F3210E163EEC8DB4E921E8479D4138F112CC23E6DCE65EC5FF21DF4231C28")
K6 == LEHex("829614D8411DBBC4E1F2471A4004586440FD8C9553FAB6A1A45CE417AE97111E")
K7 == LEHex("7ADC8713283EBFA547A2AD9CDFB245AE0F7B968DF0F91CB785D1F932A3583107")
TOK4 == HexOct("9B4EA669DABDF100A7D4B6E6EB76EE5251912531F426750AAC8A9DBB51C54D8DEB9289B50A46952D0531861E45A8814B008FDC65DE9FF1FA2A1F16B6A280E957A814")
TOK5 == HexOct("4856093A0F6C13015FC8E15F1B23A76202D2F4BA6E5EC52B78658477F6486DE687AFAEEA0EF7BC1326A7DCE7A10BA10E3F91C0126044B22267BF30BD6F1DA29E0647CF39C1D59A56BB0194E0F4F8A2BB")
R8O == HexOct("CCEEF1A313A406649D15DA0A851D486A695B641B20611776252FFDCE39C710607C9EA1F33C23D20DFCB8485A88BE6523A28ECC3215B47FA289D6C9BE1CE837C0")
E8 == LEHex("79628979DF369BEB94DEF3299476AED414F39148AA69E31A7397E8AA70578AB3")
IDSIG9 == HexOct("1697FE6A073D3B28C9D0DD832A169D7B8D342FDC47BC8AAEB6226448956E22D6CC73B62CB21B66E5C8DE0A3E234FB0C6")
IDSIG10 == HexOct("31CBA14FC2D79AFCD8F50E29F993FC2CB270BD0A79D534B3B120791400C8BB1850AD6D3C78047FCB46F18608AC7006AA")
H9 == BM!Hash(BH(32, 16))
H10 == BM!Hash(BH(32, 23))
\* the nonce an identity-based signature implies:  k = S1 + (S0 + 2^l) e + H  (mod q)
KOfId(sig, H) == Mod(Add(Add(SigS1Num(P, sig), Mul(Add(SigS0Num(P, sig), PowL(P)), E8)), Num(H)), P.q)
\* the nonce a signature (S0 || S1) implies:  k = S1 + (S0 + 2^l) d + H  (mod q)
KOf(sig, H) == LET S0 == Num(SubSeq(sig, 1, 16))  S1 == Num(SubSeq(sig, 17, 48))
               IN Mod(Add(Add(S1, Mul(Add(S0, PowL(P)), D1)), Num(H)), P.q)
Flip(s, i) == [s EXCEPT ![i] = IF (s[i] % 2) = 0 THEN s[i] + 1 ELSE s[i] - 1]
QM1 == Norm(Sub2(P.q, One))

Vec(v) ==
  CASE v = 1 -> LET g == KeypairGen(P, Oct(D1, 32)) IN g.ok /\ g.d = D1 /\ PtOct(P, g.Q) = QO
    [] v = 2 -> Verify(P, OID, H2, SIG2, QO) = "ok"
    [] v = 3 -> Verify(P, OID, H3, SIG3, QO) = "ok"
    [] v = 4 -> Verify(P, OID, H2, Flip(SIG2, 1), QO) = "sig"
    [] v = 5 -> Verify(P, OID, H2, SIG2, Flip(QO, 1)) = "pubkey" /\ Verify(P, <<6, 0>>, H2, SIG2, QO) = "oid"
                /\ Verify(P, <<>>, H2, SIG2, QO) = "oid" /\ Verify(P, OID, H2, SIG2 \o <<0>>, QO) = "sig"
    [] v = 6 -> Sign(P, OID, H2, D1, KOf(SIG2, H2)) = SIG2
    [] v = 7 -> Sign(P, OID, H3, D1, KOf(SIG3, H3)) = SIG3
    [] v = 8 -> LET n == DetNonce(P, OID, D1, H2, <<>>) IN n.ok /\ n.k = K6
    [] v = 9 -> LET n == DetNonce(P, OID, D1, H3, BH(128 + 64, 23)) IN n.ok /\ n.k = K7
    [] v = 10 -> KeyUnwrap(P, TOK4, BH(32, 16), D1) = <<TRUE, BH(0, 18)>>
    [] v = 11 -> KeyUnwrap(P, TOK5, BH(64, 16), D1) = <<TRUE, BH(0, 32)>>
    [] v = 12 -> KeyUnwrap(P, TOK4, BH(64, 16), D1)[1] = FALSE /\ KeyUnwrap(P, SubSeq(TOK4, 1, 63), BH(32, 16), D1)[1] = FALSE
    [] v = 13 -> KeyUnwrap(P, KeyWrap(P, BH(7, 21), BH(100, 16), QO, Two), BH(100, 16), D1) = <<TRUE, BH(7, 21)>>
    [] v = 14 -> DH(P, D1, PtOct(P, PubkeyOf(P, Two)), 64) = DH(P, Two, QO, 64)
    \* sampling boundaries: 0 and q rejected, q-1 and 1 accepted, 65 rejected samples then a valid one => failure
    [] v = 15 -> /\ SampleNZ(P, Oct(Zero, 32) \o Oct(P.q, 32) \o Oct(QM1, 32)) = [ok |-> TRUE, v |-> QM1, tries |-> 3]
                 /\ SampleNZ(P, Oct(Add(P.q, One), 32) \o Oct(One, 32)).v = One
                 /\ ~SampleNZ(P, Zeros(32 * 65) \o Oct(One, 32)).ok /\ SampleNZ(P, Zeros(32 * 64) \o Oct(One, 32)).ok
                 /\ ~SampleNZ(P, <<>>).ok
    \* the signing equation inverts:  (S1 + H) + (S0 + 2^l) d = k (mod q), also for H >= q and k < H
    [] v = 16 -> \A hk \in {<<Zeros(32), One>>, <<Rep(32, 255), Add(PowL(P), Two)>>, <<Oct(P.q, 32), QM1>>} :
                   LET s1 == S1Of(P, OfInt(77), hk[1], D1, hk[2])
                   IN Mod(Add(Add(s1, Num(hk[1])), Mul(Add(OfInt(77), PowL(P)), D1)), P.q) = hk[2]
    [] v = 17 -> \A l \in {128, 192, 256} : LET Q == Params(l) IN
                   BitLen(Q.p) = 2 * l /\ BitLen(Q.q) = 2 * l /\ Q.no = l \div 4 /\ Get(Q.p, 1) % 4 = 3
                   /\ EB!IsPoint(Curve(Q), G(Q)) /\ EB!IsSmooth(Curve(Q)) /\ Q.a = Norm(Sub2(Q.p, OfInt(3)))
    \* ---- appendix B (tables G.8 - G.10)
    [] v = 18 -> IdExtract(P, OID, H2, SIG2, QO) = [st |-> "ok", e |-> E8, R |-> PtOf(P, R8O)] /\ IdPrivOf(P, H2, SIG2) = E8
    [] v = 19 -> IdVerify(P, OID, H2, H9, IDSIG9, R8O, QO) = "ok"
    [] v = 20 -> IdVerify(P, OID, H2, H10, IDSIG10, R8O, QO) = "ok"
    [] v = 21 -> LET V == IdVerifyV(P, OID, H2, H9, IDSIG9, R8O, QO)
                 IN V = IdVerifyV2(P, OID, H2, H9, IDSIG9, R8O, QO) /\ HashL2(P, OID, V, H2, H9) = SubSeq(IDSIG9, 1, 16)
    [] v = 22 -> IdSign(P, OID, H2, H9, E8, KOfId(IDSIG9, H9)) = IDSIG9
    [] v = 23 -> IdSign(P, OID, H2, H10, E8, KOfId(IDSIG10, H10)) = IDSIG10
    [] v = 24 -> IdVerify(P, OID, H2, H9, Flip(IDSIG9, 1), R8O, QO) = "sig"
    [] v = 25 -> IdVerify(P, OID, H2, H9, Flip(IDSIG9, 17), R8O, QO) = "sig"
    [] v = 26 -> IdVerify(P, OID, Flip(H2, 1), H9, IDSIG9, R8O, QO) = "sig"
    [] v = 27 -> IdVerify(P, OID, H2, Flip(H9, 32), IDSIG9, R8O, QO) = "sig"
    [] v = 28 -> /\ IdVerify(P, OID, H2, H9, IDSIG9, Flip(R8O, 1), QO) = "pubkey" /\ IdVerify(P, OID, H2, H9, IDSIG9, R8O, Flip(QO, 33)) = "pubkey"
                 /\ IdVerify(P, <<6, 0>>, H2, H9, IDSIG9, R8O, QO) = "oid" /\ IdVerify(P, OID, H2, H9, SubSeq(IDSIG9, 1, 47), R8O, QO) = "sig"
                 /\ IdVerify(P, OID, H2, H9, SubSeq(IDSIG9, 1, 16) \o Oct(P.q, 32), R8O, QO) = "sig"
                 /\ IdExtract(P, OID, H2, SIG2, Flip(QO, 1)).st = "pubkey" /\ IdExtract(P, <<>>, H2, SIG2, QO).st = "oid"
                 /\ IdExtract(P, OID, H2, SubSeq(SIG2, 1, 16) \o Oct(P.q, 32), QO).st = "sig"
    [] v = 29 -> IdExtract(P, OID, Flip(H2, 1), SIG2, QO).st = "sig"
    \* another point of the curve in the place of the identity key: R' = 2 G
    [] v = 30 -> IdVerify(P, OID, H2, H9, IDSIG9, PtOct(P, PubkeyOf(P, Two)), QO) = "sig"
    \* the signing equation of B.2.4 for the boundary keys e = 0, 1, q - 1:  S1 + H + (S0 + 2^l) e = k (mod q)
    [] v = 31 -> \A e \in {Zero, One, QM1} : \A hk \in {<<Zeros(32), One>>, <<Rep(32, 255), Two>>, <<Oct(P.q, 32), QM1>>} :
                   LET s1 == S1Of(P, OfInt(77), hk[1], e, hk[2])
                   IN /\ Less(s1, P.q) /\ Mod(Add(Add(s1, Num(hk[1])), Mul(Add(OfInt(77), PowL(P)), e)), P.q) = hk[2]
                      /\ (e = Zero => s1 = SubMod(hk[2], Mod(Num(hk[1]), P.q), P.q))
NVec == 31
\* quick: G.8 (v18), G.9 accepted (v19), G.10 reproduced (v23), the rejections decided without the point V (v28), the
\* boundary keys (v31); G.10 accepted, G.9 reproduced, the two evaluations of V compared, the rejections by hash: thorough
Sel == IF Quick THEN (1..NVec) \ {20, 21, 22, 24, 25, 26, 27, 29, 30} ELSE 1..NVec
VARIABLES phase, v, ok
Init == phase = 0 /\ v = 0 /\ ok = TRUE
Next == \/ phase = 0 /\ phase' = 1 /\ v' \in Sel /\ ok' = TRUE
        \/ phase = 1 /\ phase' = 2 /\ v' = v /\ ok' = Vec(v) /\ (ok' \/ PrintT(<<"@BAD", v>>))
=============================================================================
