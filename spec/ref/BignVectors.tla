---------------------------- MODULE BignVectors ----------------------------
(* Anchors of ref/Bign.tla: the appendix of STB 34.101.45 (tables G.1 - G.7, as reproduced in
   /repo/test/crypto/bign_test.c) evaluated by TLC, one vector per state, plus algebraic laws of the specification.
     G.1  key pair: Q = d G                                  G.2, G.3  signatures: Verify accepts them, rejects an altered S0,
     G.2  Sign with the nonce recovered from the signature reproduces it     an altered public key is not a point
     G.6, G.7  deterministic nonce (alg. 6.3.3) equals the k implied by the appendix signature data
     G.4, G.5  key tokens unwrap to the transported keys     laws: wrap -> unwrap, DH symmetry, sampling boundaries *)
EXTENDS Bign, TLC

P == Params128
OID == <<6, 9, 42, 112, 0, 2, 0, 34, 101, 31, 81>>           \* 1.2.112.0.2.0.34.101.31.81 (belt-hash)
BH(off, n) == Strict(BM!HSlice(off, n))
D1 == LEHex("1F66B5B84B7339674533F0329C74F21834281FED0732429E0C79235FC273E269")
QO == HexOct("BD1A5650179D79E03FCEE49D4C2BD5DDF54CE46D0CF11E4FF87BF7A890857FD07AC6A60361E8C8173491686D461B2826190C2EDA5909054A9AB84D2AB9D99A90")
H2 == BM!Hash(BH(0, 13))
H3 == BM!Hash(BH(0, 48))
SIG2 == HexOct("E36B7F0377AE4C524027C387FADF1B20CE72F1530B71F2B5FD3A8C584FE2E1AED20082E30C8AF65011F4FB54649DFD3D")
SIG3 == HexOct("47A63C8B9C936E94B5FAB3D9CBD78366290F3210E163EEC8DB4E921E8479D4138F112CC23E6DCE65EC5FF21DF4231C28")
K6 == LEHex("829614D8411DBBC4E1F2471A4004586440FD8C9553FAB6A1A45CE417AE97111E")
K7 == LEHex("7ADC8713283EBFA547A2AD9CDFB245AE0F7B968DF0F91CB785D1F932A3583107")
TOK4 == HexOct("9B4EA669DABDF100A7D4B6E6EB76EE5251912531F426750AAC8A9DBB51C54D8DEB9289B50A46952D0531861E45A8814B008FDC65DE9FF1FA2A1F16B6A280E957A814")
TOK5 == HexOct("4856093A0F6C13015FC8E15F1B23A76202D2F4BA6E5EC52B78658477F6486DE687AFAEEA0EF7BC1326A7DCE7A10BA10E3F91C0126044B22267BF30BD6F1DA29E0647CF39C1D59A56BB0194E0F4F8A2BB")
\* the nonce a signature (S0 || S1) implies:  k = S1 + (S0 + 2^l) d + H  (mod q)
KOf(sig, H) == LET S0 == Num(SubSeq(sig, 1, 16))  S1 == Num(SubSeq(sig, 17, 48))
               IN Mod(Add(Add(S1, Mul(Add(S0, PowL(P)), D1)), Num(H)), P.q)
Flip(s, i) == [s EXCEPT ![i] = IF (s[i] % 2) = 0 THEN s[i] + 1 ELSE s[i] - 1]
QM1 == Norm(Sub2(P.q, One))

Vec(v) ==
  CASE v = 1 -> LET g == KeypairGen(P, Oct(D1, 32)) IN g.ok /\ g.d = D1 /\ PtOct(P, g.Q) = QO
    [] v = 2 -> Verify(P, OID, H2, SIG2, QO) = "ok"
    [] v = 3 -> Verify(P, OID, H3, SIG3, QO) = "ok"
    [] v = 4 -> Verify(P, OID, H2, Flip(SIG2, 1), QO) = "sig"
    [] v = 5 -> Verify(P, OID, H2, SIG2, Flip(QO, 1)) = "pubkey" /\ Verify(P, <<6, 0>>, H2, SIG2, QO) = "oid"
                /\ Verify(P, <<>>, H2, SIG2, QO) = "oid" /\ Verify(P, OID, H2, SIG2 \o <<0>>, QO) = "sig"
    [] v = 6 -> Sign(P, OID, H2, D1, KOf(SIG2, H2)) = SIG2
    [] v = 7 -> Sign(P, OID, H3, D1, KOf(SIG3, H3)) = SIG3
    [] v = 8 -> LET n == DetNonce(P, OID, D1, H2, <<>>) IN n.ok /\ n.k = K6
    [] v = 9 -> LET n == DetNonce(P, OID, D1, H3, BH(128 + 64, 23)) IN n.ok /\ n.k = K7
    [] v = 10 -> KeyUnwrap(P, TOK4, BH(32, 16), D1) = <<TRUE, BH(0, 18)>>
    [] v = 11 -> KeyUnwrap(P, TOK5, BH(64, 16), D1) = <<TRUE, BH(0, 32)>>
    [] v = 12 -> KeyUnwrap(P, TOK4, BH(64, 16), D1)[1] = FALSE /\ KeyUnwrap(P, SubSeq(TOK4, 1, 63), BH(32, 16), D1)[1] = FALSE
    [] v = 13 -> KeyUnwrap(P, KeyWrap(P, BH(7, 21), BH(100, 16), QO, Two), BH(100, 16), D1) = <<TRUE, BH(7, 21)>>
    [] v = 14 -> DH(P, D1, PtOct(P, PubkeyOf(P, Two)), 64) = DH(P, Two, QO, 64)
    \* sampling boundaries: 0 and q rejected, q-1 and 1 accepted, 65 rejected samples then a valid one => failure
    [] v = 15 -> /\ SampleNZ(P, Oct(Zero, 32) \o Oct(P.q, 32) \o Oct(QM1, 32)) = [ok |-> TRUE, v |-> QM1, tries |-> 3]
                 /\ SampleNZ(P, Oct(Add(P.q, One), 32) \o Oct(One, 32)).v = One
                 /\ ~SampleNZ(P, Zeros(32 * 65) \o Oct(One, 32)).ok /\ SampleNZ(P, Zeros(32 * 64) \o Oct(One, 32)).ok
                 /\ ~SampleNZ(P, <<>>).ok
    \* the signing equation inverts:  (S1 + H) + (S0 + 2^l) d = k (mod q), also for H >= q and k < H
    [] v = 16 -> \A hk \in {<<Zeros(32), One>>, <<Rep(32, 255), Add(PowL(P), Two)>>, <<Oct(P.q, 32), QM1>>} :
                   LET s1 == S1Of(P, OfInt(77), hk[1], D1, hk[2])
                   IN Mod(Add(Add(s1, Num(hk[1])), Mul(Add(OfInt(77), PowL(P)), D1)), P.q) = hk[2]
    [] v = 17 -> \A l \in {128, 192, 256} : LET Q == Params(l) IN
                   BitLen(Q.p) = 2 * l /\ BitLen(Q.q) = 2 * l /\ Q.no = l \div 4 /\ Get(Q.p, 1) % 4 = 3
                   /\ EB!IsPoint(Curve(Q), G(Q)) /\ EB!IsSmooth(Curve(Q)) /\ Q.a = Norm(Sub2(Q.p, OfInt(3)))
NVec == 17
VARIABLES phase, v, ok
Init == phase = 0 /\ v = 0 /\ ok = TRUE
Next == \/ phase = 0 /\ phase' = 1 /\ v' \in 1..NVec /\ ok' = TRUE
        \/ phase = 1 /\ phase' = 2 /\ v' = v /\ ok' = Vec(v) /\ (ok' \/ PrintT(<<"@BAD", v>>))
=============================================================================
