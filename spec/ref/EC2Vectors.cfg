INIT Init
NEXT Next
