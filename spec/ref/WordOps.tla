------------------------------ MODULE WordOps ------------------------------
(* include/bee2/core/word.h, u16.h, u32.h, u64.h as mathematics.  A word of width Wd in {16, 32, 64}
   is the sequence of its Wd/16 16-bit limbs (little-endian), as logged by jLimbs16; bit-level
   functions are defined on the sequence of its bits (bit 0 first). *)
EXTENDS BigNat

P2w(k) == 2 ^ k
\* bits (least significant first) of a sequence of 16-bit limbs, and back
BitsOf(ls) == Strict([k \in 1..(16 * Len(ls)) |-> (ls[((k - 1) \div 16) + 1] \div P2w((k - 1) % 16)) % 2])
LimbsOf(bits) ==       \* Len(bits) a multiple of 16
  Strict([i \in 1..(Len(bits) \div 16) |->
     FoldLeft(LAMBDA acc, j : acc + (bits[16 * (i - 1) + j] * P2w(j - 1)), 0, Rng(1, 16))])
\* octets (little-endian) of a sequence of 16-bit limbs, and back (even number of octets)
OctetsOf(ls) == Strict([k \in 1..(2 * Len(ls)) |->
                  IF k % 2 = 1 THEN ls[(k + 1) \div 2] % 256 ELSE ls[k \div 2] \div 256])
LimbsOfOctets(os) ==   \* zero-padded to an even number of octets
  Strict([i \in 1..((Len(os) + 1) \div 2) |-> os[2 * i - 1] + (256 * (IF 2 * i <= Len(os) THEN os[2 * i] ELSE 0))])

wRev(w) == LimbsOfOctets(Reverse(OctetsOf(w)))                     \* reverse of octets
wBitrev(w) == LimbsOf(Reverse(BitsOf(w)))                          \* reverse of bits
wWeight(w) == FoldLeft(LAMBDA acc, b : acc + b, 0, BitsOf(w))      \* number of non-zero bits
wParity(w) == wWeight(w) % 2                                       \* sum of the bits modulo 2
\* length of the run of zero low / high bits (the whole width for the zero word)
wCTZ(w) == LET bs == BitsOf(w)
           IN FoldLeft(LAMBDA acc, k : IF bs[k] = 1 /\ acc = Len(bs) THEN k - 1 ELSE acc, Len(bs), Rng(1, Len(bs)))
wCLZ(w) == LET bs == Reverse(BitsOf(w))
           IN FoldLeft(LAMBDA acc, k : IF bs[k] = 1 /\ acc = Len(bs) THEN k - 1 ELSE acc, Len(bs), Rng(1, Len(bs)))
\* bits of the low half go to the even positions, bits of the high half to the odd positions
wShuffle(w) == LET bs == BitsOf(w)  h == Len(bs) \div 2
               IN LimbsOf(Strict([k \in 1..(2 * h) |-> IF k % 2 = 1 THEN bs[(k + 1) \div 2] ELSE bs[h + (k \div 2)]]))
\* even bits are gathered in the low half, odd bits in the high half
wDeshuffle(w) == LET bs == BitsOf(w)  h == Len(bs) \div 2
                 IN LimbsOf(Strict([k \in 1..(2 * h) |-> IF k <= h THEN bs[2 * k - 1] ELSE bs[2 * (k - h)]]))
\* -w^{-1} mod 2^Wd  (w odd)
wNegInv(w) == LET Wd == 16 * Len(w)  B == PowerOf2(Wd)
              IN To16(Sub2(B, ModInv(From16(w), B)), Len(w))
\* cyclic shifts by 0 < d < Wd towards the high / low bits
wRotHi(w, d) == LET bs == BitsOf(w)  Wd == Len(bs)
                IN LimbsOf(Strict([k \in 1..Wd |-> bs[(((k - 1) + Wd - d) % Wd) + 1]]))
wRotLo(w, d) == LET bs == BitsOf(w)  Wd == Len(bs)
                IN LimbsOf(Strict([k \in 1..Wd |-> bs[(((k - 1) + d) % Wd) + 1]]))

\* uNNFrom: [count] octets -> [(count + Wd/8 - 1) / (Wd/8)] words (little-endian, zero padded), as limbs
wFrom(octs, Wd) == LET ow == Wd \div 8  nw == (Len(octs) + ow - 1) \div ow
                   IN LimbsOfOctets(octs \o Zeros(nw * ow - Len(octs)))
\* uNNTo: the first count octets of the little-endian serialisation of the words
wTo(ls, count) == SubSeq(OctetsOf(ls), 1, count)
\* uNNRev2: octet reversal of every word of an array (ls = limbs of the whole array)
wRev2(ls, Wd) == LET lw == Wd \div 16  cnt == Len(ls) \div lw
                 IN Concat([i \in 1..cnt |-> wRev(SubSeq(ls, (i - 1) * lw + 1, i * lw))])

\* dispatch by function name; integer results for Weight, Parity, CTZ, CLZ, limb sequences otherwise
WordFnInt(fn, w) ==
  CASE fn = "Weight" -> wWeight(w)
    [] fn = "Parity" -> wParity(w)
    [] fn = "CTZ" -> wCTZ(w)
    [] fn = "CLZ" -> wCLZ(w)
WordFnW(fn, w) ==
  CASE fn = "Rev" -> wRev(w)
    [] fn = "Rev_" -> wRev(w)                \* u64Rev_: the macro edition of u64Rev ("reverse of the octets of a u64 word")
    [] fn = "Bitrev" -> wBitrev(w)
    [] fn = "Shuffle" -> wShuffle(w)
    [] fn = "Deshuffle" -> wDeshuffle(w)
    [] fn = "NegInv" -> wNegInv(w)
IsIntFn(fn) == fn \in {"Weight", "Parity", "CTZ", "CLZ"}
IsWFn(fn) == fn \in {"Rev", "Rev_", "Bitrev", "Shuffle", "Deshuffle", "NegInv"}
=============================================================================
