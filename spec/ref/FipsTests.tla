----------------------------- MODULE FipsTests -----------------------------
(* The four statistical tests of FIPS 140-2 (section 4.9.1 of the 2001 edition) as stated in
   include/bee2/core/rng.h, section rng-stat: deterministic predicates of a 2500-octet buffer
   = a sequence of 20000 binary symbols.

     rngTestFIPS1 (monobit)   S = number of ones;                       passed iff 9725 < S < 10275
     rngTestFIPS2 (poker)     the sequence is split into 5000 tetrads read as numbers 0..15,
                              S_i = number of occurrences of i,
                              S = 16 * sum S_i^2 - 5000^2;              passed iff 10800 < S < 230850
     rngTestFIPS3 (runs)      runs = MAXIMAL sequences of repeated neighbouring bits; S_i = number
                              of runs of length i, S_6+ = S_6 + S_7 + ...; passed iff for the runs
                              of zeros AND for the runs of ones
                              S_1 in [2315, 2685], S_2 in [1114, 1386], S_3 in [527, 723],
                              S_4 in [240, 384], S_5 and S_6+ in [103, 209]
     rngTestFIPS4 (long runs) passed iff there is no run of length 26 or more

   Bit number i (rng.h: wwTestBit of the buffer read as a word array, index i) is, for the little-endian octet
   representation of words, bit i mod 8 of octet i div 8 (least significant bit first).  The
   tetrads are the low and the high half of every octet; the poker statistic depends only on the
   multiset of tetrad values.

   Runs are defined declaratively: position p (1-based) STARTS a run iff p = 1 or bit p differs
   from bit p - 1; the run starting at p ends just before the next start (or at the end). *)
EXTENDS Bytes, FiniteSets

NBits == 20000
NOctets == 2500
Pow2 == <<1, 2, 4, 8, 16, 32, 64, 128>>
\* bits of the buffer, 1-based: Bits(buf)[p] = bit number p - 1
Bits(buf) == [p \in 1..(8 * Len(buf)) |-> (buf[((p - 1) \div 8) + 1] \div Pow2[((p - 1) % 8) + 1]) % 2]

Weight8 == [x \in 0..255 |-> FoldLeft(LAMBDA a, k : a + ((x \div Pow2[k]) % 2), 0, Upto(8))]
Ones(buf) == FoldLeft(LAMBDA a, x : a + Weight8[x], 0, buf)

\* occurrences of the tetrad values: a function 0..15 -> Nat
TetradCounts(buf) == FoldLeft(LAMBDA c, x : LET lo == x % 16   hi == x \div 16
                                            IN IF lo = hi THEN [c EXCEPT ![lo] = @ + 2]
                                               ELSE [c EXCEPT ![lo] = @ + 1, ![hi] = @ + 1],
                              [v \in 0..15 |-> 0], buf)
SumSq(c) == FoldLeft(LAMBDA a, v : a + (c[v - 1] * c[v - 1]), 0, Upto(16))
PokerS(buf) == (16 * SumSq(TetradCounts(buf))) - 25000000

\* the runs of a bit sequence: sequence of records [b, len] in order of appearance
RunsOf(bits) ==
  LET n == Len(bits)
      starts == SelectSeq(Upto(n), LAMBDA p : p = 1 \/ bits[p] # bits[p - 1])
      m == Len(starts)
  IN [k \in 1..m |-> [b |-> bits[starts[k]],
                      len |-> (IF k < m THEN starts[k + 1] ELSE n + 1) - starts[k]]]
\* S_j for bit value b, j = 1..5; j = 6 stands for 6+
RunCount(runs, b, j) ==
  Cardinality({k \in 1..Len(runs) : runs[k].b = b /\ (IF j < 6 THEN runs[k].len = j ELSE runs[k].len >= 6)})
RunTable(runs) == [b \in 0..1 |-> [j \in 1..6 |-> RunCount(runs, b, j)]]
LongestRun(runs) == FoldLeft(LAMBDA a, r : IF r.len > a THEN r.len ELSE a, 0, runs)

RunLo == <<2315, 1114, 527, 240, 103, 103>>
RunHi == <<2685, 1386, 723, 384, 209, 209>>

\* all statistics of a buffer at once (each evaluated once per line)
Stats(buf) == LET runs == RunsOf(Bits(buf))
              IN [ones |-> Ones(buf), poker |-> PokerS(buf), runs |-> RunTable(runs),
                  longest |-> LongestRun(runs), nruns |-> Len(runs)]

Pass1(st) == 9725 < st.ones /\ st.ones < 10275
Pass2(st) == 10800 < st.poker /\ st.poker < 230850
Pass3(st) == \A b \in 0..1 : \A j \in 1..6 : RunLo[j] <= st.runs[b][j] /\ st.runs[b][j] <= RunHi[j]
Pass4(st) == st.longest < 26

Fips1(buf) == Pass1(Stats(buf))
Fips2(buf) == Pass2(Stats(buf))
Fips3(buf) == Pass3(Stats(buf))
Fips4(buf) == Pass4(Stats(buf))

-----------------------------------------------------------------------------
(* Anchors (evaluated by TLC in spec/ref/MiscVectors): hand-computable buffers. *)
RepBuf(x) == [i \in 1..NOctets |-> x]
\* 0x55 = bits 1,0,1,0,...: 20000 runs of length 1; ones = 10000; tetrads all 5
Anchor55 == LET st == Stats(RepBuf(85))
            IN /\ st.ones = 10000 /\ st.nruns = 20000 /\ st.longest = 1
               /\ st.runs[0] = <<10000, 0, 0, 0, 0, 0>> /\ st.runs[1] = <<10000, 0, 0, 0, 0, 0>>
               /\ st.poker = (16 * 25000000) - 25000000
               /\ Pass1(st) /\ ~Pass2(st) /\ ~Pass3(st) /\ Pass4(st)
\* 0x0F = bits 1,1,1,1,0,0,0,0: 2500 runs of four ones, 2500 runs of four zeros
Anchor0F == LET st == Stats(RepBuf(15))
            IN /\ st.ones = 10000 /\ st.nruns = 5000 /\ st.longest = 4
               /\ st.runs[0] = <<0, 0, 0, 2500, 0, 0>> /\ st.runs[1] = <<0, 0, 0, 2500, 0, 0>>
               /\ st.poker = (16 * 2 * 2500 * 2500) - 25000000
\* 0x00: one run of 20000 zeros
Anchor00 == LET st == Stats(RepBuf(0))
            IN /\ st.ones = 0 /\ st.nruns = 1 /\ st.longest = 20000
               /\ st.runs[0] = <<0, 0, 0, 0, 0, 1>> /\ st.runs[1] = <<0, 0, 0, 0, 0, 0>>
               /\ ~Pass1(st) /\ ~Pass2(st) /\ ~Pass3(st) /\ ~Pass4(st)
\* 0x01 0x00 0x00 0xE0 (bits: 1, then 28 zeros, then 3 ones) repeated: per 32 bits a run of ones of length 4
\* (3 + 1 across the repetition joint) except the first (1) and the last (3), and a run of 28 zeros
Anchor4 == LET st == Stats([i \in 1..NOctets |-> <<1, 0, 0, 224>>[((i - 1) % 4) + 1]])
           IN /\ st.ones = 2500 /\ st.longest = 28 /\ st.nruns = 1251
              /\ st.runs[0] = <<0, 0, 0, 0, 0, 625>> /\ st.runs[1] = <<1, 0, 1, 624, 0, 0>>
\* laws: the run lengths add up to the number of bits; zeros + ones = bits; the poker statistic is a multiple of 32
StatLaws(buf) == LET bits == Bits(buf)   runs == RunsOf(bits)
                 IN /\ FoldLeft(LAMBDA a, r : a + r.len, 0, runs) = 8 * Len(buf)
                    /\ \A k \in 1..(Len(runs) - 1) : runs[k].b # runs[k + 1].b
                    /\ FoldLeft(LAMBDA a, r : a + (IF r.b = 1 THEN r.len ELSE 0), 0, runs) = Ones(buf)
                    /\ Len(buf) = NOctets => PokerS(buf) % 32 = 0
=============================================================================
