------------------------------- MODULE EC2Int -------------------------------
(* EC2 over a small binary field K = GF(2)[t]/(g(t)), deg g = d <= 14: an element is the TLC integer whose bit i is
   the coefficient of t^i; the field descriptor is [d |-> d, g |-> g] with g the integer of the polynomial g
   (bit d set).  Scalars are TLC integers >= 0.
   Multiplication is the definition (shift-and-add with reduction by g at every step), the inverse is
   a^(2^d - 2); ref/EC2Vectors.tla checks a * KInv(a) = 1 for every a # 0 and that g is irreducible.
   Usage:  E2I == INSTANCE EC2Int   then  E2I!EAdd([f |-> [d |-> 5, g |-> 37], A |-> 1, B |-> 1], P, Q) ... *)
EXTENDS Integers, Sequences, SequencesExt, Bitwise

KIdx == <<0, 1, 2, 3, 4, 5, 6, 7, 8, 9, 10, 11, 12, 13, 14, 15>>
KBitsOf(d) == SubSeq(KIdx, 1, d)
KAdd(a, b) == a ^^ b
\* a * t
KXt(s, f) == LET u == 2 * s IN IF u >= 2 ^ f.d THEN u ^^ f.g ELSE u
\* sum over the bits i of b of a t^i
KMul(a, b, f) ==
  FoldLeft(LAMBDA acc, i : <<KXt(acc[1], f), IF (b \div (2 ^ i)) % 2 = 1 THEN acc[2] ^^ acc[1] ELSE acc[2]>>,
           <<a, 0>>, KBitsOf(f.d))[2]
\* a^(2^d - 2) = product of a^(2^i), i = 1 .. d-1
KInv(a, f) ==
  FoldLeft(LAMBDA acc, i : LET s == KMul(acc[1], acc[1], f) IN <<s, KMul(acc[2], s, f)>>, <<a, 1>>, KBitsOf(f.d - 1))[2]
\* trace of K over GF(2): a + a^2 + ... + a^(2^(d-1)), 0 or 1
KTr(a, f) ==
  FoldLeft(LAMBDA acc, i : LET s == KMul(acc[1], acc[1], f) IN <<s, acc[2] ^^ s>>, <<a, a>>, KBitsOf(f.d - 1))[2]
\* number of bits of k >= 0 (k < 2^31)
KNBits(k) == FoldLeft(LAMBDA acc, i : IF k >= 2 ^ (i - 1) THEN i ELSE acc, 0, <<1,2,3,4,5,6,7,8,9,10,11,12,13,14,15,16,
                      17,18,19,20,21,22,23,24,25,26,27,28,29,30,31>>)
\* bits of k, most significant first
KBits(k) == LET n == KNBits(k) IN [i \in 1..n |-> (k \div (2 ^ (n - i))) % 2]

INSTANCE EC2 WITH FAdd <- KAdd, FMul <- KMul, FInv <- KInv,
                  FIn <- LAMBDA a, f : a >= 0 /\ a < 2 ^ f.d,
                  FIsZero <- LAMBDA a : a = 0,
                  F0 <- 0, F1 <- 1,
                  SBits <- KBits
=============================================================================
