--------------------------------- MODULE WW ---------------------------------
(* include/bee2/math/ww.h as mathematics.  A binary word [n]a is the sequence of its 16-bit limbs
   (little-endian, n*W/16 limbs); as a number it is From16(a).  W = bits per machine word.
   Both editions (SAFE / FAST) of wwEq, wwCmp, wwCmp2, wwCmpW, wwIsZero, wwIsW, wwIsRepW have this
   single specification. *)
EXTENDS BigNat, WordOps

LW(W) == W \div 16                                     \* limbs per machine word
XorLimbs(a, b) == Strict([i \in 1..Len(a) |-> a[i] ^^ b[i]])

wwCopy(a) == a
wwSwap(a, b) == <<b, a>>
wwEq(a, b) == a = b
\* 1 if a > b, -1 if a < b, 0 if a = b (reverse lexicographic = comparison of the numbers)
wwCmp(a, b) == Cmp(From16(a), From16(b))
wwCmp2(a, b) == Cmp(From16(a), From16(b))              \* different lengths: zero extension
wwCmpW(a, w) == Cmp(From16(a), From16(w))
wwXor(a, b) == XorLimbs(a, b)
wwSetZero(L) == Zeros(L)
wwSetW(L, w) == IF L = 0 THEN <<>> ELSE w \o Zeros(L - Len(w))       \* a[0] <- w, the rest 0 (n > 0 or w = 0)
wwRepW(L, w) == Strict([i \in 1..L |-> w[((i - 1) % Len(w)) + 1]])
wwIsZero(a) == \A i \in 1..Len(a) : a[i] = 0
wwIsW(a, w) == Eq(From16(a), From16(w))                \* a[0] == w and the other words are 0; empty a is 0
wwIsRepW(a, w) == IF Len(a) = 0 THEN wwIsZero(w) ELSE a = wwRepW(Len(a), w)
\* size of the significant part in machine words / octets / bits
wwWordSize(a, W) == (BitLen(From16(a)) + W - 1) \div W
wwOctetSize(a) == (BitLen(From16(a)) + 7) \div 8
wwBitSize(a) == BitLen(From16(a))
\* bits
wwTestBit(a, pos) == Bit(From16(a), pos) = 1
wwGetBits(a, pos, width) == ModPow2(Shr(From16(a), pos), width)     \* as a number
BitsSet(bs, pos, vals) == Strict([k \in 1..Len(bs) |-> IF k - 1 >= pos /\ k - 1 < pos + Len(vals)
                                                          THEN vals[k - pos] ELSE bs[k]])
wwSetBit(a, pos, val) == LimbsOf(BitsSet(BitsOf(a), pos, <<val>>))
wwSetBits(a, pos, width, v) == LimbsOf(BitsSet(BitsOf(a), pos, SubSeq(BitsOf(v), 1, width)))
wwFlipBit(a, pos) == LET bs == BitsOf(a) IN LimbsOf(BitsSet(bs, pos, <<1 - bs[pos + 1]>>))
\* run of zero bits at the low / high end (the whole length for the zero word)
wwLoZeroBits(a) == IF Len(a) = 0 THEN 0 ELSE wCTZ(a)
wwHiZeroBits(a) == 16 * Len(a) - BitLen(From16(a))
\* shifts: division / multiplication by 2^shift modulo 2^(nW)
wwShLo(a, shift) == To16(Shr(From16(a), shift), Len(a))
wwShHi(a, shift) == To16(Shl(From16(a), shift), Len(a))
\* with a carry word: the freed positions are filled with the bits of carry, the result word is made of
\* the bits shifted out last.  On the (n+2)-word number  carry:a:0  the shift towards the low end gives
\* <<result, returned word>>; on  0:a:carry  the shift towards the high end likewise.
wwShLoCarry(a, shift, carry, W) ==
  LET L == Len(a)
      x == Shr(From16(Zeros(LW(W)) \o a \o carry), shift)
      l == To16(x, LW(W) + L)
  IN <<SubSeq(l, LW(W) + 1, LW(W) + L), SubSeq(l, 1, LW(W))>>
wwShHiCarry(a, shift, carry, W) ==
  LET L == Len(a)
      x == Shl(From16(carry \o a), shift)
      l == To16(x, 2 * LW(W) + L)
  IN <<SubSeq(l, LW(W) + 1, LW(W) + L), SubSeq(l, LW(W) + L + 1, 2 * LW(W) + L)>>
\* clear the bits 0..min(pos, nW)-1 / the bits pos..nW-1
wwTrimLo(a, pos) == LET x == From16(a) IN To16(Shl(Shr(x, pos), pos), Len(a))
wwTrimHi(a, pos) == To16(ModPow2(From16(a), pos), Len(a))
=============================================================================
