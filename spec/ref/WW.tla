--------------------------------- MODULE WW ---------------------------------
(* include/bee2/math/ww.h as mathematics.  A binary word [n]a is the sequence of its 16-bit limbs
   (little-endian, n*W/16 limbs); as a number it is From16(a).  W = bits per machine word.
   Both editions (SAFE / FAST) of wwEq, wwCmp, wwCmp2, wwCmpW, wwIsZero, wwIsW, wwIsRepW have this
   single specification. *)
EXTENDS BigNat, WordOps

LW(W) == W \div 16                                     \* limbs per machine word
XorLimbs(a, b) == Strict([i \in 1..Len(a) |-> a[i] ^^ b[i]])

wwCopy(a) == a
wwSwap(a, b) == <<b, a>>
wwEq(a, b) == a = b
\* 1 if a > b, -1 if a < b, 0 if a = b (reverse lexicographic = comparison of the numbers)
wwCmp(a, b) == Cmp(From16(a), From16(b))
wwCmp2(a, b) == Cmp(From16(a), From16(b))              \* different lengths: zero extension
wwCmpW(a, w) == Cmp(From16(a), From16(w))
wwXor(a, b) == XorLimbs(a, b)
wwSetZero(L) == Zeros(L)
wwSetW(L, w) == IF L = 0 THEN <<>> ELSE w \o Zeros(L - Len(w))       \* a[0] <- w, the rest 0 (n > 0 or w = 0)
wwRepW(L, w) == Strict([i \in 1..L |-> w[((i - 1) % Len(w)) + 1]])
wwIsZero(a) == \A i \in 1..Len(a) : a[i] = 0
wwIsW(a, w) == Eq(From16(a), From16(w))                \* a[0] == w and the other words are 0; empty a is 0
wwIsRepW(a, w) == IF Len(a) = 0 THEN wwIsZero(w) ELSE a = wwRepW(Len(a), w)
\* size of the significant part in machine words / octets / bits
wwWordSize(a, W) == (BitLen(From16(a)) + W - 1) \div W
wwOctetSize(a) == (BitLen(From16(a)) + 7) \div 8
wwBitSize(a) == BitLen(From16(a))
\* bits
wwTestBit(a, pos) == Bit(From16(a), pos) = 1
wwGetBits(a, pos, width) == ModPow2(Shr(From16(a), pos), width)     \* as a number
BitsSet(bs, pos, vals) == Strict([k \in 1..Len(bs) |-> IF k - 1 >= pos /\ k - 1 < pos + Len(vals)
                                                          THEN vals[k - pos] ELSE bs[k]])
wwSetBit(a, pos, val) == LimbsOf(BitsSet(BitsOf(a), pos, <<val>>))
wwSetBits(a, pos, width, v) == LimbsOf(BitsSet(BitsOf(a), pos, SubSeq(BitsOf(v), 1, width)))
wwFlipBit(a, pos) == LET bs == BitsOf(a) IN LimbsOf(BitsSet(bs, pos, <<1 - bs[pos + 1]>>))
\* run of zero bits at the low / high end (the whole length for the zero word)
wwLoZeroBits(a) == IF Len(a) = 0 THEN 0 ELSE wCTZ(a)
wwHiZeroBits(a) == 16 * Len(a) - BitLen(From16(a))
\* shifts: division / multiplication by 2^shift modulo 2^(nW)
wwShLo(a, shift) == To16(Shr(From16(a), shift), Len(a))
wwShHi(a, shift) == To16(Shl(From16(a), shift), Len(a))
\* with a carry word: the freed positions are filled with the bits of carry, the result word is made of
\* the bits shifted out last.  On the (n+2)-word number  carry:a:0  the shift towards the low end gives
\* <<result, returned word>>; on  0:a:carry  the shift towards the high end likewise.
wwShLoCarry(a, shift, carry, W) ==
  LET L == Len(a)
      x == Shr(From16(Zeros(LW(W)) \o a \o carry), shift)
      l == To16(x, LW(W) + L)
  IN <<SubSeq(l, LW(W) + 1, LW(W) + L), SubSeq(l, 1, LW(W))>>
wwShHiCarry(a, shift, carry, W) ==
  LET L == Len(a)
      x == Shl(From16(carry \o a), shift)
      l == To16(x, 2 * LW(W) + L)
  IN <<SubSeq(l, LW(W) + 1, LW(W) + L), SubSeq(l, LW(W) + L + 1, 2 * LW(W) + L)>>
\* clear the bits 0..min(pos, nW)-1 / the bits pos..nW-1
wwTrimLo(a, pos) == LET x == From16(a) IN To16(Shl(Shr(x, pos), pos), Len(a))
wwTrimHi(a, pos) == To16(ModPow2(From16(a), pos), Len(a))
\* ---- wwNAF(naf, a, n, w): window NAF of [n]a, 2 <= w < B_PER_W.  ww.h: NAF(a, w) is the sequence (a_0, ..., a_{l-1}) with
\*   (1) a_i in {0, +-1, +-3, ..., +-(2^(w-1) - 1)};   (2) a # 0 => a_{l-1} # 0;   (3) a = sum a_i 2^i;
\*   (4) among any w consecutive symbols at most one is non-zero;   l <= wwBitSize(a) + 1;
\*   (5) a suffix  alpha, 0 (w-1 times), 1  with alpha < 0 is REPLACED by  beta, 0 (w-2 times), 1,  beta = 2^(w-1) + alpha > 0
\*       (the only place where (4) is given up; the result is one symbol shorter).
\* The width-w NAF of a number is unique, so (1)-(4) of the sequence with the replacement undone, together with "the
\* replacement was made whenever it applies", determine the result completely.
\* Encoding (ww.h): zero symbol = one binary symbol 0; a non-zero symbol = w binary symbols <sign><|a_i|>; the code of a_{l-1}
\* comes first (lowest bit numbers of [2n+1]naf), the code of a_0 last.  A w-symbol code must be told from the one-symbol code
\* of zero by its first symbol: read as a w-bit number the code is  sign * 2^(w-1) + |a_i|  (|a_i| is odd: its first bit is 1).
\* A symbol is <<sign, magnitude>>, sign in {-1, 0, 1}, magnitude a BigNat value (w may be as large as 63).
NafBitAt(bs, k) == IF k >= 1 /\ k <= Len(bs) THEN bs[k] ELSE 0
BitsNat(bs) == From16(LimbsOf(bs \o Zeros((16 - (Len(bs) % 16)) % 16)))
\* <<symbols in the order of decoding (a_{l-1} first), number of binary symbols consumed>>
NafDecode(bs, l, w) ==
  FoldLeft(LAMBDA st, i :
             IF NafBitAt(bs, st[2] + 1) = 0 THEN <<Append(st[1], <<0, Zero>>), st[2] + 1>>
             ELSE <<Append(st[1], <<IF NafBitAt(bs, st[2] + w) = 1 THEN -1 ELSE 1,
                                    Norm(BitsNat(Strict([j \in 1..(w - 1) |-> NafBitAt(bs, st[2] + j)])))>>),
                    st[2] + w>>,
           <<<<>>, 0>>, Rng(1, l))
NafSum(D, sg) == FoldLeft(LAMBDA acc, i : IF D[i][1] = sg THEN Add(acc, Shl(D[i][2], i - 1)) ELSE acc, Zero, Rng(1, Len(D)))
NafValueIs(D, a) == Eq(NafSum(D, 1), Add(NafSum(D, -1), a))
NafDigitOk(d, w) == IF d[1] = 0 THEN IsZero(d[2]) ELSE IsOdd(d[2]) /\ BitLen(d[2]) <= w - 1
\* (4): the distance between two non-zero symbols is at least w
NafSparse(D, w) ==
  FoldLeft(LAMBDA st, i : IF D[i][1] = 0 THEN st ELSE <<st[1] /\ (st[2] = 0 \/ i - st[2] >= w), i>>, <<TRUE, 0>>, Rng(1, Len(D)))[1]
NafZerosBetween(D, lo, hi) == \A i \in lo..hi : D[i][1] = 0
\* D = (a_0, ..., a_{l-1}) as D[1..l]
NafSeqOk(D, a, w) ==
  LET l == Len(D)
      \* the top of D has the replaced form  beta > 0, 0 (w-2 times), 1
      replaced == l >= w /\ D[l] = <<1, One>> /\ D[l - w + 1][1] = 1 /\ NafZerosBetween(D, l - w + 2, l - 1)
      \* ... undone:  alpha = beta - 2^(w-1) < 0, 0 (w-1 times), 1
      D0 == IF replaced
            THEN [i \in 1..(l + 1) |-> IF i = l - w + 1 THEN <<-1, Norm(Sub2(PowerOf2(w - 1), D[i][2]))>>
                                        ELSE IF i = l THEN <<0, Zero>> ELSE IF i = l + 1 THEN <<1, One>> ELSE D[i]]
            ELSE D
      \* the replacement applies to D but was not made
      missed == l >= w + 1 /\ D[l] = <<1, One>> /\ D[l - w][1] = -1 /\ NafZerosBetween(D, l - w + 1, l - 1)
  IN /\ \A i \in 1..l : NafDigitOk(D[i], w)
     /\ \A i \in 1..Len(D0) : NafDigitOk(D0[i], w)
     /\ NafValueIs(D, a)
     /\ (IsZero(a) \/ (l >= 1 /\ D[l][1] # 0))
     /\ NafSparse(D0, w)
     /\ ~missed
     /\ l <= BitLen(a) + 1
\* naf = the 16-bit limbs of [2n+1]naf, l = the returned number of symbols; nothing but the code is stored in naf
wwNAFOk(naf, l, a, w) ==
  LET bs == BitsOf(naf)
  IN /\ l >= 0 /\ l <= BitLen(From16(a)) + 1
     /\ LET dec == NafDecode(bs, l, w)
        IN /\ dec[2] <= Len(bs)
           /\ \A k \in (dec[2] + 1)..Len(bs) : bs[k] = 0
           /\ NafSeqOk(Reverse(dec[1]), From16(a), w)
=============================================================================
