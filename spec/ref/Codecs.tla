------------------------------- MODULE Codecs -------------------------------
(* Text and command codecs of bee2/core, written from the headers (oid.h, hex.h, b64.h, dec.h,
   apdu.h) and the documents they cite (X.690 8.19, RFC 4648, ISO/IEC 7812-1 Luhn, Damm 2004,
   STB 34.101.79 12.1 / ISO 7816-4 command cases), not from the C sources.
   Character strings are sequences of character codes 1..255 (a C string cannot hold 0).
   Partial functions return Der!Fail or [ok |-> TRUE, ...].                                   *)
EXTENDS Der

\* ================================================================ Oid (oid.h)
OidIsValid(str) == OidStrIsValid(str)
OidToDer(str) == OidEnc(str)                 \* octets of the DER code (with the tag octet) or Fail
\* oidFromDER: [count]der must be exactly one OID code
OidFromDer(s) == LET d == OidDec(s) IN
                 IF d.ok /\ d.n = Len(s) THEN [ok |-> TRUE, len |-> Len(d.oid), oid |-> d.oid] ELSE Fail

\* ================================================================ Hex (hex.h, RFC 4648 base16)
HexVal(c) == IF c >= 48 /\ c <= 57 THEN c - 48
             ELSE IF c >= 65 /\ c <= 70 THEN c - 55
             ELSE IF c >= 97 /\ c <= 102 THEN c - 87
             ELSE -1
HexIsValid(s) == Len(s) % 2 = 0 /\ \A i \in 1..Len(s) : HexVal(s[i]) >= 0
HexUp(d) == IF d < 10 THEN 48 + d ELSE 55 + d
HexLo(d) == IF d < 10 THEN 48 + d ELSE 87 + d
HexFrom(buf) == [i \in 1..(2 * Len(buf)) |->
                   LET o == buf[(i + 1) \div 2] IN IF i % 2 = 1 THEN HexUp(o \div 16) ELSE HexUp(o % 16)]
HexTo(s) == [i \in 1..(Len(s) \div 2) |-> (HexVal(s[(2 * i) - 1]) * 16) + HexVal(s[2 * i])]
HexFromRev(buf) == HexFrom(Reverse(buf))
HexToRev(s) == Reverse(HexTo(s))
HexUpper(s) == [i \in 1..Len(s) |-> HexUp(HexVal(s[i]))]
HexLower(s) == [i \in 1..Len(s) |-> HexLo(HexVal(s[i]))]
HexEq(buf, s) == buf = HexTo(s)
HexEqRev(buf, s) == buf = HexToRev(s)

\* ================================================================ Base64 (b64.h, RFC 4648 4)
B64Val(c) == IF c >= 65 /\ c <= 90 THEN c - 65
             ELSE IF c >= 97 /\ c <= 122 THEN c - 71
             ELSE IF c >= 48 /\ c <= 57 THEN c + 4
             ELSE IF c = 43 THEN 62
             ELSE IF c = 47 THEN 63
             ELSE -1
B64Chr(v) == IF v < 26 THEN 65 + v ELSE IF v < 52 THEN 71 + v ELSE IF v < 62 THEN v - 4 ELSE IF v = 62 THEN 43 ELSE 47
Pad == 61
\* number of '=' at the end (at most 2 are padding; any further '=' is an ordinary, invalid, symbol)
B64PadLen(s) == IF Len(s) >= 1 /\ s[Len(s)] = Pad
                THEN (IF Len(s) >= 2 /\ s[Len(s) - 1] = Pad THEN 2 ELSE 1) ELSE 0
B64IsValid(s) ==
  LET p == B64PadLen(s)
      m == Len(s) - p
  IN /\ Len(s) % 4 = 0
     /\ \A i \in 1..m : B64Val(s[i]) >= 0
     /\ (p = 1 => B64Val(s[m]) % 4 = 0)        \* abc= : 16 data bits, the 2 low bits of c are zero
     /\ (p = 2 => B64Val(s[m]) % 16 = 0)       \* ab== : 8 data bits, the 4 low bits of b are zero
B64Block(o, k) ==      \* k = 1..3 octets of the block o -> 4 symbols
  LET b1 == o[1]
      b2 == IF k >= 2 THEN o[2] ELSE 0
      b3 == IF k >= 3 THEN o[3] ELSE 0
  IN << B64Chr(b1 \div 4),
        B64Chr(((b1 % 4) * 16) + (b2 \div 16)),
        IF k >= 2 THEN B64Chr(((b2 % 16) * 4) + (b3 \div 64)) ELSE Pad,
        IF k >= 3 THEN B64Chr(b3 % 64) ELSE Pad >>
B64From(buf) == Concat([j \in 1..((Len(buf) + 2) \div 3) |->
                          LET k == Min2(3, Len(buf) - (3 * (j - 1))) IN B64Block(Sub(buf, (3 * j) - 2, (3 * j) - 3 + k), k)])
\* pre B64IsValid(s)
B64To(s) ==
  LET p == B64PadLen(s)
      q == [j \in 1..(Len(s) \div 4) |->
              LET v == [i \in 1..4 |-> LET c == s[(4 * (j - 1)) + i] IN IF c = Pad THEN 0 ELSE B64Val(c)]
              IN << (v[1] * 4) + (v[2] \div 16), ((v[2] % 16) * 16) + (v[3] \div 4), ((v[3] % 4) * 64) + v[4] >>]
      all == Concat(q)
  IN TakeN(all, Len(all) - p)

\* ================================================================ Dec (dec.h)
DecIsValid(s) == \A i \in 1..Len(s) : IsDigit(s[i])
DecCLZ(s) == LET k == SelectInSeq(s, LAMBDA c : c # 48) IN IF k = 0 THEN Len(s) ELSE k - 1
\* the low `count` decimal digits of the u32 w (zero-padded on the left)
DecFromU32(count, w) ==
  LET st == FoldLeft(LAMBDA acc, i : LET qr == WDivMod10(acc[1]) IN << qr[1], <<48 + qr[2]>> \o acc[2] >>,
                     << w, <<>> >>, Upto(count))
  IN st[2]
\* value modulo 2^32
DecToU32(s) == FoldLeft(LAMBDA w, c : LET l == (w[1] * 10) + (c - 48) IN << l % 65536, ((w[2] * 10) + (l \div 65536)) % 65536 >>,
                        W0, s)
\* Luhn (ISO/IEC 7812-1): going leftwards from the check digit, every second digit is doubled and
\* the digits of the products are added; a string with its check digit sums to 0 modulo 10
LuhnDouble(d) == IF 2 * d > 9 THEN (2 * d) - 9 ELSE 2 * d
LuhnSum(s, firstDoubled) ==        \* firstDoubled: is the rightmost digit of s doubled?
  FoldLeft(LAMBDA acc, i : LET d == s[Len(s) + 1 - i] - 48
                               dbl == IF firstDoubled THEN i % 2 = 1 ELSE i % 2 = 0
                           IN acc + (IF dbl THEN LuhnDouble(d) ELSE d),
           0, Upto(Len(s)))
DecLuhnCalc(s) == 48 + ((10 - (LuhnSum(s, TRUE) % 10)) % 10)
DecLuhnVerify(s) == LuhnSum(s, FALSE) % 10 = 0
\* Damm (2004): totally anti-symmetric quasigroup of order 10 (table of the original paper)
DammT == << <<0, 3, 1, 7, 5, 9, 8, 6, 4, 2>>, <<7, 0, 9, 2, 1, 5, 4, 8, 6, 3>>, <<4, 2, 0, 6, 8, 7, 1, 3, 5, 9>>,
            <<1, 7, 5, 0, 9, 8, 3, 4, 2, 6>>, <<6, 1, 2, 3, 0, 4, 5, 9, 7, 8>>, <<3, 6, 7, 4, 2, 0, 9, 5, 8, 1>>,
            <<5, 8, 6, 9, 7, 2, 0, 1, 3, 4>>, <<8, 9, 4, 5, 3, 6, 2, 0, 1, 7>>, <<9, 4, 3, 8, 6, 1, 7, 2, 0, 5>>,
            <<2, 5, 8, 1, 4, 3, 6, 7, 9, 0>> >>
DecDammCalc(s) == 48 + FoldLeft(LAMBDA acc, c : DammT[acc + 1][c - 48 + 1], 0, s)
DecDammVerify(s) == DecDammCalc(s) = 48

\* ================================================================ APDU (apdu.h, STB 34.101.79 12.1)
\* command = [cla, ins, p1, p2, cdf (octets), rdf (expected response length 0..65536)]
CmdIsValid(c) == Len(c.cdf) < 65536 /\ c.rdf >= 0 /\ c.rdf <= 65536
\* rule 4: the forms of Lc and Le agree; the short form is used when both fit it
CmdShort(c) == Len(c.cdf) <= 255 /\ c.rdf <= 256
CmdEnc(c) ==
  LET lc == Len(c.cdf) IN
  <<c.cla, c.ins, c.p1, c.p2>>
  \o (IF lc = 0 THEN <<>>
      ELSE IF CmdShort(c) THEN <<lc>> \o c.cdf
      ELSE <<0, lc \div 256, lc % 256>> \o c.cdf)
  \o (IF c.rdf = 0 THEN <<>>
      ELSE IF CmdShort(c) THEN <<c.rdf % 256>>                        \* 256 -> 0x00
      ELSE IF lc > 0 THEN <<(c.rdf \div 256) % 256, c.rdf % 256>>     \* 65536 -> 0x0000
      ELSE <<0, (c.rdf \div 256) % 256, c.rdf % 256>>)
Le1(o) == IF o = 0 THEN 256 ELSE o
Le2(h, l) == IF h = 0 /\ l = 0 THEN 65536 ELSE (h * 256) + l
Cmd(s, cdf, rdf) == [ok |-> TRUE, cmd |-> [cla |-> s[1], ins |-> s[2], p1 |-> s[3], p2 |-> s[4], cdf |-> cdf, rdf |-> rdf]]
\* the decision table of the command cases (1, 2S, 2E, 3S, 3E, 4S, 4E) by rule 5
CmdDec(s) ==
  IF Len(s) < 4 THEN Fail
  ELSE LET n == Len(s) - 4 IN
       IF n = 0 THEN Cmd(s, <<>>, 0)                                             \* case 1
       ELSE IF n = 1 THEN Cmd(s, <<>>, Le1(s[5]))                                 \* case 2S
       ELSE IF s[5] # 0 THEN                                                      \* short Lc
            LET lc == s[5] IN
            IF n = 1 + lc THEN Cmd(s, Sub(s, 6, 5 + lc), 0)                       \* case 3S
            ELSE IF n = 2 + lc THEN Cmd(s, Sub(s, 6, 5 + lc), Le1(s[Len(s)]))     \* case 4S
            ELSE Fail
       ELSE IF n = 2 THEN Fail
       ELSE IF n = 3 THEN Cmd(s, <<>>, Le2(s[6], s[7]))                           \* case 2E
       ELSE LET lc == (s[6] * 256) + s[7] IN
            IF lc = 0 THEN Fail                                                   \* extended Lc is never 0x0000
            ELSE IF n = 3 + lc THEN Cmd(s, Sub(s, 8, 7 + lc), 0)                  \* case 3E
            ELSE IF n = 5 + lc THEN Cmd(s, Sub(s, 8, 7 + lc), Le2(s[Len(s) - 1], s[Len(s)]))   \* case 4E
            ELSE Fail
\* a code is canonical iff it is what the encoder produces for the decoded command
CmdIsCanonical(s) == LET d == CmdDec(s) IN d.ok /\ CmdEnc(d.cmd) = s

\* response = [sw1, sw2, rdf]
RespIsValid(r) == Len(r.rdf) <= 65536
RespEnc(r) == r.rdf \o <<r.sw1, r.sw2>>
RespDec(s) == IF Len(s) < 2 THEN Fail
              ELSE [ok |-> TRUE, resp |-> [sw1 |-> s[Len(s) - 1], sw2 |-> s[Len(s)], rdf |-> Sub(s, 1, Len(s) - 2)]]

\* ================================================================ bign ECParameters (bign.h, STB 34.101.45 D.11)
\*   SEQ { SIZE(1) version, SEQ { OID bign-primefield, UINT p }, SEQ { OCT a, OCT b, BIT(64) seed },
\*         OCT yG, UINT q, SIZE(1) cofactor OPTIONAL }     with |p| = |a| = |b| = |yG| = |q| in {32, 48, 64} octets.
\* Structural specification: a SEQ of typed fields, every field inside its container, every container
\* filled exactly, the whole input consumed.  Numbers are little-endian octet strings as in bign_params.
OidBignPrimeField == <<49, 46, 50, 46, 49, 49, 50, 46, 48, 46, 50, 46, 48, 46, 51, 52, 46, 49, 48, 49, 46, 52, 53, 46, 52, 46, 49>>
SEQT == <<48>>
ParamsDec(s) ==
  LET o == SeqDec(s, SEQT) IN
  IF ~o.ok \/ o.n # Len(s) THEN Fail ELSE
  LET v == SizeDec2(o.body, <<2>>, <<1>>) IN
  IF ~v.ok THEN Fail ELSE
  LET r1 == DropN(o.body, v.n)
      f == SeqDec(r1, SEQT) IN
  IF ~f.ok THEN Fail ELSE
  LET fo == OidDec2(f.body, OidBignPrimeField) IN
  IF ~fo.ok THEN Fail ELSE
  LET fp == UintDec(DropN(f.body, fo.n), <<2>>) IN
  IF ~fp.ok THEN Fail ELSE
  IF Len(fp.val) \notin {32, 48, 64} \/ fo.n + fp.n # Len(f.body) THEN Fail ELSE
  LET no == Len(fp.val)
      r2 == DropN(r1, f.n)
      c == SeqDec(r2, SEQT) IN
  IF ~c.ok THEN Fail ELSE
  LET ca == OctDec2(c.body, <<4>>, no) IN
  IF ~ca.ok THEN Fail ELSE
  LET cb == OctDec2(DropN(c.body, ca.n), <<4>>, no) IN
  IF ~cb.ok THEN Fail ELSE
  LET cs == BitDec2(DropN(c.body, ca.n + cb.n), <<3>>, 64) IN
  IF ~cs.ok \/ ca.n + cb.n + cs.n # Len(c.body) THEN Fail ELSE
  LET r3 == DropN(r2, c.n)
      g == OctDec2(r3, <<4>>, no) IN
  IF ~g.ok THEN Fail ELSE
  LET q == UintDec2(DropN(r3, g.n), <<2>>, no) IN
  IF ~q.ok THEN Fail ELSE
  LET r4 == DropN(r3, g.n + q.n)
      cof == SizeDec2(r4, <<2>>, <<1>>)
      rest == IF cof.ok THEN Len(r4) - cof.n ELSE Len(r4) IN
  IF rest # 0 THEN Fail ELSE
  [ok |-> TRUE, n |-> o.n, cofactor |-> cof.ok,
   params |-> [l |-> no * 4, p |-> fp.val, a |-> ca.val, b |-> cb.val, seed |-> cs.val, yG |-> g.val, q |-> q.val]]
\* pre: |p| = |a| = |b| = |yG| = |q| = l / 4, the top octets of p and q are not zero
ParamsEnc(P) ==
  SeqEnc(SEQT, SizeEnc(<<2>>, <<1>>)
               \o SeqEnc(SEQT, OidEnc(OidBignPrimeField) \o UintEnc(<<2>>, P.p))
               \o SeqEnc(SEQT, OctEnc(<<4>>, P.a) \o OctEnc(<<4>>, P.b) \o BitEnc(<<3>>, P.seed, 64))
               \o OctEnc(<<4>>, P.yG) \o UintEnc(<<2>>, P.q))

\* ================================================================ CV certificates (btok.h, STB 34.101.79)
\*   SEQ[APPLICATION 33] { SEQ[APPLICATION 78] body, OCT[APPLICATION 55](SIZE(34|48|72|96)) sig }
\*   body = { SIZE[APP 41](0), PSTR[APP 2](8..12) authority, SEQ[APP 73] { OID bign-pubkey, BIT(384|512|768|1024) pubkey },
\*            PSTR[APP 32](8..12) holder, SEQ[APP 76] { OID eIdAccess, OCT(5) } OPTIONAL,
\*            OCT[APP 37](6) from, OCT[APP 36](6) until,
\*            SEQ[APP 5] { SEQ[APP 19] { OID eSignAuthExt, SEQ[APP 76] { OID eSignAccess, OCT(2) } } } OPTIONAL }
\* Structural acceptance only (names, dates and the public key are validated afterwards by btokCVCCheck).
OidBignPubkey == <<49, 46, 50, 46, 49, 49, 50, 46, 48, 46, 50, 46, 48, 46, 51, 52, 46, 49, 48, 49, 46, 52, 53, 46, 50, 46, 49>>   \* 1.2.112.0.2.0.34.101.45.2.1
OidEidAccess == <<49, 46, 50, 46, 49, 49, 50, 46, 48, 46, 50, 46, 48, 46, 51, 52, 46, 49, 48, 49, 46, 55, 57, 46, 54, 46, 49>>   \* 1.2.112.0.2.0.34.101.79.6.1
OidEsignAccess == <<49, 46, 50, 46, 49, 49, 50, 46, 48, 46, 50, 46, 48, 46, 51, 52, 46, 49, 48, 49, 46, 55, 57, 46, 54, 46, 50>>   \* 1.2.112.0.2.0.34.101.79.6.2
OidEsignAuthExt == <<49, 46, 50, 46, 49, 49, 50, 46, 48, 46, 50, 46, 48, 46, 51, 52, 46, 49, 48, 49, 46, 55, 57, 46, 56, 46, 49>>   \* 1.2.112.0.2.0.34.101.79.8.1
\* a sequence of two fields filling the container: OID then OCT(k) -> the octets or Fail
HatDec(body, oid, k) ==
  LET a == OidDec2(body, oid) IN
  IF ~a.ok THEN Fail ELSE
  LET b == OctDec2(DropN(body, a.n), <<4>>, k) IN
  IF ~b.ok \/ a.n + b.n # Len(body) THEN Fail ELSE [ok |-> TRUE, val |-> b.val]
CvcBodyDec(s) ==       \* s begins with the body; returns consumed length and the fields
  LET o == SeqDec(s, <<127, 78>>) IN
  IF ~o.ok THEN Fail ELSE
  LET v == SizeDec2(o.body, <<95, 41>>, <<>>) IN
  IF ~v.ok THEN Fail ELSE
  LET r1 == DropN(o.body, v.n)
      au == PstrDec(r1, <<66>>) IN
  IF ~au.ok THEN Fail ELSE
  IF Len(au.val) < 8 \/ Len(au.val) > 12 THEN Fail ELSE
  LET r2 == DropN(r1, au.n)
      pk == SeqDec(r2, <<127, 73>>) IN
  IF ~pk.ok THEN Fail ELSE
  LET po == OidDec2(pk.body, OidBignPubkey) IN
  IF ~po.ok THEN Fail ELSE
  LET pb == BitDec(DropN(pk.body, po.n), <<3>>) IN
  IF ~pb.ok THEN Fail ELSE
  IF pb.bits \notin {384, 512, 768, 1024} \/ po.n + pb.n # Len(pk.body) THEN Fail ELSE
  LET r3 == DropN(r2, pk.n)
      ho == PstrDec(r3, <<95, 32>>) IN
  IF ~ho.ok THEN Fail ELSE
  IF Len(ho.val) < 8 \/ Len(ho.val) > 12 THEN Fail ELSE
  LET r4 == DropN(r3, ho.n)
      hasEid == StartsWith(r4, <<127, 76>>)
      es == SeqDec(r4, <<127, 76>>)
      eid == IF hasEid /\ es.ok THEN HatDec(es.body, OidEidAccess, 5) ELSE Fail IN
  IF hasEid /\ ~eid.ok THEN Fail ELSE
  LET r5 == IF hasEid THEN DropN(r4, es.n) ELSE r4
      fr == OctDec2(r5, <<95, 37>>, 6) IN
  IF ~fr.ok THEN Fail ELSE
  LET un == OctDec2(DropN(r5, fr.n), <<95, 36>>, 6) IN
  IF ~un.ok THEN Fail ELSE
  LET r6 == DropN(r5, fr.n + un.n)
      hasExt == StartsWith(r6, <<101>>)
      x1 == SeqDec(r6, <<101>>)
      x2 == IF hasExt /\ x1.ok THEN SeqDec(x1.body, <<115>>) ELSE Fail
      x3 == IF x2.ok /\ x2.n = Len(x1.body) THEN OidDec2(x2.body, OidEsignAuthExt) ELSE Fail
      x4 == IF x3.ok THEN SeqDec(DropN(x2.body, x3.n), <<127, 76>>) ELSE Fail
      esg == IF x4.ok /\ x3.n + x4.n = Len(x2.body) THEN HatDec(x4.body, OidEsignAccess, 2) ELSE Fail IN
  IF hasExt /\ ~esg.ok THEN Fail ELSE
  LET used == Len(o.body) - Len(r6) + (IF hasExt THEN x1.n ELSE 0) IN
  IF used # Len(o.body) THEN Fail ELSE
  [ok |-> TRUE, n |-> o.n,
   cvc |-> [authority |-> au.val, holder |-> ho.val, pubkey |-> pb.val, from |-> fr.val, until |-> un.val,
            hat_eid |-> IF hasEid THEN eid.val ELSE Zeros(5), hat_esign |-> IF hasExt THEN esg.val ELSE Zeros(2)]]
SigLens == <<34, 48, 72, 96>>
CvcDec(s) ==
  LET o == SeqDec(s, <<127, 33>>) IN
  IF ~o.ok \/ o.n # Len(s) THEN Fail ELSE
  LET b == CvcBodyDec(o.body) IN
  IF ~b.ok THEN Fail ELSE
  LET rest == DropN(o.body, b.n)
      k == SelectInSeq(SigLens, LAMBDA l : OctDec2(rest, <<95, 55>>, l).ok) IN
  IF k = 0 THEN Fail ELSE
  LET sg == OctDec2(rest, <<95, 55>>, SigLens[k]) IN
  IF sg.n # Len(rest) THEN Fail ELSE [ok |-> TRUE, n |-> o.n, cvc |-> b.cvc, sig |-> sg.val]
\* btokCVCLen: length of the certificate at the start of a chain
CvcLen(s) == Dec2(s, <<127, 33>>)
=============================================================================
