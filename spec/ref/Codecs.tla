------------------------------- MODULE Codecs -------------------------------
(* Text and command codecs of bee2/core, written from the headers (oid.h, hex.h, b64.h, dec.h,
   apdu.h) and the documents they cite (X.690 8.19, RFC 4648, ISO/IEC 7812-1 Luhn, Damm 2004,
   STB 34.101.79 12.1 / ISO 7816-4 command cases), not from the C sources.
   Character strings are sequences of character codes 1..255 (a C string cannot hold 0).
   Partial functions return Der!Fail or [ok |-> TRUE, ...].                                   *)
EXTENDS Der

\* ================================================================ Oid (oid.h)
OidIsValid(str) == OidStrIsValid(str)
OidToDer(str) == OidEnc(str)                 \* octets of the DER code (with the tag octet) or Fail
\* oidFromDER: [count]der must be exactly one OID code
OidFromDer(s) == LET d == OidDec(s) IN
                 IF d.ok /\ d.n = Len(s) THEN [ok |-> TRUE, len |-> Len(d.oid), oid |-> d.oid] ELSE Fail

\* ================================================================ Hex (hex.h, RFC 4648 base16)
HexVal(c) == IF c >= 48 /\ c <= 57 THEN c - 48
             ELSE IF c >= 65 /\ c <= 70 THEN c - 55
             ELSE IF c >= 97 /\ c <= 102 THEN c - 87
             ELSE -1
HexIsValid(s) == Len(s) % 2 = 0 /\ \A i \in 1..Len(s) : HexVal(s[i]) >= 0
HexUp(d) == IF d < 10 THEN 48 + d ELSE 55 + d
HexLo(d) == IF d < 10 THEN 48 + d ELSE 87 + d
HexFrom(buf) == [i \in 1..(2 * Len(buf)) |->
                   LET o == buf[(i + 1) \div 2] IN IF i % 2 = 1 THEN HexUp(o \div 16) ELSE HexUp(o % 16)]
HexTo(s) == [i \in 1..(Len(s) \div 2) |-> (HexVal(s[(2 * i) - 1]) * 16) + HexVal(s[2 * i])]
HexFromRev(buf) == HexFrom(Reverse(buf))
HexToRev(s) == Reverse(HexTo(s))
HexUpper(s) == [i \in 1..Len(s) |-> HexUp(HexVal(s[i]))]
HexLower(s) == [i \in 1..Len(s) |-> HexLo(HexVal(s[i]))]
HexEq(buf, s) == buf = HexTo(s)
HexEqRev(buf, s) == buf = HexToRev(s)

\* ================================================================ Base64 (b64.h, RFC 4648 4)
B64Val(c) == IF c >= 65 /\ c <= 90 THEN c - 65
             ELSE IF c >= 97 /\ c <= 122 THEN c - 71
             ELSE IF c >= 48 /\ c <= 57 THEN c + 4
             ELSE IF c = 43 THEN 62
             ELSE IF c = 47 THEN 63
             ELSE -1
B64Chr(v) == IF v < 26 THEN 65 + v ELSE IF v < 52 THEN 71 + v ELSE IF v < 62 THEN v - 4 ELSE IF v = 62 THEN 43 ELSE 47
Pad == 61
\* number of '=' at the end (at most 2 are padding; any further '=' is an ordinary, invalid, symbol)
B64PadLen(s) == IF Len(s) >= 1 /\ s[Len(s)] = Pad
                THEN (IF Len(s) >= 2 /\ s[Len(s) - 1] = Pad THEN 2 ELSE 1) ELSE 0
B64IsValid(s) ==
  LET p == B64PadLen(s)
      m == Len(s) - p
  IN /\ Len(s) % 4 = 0
     /\ \A i \in 1..m : B64Val(s[i]) >= 0
     /\ (p = 1 => B64Val(s[m]) % 4 = 0)        \* abc= : 16 data bits, the 2 low bits of c are zero
     /\ (p = 2 => B64Val(s[m]) % 16 = 0)       \* ab== : 8 data bits, the 4 low bits of b are zero
B64Block(o, k) ==      \* k = 1..3 octets of the block o -> 4 symbols
  LET b1 == o[1]
      b2 == IF k >= 2 THEN o[2] ELSE 0
      b3 == IF k >= 3 THEN o[3] ELSE 0
  IN << B64Chr(b1 \div 4),
        B64Chr(((b1 % 4) * 16) + (b2 \div 16)),
        IF k >= 2 THEN B64Chr(((b2 % 16) * 4) + (b3 \div 64)) ELSE Pad,
        IF k >= 3 THEN B64Chr(b3 % 64) ELSE Pad >>
B64From(buf) == Concat([j \in 1..((Len(buf) + 2) \div 3) |->
                          LET k == Min2(3, Len(buf) - (3 * (j - 1))) IN B64Block(Sub(buf, (3 * j) - 2, (3 * j) - 3 + k), k)])
\* pre B64IsValid(s)
B64To(s) ==
  LET p == B64PadLen(s)
      q == [j \in 1..(Len(s) \div 4) |->
              LET v == [i \in 1..4 |-> LET c == s[(4 * (j - 1)) + i] IN IF c = Pad THEN 0 ELSE B64Val(c)]
              IN << (v[1] * 4) + (v[2] \div 16), ((v[2] % 16) * 16) + (v[3] \div 4), ((v[3] % 4) * 64) + v[4] >>]
      all == Concat(q)
  IN TakeN(all, Len(all) - p)

\* ================================================================ Dec (dec.h)
DecIsValid(s) == \A i \in 1..Len(s) : IsDigit(s[i])
DecCLZ(s) == LET k == SelectInSeq(s, LAMBDA c : c # 48) IN IF k = 0 THEN Len(s) ELSE k - 1
\* the low `count` decimal digits of the u32 w (zero-padded on the left)
DecFromU32(count, w) ==
  LET st == FoldLeft(LAMBDA acc, i : LET qr == WDivMod10(acc[1]) IN << qr[1], <<48 + qr[2]>> \o acc[2] >>,
                     << w, <<>> >>, Upto(count))
  IN st[2]
\* value modulo 2^32
DecToU32(s) == FoldLeft(LAMBDA w, c : LET l == (w[1] * 10) + (c - 48) IN << l % 65536, ((w[2] * 10) + (l \div 65536)) % 65536 >>,
                        W0, s)
\* Luhn (ISO/IEC 7812-1): going leftwards from the check digit, every second digit is doubled and
\* the digits of the products are added; a string with its check digit sums to 0 modulo 10
LuhnDouble(d) == IF 2 * d > 9 THEN (2 * d) - 9 ELSE 2 * d
LuhnSum(s, firstDoubled) ==        \* firstDoubled: is the rightmost digit of s doubled?
  FoldLeft(LAMBDA acc, i : LET d == s[Len(s) + 1 - i] - 48
                               dbl == IF firstDoubled THEN i % 2 = 1 ELSE i % 2 = 0
                           IN acc + (IF dbl THEN LuhnDouble(d) ELSE d),
           0, Upto(Len(s)))
DecLuhnCalc(s) == 48 + ((10 - (LuhnSum(s, TRUE) % 10)) % 10)
DecLuhnVerify(s) == LuhnSum(s, FALSE) % 10 = 0
\* Damm (2004): totally anti-symmetric quasigroup of order 10 (table of the original paper)
DammT == << <<0, 3, 1, 7, 5, 9, 8, 6, 4, 2>>, <<7, 0, 9, 2, 1, 5, 4, 8, 6, 3>>, <<4, 2, 0, 6, 8, 7, 1, 3, 5, 9>>,
            <<1, 7, 5, 0, 9, 8, 3, 4, 2, 6>>, <<6, 1, 2, 3, 0, 4, 5, 9, 7, 8>>, <<3, 6, 7, 4, 2, 0, 9, 5, 8, 1>>,
            <<5, 8, 6, 9, 7, 2, 0, 1, 3, 4>>, <<8, 9, 4, 5, 3, 6, 2, 0, 1, 7>>, <<9, 4, 3, 8, 6, 1, 7, 2, 0, 5>>,
            <<2, 5, 8, 1, 4, 3, 6, 7, 9, 0>> >>
DecDammCalc(s) == 48 + FoldLeft(LAMBDA acc, c : DammT[acc + 1][c - 48 + 1], 0, s)
DecDammVerify(s) == DecDammCalc(s) = 48

\* ================================================================ APDU (apdu.h, STB 34.101.79 12.1)
\* command = [cla, ins, p1, p2, cdf (octets), rdf (expected response length 0..65536)]
CmdIsValid(c) == Len(c.cdf) < 65536 /\ c.rdf >= 0 /\ c.rdf <= 65536
\* rule 4: the forms of Lc and Le agree; the short form is used when both fit it
CmdShort(c) == Len(c.cdf) <= 255 /\ c.rdf <= 256
CmdEnc(c) ==
  LET lc == Len(c.cdf) IN
  <<c.cla, c.ins, c.p1, c.p2>>
  \o (IF lc = 0 THEN <<>>
      ELSE IF CmdShort(c) THEN <<lc>> \o c.cdf
      ELSE <<0, lc \div 256, lc % 256>> \o c.cdf)
  \o (IF c.rdf = 0 THEN <<>>
      ELSE IF CmdShort(c) THEN <<c.rdf % 256>>                        \* 256 -> 0x00
      ELSE IF lc > 0 THEN <<(c.rdf \div 256) % 256, c.rdf % 256>>     \* 65536 -> 0x0000
      ELSE <<0, (c.rdf \div 256) % 256, c.rdf % 256>>)
Le1(o) == IF o = 0 THEN 256 ELSE o
Le2(h, l) == IF h = 0 /\ l = 0 THEN 65536 ELSE (h * 256) + l
Cmd(s, cdf, rdf) == [ok |-> TRUE, cmd |-> [cla |-> s[1], ins |-> s[2], p1 |-> s[3], p2 |-> s[4], cdf |-> cdf, rdf |-> rdf]]
\* the decision table of the command cases (1, 2S, 2E, 3S, 3E, 4S, 4E) by rule 5
CmdDec(s) ==
  IF Len(s) < 4 THEN Fail
  ELSE LET n == Len(s) - 4 IN
       IF n = 0 THEN Cmd(s, <<>>, 0)                                             \* case 1
       ELSE IF n = 1 THEN Cmd(s, <<>>, Le1(s[5]))                                 \* case 2S
       ELSE IF s[5] # 0 THEN                                                      \* short Lc
            LET lc == s[5] IN
            IF n = 1 + lc THEN Cmd(s, Sub(s, 6, 5 + lc), 0)                       \* case 3S
            ELSE IF n = 2 + lc THEN Cmd(s, Sub(s, 6, 5 + lc), Le1(s[Len(s)]))     \* case 4S
            ELSE Fail
       ELSE IF n = 2 THEN Fail
       ELSE IF n = 3 THEN Cmd(s, <<>>, Le2(s[6], s[7]))                           \* case 2E
       ELSE LET lc == (s[6] * 256) + s[7] IN
            IF lc = 0 THEN Fail                                                   \* extended Lc is never 0x0000
            ELSE IF n = 3 + lc THEN Cmd(s, Sub(s, 8, 7 + lc), 0)                  \* case 3E
            ELSE IF n = 5 + lc THEN Cmd(s, Sub(s, 8, 7 + lc), Le2(s[Len(s) - 1], s[Len(s)]))   \* case 4E
            ELSE Fail
\* a code is canonical iff it is what the encoder produces for the decoded command
CmdIsCanonical(s) == LET d == CmdDec(s) IN d.ok /\ CmdEnc(d.cmd) = s

\* response = [sw1, sw2, rdf]
RespIsValid(r) == Len(r.rdf) <= 65536
RespEnc(r) == r.rdf \o <<r.sw1, r.sw2>>
RespDec(s) == IF Len(s) < 2 THEN Fail
              ELSE [ok |-> TRUE, resp |-> [sw1 |-> s[Len(s) - 1], sw2 |-> s[Len(s)], rdf |-> Sub(s, 1, Len(s) - 2)]]
=============================================================================
