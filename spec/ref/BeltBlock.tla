----------------------------- MODULE BeltBlock -----------------------------
(* belt-block of STB 34.101.31 (section 6.1): S-box H, transformations G_r,
   key expansion for 128/192/256-bit keys, 8-round encryption and decryption.
   Transcribed from the text of the standard; anchored by tables A.1 and A.4
   (ref/BeltVectors.tla, evaluated by TLC). *)
EXTENDS Bytes

HT == <<177,148,186,200,10,8,245,59,54,109,0,142,88,74,93,228,133,4,250,157,27,182,199,172,37,46,114,194,2,253,206,13,
        91,227,214,18,23,185,97,129,254,103,134,173,113,107,137,11,92,176,192,255,51,195,86,184,53,196,5,174,216,224,127,153,
        225,43,220,26,226,130,87,236,112,63,204,240,149,238,141,241,193,171,118,56,159,230,120,202,247,198,248,96,213,187,156,79,
        243,60,101,123,99,124,48,106,221,78,167,121,158,178,61,49,62,152,181,110,39,211,188,207,89,30,24,31,76,90,183,147,
        233,222,231,44,143,12,15,166,45,219,73,244,111,115,150,71,6,7,83,22,237,36,122,55,57,203,163,131,3,169,139,246,
        146,189,155,28,229,209,65,1,84,69,251,201,94,77,14,242,104,32,128,170,34,125,100,47,38,135,249,52,144,64,85,17,
        190,50,151,19,67,252,154,72,160,42,136,95,25,75,9,161,126,205,164,208,21,68,175,140,165,132,80,191,102,210,232,138,
        162,215,70,82,66,168,223,179,105,116,197,81,235,35,41,33,212,239,217,180,58,98,40,117,145,20,16,234,119,108,218,29>>
H(x) == HT[x + 1]
\* octets of the table, 0-based offset off, length n (the standard's test data are slices of H)
HSlice(off, n) == [i \in 1..n |-> HT[off + i]]

\* G_r(u) = RotHi^r(H(u1) || H(u2) || H(u3) || H(u4))
G(u, r) == WRot(<< H(u[1] % 256) + 256 * H(u[1] \div 256),
                   H(u[2] % 256) + 256 * H(u[2] \div 256) >>, r)

\* key expansion: theta_1..theta_8 (32-bit words) from a key of 16, 24 or 32 octets
KeyExpand(key) ==
  LET n == Len(key) \div 4
      w(i) == WFrom(key, 4 * (i - 1) + 1)
  IN CASE n = 8 -> [i \in 1..8 |-> w(i)]
       [] n = 6 -> [i \in 1..8 |-> IF i <= 6 THEN w(i)
                                   ELSE IF i = 7 THEN WXor(WXor(w(1), w(2)), w(3))
                                   ELSE WXor(WXor(w(4), w(5)), w(6))]
       [] n = 4 -> [i \in 1..8 |-> w(((i - 1) % 4) + 1)]
\* the expanded key as 32 octets
KeyExpandOctets(key) == LET t == KeyExpand(key) IN
   WTo(t[1]) \o WTo(t[2]) \o WTo(t[3]) \o WTo(t[4]) \o WTo(t[5]) \o WTo(t[6]) \o WTo(t[7]) \o WTo(t[8])

\* round keys K_1..K_56 = theta repeated
RK(T, j) == T[((j - 1) % 8) + 1]

EncRound(st, T, i) ==
  LET a0 == st[1]  b0 == st[2]  c0 == st[3]  d0 == st[4]
      b1 == WXor(b0, G(WAdd(a0, RK(T, 7*i - 6)), 5))
      c1 == WXor(c0, G(WAdd(d0, RK(T, 7*i - 5)), 21))
      a1 == WSub(a0, G(WAdd(b1, RK(T, 7*i - 4)), 13))
      e  == WXor(G(WAdd(WAdd(b1, c1), RK(T, 7*i - 3)), 21), WSmall(i))
      b2 == WAdd(b1, e)
      c2 == WSub(c1, e)
      d1 == WAdd(d0, G(WAdd(c2, RK(T, 7*i - 2)), 13))
      b3 == WXor(b2, G(WAdd(a1, RK(T, 7*i - 1)), 21))
      c3 == WXor(c2, G(WAdd(d1, RK(T, 7*i)), 5))
  IN \* a <-> b, c <-> d, b <-> c
     <<b3, d1, a1, c3>>

DecRound(st, T, i) ==
  LET a0 == st[1]  b0 == st[2]  c0 == st[3]  d0 == st[4]
      b1 == WXor(b0, G(WAdd(a0, RK(T, 7*i)), 5))
      c1 == WXor(c0, G(WAdd(d0, RK(T, 7*i - 1)), 21))
      a1 == WSub(a0, G(WAdd(b1, RK(T, 7*i - 2)), 13))
      e  == WXor(G(WAdd(WAdd(b1, c1), RK(T, 7*i - 3)), 21), WSmall(i))
      b2 == WAdd(b1, e)
      c2 == WSub(c1, e)
      d1 == WAdd(d0, G(WAdd(c2, RK(T, 7*i - 4)), 13))
      b3 == WXor(b2, G(WAdd(a1, RK(T, 7*i - 5)), 21))
      c3 == WXor(c2, G(WAdd(d1, RK(T, 7*i - 6)), 5))
  IN \* a <-> b, c <-> d, a <-> d
     <<c3, a1, d1, b3>>

RECURSIVE EncRounds(_, _, _)
EncRounds(st, T, i) == IF i > 8 THEN st ELSE EncRounds(EncRound(st, T, i), T, i + 1)
RECURSIVE DecRounds(_, _, _)
DecRounds(st, T, i) == IF i < 1 THEN st ELSE DecRounds(DecRound(st, T, i), T, i - 1)

Load(X) == <<WFrom(X, 1), WFrom(X, 5), WFrom(X, 9), WFrom(X, 13)>>

\* belt-block encryption with expanded key T: Y = b || d || a || c
EncT(X, T) == LET st == EncRounds(Load(X), T, 1)
              IN WTo(st[2]) \o WTo(st[4]) \o WTo(st[1]) \o WTo(st[3])
\* decryption: X = c || a || d || b
DecT(X, T) == LET st == DecRounds(Load(X), T, 8)
              IN WTo(st[3]) \o WTo(st[1]) \o WTo(st[4]) \o WTo(st[2])

BeltEncr(X, key) == EncT(X, KeyExpand(key))
BeltDecr(X, key) == DecT(X, KeyExpand(key))
=============================================================================
