----------------------------- MODULE ECpVectors -----------------------------
(* C06 (0): the ORACLE is validated before it is used.  For every complete small curve listed in the file
   IOEnv.CURVES (ndjson, one record {name, p, A, B} per line; p < 2^10) TLC enumerates all points and checks that
   the affine chord-and-tangent definition of ref/ECp.tla
     grp    is closed, commutative, has identity O and inverses, and P - Q + Q = P          (all ordered pairs)
     assoc  is associative on ALL triples                                                  (curves with <= AssocMax points)
     mul    ScalarMul (double-and-add) = iterated sum MulSeq = Jacobian evaluation ScalarMulJ for all k in
            0 .. 2*order+2, order * P = O, HasOrder(P, k) <=> k P = O, MulAdd = sum of multiples
     swu    SWU lands on the curve for every field element (for non-residue B: except s in {0, 1, p-1}, as ecp.h says)
     dec    Decompress(x) succeeds exactly for the abscissas of curve points, with a root of the right-hand side
     big    the BigNat instantiation agrees with the integer instantiation (addition rows, multiples, SWU)
   and, on bign-curve128v1 (STB 34.101.45 table B.1), the appendix key pair (table G.1: Q = d G) and q G = O.
   One case per TLC state (two-level pattern); a failing case prints <<"@BAD", case>>. *)
EXTENDS BigNat, FiniteSets, Json, IOUtils, TLC

EI == INSTANCE ECpInt
EB == INSTANCE ECpBig

Curves == ndJsonDeserialize(IOEnv.CURVES)
AssocMax == atoi(IOEnv.ASSOC_MAX)
WithBign == IOEnv.WITH_BIGN = "1"
NC == Len(Curves)
E(c) == [p |-> Curves[c].p, A |-> Curves[c].A, B |-> Curves[c].B]

PtsOfX(c, x) == LET r == EI!Rhs(E(c), x)
                IN FoldLeft(LAMBDA acc, y : IF (y * y) % Curves[c].p = r THEN Append(acc, <<x, y>>) ELSE acc, <<>>, Rng(0, Curves[c].p - 1))
PtsOf == [c \in 1..NC |-> <<EI!O>> \o FoldLeft(LAMBDA acc, x : acc \o PtsOfX(c, x), <<>>, [i \in 1..Curves[c].p |-> i - 1])]
Ord(c) == Len(PtsOf[c])
IsQR(v, p) == v % p # 0 /\ EI!IPow(v, (p - 1) \div 2, p) = 1

\* ---- the checks
Grp(c, i) ==
  LET e == E(c)  ps == PtsOf[c]  P == ps[i]
  IN /\ EI!IsPoint(e, P) /\ EI!IsPoint(e, EI!PNeg(e, P))
     /\ EI!PAdd(e, P, EI!O) = P /\ EI!PAdd(e, EI!O, P) = P
     /\ EI!IsO(EI!PAdd(e, P, EI!PNeg(e, P)))
     /\ EI!PNeg(e, EI!PNeg(e, P)) = P
     /\ \A j \in 1..Len(ps) :
          LET Q == ps[j]  S == EI!PAdd(e, P, Q)
          IN /\ EI!IsPoint(e, S)
             /\ S = EI!PAdd(e, Q, P)
             /\ EI!PAdd(e, EI!PSub(e, P, Q), Q) = P
             /\ EI!PSub(e, S, Q) = P
             /\ EI!PNeg(e, S) = EI!PAdd(e, EI!PNeg(e, P), EI!PNeg(e, Q))
Assoc(c, i) ==
  LET e == E(c)  ps == PtsOf[c]  P == ps[i]
  IN \A j \in 1..Len(ps), k \in 1..Len(ps) :
       EI!PAdd(e, EI!PAdd(e, P, ps[j]), ps[k]) = EI!PAdd(e, P, EI!PAdd(e, ps[j], ps[k]))
MulOk(c, i) ==
  LET e == E(c)  ps == PtsOf[c]  P == ps[i]  n == Len(ps)  K == 2 * n + 2
      ms == EI!MulSeq(e, P, K)
  IN /\ EI!IsO(ms[n + 1])                                       \* Lagrange: order * P = O
     /\ \A k \in 0..K : /\ EI!ScalarMul(e, k, P) = ms[k + 1]
                        /\ EI!ScalarMulJ(e, k, P) = ms[k + 1]
                        /\ (k >= 1 /\ ~EI!IsO(P)) => (EI!HasOrder(e, P, k) <=> EI!IsO(ms[k + 1]))
     /\ EI!PDbl(e, P) = ms[3] /\ EI!PTpl(e, P) = ms[4]
     /\ \A j \in {1, 2, (n + 1) \div 2, n} :
          LET Q == ps[j] IN
          /\ EI!MulAdd(e, <<3, n - 1>>, <<P, Q>>) = EI!PAdd(e, ms[4], EI!MulSeq(e, Q, n)[n])
          /\ EI!MulAddJ(e, <<3, n - 1>>, <<P, Q>>) = EI!MulAdd(e, <<3, n - 1>>, <<P, Q>>)
SwuApplies(c) == Curves[c].p % 4 = 3 /\ Curves[c].A # 0 /\ Curves[c].B # 0
SwuOk(c) ==
  LET e == E(c)  p == Curves[c].p
  IN \A s \in 0..(p - 1) :
       LET W == EI!SWU(e, s)
       IN (IsQR(e.B, p) \/ s \notin {0, 1, p - 1}) => EI!IsOnCurve(e, W[1], W[2])
DecOk(c) ==
  LET e == E(c)  p == Curves[c].p
  IN p % 4 = 3 =>
     \A x \in 0..(p + 2) :
       LET d == EI!Decompress(e, x)
       IN /\ d[1] <=> (\E y \in 0..(p - 1) : EI!IsOnCurve(e, x, y))
          /\ d[1] => EI!IsOnCurve(e, x, d[2])
\* BigNat instantiation = integer instantiation
ToB(P) == IF EI!IsO(P) THEN EB!O ELSE <<OfInt(P[1]), OfInt(P[2])>>
BigOk(c, i) ==
  LET e == E(c)  ps == PtsOf[c]  P == ps[i]  n == Len(ps)
      eb == EB!BCurve(OfInt(e.p), OfInt(e.A), OfInt(e.B))
  IN /\ \A j \in 1..n : /\ EB!PAdd(eb, ToB(P), ToB(ps[j])) = ToB(EI!PAdd(e, P, ps[j]))
                        /\ EB!PSub(eb, ToB(P), ToB(ps[j])) = ToB(EI!PSub(e, P, ps[j]))
     /\ EB!IsPoint(eb, ToB(P)) /\ EB!PTpl(eb, ToB(P)) = ToB(EI!PTpl(e, P))
     /\ \A k \in {0, 1, 2, n - 1, n, n + 1, 2 * n + 2} :
          /\ EB!ScalarMul(eb, OfInt(k), ToB(P)) = ToB(EI!ScalarMul(e, k, P))
          /\ EB!ScalarMulJ(eb, OfInt(k), ToB(P)) = ToB(EI!ScalarMul(e, k, P))
     /\ (i = 1 /\ SwuApplies(c)) =>
          \A s \in 0..(e.p - 1) : EB!SWU(eb, OfInt(s)) = ToB(EI!SWU(e, s))
     /\ (i = 1 /\ e.p % 4 = 3) =>
          \A x \in 0..(e.p + 1) : LET d == EI!Decompress(e, x)  db == EB!Decompress(eb, OfInt(x))
                                  IN d[1] = db[1] /\ (d[1] => db[2] = OfInt(d[2]))
\* attributes (reported, and the Hasse bound as a sanity check of the enumeration)
Attr(c) ==
  LET e == E(c)  ps == PtsOf[c]  n == Len(ps)  p == Curves[c].p
  IN /\ EI!IsSmooth(e)
     /\ (n - (p + 1)) * (n - (p + 1)) <= 4 * p
     /\ \A i \in 1..n : EI!IsPoint(e, ps[i])
     /\ n = 1 + Cardinality({xy \in (0..(p - 1)) \X (0..(p - 1)) : EI!IsOnCurve(e, xy[1], xy[2])})
     /\ ~EI!IsOnCurve(e, ps[2][1] + p, ps[2][2]) /\ ~EI!IsOnCurve(e, ps[2][1], ps[2][2] + p)

\* ---- bign-curve128v1 (STB 34.101.45, table B.1; little-endian octets) and the key pair of table G.1
HexVal(ch) == CHOOSE v \in 0..15 : SubSeq("0123456789ABCDEF", v + 1, v + 1) = ch
HexOct(s) == [i \in 1..(Len(s) \div 2) |-> HexVal(SubSeq(s, 2 * i - 1, 2 * i - 1)) * 16 + HexVal(SubSeq(s, 2 * i, 2 * i))]
LEHex(s) == Norm(FromOctets(HexOct(s)))
P128 == LEHex("43FFFFFFFFFFFFFFFFFFFFFFFFFFFFFFFFFFFFFFFFFFFFFFFFFFFFFFFFFFFFFF")
E128 == EB!BCurve(P128, LEHex("40FFFFFFFFFFFFFFFFFFFFFFFFFFFFFFFFFFFFFFFFFFFFFFFFFFFFFFFFFFFFFF"),
                  LEHex("F1039CD66B7D2EB253928B976950F54CBEFBD8E4AB3AC1D2EDA8F315156CCE77"))
Q128 == LEHex("07663D2699BF5A7EFC4DFB0DD68E5CD9FFFFFFFFFFFFFFFFFFFFFFFFFFFFFFFF")
G128 == EB!BPt(Zero, LEHex("936A510418CF291E52F608C4663991785D83D651A3C9E45C9FD616FB3CFCF76B"))
D_G1 == LEHex("1F66B5B84B7339674533F0329C74F21834281FED0732429E0C79235FC273E269")
Q_G1 == EB!BPt(LEHex("BD1A5650179D79E03FCEE49D4C2BD5DDF54CE46D0CF11E4FF87BF7A890857FD0"),
               LEHex("7AC6A60361E8C8173491686D461B2826190C2EDA5909054A9AB84D2AB9D99A90"))
V128(k) == CASE k = 1 -> BitLen(P128) = 256 /\ BitLen(Q128) = 256 /\ EB!IsSmooth(E128) /\ EB!IsPoint(E128, G128) /\ EB!IsPoint(E128, Q_G1)
             [] k = 2 -> EB!ScalarMulJ(E128, D_G1, G128) = Q_G1
             [] k = 3 -> EB!IsO(EB!ScalarMulJ(E128, Q128, G128)) /\ EB!HasOrder(E128, G128, Q128)
             [] k = 4 -> LET q1 == Norm(Sub2(Q128, One))               \* (q-1) G = -G, and the affine law agrees with J on the last step
                         IN EB!ScalarMulJ(E128, q1, G128) = EB!PNeg(E128, G128)
             [] k = 5 -> LET d == EB!Decompress(E128, Q_G1[1])          \* x-only decompression of the appendix public key
                         IN d[1] /\ (d[2] = Q_G1[2] \/ d[2] = EB!PNeg(E128, Q_G1)[2])

AllCases ==
  {<<"attr", c, 0>> : c \in 1..NC}
  \cup UNION {{<<"grp", c, i>> : i \in 1..Ord(c)} : c \in 1..NC}
  \cup UNION {{<<"mul", c, i>> : i \in 1..Ord(c)} : c \in 1..NC}
  \cup UNION {{<<"assoc", c, i>> : i \in 1..Ord(c)} : c \in {d \in 1..NC : Ord(d) <= AssocMax}}
  \cup UNION {{<<"big", c, i>> : i \in 1..Ord(c)} : c \in {d \in 1..NC : Ord(d) <= 2 * AssocMax}}
  \cup {<<"swu", c, 0>> : c \in {d \in 1..NC : SwuApplies(d)}}
  \cup {<<"dec", c, 0>> : c \in 1..NC}
  \cup (IF WithBign THEN {<<"v128", 0, k>> : k \in 1..5} ELSE {})
CaseOk(x) ==
  CASE x[1] = "attr" -> Attr(x[2])
    [] x[1] = "grp" -> Grp(x[2], x[3])
    [] x[1] = "assoc" -> Assoc(x[2], x[3])
    [] x[1] = "mul" -> MulOk(x[2], x[3])
    [] x[1] = "big" -> BigOk(x[2], x[3])
    [] x[1] = "swu" -> SwuOk(x[2])
    [] x[1] = "dec" -> DecOk(x[2])
    [] x[1] = "v128" -> V128(x[3])

VARIABLES phase, case, ok
Init == phase = 0 /\ case = <<"", 0, 0>> /\ ok = TRUE
Next == \/ phase = 0 /\ phase' = 1 /\ case' \in AllCases /\ ok' = TRUE
        \/ phase = 1 /\ phase' = 2 /\ case' = case /\ ok' = CaseOk(case)
                     /\ (ok' \/ PrintT(<<"@BAD", case>>))
=============================================================================
