------------------------------- MODULE Schemes -------------------------------
(* C16: bign96 (include/bee2/crypto/bign96.h), g12s (GOST R 34.10-2012), dstu (DSTU 4145-2002 over GF(2^m)),
   pfok (DH / MTI in the Montgomery group B_p) as the standards / headers define them.  Nothing is taken from the .c files
   except two encodings that only the library fixes (bign96 is not standardised): the constant 2^103 added to s0 and the
   10-octet s0, both anchored by the vector of test/crypto/bign96_test.c in ref/SchemeVectors.tla.
   Numbers: BigNat (EXTENDS);  field elements of GF(2^m): GF2Poly values under the namespace-free EXTENDS;
   prime curves: EB == INSTANCE ECpBig;  belt-hash: BM == INSTANCE BeltModes.
   INTERFACE
     tapes      TapeChunk(tape, j, len)  DrawNZ(tape, q) = [ok, v, tries]   (zz.h zzRandNZMod: chunks of O_OF_B(|q|) octets,
                little-endian, trimmed to |q| bits, 0 and >= q rejected; zeros after the end of the tape)
                DrawBits(tape, bits) = [ok, v, tries]  (DSTU 6.3: |n| - 1 bits, 0 rejected)
     g12s       G12sE(hashBE, q)  G12sRS(sig, l)  G12sSigInRange(r, s, q)  G12sSOf(r, d, k, e, q)  G12sROf(E, P, k, q)
                G12sVerifyEq(E, P, q, e, r, s, Q)  G12sSigOct(r, s, l)
     bign96     B96S0(oid, xR, H)  B96S1Of(s0, H, d, k, q)  B96VerifyR(E, G, q, H, s0, s1, Q)  B96Verify(...)
     dstu       DstuField(f)  DstuH(hash, m)  DstuTrunc(y, nbits)  DstuSOf(e, d, r, n)  DstuSigParts(sig, ld, n)
                E2OnCurve  E2Neg  E2Add  E2Mul  (y^2 + xy = x^3 + A x^2 + B, affine, O = <<>>)
                GTr(x, f)  DstuCompress(C, x, y)  DstuRecoverOk(C, xp, x, y)  DstuVerifyEq(C, P, n, h, r, s, Q)
     pfok       PfokPub(P, x)  PfokDH(P, x, y)  PfokMTI(P, x, u, y, v)  PfokTrimKey(v, n)
     signing    G12sSign(E, P, q, d, e, tape)  B96Sign(E, G, q, oid, H, d, tape)  DstuSign(C, P, n, d, h, tape)
                = [ok, r / sig, s, used, why]: the standards' signing algorithms INCLUDING their repetitions: the generator
                delivers the draws of the tape one after the other; a draw is discarded when the one-time key is out of
                range, when r = 0 and when s = 0 (why[j] names the branch draw j takes); the signature is defined by the
                first draw that passes all conditions (why[used] = "used")
   Hash reduction classes: G12sE identifies H, H +- q and maps 0 to 1; DstuH keeps the first m bits and maps 0 to 1;
   bign96 feeds the octets of H to belt-hash, so every alteration of H changes the signed value. *)
EXTENDS BigNat, GF2Poly, FiniteSets

EB == INSTANCE ECpBig
BM == INSTANCE BeltModes

Num(o) == Norm(FromOctets(o))
NumBE(o) == Norm(FromOctetsBE(o))
Oct(v, n) == ToOctets(v, n)
OctBE(v, n) == Reverse(ToOctets(v, n))

\* ------------------------------------------------------------------ tapes (the caller's generator)
TapeChunk(tape, j, len) == Strict([i \in 1..len |-> IF (j - 1) * len + i <= Len(tape) THEN tape[(j - 1) * len + i] ELSE 0])
MaxTries == 65                                            \* B_PER_IMPOSSIBLE + 1 attempts (defs.h, zz.h)
\* first chunk whose value, trimmed to bits bits, passes acc(v)
DrawGen(tape, len, bits, acc(_)) ==
  LET avail == (Len(tape) + len - 1) \div len
      lim == IF avail < MaxTries THEN avail ELSE MaxTries
  IN FoldLeft(LAMBDA st, j : IF st.ok THEN st
                             ELSE LET v == Norm(ModPow2(Num(TapeChunk(tape, j, len)), bits))
                                  IN IF acc(v) THEN [ok |-> TRUE, v |-> v, tries |-> j] ELSE st,
              [ok |-> FALSE, v |-> Zero, tries |-> lim], Rng(1, lim))
DrawNZ(tape, q) == LET l == BitLen(q) IN DrawGen(tape, (l + 7) \div 8, l, LAMBDA v : ~IsZero(v) /\ Less(v, q))
DrawBits(tape, bits) == DrawGen(tape, (bits + 1 + 7) \div 8, bits, LAMBDA v : ~IsZero(v))

\* ------------------------------------------------------------------ g12s (GOST R 34.10-2012, 6.1 / 6.2)
\* hash and signature halves are big-endian numbers; sig = r || s
G12sE(hashBE, q) == LET e == Mod(NumBE(hashBE), q) IN IF IsZero(e) THEN One ELSE e
G12sRS(sig, l) == <<NumBE(SubSeq(sig, 1, l \div 8)), NumBE(SubSeq(sig, l \div 8 + 1, l \div 4))>>
G12sSigOct(r, s, l) == OctBE(r, l \div 8) \o OctBE(s, l \div 8)
G12sSigInRange(r, s, q) == ~IsZero(r) /\ Less(r, q) /\ ~IsZero(s) /\ Less(s, q)
G12sSOf(r, d, k, e, q) == Mod(Add(Mul(r, d), Mul(k, e)), q)
G12sROf(E, P, k, q) == LET C == EB!ScalarMulJ(E, k, P) IN IF EB!IsO(C) THEN Zero ELSE Mod(C[1], q)
\* step 6 of the verification: C = z1 P + z2 Q with z1 = s v, z2 = -r v, v = e^(-1) (mod q); accept iff x_C mod q = r
G12sVerifyEq(E, P, q, e, r, s, Q) ==
  LET v == ModInv(e, q)
      z1 == MulMod(s, v, q)
      z2 == SubMod(Zero, MulMod(r, v, q), q)
      C == EB!MulAddJ(E, <<z1, z2>>, <<P, Q>>)
  IN ~EB!IsO(C) /\ Eq(Mod(C[1], q), r)
G12sVerify(E, P, q, hashBE, sig, l, Q) ==
  LET rs == G12sRS(sig, l)
  IN G12sSigInRange(rs[1], rs[2], q) /\ G12sVerifyEq(E, P, q, G12sE(hashBE, q), rs[1], rs[2], Q)

\* ------------------------------------------------------------------ bign96 (bign 7.1 at l = 96: s0 of 80 bits)
B96C == PowerOf2(103)                                      \* the library's "2^l": s0 || 00 00 80 as a 13-octet number
B96S0(oid, xR, H) == TakeN(BM!Hash(oid \o Oct(xR, 24) \o H), 10)
B96S1Of(s0, H, d, k, q) == SubMod(SubMod(k, Mod(Num(H), q), q), Mod(Mul(Add(s0, B96C), d), q), q)
B96SignWith(E, G, q, oid, H, d, k) ==
  LET R == EB!ScalarMulJ(E, k, G)
      S0 == B96S0(oid, R[1], H)
  IN S0 \o Oct(B96S1Of(Num(S0), H, d, k, q), 24)
B96VerifyR(E, G, q, H, s0, s1, Q) ==
  EB!MulAddJ(E, <<Mod(Add(s1, Mod(Num(H), q)), q), Add(s0, B96C)>>, <<G, Q>>)
B96Verify(E, G, q, oid, H, sig, Q) ==
  LET s0 == Num(SubSeq(sig, 1, 10))
      s1 == Num(SubSeq(sig, 11, 34))
  IN /\ Len(sig) = 34 /\ Less(s1, q)
     /\ LET R == B96VerifyR(E, G, q, H, s0, s1, Q)
        IN ~EB!IsO(R) /\ B96S0(oid, R[1], H) = SubSeq(sig, 1, 10)

\* ------------------------------------------------------------------ signing: the repetitions over the generator's draws
\* judge(j) = [why, r, s] is the verdict of the algorithm on draw j (chunk j of the tape) ALONE: why = "used" if the draw
\* passes every condition (then r, s are the signature components), else the name of the branch that discards it.
\* range(w) tells the out-of-range branches: zz.h (zzRandNZMod) gives up after MaxTries consecutive ones.  The algorithm
\* walks through the draws in order; the result is defined by the FIRST draw judged "used".  A tape without such a draw
\* (zeros follow its end) yields no signature.
SignLoop(tape, len, judge(_), range(_)) ==
  LET nd == (Len(tape) + len - 1) \div len
  IN FoldLeft(LAMBDA st, j :
                IF st.ok \/ st.run >= MaxTries THEN st
                ELSE LET v == judge(j)
                     IN IF v.why = "used" THEN [ok |-> TRUE, r |-> v.r, s |-> v.s, used |-> j, why |-> Append(st.why, "used"), run |-> 0]
                        ELSE [st EXCEPT !.why = Append(st.why, v.why), !.run = IF range(v.why) THEN st.run + 1 ELSE 0],
              [ok |-> FALSE, r |-> Zero, s |-> Zero, used |-> 0, why |-> <<>>, run |-> 0], Rng(1, nd))
\* one-time key of zzRandNZMod (g12s, bign96): the chunk of O_OF_B(|q|) octets trimmed to |q| bits; 0 and >= q are out of range
DrawOf(tape, j, q) == Norm(ModPow2(Num(TapeChunk(tape, j, (BitLen(q) + 7) \div 8)), BitLen(q)))

\* GOST R 34.10-2012 6.1: step 3 k <-R (0, q); step 4 C = kP, r = x_C mod q, r = 0 -> step 3; step 5 s = (r d + k e) mod q,
\* s = 0 -> step 3
G12sSign(E, P, q, d, e, tape) ==
  SignLoop(tape, (BitLen(q) + 7) \div 8,
           LAMBDA j : LET k == DrawOf(tape, j, q)
                      IN IF IsZero(k) THEN [why |-> "k=0", r |-> Zero, s |-> Zero]
                         ELSE IF ~Less(k, q) THEN [why |-> "k>=q", r |-> Zero, s |-> Zero]
                         ELSE LET rr == G12sROf(E, P, k, q)
                              IN IF IsZero(rr) THEN [why |-> "r=0", r |-> Zero, s |-> Zero]
                                 ELSE LET ss == G12sSOf(rr, d, k, e, q)
                                      IN IF IsZero(ss) THEN [why |-> "s=0", r |-> rr, s |-> Zero]
                                         ELSE [why |-> "used", r |-> rr, s |-> ss],
           LAMBDA w : w \in {"k=0", "k>=q"})
\* bign96: k <-R {1, ..., q - 1} is the only repetition (no condition on s0, s1); r carries the 34 octets of the signature
B96Sign(E, G, q, oid, H, d, tape) ==
  SignLoop(tape, (BitLen(q) + 7) \div 8,
           LAMBDA j : LET k == DrawOf(tape, j, q)
                      IN IF IsZero(k) THEN [why |-> "k=0", r |-> <<>>, s |-> Zero]
                         ELSE IF ~Less(k, q) THEN [why |-> "k>=q", r |-> <<>>, s |-> Zero]
                         ELSE [why |-> "used", r |-> B96SignWith(E, G, q, oid, H, d, k), s |-> k],
           LAMBDA w : w \in {"k=0", "k>=q"})

\* ------------------------------------------------------------------ GF(2^m), binary curves y^2 + xy = x^3 + A x^2 + B
DstuField(f) == LET t == PAdd(PAdd(PMonomial(f[1]), PMonomial(f[2])), POne)
                IN IF f[3] = 0 THEN t ELSE PAdd(PAdd(t, PMonomial(f[3])), PMonomial(f[4]))
POfOct(o) == PStrict([i \in 1..((Len(o) + 1) \div 2) |-> o[2 * i - 1] + (IF 2 * i <= Len(o) THEN 256 * o[2 * i] ELSE 0)])
PToOct(a, n) == PStrict([j \in 1..n |-> LET w == PGet(a, (j + 1) \div 2) IN IF j % 2 = 1 THEN w % 256 ELSE w \div 256])
\* reduction modulo the sparse F = x^m + sum x^k: x^m = sum x^k, applied to the whole high part at once (a few rounds),
\* finished by the generic remainder (which returns at once when the degree is already below m); = PMod (anchored)
LowExps(F) == SelectSeq(PRng(0, PDeg(F) - 1), LAMBDA i : PBit(F, i) = 1)
GRed(a, F) ==
  LET m == PDeg(F)
      ks == LowExps(F)
      step(x, i) == IF PDeg(x) < m THEN x
                    ELSE LET H == PShr(x, m) IN PNorm(FoldLeft(LAMBDA acc, k : PAdd(acc, PShl(H, k)), PTrunc(x, m), ks))
  IN PMod(FoldLeft(step, PNorm(a), <<1, 2, 3>>), F)
GMul(a, b, F) == GRed(PMul(a, b), F)
GSqr(a, F) == GRed(PMul(a, a), F)
GInv(a, F) == PInvMod(a, F)
GDiv(a, b, F) == PMulMod(a, PInvMod(b, F), F)
GEq(a, b) == PEq(a, b)
\* trace: x + x^2 + x^4 + ... + x^(2^(m-1)), an element of GF(2) (0 or 1): the definition
GTrDef(x, F) ==
  LET m == PDeg(F)
      st == FoldLeft(LAMBDA acc, i : LET sq == GSqr(acc[1], F) IN <<sq, PAdd(acc[2], sq)>>, <<PMod(x, F), PMod(x, F)>>, PRng(2, m))
  IN IF PIsZero(st[2]) THEN 0 ELSE 1
\* the trace is GF(2)-linear: tr(x) = sum x_i tr(t^i), and tr(t^i) = p_i, the i-th power sum of the roots of F, given by
\* Newton's identities  p_k = sum_{j=1}^{k-1} a_{m-j} p_{k-j} + k a_{m-k}  (1 <= k < m),  p_0 = m mod 2   (F = sum a_i t^i)
\* (anchored against GTrDef in ref/SchemeVectors.tla)
TraceVec(F) ==
  LET m == PDeg(F)
      cs == {j \in 1..(m - 1) : PBit(F, m - j) = 1}                  \* j with a_(m-j) = 1
  IN FoldLeft(LAMBDA acc, k : LET s == Cardinality({j \in cs : j < k /\ acc[k - j + 1] = 1}) + (IF k \in cs THEN k ELSE 0)
                            IN Append(acc, s % 2),
              <<m % 2>>, PRng(1, m - 1))                              \* element k + 1 is p_k
GTr(x, F) == LET tv == TraceVec(F)  xr == PMod(x, F)
             IN Cardinality({i \in 0..(PDeg(F) - 1) : PBit(xr, i) = 1 /\ tv[i + 1] = 1}) % 2
\* a curve is [F, A (0 or 1), B]; a point <<x, y>> with normalised coordinates, O = <<>>
E2A(C) == IF C.A = 1 THEN POne ELSE PZero
E2Rhs(C, x) == LET x2 == GSqr(x, C.F) IN PNorm(PAdd(PAdd(GMul(x2, x, C.F), GMul(E2A(C), x2, C.F)), C.B))
E2OnCurve(C, x, y) == PDeg(x) < PDeg(C.F) /\ PDeg(y) < PDeg(C.F)
                      /\ GEq(PAdd(GSqr(y, C.F), GMul(x, y, C.F)), E2Rhs(C, x))
E2IsO(P) == Len(P) = 0
E2Neg(C, P) == IF E2IsO(P) THEN P ELSE <<P[1], PNorm(PAdd(P[1], P[2]))>>
E2Dbl(C, P) ==
  IF E2IsO(P) \/ PIsZero(P[1]) THEN <<>> ELSE
  LET F == C.F  x1 == P[1]  y1 == P[2]
      lam == PNorm(PAdd(x1, GDiv(y1, x1, F)))
      x3 == PNorm(PAdd(PAdd(GSqr(lam, F), lam), E2A(C)))
      y3 == PNorm(PAdd(GSqr(x1, F), GMul(PAdd(lam, POne), x3, F)))
  IN <<x3, y3>>
E2Add(C, P, Q) ==
  IF E2IsO(P) THEN Q ELSE IF E2IsO(Q) THEN P ELSE
  LET F == C.F  x1 == P[1]  y1 == P[2]  x2 == Q[1]  y2 == Q[2]
  IN IF GEq(x1, x2) THEN (IF GEq(y1, y2) THEN E2Dbl(C, P) ELSE <<>>)
     ELSE LET lam == GDiv(PAdd(y1, y2), PAdd(x1, x2), F)
              x3 == PNorm(PAdd(PAdd(PAdd(PAdd(GSqr(lam, F), lam), x1), x2), E2A(C)))
              y3 == PNorm(PAdd(PAdd(GMul(lam, PAdd(x1, x3), F), x3), y1))
          IN <<x3, y3>>
\* THE DEFINITION of kP: double-and-add with the affine law
E2MulA(C, k, P) ==
  FoldLeft(LAMBDA acc, i : LET d == E2Dbl(C, acc) IN IF Bit(k, i) = 1 THEN E2Add(C, d, P) ELSE d,
           <<>>, Reverse(Rng(0, BitLen(k) - 1)))
\* Lopez-Dahab projective coordinates (X : Y : Z) ~ (X / Z, Y / Z^2), O = (1 : 0 : 0): textbook formulas (Hankerson, Menezes,
\* Vanstone, Guide to ECC, algorithms 3.24 / 3.25), used ONLY as a faster evaluation of kP (one inversion instead of one per
\* step); ref/SchemeVectors.tla checks E2Mul = E2MulA on a complete tiny curve and on the DSTU B.1 example.
LDO == <<POne, PZero, PZero>>
LDIsO(J) == PIsZero(J[3])
LDDbl(C, J) ==
  IF LDIsO(J) THEN LDO ELSE
  LET F == C.F  X1 == J[1]  Y1 == J[2]  Z1 == J[3]
      Z2 == GSqr(Z1, F)                         \* Z1^2
      X2 == GSqr(X1, F)                         \* X1^2
      bZ4 == GMul(C.B, GSqr(Z2, F), F)          \* b Z1^4
      Z3 == GMul(X2, Z2, F)
      X3 == PNorm(PAdd(GSqr(X2, F), bZ4))
      aZ3 == IF C.A = 1 THEN Z3 ELSE PZero
      Y3 == PNorm(PAdd(GMul(bZ4, Z3, F), GMul(X3, PAdd(PAdd(aZ3, GSqr(Y1, F)), bZ4), F)))
  IN <<X3, Y3, PNorm(Z3)>>
\* J + affine P (P # O)
LDAddA(C, J, P) ==
  IF LDIsO(J) THEN <<P[1], P[2], POne>> ELSE
  LET F == C.F  X1 == J[1]  Y1 == J[2]  Z1 == J[3]  x2 == P[1]  y2 == P[2]
      Z1s == GSqr(Z1, F)
      A == PNorm(PAdd(GMul(y2, Z1s, F), Y1))
      B == PNorm(PAdd(GMul(x2, Z1, F), X1))
  IN IF PIsZero(B) THEN (IF PIsZero(A) THEN LDDbl(C, <<x2, y2, POne>>) ELSE LDO) ELSE
     LET Cc == GMul(Z1, B, F)
         aZ == IF C.A = 1 THEN Z1s ELSE PZero
         D == GMul(GSqr(B, F), PAdd(Cc, aZ), F)
         Z3 == GSqr(Cc, F)
         E == GMul(A, Cc, F)
         X3 == PNorm(PAdd(PAdd(GSqr(A, F), D), E))
         Ff == PAdd(X3, GMul(x2, Z3, F))
         G == GMul(PAdd(x2, y2), GSqr(Z3, F), F)
         Y3 == PNorm(PAdd(GMul(PAdd(E, Z3), Ff, F), G))
     IN <<X3, Y3, PNorm(Z3)>>
LDToA(C, J) ==
  IF LDIsO(J) THEN <<>> ELSE
  LET zi == GInv(J[3], C.F) IN <<PNorm(GMul(J[1], zi, C.F)), PNorm(GMul(J[2], GSqr(zi, C.F), C.F))>>
E2Mul(C, k, P) ==
  IF E2IsO(P) THEN <<>> ELSE
  LDToA(C, FoldLeft(LAMBDA acc, i : LET d == LDDbl(C, acc) IN IF Bit(k, i) = 1 THEN LDAddA(C, d, P) ELSE d,
                    LDO, Reverse(Rng(0, BitLen(k) - 1))))

\* ------------------------------------------------------------------ dstu (DSTU 4145-2002)
\* 5.9: hash -> field element: the first m bits of the hash (zero padded), 0 -> 1
DstuH(hash, m) ==
  LET no == (m + 7) \div 8
      o == [i \in 1..no |-> IF i <= Len(hash) THEN hash[i] ELSE 0]
      h == PNorm(PTrunc(POfOct(o), m))
  IN IF PIsZero(h) THEN POne ELSE h
\* 5.8 / step 10: field element -> integer of |n| - 1 bits
DstuTrunc(y, nbits) == Norm(ModPow2(Num(PToOct(y, 2 * Len(y) + 2)), nbits - 1))
DstuSOf(e, d, r, n) == Mod(Add(e, Mul(d, r)), n)
\* 5.10: sig of ld bits = r (ld/16 octets, little-endian) || s; <<r, s, padding is zero>>
DstuSigParts(sig, ld, n) ==
  LET h == ld \div 16  on == (BitLen(n) + 7) \div 8
  IN <<Num(SubSeq(sig, 1, h)), Num(SubSeq(sig, h + 1, 2 * h)),
       \A i \in (on + 1)..h : sig[i] = 0 /\ sig[h + i] = 0>>
DstuLdOk(ld, n) == ld % 16 = 0 /\ ld >= 16 * ((BitLen(n) + 7) \div 8)
DstuSigInRange(r, s, n) == ~IsZero(r) /\ Less(r, n) /\ ~IsZero(s) /\ Less(s, n)
\* DSTU 4145-2002 section 11 (one-time key by 6.3: a chunk of O_OF_B(|n|) octets trimmed to |n| - 1 bits, 0 discarded):
\* R = eP, x_R = 0 -> repeat;  y = h x_R, r = trunc(y), r = 0 -> repeat;  s = (e + d r) mod n, s = 0 -> repeat
DstuSign(C, P, n, d, h, tape) ==
  LET nb == BitLen(n)
      len == (nb + 7) \div 8
  IN SignLoop(tape, len,
              LAMBDA j : LET e == Norm(ModPow2(Num(TapeChunk(tape, j, len)), nb - 1))
                         IN IF IsZero(e) THEN [why |-> "e=0", r |-> Zero, s |-> Zero]
                            ELSE LET R == E2Mul(C, e, P)
                                 IN IF E2IsO(R) \/ PIsZero(R[1]) THEN [why |-> "x=0", r |-> Zero, s |-> Zero]
                                    ELSE LET rr == DstuTrunc(GMul(h, R[1], C.F), nb)
                                         IN IF IsZero(rr) THEN [why |-> "r=0", r |-> Zero, s |-> Zero]
                                            ELSE LET ss == DstuSOf(e, d, rr, n)
                                                 IN IF IsZero(ss) THEN [why |-> "s=0", r |-> rr, s |-> Zero]
                                                    ELSE [why |-> "used", r |-> rr, s |-> ss],
              LAMBDA w : FALSE)                     \* the standard sets no limit on the number of discarded draws
\* 5.10: r and s, each in ld / 16 octets
DstuSigOct(r, s, ld) == Oct(r, ld \div 16) \o Oct(s, ld \div 16)
\* verification equation: R = sP + rQ, y = h x_R, r = trunc(y)
DstuVerifyEq(C, P, n, h, r, s, Q) ==
  LET R == E2Add(C, E2Mul(C, s, P), E2Mul(C, r, Q))
  IN ~E2IsO(R) /\ Eq(DstuTrunc(GMul(h, R[1], C.F), BitLen(n)), r)
\* 6.9 compression: x with its lowest bit replaced by tr(y / x); the zero abscissa stays zero
DstuCompress(C, x, y) ==
  IF PIsZero(x) THEN PZero
  ELSE LET t == GTr(GDiv(y, x, C.F), C.F)
       IN PNorm(PAdd(PAdd(x, <<PBit(x, 0)>>), <<t>>))
\* 6.10 recovery, characterised: (x, y) is THE point recovered from xp iff
\*   xp = 0: x = 0, y^2 = B;
\*   else:   x = xp with its lowest bit chosen so that tr(x) = A, (x, y) on the curve, tr(y / x) = lowest bit of xp.
DstuRecoverOk(C, xp, x, y) ==
  IF PIsZero(xp) THEN PIsZero(x) /\ GEq(GSqr(y, C.F), C.B)
  ELSE LET x0 == PNorm(PAdd(xp, <<PBit(xp, 0)>>))
           xr == IF GTr(x0, C.F) = C.A THEN x0 ELSE PNorm(PAdd(x0, POne))
       IN GEq(x, xr) /\ E2OnCurve(C, x, y) /\ GTr(GDiv(y, x, C.F), C.F) = PBit(xp, 0)
\* a point of the prime-order subgroup has tr(x) = A: for such points recovery inverts compression
DstuRoundTripDomain(C, x, y) == ~PIsZero(x) /\ E2OnCurve(C, x, y) /\ GTr(x, C.F) = C.A

\* ------------------------------------------------------------------ pfok (draft RD RB; pfok.h): the group B_p
MontR(l, p) == Mod(PowerOf2(l + 2), p)
MontPow(u, k, l, p) == LET R == MontR(l, p) IN MulMod(ModExp(MulMod(u, ModInv(R, p), p), k, p), R, p)
PfokPub(P, x) == MontPow(P.g, x, P.l, P.p)                                   \* g^(x)
PfokTrimKey(v, n) == Norm(ModPow2(v, n))                                     \* n bits of the number
PfokDH(P, x, y) == PfokTrimKey(MontPow(y, x, P.l, P.p), P.n)
\* MTI: n bits of  v^(x) xor y^(u)  (x, u own long-term / one-time private keys; y, v the peer's public keys)
PfokMTI(P, x, u, y, v) ==
  LET a == Oct(PfokTrimKey(MontPow(v, x, P.l, P.p), P.n), (P.n + 7) \div 8)
      b == Oct(PfokTrimKey(MontPow(y, u, P.l, P.p), P.n), (P.n + 7) \div 8)
  IN Num(XorS(a, b))
PfokPrivOk(P, x) == BitLen(x) <= P.r
PfokPubOk(P, y) == ~IsZero(y) /\ Less(y, P.p)
=============================================================================
