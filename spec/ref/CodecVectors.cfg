INIT Init
NEXT Next
INVARIANT VecGood
