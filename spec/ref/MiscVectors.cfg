INIT VInit
NEXT VNext
INVARIANT VecGood
