------------------------------- MODULE Botp -------------------------------
(* One-time passwords of STB 34.101.47 (botp) = RFC 4226 (HOTP), RFC 6238 (TOTP), RFC 6287
   (OCRA) over HMAC[belt-hash], as profiled by include/bee2/crypto/botp.h.
   Strings (passwords, suites, challenges) are sequences of character codes.

   RFC 4226, 5.3 (dynamic truncation, generalised to longer MACs by RFC 6238/6287):
     offset = low 4 bits of the LAST octet of the mac;
     P = mac[offset..offset+3] as a big-endian number with the top bit cleared;
     password = P mod 10^digit, in decimal with leading zeros.
   Counter: 8 octets, big-endian, incremented modulo 2^64.
   TOTP: the counter is the (already rounded) time stamp as 8 big-endian octets.
   OCRA (RFC 6287, 5.1): DataInput = suite || 00 || [C] || Q || [P] || [S] || [T],
     Q padded with zeros to 128 octets, C and T 8 big-endian octets. *)
EXTENDS BeltModes

Pow10 == <<1, 10, 100, 1000, 10000, 100000, 1000000, 10000000, 100000000, 1000000000>>
\* decimal digits of v (< 2^31) on n positions, most significant first, as character codes
Dec(v, n) == [i \in 1..n |-> 48 + ((v \div Pow10[n - i + 1]) % 10)]

DT(mac, digit) ==
  LET off == mac[Len(mac)] % 16
      p == ((mac[off + 1] % 128) * 16777216) + (mac[off + 2] * 65536) + (mac[off + 3] * 256) + mac[off + 4]
  IN Dec(p % Pow10[digit + 1], digit)

\* big-endian increment modulo 2^64
CtrNext(c) == Reverse(IncLE(Reverse(c)))
\* a 64-bit time stamp given as four 16-bit limbs (least significant first) -> 8 big-endian octets
TimeBE(t) == << t[4] \div 256, t[4] % 256, t[3] \div 256, t[3] % 256,
                t[2] \div 256, t[2] % 256, t[1] \div 256, t[1] % 256 >>

\* ---- HOTP / TOTP
HotpDigits == 6..8
HOTP(digit, key, ctr) == DT(HMAC(key, ctr), digit)
\* verification: <<accepted, counter afterwards>> (the counter advances only on success)
HOTPVerify(otp, key, ctr) ==
  IF Len(otp) \in HotpDigits /\ otp = HOTP(Len(otp), key, ctr) THEN <<TRUE, CtrNext(ctr)>> ELSE <<FALSE, ctr>>
TOTP(digit, key, tbe) == HOTP(digit, key, tbe)

-----------------------------------------------------------------------------
(* OCRA suite (RFC 6287, 6; profile of botp.h):
     "OCRA-1:HOTP-HBELT-" d ":" ["C-"] "Q" (A|N|H) xx ["-P" (HBELT|SHA1|SHA256|SHA512)] ["-S" nnn] ["-T" G]
     d in 4..9;  xx two digits, 04..64;  nnn three digits, <= 512;
     G = 1..59 "S" | 1..59 "M" | 1..48 "H", one or two digits without a leading zero.
   The recogniser walks the string left to right; a parse is [ok, pos, ...fields]. *)
LitPrefix == <<79, 67, 82, 65, 45, 49, 58, 72, 79, 84, 80, 45, 72, 66, 69, 76, 84, 45>>   \* "OCRA-1:HOTP-HBELT-"
LitHBELT  == <<72, 66, 69, 76, 84>>
LitSHA1   == <<83, 72, 65, 49>>
LitSHA256 == <<83, 72, 65, 50, 53, 54>>
LitSHA512 == <<83, 72, 65, 53, 49, 50>>

At(u, p) == IF p >= 1 /\ p <= Len(u) THEN u[p] ELSE 0          \* 0 = end of string
HasAt(u, p, lit) == p + Len(lit) - 1 <= Len(u) /\ Sub(u, p, p + Len(lit) - 1) = lit
IsDig(c) == c >= 48 /\ c <= 57
DigV(c) == c - 48

NoParse == [ok |-> FALSE, digit |-> 0, ctr |-> FALSE, qtype |-> "", qmax |-> 0, plen |-> 0, slen |-> 0, ts |-> 0]

SuiteParse(u) ==
  IF ~HasAt(u, 1, LitPrefix) THEN NoParse ELSE
  LET p1 == Len(LitPrefix) + 1                   \* digit
  IN IF ~(At(u, p1) >= 52 /\ At(u, p1) <= 57) \/ At(u, p1 + 1) # 58 THEN NoParse ELSE
  LET digit == DigV(u[p1])
      p2 == p1 + 2                               \* DataInput
      hasC == HasAt(u, p2, <<67, 45>>)
      p3 == IF hasC THEN p2 + 2 ELSE p2          \* Q
      qt == At(u, p3 + 1)
  IN IF At(u, p3) # 81 \/ qt \notin {65, 78, 72} \/ ~IsDig(At(u, p3 + 2)) \/ ~IsDig(At(u, p3 + 3)) THEN NoParse ELSE
  LET qmax == (10 * DigV(u[p3 + 2])) + DigV(u[p3 + 3])
      p4 == p3 + 4                               \* optional P
      hasP == HasAt(u, p4, <<45, 80>>)
      pl == IF ~hasP THEN <<0, 0>>
            ELSE IF HasAt(u, p4 + 2, LitHBELT) THEN <<32, 7>>
            ELSE IF HasAt(u, p4 + 2, LitSHA1) THEN <<20, 6>>
            ELSE IF HasAt(u, p4 + 2, LitSHA256) THEN <<32, 8>>
            ELSE IF HasAt(u, p4 + 2, LitSHA512) THEN <<64, 8>>
            ELSE <<-1, 0>>
  IN IF qmax < 4 \/ qmax > 64 \/ pl[1] < 0 THEN NoParse ELSE
  LET p5 == p4 + pl[2]                           \* optional S
      hasS == HasAt(u, p5, <<45, 83>>)
      sOk == ~hasS \/ (IsDig(At(u, p5 + 2)) /\ IsDig(At(u, p5 + 3)) /\ IsDig(At(u, p5 + 4)))
  IN IF ~sOk THEN NoParse ELSE
  LET slen == IF hasS THEN (100 * DigV(u[p5 + 2])) + (10 * DigV(u[p5 + 3])) + DigV(u[p5 + 4]) ELSE 0
      p6 == IF hasS THEN p5 + 5 ELSE p5          \* optional T
      hasT == HasAt(u, p6, <<45, 84>>)
      d1 == At(u, p6 + 2)
      two == IsDig(At(u, p6 + 3))
      num == IF two THEN (10 * DigV(d1)) + DigV(At(u, p6 + 3)) ELSE DigV(d1)
      unit == At(u, IF two THEN p6 + 4 ELSE p6 + 3)
      tOk == ~hasT \/ (/\ d1 >= 49 /\ d1 <= 57
                       /\ \/ unit = 83 /\ num <= 59
                          \/ unit = 77 /\ num <= 59
                          \/ unit = 72 /\ num <= 48)
      ts == IF ~hasT THEN 0 ELSE IF unit = 83 THEN num ELSE IF unit = 77 THEN 60 * num ELSE 3600 * num
      p7 == IF hasT THEN (IF two THEN p6 + 5 ELSE p6 + 4) ELSE p6
  IN IF slen > 512 \/ ~tOk \/ p7 # Len(u) + 1 THEN NoParse ELSE
     [ok |-> TRUE, digit |-> digit, ctr |-> hasC,
      qtype |-> IF qt = 65 THEN "A" ELSE IF qt = 78 THEN "N" ELSE "H",
      qmax |-> qmax, plen |-> pl[1], slen |-> slen, ts |-> ts]
SuiteOk(u) == SuiteParse(u).ok

\* the challenge must have 4..2*qmax octets
OCRAQOk(pr, q) == Len(q) >= 4 /\ Len(q) <= 2 * pr.qmax

\* ctr: 8 octets; p, s: at least plen / slen octets (only that many are used); tbe: 8 octets
OCRADataInput(u, pr, q, ctr, p, s, tbe) ==
  u \o <<0>> \o (IF pr.ctr THEN ctr ELSE <<>>) \o PadZ(q, 128)
    \o TakeN(p, pr.plen) \o TakeN(s, pr.slen) \o (IF pr.ts # 0 THEN tbe ELSE <<>>)
OCRAWith(u, pr, key, q, ctr, p, s, tbe) == DT(HMAC(key, OCRADataInput(u, pr, q, ctr, p, s, tbe)), pr.digit)
OCRA(u, key, q, ctr, p, s, tbe) == OCRAWith(u, SuiteParse(u), key, q, ctr, p, s, tbe)
=============================================================================
