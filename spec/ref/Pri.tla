-------------------------------- MODULE Pri --------------------------------
(* INTERFACE SUMMARY (EXTENDS Pri; numbers are BigNat values).
   small ints   IsPrimeInt16(v) (v < 65536, by definition)   PrimeSet16   OddPrimeSeq (3, 5, 7, ... < 65536)
   decided      MRBound (3 317 044 064 679 887 385 961 981)   Decidable(n) == n < MRBound
                IsPrimeMR(n)  (n < MRBound: deterministic Miller-Rabin with the published sufficient base sets)
                IsPrimeTD32(n) (n < 2^32: trial division by all primes < 2^16 - the definition; anchor of IsPrimeMR)
                SPRP(n, a)  (n odd > 2, a int not a multiple of n: n is a strong probable prime to base a)
   certificates CertOk(nodes)  CertProves(nodes, n)  (Pocklington / Brillhart-Lehmer-Selfridge n-1 certificates;
                nodes come from JSON: [n |-> little-endian octets, kind |-> "mr" | "pock", fs |-> <<<<child (0-based), e, a>>..>>])
                IsPrimeC(n, cert) == IF Decidable(n) THEN IsPrimeMR(n) ELSE CertProves(cert, n)
   composites   FactorWitness(n, f)   MRWitness(n, a)   SmallFactorWitness(n, v) (v int < 2^19)
   next prime   NextPrime(a, K) = [done, found, p]: least odd prime p >= a with BitLen(p) = BitLen(a) among the first
                K + 1 odd candidates (done = FALSE: not decided within K);  NextPrimeIs(a, found, p, K)
   factor base  BasePrime(i) (i from 0)   IsSieved(a, count)   IsSmooth(a, count)   (semantics of include/bee2/math/pri.h)
   No probabilistic statement enters: above MRBound primality is accepted only with a certificate checked here.
   Sources: Pomerance-Selfridge-Wagstaff 1980, Jaeschke 1993, Jiang-Deng 2014, Sorenson-Webster 2015 (base sets);
   Pocklington 1914, Brillhart-Lehmer-Selfridge 1975 Thm 5 / Crandall-Pomerance Thm 4.1.5 (certificates). *)
EXTENDS BigNat, FiniteSets

FromDec(ds) == FoldLeft(LAMBDA acc, d : Norm(AddInt(MulInt(acc, 10), d)), Zero, ds)

\* ---- small integers, by the definition of primality
IsPrimeInt16(v) == v >= 2 /\ \A d \in 2..Min2(v - 1, 255) : d * d > v \/ v % d # 0
SmallP == {p \in 2..255 : IsPrimeInt16(p)}
NoSmallDiv(v) == \A d \in SmallP : d * d > v \/ v % d # 0
PrimeSet16 == {p \in 2..65535 : NoSmallDiv(p)}
OddPrimeSeq == SelectSeq([i \in 1..32767 |-> 2 * i + 1], NoSmallDiv)
\* the (i+1)-th odd prime, i from 0 (priBasePrime)
BasePrime(i) == OddPrimeSeq[i + 1]

RemInt(n, v) == DivModInt(Norm(n), v)[2]                 \* n mod v for an int 0 < v < 2^19
\* n < 2^32 (indeed n < 65537^2): prime iff >= 2 and no prime below 2^16 other than n itself divides it
IsPrimeTD32(n) == ~Less(n, Two) /\ \A p \in PrimeSet16 : Eq(n, OfInt(p)) \/ RemInt(n, p) # 0

\* ---- Miller-Rabin
\* number of trailing zero bits of m > 0
TwoAdic(m) == FoldLeft(LAMBDA acc, k : IF acc < 0 /\ Bit(m, k) = 1 THEN k ELSE acc, -1, Rng(0, BitLen(m) - 1))
\* n odd, n > 2, a an int with a mod n # 0: a^d = 1 or a^(d 2^r) = -1 (mod n) for some 0 <= r < s, where n - 1 = d 2^s
SPRP(n, a) ==
  LET nm1 == Norm(Sub2(n, One))
      s == TwoAdic(nm1)
      d == Norm(Shr(nm1, s))
      x0 == ModExp(Mod(OfInt(a), n), d, n)
      fin == FoldLeft(LAMBDA st, i : IF st[2] THEN st
                                     ELSE LET y == MulMod(st[1], st[1], n) IN <<y, Eq(y, nm1)>>,
                      <<x0, Eq(x0, One) \/ Eq(x0, nm1)>>, Rng(1, s - 1))
  IN fin[2]

Base13 == <<2, 3, 5, 7, 11, 13, 17, 19, 23, 29, 31, 37, 41>>
MRBound == FromDec(<<3,3,1,7,0,4,4,0,6,4,6,7,9,8,8,7,3,8,5,9,6,1,9,8,1>>)
Decidable(n) == Less(n, MRBound)
\* psi_k = least composite that is a strong pseudoprime to the first k prime bases
Psi == << <<1, FromDec(<<2,0,4,7>>)>>,
          <<2, FromDec(<<1,3,7,3,6,5,3>>)>>,
          <<3, FromDec(<<2,5,3,2,6,0,0,1>>)>>,
          <<4, FromDec(<<3,2,1,5,0,3,1,7,5,1>>)>>,
          <<5, FromDec(<<2,1,5,2,3,0,2,8,9,8,7,4,7>>)>>,
          <<6, FromDec(<<3,4,7,4,7,4,9,6,6,0,3,8,3>>)>>,
          <<7, FromDec(<<3,4,1,5,5,0,0,7,1,7,2,8,3,2,1>>)>>,
          <<9, FromDec(<<3,8,2,5,1,2,3,0,5,6,5,4,6,4,1,3,0,5,1>>)>>,
          <<12, FromDec(<<3,1,8,6,6,5,8,5,7,8,3,4,0,3,1,1,5,1,1,6,7,4,6,1>>)>>,
          <<13, MRBound>> >>
\* number of bases sufficient for n (n < MRBound)
BaseCount(n) == FoldLeft(LAMBDA acc, e : IF acc = 0 /\ Less(n, e[2]) THEN e[1] ELSE acc, 0, Psi)
IsPrimeMR(n) ==
  IF BitLen(n) <= 16 THEN IsPrimeInt16(ToInt(n))
  ELSE IF ~IsOdd(n) THEN FALSE
  ELSE IF \E i \in 1..13 : RemInt(n, Base13[i]) = 0 THEN FALSE
  ELSE LET k == BaseCount(n) IN k > 0 /\ \A i \in 1..k : SPRP(n, Base13[i])

\* ---- composites: a witness is checked, never searched
FactorWitness(n, f) == Less(One, f) /\ Less(f, n) /\ IsZero(Mod(n, f))
SmallFactorWitness(n, v) == v > 1 /\ Less(OfInt(v), n) /\ RemInt(n, v) = 0
MRWitness(n, a) == IsOdd(n) /\ Less(OfInt(3), n) /\ a > 1 /\ Less(OfInt(a), n) /\ ~SPRP(n, a)

\* ---- n-1 certificates
NodeNat(nd) == Norm(FromOctets(nd.n))
PowNat(q, e) == FoldLeft(LAMBDA acc, i : Mul(acc, q), One, Rng(1, e))
IsSquare(v) == LET s == Sqrt(v) IN Eq(Mul(s, s), v)
NodeOk(nodes, proved, i) ==
  LET nd == nodes[i]
      n == NodeNat(nd)
  IN IF nd.kind = "mr" THEN Decidable(n) /\ IsPrimeMR(n)
     ELSE IF nd.kind # "pock" THEN FALSE
     ELSE
       LET nm1 == Norm(Sub2(n, One))
           facOk(f) ==
             /\ f[1] >= 0 /\ f[1] + 1 < i /\ f[2] >= 1 /\ f[3] >= 2
             /\ proved[f[1] + 1]
             /\ LET q == NodeNat(nodes[f[1] + 1])
                    qr == DivMod(nm1, q)
                    b == ModExp(OfInt(f[3]), qr[1], n)
                IN /\ IsZero(qr[2])
                   /\ Eq(ModExp(b, q, n), One)                      \* a^(n-1) = 1
                   /\ ~IsZero(b)
                   /\ Eq(GCD(Norm(Sub2(b, One)), n), One)          \* gcd(a^((n-1)/q) - 1, n) = 1
           okAll == \A k \in 1..Len(nd.fs) : facOk(nd.fs[k])
           distinct == \A k, m \in 1..Len(nd.fs) : k = m \/ nd.fs[k][1] # nd.fs[m][1]
           F == FoldLeft(LAMBDA acc, f : Mul(acc, PowNat(NodeNat(nodes[f[1] + 1]), f[2])), One, nd.fs)
           FF == Mul(F, F)
           R == DivMod(nm1, F)
           c == DivMod(R[1], F)                                      \* n = c[1] F^2 + c[2] F + 1
           c1sq == Mul(c[2], c[2])
           c2x4 == MulInt(c[1], 4)
       IN /\ Less(Two, n) /\ IsOdd(n)
          /\ Len(nd.fs) >= 1 /\ okAll /\ distinct
          /\ IsZero(R[2])
          /\ \/ Less(n, FF)
             \/ /\ Less(n, Mul(FF, F))
                /\ (Less(c1sq, c2x4) \/ ~IsSquare(Norm(Sub2(c1sq, c2x4))))
CertOk(nodes) ==
  LET proved == FoldLeft(LAMBDA acc, i : Append(acc, NodeOk(nodes, acc, i)), <<>>, Rng(1, Len(nodes)))
  IN Len(nodes) >= 1 /\ proved[Len(nodes)]
CertProves(nodes, n) == Len(nodes) >= 1 /\ Eq(NodeNat(nodes[Len(nodes)]), n) /\ CertOk(nodes)
IsPrimeC(n, cert) == IF Decidable(n) THEN IsPrimeMR(n) ELSE CertProves(cert, n)

\* ---- next prime: the least odd prime >= a of the same bit length (include/bee2/math/pri.h)
NextPrime(a, K) ==
  LET l == BitLen(a)
      c0 == IF IsOdd(a) THEN Norm(a) ELSE Norm(AddInt(a, 1))
      none == [done |-> TRUE, found |-> FALSE, p |-> Zero]
      step(st, k) ==
        IF st.done THEN st
        ELSE LET c == Norm(AddInt(c0, 2 * k))
             IN IF BitLen(c) # l THEN none
                ELSE IF IsPrimeMR(c) THEN [done |-> TRUE, found |-> TRUE, p |-> c]
                ELSE st
  IN IF l <= 1 THEN none
     ELSE FoldLeft(step, [done |-> FALSE, found |-> FALSE, p |-> Zero], Rng(0, K))
\* a reported answer (found, p) is the specified one (FALSE also when the search window K did not decide)
NextPrimeIs(a, found, p, K) ==
  LET r == NextPrime(a, K) IN r.done /\ r.found = found /\ (found => Eq(r.p, p))

\* ---- factor base (first odd primes): sieved / smooth numbers
\* sieved: odd and not divisible by the first count odd primes (so a base prime itself is not sieved; 1 is)
IsSieved(a, count) == IsOdd(a) /\ \A i \in 1..count : RemInt(a, OddPrimeSeq[i]) # 0
\* smooth: divisible by 2 and the first count odd primes only (1 is smooth, 0 is not):
\* every prime factor of a divides P = 2 * p_1 * ... * p_count  <=>  a | P^BitLen(a)   (exponents in a are <= BitLen(a))
IsSmooth(a, count) ==
  /\ ~IsZero(a)
  /\ LET P == FoldLeft(LAMBDA acc, i : Mod(MulInt(acc, OddPrimeSeq[i]), a), Mod(Two, a), Rng(1, count))
     IN IsZero(ModExp(P, OfInt(BitLen(a)), a))
=============================================================================
