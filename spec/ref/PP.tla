--------------------------------- MODULE PP ---------------------------------
(* include/bee2/math/pp.h as mathematics over lib/GF2Poly.tla.  A polynomial [n]a is the sequence of its
   16-bit limbs (n*W/16 limbs, little-endian), which is already a GF2Poly value.  W = bits per machine
   word, X = x^W.  Results stored in [n] words are compared after PFit to n*W/16 limbs. *)
EXTENDS GF2Poly

PLW(W) == W \div 16
\* degree (the header returns SIZE_MAX for the zero polynomial: -1 here)
ppDeg(a) == PDeg(a)
\* b + X^n * carry <- a * w : <<low n words, carry word>>
SplitP(p, L) == <<PFit(p, L), PFit(IF Len(p) > L THEN SubSeq(p, L + 1, Len(p)) ELSE <<>>, 0)>>
ppMulW(a, w) == PMul(a, w)
ppAddMulW(b, a, w) == PAdd(b, PMul(a, w))
ppMul(a, b) == PMul(a, b)
ppSqr(a) == PMul(a, a)
\* (q, r) is correct iff a = q*b + r and deg r < deg b
ppDivOk(q, r, a, b) == PEq(a, PAdd(PMul(q, b), r)) /\ PDeg(r) < PDeg(b)
ppDiv(a, b) == PDivMod(a, b)
ppMod(a, b) == PMod(a, b)
ppGCD(a, b) == PGCD(a, b)
\* d = gcd(a, b) and a*da + b*db == d (coefficients are not unique: the identity is the statement)
ppExGCDOk(d, da, db, a, b) == PEq(d, PGCD(a, b)) /\ PEq(PAdd(PMul(a, da), PMul(b, db)), d)
ppMulMod(a, b, mod) == PMulMod(a, b, mod)
ppSqrMod(a, mod) == PMulMod(a, a, mod)
ppInvMod(a, mod) == PInvMod(a, mod)                          \* 0 when gcd(a, mod) # 1
ppDivMod(dv, a, mod) == LET i == PInvMod(a, mod)
                        IN IF PIsZero(i) /\ PDeg(mod) > 0 THEN PZero ELSE PMulMod(dv, i, mod)
ppRed(a, mod) == PMod(a, mod)
\* x^m + x^k + 1,  x^m + x^k + x^l + x^l1 + 1,  x^128 + x^7 + x^2 + x + 1
Trinomial(m, k) == PAdd(PAdd(PMonomial(m), PMonomial(k)), POne)
Pentanomial(m, k, l, l1) == PAdd(PAdd(Trinomial(m, k), PMonomial(l)), PMonomial(l1))
ppRedTrinomial(a, m, k) == PMod(a, Trinomial(m, k))
ppRedPentanomial(a, m, k, l, l1) == PMod(a, Pentanomial(m, k, l, l1))
BeltPoly == Pentanomial(128, 7, 2, 1)
ppRedBelt(a) == PMod(a, BeltPoly)
ppIsIrred(a) == PIsIrred(a)                                  \* pre (generator): deg a >= 1
\* minimal polynomial of the sequence of the 2l bits of a: first element bit 2l-1, ..., last element bit 0
ppMinPoly(a, l) == PMinPolySeq(PStrict([i \in 1..(2 * l) |-> PBit(a, 2 * l - i)]))
\* minimal polynomial of a as an element of GF(2)[x]/(mod): the monic polynomial g of the least degree with
\* g(a) = 0 (mod mod).  It is the minimal polynomial of the sequence of any generic linear projection of
\* 1, a, a^2, ...; here it is checked through its definition: g(a) = 0 and no proper divisor of g annihilates a.
PEval(g, a, mod) ==        \* g(a) mod mod by Horner
  FoldLeft(LAMBDA acc, k : LET t == PMulMod(acc, a, mod) IN IF PBit(g, k) = 1 THEN PAdd(t, POne) ELSE t,
           PZero, Reverse(PRng(0, PDeg(g))))
=============================================================================
