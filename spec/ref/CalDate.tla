------------------------------ MODULE CalDate ------------------------------
(* include/bee2/core/tm.h, sections tm-time and tm-date: UNIX time = seconds since
   1970-01-01T00:00:00Z; a date is a triple (year, month 1..12, day of month 1..28/29/30/31) of the
   Gregorian calendar, "bound to the current time zone"; YYMMDD = six octets, one decimal digit
   each, year of the 21st century.

   The date of day number n (n = 0 is 1970-01-01) is defined declaratively: the year is the
   unique y whose first day is <= n < first day of y + 1, likewise the month.  Time stamps travel
   as <<days, second of day>> (a 2100 time stamp does not fit a TLC integer). *)
EXTENDS Integers, Sequences

IsLeapY(y) == y % 400 = 0 \/ (y % 4 = 0 /\ y % 100 # 0)
MonthLen(y, m) == IF m \in {4, 6, 9, 11} THEN 30 ELSE IF m = 2 THEN (IF IsLeapY(y) THEN 29 ELSE 28) ELSE 31
\* number of leap years in 1..k
LeapsUpTo(k) == (k \div 4) - (k \div 100) + (k \div 400)
\* day number of y-01-01
YearStart(y) == (365 * (y - 1970)) + LeapsUpTo(y - 1) - LeapsUpTo(1969)
\* day of the year (0-based) on which month m starts; m = 13: length of the year
MonthStart(y, m) == LET RECURSIVE acc(_)
                        acc(k) == IF k = 0 THEN 0 ELSE acc(k - 1) + MonthLen(y, k)
                    IN acc(m - 1)
Years == 1969..2200
DateOfDay(n) ==
  LET y == CHOOSE yy \in Years : YearStart(yy) <= n /\ n < YearStart(yy + 1)
      r == n - YearStart(y)
      m == CHOOSE mm \in 1..12 : MonthStart(y, mm) <= r /\ r < MonthStart(y, mm + 1)
  IN <<y, m, (r - MonthStart(y, m)) + 1>>
\* local date of the time stamp days * 86400 + sod in a zone off seconds east of Greenwich (|off| < 86400)
FloorDiv(a, b) == IF a >= 0 THEN a \div b ELSE -(((-a) + b - 1) \div b)
LocalDate(days, sod, off) == DateOfDay(days + FloorDiv(sod + off, 86400))
YYMMDD(dt) == LET yy == dt[1] - 2000
              IN <<yy \div 10, yy % 10, dt[2] \div 10, dt[2] % 10, dt[3] \div 10, dt[3] % 10>>

\* anchors (day numbers computed independently: python datetime)
CalAnchors ==
  /\ DateOfDay(-1) = <<1969, 12, 31>>       /\ DateOfDay(-365) = <<1969, 1, 1>>
  /\ DateOfDay(0) = <<1970, 1, 1>>          /\ DateOfDay(10956) = <<1999, 12, 31>>
  /\ DateOfDay(10957) = <<2000, 1, 1>>      /\ DateOfDay(11016) = <<2000, 2, 29>>
  /\ DateOfDay(11017) = <<2000, 3, 1>>      /\ DateOfDay(19782) = <<2024, 2, 29>>
  /\ DateOfDay(20088) = <<2024, 12, 31>>    /\ DateOfDay(20723) = <<2026, 9, 27>>
  /\ DateOfDay(24855) = <<2038, 1, 19>>     /\ DateOfDay(47481) = <<2099, 12, 31>>
  /\ DateOfDay(47482) = <<2100, 1, 1>>      /\ DateOfDay(47540) = <<2100, 2, 28>>
  /\ DateOfDay(47541) = <<2100, 3, 1>>
  /\ LocalDate(10956, 86399, 1) = <<2000, 1, 1>> /\ LocalDate(10957, 0, -1) = <<1999, 12, 31>>
  /\ \A y \in 1970..2110 : YearStart(y + 1) - YearStart(y) = (IF IsLeapY(y) THEN 366 ELSE 365)
  /\ YYMMDD(<<2022, 7, 29>>) = <<2, 2, 0, 7, 2, 9>>              \* the example of tm.h
=============================================================================
