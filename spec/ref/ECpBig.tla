------------------------------- MODULE ECpBig -------------------------------
(* ECp over BigNat: p, field elements and scalars are BigNat numbers; field elements are kept
   fully reduced and normalised (Norm), so points compare with "=".
   Usage:  EB == INSTANCE ECpBig   then  EB!ScalarMulJ(E, k, P);  BCurve(p, A, B) builds a curve record,
   BPt16(x16, y16) a point from 16-bit limb arrays. *)
EXTENDS BigNat

BAdd(a, b, p) == LET s == Add(a, b) IN IF Less(s, p) THEN Norm(s) ELSE Norm(Sub2(s, p))
BSub(a, b, p) == IF Less(a, b) THEN Norm(Sub2(Add(a, p), b)) ELSE Norm(Sub2(a, b))
BMul(a, b, p) == Mod(Mul(a, b), p)
BBits(k) == LET n == BitLen(k) IN Strict([i \in 1..n |-> Bit(k, n - i)])
BPow(a, e, p) == ModExp(a, e, p)
BInv(a, p) == ModInv(a, p)

INSTANCE ECp WITH FAdd <- BAdd, FSub <- BSub, FMul <- BMul, FInv <- BInv, FPow <- BPow,
                  FIn <- LAMBDA a, p : Less(a, p),
                  FIsZero <- LAMBDA a : IsZero(a),
                  FOfInt <- LAMBDA v : OfInt(v),
                  SBits <- BBits,
                  PMinus2 <- LAMBDA p : Norm(Sub2(p, Two)),
                  SwuExp <- LAMBDA p : Norm(Sub2(Sub2(p, One), Div(Add(p, One), <<4>>))),
                  SqrtExp <- LAMBDA p : Norm(Div(Add(p, One), <<4>>)),
                  PMod4 <- LAMBDA p : Get(p, 1) % 4

BCurve(p, A, B) == [p |-> Norm(p), A |-> Mod(A, p), B |-> Mod(B, p)]
BPt(x, y) == <<Norm(x), Norm(y)>>
=============================================================================
