------------------------------- MODULE PriBase -------------------------------
(* include/bee2/math/pri.h: the functions of the factor base and of prime extension that ref/Pri.tla does not define.
   Factor base = the first odd primes (priBasePrime(i) = the (i+1)-th odd prime = Pri!BasePrime(i)). *)
EXTENDS Pri

\* priBaseMod(mods, a, n, count): mods[i] = a mod (i-th element of the factor base), i = 0..count-1.
\* mods = the logged array of count machine words (LWd 16-bit limbs each)
priBaseModOk(mods, a, count, LWd) ==
  /\ Len(mods) = count * LWd
  /\ \A i \in 1..count : Eq(From16(SubSeq(mods, (i - 1) * LWd + 1, i * LWd)), OfInt(RemInt(a, OddPrimeSeq[i])))

\* priExtendPrime2(p, l, q, n, a, m, ...): on success p is a prime of bit length l of the form 2 * q * a * r + 1
\* (priExtendPrime: a = 1).  Judged for p < MRBound (l <= 81), where primality is decided without error.
\* mustfind: the case has thousands of admissible r and all candidates are tried (trials = SIZE_MAX), so FALSE
\* ("the required prime is not found") is not an admissible answer.
priExtendOk(ok, p, l, q, a, mustfind) ==
  /\ ok \in {0, 1}
  /\ (mustfind => ok = 1)
  /\ (ok = 1 => /\ BitLen(p) = l
                /\ Decidable(p)
                /\ IsZero(Mod(Norm(Sub2(p, One)), Mul(Two, Mul(q, a))))
                /\ IsPrimeMR(p))
=============================================================================
