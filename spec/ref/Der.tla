-------------------------------- MODULE Der --------------------------------
(* X.690 DER as restricted by include/bee2/core/der.h.  Written from the header's text and
   from X.690 (8.1.2 identifier octets, 8.1.3 / 10.1 length octets, 8.3 INTEGER, 8.6 / 11.2
   BIT STRING, 8.19 OBJECT IDENTIFIER), not from der.c.

   Every decoder is a PARTIAL function on octet strings: it returns Fail or a record
   [ok |-> TRUE, n |-> consumed length, ...value fields].  Canonicity of DER is the law
   Enc(Dec(x)) = TakeN(x, n) (checked by TLC in CodecVectors and on every recorded line).

   Representations (TLC integers are 32-bit):
     tag     the octets of the tag field, e.g. <<127, 33>> for 0x7F21; the u32 "ready code" of
             der.h is the big-endian number written by these octets (<<0>> for the code 0);
     BN      a natural number as its minimal big-endian octet string (<<>> for 0); used for
             lengths (size_t) and SIZE values;
     W       a 32-bit word <<lo16, hi16>> (Bytes.tla), used for OID arcs;
     chars   character strings are sequences of character codes (1..255).              *)
EXTENDS Bytes

Fail == [ok |-> FALSE]

\* ---------------------------------------------------------------- naturals as octet strings
BNNorm(s) == LET k == SelectInSeq(s, LAMBDA x : x # 0) IN IF k = 0 THEN <<>> ELSE Sub(s, k, Len(s))
BNFromInt(v) == BNNorm(BE(v, 4))                               \* 0 <= v < 2^31
BNIsSmall(b) == Len(b) <= 3                                    \* value < 2^24
BNToInt(b) == FoldLeft(LAMBDA acc, x : (acc * 256) + x, 0, b)  \* only for BNIsSmall(b)
SizeTOctets == 8                                               \* octets per size_t (LP64)
BNAllFF(b) == \A i \in 1..Len(b) : b[i] = 255
\* a value the API can return in a size_t: fits 8 octets and is not SIZE_MAX (reserved error code)
BNIsSizeT(b) == Len(b) <= SizeTOctets /\ ~(Len(b) = SizeTOctets /\ BNAllFF(b))

\* ---------------------------------------------------------------- tag field (X.690 8.1.2)
\* low-tag-number form: one octet whose 5 low bits are not all ones (numbers 0..30);
\* high-tag-number form: leading octet xxx11111, then base-128 digits, most significant first,
\* all but the last with bit 8 set; the first digit is not zero (8.1.2.4.2 c); numbers >= 31 only
\* (8.1.2.2 / der.h); the whole field fits a u32 (der.h: at most 4 octets).
TDec(s) ==
  IF Len(s) = 0 THEN Fail
  ELSE IF s[1] % 32 # 31 THEN [ok |-> TRUE, n |-> 1, tag |-> <<s[1]>>]
  ELSE LET j == SelectInSeq(Sub(s, 2, Min2(Len(s), 5)), LAMBDA x : x < 128)   \* terminating digit
       IN IF j = 0 THEN Fail                               \* truncated, or more than 4 octets
          ELSE IF s[2] = 128 THEN Fail                     \* leading zero digit
          ELSE IF j = 1 /\ s[2] < 31 THEN Fail             \* number < 31 in the long form
          ELSE IF j + 1 > 4 THEN Fail                      \* does not fit u32
          ELSE [ok |-> TRUE, n |-> j + 1, tag |-> Sub(s, 1, j + 1)]

\* is the octet string t (1..4 octets, no leading zero octet unless t = <<0>>) a well-formed tag code?
TagValid(t) == LET d == TDec(t) IN d.ok /\ d.n = Len(t)
TagIsConstructed(t) == (t[1] \div 32) % 2 = 1
TEnc(t) == IF TagValid(t) THEN t ELSE Fail
\* tag code of a u32 given as its 4 big-endian octets
TagOfU32(o4) == IF BNNorm(o4) = <<>> THEN <<0>> ELSE BNNorm(o4)

\* ---------------------------------------------------------------- length field (8.1.3, 10.1)
\* definite form only, minimal number of octets; 0x80 (indefinite) and 0xFF (reserved) are errors
LDec(s) ==
  IF Len(s) = 0 THEN Fail
  ELSE IF s[1] = 128 \/ s[1] = 255 THEN Fail
  ELSE IF s[1] < 128 THEN [ok |-> TRUE, n |-> 1, len |-> BNFromInt(s[1])]
  ELSE LET r == s[1] - 128 IN
       IF Len(s) < 1 + r THEN Fail                         \* truncated inside the length field
       ELSE IF s[2] = 0 THEN Fail                          \* leading zero octet: not minimal
       ELSE IF r = 1 /\ s[2] < 128 THEN Fail               \* short form was possible
       ELSE IF ~BNIsSizeT(Sub(s, 2, 1 + r)) THEN Fail      \* does not fit size_t
       ELSE [ok |-> TRUE, n |-> 1 + r, len |-> Sub(s, 2, 1 + r)]

LEnc(b) == IF Len(b) = 0 THEN <<0>>
           ELSE IF Len(b) = 1 /\ b[1] < 128 THEN b
           ELSE <<128 + Len(b)>> \o b

\* ---------------------------------------------------------------- TL pair, TLV
TLDec(s) ==
  LET t == TDec(s) IN
  IF ~t.ok THEN Fail
  ELSE LET l == LDec(DropN(s, t.n)) IN
       IF ~l.ok THEN Fail
       ELSE [ok |-> TRUE, n |-> t.n + l.n, tag |-> t.tag, len |-> l.len]

TLEnc(t, b) == IF TagValid(t) THEN t \o LEnc(b) ELSE Fail
Enc(t, v) == IF TagValid(t) THEN t \o LEnc(BNFromInt(Len(v))) \o v ELSE Fail

\* derDec: the value must lie inside the given octets
Dec(s) ==
  LET h == TLDec(s) IN
  IF ~h.ok THEN Fail
  ELSE IF ~BNIsSmall(h.len) THEN Fail                      \* longer than any buffer we can hold
  ELSE LET l == BNToInt(h.len) IN
       IF h.n + l > Len(s) THEN Fail
       ELSE [ok |-> TRUE, n |-> h.n + l, tag |-> h.tag, val |-> Sub(s, h.n + 1, h.n + l)]

IsValid(s) == LET d == Dec(s) IN d.ok /\ d.n = Len(s)
IsValid2(s, t) == LET d == Dec(s) IN d.ok /\ d.n = Len(s) /\ d.tag = t
StartsWith(s, t) == LET d == TDec(s) IN d.ok /\ d.tag = t
Dec2(s, t) == LET d == Dec(s) IN IF d.ok /\ d.tag = t THEN d ELSE Fail
Dec3(s, t, l) == LET d == Dec(s) IN IF d.ok /\ d.tag = t /\ Len(d.val) = l THEN d ELSE Fail
Dec4(s, t, v) == LET d == Dec(s) IN IF d.ok /\ d.tag = t /\ d.val = v THEN d ELSE Fail

\* ---------------------------------------------------------------- INTEGER (8.3): SIZE and UINT
\* at least one octet; two's complement, so bit 8 of the first octet set = negative (unsupported);
\* minimal: the first nine bits are not all zero
IntContentOk(v) == /\ Len(v) >= 1
                   /\ v[1] < 128
                   /\ ~(Len(v) > 1 /\ v[1] = 0 /\ v[2] < 128)
IntContent(b) == IF b = <<>> THEN <<0>> ELSE IF b[1] >= 128 THEN <<0>> \o b ELSE b   \* b: BN

\* SIZE: a non-negative INTEGER that fits size_t; value as BN
SizeDec(s, t) ==
  LET d == Dec2(s, t) IN
  IF ~d.ok THEN Fail
  ELSE IF ~IntContentOk(d.val) \/ Len(BNNorm(d.val)) > SizeTOctets THEN Fail
  ELSE [ok |-> TRUE, n |-> d.n, val |-> BNNorm(d.val)]
SizeEnc(t, b) == Enc(t, IntContent(b))
SizeDec2(s, t, b) == LET d == SizeDec(s, t) IN IF d.ok /\ d.val = b THEN d ELSE Fail

\* UINT: a non-negative INTEGER of any size as a little-endian octet string; the decoded string
\* has no insignificant zero octets (der.h: val[len - 1] = 0 <=> len = 1)
UintDec(s, t) ==
  LET d == Dec2(s, t) IN
  IF ~d.ok THEN Fail
  ELSE IF ~IntContentOk(d.val) THEN Fail
  ELSE LET m == IF Len(d.val) > 1 /\ d.val[1] = 0 THEN Tail(d.val) ELSE d.val
       IN [ok |-> TRUE, n |-> d.n, val |-> Reverse(m)]
UintDec2(s, t, l) == LET d == UintDec(s, t) IN IF d.ok /\ Len(d.val) = l THEN d ELSE Fail
\* encoder: pre Len(le) > 0; insignificant (high-order) zero octets are dropped
UintEnc(t, le) == Enc(t, IntContent(BNNorm(Reverse(le))))

\* ---------------------------------------------------------------- BIT STRING (8.6, 11.2)
\* content = number of unused bits (0..7) followed by the octets; no octets => 0 unused bits;
\* DER 11.2.1: every unused bit is zero
BitDec(s, t) ==
  LET d == Dec2(s, t) IN
  IF ~d.ok THEN Fail
  ELSE LET v == d.val IN
       IF Len(v) < 1 THEN Fail
       ELSE IF v[1] > 7 THEN Fail
       ELSE IF Len(v) = 1 /\ v[1] # 0 THEN Fail
       ELSE IF Len(v) > 1 /\ (v[Len(v)] % (2 ^ v[1])) # 0 THEN Fail
       ELSE [ok |-> TRUE, n |-> d.n, val |-> Tail(v), bits |-> (8 * (Len(v) - 1)) - v[1]]
BitDec2(s, t, bits) == LET d == BitDec(s, t) IN IF d.ok /\ d.bits = bits THEN d ELSE Fail
\* encoder: octets [(bits + 7) / 8]v, unused low bits of the last octet are cleared
BitEnc(t, v, bits) ==
  LET k == (bits + 7) \div 8
      u == (8 - (bits % 8)) % 8
      w == [i \in 1..k |-> IF i = k THEN v[i] - (v[i] % (2 ^ u)) ELSE v[i]]
  IN Enc(t, <<u>> \o w)

\* ---------------------------------------------------------------- OCTET STRING, NULL
OctDec(s, t) == Dec2(s, t)
OctDec2(s, t, l) == Dec3(s, t, l)
OctEnc(t, v) == Enc(t, v)
NullEnc == <<5, 0>>
NullDec(s) == Dec4(s, <<5>>, <<>>)

\* ---------------------------------------------------------------- PrintableString
PrintableCodes == (48..57) \cup (65..90) \cup (97..122) \cup {32, 39, 40, 41, 43, 44, 45, 46, 47, 58, 61, 63}
IsPrintable(v) == \A i \in 1..Len(v) : v[i] \in PrintableCodes
PstrDec(s, t) == LET d == Dec2(s, t) IN IF d.ok /\ IsPrintable(d.val) THEN d ELSE Fail
PstrEnc(t, v) == IF IsPrintable(v) THEN Enc(t, v) ELSE Fail

\* ---------------------------------------------------------------- OBJECT IDENTIFIER (8.19)
\* u32 arithmetic on W = <<lo16, hi16>>
WMul128Add(w, d) == << ((w[1] % 512) * 128) + d, (w[2] * 128) + (w[1] \div 512) >>   \* hi may exceed 16 bits
WMul10Add(w, d) == LET l == (w[1] * 10) + d IN << l % 65536, (w[2] * 10) + (l \div 65536) >>
WFits(w) == w[2] < 65536
WLess(a, b) == a[2] < b[2] \/ (a[2] = b[2] /\ a[1] < b[1])
WOfInt(i) == << i % 65536, i \div 65536 >>
\* decimal digits (character codes) of a u32
WDivMod10(w) == LET qh == w[2] \div 10
                    t  == ((w[2] % 10) * 65536) + w[1]
                IN << <<t \div 10, qh>>, t % 10 >>
WToDec(w) ==
  LET st == FoldLeft(LAMBDA acc, i : IF acc[1] = W0 /\ i > 1 THEN acc
                                      ELSE LET qr == WDivMod10(acc[1]) IN << qr[1], <<48 + qr[2]>> \o acc[2] >>,
                     << w, <<>> >>, Upto(10))
  IN st[2]
\* base-128 digits of a u32, most significant first, minimal, continuation bits set
WToBase128(w) ==
  LET g == << w[2] \div 4096, (w[2] \div 32) % 128, ((w[2] % 32) * 4) + (w[1] \div 16384),
              (w[1] \div 128) % 128, w[1] % 128 >>
      k == SelectInSeq(g, LAMBDA x : x # 0)
      f == IF k = 0 THEN 5 ELSE k
  IN [i \in 1..(6 - f) |-> IF i = 6 - f THEN g[f + i - 1] ELSE 128 + g[f + i - 1]]

\* subidentifiers of an OID content: sequence of W, or Fail
\* state: <<current W, inside a subidentifier?, arcs so far, error?>>
SidsOf(v) ==
  LET st == FoldLeft(LAMBDA a, o :
                IF a[4] THEN a
                ELSE IF ~a[2] /\ o = 128 THEN <<a[1], a[2], a[3], TRUE>>          \* leading zero digit
                ELSE LET w == WMul128Add(a[1], o % 128) IN
                     IF ~WFits(w) THEN <<a[1], a[2], a[3], TRUE>>                 \* arc exceeds u32
                     ELSE IF o < 128 THEN <<W0, FALSE, Append(a[3], w), FALSE>>
                     ELSE <<w, TRUE, a[3], FALSE>>,
              <<W0, FALSE, <<>>, FALSE>>, v)
  IN IF st[4] \/ st[2] \/ Len(st[3]) = 0 THEN Fail      \* error, truncated last arc, or no arc at all
     ELSE [ok |-> TRUE, sids |-> st[3]]

\* the first subidentifier packs d1 and d2: 40 * d1 + d2, d1 <= 2, d2 < 40 if d1 < 2
ArcsOfSids(sids) ==
  LET x == sids[1]
      d1 == IF WLess(x, WOfInt(40)) THEN 0 ELSE IF WLess(x, WOfInt(80)) THEN 1 ELSE 2
  IN << WOfInt(d1), WSub(x, WOfInt(40 * d1)) >> \o Tail(sids)

Dot == 46
OidStrOfArcs(arcs) == FoldLeft(LAMBDA acc, i : IF i = 1 THEN WToDec(arcs[1]) ELSE acc \o <<Dot>> \o WToDec(arcs[i]),
                               <<>>, Upto(Len(arcs)))

\* derOIDDec: DER code -> dotted string
OidDec(s) ==
  LET d == Dec2(s, <<6>>) IN
  IF ~d.ok THEN Fail
  ELSE LET p == SidsOf(d.val) IN
       IF ~p.ok THEN Fail
       ELSE [ok |-> TRUE, n |-> d.n, oid |-> OidStrOfArcs(ArcsOfSids(p.sids))]

\* dotted string (oid.h): numbers in decimal without leading zeros separated by single dots,
\* n >= 2, d1 <= 2, d1 < 2 => d2 < 40, every di and 40 * d1 + d2 fit u32.  Result: arcs or Fail.
IsDigit(c) == c >= 48 /\ c <= 57
\* split at dots: state <<current digits, list of digit strings>>
SplitDots(str) ==
  LET st == FoldLeft(LAMBDA a, c : IF c = Dot THEN << <<>>, Append(a[2], a[1]) >> ELSE << Append(a[1], c), a[2] >>,
                     << <<>>, <<>> >>, str)
  IN Append(st[2], st[1])
NumOk(ds) == /\ Len(ds) >= 1
             /\ \A i \in 1..Len(ds) : IsDigit(ds[i])
             /\ (Len(ds) > 1 => ds[1] # 48)
\* value of a digit string as W with overflow flag <<W, overflow>>
NumVal(ds) == FoldLeft(LAMBDA a, c : IF a[2] THEN a
                                     ELSE LET w == WMul10Add(a[1], c - 48) IN IF WFits(w) THEN <<w, FALSE>> ELSE <<a[1], TRUE>>,
                       <<W0, FALSE>>, ds)
\* w + i (0 <= i <= 80) without wrapping: <<W, fits u32?>>
WAddSmall(w, i) == LET l == w[1] + i
                       h == w[2] + (l \div 65536)
                   IN << <<l % 65536, h % 65536>>, h < 65536 >>
OidArcsOfStr(str) ==
  LET parts == SplitDots(str) IN
  IF Len(parts) < 2 \/ \E i \in 1..Len(parts) : ~NumOk(parts[i]) THEN Fail
  ELSE LET vals == [i \in 1..Len(parts) |-> NumVal(parts[i])] IN
       IF \E i \in 1..Len(vals) : vals[i][2] THEN Fail
       ELSE LET arcs == [i \in 1..Len(vals) |-> vals[i][1]]
                d1 == arcs[1]
                d2 == arcs[2]
            IN IF d1[2] # 0 \/ d1[1] > 2 THEN Fail
               ELSE IF d1[1] < 2 /\ ~WLess(d2, WOfInt(40)) THEN Fail
               ELSE LET x == WAddSmall(d2, 40 * d1[1]) IN
                    IF ~x[2] THEN Fail ELSE [ok |-> TRUE, arcs |-> arcs, first |-> x[1]]
OidStrIsValid(str) == OidArcsOfStr(str).ok

\* derOIDEnc / oidToDER: dotted string -> DER code with the tag octet 0x06
OidEnc(str) ==
  LET a == OidArcsOfStr(str) IN
  IF ~a.ok THEN Fail
  ELSE Enc(<<6>>, WToBase128(a.first)
                  \o Concat([i \in 1..(Len(a.arcs) - 2) |-> WToBase128(a.arcs[i + 2])]))
OidDec2(s, str) == LET d == OidDec(s) IN IF d.ok /\ d.oid = str THEN d ELSE Fail

\* ---------------------------------------------------------------- SEQUENCE anchors
\* derTSEQDecStart: TL prefix of a constructed code with the expected tag; the anchor remembers
\* where the code starts and the announced length.  derTSEQDecStop(pos): the contents end
\* exactly at pos (positions are octet offsets from the anchor's start).
SeqDecStart(s, t) ==
  IF ~TagIsConstructed(t) THEN Fail
  ELSE LET h == TLDec(s) IN
       IF ~h.ok \/ h.tag # t THEN Fail ELSE [ok |-> TRUE, n |-> h.n, len |-> h.len]
SeqDecStopOk(anchor, pos) == BNIsSmall(anchor.len) /\ pos = anchor.n + BNToInt(anchor.len)
\* whole-container view used by the structural container specifications:
\* [ok, n |-> total length, hd |-> length of TL, body |-> contents]
SeqDec(s, t) ==
  IF ~TagIsConstructed(t) THEN Fail
  ELSE LET d == Dec2(s, t) IN
       IF ~d.ok THEN Fail ELSE [ok |-> TRUE, n |-> d.n, hd |-> d.n - Len(d.val), body |-> d.val]
\* derTSEQEncStart + contents + derTSEQEncStop = ordinary TLV code of the contents
SeqEnc(t, body) == IF TagValid(t) /\ TagIsConstructed(t) THEN Enc(t, body) ELSE Fail
\* number of octets by which derTSEQEncStop moves the contents (the length field grows from 1 octet)
SeqEncStopShift(bodyLen) == Len(LEnc(BNFromInt(bodyLen))) - 1
=============================================================================
