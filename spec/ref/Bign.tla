-------------------------------- MODULE Bign --------------------------------
(* STB 34.101.45 (bign) as the standard's text defines it (C02).  Nothing here is taken from src/crypto/bign/*.c.
   Elliptic-curve arithmetic: ref/ECp.tla over BigNat (EB); belt-hash, belt-wblock, belt-keywrap: ref/BeltModes.tla (BM);
   object identifiers: ref/Der.tla (DR).

   Conventions of the standard: an octet string <-> number is LITTLE-ENDIAN (<u>_n, \bar U); a point R is encoded
   as <x_R>_2l || <y_R>_2l, and <R>_2l is its first 2l bits, i.e. the x coordinate (l/4 octets).
   l in {128, 192, 256}; "no" = l/4 octets = length of field elements, scalars, hashes; S0 has l bits = no/2 octets.

   6.2.2 key pair:    d <-R {1, .., q-1};  Q = d G.     The library draws d from the CALLER's generator
                      (zz.h zzRandNZMod): each attempt reads O_OF_B(|q|) = no octets, interprets them as a number and
                      rejects 0 and values >= q; after B_PER_IMPOSSIBLE + 1 rejected attempts: ERR_BAD_RNG.
   6.2.3 public key:  0 <= x, y < p  and  y^2 = x^3 + a x + b.
   7.1.3 sign:        k <-R {1..q-1};  R = k G;  S0 = <belt-hash(OID || <R>_2l || H)>_l;
                      S1 = <(k - \bar H - (\bar S0 + 2^l) d) mod q>_2l;  S = S0 || S1.
   7.1.4 verify:      |S| = 3l;  \bar S1 < q;  R = ((\bar S1 + \bar H) mod q) G + (\bar S0 + 2^l) Q;  R # O;
                      <belt-hash(OID || <R>_2l || H)>_l = S0.
   6.3.3 nonce:       theta = belt-hash(OID || <d>_2l || t);  r = H;  rounds of belt-wblock on r under theta until,
                      at a multiple of 2n rounds, \bar r in {1..q-1};  the first candidate is belt-wblock(H, theta).
   7.2.3 key wrap:    k <-R {1..q-1};  R = k G;  theta = <k Q>_256;  Y = <R>_2l || belt-keywrap(X, I, theta).
   7.2.4 key unwrap:  |Y| >= 2l + 256;  x = \bar Y0 < p;  y = (x^3 + a x + b)^((p+1)/4);  (x, y) on the curve;
                      theta = <d R>_256;  X = belt-keyunwrap(Y1, I, theta).
   DH (bign.h):       the first key_len <= l/2 octets of <d Q>_4l. *)
EXTENDS BigNat

EB == INSTANCE ECpBig
BM == INSTANCE BeltModes
DR == INSTANCE Der

HexVal(ch) == CHOOSE v \in 0..15 : SubSeq("0123456789ABCDEF", v + 1, v + 1) = ch
HexOct(s) == Strict([i \in 1..(Len(s) \div 2) |-> HexVal(SubSeq(s, 2 * i - 1, 2 * i - 1)) * 16 + HexVal(SubSeq(s, 2 * i, 2 * i))])
Num(octs) == Norm(FromOctets(octs))
Oct(v, n) == ToOctets(v, n)
LEHex(s) == Num(HexOct(s))

\* ---- tables B.1, B.2, B.3 (and bign96: STB 34.101.45 amendment, table B.0), little-endian octets
MkParams(l, p, a, b, q, yG) ==
  [l |-> l, no |-> Len(p) \div 2, p |-> LEHex(p), a |-> LEHex(a), b |-> LEHex(b), q |-> LEHex(q), yG |-> LEHex(yG)]
Params128 == MkParams(128,
  "43FFFFFFFFFFFFFFFFFFFFFFFFFFFFFFFFFFFFFFFFFFFFFFFFFFFFFFFFFFFFFF",
  "40FFFFFFFFFFFFFFFFFFFFFFFFFFFFFFFFFFFFFFFFFFFFFFFFFFFFFFFFFFFFFF",
  "F1039CD66B7D2EB253928B976950F54CBEFBD8E4AB3AC1D2EDA8F315156CCE77",
  "07663D2699BF5A7EFC4DFB0DD68E5CD9FFFFFFFFFFFFFFFFFFFFFFFFFFFFFFFF",
  "936A510418CF291E52F608C4663991785D83D651A3C9E45C9FD616FB3CFCF76B")
Params192 == MkParams(192,
  "C3FEFFFFFFFFFFFFFFFFFFFFFFFFFFFFFFFFFFFFFFFFFFFFFFFFFFFFFFFFFFFFFFFFFFFFFFFFFFFFFFFFFFFFFFFFFFFF",
  "C0FEFFFFFFFFFFFFFFFFFFFFFFFFFFFFFFFFFFFFFFFFFFFFFFFFFFFFFFFFFFFFFFFFFFFFFFFFFFFFFFFFFFFFFFFFFFFF",
  "64BF736823FCA7BC7CBDCEF3F0E2BD143A2E71E9F96A21A696B1FB0FBB482771D2345D65AB5A073320EF9C95E1DF753C",
  "B7A70CF33FDCB73D0AFFA4A6E7DA4680BB7BAF7303C4CC6CFEFFFFFFFFFFFFFFFFFFFFFFFFFFFFFFFFFFFFFFFFFFFFFF",
  "51C433F731CB5EEAF9422A6B273E408455D3B1669EE74905A0FF86DC119A723A89BF2D437E1130639E9E2EA82482435D")
Params256 == MkParams(256,
  "C7FDFFFFFFFFFFFFFFFFFFFFFFFFFFFFFFFFFFFFFFFFFFFFFFFFFFFFFFFFFFFFFFFFFFFFFFFFFFFFFFFFFFFFFFFFFFFFFFFFFFFFFFFFFFFFFFFFFFFFFFFFFFFF",
  "C4FDFFFFFFFFFFFFFFFFFFFFFFFFFFFFFFFFFFFFFFFFFFFFFFFFFFFFFFFFFFFFFFFFFFFFFFFFFFFFFFFFFFFFFFFFFFFFFFFFFFFFFFFFFFFFFFFFFFFFFFFFFFFF",
  "909C13D6986934097AA2493A272286EA43A2AC878C003329955E24C4B5DC112788B0ADDAE313CE1751255DDDEEA9C65B8958FD606A5D8CD8438C3B934459B46C",
  "F18E060D49ADFFDC32DF5695E5CA1B36F413212EB0EB6BF24E0098012C09C0B2FFFFFFFFFFFFFFFFFFFFFFFFFFFFFFFFFFFFFFFFFFFFFFFFFFFFFFFFFFFFFFFF",
  "BDEDEFCE6FAE92B7040D4CC9B983AA676122E8EE957377FFD26FFA0EE2DD7369DACACC001BF8EDD2E2BC61B3B341ABB0AB8FD1A0F7E682B1817603E47AFF26A8")
Params96 == MkParams(96,
  "13FFFFFFFFFFFFFFFFFFFFFFFFFFFFFFFFFFFFFFFFFFFFFF",
  "10FFFFFFFFFFFFFFFFFFFFFFFFFFFFFFFFFFFFFFFFFFFFFF",
  "834C34644CE8DD6A7A730189888E1887A89823FD25B99931",
  "AD1164FDBEEC0B9137D33A65FEFFFFFFFFFFFFFFFFFFFFFF",
  "ECCC48F6EB7F21E00C93DA03B21BF9E617C368C14B963881")
Params(l) == CASE l = 128 -> Params128 [] l = 192 -> Params192 [] l = 256 -> Params256 [] l = 96 -> Params96

Curve(P) == EB!BCurve(P.p, P.a, P.b)
G(P) == <<Zero, P.yG>>
PowL(P) == PowerOf2(P.l)                                   \* 2^l
InRange(P, d) == ~IsZero(d) /\ Less(d, P.q)                \* d in {1, .., q-1}
PtOct(P, R) == Oct(R[1], P.no) \o Oct(R[2], P.no)          \* <R>_4l
XOct(P, R) == Oct(R[1], P.no)                              \* <R>_2l
PtOf(P, o) == <<Num(SubSeq(o, 1, P.no)), Num(SubSeq(o, P.no + 1, 2 * P.no))>>

\* ---- 6.2.3
PubkeyValid(P, o) == Len(o) = 2 * P.no /\ LET Q == PtOf(P, o) IN EB!IsOnCurve(Curve(P), Q[1], Q[2])

\* ---- drawing from {1..q-1} out of the caller's generator: the tape is the sequence of octets the generator
\* returns (zeros after its end).  Result: [ok, v, tries] - tries = number of attempts consumed.
MaxTries == 65                                             \* B_PER_IMPOSSIBLE + 1 (defs.h)
TapeChunk(tape, j, no) == Strict([i \in 1..no |-> IF (j - 1) * no + i <= Len(tape) THEN tape[(j - 1) * no + i] ELSE 0])
SampleNZ(P, tape) ==
  LET avail == (Len(tape) + P.no - 1) \div P.no
      lim == IF avail < MaxTries THEN avail ELSE MaxTries      \* beyond the tape the generator returns zeros: rejected
      st == FoldLeft(LAMBDA acc, j : IF acc.ok THEN acc
                                     ELSE LET v == Num(TapeChunk(tape, j, P.no))
                                          IN IF InRange(P, v) THEN [ok |-> TRUE, v |-> v, tries |-> j] ELSE acc,
                     [ok |-> FALSE, v |-> Zero, tries |-> MaxTries], Rng(1, lim))
  IN st

\* ---- 6.2.2
PubkeyOf(P, d) == EB!ScalarMulJ(Curve(P), d, G(P))
KeypairGen(P, tape) == LET s == SampleNZ(P, tape)
                       IN IF s.ok THEN [ok |-> TRUE, d |-> s.v, Q |-> PubkeyOf(P, s.v)] ELSE [ok |-> FALSE, d |-> Zero, Q |-> <<>>]

\* ---- 7.1.3.  hash value H: no octets; oid: DER code of the hash algorithm's identifier
OidValid(oid) == Len(oid) > 0 /\ LET d == DR!OidDec(oid) IN d.ok /\ d.n = Len(oid)
HashL(P, oid, R, H) == TakeN(BM!Hash(oid \o XOct(P, R) \o H), P.no \div 2)       \* <belt-hash(OID || <R>_2l || H)>_l
\* S1 for given S0 (number), H (octets), d, k
S1Of(P, s0, H, d, k) ==
  LET q == P.q
      hq == Mod(Num(H), q)
      e == Mod(Mul(Add(s0, PowL(P)), d), q)
  IN SubMod(SubMod(k, hq, q), e, q)
Sign(P, oid, H, d, k) ==
  LET R == EB!ScalarMulJ(Curve(P), k, G(P))
      S0 == HashL(P, oid, R, H)
  IN S0 \o Oct(S1Of(P, Num(S0), H, d, k), P.no)

\* ---- 6.3.3: first candidate; [ok, k] (ok = FALSE: the candidate is outside {1..q-1}, further rounds not modelled)
DetNonce(P, oid, d, H, t) ==
  LET theta == BM!Hash(oid \o Oct(d, P.no) \o t)
      k == Num(BM!WBLEncr(H, theta))
  IN [ok |-> InRange(P, k), k |-> k]

\* ---- 7.1.4: "ok" | "sig" | "pubkey" | "oid"  (the first failing condition in the order oid, pubkey, signature)
VerifyR(P, H, sig, Qo) ==
  LET S0 == Num(SubSeq(sig, 1, P.no \div 2))
      S1 == Num(SubSeq(sig, P.no \div 2 + 1, Len(sig)))
  IN EB!MulAddJ(Curve(P), <<Mod(Add(S1, Mod(Num(H), P.q)), P.q), Add(S0, PowL(P))>>, <<G(P), PtOf(P, Qo)>>)
SigInRange(P, sig) == Len(sig) = P.no + P.no \div 2 /\ Less(Num(SubSeq(sig, P.no \div 2 + 1, Len(sig))), P.q)
Verify(P, oid, H, sig, Qo) ==
  IF ~OidValid(oid) THEN "oid" ELSE
  IF ~PubkeyValid(P, Qo) THEN "pubkey" ELSE
  IF ~SigInRange(P, sig) THEN "sig" ELSE
  LET R == VerifyR(P, H, sig, Qo)
  IN IF EB!IsO(R) THEN "sig"
     ELSE IF HashL(P, oid, R, H) = SubSeq(sig, 1, P.no \div 2) THEN "ok" ELSE "sig"

\* ---- 7.2.3 / 7.2.4
Theta(P, R) == TakeN(XOct(P, R), 32)                       \* <R>_256
KeyWrap(P, X, I, Qo, k) ==
  LET E == Curve(P)
  IN XOct(P, EB!ScalarMulJ(E, k, G(P))) \o BM!KWPWrap(X, I, Theta(P, EB!ScalarMulJ(E, k, PtOf(P, Qo))))
\* [ok, key]
KeyUnwrap(P, Y, I, d) ==
  IF Len(Y) < P.no + 32 THEN <<FALSE, <<>>>> ELSE
  LET E == Curve(P)
      x == Num(SubSeq(Y, 1, P.no))
      dec == EB!Decompress(E, x)
  IN IF ~dec[1] THEN <<FALSE, <<>>>>
     ELSE BM!KWPUnwrap(SubSeq(Y, P.no + 1, Len(Y)), I, Theta(P, EB!ScalarMulJ(E, d, <<x, dec[2]>>)))

\* ---- DH
DH(P, d, Qo, n) == TakeN(PtOct(P, EB!ScalarMulJ(Curve(P), d, PtOf(P, Qo))), n)

\* ---------------------------------------------------------------- appendix B: identity-based signature
(* A trusted party with the key pair (d, Q) signs the hash H0 of an identifier with alg. 7.1.3:  S = S0 || S1.
   B.2.3 extract:     verify S (7.1.4):  |S| = 3l;  \bar S1 < q;  R = ((\bar S1 + \bar H0) mod q) G + (\bar S0 + 2^l) Q;
                      R # O;  <belt-hash(OID || <R>_2l || H0)>_l = S0.  Then  e = (\bar S1 + \bar H0) mod q  and the
                      identity key pair is (e, R):  e in {0, 1, .., q-1}  (EVERY residue is a legitimate identity key:
                      e = k - (\bar S0 + 2^l) d for the trusted party's one-time key k, so  R = k G = e G + (\bar S0 + 2^l) Q).
   B.2.4 id-sign:     k <-R {1..q-1};  V = k G;  S0 = <belt-hash(OID || <V>_2l || H0 || H)>_l;
                      S1 = <(k - \bar H - (\bar S0 + 2^l) e) mod q>_2l.   Deterministic variant: k by alg. 6.3.3 with e in
                      the place of d.
   B.2.5 id-verify:   |S| = 3l;  \bar S1 < q;  t = <belt-hash(OID || <R>_2l || H0)>_l;
                      V = ((\bar S1 + \bar H) mod q) G + (\bar S0 + 2^l) R - ((\bar S0 + 2^l)(\bar t + 2^l) mod q) Q;
                      V # O;  <belt-hash(OID || <V>_2l || H0 || H)>_l = S0.
   (e G = R - (\bar t + 2^l) Q: the verifier recovers the signer's public key from the identity key R and the trusted
   party's key Q.)  bign.h: the identity public key R is a point of the curve, the trusted party's key as in 7.1.4. *)
SigS0Num(P, sig) == Num(SubSeq(sig, 1, P.no \div 2))
SigS1Num(P, sig) == Num(SubSeq(sig, P.no \div 2 + 1, Len(sig)))
\* B.2.3: [st, e, R]  st as in Verify
IdExtract(P, oid, H0, sig, Qo) ==
  LET no == [st |-> "sig", e |-> Zero, R |-> <<>>]
  IN IF ~OidValid(oid) THEN [no EXCEPT !.st = "oid"] ELSE
     IF ~PubkeyValid(P, Qo) THEN [no EXCEPT !.st = "pubkey"] ELSE
     IF ~SigInRange(P, sig) THEN no ELSE
     LET R == VerifyR(P, H0, sig, Qo)
     IN IF EB!IsO(R) THEN no
        ELSE IF HashL(P, oid, R, H0) # SubSeq(sig, 1, P.no \div 2) THEN no
        ELSE [st |-> "ok", e |-> Mod(Add(SigS1Num(P, sig), Mod(Num(H0), P.q)), P.q), R |-> R]
\* the identity private key a VALID signature defines (no scalar multiplication)
IdPrivOf(P, H0, sig) == Mod(Add(SigS1Num(P, sig), Mod(Num(H0), P.q)), P.q)
IdKeyInRange(P, e) == Less(e, P.q)                                        \* e in {0, .., q-1}

\* B.2.4
HashL2(P, oid, V, H0, H) == TakeN(BM!Hash(oid \o XOct(P, V) \o H0 \o H), P.no \div 2)
IdSign(P, oid, H0, H, e, k) ==
  LET V == EB!ScalarMulJ(Curve(P), k, G(P))
      S0 == HashL2(P, oid, V, H0, H)
  IN S0 \o Oct(S1Of(P, Num(S0), H, e, k), P.no)

\* B.2.5.  ks[1] Ps[1] + ks[2] Ps[2] + ... evaluated in ONE pass over the bits (doubling shared): the same sum as
\* EB!MulAddJ (BignVectors checks it on the appendix data); points affine, not O.
MulAddShared(E, ks, Ps) ==
  LET nb == FoldLeft(LAMBDA m, i : Max2(m, BitLen(ks[i])), 0, Rng(1, Len(ks)))
  IN EB!JToA(E, FoldLeft(LAMBDA acc, b :
                   FoldLeft(LAMBDA a2, i : IF Bit(ks[i], nb - b) = 1 THEN EB!JAddA(E, a2, Ps[i]) ELSE a2,
                            EB!JDbl(E, acc), Rng(1, Len(ks))),
                 EB!JO, Rng(1, nb)))
\* the point V of B.2.5 as the standard writes it
IdVerifyV(P, oid, H0, H, sig, Ro, Qo) ==
  LET E == Curve(P)
      s0 == Add(SigS0Num(P, sig), PowL(P))
      t == Add(Num(HashL(P, oid, PtOf(P, Ro), H0)), PowL(P))
      u == Mod(Add(SigS1Num(P, sig), Mod(Num(H), P.q)), P.q)
  IN EB!PSub(E, EB!MulAddJ(E, <<u, s0>>, <<G(P), PtOf(P, Ro)>>), EB!ScalarMulJ(E, Mod(Mul(s0, t), P.q), PtOf(P, Qo)))
\* the same point, cheaper:  u G + s0 (R - t Q)  (group law; - t' Q = - s0 (t Q) because q Q = O), one shared pass
IdVerifyV2(P, oid, H0, H, sig, Ro, Qo) ==
  LET E == Curve(P)
      s0 == Add(SigS0Num(P, sig), PowL(P))
      t == Add(Num(HashL(P, oid, PtOf(P, Ro), H0)), PowL(P))
      u == Mod(Add(SigS1Num(P, sig), Mod(Num(H), P.q)), P.q)
      W == EB!PSub(E, PtOf(P, Ro), EB!ScalarMulJ(E, t, PtOf(P, Qo)))          \* R - (t + 2^l) Q  ( = e G )
  IN IF EB!IsO(W) THEN EB!ScalarMulJ(E, u, G(P))
     ELSE IF IsZero(u) THEN EB!ScalarMulJ(E, s0, W)
     ELSE MulAddShared(E, <<u, s0>>, <<G(P), W>>)
\* "ok" | "sig" | "pubkey" | "oid"
IdVerify(P, oid, H0, H, sig, Ro, Qo) ==
  IF ~OidValid(oid) THEN "oid" ELSE
  IF ~PubkeyValid(P, Ro) \/ ~PubkeyValid(P, Qo) THEN "pubkey" ELSE
  IF ~SigInRange(P, sig) THEN "sig" ELSE
  LET V == IdVerifyV2(P, oid, H0, H, sig, Ro, Qo)
  IN IF EB!IsO(V) THEN "sig"
     ELSE IF HashL2(P, oid, V, H0, H) = SubSeq(sig, 1, P.no \div 2) THEN "ok" ELSE "sig"
=============================================================================
