-------------------------------- MODULE EC2 --------------------------------
(* Curves  E: y^2 + x y = x^3 + A x^2 + B  over GF(2^m), B # 0  (C06; ec2.h states exactly this equation).

   THE DEFINITION is the affine chord-and-tangent group law with the point at infinity O as a distinguished
   value (IEEE 1363-2000 A.10.2, ANSI X9.62 B.4, DSTU 4145-2002 5.4-5.6; Hankerson, Menezes, Vanstone 3.1.2):
     -(x, y) = (x, x + y)
     P + O = O + P = P,   P + (-P) = O
     P # +-Q:  l = (y1 + y2) / (x1 + x2),  x3 = l^2 + l + x1 + x2 + A,  y3 = l (x1 + x3) + x3 + y1
     P = Q, x1 # 0:  l = x1 + y1 / x1,      x3 = l^2 + l + A,            y3 = x1^2 + (l + 1) x3
     P = Q, x1 = 0:  2P = O   (then P = -P: the point (0, sqrt B) of order two)
   Nothing here comes from src/math/ec2.c.

   The module is parameterised by the field arithmetic so that the SAME definitions are evaluated
     (i)  over a small field K = GF(2)[t]/(g), elements = TLC integers < 2^d    (EC2Int.tla:  E2I == INSTANCE EC2Int)
     (ii) over GF(2)[x]/(F), deg F = m up to several hundred, elements = GF2Poly values (EC2Big.tla: E2B == INSTANCE EC2Big).
   Field elements are canonical (in (ii): limb sequences without trailing zero limbs), so points compare with "=".
   A curve is a record [f |-> field descriptor, A |-> A, B |-> B].

   INTERFACE
     O  IsO(P)                       points: O = <<>>, affine point = <<x, y>>
     Rhs(E,x)  Lhs(E,x,y)            x^3 + A x^2 + B;   y^2 + x y
     IsOnCurve(E,x,y)                x, y field elements /\ Lhs = Rhs      (coordinates outside the field => FALSE)
     IsPoint(E,P)  IsNonSingular(E)  (the curve is non-singular iff B # 0)
     ENeg EAdd ESub EDbl             the group law
     ScalarMul(E,k,P)                double-and-add over the bits of k (FoldLeft), k in the scalar domain
     MulSeq(E,P,K)                   <<0P, 1P, ..., KP>> by ITERATED ADDITION (K a TLC int): the meaning of kP
     MulAdd(E,ks,Ps)                 sum of ks[i] * Ps[i]
     HasOrder(E,P,q)                 P # O /\ qP = O   (= "P has order q" for prime q, as ec.h says)
     LDDbl LDAddA LDToA ScalarMulLD MulAddLD
                                     Lopez-Dahab projective double-and-add, (X : Y : Z) ~ (X/Z, Y/Z^2), O = (1 : 0 : 0):
                                     textbook formulas (Lopez, Dahab 1998; Hankerson, Menezes, Vanstone alg. 3.24 / 3.25
                                     with a general coefficient A) used ONLY as a faster evaluation of ScalarMul for large
                                     m; ref/EC2Vectors.tla checks ScalarMulLD = ScalarMul = MulSeq exhaustively on
                                     complete small curves with A = 0, A = 1 and general A. *)
EXTENDS Integers, Sequences, SequencesExt

CONSTANTS FAdd(_, _),                 \* (a, b): a + b = a - b
          FMul(_, _, _),              \* (a, b, f)
          FInv(_, _),                 \* (a, f): a # 0
          FIn(_, _),                  \* (a, f): a is a (canonical) element of the field
          FIsZero(_),
          F0, F1,
          SBits(_)                    \* scalar -> bits, most significant first

O == <<>>
IsO(P) == Len(P) = 0

FSqr(a, f) == FMul(a, a, f)
FDiv(a, b, f) == FMul(a, FInv(b, f), f)

Rhs(E, x) == LET x2 == FSqr(x, E.f) IN FAdd(FAdd(FMul(x2, x, E.f), FMul(E.A, x2, E.f)), E.B)
Lhs(E, x, y) == FAdd(FSqr(y, E.f), FMul(x, y, E.f))
IsOnCurve(E, x, y) == FIn(x, E.f) /\ FIn(y, E.f) /\ Lhs(E, x, y) = Rhs(E, x)
IsPoint(E, P) == IsO(P) \/ (Len(P) = 2 /\ IsOnCurve(E, P[1], P[2]))
IsNonSingular(E) == FIn(E.A, E.f) /\ FIn(E.B, E.f) /\ ~FIsZero(E.B)

\* ---------------------------------------------------------------- the group law (affine, with O)
ENeg(E, P) == IF IsO(P) THEN O ELSE <<P[1], FAdd(P[1], P[2])>>

EAdd(E, P, Q) ==
  IF IsO(P) THEN Q ELSE
  IF IsO(Q) THEN P ELSE
  LET f == E.f  x1 == P[1]  y1 == P[2]  x2 == Q[1]  y2 == Q[2]
  IN IF x1 # x2
       THEN LET l == FDiv(FAdd(y1, y2), FAdd(x1, x2), f)                                       \* chord
                x3 == FAdd(FAdd(FAdd(FAdd(FSqr(l, f), l), x1), x2), E.A)
            IN <<x3, FAdd(FAdd(FMul(l, FAdd(x1, x3), f), x3), y1)>>
     ELSE IF y1 = y2 /\ ~FIsZero(x1)
       THEN LET l == FAdd(x1, FDiv(y1, x1, f))                                                 \* tangent
                x3 == FAdd(FAdd(FSqr(l, f), l), E.A)
            IN <<x3, FAdd(FSqr(x1, f), FMul(FAdd(l, F1), x3, f))>>
     ELSE O                                                                                     \* Q = -P (incl. 2P = O for x1 = 0)

ESub(E, P, Q) == EAdd(E, P, ENeg(E, Q))
EDbl(E, P) == EAdd(E, P, P)

\* kP by double-and-add over the bits of k, from the top
ScalarMul(E, k, P) ==
  FoldLeft(LAMBDA acc, b : LET d == EDbl(E, acc) IN IF b = 1 THEN EAdd(E, d, P) ELSE d, O, SBits(k))

\* <<0P, 1P, ..., KP>> by iterated addition (K a TLC integer >= 0): element k+1 is kP
MulSeq(E, P, K) ==
  FoldLeft(LAMBDA acc, i : Append(acc, EAdd(E, acc[i], P)), <<O>>, [i \in 1..K |-> i])

\* ks[1] Ps[1] + ... + ks[n] Ps[n]
MulAdd(E, ks, Ps) ==
  FoldLeft(LAMBDA acc, i : EAdd(E, acc, ScalarMul(E, ks[i], Ps[i])), O, [i \in 1..Len(ks) |-> i])

\* ec.h ecHasOrderA: q P = O for an affine P (for prime q: the order of P is q)
HasOrder(E, P, q) == ~IsO(P) /\ IsO(ScalarMul(E, q, P))

\* ---------------------------------------------------------------- Lopez-Dahab evaluation of ScalarMul
\* (X : Y : Z), Z # 0  ~  (X / Z, Y / Z^2);  O = (1 : 0 : 0).
LDO == <<F1, F0, F0>>
LDIsO(J) == FIsZero(J[3])
\* 2 (X1 : Y1 : Z1):  Z3 = X1^2 Z1^2,  X3 = X1^4 + B Z1^4,  Y3 = B Z1^4 Z3 + X3 (A Z3 + Y1^2 + B Z1^4)
LDDbl(E, J) ==
  IF LDIsO(J) \/ FIsZero(J[1]) THEN LDO ELSE
  LET f == E.f  X1 == J[1]  Y1 == J[2]  Z1 == J[3]
      Z2 == FSqr(Z1, f)
      X2 == FSqr(X1, f)
      bZ4 == FMul(E.B, FSqr(Z2, f), f)
      Z3 == FMul(X2, Z2, f)
      X3 == FAdd(FSqr(X2, f), bZ4)
      Y3 == FAdd(FMul(bZ4, Z3, f), FMul(X3, FAdd(FAdd(FMul(E.A, Z3, f), FSqr(Y1, f)), bZ4), f))
  IN <<X3, Y3, Z3>>
\* (X1 : Y1 : Z1) + (x2, y2), the affine point # O:
\*   A' = y2 Z1^2 + Y1,  B' = x2 Z1 + X1,  C = Z1 B',  D = B'^2 (C + A Z1^2),  Z3 = C^2,  E' = A' C,
\*   X3 = A'^2 + D + E',  F' = X3 + x2 Z3,  G = (x2 + y2) Z3^2,  Y3 = (E' + Z3) F' + G
LDAddA(E, J, P) ==
  IF LDIsO(J) THEN <<P[1], P[2], F1>> ELSE
  LET f == E.f  X1 == J[1]  Y1 == J[2]  Z1 == J[3]  x2 == P[1]  y2 == P[2]
      Z1s == FSqr(Z1, f)
      Aa == FAdd(FMul(y2, Z1s, f), Y1)
      Bb == FAdd(FMul(x2, Z1, f), X1)
  IN IF FIsZero(Bb) THEN (IF FIsZero(Aa) THEN LDDbl(E, <<x2, y2, F1>>) ELSE LDO) ELSE
     LET Cc == FMul(Z1, Bb, f)
         Dd == FMul(FSqr(Bb, f), FAdd(Cc, FMul(E.A, Z1s, f)), f)
         Z3 == FSqr(Cc, f)
         Ee == FMul(Aa, Cc, f)
         X3 == FAdd(FAdd(FSqr(Aa, f), Dd), Ee)
         Ff == FAdd(X3, FMul(x2, Z3, f))
         Gg == FMul(FAdd(x2, y2), FSqr(Z3, f), f)
     IN <<X3, FAdd(FMul(FAdd(Ee, Z3), Ff, f), Gg), Z3>>
LDToA(E, J) ==
  IF LDIsO(J) THEN O ELSE
  LET zi == FInv(J[3], E.f) IN <<FMul(J[1], zi, E.f), FMul(J[2], FSqr(zi, E.f), E.f)>>
ScalarMulLD(E, k, P) ==
  IF IsO(P) THEN O ELSE
  LDToA(E, FoldLeft(LAMBDA acc, b : LET d == LDDbl(E, acc) IN IF b = 1 THEN LDAddA(E, d, P) ELSE d, LDO, SBits(k)))
MulAddLD(E, ks, Ps) ==
  FoldLeft(LAMBDA acc, i : EAdd(E, acc, ScalarMulLD(E, ks[i], Ps[i])), O, [i \in 1..Len(ks) |-> i])
=============================================================================
