--------------------------- MODULE CodecVectors ---------------------------
(* Anchors of ref/Der.tla and ref/Codecs.tla, evaluated by TLC (one vector or one slice of a law
   per TLC state).  Known encodings: X.690 (8.1.3.5, 8.6.4.2, 8.19.5), Kaliski's "Layman's Guide",
   RFC 4648 section 10, ISO/IEC 7812 / Damm's examples as quoted in dec.h's test, the examples of
   der.h, and the sample values of /repo/test/core/{der,oid,apdu,hex,b64,dec}_test.c.
   Laws: Dec(Enc(v)) = v on enumerated values, Enc(Dec(x)) = accepted prefix of x (canonicity) on
   all strings of <= 2 octets and on three 3-octet families, text round trips.
   A failing vector means the SPECIFICATION is wrong.                                        *)
EXTENDS Codecs, TLC

AsciiTable == " !\"#$%&'()*+,-./0123456789:;<=>?@ABCDEFGHIJKLMNOPQRSTUVWXYZ[\\]^_`abcdefghijklmnopqrstuvwxyz{|}~"
CodeOfChar(ch) == 31 + (CHOOSE i \in 1..95 : SubSeq(AsciiTable, i, i) = ch)
S(str) == [i \in 1..Len(str) |-> CodeOfChar(SubSeq(str, i, i))]
H(str) == HexTo(S(str))
Ok(d, n) == d.ok /\ d.n = n

\* ---------------------------------------------------------------- known encodings
V == [
  tl_test      |-> TLEnc(<<127, 33>>, BNFromInt(1000000)) = H("7F21830F4240")
                   /\ TLDec(H("7F21830F4240")) = [ok |-> TRUE, n |-> 6, tag |-> <<127, 33>>, len |-> <<15, 66, 64>>],
  len_x690     |-> LEnc(BNFromInt(201)) = H("81C9") /\ LEnc(BNFromInt(38)) = H("26") /\ LEnc(BNFromInt(127)) = H("7F")
                   /\ LEnc(BNFromInt(128)) = H("8180") /\ LEnc(BNFromInt(256)) = H("820100")
                   /\ LDec(H("81C9")).len = <<201>> /\ ~LDec(H("8126")).ok /\ ~LDec(H("80")).ok /\ ~LDec(H("FF")).ok
                   /\ ~LDec(H("820080")).ok /\ ~LDec(H("8201")).ok /\ ~LDec(H("890100000000000000")).ok
                   /\ LDec(H("88FFFFFFFFFFFFFFFE")).ok /\ ~LDec(H("88FFFFFFFFFFFFFFFF")).ok /\ ~LDec(H("8900FFFFFFFFFFFFFFFF")).ok,
  tag_forms    |-> TDec(H("30")).tag = <<48>> /\ TDec(H("7F21")).tag = <<127, 33>> /\ TDec(H("5F29")).tag = <<95, 41>>
                   /\ TDec(H("42")).tag = <<66>> /\ TDec(H("00")).ok /\ TDec(H("1F1F")).ok /\ ~TDec(H("1F1E")).ok
                   /\ ~TDec(H("1F")).ok /\ ~TDec(H("1F00")).ok /\ ~TDec(H("1F8001")).ok /\ ~TDec(H("1F81")).ok
                   /\ Ok(TDec(H("1F8100")), 3) /\ Ok(TDec(H("1F818000")), 4) /\ Ok(TDec(H("1FFFFF7F00")), 4)
                   /\ ~TDec(H("1F81808000")).ok /\ ~TDec(H("1F81808080")).ok
                   /\ TagValid(<<0>>) /\ ~TagValid(<<31>>) /\ ~TagValid(<<4, 4>>) /\ TagValid(H("1F8100")) /\ ~TagValid(H("1F80"))
                   /\ TagOfU32(<<0, 0, 127, 33>>) = <<127, 33>> /\ TagOfU32(<<0, 0, 0, 0>>) = <<0>>,
  int_header   |-> SizeEnc(<<2>>, <<>>) = H("020100") /\ SizeEnc(<<2>>, <<127>>) = H("02017F") /\ SizeEnc(<<2>>, <<128>>) = H("02020080")
                   /\ SizeEnc(<<2>>, <<1, 0>>) = H("02020100") /\ SizeEnc(<<95, 41>>, <<>>) = H("5F290100")
                   /\ SizeDec(H("02020080"), <<2>>) = [ok |-> TRUE, n |-> 4, val |-> <<128>>]
                   /\ ~SizeDec(H("020180"), <<2>>).ok /\ ~SizeDec(H("0202FF7F"), <<2>>).ok /\ ~SizeDec(H("0200"), <<2>>).ok
                   /\ ~SizeDec(H("0202007F"), <<2>>).ok /\ ~SizeDec(H("5F290100"), <<95, 42>>).ok
                   /\ SizeDec(H("020900FFFFFFFFFFFFFFFF"), <<2>>).ok /\ ~SizeDec(H("0209010000000000000000"), <<2>>).ok
                   /\ UintDec(H("0209010000000000000000"), <<2>>).val = <<0, 0, 0, 0, 0, 0, 0, 0, 1>>
                   /\ UintEnc(<<2>>, <<128, 0, 0>>) = H("02020080") /\ UintDec(H("02020080"), <<2>>).val = <<128>>,
  null_bit_oct |-> NullEnc = H("0500") /\ Ok(NullDec(H("0500")), 2) /\ ~NullDec(H("050100")).ok
                   /\ BitEnc(<<3>>, H("0123456789ABCDEF"), 61) = H("0309030123456789ABCDE8")
                   /\ BitEnc(<<3>>, H("0123456789ABCDE8"), 64) = H("0309000123456789ABCDE8")
                   /\ BitDec(H("0309030123456789ABCDE8"), <<3>>) = [ok |-> TRUE, n |-> 11, val |-> H("0123456789ABCDE8"), bits |-> 61]
                   /\ BitDec2(H("0309030123456789ABCDE8"), <<3>>, 61).ok /\ ~BitDec2(H("0309030123456789ABCDE8"), <<3>>, 62).ok
                   /\ BitEnc(<<3>>, H("0A3B5F291CD0"), 44) = H("0307040A3B5F291CD0")          \* X.690 8.6.4.2
                   /\ ~BitDec(H("030207FF"), <<3>>).ok /\ ~BitDec(H("030101"), <<3>>).ok /\ ~BitDec(H("03020800"), <<3>>).ok
                   /\ BitDec(H("030100"), <<3>>).bits = 0 /\ ~BitDec(H("0300"), <<3>>).ok
                   /\ OctEnc(<<4>>, H("0123456789ABCDEF")) = H("04080123456789ABCDEF")
                   /\ Ok(OctDec2(H("04080123456789ABCDEF"), <<4>>, 8), 10) /\ ~OctDec2(H("04080123456789ABCDEF"), <<4>>, 7).ok,
  oid_known    |-> OidEnc(S("1.2.840.113549")) = H("06062A864886F70D")
                   /\ OidDec(H("06062A864886F70D")) = [ok |-> TRUE, n |-> 8, oid |-> S("1.2.840.113549")]
                   /\ OidEnc(S("2.100.3")) = H("0603813403")                                 \* X.690 8.19.5
                   /\ OidEnc(S("1.2.112.0.2.0.34.101.31.81")) = H("06092A7000020022651F51")
                   /\ OidFromDer(H("06028100")).oid = S("2.48") /\ OidFromDer(H("06028101")).oid = S("2.49")
                   /\ OidFromDer(H("06028837")).oid = S("2.999") /\ OidFromDer(OidToDer(S("2.65500"))).oid = S("2.65500")
                   /\ ~OidFromDer(H("060000")).ok /\ ~OidFromDer(H("068000")).ok /\ ~OidFromDer(H("06FF00")).ok
                   /\ ~OidFromDer(H("080100")).ok /\ ~OidFromDer(H("06070180808080807F")).ok /\ ~OidFromDer(H("06028001")).ok
                   /\ ~OidFromDer(H("0602807F")).ok /\ ~OidFromDer(H("060981B1D1AF85ECA8804F")).ok
                   /\ ~OidFromDer(H("0600")).ok /\ ~OidFromDer(H("060181")).ok
                   /\ ~OidFromDer(H("06092A7000020022651F")).ok /\ ~OidFromDer(H("06092A7000020022651F5100")).ok
                   /\ OidFromDer(H("06058FFFFFFF7F")).oid = S("2.4294967215") /\ ~OidFromDer(H("06059080808000")).ok,
  oid_strings  |-> /\ \A s \in {"0.0", "0.39", "1.39", "2.40", "2.999", "2.4294967215", "1.2.112", "1.2.112.0.2.0", "2.5.4.4294967295", "1.2.0"} : OidIsValid(S(s))
                   /\ \A s \in {"", "1", "1.", ".1", "1..2", "3.1", "0.40", "1.40", "01.2", "1.02", "1.2.00", "1.2a", "1.2.", "1,2", " 1.2",
                                "2.4294967216", "2.5.4.4294967296", "2.5.4.4294967299", "2.5.4.42949672950"} : ~OidIsValid(S(s)),
  pstr_seq     |-> PstrEnc(<<66>>, S("BYCA0000")) = H("42084259434130303030") /\ PstrDec(H("42084259434130303030"), <<66>>).val = S("BYCA0000")
                   /\ ~PstrDec(H("42084259434130303030"), <<19>>).ok /\ ~PstrDec(H("13014A") \o <<>>, <<20>>).ok /\ ~PstrDec(H("130140"), <<19>>).ok
                   /\ ~PstrDec(H("13012A"), <<19>>).ok /\ ~PstrDec(H("130100"), <<19>>).ok /\ PstrDec(H("13013F"), <<19>>).ok
                   /\ SeqEnc(<<48>>, NullEnc) = H("30020500") /\ IsValid(H("30020500")) /\ IsValid2(H("30020500"), <<48>>)
                   /\ TakeN(SeqEnc(<<48>>, OctEnc(<<4>>, Zeros(127))), 7) = H("308181047F0000") /\ Len(SeqEnc(<<48>>, OctEnc(<<4>>, Zeros(127)))) = 132
                   /\ SeqDecStart(H("30020500"), <<48>>) = [ok |-> TRUE, n |-> 2, len |-> <<2>>]
                   /\ SeqDecStopOk(SeqDecStart(H("30020500"), <<48>>), 4) /\ ~SeqDecStopOk(SeqDecStart(H("30020500"), <<48>>), 3)
                   /\ ~SeqDecStart(H("04020500"), <<4>>).ok /\ SeqEncStopShift(127) = 0 /\ SeqEncStopShift(128) = 1 /\ SeqEncStopShift(65536) = 3,
  hex_b64      |-> HexFrom(S("foobar")) = S("666F6F626172") /\ HexTo(S("666f6F626172")) = S("foobar")
                   /\ HexIsValid(S("1234")) /\ ~HexIsValid(S("12345")) /\ HexIsValid(S("ABCDEFabcdef")) /\ ~HexIsValid(S("abcdefgh")) /\ HexIsValid(<<>>)
                   /\ HexFromRev(H("0102FF")) = S("FF0201") /\ HexToRev(S("FF0201")) = H("0102FF") /\ HexLower(S("aBcD")) = S("abcd") /\ HexUpper(S("aBcD")) = S("ABCD")
                   /\ B64From(<<>>) = <<>> /\ B64From(S("f")) = S("Zg==") /\ B64From(S("fo")) = S("Zm8=") /\ B64From(S("foo")) = S("Zm9v")
                   /\ B64From(S("foob")) = S("Zm9vYg==") /\ B64From(S("fooba")) = S("Zm9vYmE=") /\ B64From(S("foobar")) = S("Zm9vYmFy")
                   /\ B64To(S("Zm9vYg==")) = S("foob") /\ B64To(S("Zm9vYmE=")) = S("fooba") /\ B64To(S("Zm9vYmFy")) = S("foobar")
                   /\ B64IsValid(S("1234")) /\ ~B64IsValid(S("AbC=")) /\ B64IsValid(S("AbE=")) /\ ~B64IsValid(S("AbCBD4==")) /\ B64IsValid(S("AbCBDg=="))
                   /\ ~B64IsValid(S("AbC78a8@")) /\ ~B64IsValid(S("AbC78a8")) /\ ~B64IsValid(S("AbC7===")) /\ ~B64IsValid(S("Ab=7==")) /\ ~B64IsValid(S("====")),
  dec_known    |-> DecLuhnCalc(S("7992739871")) = 51 /\ DecLuhnVerify(S("79927398713")) /\ ~DecLuhnVerify(S("69927398713"))
                   /\ DecDammCalc(S("572")) = 52 /\ DecDammVerify(S("5724")) /\ ~DecDammVerify(S("5274"))
                   /\ DecFromU32(10, <<65535, 65535>>) = S("4294967295") /\ DecToU32(S("4294967295")) = <<65535, 65535>>
                   /\ DecToU32(S("4294967296")) = <<0, 0>> /\ DecFromU32(3, WOfInt(12345)) = S("345") /\ DecFromU32(7, WOfInt(12345)) = S("0012345")
                   /\ DecCLZ(S("00120")) = 2 /\ DecCLZ(S("000")) = 3 /\ DecIsValid(<<>>) /\ ~DecIsValid(S("12a")) /\ DecLuhnVerify(<<>>),
  apdu_known   |-> LET c == [cla |-> 0, ins |-> 164, p1 |-> 4, p2 |-> 4, cdf |-> H("54657374"), rdf |-> 256] IN
                   /\ CmdEnc(c) = H("00A40404045465737400") /\ CmdDec(H("00A40404045465737400")) = [ok |-> TRUE, cmd |-> c]
                   /\ RespEnc([sw1 |-> 144, sw2 |-> 0, rdf |-> H("E012C004")]) = H("E012C0049000")
                   /\ RespDec(H("E012C0049000")).resp = [sw1 |-> 144, sw2 |-> 0, rdf |-> H("E012C004")] /\ ~RespDec(H("90")).ok
                   /\ ~CmdDec(H("00A404")).ok /\ CmdDec(H("00A40404")).cmd.rdf = 0 /\ CmdDec(H("00A4040400")).cmd.rdf = 256
                   /\ CmdDec(H("00A40404000000")).cmd.rdf = 65536 /\ CmdDec(H("00A40404000101")).cmd.rdf = 257
                   /\ ~CmdDec(H("00A404040000")).ok /\ ~CmdDec(H("00A40404000000FFFF")).ok /\ ~CmdDec(H("00A4040402AA")).ok
                   /\ CmdDec(H("00A40404000001AA")).ok /\ ~CmdIsCanonical(H("00A40404000001AA")) /\ CmdIsCanonical(H("00A4040401AA"))
                   /\ CmdDec(H("00A40404000001AA0101")).cmd.rdf = 257 /\ ~CmdDec(H("00A40404000001AA01")).ok
]
VecNames == DOMAIN V

\* ---------------------------------------------------------------- laws, sliced
GoodTags == {<<0>>, <<4>>, <<48>>, <<30>>, <<222>>, <<31, 31>>, <<127, 33>>, <<95, 127>>, <<31, 129, 0>>, <<255, 255, 127>>,
             <<31, 129, 128, 0>>, <<63, 255, 255, 127>>}
SomeLens == {<<>>, <<1>>, <<127>>, <<128>>, <<255>>, <<1, 0>>, <<255, 255>>, <<1, 0, 0>>, <<1, 0, 0, 0>>, <<1, 0, 0, 0, 0, 0, 0, 0>>,
             <<255, 255, 255, 255, 255, 255, 255, 254>>}
\* canonicity of TL on every string <<a>>, <<a, b>> and (for three first octets) <<a, b, c>>
CanonTL(s) == LET d == TLDec(s) IN d.ok => TLEnc(d.tag, d.len) = TakeN(s, d.n)
CanonAll(s) == /\ CanonTL(s)
               /\ LET d == Dec(s) IN d.ok => Enc(d.tag, d.val) = TakeN(s, d.n)
               /\ LET d == SizeDec(s, <<2>>) IN d.ok => SizeEnc(<<2>>, d.val) = TakeN(s, d.n)
               /\ LET d == UintDec(s, <<2>>) IN d.ok => UintEnc(<<2>>, d.val) = TakeN(s, d.n)
               /\ LET d == BitDec(s, <<3>>) IN d.ok => BitEnc(<<3>>, d.val, d.bits) = TakeN(s, d.n)
               /\ LET d == OidDec(s) IN d.ok => OidEnc(d.oid) = TakeN(s, d.n)
LawA(a) == /\ CanonAll(<<a>>) /\ \A b \in 0..255 : CanonAll(<<a, b>>)
           \* one-octet round trips of the text codecs
           /\ HexTo(HexFrom(<<a>>)) = <<a>> /\ HexIsValid(HexFrom(<<a, 255 - a>>))
           /\ B64To(B64From(<<a>>)) = <<a>> /\ B64IsValid(B64From(<<a>>))
           /\ \A b \in {0, 1, 127, 128, 254, 255} : /\ B64To(B64From(<<a, b>>)) = <<a, b>> /\ B64To(B64From(<<b, a, b>>)) = <<b, a, b>>
                                                    /\ B64IsValid(B64From(<<a, b>>)) /\ B64To(B64From(<<a, b, a, b>>)) = <<a, b, a, b>>
           \* canonicity of base64 and base16: what is accepted re-encodes to itself (upper case for hex)
           /\ (a >= 1 => \A b \in 1..255 : LET s == <<a, b>> IN HexIsValid(s) => HexFrom(HexTo(s)) = HexUpper(s))
           /\ (a >= 1 => \A q \in {<<65, 65>>, <<81, 47>>} : \A b \in 1..255 : LET s == q \o <<a, b>> IN B64IsValid(s) => B64From(B64To(s)) = s)
\* three-octet families (first octets 02, 03, 06, 04, 1F, 7F), 32 second octets per state, and
\* four-octet strings under INTEGER / BIT STRING / OID tags with announced length 1 or 2
Fam == <<2, 3, 6, 4, 31, 127>>
LawB(k) == LET a == Fam[(k \div 8) + 1]
               b0 == (k % 8) * 32
           IN /\ \A b \in b0..(b0 + 31) : \A c \in 0..255 : CanonAll(<<a, b, c>>)
              /\ (a \in {2, 3, 6} /\ b0 = 0 => \A b \in 1..2 : \A c \in 0..255 : \A d \in {0, 1, 127, 128, 255} : CanonAll(<<a, b, c, d>>))
LawNames == 0..(255 + 48)

\* Dec(Enc(v)) = v on enumerated values
RT == [
  tl   |-> \A t \in GoodTags : \A l \in SomeLens : TLDec(TLEnc(t, l) \o <<7>>) = [ok |-> TRUE, n |-> Len(t) + Len(LEnc(l)), tag |-> t, len |-> l],
  tlv  |-> \A t \in GoodTags : \A k \in {0, 1, 127, 128, 255, 256, 300} :
             LET v == [i \in 1..k |-> (i * 7) % 256] IN Dec(Enc(t, v) \o <<9, 9>>) = [ok |-> TRUE, n |-> Len(Enc(t, v)), tag |-> t, val |-> v]
                                                        /\ IsValid(Enc(t, v)) /\ ~IsValid(Enc(t, v) \o <<0>>) /\ (k > 0 => ~Dec(Front(Enc(t, v))).ok),
  size |-> \A b \in {<<>>, <<1>>, <<127>>, <<128>>, <<255>>, <<1, 0>>, <<127, 255>>, <<128, 0>>, <<255, 255, 255, 255>>, <<1, 0, 0, 0, 0>>,
                     <<127, 255, 255, 255, 255, 255, 255, 255>>, <<128, 0, 0, 0, 0, 0, 0, 0>>, <<255, 255, 255, 255, 255, 255, 255, 255>>} :
             \A t \in {<<2>>, <<95, 41>>, <<31, 129, 128, 0>>} : SizeDec(SizeEnc(t, b), t) = [ok |-> TRUE, n |-> Len(SizeEnc(t, b)), val |-> b],
  uint |-> \A v \in {<<0>>, <<127>>, <<128>>, <<0, 1>>, <<255, 255>>, <<0, 128>>, <<1, 2, 3, 4, 5, 6, 7, 8, 9, 250>>} :
             /\ UintDec(UintEnc(<<2>>, v), <<2>>).val = v /\ UintDec2(UintEnc(<<2>>, v), <<2>>, Len(v)).ok
             /\ UintDec(UintEnc(<<2>>, v \o <<0, 0>>), <<2>>).val = v,
  bit  |-> \A bits \in 0..18 : LET v == [i \in 1..((bits + 7) \div 8) |-> 255] IN
             LET d == BitDec(BitEnc(<<3>>, v, bits), <<3>>) IN d.ok /\ d.bits = bits /\ BitEnc(<<3>>, d.val, bits) = BitEnc(<<3>>, v, bits)
                                                               /\ Len(d.val) = (bits + 7) \div 8,
  oid  |-> \A s \in {"0.0", "0.39", "1.0", "1.39", "2.0", "2.39", "2.40", "2.47", "2.48", "2.999", "2.4294967215", "1.2.840.113549",
                     "1.2.112.0.2.0.34.101.31.81", "2.5.4.4294967295", "2.16383.16384.2097151.2097152.268435455.268435456", "1.2.0.0"} :
             LET d == OidFromDer(OidToDer(S(s))) IN d.ok /\ d.oid = S(s),
  apdu |-> \A lc \in {0, 1, 2, 255, 256, 257} : \A rdf \in {0, 1, 255, 256, 257, 65535, 65536} :
             LET c == [cla |-> 128, ins |-> 1, p1 |-> 2, p2 |-> 3, cdf |-> [i \in 1..lc |-> i % 256], rdf |-> rdf]
                 e == CmdEnc(c)
                 short == lc <= 255 /\ rdf <= 256
             IN /\ CmdDec(e) = [ok |-> TRUE, cmd |-> c] /\ CmdIsCanonical(e)
                /\ Len(e) = 4 + (IF lc = 0 THEN 0 ELSE IF short THEN 1 ELSE 3) + lc
                              + (IF rdf = 0 THEN 0 ELSE IF short THEN 1 ELSE IF lc > 0 THEN 2 ELSE 3),
  luhn |-> \A a \in 48..57 : \A b \in 48..57 : \A c \in 48..57 :
             LET s == <<a, b, c>> IN /\ DecLuhnVerify(s \o <<DecLuhnCalc(s)>>) /\ DecDammVerify(s \o <<DecDammCalc(s)>>)
                                     /\ DecLuhnVerify(<<a, b>> \o <<DecLuhnCalc(<<a, b>>)>>) /\ DecDammVerify(<<a>> \o <<DecDammCalc(<<a>>)>>)
                                     \* Damm detects every single-digit error and every adjacent transposition
                                     /\ \A e \in 48..57 : e # b => ~DecDammVerify(<<a, e, c, DecDammCalc(s)>>)
                                     /\ (a # b => ~DecDammVerify(<<b, a, c, DecDammCalc(s)>>))
                                     \* Luhn detects every single-digit error
                                     /\ \A e \in 48..57 : e # b => ~DecLuhnVerify(<<a, e, c, DecLuhnCalc(s)>>),
  decu |-> \A w \in {<<0, 0>>, <<1, 0>>, <<65535, 0>>, <<0, 1>>, <<65535, 65535>>, <<52719, 4660>>} :
             DecToU32(DecFromU32(10, w)) = w /\ DecToU32(DecFromU32(12, w)) = w /\ Len(DecFromU32(12, w)) = 12
]
RTNames == DOMAIN RT

VARIABLES phase, kind, name, ok
Init == phase = 0 /\ kind = "" /\ name = "" /\ ok = TRUE
Pick == \/ kind' = "vec" /\ name' \in VecNames
        \/ kind' = "rt" /\ name' \in RTNames
        \/ kind' = "law" /\ name' \in LawNames
Next == \/ (phase = 0 /\ phase' = 1 /\ ok' = TRUE /\ Pick)
        \/ (phase = 1 /\ phase' = 2 /\ kind' = kind /\ name' = name
             /\ ok' = (CASE kind = "vec" -> V[name] [] kind = "rt" -> RT[name] [] OTHER -> IF name <= 255 THEN LawA(name) ELSE LawB(name - 256)))
VecGood == ok
=============================================================================
