INIT Init
NEXT Next
