------------------------------ MODULE BeltFmt ------------------------------
(* belt-fmt of STB 34.101.31 (format-preserving encryption of words over Z_mod):
   radix conversions Str2Bin / Bin2Str, the block count b = least number of 64-bit blocks
   that hold any word of mod^n (DECLARATIVELY: least b with mod^n <= 2^(64 b)),
   belt-32block, and the 3 x 2 Feistel-like rounds.
   Naturals are little-endian sequences of 12-bit limbs (limb * 65536 fits TLC's 32-bit ints). *)
EXTENDS BeltModes

LB == 4096
NZeros(n) == [i \in 1..n |-> 0]

\* a * m + c  on a fixed number of limbs (the caller sizes the number so that nothing is lost)
NMulAdd(a, m, c) ==
  FoldLeft(LAMBDA acc, i : LET t == a[i] * m + acc[2] IN <<Append(acc[1], t % LB), t \div LB>>,
           <<<<>>, c>>, Upto(Len(a)))[1]
\* <<a div m, a mod m>> for 2 <= m <= 65536
NDivMod(a, m) ==
  LET n == Len(a)
      st == FoldLeft(LAMBDA acc, i : LET t == acc[2] * LB + a[n + 1 - i] IN <<<<t \div m>> \o acc[1], t % m>>,
                     <<<<>>, 0>>, Upto(n))
  IN st
NDec1(a) ==       \* a - 1 for a > 0
  FoldLeft(LAMBDA acc, i : IF acc[2] = 0 THEN <<Append(acc[1], a[i]), 0>>
                           ELSE IF a[i] > 0 THEN <<Append(acc[1], a[i] - 1), 0>>
                           ELSE <<Append(acc[1], LB - 1), 1>>,
           <<<<>>, 1>>, Upto(Len(a)))[1]
\* bit length of a limb sequence
LimbBits(v) == IF v = 0 THEN 0 ELSE CHOOSE k \in 1..12 : 2 ^ (k - 1) <= v /\ v < 2 ^ k
NBitLen(a) ==
  FoldLeft(LAMBDA acc, i : IF a[i] # 0 THEN 12 * (i - 1) + LimbBits(a[i]) ELSE acc, 0, Upto(Len(a)))

\* octets (little-endian) <-> limbs: 3 octets = 2 limbs
OctToLimbs(o, nl) ==
  LET p == PadZ(o, 3 * ((nl + 1) \div 2) + 3)
  IN [k \in 1..nl |-> LET g == (k - 1) \div 2  base == 3 * g IN
        IF k % 2 = 1 THEN p[base + 1] + 256 * (p[base + 2] % 16)
        ELSE (p[base + 2] \div 16) + 16 * p[base + 3]]
LimbsToOct(l, no) ==
  LET q == l \o NZeros(2 + (Len(l) % 2))
  IN [k \in 1..no |-> LET g == (k - 1) \div 3  l0 == q[2 * g + 1]  l1 == q[2 * g + 2] IN
        CASE (k - 1) % 3 = 0 -> l0 % 256
          [] (k - 1) % 3 = 1 -> (l0 \div 256) + 16 * (l1 % 16)
          [] OTHER -> l1 \div 16]

\* mod^n on enough limbs
NPow(mod, n) == FoldLeft(LAMBDA acc, i : NMulAdd(acc, mod, 0), <<1>> \o NZeros((16 * n) \div 12 + 2), Upto(n))
\* the block count: least b with mod^n <= 2^(64 b), i.e. bitlen(mod^n - 1) <= 64 b
BlockCount(mod, n) == LET L == NBitLen(NDec1(NPow(mod, n))) IN IF L = 0 THEN 1 ELSE (L + 63) \div 64
\* breakpoint predicate used for the complete table: T is the largest alphabet with count <= b
PowLe(mod, n, b) == NBitLen(NDec1(NPow(mod, n))) <= 64 * b

\* word (digits str[1..n], least significant first) -> 8b octets
Str2Bin(str, mod, b) ==
  LET nl == (64 * b) \div 12 + 2
      a == FoldLeft(LAMBDA acc, i : NMulAdd(acc, mod, str[Len(str) + 1 - i]), NZeros(nl), Upto(Len(str)))
  IN LimbsToOct(a, 8 * b)
\* digits of the number held in octet string bin: <<d_1, ..., d_n>>
Digits(bin, mod, n) ==
  LET a0 == OctToLimbs(bin, (8 * Len(bin)) \div 12 + 1)
  IN FoldLeft(LAMBDA acc, i : LET dm == NDivMod(acc[2], mod) IN <<Append(acc[1], dm[2]), dm[1]>>,
              <<<<>>, a0>>, Upto(n))[1]

\* belt-32block on 24 octets
X4(a, b) == XorS(a, b)
B32(X, T) ==
  LET w(s, i) == Sub(s, 4 * i + 1, 4 * i + 4)
      t0 == w(X, 0)  t1 == w(X, 1)  t2 == w(X, 2)  t3 == w(X, 3)  t4 == w(X, 4)  t5 == w(X, 5)
      r1 == F(t2 \o t3 \o t4 \o t5, T)
      a2 == X4(w(r1, 0), <<1, 0, 0, 0>>)  a3 == w(r1, 1)  a4 == w(r1, 2)  a5 == w(r1, 3)
      a0 == X4(t0, a2)  a1 == X4(t1, a3)
      r2 == F(a4 \o a5 \o a0 \o a1, T)
      b4 == X4(w(r2, 0), <<2, 0, 0, 0>>)  b5 == w(r2, 1)  b0 == w(r2, 2)  b1 == w(r2, 3)
      b2 == X4(a2, b4)  b3 == X4(a3, b5)
      r3 == F(b0 \o b1 \o b2 \o b3, T)
      c0 == X4(w(r3, 0), <<3, 0, 0, 0>>)  c1 == w(r3, 1)  c2 == w(r3, 2)  c3 == w(r3, 3)
      c4 == X4(b4, c0)  c5 == X4(b5, c1)
  IN c0 \o c1 \o c2 \o c3 \o c4 \o c5

\* encryption of 8(b+1) octets by the primitive the block count selects
FmtPrim(X, b, T) == IF b = 1 THEN F(X, T) ELSE IF b = 2 THEN B32(X, T) ELSE WBLEncrT(X, T)

\* one half-round: the half `src` (b blocks) keys an addition (sign = 1) or subtraction (sign = -1) on `dst`
HalfRound(dst, src, mod, b, c1, c2, T, sign) ==
  LET bin == FmtPrim(Str2Bin(src, mod, b) \o c1 \o c2, b, T)
      d == Digits(bin, mod, Len(dst))
  IN [j \in 1..Len(dst) |-> (dst[j] + (IF sign = 1 THEN d[j] ELSE mod - d[j])) % mod]

FmtIv(mod, count, S) == LE(mod % 65536, 2) \o LE(count, 2) \o S \o LE(mod % 65536, 2) \o LE(count, 2)

FMTEncr(X, mod, key, S) ==
  LET T == KeyExpand(key)  count == Len(X)  n1 == (count + 1) \div 2  n2 == count \div 2
      b1 == BlockCount(mod, n1)  b2 == BlockCount(mod, n2)  iv == FmtIv(mod, count, S)
      st == FoldLeft(LAMBDA a, i :
              LET l2 == HalfRound(a[1], a[2], mod, b2, HSlice(8 * i, 4), Sub(iv, 8 * i + 1, 8 * i + 4), T, 1)
                  r2 == HalfRound(a[2], l2, mod, b1, HSlice(8 * i + 4, 4), Sub(iv, 8 * i + 5, 8 * i + 8), T, 1)
              IN <<l2, r2>>,
              <<SubSeq(X, 1, n1), SubSeq(X, n1 + 1, count)>>, <<0, 1, 2>>)
  IN st[1] \o st[2]
FMTDecr(Y, mod, key, S) ==
  LET T == KeyExpand(key)  count == Len(Y)  n1 == (count + 1) \div 2  n2 == count \div 2
      b1 == BlockCount(mod, n1)  b2 == BlockCount(mod, n2)  iv == FmtIv(mod, count, S)
      st == FoldLeft(LAMBDA a, i :
              LET r2 == HalfRound(a[2], a[1], mod, b1, HSlice(8 * i + 4, 4), Sub(iv, 8 * i + 5, 8 * i + 8), T, -1)
                  l2 == HalfRound(a[1], r2, mod, b2, HSlice(8 * i, 4), Sub(iv, 8 * i + 1, 8 * i + 4), T, -1)
              IN <<l2, r2>>,
              <<SubSeq(Y, 1, n1), SubSeq(Y, n1 + 1, count)>>, <<2, 1, 0>>)
  IN st[1] \o st[2]
=============================================================================
