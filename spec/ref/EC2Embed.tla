------------------------------ MODULE EC2Embed ------------------------------
(* Complete small binary curves inside the large fields that gf2.h accepts  (C06).

   gf2Create() only accepts x^m + x^k + 1 and x^m + x^k + x^l + x^l1 + 1 with m - k >= B_PER_W (and k < B_PER_W for
   pentanomials), so no field with fewer than 2^33 (32-bit words) / 2^65 (64-bit words) elements exists in the library and
   no curve E(GF(2^m)) can be enumerated.  But for d | m the field GF(2^m) = GF(2)[x]/(F) contains exactly one subfield
   with 2^d elements, and a curve with coefficients A, B in that subfield has the COMPLETE group E(GF(2^d)) as a
   subgroup of E(GF(2^m)).  This module constructs the subfield explicitly:
     gamma   = Tr_{m/d}(x^j) = sum_{i < m/d} (x^j)^(2^(d i)), the first j for which gamma has exactly d conjugates;
     g(t)    = prod_{i < d} (t + gamma^(2^i)), the minimal polynomial of gamma: its coefficients must be 0 / 1;
     K       = GF(2)[t]/(g)   (elements = integers < 2^d, ref/EC2Int.tla);
     phi     : K -> GF(2^m),  sum a_i t^i |-> sum a_i gamma^i.
   phi is a ring homomorphism because g(gamma) = 0 (checked: EmbOk), hence an embedding of fields when g and F are
   irreducible (checked by TLC: PIsIrredByDef(g), PIsIrred(F)).  A curve over K and all its points are carried
   into GF(2^m) by phi, and phi commutes with the group law (checked on samples by the users of this module). *)
EXTENDS BigNat, GF2Poly, FiniteSets

E2B == INSTANCE EC2Big
E2I == INSTANCE EC2Int

BSqr(a, f) == E2B!BFMul(a, a, f)
\* relative trace GF(2^m) -> GF(2^d)
SubTrace(u, f, d) ==
  FoldLeft(LAMBDA acc, i : LET s == BSqr(acc[1], f) IN <<s, IF i % d = 0 THEN E2B!BFAdd(acc[2], s) ELSE acc[2]>>,
           <<u, u>>, PRng(1, f.m - 1))[2]
\* <<c, c^2, c^4, ..., c^(2^(d-1))>>
Conj(c, f, d) == FoldLeft(LAMBDA acc, i : Append(acc, BSqr(acc[i], f)), <<c>>, PRng(1, d - 1))
HasDegree(c, f, d) ==
  LET cs == Conj(c, f, d) IN Cardinality({cs[i] : i \in 1..d}) = d /\ BSqr(cs[d], f) = c
\* prod (t + cs[i]) as the sequence of its coefficients (element j + 1 = coefficient of t^j)
ProdLinear(cs, f) ==
  FoldLeft(LAMBDA pol, i : PStrict([j \in 1..(Len(pol) + 1) |->
                              E2B!BFAdd(IF j > 1 THEN pol[j - 1] ELSE PZero,
                                        IF j <= Len(pol) THEN E2B!BFMul(cs[i], pol[j], f) ELSE PZero)]),
           <<POne>>, PRng(1, Len(cs)))
MaxJ == 64
Embed(f, d) ==
  LET jj == FoldLeft(LAMBDA acc, j : IF acc > 0 THEN acc
                                     ELSE IF HasDegree(SubTrace(E2B!BRed(PMonomial(j), f), f, d), f, d) THEN j ELSE 0,
                     0, PRng(1, MaxJ))
      gamma == SubTrace(E2B!BRed(PMonomial(jj), f), f, d)
      co == ProdLinear(Conj(gamma, f, d), f)
      pow == FoldLeft(LAMBDA acc, i : Append(acc, E2B!BFMul(acc[i], gamma, f)), <<POne>>, PRng(1, d))   \* gamma^0 .. gamma^d
      g == FoldLeft(LAMBDA acc, j : IF co[j + 1] = POne THEN acc + 2 ^ j ELSE acc, 0, PRng(0, d))
  IN IF f.m % d # 0 \/ jj = 0 THEN [ok |-> FALSE, j |-> jj, d |-> d]
     ELSE [ok |-> TRUE, j |-> jj, d |-> d, gamma |-> gamma, g |-> g, pow |-> pow,
           bin |-> \A j \in 1..(d + 1) : co[j] \in {PZero, POne}]
Phi(emb, a) ==
  FoldLeft(LAMBDA acc, i : IF (a \div (2 ^ i)) % 2 = 1 THEN E2B!BFAdd(acc, emb.pow[i + 1]) ELSE acc, PZero, PRng(0, emb.d - 1))
PhiPt(emb, P) == IF E2I!IsO(P) THEN E2B!O ELSE <<Phi(emb, P[1]), Phi(emb, P[2])>>
KField(emb) == [d |-> emb.d, g |-> emb.g]
\* the construction is sound: g monic of degree d with 0/1 coefficients, irreducible, g(gamma) = 0, gamma in the
\* subfield (gamma^(2^d) = gamma), F irreducible
EmbOk(emb, f) ==
  /\ emb.ok /\ emb.bin /\ emb.g >= 2 ^ emb.d /\ emb.g < 2 ^ (emb.d + 1)
  /\ PIsIrredByDef(<<emb.g>>)
  /\ PIsZero(FoldLeft(LAMBDA acc, j : IF (emb.g \div (2 ^ j)) % 2 = 1 THEN E2B!BFAdd(acc, emb.pow[j + 1]) ELSE acc,
                      PZero, PRng(0, emb.d)))
  /\ Conj(emb.gamma, f, emb.d + 1)[emb.d + 1] = emb.gamma
  /\ PIsIrred(f.F)
=============================================================================
