INIT Init
NEXT Next
