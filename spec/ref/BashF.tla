------------------------------- MODULE BashF -------------------------------
(* STB 34.101.77: the sponge permutation bash-f (section 6) and the hashing algorithms
   bash-hash[l] (section 7), transcribed from the text of the standard.

   A state is 1536 bits = 192 octets = 24 words S_0..S_23 of 64 bits; a word is the
   little-endian number of its 8 octets.  TLC integers are 32-bit, so a word is a tuple of
   four 16-bit limbs <<w0, w1, w2, w3>> (w0 least significant).

   Nothing below is copied from bash_f64.c: the rotation schedule is (8, 53, 14, 1) * 7^j mod 64,
   the word permutation is the standard's P, the round constants come from the LFSR. *)
EXTENDS Bytes

\* ---- 64-bit word operations on limbs
XorW(a, b) == <<a[1] ^^ b[1], a[2] ^^ b[2], a[3] ^^ b[3], a[4] ^^ b[4]>>
AndW(a, b) == <<a[1] & b[1], a[2] & b[2], a[3] & b[3], a[4] & b[4]>>
OrW(a, b)  == <<a[1] | b[1], a[2] | b[2], a[3] | b[3], a[4] | b[4]>>
NotW(a)    == <<65535 - a[1], 65535 - a[2], 65535 - a[3], 65535 - a[4]>>

P2 == <<1, 2, 4, 8, 16, 32, 64, 128, 256, 512, 1024, 2048, 4096, 8192, 16384, 32768, 65536>>
\* RotHi^r: cyclic shift of the 64-bit number towards the high bits by r in 0..63,
\* decomposed into a limb rotation by k = r div 16 and a bit shift by s = r mod 16
RotHi(a, r) ==
  LET k == r \div 16
      s == r % 16
      x0 == a[((4 - k) % 4) + 1]   x1 == a[((5 - k) % 4) + 1]
      x2 == a[((6 - k) % 4) + 1]   x3 == a[((7 - k) % 4) + 1]
  IN IF s = 0 THEN <<x0, x1, x2, x3>>
     ELSE LET p == P2[s + 1]   q == P2[17 - s]
          IN << ((x0 * p) % 65536) + (x3 \div q), ((x1 * p) % 65536) + (x0 \div q),
                ((x2 * p) % 65536) + (x1 \div q), ((x3 * p) % 65536) + (x2 \div q) >>
\* logical shift by one bit towards the low bits
ShLo1(a) == << (a[1] \div 2) + ((a[2] % 2) * 32768), (a[2] \div 2) + ((a[3] % 2) * 32768),
               (a[3] \div 2) + ((a[4] % 2) * 32768), a[4] \div 2 >>

WordFrom(s, i) == << s[i] + (256 * s[i + 1]), s[i + 2] + (256 * s[i + 3]),
                     s[i + 4] + (256 * s[i + 5]), s[i + 6] + (256 * s[i + 7]) >>
WordTo(w) == << w[1] % 256, w[1] \div 256, w[2] % 256, w[2] \div 256,
                w[3] % 256, w[3] \div 256, w[4] % 256, w[4] \div 256 >>

-----------------------------------------------------------------------------
(* 6.1 bash-s[m1, n1, m2, n2](W0, W1, W2):
     1. T0 <- RotHi^m1(W0)              2. W0 <- W0 + W1 + W2
     3. T1 <- W1 + RotHi^n1(W0)         4. W1 <- T0 + T1
     5. W2 <- W2 + RotHi^m2(W2) + RotHi^n2(T1)
     6. T0 <- ~W2, T1 <- W0 | W2, T2 <- W0 & W1, T0 <- T0 | W1
     7. W1 <- W1 + T1, W2 <- W2 + T2, W0 <- W0 + T0          (+ is XOR)            *)
BashS(w0, w1, w2, m1, n1, m2, n2) ==
  LET t0 == RotHi(w0, m1)
      u0 == XorW(XorW(w0, w1), w2)
      t1 == XorW(w1, RotHi(u0, n1))
      u1 == XorW(t0, t1)
      u2 == XorW(XorW(w2, RotHi(w2, m2)), RotHi(t1, n2))
      v0 == OrW(NotW(u2), u1)
      v1 == OrW(u0, u2)
      v2 == AndW(u0, u1)
  IN << XorW(u0, v0), XorW(u1, v1), XorW(u2, v2) >>

(* 6.2 step 2.2: (m1, n1, m2, n2) starts as (8, 53, 14, 1) and is multiplied by 7 mod 64
   after every column j = 0..7. *)
Sched == FoldLeft(LAMBDA acc, j : Append(acc, [i \in 1..4 |-> (7 * acc[Len(acc)][i]) % 64]),
                  << <<8, 53, 14, 1>> >>, Upto(7))

(* 6.2 step 2.3: S <- (S15,S10,S9,S12,S11,S14,S13,S8, S17,S16,S19,S18,S21,S20,S23,S22,
                        S6,S3,S0,S5,S2,S7,S4,S1). *)
PermP == <<15, 10, 9, 12, 11, 14, 13, 8, 17, 16, 19, 18, 21, 20, 23, 22, 6, 3, 0, 5, 2, 7, 4, 1>>

(* Round constants: C_1 = 3BF5080AC8BA94B1 (the first 8 octets of the belt S-box table read as
   a word); C_{t+1} = ShLo(C_t) if C_t is even, ShLo(C_t) + A otherwise, A = DC2BE1997FE0D8AE. *)
C1 == WordFrom(<<177, 148, 186, 200, 10, 8, 245, 59>>, 1)
LfsrA == WordFrom(<<174, 216, 224, 127, 153, 225, 43, 220>>, 1)
NextC(c) == IF c[1] % 2 = 1 THEN XorW(ShLo1(c), LfsrA) ELSE ShLo1(c)
RoundC == FoldLeft(LAMBDA acc, t : Append(acc, NextC(acc[Len(acc)])), <<C1>>, Upto(23))

\* one round on the 24 words S (1-based: S[i + 1] is S_i)
Round(S, c) ==
  LET cols == [j \in 1..8 |-> LET p == Sched[j] IN
                 BashS(S[j], S[j + 8], S[j + 16], p[1], p[2], p[3], p[4])]
      \* word number k (0-based) after the column step: row k div 8 of column k mod 8
      U == [i \in 1..24 |-> LET k == PermP[i] IN cols[(k % 8) + 1][(k \div 8) + 1]]
  IN [U EXCEPT ![24] = XorW(U[24], c)]

LoadS(s) == [i \in 1..24 |-> WordFrom(s, (8 * (i - 1)) + 1)]
StoreS(S) == [i \in 1..192 |-> LET w == S[((i - 1) \div 8) + 1]   b == (i - 1) % 8
                                  l == w[(b \div 2) + 1]
                              IN IF b % 2 = 0 THEN l % 256 ELSE l \div 256]

\* bash-f on 192 octets
BashF(s) == StoreS(FoldLeft(LAMBDA S, c : Round(S, c), LoadS(s), RoundC))

-----------------------------------------------------------------------------
(* 7 bash-hash[l](X), l in {16, 32, ..., 256} (bits of security), hash of 2l bits:
     r = 1536 - 4l bits (192 - l/2 octets);
     X || 01 || 0^t padded to a multiple of r (octet 0x40: the first bit of an octet is its
     most significant bit), blocks X_1..X_n;
     S <- 0^1472 || <l/4>_64;  for each block: S[...r) <- X_i, S <- bash-f(S);  Y = S[...2l). *)
HashLevels == {16 * i : i \in 1..16}
HashRate(l) == 192 - (l \div 2)
HashPad(X, r) == X \o <<64>> \o Zeros(r - 1 - (Len(X) % r))
HashInit(l) == Zeros(184) \o <<l \div 4>> \o Zeros(7)
BashHashN(l, X, n) ==             \* first n octets, n <= l / 4
  LET r == HashRate(l)
      blocks == Chunks(HashPad(X, r), r)
      S == FoldLeft(LAMBDA st, b : BashF(b \o DropN(st, r)), HashInit(l), blocks)
  IN TakeN(S, n)
BashHash(l, X) == BashHashN(l, X, l \div 4)
=============================================================================
