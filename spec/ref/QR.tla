--------------------------------- MODULE QR ---------------------------------
(* The alias macros of include/bee2/math/qr.h, zm.h, gfp.h, gf2.h and the comparison macros of include/bee2/core/word.h
   as mathematics (never from the .c files; the macros are judged through their MEANING in the ring, not through the
   function they happen to expand to).

   Rings Z/(mod) (zm.h, gfp.h): an element is a number 0 <= a < mod.  Elements travel through qrFrom / qrTo as octet
   strings, so the statements are independent of the internal representation, except
     qrCmp   - compares the REPRESENTATIONS (it is wwCmp on the element arrays).  zm.h fixes them: in the rings with the
               plain, Crandall and Barrett reductions an element is the number itself; in a Montgomery ring the number a
               is held as a * R mod mod, where R is the least number of the form B^k greater than mod;
     zmIsIn  - is a statement about a raw array of n words: it denotes an element iff it is < mod.
   Fields GF(2^m) = GF(2)[x]/(p(x)) (gf2.h): an element is a polynomial of degree < m. *)
EXTENDS BigNat, GF2Poly

\* ---- qr.h
qrAddUnity(a, mod) == AddMod(a, One, mod)                      \* b <- a + 1
qrSubUnity(a, mod) == SubMod(a, One, mod)                      \* a <- a - 1
qrIsUnity(a, mod) == Eq(a, Mod(One, mod))                      \* a is the multiplicative unity?
\* representation of the number a in the ring built with the reduction strategy strat (W bits per machine word)
MontR(mod, W) == PowerOf2(W * ((BitLen(mod) + W - 1) \div W))  \* least B^k > mod (mod is not a power of B: it is odd > 1)
QrRep(a, mod, strat, W) == IF strat = "mont" THEN MulMod(a, MontR(mod, W), mod) ELSE Norm(a)
IsStrat(strat) == strat \in {"plain", "crand", "barr", "mont"}
qrCmp(a, b, mod, strat, W) == Cmp(QrRep(a, mod, strat, W), QrRep(b, mod, strat, W))

\* ---- zm.h
zmIsIn(aw, mod) == Less(aw, mod)                               \* the array [n]aw denotes an element of the ring?
zmAdd(a, b, mod) == AddMod(a, b, mod)
zmSub(a, b, mod) == SubMod(a, b, mod)
zmNeg(a, mod) == SubMod(Zero, a, mod)
\* zmIsValid: qrIsOperable(r) /\ r->mod is a valid pointer /\ r->mod[r->n - 1] > 0; the driver presents operable descriptions
\* whose modulus has the top word "top"
zmIsValid(top) == ~IsZero(top)

\* ---- gfp.h (mod = p odd)
gfpDouble(a, mod) == AddMod(a, a, mod)                         \* b <- 2a
\* b <- a / 2: the element b with b + b = a (unique, p is odd)
gfpHalfOk(b, a, mod) == Less(b, mod) /\ Eq(AddMod(b, b, mod), a)

\* ---- gf2.h: f = x^m + ... of degree m; elements are polynomials (16-bit limbs)
gf2Deg(m) == m                                                 \* the extension degree
gf2IsIn(aw, m) == PDeg(aw) < m                                 \* the array [W_OF_B(m)]aw denotes an element of the field?
gf2Add(a, b) == PAdd(a, b)
gf2Sub(a, b) == PAdd(a, b)                                     \* characteristic 2
gf2Neg(a) == a

\* ---- word.h: comparisons of machine words a, b (numbers < B).  rel in Eq, Neq, Less, Leq, Greater, Geq;
\* kind "int": a truth value of type int (non-zero = true); "01": WORD_0 / WORD_1; "0M": WORD_0 / WORD_MAX
WordRel(rel, a, b) ==
  CASE rel = "Eq" -> Eq(a, b)
    [] rel = "Neq" -> ~Eq(a, b)
    [] rel = "Less" -> Less(a, b)
    [] rel = "Leq" -> Leq(a, b)
    [] rel = "Greater" -> Less(b, a)
    [] rel = "Geq" -> Leq(b, a)
IsWordRel(rel) == rel \in {"Eq", "Neq", "Less", "Leq", "Greater", "Geq"}
WordCmpName(rel, kind) == "word" \o rel \o (IF kind = "int" THEN "" ELSE kind)
\* reti: the int result (kind "int"); retw: the word result as a number (kinds "01", "0M"); W bits per word
WordCmpOk(rel, kind, a, b, reti, retw, W) ==
  LET p == WordRel(rel, a, b)
  IN CASE kind = "int" -> (reti # 0) = p
       [] kind = "01" -> Eq(retw, IF p THEN One ELSE Zero)
       [] kind = "0M" -> Eq(retw, IF p THEN Sub2(PowerOf2(W), One) ELSE Zero)
       [] OTHER -> FALSE
=============================================================================
