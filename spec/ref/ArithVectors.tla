---------------------------- MODULE ArithVectors ----------------------------
(* Anchors of lib/BigNat.tla, lib/GF2Poly.tla and of ref/ZZ.tla, WW.tla, PP.tla, WordOps.tla, evaluated by TLC
   (one vector per state, invariant VecGood).  The oracle is validated before it is used:
     - known big-number facts (30!, 10^40, 3^100, isqrt(10^60); values written down from Python's integers);
     - Fermat / Euler facts for the primes 2^61-1, 2^64-59, 2^89-1, 2^127-1, 2^255-19 (ModExp, ModInv, Jacobi:
       the Jacobi symbol computed through the reciprocity law must equal Euler's criterion a^((p-1)/2) mod p);
     - the defining identities on boundary operands: a = q*b + r /\ r < b, a*a^{-1} = 1, s^2 <= a < (s+1)^2,
       To16(From16(s)) = s, for operands around powers of the limb base and of 2^16, 2^32, 2^64;
     - GF(2)[x]: Rabin's test against trial division for ALL polynomials of degree <= 10, the irreducible
       polynomials of STB 34.101.31 (belt: x^128+x^7+x^2+x+1) and of the NIST binary fields, division identity,
       Bezout identity, Berlekamp-Massey on the remarks of pp.h (zero sequence -> 1, all-ones -> x+1) and on
       m-sequences;
     - the fixed constants of /repo/test/core/word_test.c and /repo/test/math/ww_test.c (weights, parities,
       CTZ/CLZ, the 0x5C / 0x36 shift-with-carry cases);
     - window NAF: sequences worked out by hand from the definition in ww.h (7 = 8 - 1; 3 and 15 with the replaced suffix),
       encoded by hand, and their forbidden variants (suffix not replaced, leading zero symbol, adjacent non-zero symbols);
     - ring aliases: the Montgomery representation changes the order of elements (mod 7, B = 2^16: 1 -> 2, 4 -> 1),
       halving in GF(7), membership in GF(2^8); factor base: 3 * 5 * 7 * 11 modulo the first primes, the last element
       8167 of the library's base; prime extension: 7 = 2*3*1 + 1, 13 = 2*3*2*1 + 1 accepted, 25 = 2*3*4 + 1 refused. *)
EXTENDS ZZ, WW, PP, QR, PriBase, TLC

H(s) == From16(s)
P61 == Sub2(PowerOf2(61), One)
P64 == Sub2(PowerOf2(64), OfInt(59))
P89 == Sub2(PowerOf2(89), One)
P127 == Sub2(PowerOf2(127), One)
P255 == Sub2(PowerOf2(255), OfInt(19))
Primes == <<P61, P64, P89, P127, P255>>
Fact(n) == FoldLeft(LAMBDA acc, i : MulInt(acc, i), One, Rng(1, n))
Pow(a, k) == FoldLeft(LAMBDA acc, i : Mul(acc, a), One, Rng(1, k))
Half(p) == Shr(Sub2(p, One), 1)
\* Euler's criterion as a symbol
Euler(a, p) == LET e == ModExp(a, Half(p), p) IN IF IsZero(e) THEN 0 ELSE IF Eq(e, One) THEN 1 ELSE -1
Smalls == <<2, 3, 5, 7, 11, 13, 65537, 123456789>>
\* boundary numbers: around powers of 2
Bnd == <<Zero, One, Two, Sub2(PowerOf2(12), One), PowerOf2(12), Sub2(PowerOf2(16), One), PowerOf2(16), AddInt(PowerOf2(16), 1),
         Sub2(PowerOf2(24), One), PowerOf2(24), Sub2(PowerOf2(32), One), PowerOf2(32), Sub2(PowerOf2(63), One), PowerOf2(63),
         Sub2(PowerOf2(64), One), PowerOf2(64), AddInt(PowerOf2(64), 1), Sub2(PowerOf2(127), One), PowerOf2(128),
         Sub2(PowerOf2(192), One), Mul(Sub2(PowerOf2(64), One), Sub2(PowerOf2(64), One)), H(<<21504, 62941, 34397, 3990, 63031, 3347>>)>>
NB == Len(Bnd)

\* polynomials of the standards
NistPolys == <<Pentanomial(163, 7, 6, 3), Trinomial(233, 74), Pentanomial(283, 12, 7, 5), Trinomial(409, 87), Pentanomial(571, 10, 5, 2)>>
SeqOfLfsr(taps, init, len) ==      \* s[j+d] = sum taps[i] * s[j+i-1], d = Len(taps)
  FoldLeft(LAMBDA s, j : Append(s, FoldLeft(LAMBDA acc, i : (acc + taps[i] * s[Len(s) - Len(taps) + i]) % 2, 0, Rng(1, Len(taps)))),
           init, Rng(1, len - Len(init)))

VecOk(i) ==
  CASE i = 1 -> Eq(Fact(30), H(<<0, 21504, 62941, 34397, 3990, 63031, 3347>>))
    [] i = 2 -> Eq(Pow(OfInt(10), 40), H(<<0, 0, 24832, 47605, 49067, 23716, 61891, 25385, 29>>))
    [] i = 3 -> Eq(Pow(OfInt(3), 100), H(<<5073, 53048, 32085, 54932, 63349, 23361, 26710, 26423, 21450, 23110>>))
    [] i = 4 -> Eq(Sqrt(Pow(OfInt(10), 60)), H(<<0, 16384, 60906, 18036, 40144, 40748, 12>>)) /\ zzSqrt(Pow(OfInt(10), 60))[2]
    [] i = 5 -> Eq(ModInv(OfInt(65537), P127), H(<<65535, 0, 65535, 0, 65535, 0, 65535>>))
    \* sqrt(-1) mod 2^255-19 = 2^((p-1)/4)
    [] i = 6 -> LET r == ModExp(Two, Shr(Sub2(P255, One), 2), P255)
                IN Eq(r, H(<<41136, 18958, 6951, 50414, 58488, 44335, 6150, 12099, 55207, 15867, 153, 11085, 57099, 20417, 9344, 11139>>))
                   /\ Eq(MulMod(r, r, P255), Sub2(P255, One))
    \* Fermat: a^(p-1) = 1 mod p
    [] i \in 7..11 -> LET p == Primes[i - 6] IN \A k \in 1..3 : Eq(ModExp(OfInt(Smalls[k]), Sub2(p, One), p), One)
    \* Jacobi by reciprocity = Euler's criterion, for primes; multiplicativity for a composite modulus
    [] i \in 12..16 -> LET p == Primes[i - 11] IN \A k \in 1..Len(Smalls) : Jacobi(OfInt(Smalls[k]), p) = Euler(OfInt(Smalls[k]), p)
    [] i = 17 -> LET n == Mul(P61, P89) IN \A k \in 1..Len(Smalls) :
                    Jacobi(OfInt(Smalls[k]), n) = Euler(OfInt(Smalls[k]), P61) * Euler(OfInt(Smalls[k]), P89)
    [] i = 18 -> Jacobi(P61, P61) = 0 /\ Jacobi(Zero, One) = 1 /\ Jacobi(Mul(P61, Two), Mul(P61, OfInt(3))) = 0
    \* division identity, inverse, square root on all pairs of boundary numbers
    [] i \in 101..(100 + NB) -> \A j \in 2..NB : DivModOk(Bnd[i - 100], Bnd[j])
    [] i \in 201..(200 + NB) -> LET a == Bnd[i - 200]  s == Sqrt(a)
                                IN Leq(Mul(s, s), a) /\ Less(a, Mul(AddInt(s, 1), AddInt(s, 1)))
                                   /\ To16(a, 16) = To16(From16(To16(a, 16)), 16) /\ Eq(FromOctets(ToOctets(a, 40)), a)
                                   /\ BitLen(Shl(a, 13)) = (IF IsZero(a) THEN 0 ELSE BitLen(a) + 13) /\ Eq(Shr(Shl(a, 29), 29), a)
    [] i \in 301..(300 + NB) -> \A k \in 1..5 : LET p == Primes[k]  a == Mod(Bnd[i - 300], p)
                                                IN IsZero(a) \/ Eq(MulMod(a, ModInv(a, p), p), One)
    [] i \in 401..(400 + NB) -> \A j \in 1..NB : LET a == Bnd[i - 400]  b == Bnd[j]  g == GCD(a, b)
                                                 IN (IsZero(g) /\ IsZero(a) /\ IsZero(b))
                                                    \/ (IsZero(Mod(a, g)) /\ IsZero(Mod(b, g)) /\ Eq(GCD(Div(a, g), Div(b, g)), One))
    \* Montgomery / Barrett parameters as specified
    [] i = 501 -> \A k \in 1..5 : LET p == Primes[k]  mp == MontParam(p, 64)
                                  IN IsZero(LoW(AddInt(Mul(mp, LoW(p, 64, 1)), 1), 64, 1))
    [] i = 502 -> \A k \in 1..5 : LET p == Primes[k]  a == Mul(Sub2(p, One), Sub2(p, Two))  n == (BitLen(p) + 63) \div 64
                                  IN Eq(MulMod(zzRedMont(a, p, 64, n), BPow(64, n), p), Mod(a, p))
    \* ---- GF(2)[x]
    [] i \in 601..610 -> \A v \in P2(i - 600)..(P2(i - 599) - 1) : PIsIrred(<<v % 65536>> \o (IF v >= 65536 THEN <<v \div 65536>> ELSE <<>>)) =
                                                                   PIsIrredByDef(<<v % 65536>> \o (IF v >= 65536 THEN <<v \div 65536>> ELSE <<>>))
    [] i = 611 -> PIsIrred(BeltPoly) /\ ~PIsIrred(PAdd(BeltPoly, PX)) /\ ~PIsIrred(PAdd(PMonomial(128), POne))
    [] i = 612 -> PIsIrred(Trinomial(127, 1)) /\ PIsIrred(Trinomial(63, 1)) /\ ~PIsIrred(Trinomial(64, 1))
    [] i \in 613..617 -> PIsIrred(NistPolys[i - 612])
    [] i = 618 -> \A k \in 1..5 : ~PIsIrred(PMul(NistPolys[k], PAdd(PX, POne)))
    [] i = 619 -> LET a == <<43981, 4660, 65535, 1>>  b == <<65535, 32768, 7>>  c == <<1, 0, 0, 0, 32768>>
                  IN PEq(PMul(a, b), PMul(b, a)) /\ PEq(PMul(a, PAdd(b, c)), PAdd(PMul(a, b), PMul(a, c)))
                     /\ PDivModOk(PMul(a, c), b) /\ PDivModOk(a, c) /\ PDivModOk(c, a)
                     /\ PEq(PMod(PMul(a, b), b), PZero) /\ PEq(PDiv(PMul(a, b), b), a)
    [] i = 620 -> LET a == <<43981, 4660, 65535, 1>>  b == PMul(<<65535, 32768, 7>>, <<7>>)  c == PMul(a, <<7>>)
                      e == PExGCD(c, b)
                  IN PEq(PAdd(PMul(c, e[2]), PMul(b, e[3])), e[1]) /\ PEq(e[1], PGCD(c, b)) /\ PIsZero(PMod(e[1], <<7>>))
    [] i = 621 -> \A k \in 1..5 : LET f == NistPolys[k]  a == <<43981, 4660, 65535, 1>>
                                  IN PEq(PMulMod(a, PInvMod(a, f), f), POne)
    \* Berlekamp-Massey: the remarks of pp.h and maximal-length sequences
    [] i = 622 -> PEq(PMinPolySeq(Rep(16, 0)), POne) /\ PEq(PMinPolySeq(Rep(16, 1)), <<3>>)
    [] i = 623 -> PEq(PMinPolySeq(SeqOfLfsr(<<1, 1, 0, 0>>, <<0, 0, 0, 1>>, 8)), <<19>>)             \* x^4 + x + 1
                  /\ PEq(PMinPolySeq(SeqOfLfsr(<<1, 0, 1, 0, 0>>, <<1, 0, 0, 0, 0>>, 10)), <<37>>)  \* x^5 + x^2 + 1
                  /\ PEq(PMinPolySeq(SeqOfLfsr(<<1, 1>>, <<0, 1>>, 12)), <<7>>)                      \* x^2 + x + 1
    \* ---- fixed constants of the test suite
    [] i = 701 -> wWeight(<<40961>>) = 3 /\ wParity(<<40961>>) = 1 /\ wWeight(<<65535>>) = 16 /\ wParity(<<65535>>) = 0
    [] i = 702 -> wWeight(<<40961, 61440>>) = 7 /\ wParity(<<40961, 61440>>) = 1 /\ wWeight(<<40961, 3584>>) = 6 /\ wParity(<<40961, 3584>>) = 0
    [] i = 703 -> wWeight(<<40961, 61440, 33006, 43521>>) = 19 /\ wParity(<<40961, 61440, 33006, 43521>>) = 1
                  /\ wWeight(<<40961, 3584, 34054, 29440>>) = 16 /\ wParity(<<40961, 3584, 34054, 29440>>) = 0
    [] i = 704 -> wCTZ(<<65528>>) = 3 /\ wCLZ(<<65528>>) = 0 /\ wCTZ(<<57344, 32767>>) = 13 /\ wCLZ(<<57344, 32767>>) = 1
                  /\ wCTZ(<<32768, 64991, 63, 0>>) = 15 /\ wCLZ(<<32768, 64991, 63, 0>>) = 26 /\ wCTZ(<<0, 0>>) = 32 /\ wCLZ(<<0, 0, 0, 0>>) = 64
    \* ww_test.c: a = 0x5C repeated in 8 words (W = 64 and W = 32)
    [] i = 705 -> \A W \in {32, 64} : LET lw == W \div 16  w5c == <<92>> \o Zeros(lw - 1)  w2e == <<46>> \o Zeros(lw - 1)
                                          a5c == wwRepW(8 * lw, w5c)  a2e == wwRepW(8 * lw, w2e)
                                      IN wwShHiCarry(a5c, W, w5c, W) = <<a5c, w5c>> /\ wwShLoCarry(a5c, W, w5c, W) = <<a5c, w5c>>
                                         /\ wwShHiCarry(a5c, W - 1, w5c, W) = <<a2e, w2e>> /\ wwShLoCarry(a2e, W - 1, w2e, W) = <<a5c, w5c>>
                                         /\ wwIsRepW(a5c, w5c) /\ ~wwIsRepW(a5c, w2e) /\ wwCmpW(wwSetW(8 * lw, <<54>> \o Zeros(lw - 1)), w5c) = -1
    [] i = 706 -> LET b == wwRepW(32, <<54, 0, 0, 0>>)
                  IN Eq(wwGetBits(b, 64, 6), OfInt(54)) /\ Eq(wwGetBits(b, 65, 5), OfInt(27))
                     /\ Eq(wwGetBits(wwSetBits(b, 62, 7, <<54, 0, 0, 0>>), 62, 7), OfInt(54))
    \* word helpers: involutions and inverses
    [] i = 707 -> \A v \in {1, 3, 40961, 65535, 21845, 32769} :
                     wRev(wRev(<<v, 7>>)) = <<v, 7>> /\ wBitrev(wBitrev(<<v, 7>>)) = <<v, 7>> /\ wDeshuffle(wShuffle(<<v, 7, 9, 11>>)) = <<v, 7, 9, 11>>
                     /\ (v % 2 = 0 \/ IsZero(LoW(AddInt(Mul(From16(wNegInv(<<v, 7>>)), From16(<<v, 7>>)), 1), 32, 1)))
                     /\ wRotLo(wRotHi(<<v, 7>>, 5), 5) = <<v, 7>> /\ wRotHi(<<v, 0>>, 16) = <<0, v>>
    \* ---- window NAF (ww.h).  7 = -1 + 8, w = 2: symbols (a_0..a_3) = (-1, 0, 0, 1); code from a_3: 1,0 | 0 | 0 | 1,1  = 49
    [] i = 801 -> wwNAFOk(<<49, 0, 0>>, 4, <<7>>, 2) /\ ~wwNAFOk(<<49, 0, 0>>, 3, <<7>>, 2) /\ ~wwNAFOk(<<49, 0, 0>>, 4, <<9>>, 2)
                  /\ wwNAFOk(<<0, 0, 0>>, 0, <<0>>, 2) /\ ~wwNAFOk(<<49, 1, 0>>, 4, <<7>>, 2)
    \* 3 = -1 + 4 -> suffix (-1, 0, 1) is replaced by (1, 1): code 1,0 | 1,0 = 5; the unreplaced form 1,0 | 0 | 1,1 = 25 is refused
    [] i = 802 -> wwNAFOk(<<5, 0, 0>>, 2, <<3>>, 2) /\ ~wwNAFOk(<<25, 0, 0>>, 3, <<3>>, 2)
    \* 15 = -1 + 16, w = 4: (-1, 0, 0, 0, 1) is replaced by (7, 0, 0, 1): code 1,0,0,0 | 0 | 0 | 1,1,1,0 = 449;
    \* unreplaced 1,0,0,0 | 0 | 0 | 0 | 1,0,0,1 = 1153 refused; (1, 1, 1, 1) (value 15, adjacent symbols) = 1,0,0,0 x 4 = 4369 refused
    [] i = 803 -> wwNAFOk(<<449, 0, 0>>, 4, <<15>>, 4) /\ ~wwNAFOk(<<1153, 0, 0>>, 5, <<15>>, 4) /\ ~wwNAFOk(<<4369, 0, 0>>, 4, <<15>>, 4)
    \* 2^16 + 5, w = 3: (-3, 0, 0, 1, 0.., 1) with 5 = -3 + 8: code of a_16 = 1: 1,0,0; 12 zeros; a_3 = 1: 1,0,0; 0; 0; a_0 = -3: 1,1,1
    \* bits: 1,0,0, 0 x 12, 1,0,0, 0,0, 1,1,1 -> 1 + 2^15 + 2^20 + 2^21 + 2^22
    [] i = 804 -> wwNAFOk(<<32769, 112, 0, 0, 0>>, 17, <<5, 1>>, 3) /\ ~wwNAFOk(<<32769, 112, 0, 0, 0>>, 17, <<5, 1>>, 4)
    \* ---- ring aliases, word comparisons, factor base, prime extension
    [] i = 811 -> qrCmp(One, OfInt(4), OfInt(7), "mont", 16) = 1 /\ qrCmp(One, OfInt(4), OfInt(7), "plain", 16) = -1
                  /\ Eq(MontR(OfInt(65521), 16), PowerOf2(16)) /\ Eq(MontR(AddInt(PowerOf2(16), 1), 16), PowerOf2(32))
                  /\ gfpHalfOk(OfInt(4), One, OfInt(7)) /\ ~gfpHalfOk(OfInt(3), One, OfInt(7)) /\ ~gfpHalfOk(OfInt(11), One, OfInt(7))
                  /\ qrIsUnity(One, OfInt(7)) /\ Eq(qrSubUnity(Zero, OfInt(7)), OfInt(6)) /\ Eq(qrAddUnity(OfInt(6), OfInt(7)), Zero)
                  /\ gf2IsIn(<<128>>, 8) /\ ~gf2IsIn(<<256>>, 8) /\ gf2IsIn(<<65535, 0>>, 16) /\ zmIsIn(OfInt(6), OfInt(7)) /\ ~zmIsIn(OfInt(7), OfInt(7))
    [] i = 812 -> WordCmpOk("Less", "0M", One, Two, 0, Sub2(PowerOf2(32), One), 32) /\ WordCmpOk("Less", "0M", Two, One, 0, Zero, 32)
                  /\ ~WordCmpOk("Less", "01", One, Two, 0, Sub2(PowerOf2(32), One), 32) /\ WordCmpOk("Geq", "int", Two, Two, 1, Zero, 64)
                  /\ WordCmpOk("Neq", "01", PowerOf2(63), Sub2(PowerOf2(63), One), 0, One, 64) /\ WordCmpName("Leq", "0M") = "wordLeq0M"
                  /\ WordCmpName("Eq", "int") = "wordEq"
    [] i = 813 -> priBaseModOk(<<0, 0, 0, 0, 11>>, OfInt(1155), 5, 1) /\ ~priBaseModOk(<<0, 0, 0, 0, 12>>, OfInt(1155), 5, 1)
                  /\ priBaseModOk(<<>>, OfInt(1155), 0, 4) /\ BasePrime(1023) = 8167 /\ BasePrime(0) = 3
    [] i = 814 -> priExtendOk(1, OfInt(7), 3, OfInt(3), One, TRUE) /\ priExtendOk(1, OfInt(13), 4, OfInt(3), Two, FALSE)
                  /\ ~priExtendOk(1, OfInt(25), 5, OfInt(3), One, FALSE) /\ ~priExtendOk(1, OfInt(11), 4, OfInt(3), One, FALSE)
                  /\ ~priExtendOk(0, Zero, 5, OfInt(3), One, TRUE) /\ priExtendOk(0, Zero, 5, OfInt(3), One, FALSE)
                  /\ ~priExtendOk(1, OfInt(13), 5, OfInt(3), Two, FALSE)
                  /\ zzRandModOk(1, OfInt(6), OfInt(7), TRUE, "seeded") /\ ~zzRandModOk(1, OfInt(7), OfInt(7), FALSE, "seeded")
                  /\ ~zzRandModOk(1, Zero, OfInt(7), TRUE, "00") /\ zzRandModOk(0, OfInt(9), OfInt(7), TRUE, "FF") /\ ~zzRandModOk(0, Zero, OfInt(7), FALSE, "seeded")
    [] OTHER -> TRUE

VecIds == (1..18) \cup (101..(100 + NB)) \cup (201..(200 + NB)) \cup (301..(300 + NB)) \cup (401..(400 + NB))
          \cup {501, 502} \cup (601..623) \cup (701..707) \cup (801..804) \cup (811..814)

VARIABLES phase, vid, ok
VInit == phase = 0 /\ vid = 0 /\ ok = TRUE
VNext == \/ phase = 0 /\ phase' = 1 /\ vid' \in VecIds /\ ok' = TRUE
         \/ phase = 1 /\ phase' = 2 /\ vid' = vid /\ ok' = VecOk(vid) /\ (ok' \/ PrintT(<<"@BADVEC", vid>>))
VecGood == ok
=============================================================================
