-------------------------------- MODULE Bels --------------------------------
(* STB 34.101.60 (bels): threshold secret sharing over GF(2)[x].
   A public key m of l = 8 len bits stands for the polynomial f(x) = x^l + m(x); octet strings are
   little-endian (octet j, bit i <-> coefficient of x^(8j+i)), i.e. GF2Poly limbs.
     share:    c(x) = (x^l + m0(x)) k(x) + s(x),  deg k < (t-1) l;   s_i(x) = c(x) mod (x^l + m_i(x))
     recover:  the unique c of degree < u l with c = s_i mod f_i for the u given shares (CRT),
               then s = c mod (x^l + m0(x))
     valm:     x^l + m(x) is irreducible
     genmid:   u = first len octets of belt-hash(id); f = minimal polynomial of u in GF(2)[x]/(f0);
               accept when deg f = l and f # f0, else u <- u + 1 (as an integer) and repeat.
   Written from the standard's definitions (include/bee2/crypto/bels.h names the algorithms);
   anchored by the appendix tables B.1-B.7 in ref/BelsVectors.tla. *)
EXTENDS GF2Poly, BeltModes

OctToPoly(o) == [i \in 1..((Len(o) + 1) \div 2) |-> o[2 * i - 1] + 256 * (IF 2 * i <= Len(o) THEN o[2 * i] ELSE 0)]
PolyToOct(p, n) == LET q == PFit(p, (n + 1) \div 2)
                   IN [j \in 1..n |-> IF j % 2 = 1 THEN q[(j + 1) \div 2] % 256 ELSE q[j \div 2] \div 256]

KeyPoly(m) == PAdd(PMonomial(8 * Len(m)), OctToPoly(m))          \* x^l + m(x)

\* shares of secret s under common key m0, user keys mis (sequence), one-time key k (octets, (t-1) len of them)
Shares(s, m0, mis, k) ==
  LET c == PAdd(PMul(KeyPoly(m0), OctToPoly(k)), OctToPoly(s))
  IN [i \in 1..Len(mis) |-> PolyToOct(PMod(c, KeyPoly(mis[i])), Len(s))]

\* Chinese remaindering over the given shares, in the given order
CRT(sis, mis) ==
  FoldLeft(LAMBDA acc, j :
             LET fj == KeyPoly(mis[j])
                 d == PMod(PAdd(OctToPoly(sis[j]), acc[1]), fj)              \* s_j - c  mod f_j
                 t == PMulMod(d, PInvMod(acc[2], fj), fj)
             IN <<PAdd(acc[1], PMul(acc[2], t)), PMul(acc[2], fj)>>,
           <<OctToPoly(sis[1]), KeyPoly(mis[1])>>, [j \in 1..(Len(sis) - 1) |-> j + 1])[1]
Recover(sis, m0, mis) == PolyToOct(PMod(CRT(sis, mis), KeyPoly(m0)), Len(m0))

\* the keys are usable: all irreducible of degree l and pairwise different (then pairwise coprime)
ValM(m) == PIsIrred(KeyPoly(m))
Distinct(ms) == \A i, j \in 1..Len(ms) : i # j => ms[i] # ms[j]

\* minimal polynomial over GF(2) of the element u of E = GF(2)[x]/(f0), f0 irreducible of degree l:
\* the minimal polynomial of the sequence lambda(u^i), i = 0..2l-1, lambda = constant coefficient
MinPoly(u, f0, l) ==
  LET seq == FoldLeft(LAMBDA acc, i : <<Append(acc[1], PBit(acc[2], 0)), PMulMod(acc[2], u, f0)>>,
                      <<<<>>, POne>>, PRng(1, 2 * l))[1]
  IN PMinPolySeq(seq)
\* one candidate u (len octets) of bels-genmi / genmid: accepted iff its minimal polynomial has degree l and differs from f0
TryCand(u, m0) ==
  LET len == Len(m0)  l == 8 * len  f0 == KeyPoly(m0)
      f == MinPoly(PMod(OctToPoly(u), f0), f0, l)
  IN IF PDeg(f) = l /\ ~PEq(f, f0) THEN <<TRUE, PolyToOct(PAdd(f, PMonomial(l)), len)>> ELSE <<FALSE, <<>>>>
\* bels-genmi as implemented per call: up to three candidates are drawn from the generator (tape = 3 len octets)
GenMi(m0, tape) ==
  LET len == Len(m0)
      c(i) == TryCand(Sub(tape, (i - 1) * len + 1, i * len), m0)
  IN IF c(1)[1] THEN c(1) ELSE IF c(2)[1] THEN c(2) ELSE c(3)
\* integer increment of a little-endian octet string
GenMid(m0, id) ==
  LET len == Len(m0)  l == 8 * len  f0 == KeyPoly(m0)
      u0 == TakeN(Hash(id), len)
      try(u) == LET f == MinPoly(PMod(OctToPoly(u), f0), f0, l) IN
                IF PDeg(f) = l /\ ~PEq(f, f0) THEN <<TRUE, PolyToOct(PAdd(f, PMonomial(l)), len)>> ELSE <<FALSE, <<>>>>
      r0 == try(u0)
  IN IF r0[1] THEN r0[2]
     ELSE LET r1 == try(IncLE(u0)) IN IF r1[1] THEN r1[2] ELSE try(IncLE(IncLE(u0)))[2]
=============================================================================
