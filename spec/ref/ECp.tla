-------------------------------- MODULE ECp --------------------------------
(* Short-Weierstrass curves  E: y^2 = x^3 + A x + B  over GF(p), p > 3 prime  (C06, C02).

   THE DEFINITION is the affine chord-and-tangent group law with the point at infinity O as a
   distinguished value.  Nothing here comes from src/math/ecp.c: the law is the textbook one
   (Silverman III.2.3 / ANSI X9.62 annex), SWU is the map of STB 34.101.66 (6.2.3) as ecp.h cites it.

   The module is parameterised by the field arithmetic so that the SAME definitions are evaluated
     (i)  over plain TLC integers for p < 2^15           (ECpInt.tla:  EI == INSTANCE ECpInt)
     (ii) over BigNat limb sequences for multi-word p      (ECpBig.tla:  EB == INSTANCE ECpBig).
   Field elements are canonical (fully reduced; in (ii) normalised limb sequences), so points are
   compared with "=".  A curve is a record [p |-> p, A |-> A, B |-> B].

   INTERFACE
     O  IsO(P)  Pt(x,y)              points: O = <<>>, affine point = <<x, y>>
     IsOnCurve(E,x,y)                x,y in [0,p) /\ y^2 = x^3+Ax+B      (coordinates >= p => FALSE)
     IsPoint(E,P)  IsSmooth(E)
     PNeg PAdd PSub PDbl PTpl        the group law
     ScalarMul(E,k,P)                double-and-add over the bits of k (FoldLeft), k in the scalar domain
     MulSeq(E,P,K)                   <<0P, 1P, ..., KP>> by ITERATED ADDITION (K a TLC int): the meaning of kP
     MulAdd(E,ks,Ps)                 sum of ks[i] * Ps[i]
     HasOrder(E,P,q)                 P # O /\ qP = O   (= "P has order q" for prime q, as ec.h says)
     SWU(E,a)                        STB 34.101.66 map, p = 3 (mod 4), A # 0, B # 0
     SqrtP(E,v)  Decompress(E,x)     p = 3 (mod 4): <<ok, y>> with y = rhs^((p+1)/4)
     JDbl JAddA JToA ScalarMulJ      Jacobian double-and-add (textbook formulas) used ONLY as a faster
                                     evaluation of ScalarMul for multi-word p; ECpVectors checks
                                     ScalarMulJ = ScalarMul = MulSeq exhaustively on complete small curves. *)
EXTENDS Integers, Sequences, SequencesExt

CONSTANTS FAdd(_, _, _), FSub(_, _, _), FMul(_, _, _),      \* (a, b, p): a, b in [0, p)
          FInv(_, _),                                        \* (a, p): a # 0
          FPow(_, _, _),                                     \* (a, e, p): e in the scalar domain
          FIn(_, _),                                         \* (a, p): a < p (a any natural)
          FIsZero(_),
          FOfInt(_),                                         \* small int -> element (0..27)
          SBits(_),                                          \* scalar -> bits, most significant first
          PMinus2(_), SwuExp(_), SqrtExp(_),                 \* p - 2;  p - 1 - (p+1)/4;  (p+1)/4
          PMod4(_)                                           \* p mod 4 as a TLC int

O == <<>>
IsO(P) == Len(P) = 0
Pt(x, y) == <<x, y>>

F0 == FOfInt(0)
F1 == FOfInt(1)
FNeg(a, p) == FSub(F0, a, p)
FSqr(a, p) == FMul(a, a, p)
FDbl(a, p) == FAdd(a, a, p)
FMulI(a, c, p) == FMul(a, FOfInt(c), p)

\* x^3 + A x + B
Rhs(E, x) == FAdd(FMul(FAdd(FSqr(x, E.p), E.A, E.p), x, E.p), E.B, E.p)
IsOnCurve(E, x, y) == FIn(x, E.p) /\ FIn(y, E.p) /\ FSqr(y, E.p) = Rhs(E, x)
IsPoint(E, P) == IsO(P) \/ (Len(P) = 2 /\ IsOnCurve(E, P[1], P[2]))
\* 4 A^3 + 27 B^2 # 0
IsSmooth(E) == ~FIsZero(FAdd(FMulI(FMul(FSqr(E.A, E.p), E.A, E.p), 4, E.p), FMulI(FSqr(E.B, E.p), 27, E.p), E.p))

\* ---------------------------------------------------------------- the group law (affine, with O)
PNeg(E, P) == IF IsO(P) THEN O ELSE <<P[1], FNeg(P[2], E.p)>>

\* the third point of the line of slope l through (x1, y1) and a point of abscissa x2, reflected
Third(E, l, x1, y1, x2) ==
  LET x3 == FSub(FSub(FSqr(l, E.p), x1, E.p), x2, E.p)
  IN <<x3, FSub(FMul(l, FSub(x1, x3, E.p), E.p), y1, E.p)>>

PAdd(E, P, Q) ==
  IF IsO(P) THEN Q ELSE
  IF IsO(Q) THEN P ELSE
  LET p == E.p  x1 == P[1]  y1 == P[2]  x2 == Q[1]  y2 == Q[2]
  IN IF x1 # x2
       THEN Third(E, FMul(FSub(y2, y1, p), FInv(FSub(x2, x1, p), p), p), x1, y1, x2)       \* chord
     ELSE IF y1 = y2 /\ ~FIsZero(y1)
       THEN Third(E, FMul(FAdd(FMulI(FSqr(x1, p), 3, p), E.A, p), FInv(FDbl(y1, p), p), p), x1, y1, x1)  \* tangent
     ELSE O                                                                                 \* Q = -P

PSub(E, P, Q) == PAdd(E, P, PNeg(E, Q))
PDbl(E, P) == PAdd(E, P, P)
PTpl(E, P) == PAdd(E, PDbl(E, P), P)

\* kP by double-and-add over the bits of k, from the top
ScalarMul(E, k, P) ==
  FoldLeft(LAMBDA acc, b : LET d == PDbl(E, acc) IN IF b = 1 THEN PAdd(E, d, P) ELSE d, O, SBits(k))

\* <<0P, 1P, ..., KP>> by iterated addition (K a TLC integer >= 0): element k+1 is kP
MulSeq(E, P, K) ==
  FoldLeft(LAMBDA acc, i : Append(acc, PAdd(E, acc[i], P)), <<O>>, [i \in 1..K |-> i])

\* ks[1] Ps[1] + ... + ks[n] Ps[n]
MulAdd(E, ks, Ps) ==
  FoldLeft(LAMBDA acc, i : PAdd(E, acc, ScalarMul(E, ks[i], Ps[i])), O, [i \in 1..Len(ks) |-> i])

\* ec.h ecHasOrderA: q P = O for an affine P (for prime q: the order of P is q)
HasOrder(E, P, q) == ~IsO(P) /\ IsO(ScalarMul(E, q, P))

\* ---------------------------------------------------------------- square roots, decompression (p = 3 mod 4)
\* candidate root v^((p+1)/4); it is a root iff its square is v
SqrtP(E, v) == LET y == FPow(v, SqrtExp(E.p), E.p) IN <<FSqr(y, E.p) = v, y>>
\* the point(s) with abscissa x: <<ok, y>>, y the root rhs^((p+1)/4)
Decompress(E, x) == IF ~FIn(x, E.p) THEN <<FALSE, F0>> ELSE SqrtP(E, Rhs(E, x))

\* ---------------------------------------------------------------- SWU (STB 34.101.66, 6.2.3; ecp.h ecpSWU)
\* For s in GF(p), p = 3 (mod 4), A # 0, B # 0:
\*   t  <- -s^2
\*   x1 <- -B (1 + t + t^2) (A (t + t^2))^(p-2)
\*   x2 <- t x1
\*   y  <- x1^3 + A x1 + B
\*   s' <- s^3 y
\*   u  <- y^(p - 1 - (p+1)/4)
\*   W  <- (x1, u y) if u^2 y = 1, else (x2, u s')
SWU(E, s) ==
  LET p == E.p
      t == FNeg(FSqr(s, p), p)
      tt == FAdd(t, FSqr(t, p), p)
      x1 == FNeg(FMul(FMul(E.B, FAdd(F1, tt, p), p), FPow(FMul(E.A, tt, p), PMinus2(p), p), p), p)
      x2 == FMul(t, x1, p)
      y == Rhs(E, x1)
      s3 == FMul(FMul(FSqr(s, p), s, p), y, p)
      u == FPow(y, SwuExp(p), p)
  IN IF FMul(FSqr(u, p), y, p) = F1 THEN <<x1, FMul(u, y, p)>> ELSE <<x2, FMul(u, s3, p)>>

\* ---------------------------------------------------------------- Jacobian evaluation of ScalarMul
\* (X : Y : Z) ~ (X/Z^2, Y/Z^3); O = (1 : 1 : 0).  Textbook formulas (IEEE P1363 A.10.4/A.10.5).
JO == <<F1, F1, F0>>
JIsO(J) == FIsZero(J[3])
JDbl(E, J) ==
  IF JIsO(J) \/ FIsZero(J[2]) THEN JO ELSE
  LET p == E.p  X == J[1]  Y == J[2]  Z == J[3]
      YY == FSqr(Y, p)
      S == FMulI(FMul(X, YY, p), 4, p)
      ZZ == FSqr(Z, p)
      M == FAdd(FMulI(FSqr(X, p), 3, p), FMul(E.A, FSqr(ZZ, p), p), p)
      X3 == FSub(FSqr(M, p), FDbl(S, p), p)
      Y3 == FSub(FMul(M, FSub(S, X3, p), p), FMulI(FSqr(YY, p), 8, p), p)
  IN <<X3, Y3, FDbl(FMul(Y, Z, p), p)>>
\* J + affine P (P # O)
JAddA(E, J, P) ==
  IF JIsO(J) THEN <<P[1], P[2], F1>> ELSE
  LET p == E.p  X1 == J[1]  Y1 == J[2]  Z1 == J[3]
      ZZ == FSqr(Z1, p)
      U2 == FMul(P[1], ZZ, p)
      S2 == FMul(P[2], FMul(ZZ, Z1, p), p)
      H == FSub(U2, X1, p)
      R == FSub(S2, Y1, p)
  IN IF FIsZero(H) THEN (IF FIsZero(R) THEN JDbl(E, J) ELSE JO) ELSE
     LET HH == FSqr(H, p)
         HHH == FMul(HH, H, p)
         V == FMul(X1, HH, p)
         X3 == FSub(FSub(FSqr(R, p), HHH, p), FDbl(V, p), p)
         Y3 == FSub(FMul(R, FSub(V, X3, p), p), FMul(Y1, HHH, p), p)
     IN <<X3, Y3, FMul(Z1, H, p)>>
JToA(E, J) ==
  IF JIsO(J) THEN O ELSE
  LET zi == FInv(J[3], E.p)  zi2 == FSqr(zi, E.p)
  IN <<FMul(J[1], zi2, E.p), FMul(J[2], FMul(zi2, zi, E.p), E.p)>>
ScalarMulJ(E, k, P) ==
  IF IsO(P) THEN O ELSE
  JToA(E, FoldLeft(LAMBDA acc, b : LET d == JDbl(E, acc) IN IF b = 1 THEN JAddA(E, d, P) ELSE d, JO, SBits(k)))
MulAddJ(E, ks, Ps) ==
  FoldLeft(LAMBDA acc, i : PAdd(E, acc, ScalarMulJ(E, ks[i], Ps[i])), O, [i \in 1..Len(ks) |-> i])
=============================================================================
