-------------------------------- MODULE Core --------------------------------
(* Reference semantics of the core helper layer of bee2, transcribed from the HEADERS (core/mem.h, core/str.h,
   core/dec.h, core/util.h, core/obj.h) and, for the two checksums, from their standard definitions
   (CRC-32 of ISO 3309 / ITU-T V.42 in its bit-serial form; FNV-1a of width 32).  The u32-array editions of the
   belt block cipher and belt-compress are judged with ref/BeltBlock.tla / ref/BeltModes.tla (STB 34.101.31).

   Memory is a sequence of octets; a buffer [n]buf is the pair (o, n): offset of its first octet (0-based) and
   its length.  Values wider than 16 bits are little-endian octet sequences (TLC integers are 32-bit).
   Anchors (ASSUME, evaluated by TLC whenever the module is loaded) are at the end. *)
EXTENDS BeltBlock, FiniteSets
BM == INSTANCE BeltModes

B01(p) == IF p THEN 1 ELSE 0
Sign(x, y) == IF x < y THEN -1 ELSE IF x > y THEN 1 ELSE 0
MinOf(S) == CHOOSE m \in S : \A x \in S : m <= x
MaxOf(S) == CHOOSE m \in S : \A x \in S : x <= m

-----------------------------------------------------------------------------
(* mem.h, interval geometry.  A buffer is the SET of the addresses of its octets; two buffers intersect iff the sets
   have a common element.  mem.h is silent about empty buffers: by this reading an empty buffer (n = 0) has no
   octets, hence intersects nothing -- wherever it points, also "inside" another buffer and also itself. *)
Span(o, n) == o..(o + n - 1)
Disjoint2(o1, n1, o2, n2) == Span(o1, n1) \cap Span(o2, n2) = {}
Disjoint(o1, o2, n) == Disjoint2(o1, n, o2, n)
\* "совпадает или не пересекается": buffers of one length coincide iff they start at the same address
SameOrDisjoint(o1, o2, n) == o1 = o2 \/ Disjoint(o1, o2, n)
\* iv: a sequence of buffers <<o, n>>; "попарно не пересекаются"
PairwiseDisjoint(iv) == \A i \in 1..Len(iv) : \A j \in (i + 1)..Len(iv) : Disjoint2(iv[i][1], iv[i][2], iv[j][1], iv[j][2])
\* all buffers inside an arena of A octets, ordered by offset, then by length (the order of the driver's batches)
Intervals(A) == Concat([k \in 1..(A + 1) |-> [m \in 1..(A - k + 2) |-> <<k - 1, m - 1>>]])
\* "выровнен на границу size-байтового блока"
Aligned(addr, size) == addr % size = 0

InBuf(len, o, n) == o >= 0 /\ n >= 0 /\ o + n <= len
Get(mem, o, n) == Sub(mem, o + 1, o + n)
\* the memory after the octets s have been written at offset o: nothing else changes
Put(mem, o, s) == [i \in 1..Len(mem) |-> IF i > o /\ i <= o + Len(s) THEN s[i - o] ELSE mem[i]]

MemCopy(mem, do, so, n) == Put(mem, do, Get(mem, so, n))          \* also memMove: the octets of [n]src as they were BEFORE the call
MemSet(mem, o, c, n) == Put(mem, o, Rep(n, c))
MemNeg(mem, o, n) == Put(mem, o, [i \in 1..n |-> 255 - mem[o + i]])
MemRev(mem, o, n) == Put(mem, o, [i \in 1..n |-> mem[o + n + 1 - i]])
MemSwap(mem, o1, o2, n) == Put(Put(mem, o1, Get(mem, o2, n)), o2, Get(mem, o1, n))
MemXor(mem, do, s1, s2, n) == Put(mem, do, XorS(Get(mem, s1, n), Get(mem, s2, n)))
\* "Незначащими считаются последние нулевые октеты буфера вплоть до первого ненулевого"
MemNonZeroSize(a) == LET S == {i \in 1..Len(a) : a[i] # 0} IN IF S = {} THEN 0 ELSE MaxOf(S)

-----------------------------------------------------------------------------
(* str.h.  A string is the sequence of its characters (octets 1..255) without the terminating zero. *)
IsDigit(c) == c >= 48 /\ c <= 57                                    \* '0'-'9'
IsLatin(c) == (c >= 65 /\ c <= 90) \/ (c >= 97 /\ c <= 122)         \* 'A'-'Z', 'a'-'z'
PrintableExtra == {32, 39, 40, 41, 43, 44, 45, 46, 47, 58, 61, 63}  \* the characters of " '()+,-./:=?"
StrIsNumeric(s) == \A i \in 1..Len(s) : IsDigit(s[i])
StrIsAlphanumeric(s) == \A i \in 1..Len(s) : IsDigit(s[i]) \/ IsLatin(s[i])
StrIsPrintable(s) == \A i \in 1..Len(s) : IsDigit(s[i]) \/ IsLatin(s[i]) \/ s[i] \in PrintableExtra
StrLen2(s, count) == Min2(Len(s), count)
\* lexicographic order of octet strings: the first difference decides; a proper prefix is smaller
StrCmp(a, b) == LET n == Min2(Len(a), Len(b))
                    D == {i \in 1..n : a[i] # b[i]}
                IN IF D = {} THEN Sign(Len(a), Len(b)) ELSE Sign(a[MinOf(D)], b[MinOf(D)])
StrStartsWith(s, p) == Len(p) <= Len(s) /\ SubSeq(s, 1, Len(p)) = p
StrEndsWith(s, x) == Len(x) <= Len(s) /\ SubSeq(s, Len(s) - Len(x) + 1, Len(s)) = x
StrRev(s) == [i \in 1..Len(s) |-> s[Len(s) + 1 - i]]
\* the buffer holding the string s
StrBuf(s) == s \o <<0>>

-----------------------------------------------------------------------------
(* Little-endian multi-octet naturals (base 256). *)
\* v * m + a modulo 256^Len(v)  (m, a small)
MulAdd(v, m, a) ==
  FoldLeft(LAMBDA st, i : LET t == (v[i] * m) + st[2] IN <<Append(st[1], t % 256), t \div 256>>, <<<<>>, a>>, Upto(Len(v)))[1]
\* <<v div 10, v mod 10>>
DivMod10(v) ==
  FoldLeft(LAMBDA st, k : LET i == Len(v) + 1 - k
                              cur == (st[2] * 256) + v[i]
                          IN <<[st[1] EXCEPT ![i] = cur \div 10], cur % 10>>, <<v, 0>>, Upto(Len(v)))
\* order of little-endian numbers of one length
CmpLE(a, b) == FoldLeft(LAMBDA acc, i : IF acc # 0 THEN acc ELSE Sign(a[Len(a) + 1 - i], b[Len(a) + 1 - i]), 0, Upto(Len(a)))

(* dec.h (U64): "Младшие count десятичных цифр числа num преобразуются в десятичную строку [count + 1]dec";
   "Десятичная строка dec преобразуется в число u64 ... \mod 2^64"; the first digit is the most significant one. *)
DecFromU64(count, v) ==
  FoldLeft(LAMBDA st, k : LET dm == DivMod10(st[1]) IN <<dm[1], <<48 + dm[2]>> \o st[2]>>, <<v, <<>>>>, Upto(count))[2]
DecToU64(s) == FoldLeft(LAMBDA acc, ch : MulAdd(acc, 10, ch - 48), Zeros(8), s)

(* util.h: minimum / maximum of n > 0 numbers of type size_t (little-endian octets of one length) *)
IsMinOf(res, args) == (\E i \in 1..Len(args) : args[i] = res) /\ \A i \in 1..Len(args) : CmpLE(res, args[i]) <= 0
IsMaxOf(res, args) == (\E i \in 1..Len(args) : args[i] = res) /\ \A i \in 1..Len(args) : CmpLE(res, args[i]) >= 0

-----------------------------------------------------------------------------
(* CRC-32 (ISO 3309, ITU-T V.42): generator x^32+x^26+x^23+x^22+x^16+x^12+x^11+x^10+x^8+x^7+x^5+x^4+x^2+x+1, bits of every
   octet processed least significant first (hence the reflected constant EDB88320), register preset to all ones, result
   complemented.  Words are <<lo16, hi16>>. *)
CrcPoly == <<33568, 60856>>                  \* 0xEDB88320
WOnes == <<65535, 65535>>
CrcShift(w) == LET sh == <<(w[1] \div 2) + ((w[2] % 2) * 32768), w[2] \div 2>>
               IN IF w[1] % 2 = 1 THEN WXor(sh, CrcPoly) ELSE sh
CrcOctet(w, b) == FoldLeft(LAMBDA x, k : CrcShift(x), WXor(w, <<b, 0>>), Upto(8))
CRC32(s) == WTo(WXor(FoldLeft(CrcOctet, WOnes, s), WOnes))

(* FNV-1a, 32 bits (http://isthe.com/chongo/tech/comp/fnv/): for every octet  hash := (hash XOR octet) * 16777619 mod 2^32,
   starting from the offset basis 2166136261 = 0x811C9DC5.  Hashes are 4 little-endian octets. *)
FnvPrime == <<147, 1, 0, 1>>                 \* 16777619 = 0x01000193
FnvBasis == <<197, 157, 28, 129>>            \* 0x811C9DC5
FnvMul(h) ==
  LET col(k) == FoldLeft(LAMBDA acc, i : acc + (h[i] * FnvPrime[k + 1 - i]), 0, Upto(k))
  IN FoldLeft(LAMBDA st, k : LET t == col(k) + st[2] IN <<Append(st[1], t % 256), t \div 256>>, <<<<>>, 0>>, Upto(4))[1]
FNV32(state, s) == FoldLeft(LAMBDA h, b : FnvMul(<<h[1] ^^ b, h[2], h[3], h[4]>>), state, s)

-----------------------------------------------------------------------------
(* belt.h: "форматированный" = an array of u32 words loaded little-endian from the octets (STB 34.101.31, 4.2);
   the u32-array editions compute belt-block on such arrays.  belt-compress (6.3): sigma1 / sigma2 of
   X1 || X2 || X3 || X4 where, as in belt-hash (h <- sigma2(X_i || h)), X = X1 || X2 and h = X3 || X4. *)
KeyW(k) == [i \in 1..8 |-> WFrom(k, (4 * (i - 1)) + 1)]
Encr2(a, k) == EncT(a, KeyW(k))
Decr2(a, k) == DecT(a, KeyW(k))
Compr(h, X) == BM!Sigma2(X \o h)
ComprS(h, X) == BM!Sigma1(X \o h)

-----------------------------------------------------------------------------
(* obj.h.  An object = header (keep, p_count, o_count), then the table of p_count pointers, the o_count object pointers
   first; keep = size of the fragment the object occupies.  hs = size of the header, ps = size of a pointer.
   The driver decodes objects into nodes [b, at, keep, pc, oc, ptrs]: (b, at) = block and offset of the object,
   ptrs[i] = <<kind, block, offset>> with kind 0 null, 1 "own" = inside the fragment of the object owning the table
   (offset from that object's start), 2 another address of a known block, 3 elsewhere.
   Layout rules => "работоспособный": object pointers are among the pointers, and header + table fit into keep;
   objIsOperable also demands it of the referenced ("вложенные") objects. *)
Operable2(nd, hs, ps) == nd.oc <= nd.pc /\ hs + (ps * nd.pc) <= nd.keep
NodeKey(nd) == <<nd.b, nd.at>>
PtrKey(nd, p) == IF p[1] = 1 THEN <<nd.b, nd.at + p[3]>> ELSE <<p[2], p[3]>>
RECURSIVE OperableFrom(_, _, _, _)
OperableFrom(nodes, k, hs, ps) ==
  /\ Operable2(nodes[k], hs, ps)
  /\ Len(nodes[k].ptrs) = nodes[k].pc
  /\ \A i \in 1..nodes[k].oc :
        LET p == nodes[k].ptrs[i]
        IN /\ p[1] \in {1, 2}
           /\ \E j \in 1..Len(nodes) : NodeKey(nodes[j]) = PtrKey(nodes[k], p) /\ OperableFrom(nodes, j, hs, ps)
Operable(nodes, hs, ps) == OperableFrom(nodes, 1, hs, ps)

\* the objects reachable from the first node through object pointers
Succ(nodes, k) == {j \in 1..Len(nodes) : \E i \in 1..Min2(nodes[k].oc, Len(nodes[k].ptrs)) :
                      nodes[k].ptrs[i][1] \in {1, 2} /\ PtrKey(nodes[k], nodes[k].ptrs[i]) = NodeKey(nodes[j])}
Reach(nodes) == FoldLeft(LAMBDA R, t : R \cup UNION {Succ(nodes, k) : k \in R}, {1}, Upto(Len(nodes)))

(* Moving the fragment frag = <<block, offset, size>> to the address to = <<block, offset>>: "Ссылки на внутренние участки
   обновляются при перемещении объекта ... Внешние ссылки остаются постоянными при перемещении объекта".  Every object
   lying in the fragment moves with it; for each of them the references into ITS OWN fragment (kind 1, relative) follow,
   all other references (kind 2, absolute) keep their value -- also those of a nested object that point into the
   enclosing object but outside the nested object itself. *)
InFrag(nd, frag) == nd.b = frag[1] /\ nd.at >= frag[2] /\ nd.at < frag[2] + frag[3]
\* an absolute reference keeps its value, but after an overlapping move it may come to lie inside the new fragment of its owner:
\* the decoder then reports it as "own" -- the same address, named differently
NormPtr(nd, p) == IF p[1] = 2 /\ p[2] = nd.b /\ p[3] >= nd.at /\ p[3] < nd.at + nd.keep THEN <<1, 0, p[3] - nd.at>> ELSE p
MoveNode(nd, frag, to) ==
  IF InFrag(nd, frag)
  THEN LET m == [nd EXCEPT !.b = to[1], !.at = (@ - frag[2]) + to[2]]
       IN [m EXCEPT !.ptrs = [i \in 1..Len(m.ptrs) |-> NormPtr(m, m.ptrs[i])]]
  ELSE nd
MoveNodes(nodes, frag, to) == [k \in 1..Len(nodes) |-> MoveNode(nodes[k], frag, to)]
FragOf(nd) == <<nd.b, nd.at, nd.keep>>
\* objCopy(dest, src): the object src and everything nested in it, at the address dest
CopyResult(S, to) == MoveNodes(S, FragOf(S[1]), to)
(* objAppend(dest, src, i): "Объект src записывается в конец объекта [dest]. В i-ую ячейку таблицы указателей dest
   записывается ссылка на копию src. Длина dest увеличивается на длину src."  The objects of the result are those
   reachable from the new dest: *)
AppendNodes(D, S, i) ==
  LET root == D[1]
      root2 == [root EXCEPT !.keep = @ + S[1].keep, !.ptrs = [root.ptrs EXCEPT ![i + 1] = <<1, 0, root.keep>>]]
  IN [k \in 1..Len(D) |-> IF k = 1 THEN root2 ELSE D[k]] \o CopyResult(S, <<root.b, root.at + root.keep>>)
AppendResult(D, S, i) == LET c == AppendNodes(D, S, i) IN {c[k] : k \in Reach(c)}

-----------------------------------------------------------------------------
(* Anchors. *)
AsciiAlpha == "0123456789abcdefghijklmnopqrstuvwxyz"
AsciiCode(k) == IF k <= 10 THEN 47 + k ELSE 86 + k                  \* '0' = 48, 'a' = 97
Ascii(str) == [i \in 1..Len(str) |-> AsciiCode(CHOOSE k \in 1..36 : SubSeq(AsciiAlpha, k, k) = SubSeq(str, i, i))]
\* the check values of the catalogues: CRC-32("123456789") = CBF43926, CRC-32("") = 0, CRC-32("a") = E8B7BE43
ASSUME CRC32(Ascii("123456789")) = <<38, 57, 244, 203>>
ASSUME CRC32(<<>>) = <<0, 0, 0, 0>>
ASSUME CRC32(Ascii("a")) = <<67, 190, 183, 232>>
\* FNV-1a test vectors of the FNV page: "" -> 811C9DC5, "a" -> E40C292C, "foobar" -> BF9CF968
ASSUME FNV32(FnvBasis, <<>>) = <<197, 157, 28, 129>>
ASSUME FNV32(FnvBasis, Ascii("a")) = <<44, 41, 12, 228>>
ASSUME FNV32(FnvBasis, Ascii("foobar")) = <<104, 249, 156, 191>>
\* 2^64 - 1 = 18446744073709551615; 2^64 = 18446744073709551616 = 0 mod 2^64; 10^19 = 8AC7230489E80000
ASSUME DecFromU64(20, Rep(8, 255)) = Ascii("18446744073709551615")
ASSUME DecToU64(Ascii("18446744073709551615")) = Rep(8, 255)
ASSUME DecToU64(Ascii("18446744073709551616")) = Zeros(8)
ASSUME DecToU64(Ascii("10000000000000000000")) = <<0, 0, 232, 137, 4, 35, 199, 138>>
ASSUME DecFromU64(3, <<210, 4, 0, 0, 0, 0, 0, 0>>) = Ascii("234")          \* 1234 -> its 3 low digits
ASSUME \A v \in {<<1, 2, 3, 4, 5, 6, 7, 8>>, <<255, 0, 255, 0, 255, 0, 255, 128>>} : DecToU64(DecFromU64(20, v)) = v
\* the set definition of disjointness against its arithmetic form
ASSUME \A o1 \in 0..5, n1 \in 0..5, o2 \in 0..5, n2 \in 0..5 :
         Disjoint2(o1, n1, o2, n2) <=> (n1 = 0 \/ n2 = 0 \/ o1 + n1 <= o2 \/ o2 + n2 <= o1)
ASSUME Intervals(2) = <<<<0, 0>>, <<0, 1>>, <<0, 2>>, <<1, 0>>, <<1, 1>>, <<2, 0>>>>
\* STB 34.101.31 table A.1 through the word-array edition
ASSUME Encr2(HSlice(0, 16), HSlice(128, 32)) = <<105, 204, 161, 201, 53, 87, 201, 227, 214, 107, 195, 224, 250, 136, 250, 110>>
ASSUME Decr2(<<105, 204, 161, 201, 53, 87, 201, 227, 214, 107, 195, 224, 250, 136, 250, 110>>, HSlice(128, 32)) = HSlice(0, 16)
=============================================================================
