----------------------------- MODULE BeltModes -----------------------------
(* The mechanisms of STB 34.101.31 built on belt-block: wide block (6.2), compression
   (6.3), ECB/CBC with ciphertext stealing, CFB, CTR (7.1-7.4), MAC (7.5), DWP (7.6),
   CHE (7.7), KWP (7.8), hash (7.9), BDE/SDE (7.10), key expansion and KRP (8.1, 8.2),
   and HMAC / PBKDF2 over belt-hash (STB 34.101.47, RFC 2104, RFC 8018).
   Transcribed from the text of the standard (definitions, not the optimised code);
   anchored by the appendix tables in ref/BeltVectors.tla.
   Keys are octet strings of 16, 24 or 32 octets; T below is an expanded key. *)
EXTENDS BeltBlock

F(X, T)  == EncT(X, T)
FI(X, T) == DecT(X, T)
Blk(s, i) == Sub(s, 16 * (i - 1) + 1, 16 * i)          \* i-th 128-bit block of s
Blk4(s, i) == Sub(s, 4 * (i - 1) + 1, 4 * i)            \* i-th 32-bit word of s
Not16(s) == [i \in 1..Len(s) |-> 255 - s[i]]

-----------------------------------------------------------------------------
(* 6.2 belt-wblock.  |X| >= 32 octets, n = ceil(|X| / 16); r* = last 128 bits of r. *)
WblN(X) == (Len(X) + 15) \div 16
WblEncRound(r, T, i) ==
  LET n == WblN(r)   len == Len(r)
      s == FoldLeft(LAMBDA acc, j : XorS(acc, Blk(r, j)), Blk(r, 1), [k \in 1..(n - 2) |-> k + 1])
      rs == XorS(LastN(r, 16), XorS(F(s, T), LE(i, 16)))
  IN Sub(r, 17, len - 16) \o rs \o s
WblDecRound(r, T, i) ==
  LET n == WblN(r)   len == Len(r)
      s == LastN(r, 16)
      body == Sub(r, 1, len - 32) \o XorS(Sub(r, len - 31, len - 16), XorS(F(s, T), LE(i, 16)))
      r1 == FoldLeft(LAMBDA acc, j : XorS(acc, Blk(body, j)), s, Upto(n - 2))
  IN r1 \o body
WBLEncrT(X, T) == FoldLeft(LAMBDA r, i : WblEncRound(r, T, i), X, Upto(2 * WblN(X)))
WBLDecrT(X, T) == LET m == 2 * WblN(X) IN
                  FoldLeft(LAMBDA r, i : WblDecRound(r, T, m + 1 - i), X, Upto(m))
WBLEncr(X, key) == WBLEncrT(X, KeyExpand(key))
\* continued encryption (beltWBLStepR, used by STB 34.101.45 for one-time keys): the k-th application (k = 0, 1, ...)
\* runs the rounds with counter values k 2n + 1 .. (k + 1) 2n
WBLEncrFrom(X, key, k) == LET T == KeyExpand(key)  m == 2 * WblN(X) IN
                          FoldLeft(LAMBDA r, i : WblEncRound(r, T, k * m + i), X, Upto(m))
WBLDecr(X, key) == WBLDecrT(X, KeyExpand(key))

-----------------------------------------------------------------------------
(* 6.3 belt-compress: X of 512 bits = X1 || X2 || X3 || X4. *)
Sigma1(X) == LET x34 == XorS(Blk(X, 3), Blk(X, 4))
             IN XorS(BeltEncr(x34, Blk(X, 1) \o Blk(X, 2)), x34)
Sigma2(X) == LET S == Sigma1(X)
             IN XorS(BeltEncr(Blk(X, 1), S \o Blk(X, 4)), Blk(X, 1))
                \o XorS(BeltEncr(Blk(X, 2), Not16(S) \o Blk(X, 3)), Blk(X, 2))

-----------------------------------------------------------------------------
(* 7.1 ECB with ciphertext stealing, |X| >= 16. *)
EcbGen(X, T, E(_, _)) ==
  LET q == Len(X) \div 16   rem == Len(X) % 16 IN
  IF rem = 0 THEN Concat([i \in 1..q |-> E(Blk(X, i), T)])
  ELSE LET head == Concat([i \in 1..(q - 1) |-> E(Blk(X, i), T)])
           t == E(Blk(X, q), T)                       \* (Y_n || r) <- E(X_{n-1})
           xn == Sub(X, 16 * q + 1, Len(X))
       IN head \o E(xn \o DropN(t, rem), T) \o TakeN(t, rem)
ECBEncr(X, key) == EcbGen(X, KeyExpand(key), F)
ECBDecr(Y, key) == EcbGen(Y, KeyExpand(key), FI)

(* 7.2 CBC with ciphertext stealing, |X| >= 16; Y_0 = S. *)
CBCEncr(X, key, S) ==
  LET T == KeyExpand(key)   q == Len(X) \div 16   rem == Len(X) % 16
      st == FoldLeft(LAMBDA a, i : LET y == F(XorS(Blk(X, i), a[2]), T) IN <<a[1] \o y, y>>,
                     <<<<>>, S>>, Upto(IF rem = 0 THEN q ELSE q - 1))
  IN IF rem = 0 THEN st[1]
     ELSE LET t == F(XorS(Blk(X, q), st[2]), T)
              xn == Sub(X, 16 * q + 1, Len(X))
              yn == TakeN(t, rem)
          IN st[1] \o F(XorS(xn, yn) \o DropN(t, rem), T) \o yn
CBCDecr(Y, key, S) ==
  LET T == KeyExpand(key)   q == Len(Y) \div 16   rem == Len(Y) % 16
      st == FoldLeft(LAMBDA a, i : <<a[1] \o XorS(FI(Blk(Y, i), T), a[2]), Blk(Y, i)>>,
                     <<<<>>, S>>, Upto(IF rem = 0 THEN q ELSE q - 1))
  IN IF rem = 0 THEN st[1]
     ELSE LET t == FI(Blk(Y, q), T)                   \* (X_n + Y_n) || r
              yn == Sub(Y, 16 * q + 1, Len(Y))
              xn == XorS(TakeN(t, rem), yn)
              xq == XorS(FI(yn \o DropN(t, rem), T), st[2])
          IN st[1] \o xq \o xn

(* 7.3 CFB: Y_0 = S, Y_i = X_i + L(F(Y_{i-1})). *)
CFBEncr(X, key, S) ==
  LET T == KeyExpand(key)   ch == Chunks(X, 16)
  IN FoldLeft(LAMBDA a, i : LET y == XorL(ch[i], F(a[2], T)) IN <<a[1] \o y, y>>,
              <<<<>>, S>>, Upto(Len(ch)))[1]
CFBDecr(Y, key, S) ==
  LET T == KeyExpand(key)   ch == Chunks(Y, 16)
  IN FoldLeft(LAMBDA a, i : <<a[1] \o XorL(ch[i], F(a[2], T)), ch[i]>>,
              <<<<>>, S>>, Upto(Len(ch)))[1]

(* 7.4 CTR: s <- F(S); s <- s [+] <1>_128; Y_i = X_i + L(F(s)). *)
CtrStream(X, T, s0, Upd(_)) ==
  LET ch == Chunks(X, 16)
  IN FoldLeft(LAMBDA a, i : LET s == Upd(a[2]) IN <<a[1] \o XorL(ch[i], F(s, T)), s>>,
              <<<<>>, s0>>, Upto(Len(ch)))[1]
CTR(X, key, S) == LET T == KeyExpand(key) IN CtrStream(X, T, F(S, T), IncLE)

-----------------------------------------------------------------------------
(* 7.5 MAC. *)
Phi1(u) == Blk4(u, 2) \o Blk4(u, 3) \o Blk4(u, 4) \o XorS(Blk4(u, 1), Blk4(u, 2))
Phi2(u) == XorS(Blk4(u, 1), Blk4(u, 4)) \o Blk4(u, 1) \o Blk4(u, 2) \o Blk4(u, 3)
Psi(u) == u \o <<128>> \o Zeros(15 - Len(u))
MACFull(X, key) ==
  LET T == KeyExpand(key)   r == F(Zeros(16), T)
      ch == Chunks(X, 16)   n == Len(ch)
      s == FoldLeft(LAMBDA a, i : F(XorS(a, ch[i]), T), Zeros(16), Upto(IF n = 0 THEN 0 ELSE n - 1))
      last == IF n = 0 THEN <<>> ELSE ch[n]
      fin == IF Len(last) = 16 THEN XorS(XorS(s, last), Phi1(r))
             ELSE XorS(XorS(s, Psi(last)), Phi2(r))
  IN F(fin, T)
MAC(X, key) == TakeN(MACFull(X, key), 8)

-----------------------------------------------------------------------------
(* GF(2^128) = GF(2)[x] / (x^128 + x^7 + x^2 + x + 1); a block is the little-endian
   number whose bit i is the coefficient of x^i.  Polynomials as 8 limbs of 16 bits. *)
ToLimbs(b) == [i \in 1..8 |-> b[2 * i - 1] + 256 * b[2 * i]]
FromLimbs(l) == Concat([i \in 1..8 |-> <<l[i] % 256, l[i] \div 256>>])
PXor(a, b) == [i \in 1..8 |-> a[i] ^^ b[i]]
\* multiplication by x
PMulX(a) == LET sh == [i \in 1..8 |-> ((a[i] * 2) % 65536) + (IF i = 1 THEN 0 ELSE a[i - 1] \div 32768)]
            IN IF a[8] >= 32768 THEN [sh EXCEPT ![1] = sh[1] ^^ 135] ELSE sh
Bit(l, k) == (l[(k \div 16) + 1] \div (2 ^ (k % 16))) % 2        \* k in 0..127
PMul(a, b) == FoldLeft(LAMBDA acc, k : LET d == PMulX(acc) IN
                          IF Bit(b, 128 - k) = 1 THEN PXor(d, a) ELSE d,
                       [i \in 1..8 |-> 0], Upto(128))
GFMul(u, v) == FromLimbs(PMul(ToLimbs(u), ToLimbs(v)))
MulC(u) == FromLimbs(PMulX(ToLimbs(u)))                          \* u * C, C = x

\* polynomial hashing of a string in zero-padded 128-bit blocks: t <- (t + block) * r
PolyAbsorb(t, data, r) ==
  LET ch == Chunks(data, 16)
  IN FoldLeft(LAMBDA a, i : GFMul(XorS(a, PadZ(ch[i], 16)), r), t, Upto(Len(ch)))
LenBlock(I, X) == LE(8 * Len(I), 8) \o LE(8 * Len(X), 8)          \* lengths < 2^28 octets here

(* 7.6 DWP: returns <<Y, T>>. *)
DWPTag(Y, I, r, T) ==
  LET t1 == PolyAbsorb(HSlice(0, 16), I, r)
      t2 == PolyAbsorb(t1, Y, r)
      t3 == GFMul(XorS(t2, LenBlock(I, Y)), r)
  IN TakeN(F(t3, T), 8)
DWPWrap(X, I, key, S) ==
  LET T == KeyExpand(key)   s == F(S, T)   r == F(s, T)
      Y == CtrStream(X, T, s, IncLE)
  IN <<Y, DWPTag(Y, I, r, T)>>
\* returns <<ok, X>>
DWPUnwrap(Y, I, tag, key, S) ==
  LET T == KeyExpand(key)   s == F(S, T)   r == F(s, T)
  IN IF DWPTag(Y, I, r, T) = tag THEN <<TRUE, CtrStream(Y, T, s, IncLE)>> ELSE <<FALSE, <<>>>>

(* 7.7 CHE: r = s = F(S); s <- (s * C) + <1>_128 per block. *)
CheUpd(s) == LET m == MulC(s) IN <<m[1] ^^ 1>> \o Tail(m)
CHEWrap(X, I, key, S) ==
  LET T == KeyExpand(key)   r == F(S, T)
      Y == CtrStream(X, T, r, CheUpd)
  IN <<Y, DWPTag(Y, I, r, T)>>
CHEUnwrap(Y, I, tag, key, S) ==
  LET T == KeyExpand(key)   r == F(S, T)
  IN IF DWPTag(Y, I, r, T) = tag THEN <<TRUE, CtrStream(Y, T, r, CheUpd)>> ELSE <<FALSE, <<>>>>

-----------------------------------------------------------------------------
\* the tag over a given ciphertext Y and associated data I (what StepG returns after StepI/StepA)
AeadTag(Y, I, key, S, che) ==
  LET T == KeyExpand(key)   s == F(S, T)
  IN DWPTag(Y, I, IF che THEN s ELSE F(s, T), T)

-----------------------------------------------------------------------------
(* 7.8 KWP: Y = belt-wblock(X || I). *)
KWPWrap(X, I, key) == WBLEncr(X \o I, key)
KWPUnwrap(Y, I, key) == LET t == WBLDecr(Y, key) IN
   IF LastN(t, 16) = I THEN <<TRUE, TakeN(t, Len(Y) - 16)>> ELSE <<FALSE, <<>>>>

(* 7.9 hash.  Bit length as a 128-bit little-endian number (messages < 2^28 octets here). *)
HashH0 == HSlice(0, 32)
HashAbsorb(sh, X) ==       \* sh = <<s, h>>, X a string processed in zero-padded 256-bit blocks
  LET ch == Chunks(X, 32)
  IN FoldLeft(LAMBDA a, i : LET blk == PadZ(ch[i], 32) \o a[2]
                            IN <<XorS(a[1], Sigma1(blk)), Sigma2(blk)>>,
              sh, Upto(Len(ch)))
Hash(X) == LET sh == HashAbsorb(<<Zeros(16), HashH0>>, X)
           IN Sigma2(LE(8 * Len(X), 16) \o sh[1] \o sh[2])

(* 7.10 BDE / SDE. *)
BDEGen(X, key, S, enc) ==
  LET T == KeyExpand(key)
  IN FoldLeft(LAMBDA a, i : LET s == MulC(a[2])
                                y == XorS(IF enc THEN F(XorS(Blk(X, i), s), T) ELSE FI(XorS(Blk(X, i), s), T), s)
                            IN <<a[1] \o y, s>>,
              <<<<>>, F(S, T)>>, Upto(Len(X) \div 16))[1]
BDEEncr(X, key, S) == BDEGen(X, key, S, TRUE)
BDEDecr(Y, key, S) == BDEGen(Y, key, S, FALSE)
XorFirst(X, s) == XorS(TakeN(X, 16), s) \o DropN(X, 16)
SDEEncr(X, key, S) == LET T == KeyExpand(key)  s == F(S, T) IN XorFirst(WBLEncrT(XorFirst(X, s), T), s)
SDEDecr(Y, key, S) == LET T == KeyExpand(key)  s == F(S, T) IN XorFirst(WBLDecrT(XorFirst(Y, s), T), s)

-----------------------------------------------------------------------------
(* 8.2 belt-keyrep: key X of n octets, level D (12 octets), header I (16 octets), m output octets. *)
KRP(X, D, I, m) == LET r == HSlice(4 * (Len(X) - 16) + 2 * (m - 16), 4)
                   IN TakeN(Sigma2(r \o D \o I \o KeyExpandOctets(X)), m)

(* HMAC[belt-hash] (block 32 octets) and PBKDF2 with one 32-octet output block. *)
HMAC(key, X) ==
  LET k0 == IF Len(key) <= 32 THEN PadZ(key, 32) ELSE Hash(key)
      ip == [i \in 1..32 |-> k0[i] ^^ 54]
      op == [i \in 1..32 |-> k0[i] ^^ 92]
  IN Hash(op \o Hash(ip \o X))
PBKDF2(pwd, iter, salt) ==
  LET u1 == HMAC(pwd, salt \o <<0, 0, 0, 1>>)
  IN FoldLeft(LAMBDA a, i : LET u == HMAC(pwd, a[2]) IN <<XorS(a[1], u), u>>, <<u1, u1>>, Upto(iter - 1))[1]
=============================================================================
