---------------------------- MODULE MC_RngMTGen ----------------------------
(* C18, replay direction: TLC generates behaviours of sm/RngMT.tla (random simulation, -simulate)
   and prints each finished behaviour as a schedule: the sequence of (thread, action) together
   with the projection the specification predicts after every step (trigger, _inited, _ctr,
   _state != 0) and the value every call returns.  checks/C18.py turns each into a `sched` line
   for harness/drv_rng.c replay, which forces real pthreads along it.
   A run of identical CasSpin steps of one thread is recorded once (the spin does not change
   the state). *)
EXTENDS RngMT, Json

VARIABLES hist, emitted
gvars == <<vars, hist, emitted>>

B(x) == IF x THEN 1 ELSE 0
Rec(t, a, c, k) ==
  [t |-> t, a |-> a, c |-> c, k |-> k,
   once |-> once', inited |-> B(inited'), ctr |-> ctr', valid |-> B(st'.valid),
   ret |-> IF pc'[t] = "idle" /\ a # "Dispatch" THEN res'[t].v ELSE "-",
   n |-> res'[t].n]
Log(t, a, c, k) == hist' = Append(hist, Rec(t, a, c, k)) /\ UNCHANGED emitted
LastIsSpinOf(t) == Len(hist) > 0 /\ hist[Len(hist)].t = t /\ hist[Len(hist)].a = "CasSpin"

GStep(t) ==
  \/ \E c \in AllOps, k \in Lens \cup {0} : Dispatch(t, c, k) /\ Log(t, "Dispatch", c, k)
  \/ CCasWin(t) /\ Log(t, "CasWin", "", 0)
  \/ CCasSpin(t) /\ ~LastIsSpinOf(t) /\ Log(t, "CasSpin", "", 0)
  \/ CCasDone(t) /\ Log(t, "CasDone", "", 0)
  \/ IMtx(t) /\ Log(t, IF pc'[t] = "c_pub" THEN "IFail" ELSE "IMtx", "", 1)
  \/ IReg(t) /\ Log(t, IF pc'[t] = "c_pub" THEN "IFail" ELSE "IReg", "", 2)
  \/ ISet(t) /\ Log(t, "ISet", "", 0)
  \/ CPub(t) /\ Log(t, "Pub", "", 0)
  \/ CChk(t) /\ Log(t, "CChk", "", 0)
  \/ VChk(t) /\ Log(t, IF pc'[t] = "v_chk2" THEN "VChkV" ELSE "VChk", "", 0)    \* VChkV: the trigger is read 1, rngIsValid goes on
  \/ VChk2(t) /\ Log(t, "VChk", "", 0)
  \/ Lock(t) /\ Log(t, "Lock", "", 0)
  \/ Body(t) /\ Log(t, "Body", "", 0)
  \/ Unlock(t) /\ Log(t, "Unlock", "", 0)

Emit == /\ AllDone /\ ~emitted /\ emitted' = TRUE
        /\ PrintT("@J " \o ToJson([n |-> Cardinality(Threads), steps |-> hist]))
        /\ UNCHANGED <<vars, hist>>

GInit == Init /\ hist = <<>> /\ emitted = FALSE
GNext == (\E t \in Threads : GStep(t)) \/ Emit
GSpec == GInit /\ [][GNext]_gvars
=============================================================================
