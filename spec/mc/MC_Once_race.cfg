SPECIFICATION Spec
CONSTANTS
  Threads = {t1, t2}
  PublishAtomic = FALSE
  Ops = 0
  Kinds = {"Incr"}
INVARIANTS NoRace
