------------------------------ MODULE MC_Heap ------------------------------
(* Exhaustive exploration of the Heap machine driven by an ABSTRACT LIBRARY: a program that
   follows the idiom of bee2's high-level functions

       state = blobCreate(n);  if (state == 0) return ERR_OUTOFMEMORY;
       ... (more blobs, blobResize, argument / authentication errors) ...
       blobClose(state) [= memWipe of the whole allocation, then free];  return code;

   and only knows the blocks it remembers (`owned`).  With the four switches set to TRUE the
   program is the disciplined one and TLC proves E3, E4, W, NoBadFree on all its behaviours,
   for every fault position; each switch set to FALSE is one realistic slip and TLC must find
   the corresponding violation (this is how checks/C15.py shows that the properties are not
   vacuous and that the monitor rejects bad behaviours):

     ChecksAlloc       = FALSE   no null check after blobCreate        -> E3 (success after failed alloc)
     WipesOnClose      = FALSE   memFree instead of blobClose          -> W
     ClosesOnError     = FALSE   early error exit without blobClose    -> E4 (leak)
     KeepsOnResizeFail = FALSE   `b = blobResize(b, n)` loses the old block when the resize
                                 fails (bake.c BSTS drivers)           -> E4 (leak)
     ClearsOnClose     = FALSE   pointer closed twice                  -> NoBadFree           *)
EXTENDS Heap

CONSTANTS MaxAllocs, MaxCalls, OutOfMemory,
          ChecksAlloc, WipesOnClose, ClosesOnError, KeepsOnResizeFail, ClearsOnClose

VARIABLES owned,      \* blocks the program remembers
          unwinding,  \* an error was detected: release and return `code`
          code, closing, calls

mvars == <<hvars, owned, unwinding, code, closing, calls>>

MCBlocks == 1..(MaxAllocs + 1)

MCInit == /\ HeapInit /\ owned = {} /\ unwinding = FALSE /\ code = OK /\ closing = 0 /\ calls = 0

PBegin == /\ calls < MaxCalls /\ closing = 0
          /\ \E f \in Funcs, k \in 0..(MaxAllocs + 1) : CallBegin(f, k)
          /\ owned' = {} /\ unwinding' = FALSE /\ code' = OK /\ calls' = calls + 1
          /\ UNCHANGED closing

PAlloc == /\ inCall /\ ~unwinding /\ closing = 0 /\ allocCount < MaxAllocs
          /\ LET b == allocCount + 1 IN
               IF b = failAt
               THEN /\ AllocFail(b)
                    /\ IF ChecksAlloc THEN unwinding' = TRUE /\ code' = OutOfMemory
                                      ELSE UNCHANGED <<unwinding, code>>
                    /\ UNCHANGED owned
               ELSE /\ \E n \in Sizes : Alloc(b, n)
                    /\ owned' = owned \cup {b}
                    /\ UNCHANGED <<unwinding, code>>
          /\ UNCHANGED <<closing, calls>>

PResize == /\ inCall /\ ~unwinding /\ closing = 0 /\ allocCount < MaxAllocs
           /\ \E b \in owned \cap DOMAIN live :
                LET b2 == allocCount + 1 IN
                IF b2 = failAt
                THEN /\ ReallocFail(b, b2)
                     /\ unwinding' = TRUE /\ code' = OutOfMemory
                     /\ owned' = IF KeepsOnResizeFail THEN owned ELSE owned \ {b}
                ELSE /\ \E n \in Sizes : Realloc(b, b2, n, TRUE)
                     /\ owned' = (owned \ {b}) \cup {b2}
                     /\ UNCHANGED <<unwinding, code>>
           /\ UNCHANGED <<closing, calls>>

PWrite == /\ inCall /\ ~unwinding /\ closing = 0
          /\ \E b \in owned \cap DOMAIN live : Write(b)
          /\ UNCHANGED <<owned, unwinding, code, closing, calls>>

\* blobWipe(b) in the middle of the call; later stores make the block dirty again
PScrub == /\ inCall /\ ~unwinding /\ closing = 0
          /\ \E b \in owned \cap DOMAIN live : Wipe(b)
          /\ UNCHANGED <<owned, unwinding, code, closing, calls>>

\* argument error, failed authentication, ...: any error code but OK
PFail == /\ inCall /\ ~unwinding /\ closing = 0
         /\ \E e \in Errs \ {OK} : code' = e
         /\ unwinding' = TRUE
         /\ UNCHANGED <<hvars, owned, closing, calls>>

\* blobClose(b) = [memWipe] ; free
PCloseStart == /\ inCall /\ closing = 0 /\ owned # {}
               /\ \E b \in owned : closing' = b
               /\ UNCHANGED <<hvars, owned, unwinding, code, calls>>
PCloseWipe == /\ closing # 0 /\ closing \in DOMAIN live /\ WipesOnClose
              /\ Wipe(closing)
              /\ UNCHANGED <<owned, unwinding, code, closing, calls>>
PCloseFree == /\ closing # 0
              /\ IF closing \in DOMAIN live
                 THEN /\ (WipesOnClose => live[closing].wiped)
                      /\ Free(closing, live[closing].wiped)
                 ELSE FreeUnknown
              /\ owned' = IF ClearsOnClose THEN owned \ {closing} ELSE owned
              /\ closing' = 0
              /\ UNCHANGED <<unwinding, code, calls>>

PEnd == /\ inCall /\ closing = 0
        /\ \/ owned \cap DOMAIN live = {}
           \/ unwinding /\ ~ClosesOnError
        /\ CallEnd(code)
        /\ UNCHANGED <<owned, unwinding, code, closing, calls>>

MCNext == PBegin \/ PAlloc \/ PResize \/ PWrite \/ PScrub \/ PFail \/ PCloseStart \/ PCloseWipe
          \/ PCloseFree \/ PEnd

MCSpec == MCInit /\ [][MCNext]_mvars

MCTypeOK == /\ TypeOK /\ owned \subseteq Blocks /\ unwinding \in BOOLEAN /\ code \in Errs
            /\ closing \in Blocks \cup {0} /\ calls \in 0..MaxCalls

\* the disciplined program never forgets a block
OwnedIsLive == (inCall /\ closing = 0 /\ KeepsOnResizeFail /\ ClearsOnClose) => owned = DOMAIN live \ live0
=============================================================================
