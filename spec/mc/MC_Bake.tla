------------------------------- MODULE MC_Bake -------------------------------
(* Exhaustive exploration of sm/Bake.tla: protocol x kca x kcb x (no attack | one corruption of the
   set-up | one alteration of one part of one message), all interleavings of the two parties.
   Every terminal state is a behaviour to replay: it is printed as
     "@C <proto> <kca> <kcb> <at> <part> <kind> <who> | <step>=<rc> ... | <doneA> <doneB> <agree>"
   and executed by harness/drv_bake.c on the real bake* / btokBAuth* functions.              *)
EXTENDS Bake

B2S(b) == IF b THEN "1" ELSE "0"
LogStr(l) == FoldLeft(LAMBDA acc, x : acc \o " " \o x.step \o "=" \o x.rc, "", l)
CaseStr == g.proto \o " " \o B2S(g.kca) \o " " \o B2S(g.kcb) \o " " \o g.atk.at \o " " \o g.atk.part \o " " \o g.atk.kind \o " " \o g.atk.who
Emit == Terminal => PrintT("@C " \o CaseStr \o " |" \o LogStr(g.log) \o " | " \o B2S(Done("A")) \o " " \o B2S(Done("B"))
                           \o " " \o B2S(Done("A") /\ Done("B") /\ g.A.K = g.B.K))
\* the deterministic evaluation used by the trace module agrees with the state machine on every terminal state
\* (up to the order of the two Start calls)
Deterministic == Terminal =>
  LET o == Outcome(RunCase(g.proto, g.kca, g.kcb, g.atk)) IN
  /\ o.doneA = Done("A") /\ o.doneB = Done("B")
  /\ o.agree = (Done("A") /\ Done("B") /\ g.A.K = g.B.K)
  /\ {o.log[i] : i \in 1..Len(o.log)} = {g.log[i] : i \in 1..Len(g.log)}
=============================================================================
