------------------------------- MODULE MC_Once -------------------------------
(* Instances of sm/Once.tla:  MC_Once.cfg (3 threads, atomic publication: all properties),
   MC_Once_race.cfg (plain publication: NoRace must fail), MC_Once_live.cfg (termination). *)
EXTENDS Once
Sym == Permutations(Threads)
=============================================================================
