SPECIFICATION Spec
CONSTANTS
  Threads = {t1,t2,t3,t4}
  MaxCalls = 3
  Ops = {"Create","StepR","StepR2","Rekey","IsValid","Close"}
  Lens = {1}
  PublishAtomic = TRUE
  UnrefIsValid = FALSE
  InitMayFail = FALSE
  IsValidSync = FALSE
SYMMETRY Sym
INVARIANTS TypeOK NoRace Mutex OnceOnly InitComplete InitVisible RefBalance StateIffCount UseValid FullLength Distinct CreateOk Final
