SPECIFICATION Spec
CONSTANT T <- ImplT
INVARIANT TypeOK TableComplete OutOfRangeRejected R1 R4b R6 R7Impl
PROPERTY R2 R2b R3 R4 R4c R5 R8
