---------------------------- MODULE MC_BashPrg ----------------------------
(* Exhaustive exploration (BFS) / simulation of the command histories of the bash automaton
   (sm/BashPrg.tla) over configurations x commands x data-length classes, with
     - the invariants of BashPrg (pos < buflen, buflen table, capacity, key mode),
     - the law Decr(Encr(X)) = X (and Encr(Decr(Y)) = Y) from every reached state,
     - emission of every maximal explored behaviour as a replay case (JsonSerialize):
       the command script with the outputs and the states the specification predicts.

   A history = Start, then at most Depth commands (restart, ratchet, or the Start of a data
   command followed by at most MaxSteps Steps).  Data lengths are classes relative to the free
   part of the buffer: 0, 1, free-1, free, free+1 (for the first Step: buflen-1, buflen, buflen+1),
   "2b" = free + buflen.  Data octets are a fixed function of Seed and the position in the history. *)
EXTENDS BashPrg, Json, IOUtils, TLC

CONSTANTS Configs,     \* set of codes l*100000 + d*10000 + (ann length)*100 + key length  (cfg files have no tuples)
          Depth, MaxSteps,
          Classes,     \* subset of {"0", "1", "b-1", "b", "b+1", "2b"}
          Restarts,    \* set of codes (ann length)*10 + key code: key code 0 = no key, 1 = l/8 octets, 2 = 60 octets
          Seed, OutDir

VARIABLES hist, ncmd, nstep
mcvars == <<vars, hist, ncmd, nstep>>

Data(n, tag) == [i \in 1..n |-> ((Seed * 53) + (tag * 101) + (i * 37) + ((i * i) % 251)) % 256]

ClassLen(c, free, b) == CASE c = "0" -> 0 [] c = "1" -> 1 [] c = "b-1" -> free - 1
                          [] c = "b" -> free [] c = "b+1" -> free + 1 [] c = "2b" -> free + b

Entry(op, code, X, n) ==
  [op |-> op, code |-> code, data |-> X, n |-> n, out |-> out', pos |-> pos', buflen |-> buflen',
   l |-> l', d |-> d', s |-> s']

MCInit == Init /\ hist = <<>> /\ ncmd = 0 /\ nstep = 0

MCStart ==
  /\ cmd = "off"
  /\ \E cc \in Configs :
       LET c == <<cc \div 100000, (cc \div 10000) % 10, (cc \div 100) % 100, cc % 100>>
           A == Data(c[3], 1000)   K == Data(c[4], 2000) IN
       /\ Start(c[1], c[2], A, K)
       /\ hist' = << [Entry("start", "S" \o ToString(c[1]) \o "x" \o ToString(c[2]) \o "a" \o ToString(c[3]) \o "k" \o ToString(c[4]), <<>>, 0)
                       EXCEPT !.data = A \o K, !.n = Len(A)] >>
  /\ ncmd' = 0 /\ nstep' = 0

NewCmd(A, op, code) ==
  /\ cmd # "off" /\ ncmd < Depth
  /\ A
  /\ hist' = Append(hist, Entry(op, code, <<>>, 0))
  /\ ncmd' = ncmd + 1 /\ nstep' = 0

MCRestart ==
  \E rc \in Restarts :
    LET r == <<rc \div 10, rc % 10>>
        A == Data(r[1], 3000 + Len(hist))
        K == Data(IF r[2] = 0 THEN 0 ELSE IF r[2] = 1 THEN l \div 8 ELSE 60, 4000 + Len(hist))
    IN /\ cmd # "off" /\ ncmd < Depth
       /\ Restart(A, K)
       /\ hist' = Append(hist, [Entry("restart", "r" \o ToString(r[1]) \o "k" \o ToString(r[2]), <<>>, 0)
                                  EXCEPT !.data = A \o K, !.n = Len(A)])
       /\ ncmd' = ncmd + 1 /\ nstep' = 0

MCStep ==
  /\ cmd \in {"absorb", "squeeze", "encr", "decr"} /\ nstep < MaxSteps
  /\ \E c \in Classes :
       LET n == ClassLen(c, buflen - pos, buflen)
           X == Data(n, Len(hist))
       IN /\ n >= 0
          /\ (AbsorbStep(X) \/ SqueezeStep(n) \/ EncrStep(X) \/ DecrStep(X))   \* guarded by cmd
          /\ hist' = Append(hist, Entry(cmd \o "Step", SubSeq(cmd, 1, 1) \o c, IF cmd = "squeeze" THEN <<>> ELSE X, n))
  /\ nstep' = nstep + 1 /\ UNCHANGED ncmd

MCNext == \/ MCStart
          \/ NewCmd(AbsorbStart, "absorbStart", "A")
          \/ NewCmd(SqueezeStart, "squeezeStart", "Q")
          \/ NewCmd(EncrStart, "encrStart", "E")
          \/ NewCmd(DecrStart, "decrStart", "D")
          \/ NewCmd(Ratchet, "ratchet", "R")
          \/ MCRestart
          \/ MCStep
MCSpec == MCInit /\ [][MCNext]_mcvars

\* ---- properties
\* Decr(Encr(X)) = X under equal command histories: the step just taken from (s, pos) was an
\* encryption of X giving out'; decrypting out' from the same (s, pos) returns X and arrives in
\* the same successor state (and symmetrically for a decryption step).
\* (= BashPrg!EncrDecrInverse with the encryption half already computed by the transition)
EncrDecrLaw ==
  [][(cmd' = "encr" /\ nstep' = nstep + 1) =>
       Duplex(s, pos, buflen, out', "decr") = [s |-> s', pos |-> pos', out |-> hist'[Len(hist')].data]]_mcvars
DecrEncrLaw ==
  [][(cmd' = "decr" /\ nstep' = nstep + 1) =>
       Duplex(s, pos, buflen, out', "encr") = [s |-> s', pos |-> pos', out |-> hist'[Len(hist')].data]]_mcvars
\* what came out of a squeeze / encrypt / decrypt step has the requested length
OutLenInv == (Len(hist) > 0 /\ hist[Len(hist)].op \in {"squeezeStep", "encrStep", "decrStep"})
               => Len(out) = hist[Len(hist)].n

\* ---- replay cases: one file per maximal behaviour
Leaf == /\ cmd # "off"
        /\ ncmd = Depth
        /\ (cmd = "idle" \/ nstep = MaxSteps)
CaseName == FoldLeft(LAMBDA acc, h : acc \o "_" \o h.code, "c", hist)
EmitCases == Leaf => JsonSerialize(OutDir \o "/" \o CaseName \o ".json", [id |-> CaseName, hist |-> hist])
=============================================================================
