SPECIFICATION Spec
INVARIANT TypeOK
INVARIANT Honest
INVARIANT NeverAgree
INVARIANT Confirmed
INVARIANT TamperDetected
INVARIANT NoConfDiffer
INVARIANT Deterministic
INVARIANT Emit
