INIT Init
NEXT Next
INVARIANT Good
