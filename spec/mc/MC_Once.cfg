SPECIFICATION Spec
CONSTANTS
  Threads = {t1, t2, t3}
  PublishAtomic = TRUE
  Ops = 1
  Kinds = {"Incr", "CasIncr", "Decr"}
SYMMETRY Sym
INVARIANTS NoRace RunsOnce Visible SeenOk OnceFinal CounterSum CtrFinal
