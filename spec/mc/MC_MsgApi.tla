----------------------------- MODULE MC_MsgApi -----------------------------
EXTENDS MsgApi
LensWbl == {32, 33, 48, 64, 80}
LensSde == {32, 48, 64, 80}
LensFmt == {10, 17, 21}      \* FMT parameter sets (count; the harness maps 10 -> mod 10, 21 -> mod 58, 17 -> mod 65536)
=============================================================================
