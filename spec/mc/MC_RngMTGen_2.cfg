SPECIFICATION GSpec
CONSTANTS
  Threads = {"t1","t2"}
  MaxCalls = 4
  Ops = {"Create","StepR","StepR2","Rekey","IsValid","Close"}
  Lens = {1}
  PublishAtomic = TRUE
  UnrefIsValid = FALSE
  InitMayFail = FALSE
  IsValidSync = FALSE
INVARIANTS NoRaceButInited Mutex OnceOnly InitComplete RefBalance UseValid Distinct
