SPECIFICATION FairSpec
CONSTANTS
  Threads = {t1,t2}
  MaxCalls = 3
  Ops = {"Create","StepR","StepR2","Rekey","IsValid","Close"}
  Lens = {1}
  PublishAtomic = TRUE
  UnrefIsValid = FALSE
  InitMayFail = FALSE
  IsValidSync = FALSE
INVARIANTS TypeOK
PROPERTY Returns
