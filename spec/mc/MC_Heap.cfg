SPECIFICATION MCSpec
CONSTANTS
  Blocks = {1, 2, 3, 4}
  Sizes = {8, 40}
  Funcs = {"sec", "pub"}
  SecretFuncs = {"sec"}
  Errs = {0, 109, 110, 511}
  MaxAllocs = 3
  MaxCalls = 2
  OutOfMemory = 110
  ChecksAlloc = TRUE
  WipesOnClose = TRUE
  ClosesOnError = TRUE
  KeepsOnResizeFail = TRUE
  ClearsOnClose = TRUE
INVARIANT MCTypeOK E3 E4 W WEnd NoBadFree FailAtExact OwnedIsLive
