------------------------------ MODULE MC_BotpSM ------------------------------
(* C03: exhaustive enumeration (BFS) of ALL call histories of bounded length of one botp state object
   (sm/BotpSM.tla) over an action alphabet, with
     - the invariants / action properties of BotpSM on every explored history,
     - emission of every maximal history as a replay case: the calls with their arguments and, after
       every call, what the specification predicts (password, verdict, counter returned by StepG and
       the counter the object holds -- "pc", <<>> where the header does not define it).
   A history = Start (one per element of Cases), then Depth calls chosen from Alphabet among those the
   header's call order permits (BotpSM's enabling conditions).

   Family = "hotp": Cases = digit * 10 + counter class; alphabet
        S  StepS(base counter of the class)     S6 StepS(FF..FF)          R  StepR       G  StepG
        Vc StepV(password of the current counter)   Vw (one digit altered)   Vn (of the next counter)
        Vp (of the previous counter)   Vs (one digit short)   Vl (one digit long)
        M  relocation of the object     Z  Start again (next digit, other key; StepS is due again)
   Family = "totp": Cases = digit * 10 + time class (a pair of time stamps t1, t2); alphabet
        R1 R2 StepR(t1 / t2)   Vc1 Vc2 StepV(right password)   Vx StepV(password of t1, at t2)
        Vw StepV(altered, t1)  M  Z
   Family = "ocra": Cases = suite * 10 + counter class; alphabet
        S / S2 StepS(base counter, session data 1 / 2)   S6 StepS(FF..FF, session data 1)
        R / Rq StepR(q1, t1 / q2, t2)    Vc Vw Vn Vp Vs Vl as above (q1, t1)    Vq StepV(password of (q1, t1), q2, t2)
        G  M   Z  Start again with the partner suite (all fields <-> none) and back
   Counter classes: 1 00..00, 2 ..00FFFFFFFE (32-bit word wrap), 3 FF..FE (2^64 wrap), 4 seeded..FE (octet carry),
   5 ..FFFF (16-bit carry), 6 FF..FF, 7 7FFF..FF (sign).  Keys / challenges / session data are a fixed
   function of Seed.  The password values come from tables of Botp!HMAC / Botp!OCRAWith evaluated once
   (TLC does not memoise operators): one HMAC per (key, counter) reachable within Depth. *)
EXTENDS BotpSM, Json, TLC

CONSTANTS Family, Cases, Alphabet, Depth, Seed

VARIABLES hHist, hPath, hN, hCase
mcvars == <<vars, hHist, hPath, hN, hCase>>

Data(len, tag) == [i \in 1..len |-> ((Seed * 53) + (tag * 101) + (i * 37) + ((i * i) % 251)) % 256]
Key1 == Data(32, 1)
Key2 == Data(67, 2)              \* longer than the block of belt-hash: HMAC hashes it first
KeyOf(i) == IF i = 1 THEN Key1 ELSE Key2
KeyIdx(k) == IF k = Key1 THEN 1 ELSE 2
OtherKey(k) == IF k = Key1 THEN Key2 ELSE Key1
KeyIdxs == IF "Z" \in Alphabet THEN {1, 2} ELSE {1}

\* ---- counters
FF8 == <<255, 255, 255, 255, 255, 255, 255, 255>>
Base(c) == CASE c = 1 -> Zeros(8)
             [] c = 2 -> <<0, 0, 0, 0, 255, 255, 255, 254>>
             [] c = 3 -> <<255, 255, 255, 255, 255, 255, 255, 254>>
             [] c = 4 -> Data(7, 40) \o <<254>>
             [] c = 5 -> <<0, 0, 0, 0, 0, 0, 255, 255>>
             [] c = 6 -> FF8
             [] c = 7 -> <<127, 255, 255, 255, 255, 255, 255, 255>>
Not8(c) == [i \in 1..Len(c) |-> 255 - c[i]]
CtrPrev(c) == Not8(CtrNext(Not8(c)))              \* the x with CtrNext(x) = c
\* b-1 .. b+Depth+1 : everything a history of Depth calls can reach or name from the base b
CtrSpan(b) == LET up == FoldLeft(LAMBDA acc, i : Append(acc, CtrNext(acc[Len(acc)])), <<CtrPrev(b)>>, Upto(Depth + 2))
              IN {up[i] : i \in 1..Len(up)}
Classes == {x % 10 : x \in Cases} \cup (IF "S6" \in Alphabet THEN {6} ELSE {})
CtrU == UNION {CtrSpan(Base(c)) : c \in Classes}

\* ---- time stamps (16-bit limbs, least significant first): pairs t1, t2 per class
TimeOf(c, j) ==
  CASE c = 1 -> IF j = 1 THEN <<0, 0, 0, 0>> ELSE <<1, 0, 0, 0>>
    [] c = 2 -> IF j = 1 THEN <<65535, 65535, 0, 0>> ELSE <<0, 0, 1, 0>>                       \* 2^32 - 1, 2^32
    [] c = 3 -> IF j = 1 THEN <<65535, 65535, 65535, 32767>> ELSE <<0, 0, 0, 32768>>           \* 2^63 - 1, 2^63
    [] c = 4 -> IF j = 1 THEN <<65534, 65535, 65535, 65535>> ELSE <<59, 0, 0, 0>>              \* TIME_ERR - 1
    [] c = 5 -> LET d == Data(6, 30) IN <<(d[1] * 256) + (IF j = 1 THEN 16 ELSE 17), (d[3] * 256) + d[4], d[5] % 16, 0>>
TimeU == UNION {{TimeBE(TimeOf(x % 10, 1)), TimeBE(TimeOf(x % 10, 2))} : x \in Cases}

\* ---- HOTP / TOTP values: one HMAC per (key, 8 octets), evaluated once
MacU == IF Family = "hotp" THEN CtrU ELSE IF Family = "totp" THEN TimeU ELSE {}
\* (an explicit function built with :> / @@: TLC pre-evaluates it once with the constants; a definition
\*  wrapped in TLCEval is NOT pre-evaluated and a [x \in S |-> ...] is re-evaluated at every application)
MkTab(S, Fn(_)) == FoldLeft(LAMBDA acc, x : acc @@ (x :> Fn(x)), <<>>, SetToSeq(S))
MacTab == MkTab(KeyIdxs \X MacU, LAMBDA x : HMAC(KeyOf(x[1]), x[2]))
OtpHTab(d, k, c) == DT(MacTab[<<KeyIdx(k), c>>], d)

\* ---- OCRA
SuiteStr(i) ==
  CASE i = 1 -> <<79, 67, 82, 65, 45, 49, 58, 72, 79, 84, 80, 45, 72, 66, 69, 76, 84, 45, 56, 58, 67, 45, 81, 78, 48, 56, 45, 80, 72, 66, 69, 76, 84, 45, 83, 48, 54, 52, 45, 84, 49, 77>>   \* "OCRA-1:HOTP-HBELT-8:C-QN08-PHBELT-S064-T1M"
    [] i = 2 -> <<79, 67, 82, 65, 45, 49, 58, 72, 79, 84, 80, 45, 72, 66, 69, 76, 84, 45, 54, 58, 67, 45, 81, 65, 48, 52>>   \* "OCRA-1:HOTP-HBELT-6:C-QA04"
    [] i = 3 -> <<79, 67, 82, 65, 45, 49, 58, 72, 79, 84, 80, 45, 72, 66, 69, 76, 84, 45, 55, 58, 81, 72, 49, 54, 45, 80, 83, 72, 65, 49, 45, 84, 49, 72>>   \* "OCRA-1:HOTP-HBELT-7:QH16-PSHA1-T1H"
    [] i = 4 -> <<79, 67, 82, 65, 45, 49, 58, 72, 79, 84, 80, 45, 72, 66, 69, 76, 84, 45, 52, 58, 81, 78, 48, 56>>   \* "OCRA-1:HOTP-HBELT-4:QN08"
    [] i = 5 -> <<79, 67, 82, 65, 45, 49, 58, 72, 79, 84, 80, 45, 72, 66, 69, 76, 84, 45, 57, 58, 67, 45, 81, 78, 49, 48, 45, 83, 48, 48, 56>>   \* "OCRA-1:HOTP-HBELT-9:C-QN10-S008"
Partner(i) == CASE i = 1 -> 4 [] i = 2 -> 3 [] i = 3 -> 2 [] i = 4 -> 1 [] i = 5 -> 4
SuitesUsed == IF Family # "ocra" THEN {} ELSE
              {x \div 10 : x \in Cases} \cup (IF "Z" \in Alphabet THEN {Partner(x \div 10) : x \in Cases} ELSE {})
PrTab == MkTab(SuitesUsed, LAMBDA i : SuiteParse(SuiteStr(i)))
SuiteIdx(u) == CHOOSE i \in SuitesUsed : SuiteStr(i) = u
\* challenges (decimal digits) and time stamps: two pairs
Q(w) == IF w = 1 THEN [i \in 1..8 |-> 48 + (Data(8, 50)[i] % 10)] ELSE [i \in 1..4 |-> 48 + (Data(4, 51)[i] % 10)]
T(w) == LET d == Data(5, 52) IN <<(d[1] * 256) + d[2] + w, (d[3] * 256) + d[4], d[5] % 16, 0>>
SessP(j) == Data(64, 60 + j)
SessS(j) == Data(64, 70 + j)
SessIdxs == IF "S2" \in Alphabet THEN {1, 2} ELSE {1}
QIdxs == IF Alphabet \cap {"Rq", "Vq"} # {} THEN {1, 2} ELSE {1}
SessIdx(i, p, s) == IF p = TakeN(SessP(1), PrTab[i].plen) /\ s = TakeN(SessS(1), PrTab[i].slen) THEN 1 ELSE 2
OU == UNION {{<<i, j, c, w>> : j \in SessIdxs, c \in (IF PrTab[i].ctr THEN CtrU ELSE {<<>>}), w \in QIdxs} : i \in SuitesUsed}
OTab == MkTab(OU, LAMBDA x : LET u == SuiteStr(x[1])  p == PrTab[x[1]]
                            IN OCRAWith(u, p, Key1, Q(x[4]), x[3], TakeN(SessP(x[2]), p.plen),
                                        TakeN(SessS(x[2]), p.slen), TimeBE(T(x[4]))))
OtpOTab(u, k, q, c, p, s, tbe) ==
  LET i == SuiteIdx(u) IN OTab[<<i, SessIdx(i, p, s), c, IF q = Q(1) THEN 1 ELSE 2>>]

-----------------------------------------------------------------------------
MCInit == Init /\ hHist = <<>> /\ hPath = "" /\ hN = 0 /\ hCase = 0

Begin ==
  /\ hCase = 0
  /\ \E x \in Cases :
       /\ hCase' = x
       /\ \/ /\ Family = "hotp" /\ HotpStart(x \div 10, Key1)
             /\ hHist' = <<[e |-> "HotpStart", digit |-> x \div 10, key |-> Key1]>>
          \/ /\ Family = "totp" /\ TotpStart(x \div 10, Key1)
             /\ hHist' = <<[e |-> "TotpStart", digit |-> x \div 10, key |-> Key1]>>
          \/ /\ Family = "ocra" /\ OcraStart(SuiteStr(x \div 10), Key1)
             /\ hHist' = <<[e |-> "OcraStart", suite |-> SuiteStr(x \div 10), key |-> Key1, ok |-> vRes'.ok]>>
  /\ hPath' = "" /\ hN' = 0

Step(code, A, rec) ==
  /\ hCase # 0 /\ hN < Depth /\ code \in Alphabet
  /\ A
  /\ hHist' = Append(hHist, rec) /\ hPath' = hPath \o "." \o code /\ hN' = hN + 1 /\ UNCHANGED hCase

Cls == hCase % 10
Wrong(o) == [o EXCEPT ![Len(o)] = 48 + ((o[Len(o)] - 47) % 10)]          \* last digit + 1 mod 10
Short(o) == SubSeq(o, 1, Len(o) - 1)
Long(o) == Append(o, 48)
NextDigit(d) == IF d = 8 THEN 6 ELSE d + 1

\* ---- HOTP
HS(code, b) == Step(code, HotpStepS(b), [e |-> "HotpStepS", ctr |-> b, pc |-> vCtr'])
HV(code, o) == Step(code, HotpStepV(o), [e |-> "HotpStepV", arg |-> o, ok |-> vRes'.ok, pc |-> vCtr'])
HotpNext ==
  /\ vMode = "hotp"
  /\ \/ HS("S", Base(Cls))
     \/ HS("S6", FF8)
     \/ Step("R", HotpStepR, [e |-> "HotpStepR", otp |-> vRes'.otp, pc |-> vCtr'])
     \/ Step("G", HotpStepG, [e |-> "HotpStepG", got |-> vRes'.ctr, pc |-> vCtr'])
     \/ Step("M", Move, [e |-> "Move", pc |-> vCtr'])
     \/ Step("Z", HotpStart(NextDigit(vDigit), OtherKey(vKey)), [e |-> "HotpStart", digit |-> vDigit', key |-> vKey'])
     \/ /\ vSet
        /\ \/ HV("Vc", OtpH(vDigit, vKey, vCtr))
           \/ HV("Vw", Wrong(OtpH(vDigit, vKey, vCtr)))
           \/ HV("Vn", OtpH(vDigit, vKey, CtrNext(vCtr)))
           \/ HV("Vp", OtpH(vDigit, vKey, CtrPrev(vCtr)))
           \/ HV("Vs", Short(OtpH(vDigit, vKey, vCtr)))
           \/ HV("Vl", Long(OtpH(vDigit, vKey, vCtr)))

\* ---- TOTP
TR(code, t) == Step(code, TotpStepR(t), [e |-> "TotpStepR", t |-> t, otp |-> vRes'.otp])
TV(code, o, t) == Step(code, TotpStepV(o, t), [e |-> "TotpStepV", t |-> t, arg |-> o, ok |-> vRes'.ok])
TotpVal(j) == OtpH(vDigit, vKey, TimeBE(TimeOf(Cls, j)))
TotpNext ==
  /\ vMode = "totp"
  /\ \/ TR("R1", TimeOf(Cls, 1))
     \/ TR("R2", TimeOf(Cls, 2))
     \/ TV("Vc1", TotpVal(1), TimeOf(Cls, 1))
     \/ TV("Vc2", TotpVal(2), TimeOf(Cls, 2))
     \/ TV("Vx", TotpVal(1), TimeOf(Cls, 2))
     \/ TV("Vw", Wrong(TotpVal(1)), TimeOf(Cls, 1))
     \/ Step("M", Move, [e |-> "Move", pc |-> vCtr'])
     \/ Step("Z", TotpStart(NextDigit(vDigit), OtherKey(vKey)), [e |-> "TotpStart", digit |-> vDigit', key |-> vKey'])

\* ---- OCRA
OS(code, b, j) == Step(code, OcraStepS(b, SessP(j), SessS(j)),
                       [e |-> "OcraStepS", ctr |-> b, p |-> SessP(j), s |-> SessS(j), pc |-> vCtr'])
OR(code, w) == Step(code, OcraStepR(Q(w), T(w)), [e |-> "OcraStepR", q |-> Q(w), t |-> T(w), otp |-> vRes'.otp, pc |-> vCtr'])
OV(code, o, w) == Step(code, OcraStepV(o, Q(w), T(w)),
                       [e |-> "OcraStepV", q |-> Q(w), t |-> T(w), arg |-> o, ok |-> vRes'.ok, pc |-> vCtr'])
OcraAt(c) == OtpO(vSuite, vKey, Q(1), c, vP, vS, TimeBE(T(1)))
OcraNext ==
  /\ vMode = "ocra"
  /\ \/ OS("S", Base(Cls), 1)
     \/ OS("S2", Base(Cls), 2)
     \/ OS("S6", FF8, 1)
     \/ OR("R", 1)
     \/ OR("Rq", 2)
     \/ Step("G", OcraStepG, [e |-> "OcraStepG", got |-> vRes'.ctr, pc |-> vCtr'])
     \/ Step("M", Move, [e |-> "Move", pc |-> vCtr'])
     \/ LET other == IF vSuite = SuiteStr(hCase \div 10) THEN SuiteStr(Partner(hCase \div 10)) ELSE SuiteStr(hCase \div 10)
        IN Step("Z", OcraStart(other, Key1), [e |-> "OcraStart", suite |-> other, key |-> Key1, ok |-> vRes'.ok])
     \/ /\ OcraReady
        /\ \/ OV("Vc", OcraAt(vCtr), 1)
           \/ OV("Vw", Wrong(OcraAt(vCtr)), 1)
           \/ OV("Vn", OcraAt(CtrNext(vCtr)), 1)
           \/ OV("Vp", OcraAt(CtrPrev(vCtr)), 1)
           \/ OV("Vs", Short(OcraAt(vCtr)), 1)
           \/ OV("Vl", Long(OcraAt(vCtr)), 1)
           \/ OV("Vq", OcraAt(vCtr), 2)

MCNext == Begin \/ HotpNext \/ TotpNext \/ OcraNext
MCSpec == MCInit /\ [][MCNext]_mcvars

\* ---- the action properties of BotpSM on every explored step
P_FailKeeps == [][A_FailKeeps]_mcvars
P_CtrMoves  == [][A_CtrMoves]_mcvars
P_Consumes  == [][A_Consumes]_mcvars
P_GetPure   == [][A_GetPure]_mcvars
P_GetCtr    == [][A_GetCtr]_mcvars
P_Sync      == [][A_Sync]_mcvars

\* ---- replay cases: one line per maximal history
Leaf == hCase # 0 /\ hN = Depth
Emit == Leaf => PrintT("@J " \o ToJson([id |-> Family \o "_" \o ToString(hCase) \o hPath, hist |-> hHist]))
=============================================================================
