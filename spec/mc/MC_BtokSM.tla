------------------------------ MODULE MC_BtokSM ------------------------------
(* Exhaustive exploration of BtokSM: every sequence of at most MaxLen operations of the two peers
   (CtrInc, CmdWrap, CmdUnwrap, RespWrap, RespUnwrap, Alter).  The history of operations with the
   outcomes the specification predicts is part of the state, so every explored behaviour is a
   distinct state; complete behaviours (MaxLen operations; the shorter ones are their prefixes)
   are printed as replay cases:  "@B <tok>,<tok>,..."  with
     iT iC            CtrInc
     wT<d>:<rcs>      CmdWrap by T  (d = 1 data, 0 no data)      wC<d>:<rcs>  RespWrap by C
     uC:<rcs>:<same>  CmdUnwrap by C                             uT:<rcs>:<same> RespUnwrap by T
     a<cls>           Alter of class cls
   rcs = admissible return codes as letters O (OK) A (BAD_APDU) L (BAD_LOGIC) M (BAD_MAC),
   same = y / n / - (recovered APDU equals the protected one / differs / no claim).            *)
EXTENDS BtokSM
CONSTANT MaxLen
VARIABLES hist, n
mcvars == <<smvars, hist, n>>

RcsStr(s) == (IF "OK" \in s THEN "O" ELSE "") \o (IF "BAD_APDU" \in s THEN "A" ELSE "")
             \o (IF "BAD_LOGIC" \in s THEN "L" ELSE "") \o (IF "BAD_MAC" \in s THEN "M" ELSE "")
SameStr(x) == CASE x = "yes" -> "y" [] x = "no" -> "n" [] OTHER -> "-"
Sep == IF n = 0 THEN "" ELSE ","
Tok(t) == /\ n < MaxLen /\ n' = n + 1 /\ hist' = hist \o Sep \o t
          /\ (n' = MaxLen => PrintT("@B " \o hist'))

MCInit == SMInit /\ hist = "" /\ n = 0
MCNext ==
  \/ \E p \in Peers : CtrInc(p) /\ Tok("i" \o p)
  \/ \E d \in BOOLEAN : CmdWrap("T", d) /\ Tok("wT" \o (IF d THEN "1" ELSE "0") \o ":" \o RcsStr(last'.rcs))
  \/ \E d \in BOOLEAN : RespWrap("C", d) /\ Tok("wC" \o (IF d THEN "1" ELSE "0") \o ":" \o RcsStr(last'.rcs))
  \/ CmdUnwrap("C") /\ Tok("uC:" \o RcsStr(last'.rcs) \o ":" \o SameStr(last'.same))
  \/ RespUnwrap("T") /\ Tok("uT:" \o RcsStr(last'.rcs) \o ":" \o SameStr(last'.same))
  \/ \E c \in AltClasses : Alter(c) /\ Tok("a" \o c)
MCSpec == MCInit /\ [][MCNext]_mcvars
=============================================================================
