------------------------------- MODULE MC_Pwd -------------------------------
(* Model-checking harness of C20:
     MC_PwdRef.cfg   rules R1..R8 on the reference automaton (T <- RefT)
     MC_PwdImpl.cfg  the same rules on the table extracted from btokPwdTransition
                     (T <- ImplT, table in $PWD_TABLE) + table-level refinement Equiv *)
EXTENDS BtokPwd, Json, IOUtils

Rows == ndJsonDeserialize(IOEnv.PWD_TABLE)
RowSet == {Rows[i] : i \in 1..Len(Rows)}
InRange == {r \in RowSet : r.ev \in Events}
OutOfRange == {r \in RowSet : r.ev \notin Events}

Tab == [p \in PinStates |-> [a \in AuthStates |-> [e \in Events |->
          LET r == CHOOSE r \in InRange : r.pin = p /\ r.auth = a /\ r.ev = e
          IN Res(r.ok, r.pin2, r.auth2)]]]
ImplT(p, a, e) == Tab[p][a][e]

R7Ref  == RejectKeeps(RefT)
R7Impl == RejectKeeps(ImplT)

\* the table is complete and functional
TableComplete == /\ \A p \in PinStates, a \in AuthStates, e \in Events :
                      Cardinality({r \in InRange : r.pin = p /\ r.auth = a /\ r.ev = e}) = 1
                 /\ \A r \in RowSet : r.pin2 \in PinStates /\ r.auth2 \in AuthStates

\* refinement, transition by transition
Diff == {<<p, a, e>> \in PinStates \X AuthStates \X Events : ImplT(p, a, e) # RefT(p, a, e)}
Equiv == Diff = {}

\* values outside the event enumeration are rejected and change nothing
OutOfRangeRejected == \A r \in OutOfRange : ~r.ok /\ r.pin2 = r.pin /\ r.auth2 = r.auth

\* printing of the differences (evaluated once, in the initial predicate's ASSUME-free way)
DiffReport == IF Diff = {} THEN TRUE ELSE
   \A d \in Diff : PrintT(<<"@DIFF", d[1], d[2], d[3], ImplT(d[1], d[2], d[3]), RefT(d[1], d[2], d[3])>>)
=============================================================================
