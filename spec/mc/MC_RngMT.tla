------------------------------ MODULE MC_RngMT ------------------------------
(* Model-checking instances of sm/RngMT.tla (C18).  Constants are given by the cfg files; checks/C18.py
   rewrites `IsValidSync = FALSE` to TRUE when the tree's rngIsValid reads the trigger first (probe).
     MC_RngMT_2t.cfg     2 threads x <= 5 calls, all six calls          exhaustive  (324 k states, 6 s)
     MC_RngMT_3t.cfg     3 threads x <= 3 calls                          exhaustive  (23 k states, 2 s)
     MC_RngMT_2tL.cfg    2 threads x <= 6 calls          thorough        exhaustive  (4.6 M states, 40 s)
     MC_RngMT_3tL.cfg    3 threads x <= 4 calls          thorough        exhaustive  (3.7 M states, 48 s)
     MC_RngMT_4t.cfg     4 threads x <= 3 calls          thorough        exhaustive  (474 k states, 38 s)
     MC_RngMT_live.cfg   2 threads x <= 3 calls, FairSpec => Returns     exhaustive (liveness)
     MC_RngMT_fail.cfg   2 threads x <= 3 calls, rngInit may fail        exhaustive
     MC_RngMT_race.cfg   PublishAtomic = FALSE: TLC must report NoRace  (the model-level
                         counterexample of the plain store `*once = 1` in mtCallOnce)
     MC_RngMT_unref.cfg  rngIsValid without a reference: NoRace fails on `inited` (second finding)
                         unless IsValidSync; MC_RngMT_unref2.cfg: NoRaceButInited and all the rest hold
   4..16 threads are sampled: mc/MC_RngMTGen.tla (-simulate) checks the invariants on every simulated
   behaviour and emits it as a schedule for the replay on the real code.
   (Symmetry over thread identities is used for the safety runs only.) *)
EXTENDS RngMT
Sym == Permutations(Threads)
=============================================================================
