------------------------------ MODULE MC_RngMT ------------------------------
(* Model-checking instances of sm/RngMT.tla (C18).
     MC_RngMT_2t.cfg     2 threads x <= 4 calls, all six calls          exhaustive
     MC_RngMT_3t.cfg     3 threads x <= 2 calls                          exhaustive
     MC_RngMT_live.cfg   2 threads x <= 3 calls, FairSpec => Returns     exhaustive (liveness)
     MC_RngMT_fail.cfg   2 threads x <= 3 calls, rngInit may fail        exhaustive
     MC_RngMT_race.cfg   PublishAtomic = FALSE: TLC must report NoRace  (the model-level
                         counterexample of the plain store `*once = 1` in mtCallOnce)
     MC_RngMT_unref.cfg  rngIsValid without a reference: NoRace on `inited` (second finding);
                         NoRaceButInited holds
     MC_RngMT_sim.cfg    4..16 threads, -simulate (sampled)              *)
EXTENDS RngMT
Sym == Permutations(Threads)
SimThreads == 1..16
\* simulation: the number of threads is drawn per behaviour
=============================================================================
