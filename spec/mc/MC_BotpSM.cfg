SPECIFICATION MCSpec
CONSTANTS
  Family = "hotp"
  Cases = {62, 73}
  Alphabet = {"S", "R", "Vc", "Vw", "Vn", "G"}
  Depth = 4
  Seed = 1
  OtpH <- OtpHTab
  OtpO <- OtpOTab
INVARIANT TypeOK CtrShape OtpShape SessShape Emit
PROPERTY P_FailKeeps P_CtrMoves P_Consumes P_GetPure P_GetCtr P_Sync
