SPECIFICATION Spec
CONSTANT T <- RefT
INVARIANT TypeOK R1 R4b R6 R7Ref
PROPERTY R2 R2b R3 R4 R4c R5 R8
