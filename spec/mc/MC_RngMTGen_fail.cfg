SPECIFICATION GSpec
CONSTANTS
  Threads = {"t1","t2","t3"}
  MaxCalls = 3
  Ops = {"Create","StepR","StepR2","Rekey","IsValid","Close"}
  Lens = {1}
  PublishAtomic = TRUE
  UnrefIsValid = FALSE
  InitMayFail = TRUE
  IsValidSync = FALSE
INVARIANTS NoRaceButInited Mutex OnceOnly InitComplete RefBalance UseValid Distinct
