SPECIFICATION Spec
CONSTANTS
  Threads = {t1, t2, t3}
  PublishAtomic = TRUE
  Ops = 2
  Kinds = {"Incr", "CasIncr"}
SYMMETRY Sym
INVARIANTS NoRace RunsOnce Visible SeenOk OnceFinal CounterSum CtrFinal CasDistinct
