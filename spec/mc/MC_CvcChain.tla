----------------------------- MODULE MC_CvcChain -----------------------------
(* Enumeration of certificate chains for C17: depth 1..3 x key-length patterns x one alteration of a
   valid chain (field values at their documented limits, chain rules broken one at a time, foreign
   signing keys, validation dates) -- or none.  For every case the specification sm/CvcChain.tla
   decides every call of the harness' battery (Check, Check2, Wrap / Iss, Unwrap without and with
   the issuer's key, Val, Val2, Match); the case with the admissible return codes is emitted as
   $GEN_DIR/c<idx>.json and executed on real certificates by harness/drv_btok.c (cvc_replay).
   Two-level pattern: level 1 picks the case, level 2 evaluates and emits it.                  *)
EXTENDS CvcChain, Json, IOUtils

Str(s) == s                      \* names are written as sequences of character codes
N0 == <<66, 89, 67, 65, 48, 48, 48, 48>>                         \* "BYCA0000"
N1 == <<66, 89, 67, 65, 49, 48, 48, 48>>                         \* "BYCA1000"
N2 == <<53, 57, 48, 48, 56, 50, 51, 57, 52, 54, 53, 52>>         \* "590082394654"
Names == <<N0, N1, N2>>
\* validity periods of the valid chain (each strictly inside the issuer's, so that +-1 day moves stay simple)
From == << <<2,0,0,1,0,2>>, <<2,1,0,6,0,2>>, <<2,2,0,1,0,2>> >>
Until == << <<3,9,1,2,3,0>>, <<3,0,1,2,3,0>>, <<2,5,0,1,3,0>> >>
Eid == << <<0,0,0,0,0>>, <<221,221,221,221,221>>, <<0,0,0,0,1>> >>
Esign == << <<0,0>>, <<51,51>>, <<17,0>> >>

Patterns == << <<64, 48, 32>>, <<32, 32, 32>>, <<24, 24, 24>>, <<48, 64, 24>>, <<32, 24, 64>>, <<24, 32, 48>> >>
NPat == IF IOEnv.GEN_TIER = "thorough" THEN 6 ELSE 2

\* field values at and beyond the documented limits
BadNames == << <<66, 89, 67, 65, 48, 48, 48>>,                           \* 7 characters
               <<>>,                                                     \* empty
               <<66, 89, 67, 65, 95, 48, 48, 48>>,                       \* '_' is not printable
               <<66, 89, 67, 65, 48, 48, 48, 48, 48, 48, 48, 64>> >>     \* 12 characters, '@' is not printable
GoodNames == << <<66, 89, 67, 65, 88, 48, 48, 48>>,                      \* another valid name, 8 characters
                <<66, 89, 32, 39, 40, 41, 43, 44, 45, 46, 47, 58>> >>    \* 12 printable characters of every kind
BadDates == << <<2,3,0,0,1,5>>, <<2,3,1,3,0,1>>, <<2,3,0,5,0,0>>, <<2,3,0,5,3,2>>, <<2,3,0,4,3,1>>,
               <<2,3,0,2,3,0>>, <<2,3,0,2,2,9>>, <<2,3,0,1,0,10>>, <<2,3,0,11,0,1>> >>
GoodDates == << <<2,4,0,2,2,9>> >>                                       \* 29 February of a leap year
PrevDay(d) == [d EXCEPT ![6] = @ - 1]            \* the chain's dates end in 2 / 0 with a free neighbour:
NextDay(d) == [d EXCEPT ![6] = @ + 1]            \* ..02 -> ..01 and ..30 -> ..31 (December / January)

None == [t |-> 0, f |-> "none", v |-> <<>>, tag |-> "none"]
A(t, f, v, tag) == [t |-> t, f |-> f, v |-> v, tag |-> tag]
\* alterations of level t (1 = root) in a chain of depth d
AltsAt(t, d) ==
  [i \in 1..Len(BadNames) |-> A(t, "authority", BadNames[i], "authority:bad" \o ToString(i))]
  \o [i \in 1..Len(BadNames) |-> A(t, "holder", BadNames[i], "holder:bad" \o ToString(i))]
  \o [i \in 1..Len(GoodNames) |-> A(t, "authority", GoodNames[i], "authority:other" \o ToString(i))]
  \o [i \in 1..Len(GoodNames) |-> A(t, "holder", GoodNames[i], "holder:other" \o ToString(i))]
  \o [i \in 1..Len(BadDates) |-> A(t, "from", BadDates[i], "from:invalid" \o ToString(i))]
  \o [i \in 1..Len(BadDates) |-> A(t, "until", BadDates[i], "until:invalid" \o ToString(i))]
  \o << A(t, "from", Until[t], "from=until"), A(t, "from", NextDay(Until[t]), "from=until+1"),
        A(t, "until", From[t], "until=from"), A(t, "until", PrevDay(From[t]), "until=from-1"),
        A(t, "from", GoodDates[1], "from:leapday"),
        A(t, "pk", 1, "pubkey:offcurve"), A(t, "pk", 2, "pubkey:badlen"),
        A(t, "eid", <<0,0,0,0,0>>, "eid:zero"), A(t, "eid", <<255,0,0,0,0>>, "eid:nonzero"),
        A(t, "esign", <<0,0>>, "esign:zero"), A(t, "esign", <<0,1>>, "esign:nonzero") >>
  \o (IF t >= 2 THEN << A(t, "from", From[t - 1], "from=issuer.from"), A(t, "from", PrevDay(From[t - 1]), "from=issuer.from-1"),
                        A(t, "fromuntil", Until[t - 1], "from=issuer.until"), A(t, "fromuntil", NextDay(Until[t - 1]), "from=issuer.until+1"),
                        A(t, "until", NextDay(Until[t - 1]), "until=issuer.until+1"),
                        A(t, "sg", "w", "signer:wrongkey"), A(t, "sg", "o", "signer:otherlen") >>
      ELSE << A(t, "sg", "w", "signer:wrongkey") >>)
DateAlts(d) == << A(d, "date", From[d], "date=from"), A(d, "date", Until[d], "date=until"),
                  A(d, "date", PrevDay(From[d]), "date=from-1"), A(d, "date", NextDay(Until[d]), "date=until+1"),
                  A(d, "date", BadDates[2], "date:invalid"), A(d, "date", BadDates[8], "date:digit>9") >>
AltsFor(d) == <<None>> \o Concat([t \in 1..d |-> AltsAt(t, d)]) \o (IF d >= 2 THEN DateAlts(d) ELSE <<>>)

\* the list of cases: (depth, pattern, alteration); patterns rotate with the alteration in the quick tier
CasesOf(d) == LET al == AltsFor(d) IN
  Concat([i \in 1..Len(al) |-> [j \in 1..NPat |-> [d |-> d, pat |-> ((i + j) % Len(Patterns)) + 1, alt |-> al[i]]]])
Cases == CasesOf(1) \o CasesOf(2) \o CasesOf(3)

\* ---------------------------------------------------------------- the chain of a case
Key(i, L) == [kid |-> i, len |-> L]
Level(cs, i) ==
  LET a == cs.alt
      L == Patterns[cs.pat][i]
      hit(f) == a.t = i /\ a.f = f
      pk == IF hit("pk") THEN a.v ELSE 0
  IN [L |-> L,
      authority |-> IF hit("authority") THEN a.v ELSE Names[IF i = 1 THEN 1 ELSE i - 1],
      holder |-> IF hit("holder") THEN a.v ELSE Names[i],
      from |-> IF hit("from") \/ hit("fromuntil") THEN a.v ELSE From[i],
      until |-> IF hit("until") THEN a.v ELSE IF hit("fromuntil") THEN <<9,9,1,2,3,1>> ELSE Until[i],
      eid |-> IF hit("eid") THEN a.v ELSE Eid[i],
      esign |-> IF hit("esign") THEN a.v ELSE Esign[i],
      pk |-> pk,
      sg |-> IF hit("sg") THEN a.v ELSE "p"]
Content(lv, i) == [authority |-> lv.authority, holder |-> lv.holder, from |-> lv.from, until |-> lv.until,
                   eid |-> lv.eid, esign |-> lv.esign,
                   pub |-> IF lv.pk = 2 THEN [kid |-> i, len |-> 50, ok |-> FALSE]
                           ELSE [kid |-> i, len |-> 2 * lv.L, ok |-> lv.pk = 0]]
\* can the harness' forging tool carry this content in a well-formed certificate?
Forgeable(lv) == Len(lv.authority) \in 8..12 /\ Len(lv.holder) \in 8..12 /\ lv.pk # 2

\* the battery of harness/drv_btok.c (cvcCase), level by level; certs = certificates so far (NoCert if none)
Call(fn, lvl, errs) == [fn |-> fn, lvl |-> lvl - 1, exp |-> Res(errs)]
Battery(cs) ==
  LET d == cs.d
      lvs == [i \in 1..d |-> Level(cs, i)]
      cons == [i \in 1..d |-> Content(lvs[i], i)]
      date == IF cs.alt.f = "date" THEN cs.alt.v ELSE <<>>
      step(acc, i) ==
        LET lv == lvs[i]   c == cons[i]
            isI == IF i = 1 THEN 1 ELSE i - 1
            isKey == Key(isI, lvs[isI].L)
            sk == CASE lv.sg = "w" -> [kid |-> 10 + i, len |-> isKey.len]
                    [] lv.sg = "o" -> [kid |-> 20 + i, len |-> IF isKey.len = 32 THEN 48 ELSE 32]
                    [] OTHER -> isKey
            certa == IF i = 1 THEN NoCert ELSE acc.certs[i - 1]
            issueErr == IF i = 1 THEN WrapErr(c, sk)
                        ELSE IF IsCert(certa) THEN IssErr(c, certa, sk) ELSE {"none"}
            issued == issueErr = {}
            cert == IF issued \/ Forgeable(lv) THEN Signed(c, sk) ELSE NoCert
            leafDate == IF i = d THEN date ELSE <<>>
            isPub == cons[isI].pub
            c1 == <<Call("Check", i, CheckErr(c))>>
                  \o (IF i > 1 THEN <<Call("Check2", i, Check2Err(c, cons[i - 1]))>> ELSE <<>>)
                  \o (IF i = 1 THEN <<Call("Wrap", i, issueErr)>>
                      ELSE IF IsCert(certa) THEN <<Call("Iss", i, issueErr)>> ELSE <<>>)
            c2 == IF ~IsCert(cert) THEN <<>> ELSE
                  <<Call("Unwrap0", i, Unwrap0Err(cert)), Call("UnwrapK", i, UnwrapKErr(cert, isPub))>>
                  \o (IF i > 1 /\ IsCert(certa) THEN <<Call("Val", i, ValErr(cert, certa, leafDate))>> ELSE <<>>)
                  \o (IF i > 1 THEN <<Call("Val2", i, Val2Err(cert, cons[i - 1], leafDate))>> ELSE <<>>)
                  \o <<Call("Match", i, MatchErr(cert, Key(i, lv.L))), Call("MatchX", i, MatchErr(cert, [kid |-> 30 + i, len |-> lv.L])),
                       Call("Len", i, {})>>
        IN [certs |-> Append(acc.certs, cert), calls |-> acc.calls \o c1 \o c2,
            exact |-> acc.exact /\ (i = 1 \/ ~IsCert(cert) \/ ~IsCert(certa) \/ ValExact(cert, certa, leafDate))]
  IN FoldLeft(step, [certs |-> <<>>, calls |-> <<>>, exact |-> TRUE], Upto(d))

CaseRec(k) ==
  LET cs == Cases[k]   b == Battery(cs) IN
  [id |-> k, d |-> cs.d, alt |-> cs.alt.tag, t |-> cs.alt.t,
   date |-> IF cs.alt.f = "date" THEN cs.alt.v ELSE <<>>,
   lv |-> [i \in 1..cs.d |-> Level(cs, i)],
   calls |-> [i \in 1..Len(b.calls) |-> [fn |-> b.calls[i].fn, lvl |-> b.calls[i].lvl, exp |-> SetToSeq(b.calls[i].exp)]]]

\* properties of the model over the enumerated chains
AllOk(k) == \A i \in 1..Len(Battery(Cases[k]).calls) :
               LET c == Battery(Cases[k]).calls[i] IN c.fn = "MatchX" \/ c.exp = {"OK"}
HonestValidates(k) == Cases[k].alt.f = "none" => AllOk(k)
ExactOnChain(k) == Battery(Cases[k]).exact

VARIABLES phase, idx, good
Init == phase = 0 /\ idx = 0 /\ good = TRUE
Next == \/ phase = 0 /\ phase' = 1 /\ idx' \in 1..Len(Cases) /\ good' = TRUE
        \/ phase = 1 /\ phase' = 2 /\ idx' = idx
           /\ good' = (HonestValidates(idx) /\ ExactOnChain(idx))
           /\ JsonSerialize(IOEnv.GEN_DIR \o "/c" \o ToString(idx) \o ".json", CaseRec(idx))
Good == good
=============================================================================
