SPECIFICATION Spec
CONSTANTS Sizes <- SizesQuick
 MaxSizeOps = 3
 MaxLen = 9
INVARIANT Shape Emit
PROPERTY ResizeKeeps CopyIsCopy
