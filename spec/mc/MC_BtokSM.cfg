SPECIFICATION MCSpec
CONSTANT MaxLen = 6
INVARIANT SMTypeOK
INVARIANT AcceptedRight
INVARIANT InStepRecovered
INVARIANT AlteredRejected
INVARIANT WrongParityRefused
