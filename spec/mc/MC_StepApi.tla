----------------------------- MODULE MC_StepApi -----------------------------
EXTENDS StepApi
\* fragment-length alphabet relative to the internal block (0, 1, blk-1, blk, blk+1, 2blk-1, 2blk, 2blk+1)
Alpha == {0, 1, Blk - 1, Blk, Blk + 1, 2 * Blk - 1, 2 * Blk, 2 * Blk + 1}
AlphaBlock == {Blk, Blk + 1, 2 * Blk - 1, 2 * Blk, 2 * Blk + 1, 3 * Blk - 1}
AlphaWhole == {0, Blk, 2 * Blk}
=============================================================================
