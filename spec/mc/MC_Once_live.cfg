SPECIFICATION FairSpec
CONSTANTS
  Threads = {t1, t2}
  PublishAtomic = TRUE
  Ops = 2
  Kinds = {"Incr", "CasIncr", "Decr"}
PROPERTY Terminates
