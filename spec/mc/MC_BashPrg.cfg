SPECIFICATION MCSpec
CONSTANTS
  Configs = {25620832, 25620000}
  Depth = 2
  MaxSteps = 1
  Classes = {"0", "1", "b-1", "b", "b+1"}
  Restarts = {0, 41}
  Seed = 1
  OutDir = "/verif/build/work/C03/cases_default"
INVARIANT TypeOK PosInv BufLenInv CapacityInv KeyModeInv OutLenInv EmitCases
PROPERTY EncrDecrLaw DecrEncrLaw
