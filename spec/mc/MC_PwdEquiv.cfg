SPECIFICATION Spec
CONSTANT T <- ImplT
INVARIANT DiffReport Equiv
