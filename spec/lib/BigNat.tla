------------------------------- MODULE BigNat -------------------------------
(* INTERFACE SUMMARY (stable; EXTENDS BigNat).  A number = little-endian sequence of limbs 0..4095; <<>> = 0;
   trailing zero limbs allowed (compare with Eq/Cmp, never with =, or Norm first).
   constants   Zero One Two   OfInt(v) (v < 2^31)   ToInt(a) (a < 2^31)   Norm(a)  IsZero(a)  IsOdd(a)
   compare     Cmp(a,b) in {-1,0,1}  Less Leq Eq
   arithmetic  Add(a,b)  AddInt(a,v)  Sub2(a,b) (a >= b)  SubB(a,b) = <<diff mod BASE^L, borrow>>  AbsDiff(a,b)
               Mul(a,b)  Sqr(a)  MulInt(a,v) (v < 2^19)  DivMod(a,b) = <<q,r>>  Div  Mod  DivModInt(a,v)  Sqrt(a)
   bits        BitLen(a)  Bit(a,k)  Shl(a,k)  Shr(a,k)  ModPow2(a,k)  PowerOf2(k)
   modular     AddMod SubMod MulMod (a,b,m)   ModExp(a,e,m)   ModInv(a,m) (0 if not invertible)
               GCD(a,b)   ExtGCD(a,m) = <<g,u>> with u*a == g (mod m)
   conversions From16(s) / To16(a,L): 16-bit limbs as logged by jLimbs16;  FromOctets(s) / ToOctets(a,L)
               (little-endian octets);  FromOctetsBE(s);  Fits16(a,L)
   helpers     Rng(lo,hi) = <<lo,..,hi>>   Strict(s)   Get(a,i)   (Upto, Zeros, Min2, Max2, Sub ... from Bytes) *)
(* Natural numbers of arbitrary size for TLC (whose integers are 32-bit signed).
   A number is a little-endian sequence of limbs in 0..4095 (base 2^12: a column of up to 128
   limb products still fits an int).  Trailing zero limbs are allowed everywhere; <<>> is 0.
   All loops are FoldLeft (iterative in TLC); sequences are built with Append / \o so that they
   are strict tuples (a lazily evaluated [i \in 1..n |-> e] is re-evaluated on every application).

   Nothing here is taken from the C code: the algorithms are the school methods
   (column sums + carry, digit-by-digit long division, Euclid, square-and-multiply);
   DivMod is validated by its identity a = q*b + r /\ r < b (DivModOk, ref/ArithVectors.tla). *)
EXTENDS Integers, Sequences, SequencesExt, Bitwise, Bytes

LB == 12
BASE == 4096

Strict(s) == s \o <<>>                     \* force a function-valued sequence into a tuple
Get(a, i) == IF i >= 1 /\ i <= Len(a) THEN a[i] ELSE 0
IdxAll == Upto(300)
Rng(lo, hi) == IF hi < lo THEN <<>> ELSE
                 IF lo >= 1 /\ hi <= 300 THEN SubSeq(IdxAll, lo, hi)
                 ELSE Strict([i \in 1..(hi - lo + 1) |-> lo + i - 1])

IsNat(a) == \A i \in 1..Len(a) : a[i] \in 0..(BASE - 1)

\* ---- small naturals
OfInt(v) == IF v = 0 THEN <<>> ELSE
            IF v < BASE THEN <<v>> ELSE
            IF v < BASE * BASE THEN <<v % BASE, v \div BASE>>
            ELSE <<v % BASE, (v \div BASE) % BASE, v \div (BASE * BASE)>>
Zero == <<>>
One == <<1>>
Two == <<2>>

\* number of significant limbs
SigLen(a) == FoldLeft(LAMBDA acc, i : IF a[i] # 0 THEN i ELSE acc, 0, Rng(1, Len(a)))
Norm(a) == SubSeq(a, 1, SigLen(a))
IsZero(a) == \A i \in 1..Len(a) : a[i] = 0
\* value as a TLC integer (only for numbers < 2^31)
ToInt(a) == FoldLeft(LAMBDA acc, i : acc + a[i] * (BASE ^ (i - 1)), 0, Rng(1, SigLen(a)))

\* pad / truncate to exactly n limbs (truncation = reduction modulo BASE^n)
Fit(a, n) == IF Len(a) >= n THEN SubSeq(a, 1, n) ELSE a \o Zeros(n - Len(a))

\* ---- carry normalisation of a column vector of non-negative ints (each < 2^31 - 2^20)
Carry(cols) ==
  LET r == FoldLeft(LAMBDA acc, x : LET t == x + acc[2] IN <<Append(acc[1], t % BASE), t \div BASE>>,
                    <<<<>>, 0>>, cols)
  IN r[1] \o OfInt(r[2])

\* ---- comparison: -1, 0, 1
Cmp(a, b) == FoldLeft(LAMBDA acc, i : LET x == Get(a, i) y == Get(b, i)
                                      IN IF x < y THEN -1 ELSE IF x > y THEN 1 ELSE acc,
                      0, Rng(1, Max2(Len(a), Len(b))))
Less(a, b) == Cmp(a, b) < 0
Leq(a, b) == Cmp(a, b) <= 0
Eq(a, b) == Cmp(a, b) = 0

\* ---- addition
Add(a, b) == Carry([i \in 1..Max2(Len(a), Len(b)) |-> Get(a, i) + Get(b, i)])
AddInt(a, v) == Add(a, OfInt(v))

\* ---- subtraction on L = max(len) limbs: <<(a - b) mod BASE^L, borrow>>
SubB(a, b) ==
  FoldLeft(LAMBDA acc, i : LET t == (Get(a, i) - Get(b, i) - acc[2]) + BASE
                           IN <<Append(acc[1], t % BASE), 1 - (t \div BASE)>>,
           <<<<>>, 0>>, Rng(1, Max2(Len(a), Len(b))))
\* a - b for a >= b (for a < b the result is the wrapped value: callers guarantee a >= b)
Sub2(a, b) == SubB(a, b)[1]
\* |a - b|
AbsDiff(a, b) == IF Less(a, b) THEN Sub2(b, a) ELSE Sub2(a, b)

\* ---- shifts by whole limbs
ShlLimbs(a, k) == Zeros(k) \o a
ShrLimbs(a, k) == IF k >= Len(a) THEN <<>> ELSE SubSeq(a, k + 1, Len(a))

\* ---- multiplication (column sums, then carries); the shorter operand has at most 100 limbs
MulCols(a, b) ==
  LET n == Len(a)  m == Len(b)
  IN [k \in 1..(n + m - 1) |->
        FoldLeft(LAMBDA s, i : s + a[i] * b[k + 1 - i], 0,
                 Rng(Max2(1, k + 1 - m), Min2(n, k)))]
MulSmall(a, b) == IF Len(a) = 0 \/ Len(b) = 0 THEN <<>> ELSE Carry(MulCols(a, b))
RECURSIVE Mul(_, _)
Mul(a, b) == IF Len(b) <= 100 \/ Len(a) <= 100 THEN MulSmall(a, b)
             ELSE Add(MulSmall(a, SubSeq(b, 1, 100)), ShlLimbs(Mul(a, SubSeq(b, 101, Len(b))), 100))
Sqr(a) == Mul(a, a)
\* multiplication by a small integer 0 <= v < 2^19
MulInt(a, v) == Carry([i \in 1..Len(a) |-> a[i] * v])

\* ---- bit operations
Pow2(k) == 2 ^ k                                      \* k <= 30
\* number of bits of a small int
IntBits(v) == FoldLeft(LAMBDA acc, k : IF v >= Pow2(k - 1) THEN k ELSE acc, 0, Rng(1, 31))
BitLen(a) == LET s == SigLen(a) IN IF s = 0 THEN 0 ELSE (s - 1) * LB + IntBits(a[s])
Bit(a, k) == (Get(a, (k \div LB) + 1) \div Pow2(k % LB)) % 2         \* bit k (from 0)
IsOdd(a) == Get(a, 1) % 2 = 1
\* a * 2^k
Shl(a, k) == LET q == k \div LB  r == k % LB
             IN IF r = 0 THEN ShlLimbs(a, q) ELSE ShlLimbs(MulInt(a, Pow2(r)), q)
\* a div 2^k
Shr(a, k) == LET q == k \div LB  r == k % LB  s == ShrLimbs(a, q)
             IN IF r = 0 THEN s
                ELSE Strict([i \in 1..Len(s) |-> (s[i] \div Pow2(r)) + ((Get(s, i + 1) % Pow2(r)) * Pow2(LB - r))])
\* a mod 2^k
ModPow2(a, k) == LET q == k \div LB  r == k % LB
                 IN IF q >= Len(a) THEN a
                    ELSE IF r = 0 THEN SubSeq(a, 1, q)
                    ELSE SubSeq(a, 1, q) \o <<a[q + 1] % Pow2(r)>>
\* 2^k as a number
PowerOf2(k) == Shl(One, k)

\* ---- division
\* by a small integer 0 < v < 2^19: <<quotient, remainder (int)>>
DivModInt(a, v) ==
  LET r == FoldLeft(LAMBDA acc, i : LET t == acc[2] * BASE + a[i]
                                    IN <<<<t \div v>> \o acc[1], t % v>>,
                    <<<<>>, 0>>, Reverse(Rng(1, Len(a))))
  IN r
\* long division, digit by digit (base 2^12), with a normalised divisor (top limb >= BASE/2):
\* the trial digit from the two top limbs of the running remainder exceeds the true digit by at
\* most 2, and is corrected by adding the divisor back.
DivModNorm(a, b) ==        \* a, b normalised (no leading zero limbs), top limb of b >= BASE/2, Len(a) >= Len(b) >= 1
  LET m == Len(b)  n == Len(a)
      top == b[m]
      step(acc, x) ==      \* acc = <<quotient digits (most significant first), remainder>>, x = next limb of a
        LET r0 == Norm(<<x>> \o acc[2])
            hi == (Get(r0, m + 1) * BASE) + Get(r0, m)
            q0 == Min2(hi \div top, BASE - 1)
            p0 == MulInt(b, q0)
        IN IF Leq(p0, r0) THEN <<Append(acc[1], q0), Norm(Sub2(r0, p0))>>
           ELSE LET p1 == Sub2(p0, b)
                IN IF Leq(p1, r0) THEN <<Append(acc[1], q0 - 1), Norm(Sub2(r0, p1))>>
                   ELSE <<Append(acc[1], q0 - 2), Norm(Sub2(r0, Sub2(p1, b)))>>
      res == FoldLeft(step, <<<<>>, SubSeq(a, n - m + 2, n)>>, Reverse(SubSeq(a, 1, n - m + 1)))
  IN <<Reverse(res[1]), res[2]>>
\* general: <<a div b, a mod b>> for b # 0
DivMod(a, b) ==
  LET bn == Norm(b)  m == Len(bn)
  IN IF Less(a, bn) THEN <<Zero, Norm(a)>>
     ELSE IF m = 1 THEN LET r == DivModInt(Norm(a), bn[1]) IN <<r[1], OfInt(r[2])>>
     ELSE LET sh == LB - IntBits(bn[m])
              r == DivModNorm(Norm(Shl(a, sh)), Norm(Shl(bn, sh)))
          IN <<r[1], Shr(r[2], sh)>>
Div(a, b) == DivMod(a, b)[1]
Mod(a, b) == Norm(DivMod(a, b)[2])
\* the defining identity (the oracle's own check)
DivModOk(a, b) == LET r == DivMod(a, b)
                  IN Eq(a, Add(Mul(r[1], b), r[2])) /\ Less(r[2], b)

\* ---- modular arithmetic (all results fully reduced and normalised)
AddMod(a, b, m) == Mod(Add(a, b), m)
SubMod(a, b, m) == LET x == Mod(a, m) y == Mod(b, m)
                   IN IF Less(x, y) THEN Norm(Sub2(Add(x, m), y)) ELSE Norm(Sub2(x, y))
MulMod(a, b, m) == Mod(Mul(a, b), m)
\* a^e mod m by square-and-multiply over the bits of e from the top (0^0 = 1, everything mod 1 = 0)
ModExp(a, e, m) ==
  FoldLeft(LAMBDA acc, k : LET s == MulMod(acc, acc, m)
                           IN IF Bit(e, k) = 1 THEN MulMod(s, a, m) ELSE s,
           Mod(One, m), Reverse(Rng(0, BitLen(e) - 1)))

\* ---- Euclid.  State <<r0, r1, s0, s1, sign>> with invariants  s0*a == sign*r0 (mod b) ...
\* We keep the cofactor of a only, as a non-negative number with an explicit sign:
\*   r0 = sg0 * s0 * a (mod b),  r1 = sg1 * s1 * a (mod b).
MaxEuclid(a, b) == (3 * (Max2(BitLen(a), BitLen(b)) + 2)) \div 2 + 2
GCD(a, b) ==
  FoldLeft(LAMBDA st, i : IF IsZero(st[2]) THEN st ELSE <<st[2], Mod(st[1], st[2])>>,
           <<Norm(a), Norm(b)>>, Rng(1, MaxEuclid(a, b)))[1]
\* extended Euclid on (a, m): returns <<g, u>> with g = gcd(a, m), 0 <= u < m/g... and u*a == g (mod m)
ExtGCD(a, m) ==
  LET step(st, i) ==
        IF IsZero(st.r1) THEN st
        ELSE LET qr == DivMod(st.r0, st.r1)
                 \* s2 = s0 - q*s1 with signs sg0, sg1: s0*sg0 - q*s1*sg1
                 qs == Mul(qr[1], st.s1)
                 same == st.g0 = st.g1
                 mag == IF same THEN AbsDiff(st.s0, qs) ELSE Add(st.s0, qs)
                 sg == IF same THEN (IF Less(st.s0, qs) THEN -st.g0 ELSE st.g0) ELSE st.g0
             IN [r0 |-> st.r1, r1 |-> Norm(qr[2]), s0 |-> st.s1, s1 |-> Norm(mag), g0 |-> st.g1, g1 |-> sg]
      fin == FoldLeft(step, [r0 |-> Norm(a), r1 |-> Norm(m), s0 |-> One, s1 |-> Zero, g0 |-> 1, g1 |-> 1],
                      Rng(1, MaxEuclid(a, m)))
      u0 == Mod(fin.s0, m)
      u == IF fin.g0 = 1 \/ IsZero(u0) THEN u0 ELSE Norm(Sub2(m, u0))
  IN <<fin.r0, u>>
\* a^{-1} mod m, or 0 if a is not invertible
ModInv(a, m) == LET r == ExtGCD(Mod(a, m), m)
                IN IF Eq(r[1], One) THEN Mod(r[2], m) ELSE Zero

\* integer square root: the largest s with s*s <= a (bitwise construction from the top)
Sqrt(a) ==
  FoldLeft(LAMBDA s, k : LET t == Add(s, PowerOf2(k)) IN IF Leq(Mul(t, t), a) THEN Norm(t) ELSE s,
           Zero, Reverse(Rng(0, (BitLen(a) + 1) \div 2)))

\* ---- conversions
\* from 16-bit limbs (little-endian), as logged by jLimbs16
From16(s) ==
  LET L == Len(s)  G == (L + 2) \div 3
      w(i) == IF i <= L THEN s[i] ELSE 0
      limb(k) == LET g == (k - 1) \div 4  r == (k - 1) % 4
                     w0 == w(3 * g + 1)  w1 == w(3 * g + 2)  w2 == w(3 * g + 3)
                 IN CASE r = 0 -> w0 % 4096
                      [] r = 1 -> (w0 \div 4096) + ((w1 % 256) * 16)
                      [] r = 2 -> (w1 \div 256) + ((w2 % 16) * 256)
                      [] r = 3 -> w2 \div 16
  IN Strict([k \in 1..(4 * G) |-> limb(k)])
\* to exactly L 16-bit limbs: (a mod 2^(16 L))
To16(a, L) ==
  LET limb(j) == LET g == (j - 1) \div 3  r == (j - 1) % 3
                     l0 == Get(a, 4 * g + 1)  l1 == Get(a, 4 * g + 2)
                     l2 == Get(a, 4 * g + 3)  l3 == Get(a, 4 * g + 4)
                 IN CASE r = 0 -> l0 + ((l1 % 16) * 4096)
                      [] r = 1 -> (l1 \div 16) + ((l2 % 256) * 256)
                      [] r = 2 -> (l2 \div 256) + (l3 * 16)
  IN Strict([j \in 1..L |-> limb(j)])
\* fits into L 16-bit limbs?
Fits16(a, L) == BitLen(a) <= 16 * L
\* from / to octet strings (little-endian)
FromOctets(s) ==
  LET L == Len(s)  G == (L + 2) \div 3
      o(i) == IF i <= L THEN s[i] ELSE 0
      limb(k) == LET g == (k - 1) \div 2
                     o0 == o(3 * g + 1)  o1 == o(3 * g + 2)  o2 == o(3 * g + 3)
                 IN IF (k - 1) % 2 = 0 THEN o0 + ((o1 % 16) * 256) ELSE (o1 \div 16) + (o2 * 16)
  IN Strict([k \in 1..(2 * G) |-> limb(k)])
ToOctets(a, L) ==
  LET oct(j) == LET g == (j - 1) \div 3  r == (j - 1) % 3
                    l0 == Get(a, 2 * g + 1)  l1 == Get(a, 2 * g + 2)
                IN CASE r = 0 -> l0 % 256
                     [] r = 1 -> (l0 \div 256) + ((l1 % 16) * 16)
                     [] r = 2 -> l1 \div 16
  IN Strict([j \in 1..L |-> oct(j)])
\* big-endian octets
FromOctetsBE(s) == FromOctets(Reverse(s))
=============================================================================
