------------------------------ MODULE GF2Poly ------------------------------
(* INTERFACE SUMMARY (stable; EXTENDS GF2Poly).  A polynomial over GF(2) = little-endian sequence of 16-bit limbs
   (bit k of limb i = coefficient of x^(16(i-1)+k)), i.e. exactly a jLimbs16 array; <<>> = 0; trailing zero limbs
   allowed (compare with PEq, or PNorm / PFit(a,n) first).
   constants   PZero POne PX  PMonomial(k)       tests  PIsZero(a)  PEq(a,b)  PDeg(a) (-1 for 0)  PBit(a,k)  PWeight(a)
   arithmetic  PAdd(a,b)  PMul(a,b)  PSqr(a)  PMulLimb(a,w)  PShl(a,k)  PShr(a,k)  PTrunc(a,k) (mod x^k)
               PDivMod(a,b) = <<q,r>>  PDiv  PMod  PMulMod(a,b,m)
   Euclid      PGCD(a,b)   PExGCD(a,b) = <<d,u,v>> with d = a*u + b*v   PInvMod(a,m) (0 if not invertible)
   tests       PIsIrred(f) (Rabin)   PIsIrredByDef(f) (trial division, small degrees)
   sequences   BerlekampMassey(s) = <<C,L>>   PMinPolySeq(s)  (s = TLA+ sequence of 0/1)
   helpers     PRng(lo,hi)  PStrict(s)  PGet(a,i)  PNorm(a)  PFit(a,n) *)
(* Polynomials over GF(2) for TLC.  A polynomial is a little-endian sequence of 16-bit limbs
   (bit k of limb i is the coefficient of x^(16(i-1)+k)) - exactly the arrays logged by jLimbs16.
   Trailing zero limbs are allowed; <<>> is the zero polynomial.  Loops are FoldLeft.

   Textbook algorithms only (shift-and-xor product, long division, Euclid, Rabin's irreducibility
   test, Berlekamp-Massey); validated by identities in ref/ArithVectors.tla. *)
EXTENDS Integers, Sequences, SequencesExt, Bitwise, Bytes

PStrict(s) == s \o <<>>
PGet(a, i) == IF i >= 1 /\ i <= Len(a) THEN a[i] ELSE 0
PIdx == Upto(400)
PRng(lo, hi) == IF hi < lo THEN <<>> ELSE
                IF lo >= 1 /\ hi <= 400 THEN SubSeq(PIdx, lo, hi)
                ELSE PStrict([i \in 1..(hi - lo + 1) |-> lo + i - 1])
P2(k) == 2 ^ k

PSigLen(a) == FoldLeft(LAMBDA acc, i : IF a[i] # 0 THEN i ELSE acc, 0, PRng(1, Len(a)))
PNorm(a) == SubSeq(a, 1, PSigLen(a))
PIsZero(a) == \A i \in 1..Len(a) : a[i] = 0
PEq(a, b) == \A i \in 1..Max2(Len(a), Len(b)) : PGet(a, i) = PGet(b, i)
PFit(a, n) == IF Len(a) >= n THEN SubSeq(a, 1, n) ELSE a \o Zeros(n - Len(a))
PZero == <<>>
POne == <<1>>
PX == <<2>>

\* position of the top bit of a small int (0 for 1), -1 for 0
TopBit(v) == FoldLeft(LAMBDA acc, k : IF v >= P2(k) THEN k ELSE acc, -1, PRng(0, 30))
\* degree; -1 for the zero polynomial
PDeg(a) == LET s == PSigLen(a) IN IF s = 0 THEN -1 ELSE 16 * (s - 1) + TopBit(a[s])
PBit(a, k) == (PGet(a, (k \div 16) + 1) \div P2(k % 16)) % 2
PWeight(a) == FoldLeft(LAMBDA acc, k : acc + PBit(a, k), 0, PRng(0, 16 * Len(a) - 1))

\* ---- addition
PAdd(a, b) == PStrict([i \in 1..Max2(Len(a), Len(b)) |-> PGet(a, i) ^^ PGet(b, i)])
\* a + b * x^(16 off)
PAddAt(a, b, off) ==
  PStrict([i \in 1..Max2(Len(a), Len(b) + off) |-> PGet(a, i) ^^ PGet(b, i - off)])

\* ---- shifts
PShlLimbs(a, q) == Zeros(q) \o a
PShl(a, k) ==
  LET q == k \div 16  r == k % 16
  IN IF r = 0 THEN PShlLimbs(a, q)
     ELSE PShlLimbs(PStrict([i \in 1..(Len(a) + 1) |->
                      ((PGet(a, i) * P2(r)) % 65536) + (PGet(a, i - 1) \div P2(16 - r))]), q)
PShr(a, k) ==
  LET q == k \div 16  r == k % 16
      s == IF q >= Len(a) THEN <<>> ELSE SubSeq(a, q + 1, Len(a))
  IN IF r = 0 THEN s
     ELSE PStrict([i \in 1..Len(s) |-> (s[i] \div P2(r)) + ((PGet(s, i + 1) % P2(r)) * P2(16 - r))])
\* a mod x^k
PTrunc(a, k) ==
  LET q == k \div 16  r == k % 16
  IN IF q >= Len(a) THEN a
     ELSE IF r = 0 THEN SubSeq(a, 1, q) ELSE SubSeq(a, 1, q) \o <<a[q + 1] % P2(r)>>
PMonomial(k) == PShl(POne, k)

\* ---- multiplication
\* carry-less product of two 16-bit limbs: an int < 2^31
Clmul16(x, y) ==
  FoldLeft(LAMBDA acc, j : IF (y \div P2(j)) % 2 = 1 THEN acc ^^ (x * P2(j)) ELSE acc, 0, PRng(0, 15))
\* polynomial times one limb: the 16 multiples of w by a nibble are tabulated first
PMulLimb(a, w) ==
  IF w = 0 \/ Len(a) = 0 THEN <<>> ELSE
  LET T == PStrict([u \in 1..16 |->
              FoldLeft(LAMBDA acc, j : IF ((u - 1) \div P2(j)) % 2 = 1 THEN acc ^^ (w * P2(j)) ELSE acc,
                       0, PRng(0, 3))])                                  \* T[u+1] = w (x) u  < 2^19
      prod(x) == ((T[(x % 16) + 1] ^^ (T[((x \div 16) % 16) + 1] * 16))
                    ^^ (T[((x \div 256) % 16) + 1] * 256)) ^^ (T[(x \div 4096) + 1] * 4096)
      c == PStrict([k \in 1..Len(a) |-> prod(a[k])])
  IN PStrict([k \in 1..(Len(a) + 1) |-> (PGet(c, k) % 65536) ^^ (PGet(c, k - 1) \div 65536)])
PMul(a, b) ==
  IF Len(a) = 0 \/ Len(b) = 0 THEN <<>>
  ELSE FoldLeft(LAMBDA acc, i : IF b[i] = 0 THEN acc ELSE PAddAt(acc, PMulLimb(a, b[i]), i - 1),
                Zeros(Len(a) + Len(b)), PRng(1, Len(b)))
PSqr(a) == PMul(a, a)

\* ---- division: <<quotient, remainder>> with a = q*b + r, deg r < deg b   (b # 0)
PDivMod(a, b) ==
  LET db == PDeg(b)  da == PDeg(a)
      bn == PNorm(b)
      sh == PStrict([j \in 1..16 |-> PShl(bn, j - 1)])          \* b * x^0 .. b * x^15
      step(st, pos) ==                                            \* st = <<q, r>>
        IF PBit(st[2], pos) = 0 THEN st
        ELSE LET s == pos - db
             IN <<PAddAt(st[1], <<P2(s % 16)>>, s \div 16), PAddAt(st[2], sh[(s % 16) + 1], s \div 16)>>
  IN IF da < db THEN <<PZero, PNorm(a)>>
     ELSE LET r == FoldLeft(step, <<PZero, PNorm(a)>>, Reverse(PRng(db, da)))
          IN <<PNorm(r[1]), PNorm(r[2])>>
PDiv(a, b) == PDivMod(a, b)[1]
PMod(a, b) == PDivMod(a, b)[2]
PDivModOk(a, b) == LET r == PDivMod(a, b)
                   IN PEq(a, PAdd(PMul(r[1], b), r[2])) /\ PDeg(r[2]) < PDeg(b)
PMulMod(a, b, m) == PMod(PMul(a, b), m)

\* ---- Euclid
PMaxEuclid(a, b) == Max2(PDeg(a), PDeg(b)) + 3
PGCD(a, b) ==
  FoldLeft(LAMBDA st, i : IF PIsZero(st[2]) THEN st ELSE <<st[2], PMod(st[1], st[2])>>,
           <<PNorm(a), PNorm(b)>>, PRng(1, PMaxEuclid(a, b)))[1]
\* <<d, u, v>> with d = gcd(a, b) = a*u + b*v
PExGCD(a, b) ==
  LET step(st, i) ==
        IF PIsZero(st.r1) THEN st
        ELSE LET qr == PDivMod(st.r0, st.r1)
             IN [r0 |-> st.r1, r1 |-> qr[2],
                 u0 |-> st.u1, u1 |-> PNorm(PAdd(st.u0, PMul(qr[1], st.u1))),
                 v0 |-> st.v1, v1 |-> PNorm(PAdd(st.v0, PMul(qr[1], st.v1)))]
      fin == FoldLeft(step, [r0 |-> PNorm(a), r1 |-> PNorm(b), u0 |-> POne, u1 |-> PZero,
                             v0 |-> PZero, v1 |-> POne], PRng(1, PMaxEuclid(a, b)))
  IN <<fin.r0, fin.u0, fin.v0>>
\* a^{-1} mod m, or 0 when gcd(a, m) # 1
PInvMod(a, m) == LET r == PExGCD(PMod(a, m), m)
                 IN IF PEq(r[1], POne) THEN PMod(r[2], m) ELSE PZero

\* ---- irreducibility (Rabin): f of degree n >= 1 is irreducible iff x^(2^n) = x (mod f) and
\* gcd(x^(2^(n/p)) - x, f) = 1 for every prime p | n
IsPrimeInt(p) == p >= 2 /\ \A d \in 2..(p - 1) : d * d > p \/ p % d # 0
PrimeDivisors(n) == {p \in 2..n : n % p = 0 /\ IsPrimeInt(p)}
PIsIrred(f) ==
  LET n == PDeg(f)
      fn == PNorm(f)
      chk == {n \div p : p \in PrimeDivisors(n)}
      step(st, k) ==                                  \* st = <<x^(2^(k-1)) mod f, ok so far>>
        IF ~st[2] THEN st
        ELSE LET h == PMod(PSqr(st[1]), fn)
             IN <<h, IF k \in chk THEN PEq(PGCD(PAdd(h, PX), fn), POne) ELSE TRUE>>
  IN IF n < 1 THEN FALSE
     ELSE LET fin == FoldLeft(step, <<PMod(PX, fn), TRUE>>, PRng(1, n))
          IN fin[2] /\ PEq(fin[1], PMod(PX, fn))
\* the definition, for small degrees (anchor of PIsIrred): no divisor of degree 1..n/2
PIsIrredByDef(f) ==
  LET n == PDeg(f)
  IN n >= 1 /\ \A v \in 2..(P2((n \div 2) + 1) - 1) : ~PIsZero(PMod(f, <<v>>))

\* ---- minimal polynomial of a binary sequence s (a TLA+ sequence of 0/1, first element first):
\* Berlekamp-Massey.  C is the connection polynomial (s_j = sum_{i=1..L} c_i s_{j-i}), the minimal
\* polynomial is its reciprocal x^L * C(1/x).
PReverse(c, L) ==              \* x^L * c(1/x), for deg c <= L
  FoldLeft(LAMBDA acc, i : IF PBit(c, i) = 1 THEN PAdd(acc, PMonomial(L - i)) ELSE acc, PZero, PRng(0, L))
BerlekampMassey(s) ==          \* <<C, L>>
  LET step(st, n) ==           \* n = 0-based index of the element processed
        LET d == FoldLeft(LAMBDA acc, i : (acc + (PBit(st.C, i) * s[n - i + 1])) % 2, 0, PRng(0, st.L))
        IN IF d = 0 THEN [st EXCEPT !.m = st.m + 1]
           ELSE LET C2 == PNorm(PAdd(st.C, PShl(st.Bp, st.m)))
                IN IF 2 * st.L <= n
                   THEN [C |-> C2, Bp |-> st.C, L |-> n + 1 - st.L, m |-> 1]
                   ELSE [C |-> C2, Bp |-> st.Bp, L |-> st.L, m |-> st.m + 1]
      fin == FoldLeft(step, [C |-> POne, Bp |-> POne, L |-> 0, m |-> 1],
                      PStrict([i \in 1..Len(s) |-> i - 1]))
  IN <<fin.C, fin.L>>
PMinPolySeq(s) == LET r == BerlekampMassey(s) IN PNorm(PReverse(r[1], r[2]))
=============================================================================
