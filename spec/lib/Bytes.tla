------------------------------- MODULE Bytes -------------------------------
(* Octet strings are sequences over 0..255.  32-bit words are pairs <<lo16, hi16>>
   (TLC integers are 32-bit signed, so a 32-bit word does not fit one integer).
   All multi-octet quantities are little-endian, as in STB 34.101.31 / 34.101.77. *)
EXTENDS Integers, Sequences, Bitwise, SequencesExt

Octet == 0..255
IsOctets(s) == \A i \in 1..Len(s) : s[i] \in Octet

Min2(a, b) == IF a < b THEN a ELSE b
Max2(a, b) == IF a > b THEN a ELSE b

Zeros(n) == [i \in 1..n |-> 0]
Rep(n, v) == [i \in 1..n |-> v]

\* octets i..j (1-based, inclusive) ; empty when j < i
Sub(s, i, j) == IF j < i THEN <<>> ELSE [k \in 1..(j - i + 1) |-> s[i + k - 1]]
TakeN(s, n) == Sub(s, 1, Min2(n, Len(s)))
DropN(s, n) == Sub(s, n + 1, Len(s))
LastN(s, n) == Sub(s, Len(s) - n + 1, Len(s))

\* octet-wise XOR of equal-length strings; XorL truncates to the shorter one
XorS(a, b) == [i \in 1..Len(a) |-> a[i] ^^ b[i]]
XorL(a, b) == [i \in 1..Min2(Len(a), Len(b)) |-> a[i] ^^ b[i]]

\* pad with zeros up to n octets
PadZ(s, n) == s \o Zeros(n - Len(s))

\* little-endian encoding of a small natural (< 2^31) on n octets
RECURSIVE LE(_, _)
LE(v, n) == IF n = 0 THEN <<>> ELSE <<v % 256>> \o LE(v \div 256, n - 1)
\* big-endian
RECURSIVE BE(_, _)
BE(v, n) == IF n = 0 THEN <<>> ELSE BE(v \div 256, n - 1) \o <<v % 256>>

\* split into chunks of n octets (last may be shorter); empty string -> <<>>
Chunks(s, n) == [k \in 1..((Len(s) + n - 1) \div n) |-> Sub(s, (k - 1) * n + 1, Min2(k * n, Len(s)))]
\* the sequence <<1, 2, ..., k>> (loops are written as FoldLeft over it: TLC evaluates
\* FoldLeft iteratively, deep RECURSIVE chains are quadratic)
Upto(k) == [i \in 1..k |-> i]
\* concatenation of a sequence of octet strings
Concat(ss) == FoldLeft(LAMBDA acc, x : acc \o x, <<>>, ss)

\* ---- 32-bit words as <<lo16, hi16>>
W32(lo, hi) == <<lo, hi>>
W0 == <<0, 0>>
WAdd(a, b) == LET l == a[1] + b[1]
                  h == a[2] + b[2] + (l \div 65536)
              IN <<l % 65536, h % 65536>>
WSub(a, b) == LET l == a[1] - b[1]
                  h == a[2] - b[2] - (IF l < 0 THEN 1 ELSE 0)
              IN <<(l + 65536) % 65536, (h + 65536) % 65536>>
WXor(a, b) == <<a[1] ^^ b[1], a[2] ^^ b[2]>>
WSmall(i)  == <<i % 65536, i \div 65536>>        \* i < 2^31
\* rotate left by r in 0..31
WRotLo(w, r) == IF r = 0 THEN w ELSE
   << ((w[1] * (2^r)) % 65536) + (w[2] \div (2^(16 - r))),
      ((w[2] * (2^r)) % 65536) + (w[1] \div (2^(16 - r))) >>
WRot(w, r) == IF r < 16 THEN WRotLo(w, r) ELSE WRotLo(<<w[2], w[1]>>, r - 16)
\* word <-> 4 octets (little-endian)
WFrom(s, i) == << s[i] + 256 * s[i + 1], s[i + 2] + 256 * s[i + 3] >>
WTo(w) == << w[1] % 256, w[1] \div 256, w[2] % 256, w[2] \div 256 >>

\* increment of a little-endian octet string as a number modulo 256^Len
RECURSIVE IncLE(_)
IncLE(s) == IF Len(s) = 0 THEN <<>>
            ELSE IF s[1] < 255 THEN <<s[1] + 1>> \o Tail(s)
            ELSE <<0>> \o IncLE(Tail(s))
\* addition of a small natural v (< 2^23) to a little-endian octet string modulo 256^Len
RECURSIVE AddLE(_, _)
AddLE(s, v) == IF Len(s) = 0 THEN <<>>
               ELSE LET t == s[1] + v IN <<t % 256>> \o AddLE(Tail(s), t \div 256)

\* hex digits of an octet string (upper case), for messages
HexDigit(d) == SubSeq("0123456789ABCDEF", d + 1, d + 1)
=============================================================================
