-------------------------------- MODULE Prng --------------------------------
(* Deterministic data for case generators: a Lehmer generator modulo the prime 65537
   (multiplier 75: products stay far below 2^31).  Seeds vary DATA only, never structure. *)
EXTENDS Integers, Sequences, SequencesExt
PrngNext(x) == (x * 75 + 74) % 65537
PrngInit(seed, stream) == PrngNext(PrngNext(((seed % 60000) * 7 + (stream % 9000) * 13 + 1) % 65537))
\* n octets from (seed, stream)
PrngOctets(seed, stream, n) ==
  FoldLeft(LAMBDA acc, i : LET x == PrngNext(acc[2]) IN <<Append(acc[1], (x \div 7) % 256), x>>,
           <<<<>>, PrngInit(seed, stream)>>, [i \in 1..n |-> i])[1]
=============================================================================
