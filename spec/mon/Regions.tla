------------------------------- MODULE Regions -------------------------------
(* C07: resource monitor over instrumented executions (exact-size mode: ASan/UBSan build with
   assertions on, blobs not page-rounded, every state / stack / caller buffer malloc'ed at exactly
   the documented size).  Events (one ndjson line each):
     Run(suite, run, cfg)          a driver run starts
     Region(f, kind, size, hwm)    a state (size = f_keep()) or stack (size = f_deep()) region was
                                   handed to the library filled with a canary; hwm = highest offset
                                   the library wrote (+1)
     Done(calls)                   the run ended normally after `calls` logged library calls
     Abort(kind, site)             the sensor stopped the run: kind in {"asan", "ubsan", "assert", "signal"}
   Invariants: no Abort; hwm <= size for every region; a run that started is Done. *)
EXTENDS Integers, Sequences, FiniteSets, TLC, Json, IOUtils

Tr == ndJsonDeserialize(IOEnv.TRACE)

VARIABLES l, running, regions, calls, verdict
vars == <<l, running, regions, calls, verdict>>

Init == l = 1 /\ running = FALSE /\ regions = 0 /\ calls = 0 /\ verdict = "ok"

IsEvent(e) == l <= Len(Tr) /\ Tr[l].e = e /\ l' = l + 1

Run == IsEvent("Run") /\ ~running /\ running' = TRUE /\ verdict' = "ok" /\ UNCHANGED <<regions, calls>>
Region == /\ IsEvent("Region") /\ running
          /\ verdict' = (IF Tr[l].hwm <= Tr[l].size THEN "ok" ELSE "overrun")
          /\ regions' = regions + 1 /\ UNCHANGED <<running, calls>>
Done == IsEvent("Done") /\ running /\ running' = FALSE /\ calls' = calls + Tr[l].calls
        /\ verdict' = "ok" /\ UNCHANGED regions
Abort == IsEvent("Abort") /\ running /\ running' = FALSE /\ verdict' = "abort" /\ UNCHANGED <<regions, calls>>

Next == Run \/ Region \/ Done \/ Abort
Spec == Init /\ [][Next]_vars

InBounds == verdict # "overrun"
NoAbort == verdict # "abort"
TraceAccepted == TLCGet("stats").diameter - 1 = Len(Tr)
=============================================================================
