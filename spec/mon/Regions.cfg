SPECIFICATION Spec
INVARIANT InBounds NoAbort
POSTCONDITION TraceAccepted
