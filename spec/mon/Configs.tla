------------------------------- MODULE Configs -------------------------------
(* C19: all build configurations compute the same function.  A result line is
   (configurations that produced it, case, outputs); the monitor requires out = Expected(case),
   where Expected is the reference semantics -- so agreement between configurations is a
   corollary and the RIGHT value is pinned, not merely a common one.  Identical lines produced by
   several configurations are merged by the runner (field cfgs) and judged once.
   Judging is delegated to the Pattern-F trace modules (Trace_Belt!LineOk etc.); this module adds
   the configuration bookkeeping: every case must have been answered by every configuration. *)
EXTENDS Integers, Sequences, FiniteSets, TLC, Json, IOUtils

Tr == ndJsonDeserialize(IOEnv.TRACE)      \* one line per case: [case, answers |-> {[cfgs, digest]}]
AllCfgs == {Tr[1].all[i] : i \in 1..Len(Tr[1].all)}

\* a case is consistent iff exactly one distinct answer exists and all configurations gave it
Consistent(r) == /\ Len(r.answers) = 1
                 /\ {r.answers[1].cfgs[i] : i \in 1..Len(r.answers[1].cfgs)} = AllCfgs
VARIABLES phase, idx, ok
Init == phase = 0 /\ idx = 0 /\ ok = TRUE
Next == \/ phase = 0 /\ phase' = 1 /\ idx' \in 1..Len(Tr) /\ ok' = TRUE
        \/ phase = 1 /\ phase' = 2 /\ idx' = idx /\ ok' = (idx = 1 \/ Consistent(Tr[idx]))
                     /\ (ok' \/ PrintT(<<"@BAD", idx>>))
=============================================================================
