--------------------------------- MODULE CT ---------------------------------
(* C14 part 2: control-flow noninterference as a 2-safety monitor over PC traces.
   An observation is (entry point f, public length len, secret variant, number of executed
   instructions, hash of the executed program-counter sequence) recorded by the ptrace
   single-stepper on the optimised machine code of the current tree (harness/drv_ct.c).
   Noninterference: all observations with the same public part (f, len) have the same
   PC trace, whatever the secret variant.  The monitor keeps the first observation per
   public part; verdict is the judgement of the current observation. *)
EXTENDS Integers, Sequences, FiniteSets, TLC, Json, IOUtils

Tr == ndJsonDeserialize(IOEnv.TRACE)

VARIABLES l,          \* next line
          seen,       \* public part -> <<steps, hash>> of its first observation
          nvar,       \* public part -> number of secret variants observed
          verdict     \* "ok" | "leak" | "nosensor" for the line just consumed
vars == <<l, seen, nvar, verdict>>

Key(r) == <<r.f, r.len>>
Obs(r) == <<r.steps, r.hash>>

Init == l = 1 /\ seen = <<>> /\ nvar = <<>> /\ verdict = "ok"

Observe ==
  /\ l <= Len(Tr) /\ Tr[l].e = "Observe"
  /\ LET r == Tr[l]  k == Key(r) IN
     IF k \in DOMAIN seen
     THEN /\ verdict' = (IF seen[k] = Obs(r) THEN "ok" ELSE "leak")
          /\ seen' = seen /\ nvar' = [nvar EXCEPT ![k] = @ + 1]
     ELSE /\ verdict' = "ok"
          /\ seen' = (k :> Obs(r)) @@ seen /\ nvar' = (k :> 1) @@ nvar
  /\ l' = l + 1

\* the sensor could not run this case (inconclusive, not a leak)
Failed == /\ l <= Len(Tr) /\ Tr[l].e \in {"Failed", "NoSensor"}
          /\ verdict' = "nosensor" /\ l' = l + 1 /\ UNCHANGED <<seen, nvar>>

Next == Observe \/ Failed
Spec == Init /\ [][Next]_vars

\* the 2-safety property, judged per observation
NonInterference == verdict # "leak"
\* vacuity: at the end every public part was observed under at least two secret variants
Exercised == l > Len(Tr) => \A k \in DOMAIN nvar : nvar[k] >= 2

TraceAccepted == TLCGet("stats").diameter - 1 = Len(Tr)
=============================================================================
