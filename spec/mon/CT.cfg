SPECIFICATION Spec
INVARIANT NonInterference Exercised
POSTCONDITION TraceAccepted
