INIT Init
NEXT Next
