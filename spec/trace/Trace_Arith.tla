---------------------------- MODULE Trace_Arith ----------------------------
(* C05 (and the value half of C14): every recorded call of the arithmetic layer is recomputed with the
   reference semantics ref/ZZ.tla, WW.tla, PP.tla, WordOps.tla (over lib/BigNat.tla, lib/GF2Poly.tla).
   One ndjson line per call (harness/drv_arith.c):
     fam  "zz" | "ww" | "pp" | "word" | "qr" | "gf2" | "pri" | "py"     family
     op   function name          ed  "def" | "safe" | "fast" (edition called by name; same specification)
     W    bits per machine word  n, m  operand lengths in words
     operands / results: arrays of 16-bit limbs (little-endian); flags and sizes: integers
     cls, alias: structural class of the case (used by the check for the violation key only)
   Lines of family "py" carry results computed by Python's integers: they validate the libraries
   themselves before they are used as the oracle. *)
EXTENDS ZZ, WW, PP, QR, PriBase, Json, IOUtils, TLC

Tr == ndJsonDeserialize(IOEnv.TRACE)

N(x) == From16(x)
\* the logged array x holds exactly the number v
IsN(x, v) == Eq(N(x), v)
\* pair <<value, word>> against two logged arrays
IsPair(x, w, p) == IsN(x, p[1]) /\ IsN(w, p[2])
Flag(i, p) == i = (IF p THEN 1 ELSE 0)
Sign(i, s) == i = s

LineZZ(r) ==
  CASE r.op = "zzIsEven"  -> Flag(r.ret, zzIsEven(N(r.a)))
    [] r.op = "zzIsOdd"   -> Flag(r.ret, zzIsOdd(N(r.a)))
    [] r.op = "zzAdd"     -> IsPair(r.c, r.ret, zzAdd(N(r.a), N(r.b), r.W, r.n))
    [] r.op = "zzAdd2"    -> IsPair(r.c, r.ret, zzAdd2(N(r.b), N(r.a), r.W, r.n))
    [] r.op = "zzAdd3"    -> IsPair(r.c, r.ret, zzAdd3(N(r.a), N(r.b), r.W, r.n, r.m))
    [] r.op = "zzAddW"    -> IsPair(r.c, r.ret, zzAddW(N(r.a), N(r.w), r.W, r.n))
    [] r.op = "zzAddW2"   -> IsPair(r.c, r.ret, zzAddW2(N(r.a), N(r.w), r.W, r.n))
    [] r.op = "zzIsSumEq" -> Flag(r.ret, zzIsSumEq(N(r.c), N(r.a), N(r.b)))
    [] r.op = "zzIsSumWEq" -> Flag(r.ret, zzIsSumWEq(N(r.b), N(r.a), N(r.w)))
    [] r.op = "zzSub"     -> IsPair(r.c, r.ret, zzSub(N(r.a), N(r.b), r.W, r.n))
    [] r.op = "zzSub2"    -> IsPair(r.c, r.ret, zzSub2(N(r.b), N(r.a), r.W, r.n))
    [] r.op = "zzSubW"    -> IsPair(r.c, r.ret, zzSubW(N(r.a), N(r.w), r.W, r.n))
    [] r.op = "zzSubW2"   -> IsPair(r.c, r.ret, zzSubW2(N(r.a), N(r.w), r.W, r.n))
    [] r.op = "zzNeg"     -> IsN(r.c, zzNeg(N(r.a), r.W, r.n))
    [] r.op = "zzMulW"    -> IsPair(r.c, r.ret, zzMulW(N(r.a), N(r.w), r.W, r.n))
    [] r.op = "zzAddMulW" -> IsPair(r.c, r.ret, zzAddMulW(N(r.b), N(r.a), N(r.w), r.W, r.n))
    [] r.op = "zzSubMulW" -> IsPair(r.c, r.ret, zzSubMulW(N(r.b), N(r.a), N(r.w), r.W, r.n))
    [] r.op = "zzMul"     -> IsN(r.c, zzMul(N(r.a), N(r.b)))
    [] r.op = "zzSqr"     -> IsN(r.c, zzSqr(N(r.a)))
    [] r.op = "zzSqrt"    -> LET s == zzSqrt(N(r.a)) IN IsN(r.c, s[1]) /\ Flag(r.ret, s[2])
    [] r.op = "zzDivW"    -> IsPair(r.c, r.ret, zzDivW(N(r.a), N(r.w)))
    [] r.op = "zzModW"    -> IsN(r.ret, zzModW(N(r.a), N(r.w)))
    [] r.op = "zzModW2"   -> IsN(r.ret, zzModW2(N(r.a), N(r.w)))
    [] r.op = "zzDiv"     -> zzDivOk(N(r.q), N(r.r), N(r.a), N(r.b))
    [] r.op = "zzMod"     -> IsN(r.r, zzMod(N(r.a), N(r.b)))
    [] r.op = "zzGCD"     -> IsN(r.c, zzGCD(N(r.a), N(r.b)))
    [] r.op = "zzIsCoprime" -> Flag(r.ret, zzIsCoprime(N(r.a), N(r.b)))
    [] r.op = "zzLCM"     -> IsN(r.c, zzLCM(N(r.a), N(r.b)))
    [] r.op = "zzExGCD"   -> zzExGCDOk(N(r.d), N(r.da), N(r.db), N(r.a), N(r.b))
    [] r.op = "zzJacobi"  -> Sign(r.ret, zzJacobi(N(r.a), N(r.b)))
    [] r.op = "zzAddMod"  -> IsN(r.c, zzAddMod(N(r.a), N(r.b), N(r.mod)))
    [] r.op = "zzAddWMod" -> IsN(r.c, zzAddWMod(N(r.a), N(r.w), N(r.mod)))
    [] r.op = "zzSubMod"  -> IsN(r.c, zzSubMod(N(r.a), N(r.b), N(r.mod)))
    [] r.op = "zzSubWMod" -> IsN(r.c, zzSubWMod(N(r.a), N(r.w), N(r.mod)))
    [] r.op = "zzNegMod"  -> IsN(r.c, zzNegMod(N(r.a), N(r.mod)))
    [] r.op = "zzMulMod"  -> IsN(r.c, zzMulMod(N(r.a), N(r.b), N(r.mod)))
    [] r.op = "zzMulWMod" -> IsN(r.c, zzMulWMod(N(r.a), N(r.w), N(r.mod)))
    [] r.op = "zzSqrMod"  -> IsN(r.c, zzSqrMod(N(r.a), N(r.mod)))
    [] r.op = "zzInvMod"  -> IsN(r.c, zzInvMod(N(r.a), N(r.mod)))
    [] r.op = "zzDivMod"  -> IsN(r.c, zzDivMod(N(r.dv), N(r.a), N(r.mod)))
    [] r.op = "zzDoubleMod" -> IsN(r.c, zzDoubleMod(N(r.a), N(r.mod)))
    [] r.op = "zzHalfMod" -> IsN(r.c, zzHalfMod(N(r.a), N(r.mod)))
    [] r.op = "zzAlmostInvMod" -> zzAlmostInvModOk(N(r.c), r.ret, N(r.a), N(r.mod))
    [] r.op = "zzRed"     -> IsN(r.c, zzRed(N(r.a), N(r.mod)))
    [] r.op = "zzRedCrand" -> IsN(r.c, zzRedCrand(N(r.a), N(r.mod)))
    [] r.op = "zzRedBarrStart" -> IsN(r.c, zzRedBarrStart(N(r.mod), r.W, r.n))
    [] r.op = "zzRedBarr" -> IsN(r.c, zzRedBarr(N(r.a), N(r.mod)))
    [] r.op = "zzRedMont" -> IsN(r.c, zzRedMont(N(r.a), N(r.mod), r.W, r.n))
    [] r.op = "zzRedCrandMont" -> IsN(r.c, zzRedCrandMont(N(r.a), N(r.mod), r.W, r.n))
    [] r.op = "zzPowerMod" -> IsN(r.c, zzPowerMod(N(r.a), N(r.b), N(r.mod)))
    [] r.op = "zzPowerModW" -> IsN(r.ret, zzPowerModW(N(r.a), N(r.b), N(r.mod)))
    [] r.op = "mont2Unity" -> IsN(r.c, zmMont2R(r.l, N(r.mod)))
    [] r.op = "mont2Mul" -> IsN(r.c, zmMont2Mul(N(r.a), N(r.b), r.l, N(r.mod)))
    [] r.op = "mont2Sqr" -> IsN(r.c, zmMont2Mul(N(r.a), N(r.a), r.l, N(r.mod)))
    [] r.op = "mont2Inv" -> IsN(r.c, zmMont2Inv(N(r.a), r.l, N(r.mod)))
    [] r.op = "mont2Div" -> IsN(r.c, zmMont2Div(N(r.dv), N(r.a), r.l, N(r.mod)))
    [] r.op = "zzRandMod" -> zzRandModOk(r.ret, N(r.c), N(r.mod), FALSE, r.tape) /\ zzRandUsedOk(r.used, N(r.mod))
    [] r.op = "zzRandNZMod" -> zzRandModOk(r.ret, N(r.c), N(r.mod), TRUE, r.tape) /\ zzRandUsedOk(r.used, N(r.mod))
    [] OTHER -> FALSE

LineWW(r) ==
  CASE r.op = "wwCopy"    -> r.c = wwCopy(r.a)
    [] r.op = "wwSwap"    -> <<r.c, r.d>> = wwSwap(r.a, r.b)
    [] r.op = "wwEq"      -> Flag(r.ret, wwEq(r.a, r.b))
    [] r.op = "wwCmp"     -> Sign(r.ret, wwCmp(r.a, r.b))
    [] r.op = "wwCmp2"    -> Sign(r.ret, wwCmp2(r.a, r.b))
    [] r.op = "wwCmpW"    -> Sign(r.ret, wwCmpW(r.a, r.w))
    [] r.op = "wwXor"     -> r.c = wwXor(r.a, r.b)
    [] r.op = "wwXor2"    -> r.c = wwXor(r.a, r.b)
    [] r.op = "wwSetZero" -> r.c = wwSetZero(Len(r.c))
    [] r.op = "wwSetW"    -> r.c = wwSetW(Len(r.c), r.w)
    [] r.op = "wwRepW"    -> r.c = wwRepW(Len(r.c), r.w)
    [] r.op = "wwIsZero"  -> Flag(r.ret, wwIsZero(r.a))
    [] r.op = "wwIsW"     -> Flag(r.ret, wwIsW(r.a, r.w))
    [] r.op = "wwIsRepW"  -> Flag(r.ret, wwIsRepW(r.a, r.w))
    [] r.op = "wwWordSize" -> r.ret = wwWordSize(r.a, r.W)
    [] r.op = "wwOctetSize" -> r.ret = wwOctetSize(r.a)
    [] r.op = "wwBitSize" -> r.ret = wwBitSize(r.a)
    [] r.op = "wwTestBit" -> Flag(r.ret, wwTestBit(r.a, r.pos))
    [] r.op = "wwGetBits" -> IsN(r.ret, wwGetBits(r.a, r.pos, r.width))
    [] r.op = "wwSetBit"  -> r.c = wwSetBit(r.a, r.pos, r.val)
    [] r.op = "wwSetBits" -> r.c = wwSetBits(r.a, r.pos, r.width, r.w)
    [] r.op = "wwFlipBit" -> r.c = wwFlipBit(r.a, r.pos)
    [] r.op = "wwLoZeroBits" -> r.ret = wwLoZeroBits(r.a)
    [] r.op = "wwHiZeroBits" -> r.ret = wwHiZeroBits(r.a)
    [] r.op = "wwShLo"    -> r.c = wwShLo(r.a, r.shift)
    [] r.op = "wwShHi"    -> r.c = wwShHi(r.a, r.shift)
    [] r.op = "wwShLoCarry" -> <<r.c, r.ret>> = wwShLoCarry(r.a, r.shift, r.w, r.W)
    [] r.op = "wwShHiCarry" -> <<r.c, r.ret>> = wwShHiCarry(r.a, r.shift, r.w, r.W)
    [] r.op = "wwTrimLo"  -> r.c = wwTrimLo(r.a, r.pos)
    [] r.op = "wwTrimHi"  -> r.c = wwTrimHi(r.a, r.pos)
    [] r.op = "wwNAF"     -> r.w >= 2 /\ r.w < r.W /\ Len(r.naf) = (2 * r.n + 1) * LW(r.W) /\ wwNAFOk(r.naf, r.ret, r.a, r.w)
    [] OTHER -> FALSE

IsP(x, p) == PEq(x, p)
LinePP(r) ==
  CASE r.op = "ppDeg"     -> r.ret = ppDeg(r.a)
    [] r.op = "ppMulW"    -> IsP(r.c \o r.ret, ppMulW(r.a, r.w))
    [] r.op = "ppAddMulW" -> IsP(r.c \o r.ret, ppAddMulW(r.b, r.a, r.w))
    [] r.op = "ppMul"     -> IsP(r.c, ppMul(r.a, r.b))
    [] r.op = "ppSqr"     -> IsP(r.c, ppSqr(r.a))
    [] r.op = "ppDiv"     -> ppDivOk(r.q, r.r, r.a, r.b)
    [] r.op = "ppMod"     -> IsP(r.r, ppMod(r.a, r.b))
    [] r.op = "ppGCD"     -> IsP(r.c, ppGCD(r.a, r.b))
    [] r.op = "ppExGCD"   -> ppExGCDOk(r.d, r.da, r.db, r.a, r.b)
    [] r.op = "ppMulMod"  -> IsP(r.c, ppMulMod(r.a, r.b, r.mod))
    [] r.op = "ppSqrMod"  -> IsP(r.c, ppSqrMod(r.a, r.mod))
    [] r.op = "ppInvMod"  -> IsP(r.c, ppInvMod(r.a, r.mod))
    [] r.op = "ppDivMod"  -> IsP(r.c, ppDivMod(r.dv, r.a, r.mod))
    [] r.op = "ppRed"     -> IsP(r.c, ppRed(r.a, r.mod))
    [] r.op = "ppRedTrinomial" -> IsP(r.c, ppRedTrinomial(r.a, r.m, r.k))
    [] r.op = "ppRedPentanomial" -> IsP(r.c, ppRedPentanomial(r.a, r.m, r.k, r.l, r.l1))
    [] r.op = "ppRedBelt" -> IsP(r.c, ppRedBelt(r.a))
    [] r.op = "ppIsIrred" -> Flag(r.ret, ppIsIrred(r.a))
    [] r.op = "ppMinPoly" -> IsP(r.c, ppMinPoly(r.a, r.l))
    [] OTHER -> FALSE

LineWord(r) ==
  CASE r.op = "word1" -> IF IsIntFn(r.fn) THEN r.ret = WordFnInt(r.fn, r.w)
                         ELSE IsWFn(r.fn) /\ r.ret = WordFnW(r.fn, r.w)
    [] r.op = "wordRot" -> r.ret = (IF r.fn = "RotHi" THEN wRotHi(r.w, r.d) ELSE wRotLo(r.w, r.d))
                           /\ r.fn \in {"RotHi", "RotLo"}
    \* 256 consecutive 16-bit inputs base..base+255 (complete enumeration of the u16 helpers);
    \* NegInv is defined for odd words only (even entries are logged as 0 and skipped)
    [] r.op = "u16blk" ->
         \A i \in 1..256 :
           LET w == <<r.base + i - 1>>
           IN IF IsIntFn(r.fn) THEN r.out[i] = WordFnInt(r.fn, w)
              ELSE IF r.fn = "NegInv" /\ w[1] % 2 = 0 THEN TRUE
              ELSE IF r.fn = "RotHi" THEN <<r.out[i]>> = wRotHi(w, r.d)
              ELSE IF r.fn = "RotLo" THEN <<r.out[i]>> = wRotLo(w, r.d)
              ELSE IsWFn(r.fn) /\ <<r.out[i]>> = WordFnW(r.fn, w)
    [] r.op = "wFrom" -> r.out = wFrom(r.octs, r.Wd)
    [] r.op = "wTo"   -> r.out = wTo(r.a, r.count)
    [] r.op = "wRev2" -> r.out = wRev2(r.a, r.Wd)
    \* comparison macros of word.h: fn = rel \o kind ("Less0M"), ret an int (kind "int") or a word (limbs)
    [] r.op = "wordCmp" -> /\ IsWordRel(r.rel) /\ r.kind \in {"int", "01", "0M"} /\ r.bits = r.W
                           /\ "word" \o r.fn = WordCmpName(r.rel, r.kind)
                           /\ Len(r.a) = LW(r.W) /\ Len(r.b) = LW(r.W)
                           /\ IF r.kind = "int" THEN WordCmpOk(r.rel, r.kind, N(r.a), N(r.b), r.ret, Zero, r.W)
                              ELSE Len(r.ret) = LW(r.W) /\ WordCmpOk(r.rel, r.kind, N(r.a), N(r.b), 0, N(r.ret), r.W)
    [] OTHER -> FALSE

\* quotient rings created by zmCreate* : elements travel as octet strings of length no (qrFrom / qrTo),
\* so the value is independent of the internal representation (Montgomery or plain)
O(x) == FromOctets(x)
IsO(x, v) == Eq(O(x), v) /\ Less(O(x), PowerOf2(8 * Len(x)))
LineQR(r) ==
  LET md == O(r.mod) IN
  CASE r.op = "qrAdd" -> IsO(r.out, AddMod(O(r.a), O(r.b), md))
    [] r.op = "qrSub" -> IsO(r.out, SubMod(O(r.a), O(r.b), md))
    [] r.op = "qrNeg" -> IsO(r.out, SubMod(Zero, O(r.a), md))
    [] r.op = "qrMul" -> IsO(r.out, MulMod(O(r.a), O(r.b), md))
    [] r.op = "qrSqr" -> IsO(r.out, MulMod(O(r.a), O(r.a), md))
    \* inverse / quotient: the header leaves the result open when a is not invertible
    [] r.op = "qrInv" -> ~Eq(GCD(O(r.a), md), One) \/ IsO(r.out, ModInv(O(r.a), md))
    [] r.op = "qrDiv" -> ~Eq(GCD(O(r.a), md), One) \/ IsO(r.out, MulMod(O(r.b), ModInv(O(r.a), md), md))
    [] r.op = "qrPower" -> IsO(r.out, ModExp(O(r.a), N(r.e), md))
    [] r.op = "qrUnity" -> IsO(r.out, Mod(One, md))
    \* qrFrom accepts exactly the canonical representatives
    [] r.op = "qrFrom" -> Flag(r.ret, Less(O(r.a), md))
    \* alias macros of qr.h, zm.h, gfp.h (ref/QR.tla); ed = edition of the callee the macro was bound to
    [] r.op = "qrAddUnity" -> IsO(r.out, qrAddUnity(O(r.a), md))
    [] r.op = "qrSubUnity" -> IsO(r.out, qrSubUnity(O(r.a), md))
    [] r.op = "qrIsUnity" -> Flag(r.ret, qrIsUnity(O(r.a), md))
    [] r.op = "qrCmp" -> IsStrat(r.strat) /\ Sign(r.ret, qrCmp(O(r.a), O(r.b), md, r.strat, r.W))
    [] r.op = "zmAdd" -> IsO(r.out, zmAdd(O(r.a), O(r.b), md))
    [] r.op = "zmSub" -> IsO(r.out, zmSub(O(r.a), O(r.b), md))
    [] r.op = "zmNeg" -> IsO(r.out, zmNeg(O(r.a), md))
    [] r.op = "zmIsIn" -> Flag(r.ret, zmIsIn(N(r.aw), md))
    [] r.op = "zmIsValid" -> Flag(r.ret, zmIsValid(N(r.top)))
    [] r.op = "gfpDouble" -> IsO(r.out, gfpDouble(O(r.a), md))
    [] r.op = "gfpHalf" -> IsOdd(md) /\ gfpHalfOk(O(r.out), O(r.a), md)
    [] OTHER -> FALSE

\* fields GF(2^m) = GF(2)[x]/(x^m + x^k [+ x^l + x^l1] + 1) created by gf2Create; elements travel as octet strings
GPoly(r) == IF r.l = 0 THEN Trinomial(r.m, r.k) ELSE Pentanomial(r.m, r.k, r.l, r.l1)
GP(x) == LimbsOfOctets(x)
IsG(x, v, r) == PEq(GP(x), v) /\ PDeg(GP(x)) < r.m
LineGF2(r) ==
  LET f == GPoly(r) IN
  CASE r.op = "qrAdd" -> IsG(r.out, PAdd(GP(r.a), GP(r.b)), r)
    [] r.op = "qrMul" -> IsG(r.out, PMulMod(GP(r.a), GP(r.b), f), r)
    [] r.op = "qrSqr" -> IsG(r.out, PMulMod(GP(r.a), GP(r.a), f), r)
    [] r.op = "qrInv" -> IsG(r.out, PInvMod(GP(r.a), f), r)
    [] r.op = "qrDiv" -> IsG(r.out, PMulMod(GP(r.b), PInvMod(GP(r.a), f), f), r)
    \* alias macros of gf2.h (ref/QR.tla)
    [] r.op = "gf2Add" -> IsG(r.out, gf2Add(GP(r.a), GP(r.b)), r)
    [] r.op = "gf2Add2" -> IsG(r.out, gf2Add(GP(r.a), GP(r.b)), r)
    [] r.op = "gf2Sub" -> IsG(r.out, gf2Sub(GP(r.a), GP(r.b)), r)
    [] r.op = "gf2Sub2" -> IsG(r.out, gf2Sub(GP(r.b), GP(r.a)), r)
    [] r.op = "gf2Neg" -> IsG(r.out, gf2Neg(GP(r.a)), r)
    [] r.op = "gf2Deg" -> r.ret = gf2Deg(r.m)
    [] r.op = "gf2IsIn" -> Flag(r.ret, gf2IsIn(r.aw, r.m))
    [] OTHER -> FALSE

\* factor base and prime extension (pri.h, ref/PriBase.tla over ref/Pri.tla)
LinePri(r) ==
  CASE r.op = "priBaseMod" -> priBaseModOk(r.mods, N(r.a), r.count, LW(r.W))
    [] r.op = "priExtendPrime" -> priExtendOk(r.ret, N(r.p), r.l, N(r.q), One, r.mustfind = 1)
    [] r.op = "priExtendPrime2" -> priExtendOk(r.ret, N(r.p), r.l, N(r.q), N(r.a), r.mustfind = 1)
    [] OTHER -> FALSE

\* self-validation of the libraries against results computed by Python's integers / bit operations
LinePy(r) ==
  CASE r.op = "add"    -> IsN(r.c, Add(N(r.a), N(r.b)))
    [] r.op = "sub"    -> IsN(r.c, Sub2(N(r.a), N(r.b)))
    [] r.op = "mul"    -> IsN(r.c, Mul(N(r.a), N(r.b)))
    [] r.op = "divmod" -> LET qr == DivMod(N(r.a), N(r.b)) IN IsN(r.q, qr[1]) /\ IsN(r.r, qr[2]) /\ DivModOk(N(r.a), N(r.b))
    [] r.op = "gcd"    -> IsN(r.c, GCD(N(r.a), N(r.b)))
    [] r.op = "inv"    -> IsN(r.c, ModInv(N(r.a), N(r.b)))
    [] r.op = "exp"    -> IsN(r.c, ModExp(N(r.a), N(r.e), N(r.b)))
    [] r.op = "sqrt"   -> IsN(r.c, Sqrt(N(r.a)))
    [] r.op = "jacobi" -> r.ret = Jacobi(N(r.a), N(r.b))
    [] r.op = "shl"    -> IsN(r.c, Shl(N(r.a), r.k))
    [] r.op = "shr"    -> IsN(r.c, Shr(N(r.a), r.k))
    [] r.op = "bitlen" -> r.ret = BitLen(N(r.a))
    [] r.op = "octets" -> ToOctets(O(r.o), Len(r.o)) = r.o /\ IsN(r.a, O(r.o))
    [] r.op = "pmul"   -> IsP(r.c, PMul(r.a, r.b))
    [] r.op = "pdivmod" -> LET qr == PDivMod(r.a, r.b) IN IsP(r.q, qr[1]) /\ IsP(r.r, qr[2]) /\ PDivModOk(r.a, r.b)
    [] r.op = "pgcd"   -> IsP(r.c, PGCD(r.a, r.b))
    [] r.op = "pexgcd" -> LET e == PExGCD(r.a, r.b) IN IsP(r.c, e[1]) /\ IsP(PAdd(PMul(r.a, e[2]), PMul(r.b, e[3])), e[1])
    [] r.op = "pinv"   -> IsP(r.c, PInvMod(r.a, r.b))
    [] r.op = "pirred" -> Flag(r.ret, PIsIrred(r.a))
    [] r.op = "pminpoly" -> IsP(r.c, PMinPolySeq(r.s))
    \* window NAF computed by the textbook algorithm in Python and encoded by the rules of ww.h; "good" = 0: a sequence
    \* that breaks one rule (value, sparsity, digit set, missing / superfluous replacement of the suffix, length)
    [] r.op = "naf"    -> wwNAFOk(r.naf, r.l, r.a, r.w) = (r.good = 1)
    [] OTHER -> FALSE

\* a call that did not return ("hang") or stopped on an assertion ("abort") has no result at all
\* ... and a call that changed a word beyond the documented length of an output ("overrun") has no admissible result
Returned(r) == ~("hang" \in DOMAIN r) /\ ~("abort" \in DOMAIN r) /\ ~("overrun" \in DOMAIN r)
LineOk(r) ==
  CASE ~Returned(r)   -> FALSE
    [] r.fam = "zz"   -> LineZZ(r)
    [] r.fam = "ww"   -> LineWW(r)
    [] r.fam = "pp"   -> LinePP(r)
    [] r.fam = "word" -> LineWord(r)
    [] r.fam = "qr"   -> LineQR(r)
    [] r.fam = "gf2"  -> LineGF2(r)
    [] r.fam = "pri"  -> LinePri(r)
    [] r.fam = "py"   -> LinePy(r)
    [] OTHER -> FALSE                      \* unknown family / op = rejected, never silently ok

VARIABLES phase, idx, ok
Init == phase = 0 /\ idx = 0 /\ ok = TRUE
Next == \/ phase = 0 /\ phase' = 1 /\ idx' \in 1..Len(Tr) /\ ok' = TRUE
        \/ phase = 1 /\ phase' = 2 /\ idx' = idx /\ ok' = LineOk(Tr[idx])
                     /\ (ok' \/ PrintT(<<"@BAD", idx>>))
=============================================================================
