SPECIFICATION TraceSpec
CONSTANTS
  Threads <- TraceThreads
  MaxCalls = 64
  Ops <- AllOps
  Lens <- TraceLens
  PublishAtomic = TRUE
  UnrefIsValid = TRUE
  InitMayFail = FALSE
  IsValidSync = FALSE
INVARIANTS Mutex OnceOnly InitComplete InitVisible RefBalance StateIffCount UseValid FullLength Distinct
POSTCONDITION TraceAccepted
