----------------------------- MODULE Trace_Bels -----------------------------
(* C13: every recorded bels call is recomputed with the reference semantics (ref/Bels.tla). *)
EXTENDS BelsStd, Json, IOUtils, TLC

Tr == ndJsonDeserialize(IOEnv.TRACE)

\* Share2 / Recover2 blocks: first octet = user number, then the share
Num(b) == b[1]
Body(b) == SubSeq(b, 2, Len(b))

LineOk(r) ==
  CASE r.op = "share" ->
         /\ r.rc = 0
         /\ r.si = Shares(r.s, r.m0, r.mi, r.k)
         \* the algorithm draws k, (threshold - 1) * len octets, from the caller's generator - no more, no less
         /\ (("drawn" \in DOMAIN r) => r.drawn = (r.thr - 1) * r.len)
    [] r.op = "recover" ->
         /\ r.rc = 0
         /\ r.out = Recover(r.si, r.m0, r.mi)
         \* the property itself: any subset of at least threshold shares, in any order, gives the secret
         /\ (Len(r.si) >= r.thr => r.out = r.secret)
    [] r.op = "share2" ->
         /\ r.rc = 0
         /\ \A i \in 1..r.count : Num(r.si[i]) = i
         /\ [i \in 1..r.count |-> Body(r.si[i])]
              = Shares(r.s, StdM(r.len, 0), [i \in 1..r.count |-> StdM(r.len, i)], r.k)
    [] r.op = "recover2" ->
         /\ r.rc = 0
         /\ r.out = Recover([i \in 1..Len(r.si) |-> Body(r.si[i])], StdM(r.len, 0),
                            [i \in 1..Len(r.si) |-> StdM(r.len, Num(r.si[i]))])
         /\ r.out = r.secret
    [] r.op = "genmid" -> r.rc = 0 /\ r.det /\ r.out = GenMid(r.m0, r.id)
    [] r.op = "genmi" -> LET g == GenMi(r.m0, r.tape) IN
                           IF g[1] THEN r.rc = 0 /\ r.out = g[2] ELSE r.rc # 0
    \* an invalid common key (reducible polynomial): an error, and the specification agrees that it is invalid.
    \* genmid may by chance still find a degree-l minimal polynomial over a reducible f0: only genmi's documented
    \* ERR_BAD_PUBKEY / ERR_BAD_ANG outcome is demanded, genmid must just answer
    [] r.op = "genmi_badm0" -> ~ValM(r.m0) /\ r.rc # 0
    [] r.op = "genmid_badm0" -> ~ValM(r.m0)
    [] r.op = "valm" -> (r.rc = 0) = ValM(r.m)
    [] OTHER -> FALSE

VARIABLES phase, idx, ok
Init == phase = 0 /\ idx = 0 /\ ok = TRUE
Next == \/ phase = 0 /\ phase' = 1 /\ idx' \in 1..Len(Tr) /\ ok' = TRUE
        \/ phase = 1 /\ phase' = 2 /\ idx' = idx /\ ok' = LineOk(Tr[idx])
                     /\ (ok' \/ PrintT(<<"@BAD", idx>>))
=============================================================================
