INIT Init
NEXT Next
