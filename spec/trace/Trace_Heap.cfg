SPECIFICATION TraceSpec
CONSTANTS
  Blocks <- TBlocks
  Sizes <- TSizes
  Funcs <- TFuncs
  SecretFuncs <- TraceSecretFuncs
  Errs <- TErrs
INVARIANT TypeOK TE3 TE4 TW TWEnd TNoBadFree FailAtExact
POSTCONDITION TraceAccepted
