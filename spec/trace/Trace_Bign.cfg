INIT Init
NEXT Next
