INIT Init
NEXT Next
