----------------------------- MODULE Trace_Misc -----------------------------
(* API completion, miscellaneous group (driver harness/drv_misc.c, suite "misc" of C07 / C19).
   Pattern F: every recorded call is recomputed with the reference semantics.

     stb       prngSTBStart + prngSTBStepR in fragments      ref/PrngSTB  (STB 1176.2-99, 7.2.2)
     echo      prngEchoStart + prngEchoStepR in fragments    ref/PrngSTB  (prng.h)
     combo     prngCOMBOStart + prngCOMBOStepR               gen_i: the fragmented stream = the one-shot stream
     fips      rngTestFIPS1..4 on one 2500-octet buffer      ref/FipsTests (rng.h / FIPS 140-2)
     bashNNN   bash256 / bash384 / bash512 macro families    ref/BashF  (bashHash with l = NNN / 2)
     prg       one-call automaton commands bashPrgAbsorb / Squeeze / Encr / Decr and their
               Start + Step forms                            sm/BashPrg (commit + duplex)
     tmDate, tmDate2, tmTime, tmTimeRound                    ref/CalDate over a stubbed clock

   The chunked output of a generator must equal the output the definition gives for the total
   length (property C10's statement for the gen_i bundles).  Every line also carries the class
   the driver intended (cls / want): the class claim is verified on the data, so an edge of an
   acceptance interval that the driver failed to hit is a rejected line, not a silent gap. *)
EXTENDS BashPrg, PrngSTB, FipsTests, CalDate, Json, IOUtils, TLC

\* anchors of the reference modules, re-evaluated at every start (cheap); the full set is spec/ref/MiscVectors
ASSUME STBVectorOk
ASSUME CalAnchors

Tr == ndJsonDeserialize(IOEnv.TRACE)

B01(p) == IF p THEN 1 ELSE 0
Sum(xs) == FoldLeft(LAMBDA a, x : a + x, 0, xs)
Has(r, f) == f \in DOMAIN r

\* ---- generators
StbOk(r) ==
  LET z == IF r.znull = 1 THEN DefaultZ ELSE r.z IN
  /\ r.znull = 1 \/ ZOk(r.z)                                   \* the driver stays inside the precondition
  /\ \A i \in 1..Len(r.frags) : r.frags[i] >= 0
  /\ Len(r.out) = Sum(r.frags)
  /\ r.out = STBOut(z, Len(r.out))
EchoOk(r) ==
  /\ Len(r.seed) > 0
  /\ Len(r.out) = Sum(r.frags)
  /\ r.out = EchoOut(r.seed, Len(r.out))
\* COMBO: the header gives no recurrence to transcribe (it cites Marsaglia; see ref/PrngSTB and the
\* report); what it does state is the interface gen_i: the stream does not depend on the fragmentation
ComboOk(r) ==
  /\ Len(r.out) = Sum(r.frags)
  /\ Len(r.one) = Len(r.out)
  /\ r.out = r.one

\* ---- FIPS tests: res = <<FIPS1, FIPS2, FIPS3, FIPS4>>; want = the statistic the driver aimed at
FipsClassOk(r, st) ==
  CASE r.cls = "ones"   -> st.ones = r.want[1]
    [] r.cls = "poker"  -> st.poker = r.want[1]
    [] r.cls = "runs"   -> st.runs[r.want[1]][r.want[2]] = r.want[3]            \* bit, length class, count
                           /\ \A b \in 0..1 : \A j \in 1..6 :                    \* every other count strictly inside
                                 <<b, j>> # <<r.want[1], r.want[2]>> => RunLo[j] < st.runs[b][j] /\ st.runs[b][j] < RunHi[j]
                           /\ st.longest < 26
    [] r.cls = "long"   -> /\ st.longest = r.want[2]                             \* bit, length, first bit number
                           /\ \A p \in (r.want[3] + 1)..(r.want[3] + r.want[2]) : Bits(r.buf)[p] = r.want[1]
    [] r.cls = "rand"   -> TRUE
    [] OTHER -> FALSE
FipsOk(r) ==
  LET st == Stats(r.buf) IN
  /\ Len(r.buf) = NOctets
  /\ r.res = <<B01(Pass1(st)), B01(Pass2(st)), B01(Pass3(st)), B01(Pass4(st))>>
  /\ FipsClassOk(r, st)

\* ---- bash256 / bash384 / bash512
BashNNNOk(r) ==
  LET lv == r.nnn \div 2 IN
  /\ r.nnn \in {256, 384, 512}
  /\ CASE r.via = "Hash"  -> r.err = "OK" /\ r.out = BashHash(lv, r.in)
       [] r.via = "Steps" -> /\ Len(r.in) = Sum(r.frags)
                             /\ r.g1 = BashHash(lv, TakeN(r.in, r.pre))      \* StepG, hashing goes on
                             /\ r.g2 = BashHashN(lv, r.in, r.hlen)           \* StepG2
                             /\ r.g = BashHash(lv, r.in)                     \* StepG
                             /\ r.v = 1 /\ r.vbad = 0                        \* StepV: right / corrupted
                             /\ r.v2 = 1 /\ r.v2bad = 0                      \* StepV2: right prefix / corrupted
       [] OTHER -> FALSE

\* ---- one-call commands of the automaton: a command = commit(code) + duplex from position 0
PrgSt(r) == [s |-> StartS(r.l, r.d, r.ann, r.key), pos |-> 1 + Len(r.ann) + Len(r.key),
             b |-> BufLen(r.l, r.d, Len(r.key) # 0)]
PrgCmd(st, code, mode, X) ==
  LET q == Duplex(CommitS(st.s, st.pos, st.b, code), 0, st.b, X, mode)
  IN [s |-> q.s, pos |-> q.pos, b |-> st.b, out |-> q.out]
PrgOk(r) ==
  LET st0 == PrgSt(r)
      a1 == PrgCmd(st0, CodeDATA, "absorb", r.a)
  IN /\ r.l \in Levels /\ r.d \in Caps /\ AnnOk(r.ann) /\ KeyOk(r.key, r.l)
     /\ r.buflen = st0.b
     /\ IF Len(r.key) # 0
        THEN LET e1 == PrgCmd(a1, CodeTEXT, "encr", r.x1)
                 e2 == PrgCmd(e1, CodeTEXT, "encr", r.x2)
                 q == PrgCmd(e2, CodeOUT, "squeeze", Zeros(r.n))
                 d1 == PrgCmd(a1, CodeTEXT, "decr", r.y1)
                 d2 == PrgCmd(d1, CodeTEXT, "decr", r.y2)
                 dq == PrgCmd(d2, CodeOUT, "squeeze", Zeros(r.n))
             IN /\ r.y1 = e1.out /\ r.y2 = e2.out /\ r.t = q.out /\ r.s = q.s /\ r.pos = q.pos
                /\ r.dx1 = d1.out /\ r.dx2 = d2.out /\ r.dt = dq.out /\ r.ds = dq.s /\ r.dpos = dq.pos
                /\ r.dx1 = r.x1 /\ r.dx2 = r.x2 /\ r.dt = r.t             \* decryption inverts, same automaton
                /\ r.sy1 = r.y1 /\ r.sy2 = r.y2 /\ r.st = r.t /\ r.ss = r.s /\ r.spos = r.pos   \* Start + Step forms
        ELSE LET a2 == PrgCmd(a1, CodeDATA, "absorb", r.x1)
                 q1 == PrgCmd(a2, CodeOUT, "squeeze", Zeros(r.n))
                 q2 == PrgCmd(q1, CodeOUT, "squeeze", Zeros(Len(r.x2)))
             IN /\ r.t = q1.out /\ r.y2 = q2.out /\ r.s = q2.s /\ r.pos = q2.pos
                /\ r.st = r.t /\ r.sy2 = r.y2 /\ r.ss = r.s /\ r.spos = r.pos

\* ---- date and time over the stubbed clock: time stamp = days * 86400 + sod, zone off seconds east
TmDateOk(r) ==
  IF r.fail = 1 THEN r.rc = 0
  ELSE LET dt == LocalDate(r.days, r.sod, r.off) IN
       /\ r.rc = 1
       /\ (r.mask \div 4) % 2 = 1 => r.y = dt[1]
       /\ (r.mask \div 2) % 2 = 1 => r.m = dt[2]
       /\ r.mask % 2 = 1 => r.d = dt[3]
TmDate2Ok(r) ==
  IF r.fail = 1 THEN r.rc = 0
  ELSE LET dt == LocalDate(r.days, r.sod, r.off) IN
       IF dt[1] \in 2000..2099 THEN r.rc = 1 /\ r.date = YYMMDD(dt)
       ELSE r.rc = 0                                  \* the format holds years of the 21st century only
TmTimeOk(r) == IF r.fail = 1 THEN r.err = 1 ELSE r.err = 0 /\ r.rdays = r.days /\ r.rsod = r.sod
\* (tmTime() - t0) / ts; errors: ts = 0, tmTime() < t0 (t0 >= 0 here, so a failed clock is an error as well)
TmRoundOk(r) ==
  LET diff == ((r.days - r.days0) * 86400) + (r.sod - r.sod0) IN
  /\ r.days - r.days0 < 24000 /\ r.days0 - r.days < 24000
  /\ IF r.fail = 1 \/ r.ts = 0 \/ diff < 0 THEN r.err = 1
     ELSE r.err = 0 /\ r.q = diff \div r.ts

LineOk(r) ==
  CASE r.op = "stb"     -> StbOk(r)
    [] r.op = "echo"    -> EchoOk(r)
    [] r.op = "combo"   -> ComboOk(r)
    [] r.op = "fips"    -> FipsOk(r)
    [] r.op = "bashNNN" -> BashNNNOk(r)
    [] r.op = "prg"     -> PrgOk(r)
    [] r.op = "tmDate"  -> TmDateOk(r)
    [] r.op = "tmDate2" -> TmDate2Ok(r)
    [] r.op = "tmTime"  -> TmTimeOk(r)
    [] r.op = "tmTimeRound" -> TmRoundOk(r)
    [] OTHER -> FALSE

VARIABLES phase, idx, ok
FInit == Init /\ phase = 0 /\ idx = 0 /\ ok = TRUE
FNext == /\ UNCHANGED vars
         /\ \/ phase = 0 /\ phase' = 1 /\ idx' \in 1..Len(Tr) /\ ok' = TRUE
            \/ phase = 1 /\ phase' = 2 /\ idx' = idx /\ ok' = LineOk(Tr[idx])
                         /\ (ok' \/ PrintT(<<"@BAD", idx>>))
=============================================================================
