INIT FInit
NEXT FNext
