INIT FInit
NEXT FNext
