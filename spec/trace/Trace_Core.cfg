INIT Init
NEXT Next
