INIT Init
NEXT Next
