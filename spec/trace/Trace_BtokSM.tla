---------------------------- MODULE Trace_BtokSM ----------------------------
(* C17, Pattern S: recorded secure-messaging dialogues (harness/drv_btok.c, modes sm_record and the
   verbose behaviours of sm_replay) are replayed through the actions of sm/BtokSM.tla.  Every logged
   field is bound: the peer's counter before and after the call, the return code (must be one the
   specification admits in that state), the protected code (value, by Part 1 of BtokSM), the octets
   handed to Unwrap (must be the code in flight), the recovered APDU, the class of an alteration
   (recomputed from the position).  Reset lines start a new dialogue.                           *)
EXTENDS BtokSM, Json, IOUtils

Tr == ndJsonDeserialize(IOEnv.TRACE)
VARIABLES l,          \* next line
          key,        \* the session key of the dialogue
          bytes,      \* octets of the code in flight
          orig        \* the APDU it protects
tvars == <<smvars, l, key, bytes, orig>>

CtrOf(n) == LE(n, 16)                            \* dialogues are short: the counters stay below 2^31
R == Tr[l]
IsEvent(e, op) == /\ l <= Len(Tr) /\ Tr[l].e = e /\ (e = "Op" => Tr[l].op = op) /\ l' = l + 1
Actor(p) == /\ R.peer = p /\ R.key = key /\ R.ctr = CtrOf(ctr[p])

TraceInit == /\ l = 1 /\ SMInit /\ key = <<>> /\ bytes = <<>> /\ orig = <<>>

TraceReset == /\ IsEvent("Reset", "")
              /\ R.ctrT = CtrOf(0) /\ R.ctrC = CtrOf(0)          \* btokSMStart: the counter starts at zero
              /\ ctr' = [p \in Peers |-> 0] /\ chan' = NoMsg /\ last' = NoOp
              /\ key' = R.key /\ bytes' = <<>> /\ orig' = <<>>

TraceInc == /\ IsEvent("Op", "inc")
            /\ \E p \in Peers : Actor(p) /\ CtrInc(p) /\ R.ctr2 = CtrOf(ctr'[p])
            /\ UNCHANGED <<key, bytes, orig>>

TraceCmdWrap ==
  /\ IsEvent("Op", "cmdW") /\ Actor("T") /\ ~HasProtBit(R.cmd.cla)
  /\ CmdWrap("T", Len(R.cmd.cdf) > 0)
  /\ R.rc \in last'.rcs /\ R.ctr2 = R.ctr
  /\ IF R.rc = "OK"
     THEN /\ R.apdu = SMCmdProt(R.cmd, SMKeys(key), R.ctr) /\ R.count = Len(R.apdu)
          /\ bytes' = R.apdu /\ orig' = R.cmd
     ELSE UNCHANGED <<bytes, orig>>
  /\ UNCHANGED key
TraceRespWrap ==
  /\ IsEvent("Op", "respW") /\ Actor("C")
  /\ RespWrap("C", Len(R.resp.rdf) > 0)
  /\ R.rc \in last'.rcs /\ R.ctr2 = R.ctr
  /\ IF R.rc = "OK"
     THEN /\ R.apdu = SMRespProt(R.resp, SMKeys(key), R.ctr) /\ R.count = Len(R.apdu)
          /\ bytes' = R.apdu /\ orig' = R.resp
     ELSE UNCHANGED <<bytes, orig>>
  /\ UNCHANGED key

\* what the recovered APDU must be, given the model's verdict on equality
RecoveredOk(out, dataLen) ==
  /\ (last'.same = "yes" => out = orig)
  /\ ((last'.same = "no" /\ dataLen >= 8) => out # orig)     \* other counter: other plaintext (up to 2^-64)

TraceCmdUnwrap ==
  /\ IsEvent("Op", "cmdU") /\ Actor("C") /\ R.apdu = bytes
  /\ CmdUnwrap("C")
  /\ R.rc \in last'.rcs /\ R.ctr2 = R.ctr
  /\ (chan.alt # "S" => R.rcf = "OK")                      \* format-only call: only structural alterations can fail it
  /\ (R.rc = "OK" => /\ R.out = SMCmdUnprot(bytes, SMKeys(key), R.ctr).cmd /\ R.sizeok
                     /\ RecoveredOk(R.out, Len(orig.cdf)))
  /\ UNCHANGED <<key, bytes, orig>>
TraceRespUnwrap ==
  /\ IsEvent("Op", "respU") /\ Actor("T") /\ R.apdu = bytes
  /\ RespUnwrap("T")
  /\ R.rc \in last'.rcs /\ R.ctr2 = R.ctr
  /\ (chan.alt # "S" => R.rcf = "OK")
  /\ (R.rc = "OK" => /\ R.out = SMRespUnprot(bytes, SMKeys(key), R.ctr).resp /\ R.sizeok
                     /\ RecoveredOk(R.out, Len(orig.rdf)))
  /\ UNCHANGED <<key, bytes, orig>>

TraceAlter ==
  /\ IsEvent("Op", "alter")
  /\ R.kind = chan.kind /\ R.pos \in 1..Len(bytes) /\ R.mask \in 1..255
  /\ R.cls = (IF chan.kind = "cmd" THEN CmdPosClass(bytes, R.pos) ELSE RespPosClass(bytes, R.pos))
  /\ (chan.kind = "cmd" /\ R.pos = 1 => R.mask = 4)           \* CLA: only the protection bit is a structural octet
  /\ Alter(R.cls)
  /\ bytes' = FlipAt(bytes, R.pos, R.mask) /\ R.apdu = bytes'
  /\ UNCHANGED <<key, orig>>

TraceNext == \/ TraceReset \/ TraceInc \/ TraceCmdWrap \/ TraceRespWrap
             \/ TraceCmdUnwrap \/ TraceRespUnwrap \/ TraceAlter
TraceSpec == TraceInit /\ [][TraceNext]_tvars

TraceAccepted ==
  LET d == TLCGet("stats").diameter IN
  IF d - 1 = Len(Tr) THEN TRUE
  ELSE /\ PrintT(<<"@REJECT", d>>) /\ FALSE
=============================================================================
