----------------------------- MODULE Trace_MemSF -----------------------------
(* C14 part 1 for the memory / hex pairs: both editions of memEq, memCmp, memCmpRev, memIsZero, memIsRep,
   hexEq, hexEqRev against ONE definition (mem.h / hex.h):
     memEq      a = b
     memCmp     sign of the first difference from the LOW end (lexicographic order of octet strings)
     memCmpRev  sign of the first difference from the HIGH end (order of little-endian numbers)
     hexEq(a, hex(b)) = (a = b), hexEqRev(a, hexRev(b)) = (a = b)                                  *)
EXTENDS Bytes, Json, IOUtils, TLC

Tr == ndJsonDeserialize(IOEnv.TRACE)
Sign(x, y) == IF x < y THEN -1 ELSE IF x > y THEN 1 ELSE 0
CmpLow(a, b) == FoldLeft(LAMBDA acc, i : IF acc # 0 THEN acc ELSE Sign(a[i], b[i]), 0, Upto(Len(a)))
CmpHigh(a, b) == FoldLeft(LAMBDA acc, i : IF acc # 0 THEN acc ELSE Sign(a[Len(a) + 1 - i], b[Len(a) + 1 - i]), 0, Upto(Len(a)))
B01(p) == IF p THEN 1 ELSE 0

LineOk(r) ==
  /\ r.ed \in {"safe", "fast"}
  /\ CASE r.op = "memEq"     -> r.res = B01(r.a = r.b)
       [] r.op = "memCmp"    -> r.res = CmpLow(r.a, r.b)
       [] r.op = "memCmpRev" -> r.res = CmpHigh(r.a, r.b)
       [] r.op = "memIsZero" -> r.res = B01(\A i \in 1..Len(r.a) : r.a[i] = 0)
       [] r.op = "memIsRep"  -> r.res = B01(\A i \in 1..Len(r.a) : r.a[i] = r.o)
       [] r.op = "hexEq"     -> r.res = B01(r.a = r.b)
       [] r.op = "hexEqRev"  -> r.res = B01(r.a = r.b)
       [] OTHER -> FALSE

VARIABLES phase, idx, ok
Init == phase = 0 /\ idx = 0 /\ ok = TRUE
Next == \/ phase = 0 /\ phase' = 1 /\ idx' \in 1..Len(Tr) /\ ok' = TRUE
        \/ phase = 1 /\ phase' = 2 /\ idx' = idx /\ ok' = LineOk(Tr[idx])
                     /\ (ok' \/ PrintT(<<"@BAD", idx>>))
=============================================================================
