INIT Init
NEXT Next
