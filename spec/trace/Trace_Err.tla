----------------------------- MODULE Trace_Err -----------------------------
(* C09, record direction (Pattern F): every result line of harness/drv_err.c is judged against
   spec/sm/ErrContract.tla.
     op "sweep"  E1: the error class of the real call agrees with the header's \expect clauses
                 evaluated by TLC on the LOGGED arguments; outputs untouched on a domain error
     op "fault"  the k-th allocation failed => rc # OK; nothing live at return; no failure => OK
                 (the allocator events of the same runs are stepped through sm/Heap.tla by
                 trace/Trace_Heap.tla; this line-level judgement is the cheap cross-check)
     op "auth"   E2: tampered input of an unwrap/verify function: an authentication error class,
                 output = pre-image or zeros, plaintext of the correct call absent            *)
EXTENDS ErrContract, IOUtils

Tr == ndJsonDeserialize(IOEnv.TRACE)

\* follow-up probe of a persistent object (the shared generator): after the call - failed or not - the object is in the
\* state its header promises (absent after a failed creation, creatable again, valid exactly between Create and Close)
ProbeOk(r) == ("probe" \in DOMAIN r) => r.probe = 1
FaultOk(r) == /\ (r.failed > 0) => (r.rc # 0)
              /\ (r.failed = 0) => (r.rc = 0)
              /\ r.live = 0
              /\ ProbeOk(r)

LineOk(r) ==
  CASE r.op = "sweep" -> r.fn \in DrivenFns /\ r.called /\ E1(r.fn, r.a, r.rc, r.touched) /\ r.live = 0 /\ ProbeOk(r)
    [] r.op = "fault" -> r.fn \in DrivenFns /\ r.called /\ FaultOk(r)
    [] r.op = "auth"  -> r.fn \in DrivenFns /\ r.called /\ r.tamper \in Contract(r.fn).tamper
                         /\ E2(r.fn, r.rc, r.pre, r.post, r.plain) /\ r.live = 0
    [] OTHER -> FALSE

VARIABLES phase, idx, ok
Init == phase = 0 /\ idx = 0 /\ ok = TRUE
Next == \/ phase = 0 /\ phase' = 1 /\ idx' \in 1..Len(Tr) /\ ok' = TRUE
        \/ phase = 1 /\ phase' = 2 /\ idx' = idx /\ ok' = LineOk(Tr[idx])
                     /\ (ok' \/ PrintT(<<"@BAD", idx>>))
=============================================================================
