SPECIFICATION TraceSpec
CONSTANT T <- TraceT
INVARIANT TypeOK R1 R4b R6
PROPERTY TR2 TR2b TR3 TR4 TR4c TR5 TR8
POSTCONDITION TraceAccepted
