SPECIFICATION TSpec
CONSTANTS
  OtpH <- HotpRef
  OtpO <- OcraRef
INVARIANT TypeOK CtrShape OtpShape SessShape
PROPERTY TP_FailKeeps TP_CtrMoves TP_Consumes TP_GetPure TP_GetCtr
POSTCONDITION TraceAccepted
