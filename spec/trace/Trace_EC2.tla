------------------------------ MODULE Trace_EC2 ------------------------------
(* C06, record direction, binary curves (and the value side of C07 / C19 for the ec2 suite): every line logged by
   harness/drv_ec2.c `record` is self-contained (field polynomial [m, k, l, l1], A, B and all operands as 16-bit limbs)
   and is recomputed with the reference semantics ref/EC2.tla over GF(2)[x]/(F) (ref/EC2Big.tla), or - for the standard
   DSTU curves, where a full scalar multiplication costs seconds - checked against a LAW that relates recorded results:
     pair / unary    R = P + Q, P - Q, -P, 2P, P  (operands must be points of the curve)
     mulsub ...      on a group of small known order ord (TLC checks ord P = O): d P = (d mod ord) P
     ison            the curve equation; coordinates outside the field (degree >= m) => FALSE
     group           ec2IsValid <=> B # 0 and F irreducible; base point on the curve; ec2SeemsValidGroup <=> Hasse bound
     mul             R = d P by the Lopez-Dahab evaluation of ScalarMul (few lines: "heavy")
     law_succ        e = d + 1  and  R2 = R1 + P           ((k+1)P = kP + P)
     law_neg         d + e = q  and  R2 = -R1              ((q-k)P = -kP)
     law_order       q G = O is reported as FALSE by ecMulA and TRUE by ecHasOrderA
     law_addmul      ecAddMulA's result = R1 + R2 of the two recorded multiples *)
EXTENDS BigNat, GF2Poly, Json, IOUtils, TLC

E2B == INSTANCE EC2Big

Tr == ndJsonDeserialize(IOEnv.TRACE)

Fd(r) == E2B!BField(r.poly[1], r.poly[2], r.poly[3], r.poly[4])
Cv(r) == E2B!BCurve(Fd(r), r.A, r.B)
Pt(v) == E2B!BPt(v)

PairOk(r) ==
  LET e == Cv(r)  P == Pt(r.P)  Q == Pt(r.Q)
  IN /\ E2B!IsPoint(e, P) /\ E2B!IsPoint(e, Q)
     /\ CASE r.f \in {"addLD", "addALD", "addAA"} -> Pt(r.R) = E2B!EAdd(e, P, Q)
          [] r.f \in {"subLD", "subALD", "subAA"} -> Pt(r.R) = E2B!ESub(e, P, Q)
          [] OTHER -> FALSE
UnaryOk(r) ==
  LET e == Cv(r)  P == Pt(r.P)
  IN /\ E2B!IsPoint(e, P)
     /\ CASE r.f \in {"negLD", "negA"} -> Pt(r.R) = E2B!ENeg(e, P)
          [] r.f \in {"dblLD", "dblALD"} -> Pt(r.R) = E2B!EDbl(e, P)
          [] r.f = "fromAtoA" -> Pt(r.R) = P
          [] OTHER -> FALSE
\* P lies in a group of order dividing ord
InGroup(e, P, ord) == E2B!IsPoint(e, P) /\ E2B!IsO(E2B!ScalarMul(e, OfInt(ord), P))
MulSubOk(r) ==
  LET e == Cv(r)  P == Pt(r.P)
  IN InGroup(e, P, r.ord) /\ Pt(r.R) = E2B!ScalarMul(e, Mod(From16(r.d), OfInt(r.ord)), P)
\* ec.h: TRUE iff d P = O; when d is a proper multiple of the order of P (d composite) both answers are admitted
HasOrderSubOk(r) ==
  LET e == Cv(r)  P == Pt(r.P)  d == Norm(From16(r.d))
      ms == E2B!MulSeq(e, P, r.ord)                                     \* <<0P, .., ord P>>
      isO == E2B!IsO(ms[ToInt(Mod(d, OfInt(r.ord))) + 1])
      exact == \A k \in 1..r.ord : (E2B!IsO(ms[k + 1]) /\ \A j \in 1..(k - 1) : ~E2B!IsO(ms[j + 1])) => d = OfInt(k)
  IN /\ E2B!IsPoint(e, P) /\ E2B!IsO(ms[r.ord + 1]) /\ ~E2B!IsO(P)
     /\ (~isO => r.res = FALSE)
     /\ ((isO /\ exact) => r.res = TRUE)
AddMulSubOk(r) ==
  LET e == Cv(r)  P == Pt(r.P)  Q == Pt(r.Q)
  IN /\ InGroup(e, P, r.ord) /\ InGroup(e, Q, r.ord)
     /\ Pt(r.R) = E2B!EAdd(e, E2B!ScalarMul(e, Mod(From16(r.d), OfInt(r.ord)), P), E2B!ScalarMul(e, OfInt(r.e % r.ord), Q))
IsOnOk(r) == r.res = E2B!IsOnCurve(Cv(r), PNorm(r.x), PNorm(r.y))
\* ec2.h ec2SeemsValidGroup: order # 0, cofactor # 0, |order * cofactor - (2^m + 1)| <= 2^(m/2 + 1), base point on the curve
HasseOk(q, c, m) == Leq(Sqr(AbsDiff(Mul(q, OfInt(c)), Add(PowerOf2(m), One))), PowerOf2(m + 2))
GroupOk(r) ==
  LET e == Cv(r)  q == Norm(From16(r.q))
  IN /\ ("valid" \in DOMAIN r) => (r.valid = (E2B!IsNonSingular(e) /\ PIsIrred(e.f.F)))      \* logged for the genuine order only
     /\ r.ison = E2B!IsPoint(e, Pt(r.P))
     /\ r.seems = (r.ison /\ ~IsZero(q) /\ r.cof > 0 /\ HasseOk(q, r.cof, e.f.m))
MulOk(r) ==
  LET e == Cv(r)  P == Pt(r.P)
  IN E2B!IsPoint(e, P) /\ Pt(r.R) = E2B!ScalarMulLD(e, Norm(From16(r.d)), P)
LawSuccOk(r) ==
  LET e == Cv(r)  P == Pt(r.P)  R1 == Pt(r.R1)  R2 == Pt(r.R2)
  IN /\ E2B!IsPoint(e, P) /\ E2B!IsPoint(e, R1) /\ E2B!IsPoint(e, R2)
     /\ Eq(From16(r.e), Add(From16(r.d), One))
     /\ R2 = E2B!EAdd(e, R1, P)
LawNegOk(r) ==
  LET e == Cv(r)  R1 == Pt(r.R1)  R2 == Pt(r.R2)
  IN /\ E2B!IsPoint(e, R1) /\ E2B!IsPoint(e, R2) /\ E2B!IsPoint(e, Pt(r.P))
     /\ Eq(Add(From16(r.d), From16(r.e)), From16(r.q)) /\ ~IsZero(From16(r.d)) /\ ~IsZero(From16(r.e))
     /\ R2 = E2B!ENeg(e, R1)
LawOrderOk(r) == r.mul_affine = FALSE /\ r.hasorder = TRUE /\ r.mul_affine_m1 = FALSE /\ E2B!IsPoint(Cv(r), Pt(r.P))
LawAddMulOk(r) ==
  LET e == Cv(r)
  IN E2B!IsPoint(e, Pt(r.R1)) /\ E2B!IsPoint(e, Pt(r.R2)) /\ Pt(r.R) = E2B!EAdd(e, Pt(r.R1), Pt(r.R2))

LineOk(r) ==
  CASE r.op = "pair" -> PairOk(r)
    [] r.op = "unary" -> UnaryOk(r)
    [] r.op = "mulsub" -> MulSubOk(r)
    [] r.op = "hasordersub" -> HasOrderSubOk(r)
    [] r.op = "addmulsub" -> AddMulSubOk(r)
    [] r.op = "ison" -> IsOnOk(r)
    [] r.op = "group" -> GroupOk(r)
    [] r.op = "mul" -> MulOk(r)
    [] r.op = "law_succ" -> LawSuccOk(r)
    [] r.op = "law_neg" -> LawNegOk(r)
    [] r.op = "law_order" -> LawOrderOk(r)
    [] r.op = "law_addmul" -> LawAddMulOk(r)
    [] OTHER -> FALSE

VARIABLES phase, idx, ok
Init == phase = 0 /\ idx = 0 /\ ok = TRUE
Next == \/ phase = 0 /\ phase' = 1 /\ idx' \in 1..Len(Tr) /\ ok' = TRUE
        \/ phase = 1 /\ phase' = 2 /\ idx' = idx /\ ok' = LineOk(Tr[idx])
                     /\ (ok' \/ PrintT(<<"@BAD", idx>>))
=============================================================================
