----------------------------- MODULE Trace_Btok -----------------------------
(* C17, Pattern F: every recorded call of the token layer is judged on its own with the reference
   semantics: secure messaging values (sm/BtokSM.tla part 1 over ref/BeltModes + ref/Codecs).
   Lines: e = "Reset" | "Op" | "Res"; Op lines carry op, key, ctr (counter before the call), inputs,
   outputs, rc (name of the err_t), ctr2 (counter after the call).                              *)
EXTENDS BtokSM, CvcChain, Json, IOUtils
BC == INSTANCE BtokCurves

Tr == ndJsonDeserialize(IOEnv.TRACE)

SmLineOk(r) ==
  LET K == SMKeys(r.key) IN
  CASE r.op = "inc"   -> r.ctr2 = CtrNext(r.ctr)
    [] r.op = "cmdW"  ->
         /\ r.ctr2 = r.ctr
         /\ IF HasProtBit(r.cmd.cla) THEN r.rc = "BAD_APDU"            \* already protected
            ELSE /\ r.rc \in Admissible(TRUE, CtrOdd(r.ctr), TRUE)
                 /\ (r.rc = "OK" => (r.apdu = SMCmdProt(r.cmd, K, r.ctr) /\ r.count = Len(r.apdu)))
    [] r.op = "cmdU"  ->
         LET u == SMCmdUnprot(r.apdu, K, r.ctr) IN
         /\ r.ctr2 = r.ctr
         /\ r.rcf = (IF u.fmt THEN "OK" ELSE "BAD_APDU")               \* format-only call (cmd = 0)
         /\ r.rc \in Admissible(u.fmt, CtrOdd(r.ctr), u.mac)
         /\ (r.rc = "OK" => (r.out = u.cmd /\ r.sizeok))
    [] r.op = "respW" ->
         /\ r.ctr2 = r.ctr
         /\ r.rc \in Admissible(TRUE, ~CtrOdd(r.ctr), TRUE)
         /\ (r.rc = "OK" => (r.apdu = SMRespProt(r.resp, K, r.ctr) /\ r.count = Len(r.apdu)))
    [] r.op = "respU" ->
         LET u == SMRespUnprot(r.apdu, K, r.ctr) IN
         /\ r.ctr2 = r.ctr
         /\ r.rcf = (IF u.fmt THEN "OK" ELSE "BAD_APDU")
         /\ r.rc \in Admissible(u.fmt, ~CtrOdd(r.ctr), u.mac)
         /\ (r.rc = "OK" => (r.out = u.resp /\ r.sizeok))
    [] r.op = "alter" -> TRUE                                           \* the attacker's move: no claim
    [] OTHER -> FALSE

\* a certificate issued by a root, with one octet altered (mask # 0) or not (mask = 0):
\*   with the issuer's key (Unwrap, Val, Val2) an altered certificate is never accepted: the signature
\*   is sig(key, body), and every octet is in the body, in the signature, or in the frame around them;
\*   without a key (Unwrap(cert, 0, 0)) the signature is not looked at: accepted iff the octets still
\*   parse as a certificate (ref/Codecs CvcDec) whose content passes btokCVCCheck (names, dates,
\*   from <= until, public key on its standard curve), and then the decoded content is returned.
CvcAltOk(r) ==
  LET d == CvcDec(r.cert)
      contentOk == d.ok /\ PeriodOk(d.cvc.from, d.cvc.until) /\ BC!IsStdPoint(d.cvc.pubkey)
  IN /\ Len(r.cert) = Len(r.orig)
     /\ \A i \in 1..Len(r.cert) : r.cert[i] = (IF i = r.pos /\ r.mask # 0 THEN r.orig[i] ^^ r.mask ELSE r.orig[i])
     /\ (r.rc0 = "OK") = contentOk
     /\ (r.rc0 = "OK" => (r.got = d.cvc /\ r.sig = d.sig))
     /\ IF r.mask = 0 THEN r.rc0 = "OK" /\ r.rck = "OK" /\ r.rcv = "OK" /\ r.rcv2 = "OK"
        ELSE r.rck # "OK" /\ r.rcv # "OK" /\ r.rcv2 # "OK"

\* the self-signed certificate read in the self-check mode (pubkey == cvc->pubkey, pubkey_len == 0): the signature is
\* verified on the certificate's own public key, so the unaltered certificate is accepted and every altered one refused
CvcAltSelfOk(r) ==
  /\ Len(r.cert) = Len(r.orig)
  /\ \A i \in 1..Len(r.cert) : r.cert[i] = (IF i = r.pos /\ r.mask # 0 THEN r.orig[i] ^^ r.mask ELSE r.orig[i])
  /\ (r.rcs = "OK") = (r.mask = 0)

\* ---------------------------------------------------------------- bpki containers (bpki.h, PKCS#8 / PKCS#5)
\* dotted decimal string (character codes) of a sequence of arcs
DecCodes(v) == IF v = 0 THEN <<48>> ELSE
  FoldLeft(LAMBDA acc, i : IF v \div (10 ^ (i - 1)) = 0 THEN acc ELSE <<48 + ((v \div (10 ^ (i - 1))) % 10)>> \o acc, <<>>, Upto(9))
Dotted(arcs) == FoldLeft(LAMBDA acc, i : IF i = 1 THEN DecCodes(arcs[1]) ELSE acc \o <<46>> \o DecCodes(arcs[i]), <<>>, Upto(Len(arcs)))
Oid(arcs) == OidEnc(Dotted(arcs))
Stb == <<1, 2, 112, 0, 2, 0, 34, 101>>
OidCurve(len) == Oid(Stb \o <<45, 3, CASE len = 24 -> 0 [] len = 32 -> 1 [] len = 48 -> 2 [] len = 64 -> 3>>)
OidBelsM(len) == Oid(Stb \o <<60, 2, CASE len = 17 -> 1 [] len = 25 -> 2 [] len = 33 -> 3>>)
SEQ == <<48>>
\* PrivateKeyInfo: SEQ { SIZE(0), SEQ { OID(bign-pubkey | bels-share), OID(curve | bels-m0XXX) }, OCT key }
PkiEnc(kind, key) ==
  SeqEnc(SEQ, SizeEnc(<<2>>, <<>>)
              \o SeqEnc(SEQ, IF kind = "priv" THEN Oid(Stb \o <<45, 2, 1>>) \o OidCurve(Len(key))
                                                ELSE Oid(Stb \o <<60, 11>>) \o OidBelsM(Len(key)))
              \o OctEnc(<<4>>, key))
\* EncryptedPrivateKeyInfo with PBES2 { PBKDF2 { salt, iter, hmac-hbelt }, belt-kwp256 }
EpkiEnc(edata, salt, iter) ==
  SeqEnc(SEQ,
    SeqEnc(SEQ, Oid(<<1, 2, 840, 113549, 1, 5, 13>>)
                \o SeqEnc(SEQ, SeqEnc(SEQ, Oid(<<1, 2, 840, 113549, 1, 5, 12>>)
                                            \o SeqEnc(SEQ, OctEnc(<<4>>, salt) \o SizeEnc(<<2>>, BNFromInt(iter))
                                                            \o SeqEnc(SEQ, Oid(Stb \o <<47, 12>>) \o NullEnc)))
                                \o SeqEnc(SEQ, Oid(Stb \o <<31, 73>>) \o NullEnc)))
    \o OctEnc(<<4>>, edata))
\* the encrypted data of a well-formed container: the OCTET STRING after the algorithm identifier
EpkiEdata(epki) == LET o == SeqDec(epki, SEQ)
                       a == SeqDec(o.body, SEQ)
                   IN OctDec(DropN(o.body, a.n), <<4>>).val
KeyLensOk(kind, n) == IF kind = "priv" THEN n \in {24, 32, 48, 64} ELSE n \in {17, 25, 33}
\* the protection key: PBKDF2 (HMAC[belt-hash], one block) of the presented password
ProtKey(r) == IF r.full THEN PBKDF2(r.pwd, r.iter, r.salt) ELSE r.dk
BpkiOk(r) ==
  CASE r.op = "bpkiW" ->
         IF r.iter < 10000 \/ ~KeyLensOk(r.kind, Len(r.key)) \/ (r.kind = "share" /\ ~(r.key[1] \in 1..16)) THEN r.rc # "OK"
         ELSE r.rc = "OK" /\ r.epki = EpkiEnc(KWPWrap(PkiEnc(r.kind, r.key), Zeros(16), ProtKey(r)), r.salt, r.iter)
    [] r.op = "bpkiU" ->
         \* a container that differs from the one produced (DER skeleton, salt, iteration count, ciphertext; or its length)
         \* never opens: not ERR_OK, no key.  (No PBKDF2 needs to be recomputed for this rule.)
         IF r.cls = "altered" THEN r.epki # r.orig /\ r.rc # "OK" /\ r.out = <<>>
         ELSE LET u == KWPUnwrap(EpkiEdata(r.epki), Zeros(16), r.dk) IN       \* the right key iff the right password
              /\ (r.rc = "OK") = u[1]
              /\ (r.rc = "OK" => (r.out = r.key /\ u[2] = PkiEnc(r.kind, r.key)))
              /\ (r.cls = "right" => r.rc = "OK")
    [] OTHER -> FALSE

LineOk(r) ==
  IF r.e = "Reset" THEN TRUE
  ELSE IF r.op \in {"bpkiW", "bpkiU"} THEN BpkiOk(r)
  ELSE IF r.op = "cvcAlt" THEN CvcAltOk(r)
  ELSE IF r.op = "cvcAltSelf" THEN CvcAltSelfOk(r)
  ELSE IF r.op \in {"inc", "cmdW", "cmdU", "respW", "respU", "alter"} THEN SmLineOk(r)
  ELSE FALSE

VARIABLES phase, idx, ok
\* (the variables of the state machine of BtokSM are not used here: constant)
Init == phase = 0 /\ idx = 0 /\ ok = TRUE /\ SMInit
Next == /\ UNCHANGED smvars
        /\ \/ phase = 0 /\ phase' = 1 /\ idx' \in 1..Len(Tr) /\ ok' = TRUE
           \/ phase = 1 /\ phase' = 2 /\ idx' = idx /\ ok' = LineOk(Tr[idx])
                        /\ (ok' \/ PrintT(<<"@BAD", idx>>))
=============================================================================
