----------------------------- MODULE Trace_Btok -----------------------------
(* C17, Pattern F: every recorded call of the token layer is judged on its own with the reference
   semantics: secure messaging values (sm/BtokSM.tla part 1 over ref/BeltModes + ref/Codecs).
   Lines: e = "Reset" | "Op" | "Res"; Op lines carry op, key, ctr (counter before the call), inputs,
   outputs, rc (name of the err_t), ctr2 (counter after the call).                              *)
EXTENDS BtokSM, Json, IOUtils

Tr == ndJsonDeserialize(IOEnv.TRACE)

SmLineOk(r) ==
  LET K == SMKeys(r.key) IN
  CASE r.op = "inc"   -> r.ctr2 = CtrNext(r.ctr)
    [] r.op = "cmdW"  ->
         /\ r.ctr2 = r.ctr
         /\ IF HasProtBit(r.cmd.cla) THEN r.rc = "BAD_APDU"            \* already protected
            ELSE /\ r.rc \in Admissible(TRUE, CtrOdd(r.ctr), TRUE)
                 /\ (r.rc = "OK" => (r.apdu = SMCmdProt(r.cmd, K, r.ctr) /\ r.count = Len(r.apdu)))
    [] r.op = "cmdU"  ->
         LET u == SMCmdUnprot(r.apdu, K, r.ctr) IN
         /\ r.ctr2 = r.ctr
         /\ r.rcf = (IF u.fmt THEN "OK" ELSE "BAD_APDU")               \* format-only call (cmd = 0)
         /\ r.rc \in Admissible(u.fmt, CtrOdd(r.ctr), u.mac)
         /\ (r.rc = "OK" => (r.out = u.cmd /\ r.sizeok))
    [] r.op = "respW" ->
         /\ r.ctr2 = r.ctr
         /\ r.rc \in Admissible(TRUE, ~CtrOdd(r.ctr), TRUE)
         /\ (r.rc = "OK" => (r.apdu = SMRespProt(r.resp, K, r.ctr) /\ r.count = Len(r.apdu)))
    [] r.op = "respU" ->
         LET u == SMRespUnprot(r.apdu, K, r.ctr) IN
         /\ r.ctr2 = r.ctr
         /\ r.rcf = (IF u.fmt THEN "OK" ELSE "BAD_APDU")
         /\ r.rc \in Admissible(u.fmt, ~CtrOdd(r.ctr), u.mac)
         /\ (r.rc = "OK" => (r.out = u.resp /\ r.sizeok))
    [] r.op = "alter" -> TRUE                                           \* the attacker's move: no claim
    [] OTHER -> FALSE

LineOk(r) ==
  IF r.e = "Reset" THEN TRUE
  ELSE IF r.op \in {"inc", "cmdW", "cmdU", "respW", "respU", "alter"} THEN SmLineOk(r)
  ELSE FALSE

VARIABLES phase, idx, ok
\* (the variables of the state machine of BtokSM are not used here: constant)
Init == phase = 0 /\ idx = 0 /\ ok = TRUE /\ SMInit
Next == /\ UNCHANGED smvars
        /\ \/ phase = 0 /\ phase' = 1 /\ idx' \in 1..Len(Tr) /\ ok' = TRUE
           \/ phase = 1 /\ phase' = 2 /\ idx' = idx /\ ok' = LineOk(Tr[idx])
                        /\ (ok' \/ PrintT(<<"@BAD", idx>>))
=============================================================================
