----------------------------- MODULE Trace_Pwd -----------------------------
(* Trace validation for C20 (record direction): event histories executed by the real
   btokPwdTransition are replayed through the reference automaton's Step action;
   every logged field (acceptance, successor pin/auth) is bound, and the rules
   R1, R4b, R6 (invariants) and R2..R8 (action properties) are evaluated at every step.
   Several executions are concatenated with Reset lines. *)
EXTENDS BtokPwd, Json, IOUtils

Tr == ndJsonDeserialize(IOEnv.TRACE)
VARIABLE l
tvars == <<vars, l>>

TraceInit == /\ l = 1 /\ pin = pin3 /\ auth = ANone
             /\ wrong = 0 /\ canSince = FALSE /\ pukBad = 0 /\ lastOk = ANone
             /\ lastEv = "none" /\ lastAcc = TRUE

IsEvent(e) == l <= Len(Tr) /\ Tr[l].e = e /\ l' = l + 1

TraceReset == /\ IsEvent("Reset")
              /\ pin' = Tr[l].pin /\ auth' = Tr[l].auth
              /\ wrong' = 0 /\ canSince' = FALSE /\ pukBad' = 0 /\ lastOk' = Tr[l].auth
              /\ lastEv' = "none" /\ lastAcc' = TRUE

TraceEv == /\ IsEvent("Ev")
           /\ Tr[l].pin = pin /\ Tr[l].auth = auth          \* logged pre-state
           /\ Tr[l].ev \in Events
           /\ Step(Tr[l].ev)                                \* the specification's action
           /\ lastAcc' = Tr[l].ok                           \* logged results
           /\ pin' = Tr[l].pin2 /\ auth' = Tr[l].auth2

\* monitor mode (cfg Trace_PwdMon): the transition operator is the recorded behaviour itself,
\* so the rules are evaluated on what the real function did, whatever the reference says
TraceT(p, a, e) == Res(Tr[l].ok, Tr[l].pin2, Tr[l].auth2)

TraceNext == TraceReset \/ TraceEv
TraceSpec == TraceInit /\ [][TraceNext]_tvars

\* resets start a new history: the action properties must not relate states across a Reset
TR2 == [][TraceEv => A2]_tvars
TR2b == [][TraceEv => A2b]_tvars
TR3 == [][TraceEv => A3]_tvars
TR4 == [][TraceEv => A4]_tvars
TR4c == [][TraceEv => A4c]_tvars
TR5 == [][TraceEv => A5]_tvars
TR8 == [][TraceEv => A8]_tvars

TraceAccepted ==
  LET d == TLCGet("stats").diameter IN
  IF d - 1 = Len(Tr) THEN TRUE
  ELSE /\ PrintT(<<"@REJECT", d, IF d <= Len(Tr) THEN Tr[d] ELSE "end">>) /\ FALSE
=============================================================================
