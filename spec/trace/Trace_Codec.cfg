INIT Init
NEXT Next
