----------------------------- MODULE Trace_Bash -----------------------------
(* C03, record direction.
   (F) Trace_Bash.cfg: every recorded one-shot call of bashF / bashHash* / brng* / botp* is
       recomputed with the reference semantics (ref/BashF, ref/Brng, ref/Botp over ref/BeltModes).
   (S) Trace_BashPrg.cfg: recorded command scripts of the programmable automaton are replayed
       through the actions of sm/BashPrg.tla; every logged field (pos, buflen, l, d, the 192
       octets of the state, the data that came out) is bound to the specification's successor
       state; scripts are concatenated with Reset lines.
   Strings (passwords, suites) are logged as arrays of character codes, wide integers (time
   stamps) as 16-bit limbs, error codes by name. *)
EXTENDS BashPrg, Brng, Botp, Json, IOUtils, TLC

Tr == ndJsonDeserialize(IOEnv.TRACE)

TimeErr == <<65535, 65535, 65535, 65535>>           \* TIME_ERR = (tm_time_t)-1

\* ---- OCRA one-shot: the order of the checks is the header's (format, challenge length, time)
OcraRandOk(r) ==
  LET pr == SuiteParse(r.suite) IN
  IF ~pr.ok THEN r.err = "BAD_FORMAT"
  ELSE IF ~OCRAQOk(pr, r.q) THEN r.err = "BAD_PARAMS"
  ELSE IF pr.ts # 0 /\ r.t = TimeErr THEN r.err = "BAD_TIME"
  ELSE r.err = "OK" /\ r.otp = OCRAWith(r.suite, pr, r.key, r.q, r.ctr, r.p, r.s, TimeBE(r.t))
OcraVerifyOk(r) ==
  LET pr == SuiteParse(r.suite) IN
  IF ~pr.ok THEN r.err = "BAD_FORMAT"
  ELSE IF ~OCRAQOk(pr, r.q) THEN r.err = "BAD_PARAMS"
  ELSE IF Len(r.otp) # pr.digit THEN r.err = "BAD_PWD"
  ELSE IF pr.ts # 0 /\ r.t = TimeErr THEN r.err = "BAD_TIME"
  ELSE r.err = (IF r.otp = OCRAWith(r.suite, pr, r.key, r.q, r.ctr, r.p, r.s, TimeBE(r.t)) THEN "OK" ELSE "BAD_PWD")
\* chained: StepS, StepR, StepR, StepG; StepS, StepV(wrong), StepG, StepV(right), StepG
OcraSeqOk(r) ==
  LET pr == SuiteParse(r.suite)
      gen(c) == OCRAWith(r.suite, pr, r.key, r.q, c, r.p, r.s, TimeBE(r.t))
      nxt(c) == IF pr.ctr THEN CtrNext(c) ELSE c
      w == r.ow = gen(r.ctr)
      cw == IF w THEN nxt(r.ctr) ELSE r.ctr
      g == r.o1 = gen(cw)
  IN /\ r.okS = pr.ok
     /\ pr.ok => /\ r.o1 = gen(r.ctr) /\ r.o2 = gen(nxt(r.ctr))
                 /\ r.okW = w /\ r.okR = g
                 \* without a counter in the suite the value returned by StepG is not specified
                 /\ pr.ctr => /\ r.ctr2 = nxt(nxt(r.ctr)) /\ r.ctrW = cw
                              /\ r.ctrR = (IF g THEN nxt(cw) ELSE cw)

HotpSeqOk(r) ==
  LET c1 == CtrNext(r.ctr)   c2 == CtrNext(c1)
      vw == HOTPVerify(r.ow, r.key, r.ctr)
      vr == HOTPVerify(r.o1, r.key, vw[2])
  IN /\ r.o1 = HOTP(r.digit, r.key, r.ctr) /\ r.o2 = HOTP(r.digit, r.key, c1) /\ r.o3 = HOTP(r.digit, r.key, c2)
     /\ r.ctr2 = CtrNext(c2)
     /\ r.okW = vw[1] /\ r.ctrW = vw[2] /\ r.okR = vr[1] /\ r.ctrR = vr[2]

\* ---- C10: fragment scripts on the Start/Step/Get bundles (driver mode "steps").  Whatever the
\* fragmentation, the Get positions and the relocations of the state: the concatenated output is the
\* one-shot value of the concatenated input, every Get is the one-shot value of the prefix.
CtrAdd(c, k) == FoldLeft(LAMBDA a, i : CtrNext(a), c, Upto(k))
PrgAfterStart(r, code) ==        \* automaton after Start and the Start of a data command: <<S, buflen>>
  LET b == BufLen(r.l, r.d, Len(r.key) # 0)
  IN << CommitS(StartS(r.l, r.d, r.ann, r.key), 1 + Len(r.ann) + Len(r.key), b, code), b >>
StepsOk(r) ==
  LET lens == [i \in 1..Len(r.xs) |-> Len(r.xs[i])] IN
  /\ r.vbad = 0
  /\ CASE r.b = "bashHash" -> \A i \in 1..Len(r.gets) : r.gets[i].tag = BashHash(r.l, TakeN(r.in, r.gets[i].xlen))
       [] r.b = "prgAbsorb" ->
            LET c == PrgAfterStart(r, CodeDATA) IN
            \A i \in 1..Len(r.gets) :
               LET a == Duplex(c[1], 0, c[2], TakeN(r.in, r.gets[i].xlen), "absorb")
               IN r.gets[i].tag = Duplex(CommitS(a.s, a.pos, c[2], CodeOUT), 0, c[2], Zeros(32), "squeeze").out
       [] r.b = "prgSqueeze" ->
            LET b == BufLen(r.l, r.d, Len(r.key) # 0)
                a == Duplex(PrgAfterStart(r, CodeDATA)[1], 0, b, r.pre, "absorb")
            IN r.out = Duplex(CommitS(a.s, a.pos, b, CodeOUT), 0, b, Zeros(Len(r.in)), "squeeze").out
       [] r.b = "prgEncr" -> LET c == PrgAfterStart(r, CodeTEXT) IN r.out = Duplex(c[1], 0, c[2], r.in, "encr").out
       [] r.b = "prgDecr" -> LET c == PrgAfterStart(r, CodeTEXT) IN r.out = Duplex(c[1], 0, c[2], r.in, "decr").out
       [] r.b = "brngCTR" -> /\ r.outs = CTRSteps(r.key, r.iv, r.xs)[2]
                             /\ \A i \in 1..Len(r.gets) :
                                   r.gets[i].tag = CTRSteps(r.key, r.iv, SubSeq(r.xs, 1, r.gets[i].k))[1].s
       [] r.b = "brngHMAC" -> r.outs = HMACSteps(r.key, r.iv, lens)
       [] r.b = "hotp" -> /\ \A i \in 1..Len(r.outs) : r.outs[i] = HOTP(r.digit, r.key, CtrAdd(r.ctr, i - 1))
                          /\ \A i \in 1..Len(r.gets) : r.gets[i].tag = CtrAdd(r.ctr, r.gets[i].k)
       [] r.b = "totp" -> \A i \in 1..Len(r.outs) : r.outs[i] = TOTP(r.digit, r.key, TimeBE(r.t))
       [] r.b = "ocra" -> /\ \A i \in 1..Len(r.outs) :
                                r.outs[i] = OCRA(r.suite, r.key, r.q, CtrAdd(r.ctr, i - 1), r.p, r.s, TimeBE(r.t))
                          /\ \A i \in 1..Len(r.gets) : r.gets[i].tag = CtrAdd(r.ctr, r.gets[i].k)
       [] OTHER -> FALSE

LineOk(r) ==
  CASE r.op = "bashF"    -> r.out = BashF(r.in)
    [] r.op = "bashHash" -> IF r.l \in HashLevels
                            THEN r.err = "OK" /\ Len(r.out) <= r.l \div 4 /\ r.out = BashHashN(r.l, r.in, Len(r.out))
                            ELSE r.err = "BAD_PARAMS"
    [] r.op = "bashHashV" -> r.ok = (r.tag = BashHashN(r.l, r.in, Len(r.tag)))
    [] r.op = "brngCTR"  -> r.err = "OK" /\ <<r.out, r.iv2>> = CTRRand(r.key, r.iv, r.x)
    [] r.op = "brngCTRSteps" -> LET q == CTRSteps(r.key, r.iv, r.xs) IN r.outs = q[2] /\ r.iv2 = q[1].s
    [] r.op = "brngHMAC" -> r.err = "OK" /\ r.out = HMACRand(r.key, r.iv, r.n)
    [] r.op = "brngHMACSteps" -> r.outs = HMACSteps(r.key, r.iv, r.ns)
    [] r.op = "dt"       -> r.otp = DT(r.mac, r.digit)
    [] r.op = "ctrNext"  -> r.out = CtrNext(r.ctr)
    [] r.op = "hotp"     -> IF r.digit \in HotpDigits THEN r.err = "OK" /\ r.otp = HOTP(r.digit, r.key, r.ctr)
                            ELSE r.err = "BAD_PARAMS"
    [] r.op = "hotpV"    -> r.err = (IF HOTPVerify(r.otp, r.key, r.ctr)[1] THEN "OK" ELSE "BAD_PWD")
    [] r.op = "hotpSeq"  -> HotpSeqOk(r)
    [] r.op = "totp"     -> IF r.digit \notin HotpDigits THEN r.err = "BAD_PARAMS"
                            ELSE IF r.t = TimeErr THEN r.err = "BAD_TIME"
                            ELSE r.err = "OK" /\ r.otp = TOTP(r.digit, r.key, TimeBE(r.t))
    [] r.op = "totpV"    -> IF Len(r.otp) \notin HotpDigits THEN r.err = "BAD_PWD"
                            ELSE IF r.t = TimeErr THEN r.err = "BAD_TIME"
                            ELSE r.err = (IF r.otp = TOTP(Len(r.otp), r.key, TimeBE(r.t)) THEN "OK" ELSE "BAD_PWD")
    [] r.op = "ocraSuite" -> r.ok = SuiteOk(r.suite)
    [] r.op = "ocra"     -> OcraRandOk(r)
    [] r.op = "ocraV"    -> OcraVerifyOk(r)
    [] r.op = "ocraSeq"  -> OcraSeqOk(r)
    [] r.op = "steps"    -> StepsOk(r)
    [] OTHER -> FALSE

VARIABLES phase, idx, ok
tvars == <<vars, phase, idx, ok>>

\* ---- (F)
FInit == Init /\ phase = 0 /\ idx = 0 /\ ok = TRUE
FNext == /\ UNCHANGED vars
         /\ \/ phase = 0 /\ phase' = 1 /\ idx' \in 1..Len(Tr) /\ ok' = TRUE
            \/ phase = 1 /\ phase' = 2 /\ idx' = idx /\ ok' = LineOk(Tr[idx])
                         /\ (ok' \/ PrintT(<<"@BAD", idx>>))

\* ---- (S)
SInit == Init /\ phase = 0 /\ idx = 1 /\ ok = TRUE

IsEvent(e) == idx <= Len(Tr) /\ Tr[idx].e = e /\ idx' = idx + 1 /\ UNCHANGED <<phase, ok>>
\* the projected state logged after the call
Post == /\ pos' = Tr[idx].pos /\ buflen' = Tr[idx].buflen /\ l' = Tr[idx].l /\ d' = Tr[idx].d
        /\ s' = Tr[idx].s

TReset == /\ IsEvent("Reset")
          /\ l' = 0 /\ d' = 0 /\ keyed' = FALSE /\ buflen' = 0 /\ pos' = 0
          /\ s' = <<>> /\ cmd' = "off" /\ out' = <<>>
TStart   == IsEvent("Start") /\ Start(Tr[idx].l, Tr[idx].d, Tr[idx].ann, Tr[idx].key) /\ Post
TRestart == IsEvent("Restart") /\ Restart(Tr[idx].ann, Tr[idx].key) /\ Post
TAbsorbStart  == IsEvent("AbsorbStart") /\ AbsorbStart /\ Post
TSqueezeStart == IsEvent("SqueezeStart") /\ SqueezeStart /\ Post
TEncrStart    == IsEvent("EncrStart") /\ EncrStart /\ Post
TDecrStart    == IsEvent("DecrStart") /\ DecrStart /\ Post
TRatchet      == IsEvent("Ratchet") /\ Ratchet /\ Post
TAbsorbStep   == IsEvent("AbsorbStep") /\ AbsorbStep(Tr[idx].data) /\ Post
TSqueezeStep  == IsEvent("SqueezeStep") /\ SqueezeStep(Tr[idx].n) /\ out' = Tr[idx].out /\ Post
TEncrStep     == IsEvent("EncrStep") /\ EncrStep(Tr[idx].data) /\ out' = Tr[idx].out /\ Post
TDecrStep     == IsEvent("DecrStep") /\ DecrStep(Tr[idx].data) /\ out' = Tr[idx].out /\ Post

SNext == \/ TReset \/ TStart \/ TRestart \/ TAbsorbStart \/ TSqueezeStart \/ TEncrStart \/ TDecrStart
         \/ TRatchet \/ TAbsorbStep \/ TSqueezeStep \/ TEncrStep \/ TDecrStep
SSpec == SInit /\ [][SNext]_tvars

TraceAccepted ==
  LET dm == TLCGet("stats").diameter IN
  IF dm - 1 = Len(Tr) THEN TRUE
  ELSE /\ PrintT(<<"@REJECT", dm, IF dm <= Len(Tr) THEN Tr[dm].e ELSE "end">>) /\ FALSE
=============================================================================
