INIT Init
NEXT Next
