----------------------------- MODULE Trace_Bign -----------------------------
(* C02, record direction: every line logged by harness/drv_bign.c (inputs, outputs, error codes by name, octets the
   library drew from the caller's generator) is judged against ref/Bign.tla.
   Every line: error classification, ranges and the RELATIONS of the property (a produced signature verifies and its
   S1 satisfies the signing equation for the k the tape defines; a generated pair passes validation; a wrapped key
   unwraps to itself; DH is symmetric; an extracted identity key is (S1 + H0) mod q and is accepted by the id-signing
   functions whatever its value; an id-signature satisfies the equation of B.2.4 and verifies under the extracted
   key).  Lines with lvl = 1 are recomputed in full (scalar multiplications). *)
EXTENDS Bign, Json, IOUtils, TLC

Tr == ndJsonDeserialize(IOEnv.TRACE)

PubInField(P, Qo) == Len(Qo) = 2 * P.no /\ Less(PtOf(P, Qo)[1], P.p) /\ Less(PtOf(P, Qo)[2], P.p)
HdrOf(r) == IF r.hasI = 1 THEN r.I ELSE Zeros(16)
SigS0(P, sig) == SubSeq(sig, 1, P.no \div 2)
SigS1(P, sig) == SubSeq(sig, P.no \div 2 + 1, Len(sig))

KeygenOk(r) ==
  LET P == Params(r.l)  s == SampleNZ(P, r.tape)
  IN IF ~s.ok THEN r.rc = "BAD_RNG"
     ELSE /\ r.rc = "OK" /\ Len(r.d) = P.no /\ Num(r.d) = s.v /\ r.used = s.tries * P.no
          /\ PubkeyValid(P, r.Q) /\ r.val = "OK" /\ r.pval = "OK"
          /\ (r.lvl = 1 => r.Q = PtOct(P, PubkeyOf(P, s.v)))
PubcalcOk(r) ==
  LET P == Params(r.l)  d == Num(r.d)
  IN IF ~InRange(P, d) THEN r.rc = "BAD_PRIVKEY"
     ELSE r.rc = "OK" /\ PubkeyValid(P, r.Q) /\ r.val = "OK" /\ (r.lvl = 1 => r.Q = PtOct(P, PubkeyOf(P, d)))
\* a signature produced with nonce k
SigOk(P, r, k) ==
  /\ Len(r.sig) = P.no + P.no \div 2
  /\ Num(SigS1(P, r.sig)) = S1Of(P, Num(SigS0(P, r.sig)), r.H, Num(r.d), k)            \* the signing equation
  /\ r.vrc = "OK"                                                                     \* it verifies
  /\ (r.lvl = 1 => SigS0(P, r.sig) = HashL(P, r.oid, EB!ScalarMulJ(Curve(P), k, G(P)), r.H))
SignOk(r) ==
  LET P == Params(r.l)  s == SampleNZ(P, r.tape)
  IN IF ~OidValid(r.oid) THEN r.rc = "BAD_OID"
     ELSE IF ~InRange(P, Num(r.d)) THEN r.rc = "BAD_PRIVKEY"
     ELSE IF ~s.ok THEN r.rc = "BAD_RNG"
     ELSE r.rc = "OK" /\ r.used = s.tries * P.no /\ SigOk(P, r, s.v)
Sign2Ok(r) ==
  LET P == Params(r.l)
  IN IF ~InRange(P, Num(r.d)) THEN r.rc = "BAD_PRIVKEY"
     ELSE LET n == DetNonce(P, r.oid, Num(r.d), r.H, r.t)
          IN r.rc = "OK" /\ (n.ok => SigOk(P, r, n.k))
VerifyOk(r) ==
  LET P == Params(r.l)
  IN IF ~OidValid(r.oid) THEN r.rc = "BAD_OID"
     ELSE IF ~PubkeyValid(P, r.Q) THEN
            \* coordinates outside the field: ERR_BAD_PUBKEY; in the field but off the curve: rejected with any code
            \* (alg. 7.1.4 takes Q as valid; bee2's \expect conditions may be checked partially - info.h)
            IF PubInField(P, r.Q) THEN r.rc # "OK" ELSE r.rc = "BAD_PUBKEY"
     ELSE IF ~SigInRange(P, r.sig) THEN r.rc = "BAD_SIG"
     ELSE r.lvl = 1 => r.rc = (IF Verify(P, r.oid, r.H, r.sig, r.Q) = "ok" THEN "OK" ELSE "BAD_SIG")
WrapOk(r) ==
  LET P == Params(r.l)  s == SampleNZ(P, r.tape)
  IN IF Len(r.X) < 16 THEN r.rc = "BAD_INPUT"
     ELSE IF ~PubkeyValid(P, r.Q) THEN
            \* coordinates outside the field must be refused.  A recipient key in the field but off the curve is
            \* outside the input domain of alg. 7.2.3 and of the property: both answers are admitted (observation)
            IF PubInField(P, r.Q) THEN r.rc \in {"OK", "BAD_PUBKEY"} ELSE r.rc = "BAD_PUBKEY"
     ELSE IF ~s.ok THEN r.rc = "BAD_RNG"
     ELSE /\ r.rc = "OK" /\ r.used = s.tries * P.no /\ Len(r.token) = P.no + 16 + Len(r.X)
          /\ r.urc = "OK" /\ r.ukey = r.X
          /\ (r.lvl = 1 => r.token = KeyWrap(P, r.X, HdrOf(r), r.Q, s.v))
UnwrapOk(r) ==
  LET P == Params(r.l)
  IN IF ~InRange(P, Num(r.d)) THEN r.rc = "BAD_PRIVKEY"
     ELSE IF Len(r.token) < P.no + 32 \/ ~Less(Num(SubSeq(r.token, 1, P.no)), P.p) THEN r.rc = "BAD_KEYTOKEN"
     ELSE r.lvl = 1 =>
          LET u == KeyUnwrap(P, r.token, HdrOf(r), Num(r.d))
          IN IF u[1] THEN r.rc = "OK" /\ r.key = u[2] ELSE r.rc = "BAD_KEYTOKEN"
DhSide(P, rc, key, d, Qo, n, lvl) ==
  IF n > 2 * P.no THEN rc = "BAD_SHAREDKEY"
  ELSE IF ~InRange(P, Num(d)) THEN rc = "BAD_PRIVKEY"
  ELSE IF ~PubkeyValid(P, Qo) THEN rc = "BAD_PUBKEY"
  ELSE rc = "OK" /\ Len(key) = n /\ (lvl = 1 => key = DH(P, Num(d), Qo, n))
DhOk(r) ==
  LET P == Params(r.l)
  IN /\ (Len(r.QB) = 2 * P.no => DhSide(P, r.ra, r.kA, r.dA, r.QB, r.n, r.lvl))
     /\ (Len(r.QA) = 2 * P.no => DhSide(P, r.rb, r.kB, r.dB, r.QA, r.n, 0))
     /\ ((r.ra = "OK" /\ r.rb = "OK") => r.kA = r.kB)                                  \* symmetry

\* ---- appendix B.  The trusted party's key Q is treated as in 7.1.4 (in the field but off the curve: rejected with any
\* code); the identity public key R must be a point of the curve (bign.h), in the field but off the curve: rejected.
PubClass(P, Qo) == IF PubkeyValid(P, Qo) THEN "ok" ELSE IF PubInField(P, Qo) THEN "offcurve" ELSE "outside"
IdExtractOk(r) ==
  LET P == Params(r.l)  qc == PubClass(P, r.Q)
  IN /\ r.inmod = 0                                                                  \* the inputs are inputs
     /\ IF ~OidValid(r.oid) THEN r.rc = "BAD_OID"
        ELSE IF qc = "outside" THEN r.rc = "BAD_PUBKEY"
        ELSE IF qc = "offcurve" THEN r.rc # "OK"
        ELSE IF ~SigInRange(P, r.sig) THEN r.rc = "BAD_SIG"
        ELSE /\ r.rc \in {"OK", "BAD_SIG"}
             /\ (r.rc = "OK") = (r.vrc = "OK")                  \* B.2.3 accepts exactly the signatures 7.1.4 accepts
             /\ (r.rc = "OK" => /\ Len(r.e) = P.no /\ Num(r.e) = IdPrivOf(P, r.H0, r.sig)      \* e = (S1 + H0) mod q
                                /\ PubkeyValid(P, r.R))
             /\ (r.lvl = 1 => LET x == IdExtract(P, r.oid, r.H0, r.sig, r.Q)
                              IN IF x.st = "ok" THEN r.rc = "OK" /\ Num(r.e) = x.e /\ r.R = PtOct(P, x.R)
                                 ELSE r.rc = "BAD_SIG")
\* an id-signature produced with nonce k under the identity key e (ANY e in {0..q-1})
IdSigOk(P, r, k) ==
  /\ Len(r.sig) = P.no + P.no \div 2
  /\ Num(SigS1(P, r.sig)) = S1Of(P, Num(SigS0(P, r.sig)), r.H, Num(r.e), k)          \* the signing equation of B.2.4
  /\ (Len(r.R) > 0 => r.vrc = "OK")                                                 \* under a genuine (e, R), Q it verifies
  /\ (r.lvl = 1 => SigS0(P, r.sig) = HashL2(P, r.oid, EB!ScalarMulJ(Curve(P), k, G(P)), r.H0, r.H))
IdSignOk(r) ==
  LET P == Params(r.l)  s == SampleNZ(P, r.tape)
  IN IF ~OidValid(r.oid) THEN r.rc = "BAD_OID"
     ELSE IF ~IdKeyInRange(P, Num(r.e)) THEN r.rc = "BAD_PRIVKEY"
     ELSE IF ~s.ok THEN r.rc = "BAD_RNG"
     ELSE r.rc = "OK" /\ r.used = s.tries * P.no /\ IdSigOk(P, r, s.v)
IdSign2Ok(r) ==
  LET P == Params(r.l)
  IN IF ~OidValid(r.oid) THEN r.rc = "BAD_OID"
     ELSE IF ~IdKeyInRange(P, Num(r.e)) THEN r.rc = "BAD_PRIVKEY"
     ELSE LET n == DetNonce(P, r.oid, Num(r.e), r.H, r.t)                            \* alg. 6.3.3 with e in the place of d
          IN r.rc = "OK" /\ (n.ok => IdSigOk(P, r, n.k)) /\ (Len(r.R) > 0 => r.vrc = "OK")
IdVerifyOk(r) ==
  LET P == Params(r.l)  rcl == PubClass(P, r.R)  qc == PubClass(P, r.Q)
  IN IF ~OidValid(r.oid) THEN r.rc = "BAD_OID"
     ELSE IF rcl = "outside" \/ qc = "outside" THEN r.rc = "BAD_PUBKEY"
     ELSE IF rcl = "offcurve" \/ qc = "offcurve" THEN r.rc # "OK"
     ELSE IF ~SigInRange(P, r.sig) THEN r.rc = "BAD_SIG"
     ELSE /\ r.rc \in {"OK", "BAD_SIG"}
          /\ (r.lvl = 1 => r.rc = (IF IdVerify(P, r.oid, r.H0, r.H, r.sig, r.R, r.Q) = "ok" THEN "OK" ELSE "BAD_SIG"))

LineOk(r) ==
  CASE r.op = "keygen" -> KeygenOk(r)
    [] r.op = "pubcalc" -> PubcalcOk(r)
    [] r.op = "sign" -> SignOk(r)
    [] r.op = "sign2" -> Sign2Ok(r)
    [] r.op = "verify" -> VerifyOk(r)
    [] r.op = "wrap" -> WrapOk(r)
    [] r.op = "unwrap" -> UnwrapOk(r)
    [] r.op = "dh" -> DhOk(r)
    [] r.op = "idextract" -> IdExtractOk(r)
    [] r.op = "idsign" -> IdSignOk(r)
    [] r.op = "idsign2" -> IdSign2Ok(r)
    [] r.op = "idverify" -> IdVerifyOk(r)
    [] r.op = "skip" -> TRUE
    [] OTHER -> FALSE

VARIABLES phase, idx, ok
Init == phase = 0 /\ idx = 0 /\ ok = TRUE
Next == \/ phase = 0 /\ phase' = 1 /\ idx' \in 1..Len(Tr) /\ ok' = TRUE
        \/ phase = 1 /\ phase' = 2 /\ idx' = idx /\ ok' = LineOk(Tr[idx])
                     /\ (ok' \/ PrintT(<<"@BAD", idx>>))
=============================================================================
