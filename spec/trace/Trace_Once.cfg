SPECIFICATION TraceSpec
CONSTANTS
  Threads <- TraceThreads
  PublishAtomic = TRUE
  Ops = 0
  Kinds <- TraceKinds
INVARIANTS CounterSum
POSTCONDITION TraceAccepted
