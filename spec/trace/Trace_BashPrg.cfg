SPECIFICATION SSpec
INVARIANT TypeOK PosInv BufLenInv KeyModeInv
POSTCONDITION TraceAccepted
