---------------------------- MODULE Trace_Valid ----------------------------
(* C12: every recorded call of a validator (harness/drv_valid.c) is decided again by the specification
   (ref/Validators.tla, ref/Pri.tla, lib/GF2Poly.tla, ref/ECp*.tla).  Two-level evaluation (Pattern F).
   Window lines carry an array of results: Bad(r) is the set of offsets whose recorded result differs from the
   specified one (reported as @DETAIL: count and least offset).  Scalar lines: Bad(r) = {0} when wrong.
   Parameter-set lines ("pval") name ONE condition of the standard's list together with the evidence:
     expect = "fail": TLC verifies that the named condition is violated (composite: exhibited factor / witness;
                      bad congruence: the remainder; wrong seed: belt-hash recomputed ...) => the set is invalid
                      => the validator must reject (rc # 0);
     expect = "hold": TLC verifies that the named condition holds (primes: by certificate) and the validator
                      accepted (rc = 0); the check expands an accepted set into one line per condition. *)
EXTENDS Validators, Json, IOUtils, TLC, FiniteSetsExt

EI == INSTANCE ECpInt

Tr == ndJsonDeserialize(IOEnv.TRACE)

B01(b) == IF b THEN 1 ELSE 0
Has(r, k) == k \in DOMAIN r
\* offsets 0..Len(res)-1 whose recorded 0/1 differs from spec(offset)
BadOffsets(res, spec(_)) == {i \in 0..(Len(res) - 1) : res[i + 1] # B01(spec(i))}
Scalar(okv) == IF okv THEN {} ELSE {0}

\* ---- parameter records (numbers from little-endian octets)
BignRec(r) == LET no == BignNo(r.l) IN
  [l |-> r.l, p |-> N(TakeN(r.p, no)), a |-> N(TakeN(r.a, no)), b |-> N(TakeN(r.b, no)), q |-> N(TakeN(r.q, no)),
   yG |-> N(TakeN(r.yG, no)), seed |-> r.seed, p_o |-> r.p, a_o |-> r.a, b_o |-> r.b, q_o |-> r.q, yG_o |-> r.yG]
G12sRec(r) == [l |-> r.l, p |-> N(r.p), a |-> N(r.a), b |-> N(r.b), q |-> N(r.q), n |-> r.n, xP |-> N(r.xP), yP |-> N(r.yP)]
Stb99Rec(r) == LET lo == (r.l + 7) \div 8  ro == (r.r + 7) \div 8 IN
  [l |-> r.l, r |-> r.r, p |-> N(TakeN(r.p, lo)), q |-> N(TakeN(r.q, ro)), a |-> N(TakeN(r.a, lo)), d |-> N(TakeN(r.d, lo)),
   p_o |-> r.p, q_o |-> r.q, a_o |-> r.a, d_o |-> r.d]
PfokRec(r) == [l |-> r.l, r |-> r.r, n |-> r.n, p |-> N(r.p), g |-> N(r.g)]
DstuRec(r) == [f |-> r.f, A |-> r.A, B |-> POfOctets(r.B), n |-> N(r.n), c |-> r.c]
ParamRec(r) == CASE r.scheme \in {"bign", "bign96"} -> BignRec(r)
                 [] r.scheme = "g12s" -> G12sRec(r)
                 [] r.scheme = "stb99" -> Stb99Rec(r)
                 [] r.scheme = "pfok" -> PfokRec(r)
                 [] r.scheme = "dstu" -> DstuRec(r)
PvalOk(r) ==
  IF r.expect = "fail" THEN CondFails(r.scheme, r.cond, ParamRec(r), r) /\ r.rc # 0
  ELSE IF r.expect = "hold" THEN CondHolds(r.scheme, r.cond, ParamRec(r), r) /\ r.rc = 0
  ELSE FALSE

\* ---- bignParamsGen walked over its first seeds (algorithm 6.1.3 of STB 34.101.45 as bign.h describes it): on_seed() is handed
\* seed0, seed0 + 1, ... (little-endian numbers modulo 2^64); for each of them b = B mod p with
\* B = belt-hash(p || a || seed) || belt-hash(p || a || seed + 1); calc_q() is called exactly for the seeds whose b is a
\* quadratic residue with 4a^3 + 27b^2 # 0, and sees that seed and that b; the interruption by on_seed() returns its code
BignGenOk(r) ==
  LET p == N(r.p)  a == N(r.a)
      SeedAt(i) == FoldLeft(LAMBDA s, k : IncLE(s), r.seed0, Upto(i - 1))
      BOf(s) == Mod(BignB(r.p, r.a, s), p)
      Good(s) == LET b == BOf(s) IN Eq(ModExp(b, Half(Sub2(p, One)), p), One) /\ EB!IsSmooth(EB!BCurve(p, a, b))
      goods == SelectSeq(r.seeds, Good)
  IN /\ r.rc = r.errmax /\ Len(r.seeds) = r.nmax
     /\ \A i \in 1..Len(r.seeds) : r.seeds[i] = SeedAt(i)
     /\ r.cseeds = goods
     /\ Len(r.cbs) = Len(goods) /\ \A i \in 1..Len(goods) : Eq(N(r.cbs[i]), BOf(goods[i]))

\* ---- keys
PubkeyOk(r) ==
  IF r.scheme = "pfok" THEN (r.rc = 0) = PfokPubkeyVal(PfokRec(r), N(r.Q))
  ELSE LET P == BignRec(r)  no == BignNo(r.l)
       IN Len(r.Q) = 2 * no /\ (r.rc = 0) = BignPubkeyVal(P, N(SubSeq(r.Q, 1, no)), N(SubSeq(r.Q, no + 1, 2 * no)))
KeypairOk(r) ==
  LET P == BignRec(r)  no == BignNo(r.l)
  IN (r.rc = 0) = BignKeypairVal(P, N(r.d), N(SubSeq(r.Q, 1, no)), N(SubSeq(r.Q, no + 1, 2 * no)))

\* ---- seeds
Stb99S(l, zi, di, ri) == [l |-> l, zi |-> zi, di |-> di, ri |-> ri]
PfokS(l, zi, li) == [l |-> l, zi |-> zi, li |-> li]

\* ---- primes
SpecPrime(n) == IsPrimeMR(n)                                   \* callers keep n < MRBound
PrimeLineOk(r) ==
  LET a == N(r.a)
  IN IF Decidable(a) THEN r.res = B01(IsPrimeMR(a))
     ELSE (r.res = 1 /\ Has(r, "cert") /\ CertProves(r.cert, a)) \/ (r.res = 0 /\ PrimeFails(a, r))
\* a window [A, A + cnt): table of primality over [A, A + cnt + margin), least odd prime >= each start from the table
WinBad(r) ==
  LET A == N(r.a)
      cnt == Len(r.resW)
      TL == cnt + r.margin
      T == Strict([j \in 1..TL |-> B01(SpecPrime(Norm(AddInt(A, j - 1))))])
      odd(j) == (Get(A, 1) + j - 1) % 2 = 1
      \* NX[j] = least k >= j with T[k] = 1 and A + k - 1 odd (0: none in the table); built from the top
      nxr == FoldLeft(LAMBDA acc, j : LET v == IF T[j] = 1 /\ odd(j) THEN j ELSE acc[2] IN <<Append(acc[1], v), v>>,
                      <<<<>>, 0>>, Reverse(Rng(1, TL)))
      NX == Reverse(nxr[1])
      nextOff(i) == LET l == BitLen(Norm(AddInt(A, i)))  k == NX[i + 1]
                    IN IF l <= 1 THEN -1
                       ELSE IF k # 0 THEN (IF BitLen(Norm(AddInt(A, k - 1))) = l THEN k - 1 ELSE -1)
                       ELSE IF BitLen(Norm(AddInt(A, TL))) > l THEN -1 ELSE -3          \* -3: the table does not decide
  IN {i \in 0..(cnt - 1) : r.resW[i + 1] # T[i + 1]}
     \cup {1000 + i : i \in {i \in 0..(cnt - 1) : r.resN[i + 1] # T[i + 1]}}
     \cup (IF Has(r, "nextW") THEN {2000 + i : i \in {i \in 0..(cnt - 1) : r.nextW[i + 1] # nextOff(i)}} ELSE {})
     \cup (IF Has(r, "nextN") THEN {3000 + i : i \in {i \in 0..(cnt - 1) : r.nextN[i + 1] # nextOff(i)}} ELSE {})
NextOffsets(r) ==
  LET A == N(r.a)
  IN {i \in 0..(Len(r.res) - 1) :
        LET np == NextPrime(Norm(AddInt(A, i)), 800)
        IN ~np.done \/ r.res[i + 1] # (IF np.found THEN ToInt(Sub2(np.p, A)) ELSE -1)}
NextLineOk(r) ==
  /\ r.hang = 0
  /\ LET K == IF Has(r, "trials") /\ r.trials >= 0 THEN r.trials - 1 ELSE 800
         np == NextPrime(N(r.a), K)
     IN IF K < 0 THEN r.found = 0
        ELSE IF np.done THEN r.found = B01(np.found) /\ (np.found => Eq(N(r.p), np.p))
        ELSE Has(r, "trials") /\ r.trials >= 0 /\ r.found = 0       \* not among the first trials candidates

\* ---- binary polynomials
\* for degree >= 2: a zero constant term means x | f, an even number of terms means (x + 1) | f
IrredSpec(f) == LET n == PDeg(f)
                IN n >= 1 /\ (n = 1 \/ (PBit(f, 0) = 1 /\ PWeight(f) % 2 = 1 /\ PIsIrred(f)))

\* ---- dates
DateBigOk(r) == LET v == N(r.m)
                    okm == BitLen(v) <= 16 /\ DateIsValid(2024, ToInt(v), 1)
                    okd == BitLen(v) <= 16 /\ DateIsValid(2024, 1, ToInt(v))
                IN r.rm = B01(okm) /\ r.rd = B01(okd)

Bad(r) ==
  CASE r.op = "dateYY" ->
         BadOffsets(r.res, LAMBDA v : DateIsValid2(<<r.yy[1], r.yy[2], v \div 1000, (v \div 100) % 10, (v \div 10) % 10, v % 10>>))
    [] r.op = "dateND" ->
         BadOffsets(r.res, LAMBDA v : DateIsValid2([k \in 1..6 |-> IF k = r.pos + 1 THEN v + 10 ELSE r.base[k]]))
    [] r.op = "dateND2" ->
         BadOffsets(r.res, LAMBDA v : DateIsValid2([k \in 1..6 |-> IF k = r.pos + 1 THEN v \div 32
                                                                   ELSE IF k = r.pos + 2 THEN v % 32 ELSE r.base[k]]))
    [] r.op = "dateYMD" -> BadOffsets(r.res, LAMBDA v : DateIsValidN(N(r.y), v \div 33, v % 33))
    [] r.op = "dateBig" -> Scalar(DateBigOk(r))
    [] r.op = "win" -> WinBad(r)
    [] r.op = "primeWin" -> LET A == N(r.a) IN BadOffsets(r.res, LAMBDA i : SpecPrime(Norm(AddInt(A, i))))
    [] r.op = "nextWin" -> NextOffsets(r)
    [] r.op = "irredWin" -> BadOffsets(r.res, LAMBDA i : IrredSpec(<<r.a + i>>))
    [] r.op = "belsValM" -> Scalar(LET v == r.len \in {16, 24, 32} /\ Len(r.m) = r.len /\ IrredSpec(BelsPoly(r.m, r.len))
                                   IN (r.rc = 0) = v /\ (Has(r, "irred") => r.irred = B01(v)))
    [] r.op = "ppIrred" -> Scalar(r.res = B01(IrredSpec(POfOctets(r.a))))
    [] r.op = "isPrime" -> Scalar(PrimeLineOk(r))
    [] r.op = "sgPrime" -> Scalar(LET p == Norm(AddInt(MulInt(N(r.a), 2), 1))
                                  IN IF Decidable(p) THEN r.res = B01(IsPrimeMR(p))
                                     ELSE (r.res = 1 /\ Has(r, "cert") /\ CertProves(r.cert, p)) \/ (r.res = 0 /\ PrimeFails(p, r)))
    [] r.op = "nextPrime" -> Scalar(NextLineOk(r))
    [] r.op = "sieved" -> Scalar(r.hang = 0 /\ r.res = B01(IsSieved(N(r.a), r.base)))
    [] r.op = "smooth" -> Scalar(r.hang = 0 /\ r.res = B01(IsSmooth(N(r.a), r.base)))
    [] r.op = "basePrimes" -> Scalar(r.size = Len(r.primes) /\ r.size <= Len(OddPrimeSeq)
                                     /\ \A i \in 1..r.size : r.primes[i] = OddPrimeSeq[i])
    [] r.op = "stb99SeedVal" -> Scalar((r.rc = 0) = Stb99SeedVal(Stb99S(r.l, r.zi, r.di, r.ri)))
    [] r.op = "stb99SeedAdj" -> Scalar(LET adj == Stb99SeedAdj(Stb99S(r.l, r.zi, r.di, r.ri))
                                       IN (r.rc = 0) = adj[1] /\ (adj[1] => Stb99S(r.l, r.ozi, r.odi, r.ori) = adj[2]))
    [] r.op = "pfokSeedVal" -> Scalar((r.rc = 0) = PfokSeedVal(PfokS(r.l, r.zi, r.li)))
    [] r.op = "pfokSeedAdj" -> Scalar(LET adj == PfokSeedAdj(PfokS(r.l, r.zi, r.li))
                                      IN (r.rc = 0) = adj[1] /\ (adj[1] => PfokS(r.l, r.ozi, r.oli) = adj[2]))
    [] r.op = "pval" -> Scalar(PvalOk(r))
    \* generation from the standard's seed reproduces the standard's table, and the generated set passes the cheap conditions
    [] r.op = "paramsGen" -> Scalar(/\ r.rcStd = 0 /\ r.rcGen = 0 /\ r.sameAsStd = 1 /\ r.rc = 0
                                    /\ \A c \in (IF r.scheme = "stb99" THEN {"lr", "plen", "qlen", "qdiv", "arange", "drange", "anotone"}
                                                  ELSE {"lr", "nl", "plen", "grange"}) : CondHolds(r.scheme, c, ParamRec(r), r))
    [] r.op = "bignGen" -> Scalar(BignGenOk(r))
    [] r.op = "pubkeyVal" -> Scalar(PubkeyOk(r))
    [] r.op = "keypairVal" -> Scalar(KeypairOk(r))
    \* crafted (p, q) with a claimed embedding degree k (0: no claim): 900 = the claim about the pair is wrong (generator),
    \* 901 = no evidence decides the primality of q; else the offsets of the thresholds answered wrongly
    [] r.op = "safeGroup" ->
         LET p == N(r.p)  q == N(r.q)
             known == Decidable(q) \/ Has(r, "cert") \/ Has(r, "fo") \/ Has(r, "sf")
             qprime == IF Decidable(q) THEN IsPrimeMR(q)
                       ELSE IF Has(r, "cert") THEN CertProves(r.cert, q) ELSE ~PrimeFails(q, r)
         IN IF r.rc # 0 THEN {0}
            ELSE IF ~known \/ (~Decidable(q) /\ ~Has(r, "cert") /\ ~PrimeFails(q, r)) THEN {901}
            ELSE IF r.k > 0 /\ ~(qprime /\ OrderIs(p, q, r.k)) THEN {900}
            ELSE BadOffsets(r.res, LAMBDA i : SafeGroup(p, q, qprime, r.thr[i + 1]))
    [] r.op = "onA" -> IF r.rc # 0 THEN {0}
                       ELSE LET E == [p |-> ToInt(N(r.p)), A |-> ToInt(N(r.A)), B |-> ToInt(N(r.B))]
                            IN BadOffsets(r.res, LAMBDA y : EI!IsOnCurve(E, r.x, y))
    [] OTHER -> {0}                                          \* unknown op = rejected, never silently ok

LeastOf(S) == CHOOSE x \in S : \A y \in S : x <= y

VARIABLES phase, idx, ok
Init == phase = 0 /\ idx = 0 /\ ok = TRUE
Next == \/ phase = 0 /\ phase' = 1 /\ idx' \in 1..Len(Tr) /\ ok' = TRUE
        \/ phase = 1 /\ phase' = 2 /\ idx' = idx
                     /\ LET b == Bad(Tr[idx])
                        IN /\ ok' = (b = {})
                           /\ (ok' \/ (PrintT(<<"@BAD", idx>>) /\ PrintT(<<"@DETAIL", idx, Cardinality(b), LeastOf(b)>>)))
=============================================================================
