INIT Init
NEXT Next
