----------------------------- MODULE Trace_Bake -----------------------------
(* C04, Pattern F: every recorded run of a key-establishment protocol (harness/drv_bake.c) is judged by
   recomputing its outcome with the specification sm/Bake.tla:
     1. CLASSIFY the concrete altered point, if a point was altered: on the curve y^2 = x^3 + ax + b of the
        standard parameters (ref/BtokCurves over lib/BigNat), a coordinate >= p, or off the curve; a point on
        the curve is the negative of the original one or another valid point.  The class selects the
        attacker action of the model (an octet flip may, by chance, give another valid point);
     2. RunCase(protocol, kca, kcb, action) gives the codes of all executed steps, who ends with a key, and
        whether the keys agree; mode = "steps": the logged step codes must be exactly these; mode = "run"
        (RunA / RunB over a channel): each driver returns the code of its party's failing step, ERR_OK, or is
        left waiting for a message that never comes (BLOCKED).                                      *)
EXTENDS Bake, Json, IOUtils
BC == INSTANCE BtokCurves

Tr == ndJsonDeserialize(IOEnv.TRACE)

\* pt = (x, p - y) of orig?
IsNegOf(pt, orig) ==
  LET no == Len(pt) \div 2
      p == BC!FromOctets(BC!StdCurveOctets(Len(pt)).p)
  IN /\ SubSeq(pt, 1, no) = SubSeq(orig, 1, no)
     /\ BC!Eq(BC!Add(BC!FromOctets(SubSeq(pt, no + 1, 2 * no)), BC!FromOctets(SubSeq(orig, no + 1, 2 * no))), p)
\* the attacker action of the model that the concrete action amounts to ("?" = the harness did not build what it claims)
ModelKind(r) ==
  IF r.at \in {"none", "setup"} THEN r.kind
  ELSE IF ~IsPointPart(r.part) THEN (IF r.kind = "flip" THEN "flip" ELSE "?")
  ELSE LET cls == BC!PointClass(r.pt)
           onKind == IF r.pt = r.orig THEN "?" ELSE IF IsNegOf(r.pt, r.orig) THEN "neg" ELSE "other"
       IN CASE r.kind = "neg" -> IF cls = "on" /\ onKind = "neg" THEN "neg" ELSE "?"
            [] r.kind = "other" -> IF cls = "on" /\ onKind = "other" THEN "other" ELSE "?"
            [] r.kind = "off" -> IF cls = "off" THEN "off" ELSE "?"
            [] r.kind = "xgep" -> IF cls = "xgep" THEN "xgep" ELSE "?"
            [] r.kind = "zero" -> IF cls = "off" /\ (\A i \in 1..Len(r.pt) : r.pt[i] = 0) THEN "zero" ELSE "?"
            [] r.kind = "flip" -> IF cls = "on" THEN onKind ELSE cls
            [] OTHER -> "?"

FirstErr(log, X) ==          \* the code of the failing step of party X, or "OK"
  FoldLeft(LAMBDA acc, e : IF acc = "OK" /\ e.rc # "OK" /\ WhoRuns(e.step) = X THEN e.rc ELSE acc, "OK", log)
RunCode(o, X) == LET e == FirstErr(o.log, X) IN
                 IF e # "OK" THEN e ELSE IF (IF X = "A" THEN o.doneA ELSE o.doneB) THEN "OK" ELSE "BLOCKED"

RunOk(r) ==
  LET kind == ModelKind(r) IN
  IF kind = "?" \/ ~FlagsOk(r.proto, r.kca, r.kcb) THEN FALSE
  ELSE LET atk == [at |-> r.at, part |-> r.part, kind |-> kind, who |-> r.who]
           o == Outcome(RunCase(r.proto, r.kca, r.kcb, atk))
       IN /\ r.doneA = o.doneA /\ r.doneB = o.doneB /\ r.agree = o.agree
          /\ IF r.mode = "steps"
             THEN r.steps = [i \in 1..Len(o.log) |-> o.log[i].step \o "=" \o o.log[i].rc]
             ELSE r.steps = <<"RunA=" \o RunCode(o, "A"), "RunB=" \o RunCode(o, "B")>>

LineOk(r) == CASE r.op = "run" -> RunOk(r)
               [] r.op = "classify" -> r.cls = BC!PointClass(r.pt)
               [] OTHER -> FALSE

VARIABLES phase, idx, ok
TInit == phase = 0 /\ idx = 0 /\ ok = TRUE /\ g = InitState("BMQV", TRUE, TRUE, NoAtk)
TNext == /\ UNCHANGED g
        /\ \/ phase = 0 /\ phase' = 1 /\ idx' \in 1..Len(Tr) /\ ok' = TRUE
           \/ phase = 1 /\ phase' = 2 /\ idx' = idx /\ ok' = LineOk(Tr[idx])
                        /\ (ok' \/ PrintT(<<"@BAD", idx, IF Tr[idx].op = "run" THEN ModelKind(Tr[idx]) ELSE "-">>))
=============================================================================
