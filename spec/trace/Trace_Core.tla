----------------------------- MODULE Trace_Core -----------------------------
(* Pattern F: every line written by harness/drv_core.c (one call, or one batch of placements of an interval predicate)
   is recomputed with ref/Core.tla.  For the functions that write, "pre" / "post" are all buffers of the call laid
   side by side before / after it, and the remaining fields place the buffers in that image (0-based offsets), so a
   line is accepted iff the function wrote exactly what the header says and nothing else.  Every line is also checked
   for ADMISSIBILITY (buffers inside the image, the header's aliasing precondition): an inadmissible line is a fault of
   the generator and is rejected as well. *)
EXTENDS Core, Json, IOUtils, TLC

Tr == ndJsonDeserialize(IOEnv.TRACE)

Has(r, f) == f \in DOMAIN r
SameLen(r) == Len(r.post) = Len(r.pre)
In(r, o, n) == InBuf(Len(r.pre), o, n)
IsU(s, n) == Len(s) = n /\ IsOctets(s)
IsStr(s) == \A i \in 1..Len(s) : s[i] \in 1..255
IvSeq(A) == Intervals(A)
\* results of a batch over the k-tuples of intervals that follow the fixed ones
Batch2(A, fixed) == LET iv == IvSeq(A) IN [j \in 1..Len(iv) |-> B01(PairwiseDisjoint(fixed \o <<iv[j]>>))]
Batch3(A, fixed) == LET iv == IvSeq(A) IN
   Concat([j \in 1..Len(iv) |-> [k \in 1..Len(iv) |-> B01(PairwiseDisjoint(fixed \o <<iv[j], iv[k]>>))]])

MemOk(r) ==
  CASE r.op \in {"memCopy", "memMove", "memCopyIf"} ->
         /\ SameLen(r) /\ In(r, r.do, r.n) /\ In(r, r.so, r.n)
         /\ (r.op = "memMove" \/ Disjoint(r.do, r.so, r.n))                     \* mem.h: "Буферы src и dest не пересекаются"
         /\ IF r.op = "memCopyIf" /\ (r.dn = 1 \/ r.sn = 1) THEN r.post = r.pre
            ELSE r.post = MemCopy(r.pre, r.do, r.so, r.n)
    [] r.op = "memSet"     -> SameLen(r) /\ In(r, r.o, r.n) /\ r.post = MemSet(r.pre, r.o, r.c, r.n)
    [] r.op = "memSetZero" -> SameLen(r) /\ In(r, r.o, r.n) /\ r.post = MemSet(r.pre, r.o, 0, r.n)
    [] r.op = "memNeg"     -> SameLen(r) /\ In(r, r.o, r.n) /\ r.post = MemNeg(r.pre, r.o, r.n)
    [] r.op = "memRev"     -> SameLen(r) /\ In(r, r.o, r.n) /\ r.post = MemRev(r.pre, r.o, r.n)
    [] r.op = "memNonZeroSize" -> In(r, r.o, r.n) /\ r.post = r.pre /\ r.res = MemNonZeroSize(Get(r.pre, r.o, r.n))
    [] r.op = "memSwap"    -> /\ SameLen(r) /\ In(r, r.o1, r.n) /\ In(r, r.o2, r.n) /\ Disjoint(r.o1, r.o2, r.n)
                              /\ r.post = MemSwap(r.pre, r.o1, r.o2, r.n)
    [] r.op = "memXor"     -> /\ SameLen(r) /\ In(r, r.do, r.n) /\ In(r, r.s1, r.n) /\ In(r, r.s2, r.n)
                              /\ SameOrDisjoint(r.do, r.s1, r.n) /\ SameOrDisjoint(r.do, r.s2, r.n)
                              /\ r.post = MemXor(r.pre, r.do, r.s1, r.s2, r.n)
    [] r.op = "memXor2"    -> /\ SameLen(r) /\ In(r, r.do, r.n) /\ In(r, r.so, r.n) /\ SameOrDisjoint(r.do, r.so, r.n)
                              /\ r.post = MemXor(r.pre, r.do, r.do, r.so, r.n)
    \* ---- interval predicates: batches in the canonical order of the placements
    [] r.op = "memIsDisjoint" ->
         r.res = Concat([i \in 1..(r.A - r.n + 1) |-> [j \in 1..(r.A - r.n + 1) |-> B01(Disjoint(i - 1, j - 1, r.n))]])
    [] r.op = "memIsSameOrDisjoint" ->
         r.res = Concat([i \in 1..(r.A - r.n + 1) |-> [j \in 1..(r.A - r.n + 1) |-> B01(SameOrDisjoint(i - 1, j - 1, r.n))]])
    [] r.op = "memIsDisjoint2" -> r.o1 + r.n1 <= r.A /\ r.res = Batch2(r.A, <<<<r.o1, r.n1>>>>)
    [] r.op = "memIsDisjoint3" -> r.o1 + r.n1 <= r.A /\ r.res = Batch3(r.A, <<<<r.o1, r.n1>>>>)
    [] r.op = "memIsDisjoint4" -> r.o1 + r.n1 <= r.A /\ r.o2 + r.n2 <= r.A /\ r.res = Batch3(r.A, <<<<r.o1, r.n1>>, <<r.o2, r.n2>>>>)
    [] r.op = "memIsAligned" ->
         /\ r.base % r.size = 0 /\ Len(r.res) = Len(r.offs)              \* the address modulo size is the offset modulo size
         /\ \A i \in 1..Len(r.offs) : r.res[i] = B01(Aligned(r.offs[i], r.size))

StrOk(r) ==
  CASE r.op = "strLen"     -> IsStr(r.s) /\ r.res = Len(r.s) /\ r.post = StrBuf(r.s)
    [] r.op = "strIsValid" -> IsStr(r.s) /\ r.res = 1 /\ r.post = StrBuf(r.s)
    [] r.op = "strLen2"    -> IsStr(r.s) /\ r.res = StrLen2(r.s, r.count)
    [] r.op = "strCopy"    -> IsStr(r.s) /\ r.out = StrBuf(r.s) /\ r.post = StrBuf(r.s)
    [] r.op = "strRev"     -> IsStr(r.s) /\ r.out = StrBuf(StrRev(r.s))
    [] r.op = "strSet"     -> IsStr(r.s) /\ r.c \in 1..255 /\ r.out = StrBuf(Rep(Len(r.s), r.c))
    [] r.op = "strCmp"     -> IsStr(r.a) /\ IsStr(r.b) /\ r.res = StrCmp(r.a, r.b)        \* str.h: 1 / -1 / 0
    [] r.op = "strEq"      -> IsStr(r.a) /\ IsStr(r.b) /\ r.res = B01(r.a = r.b)
    [] r.op = "strIsNumeric"      -> IsStr(r.s) /\ r.res = B01(StrIsNumeric(r.s)) /\ r.post = StrBuf(r.s)
    [] r.op = "strIsAlphanumeric" -> IsStr(r.s) /\ r.res = B01(StrIsAlphanumeric(r.s)) /\ r.post = StrBuf(r.s)
    [] r.op = "strIsPrintable"    -> IsStr(r.s) /\ r.res = B01(StrIsPrintable(r.s)) /\ r.post = StrBuf(r.s)
    [] r.op = "strStartsWith"     -> IsStr(r.a) /\ IsStr(r.b) /\ r.res = B01(StrStartsWith(r.a, r.b))
    [] r.op = "strEndsWith"       -> IsStr(r.a) /\ IsStr(r.b) /\ r.res = B01(StrEndsWith(r.a, r.b))

\* the checksum of a message given in parts: the k-th call returns the checksum of the first k parts (util.h)
Prefix(parts, k) == Concat(SubSeq(parts, 1, k))
UtilOk(r) ==
  CASE r.op = "decFromU64" -> IsU(r.v, 8) /\ r.out = StrBuf(DecFromU64(r.count, r.v))
    [] r.op = "decToU64"   -> StrIsNumeric(r.s) /\ r.res = DecToU64(r.s)
    [] r.op = "utilMin"    -> Len(r.args) >= 1 /\ IsMinOf(r.res, r.args)
    [] r.op = "utilMax"    -> Len(r.args) >= 1 /\ IsMaxOf(r.res, r.args)
    [] r.op = "utilCRC32"  -> /\ r.st = <<0, 0, 0, 0>> /\ Len(r.res) = Len(r.parts)       \* "При первом обращении состояние state должно быть нулевым"
                              /\ \A k \in 1..Len(r.parts) : r.res[k] = CRC32(Prefix(r.parts, k))
    [] r.op = "utilFNV32"  -> /\ r.st = FnvBasis /\ Len(r.res) = Len(r.parts)
                              /\ \A k \in 1..Len(r.parts) : r.res[k] = FNV32(FnvBasis, Prefix(r.parts, k))

BeltOk(r) ==
  CASE r.op \in {"beltBlockEncr2", "beltBlockEncr3"} -> IsU(r.key, 32) /\ IsU(r.a, 16) /\ r.out = Encr2(r.a, r.key)
    [] r.op \in {"beltBlockDecr2", "beltBlockDecr3"} -> IsU(r.key, 32) /\ IsU(r.a, 16) /\ r.out = Decr2(r.a, r.key)
    [] r.op = "beltCompr" -> /\ IsU(r.h, 32) /\ IsU(r.x, 32) /\ IsU(r.s, 16)
                             /\ r.out = Compr(r.h, r.x) /\ r.xpost = r.x
                             /\ r.out2 = r.out /\ r.s2 = XorS(r.s, ComprS(r.h, r.x))      \* beltCompr2: the same h, S added to s

ObjOk(r) ==
  CASE r.op = "objAcc" ->
         /\ r.gkeep = r.keep /\ r.gpc = r.pc /\ r.goc = r.oc /\ r.gend = r.keep
         /\ Len(r.ptrs) = r.pc /\ r.gptrs = r.ptrs /\ r.gcptrs = r.ptrs
         /\ (Has(r, "store") => r.stored = r.store)
    [] r.op = "objIsOperable" ->
         /\ r.res = B01(Operable(r.nodes, r.hs, r.ps))
         /\ r.res2 = B01(Operable2(r.nodes[1], r.hs, r.ps))
    [] r.op = "objCopy" ->
         /\ NodeKey(r.src[1]) = r.sat /\ r.src[1].keep = r.keep /\ Operable(r.src, r.hs, r.ps)      \* "Объект src работоспособен"
         /\ r.dst = CopyResult(r.src, r.dat) /\ r.dstimg = r.srcimg
         /\ (Has(r, "src2") => r.src2 = r.src /\ r.src2img = r.srcimg)
    [] r.op = "objAppend" ->
         /\ NodeKey(r.d[1]) = r.dat /\ NodeKey(r.s[1]) = r.sat
         /\ Operable(r.d, r.hs, r.ps) /\ Operable(r.s, r.hs, r.ps) /\ r.i < r.d[1].oc
         /\ {r.d2[k] : k \in 1..Len(r.d2)} = AppendResult(r.d, r.s, r.i)
         /\ Len(r.d2) = Cardinality(AppendResult(r.d, r.s, r.i))
         /\ NodeKey(r.d2[1]) = r.dat
         /\ r.d2img = r.dimg \o r.simg
         /\ (Has(r, "s2") => r.s2 = r.s /\ r.s2img = r.simg)

MemOps == {"memCopy", "memMove", "memCopyIf", "memSet", "memSetZero", "memNeg", "memRev", "memNonZeroSize", "memSwap", "memXor", "memXor2",
           "memIsDisjoint", "memIsSameOrDisjoint", "memIsDisjoint2", "memIsDisjoint3", "memIsDisjoint4", "memIsAligned"}
StrOps == {"strLen", "strIsValid", "strLen2", "strCopy", "strRev", "strSet", "strCmp", "strEq", "strIsNumeric", "strIsAlphanumeric",
           "strIsPrintable", "strStartsWith", "strEndsWith"}
UtilOps == {"decFromU64", "decToU64", "utilMin", "utilMax", "utilCRC32", "utilFNV32"}
BeltOps == {"beltBlockEncr2", "beltBlockEncr3", "beltBlockDecr2", "beltBlockDecr3", "beltCompr"}
ObjOps == {"objAcc", "objIsOperable", "objCopy", "objAppend"}

LineOk(r) ==
  CASE r.op \in MemOps  -> MemOk(r)
    [] r.op \in StrOps  -> StrOk(r)
    [] r.op \in UtilOps -> UtilOk(r)
    [] r.op \in BeltOps -> BeltOk(r)
    [] r.op \in ObjOps  -> ObjOk(r)
    [] OTHER -> FALSE                        \* unknown operation = rejected, never silently accepted

VARIABLES phase, idx, ok
Init == phase = 0 /\ idx = 0 /\ ok = TRUE
Next == \/ phase = 0 /\ phase' = 1 /\ idx' \in 1..Len(Tr) /\ ok' = TRUE
        \/ phase = 1 /\ phase' = 2 /\ idx' = idx /\ ok' = LineOk(Tr[idx])
                     /\ (ok' \/ PrintT(<<"@BAD", idx>>))
=============================================================================
