INIT TInit
NEXT TNext
