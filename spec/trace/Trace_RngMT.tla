---------------------------- MODULE Trace_RngMT ----------------------------
(* C18, record direction: runs of the REAL rng.c / mt.c under free-running pthreads
   (harness/drv_rng.c stress) are validated against sm/RngMT.tla.

   One line of the ndjson trace = one logged event = one trace action.  An event that the code
   can only log after several atomic steps of the specification is bound to their composition
   (A \cdot B, evaluated by TLC with -Dtlc2.tool.impl.Tool.cdot=true); the last stage of every
   composition (Adv) compares the logged fields with the state reached and consumes the line.

     Reset   new execution: threads, value of the trigger, programs (several executions per process,
             several processes per file; first = first execution of a process)
     Call    the thread enters a call                          Dispatch
     Cas     result of the CAS in mtCallOnce (hooks only)      CCasWin | CCasSpin | CCasDone
     Pub     the publication, value before/after (hooks only)  [IMtx.IReg.ISet.] CPub
     Lock    after pthread_mutex_lock, _ctr/_state seen        [once.] [CChk|VChk.] Lock
     Gen     brngCTRStepR/brngCTRStart requested by rng.o      (must lie in the critical section)
     Blob    blobCreate/blobClose requested by rng.o           (the same)
     Unlock  before pthread_mutex_unlock, _ctr/_state seen     Body . Unlock
     Ret     the call returned: value, units written, the      (early returns: VChk / CChk)
             8-octet units themselves: none seen before
     End     all threads joined: balanced
     Race    a ThreadSanitizer report: NO action - the trace is rejected at this line.

   The initialiser's three steps are not observable: they may be taken (all at once) before any
   event, and must have been taken before the publication.
   Without the once-hooks (obs_once = FALSE: tsan build, or a tree without the points) the whole
   of mtCallOnce is bound to the Lock/Ret event of rngCreate. *)
EXTENDS RngMT, Json, IOUtils

Tr == ndJsonDeserialize(IOEnv.TRACE)

VARIABLES l,        \* next line
          tags,     \* 8-octet units handed out in this execution
          obs       \* [once |-> once-events are logged, n |-> threads of the execution]
tvars == <<vars, l, tags, obs>>

TN == <<"t1", "t2", "t3", "t4", "t5", "t6", "t7", "t8", "t9", "t10", "t11", "t12", "t13", "t14", "t15", "t16">>
TraceThreads == {TN[i] : i \in 1..16}
TraceLens == 0..16

Ev == Tr[l]
IsEv(e) == l <= Len(Tr) /\ Ev.e = e
Th == TN[Ev.th]

\* a step of the specification inside a composition
K(A) == A /\ UNCHANGED <<l, tags, obs>>
\* last stage: compare and consume the line
Adv(cond) == cond /\ l' = l + 1 /\ UNCHANGED <<vars, tags, obs>>

PeekOk == Ev.ctr = -1 \/ (Ev.ctr = ctr /\ (Ev.valid = 1) = st.valid)

TraceInit ==
  /\ Init /\ l = 1 /\ tags = {} /\ obs = [once |-> FALSE, n |-> 0]

AllIdle == \A t \in Threads : pc[t] = "idle"

TraceReset ==
  /\ IsEv("Reset")
  /\ AllIdle /\ mtx = Free /\ ctr = 0 /\ ~st.valid
  /\ ((l > 1 /\ ~Ev.first) => once = Ev.once)   \* the trigger keeps its value between the executions of a process
  /\ once' = Ev.once /\ inited' = Ev.inited /\ mtx' = Free /\ ctr' = 0 /\ st' = NullSt /\ epochs' = 0 /\ out' = {}
  /\ pc' = [t \in Threads |-> "idle"] /\ op' = [t \in Threads |-> "none"]
  /\ calls' = [t \in Threads |-> 0] /\ refs' = [t \in Threads |-> 0]
  /\ req' = [t \in Threads |-> 0] /\ res' = [t \in Threads |-> NoRes]
  /\ initRuns' = (IF Ev.once = 1 THEN 1 ELSE 0) /\ initDone' = (Ev.once = 1)
  /\ Ev.once \in {0, 1} /\ (Ev.once = 1) = Ev.inited
  /\ tags' = {} /\ obs' = [once |-> Ev.obs_once, n |-> Ev.n] /\ l' = l + 1

TraceCall ==
  /\ IsEv("Call") /\ Ev.th \in 1..obs.n
  /\ Dispatch(Th, Ev.call, Ev.req)
  /\ l' = l + 1 /\ UNCHANGED <<tags, obs>>

TraceCas ==
  /\ IsEv("Cas") /\ obs.once /\ Ev.call = "Create"
  /\ \/ Ev.res = "win" /\ CCasWin(Th)
     \/ Ev.res = "spin" /\ CCasSpin(Th)
     \/ Ev.res = "done" /\ CCasDone(Th)
  /\ l' = l + 1 /\ UNCHANGED <<tags, obs>>

TracePub ==
  /\ IsEv("Pub") /\ obs.once
  /\ Ev.pre = BUSY /\ Ev.post = 1
  /\ \/ once = BUSY /\ CPub(Th)
     \/ pc[Th] = "c_chk" /\ once = 1 /\ IsValidSync /\ UNCHANGED vars     \* already seen by an rngIsValid, see TraceNext
  /\ l' = l + 1 /\ UNCHANGED <<tags, obs>>

\* the unobservable steps of rngInit, taken at once by the winner of the trigger
InitSteps(w) == K(IMtx(w)) \cdot K(IReg(w)) \cdot K(ISet(w))
\* mtCallOnce as one step when it is not observed (the thread may have been moved on by Hidden)
OncePass(t) ==
  \/ pc[t] = "c_cas" /\ once = 0 /\ (K(CCasWin(t)) \cdot InitSteps(t) \cdot K(CPub(t)))
  \/ pc[t] = "c_cas" /\ once = 1 /\ K(CCasDone(t))
  \/ pc[t] = "c_pub" /\ K(CPub(t))

LockBind == Adv(op[Th] = Ev.call /\ mtx = Th /\ PeekOk)
TraceLock ==
  /\ IsEv("Lock")
  /\ \/ pc[Th] = "lock" /\ (K(Lock(Th)) \cdot LockBind)
     \/ pc[Th] = "c_chk" /\ (K(CChk(Th)) \cdot K(Lock(Th)) \cdot LockBind)
     \/ pc[Th] = "v_chk" /\ ~IsValidSync /\ (K(VChk(Th)) \cdot K(Lock(Th)) \cdot LockBind)
     \/ pc[Th] = "v_chk" /\ IsValidSync /\ (K(VChk(Th)) \cdot K(VChk2(Th)) \cdot K(Lock(Th)) \cdot LockBind)
     \/ pc[Th] \in {"c_cas", "c_pub"} /\ ~obs.once /\ (OncePass(Th) \cdot K(CChk(Th)) \cdot K(Lock(Th)) \cdot LockBind)

\* which generator / blob function may a body call?   0 brngCTRStepR  1 brngCTRStart  2 blobCreate  3 blobClose
GenOk(c, w) ==
  CASE w = 0 -> c \in {"StepR", "StepR2", "Rekey"} \/ (c = "Create" /\ ctr > 0)
    [] w = 1 -> c = "Rekey" \/ (c = "Create" /\ ctr = 0)
    [] w = 2 -> c = "Create" /\ ctr = 0
    [] w = 3 -> c = "Close" /\ ctr = 1
    [] OTHER -> FALSE
TraceGen ==
  /\ (IsEv("Gen") \/ IsEv("Blob"))
  /\ Adv(Ev.locked /\ mtx = Th /\ pc[Th] = "body" /\ op[Th] = Ev.call /\ GenOk(op[Th], Ev.which))

TraceUnlock ==
  /\ IsEv("Unlock") /\ pc[Th] = "body" /\ mtx = Th /\ op[Th] = Ev.call
  /\ (K(Body(Th)) \cdot K(Unlock(Th)) \cdot Adv(PeekOk))

TagSet == {Ev.tags[i] : i \in 1..Len(Ev.tags)}
RetBind ==
  /\ pc[Th] = "idle" /\ op[Th] = Ev.call /\ res[Th].v = Ev.rc
  /\ IF Ev.call \in StepOps
       THEN /\ Ev.req = req[Th] /\ Ev.n = Ev.req /\ res[Th].n = Ev.n       \* the full length
            /\ Len(Ev.tags) = Ev.n
            /\ Cardinality(TagSet) = Len(Ev.tags) /\ TagSet \cap tags = {}      \* no unit handed out twice
            /\ tags' = tags \cup TagSet
       ELSE /\ Ev.n = 0 /\ tags' = tags
  /\ l' = l + 1 /\ UNCHANGED <<vars, obs>>
TraceRet ==
  /\ IsEv("Ret")
  /\ \/ RetBind
     \/ pc[Th] = "v_chk" /\ (K(VChk(Th)) \cdot RetBind)
     \/ pc[Th] = "v_chk" /\ IsValidSync /\ (K(VChk(Th)) \cdot K(VChk2(Th)) \cdot RetBind)
     \/ pc[Th] = "c_chk" /\ (K(CChk(Th)) \cdot RetBind)
     \/ pc[Th] \in {"c_cas", "c_pub"} /\ ~obs.once /\ (OncePass(Th) \cdot K(CChk(Th)) \cdot RetBind)

TraceEnd ==
  /\ IsEv("End")
  /\ Adv(Ev.lost = 0 /\ AllIdle /\ mtx = Free /\ ctr = 0 /\ ~st.valid /\ \A t \in Threads : refs[t] = 0)

Event == TraceReset \/ TraceCall \/ TraceCas \/ TracePub \/ TraceLock \/ TraceGen \/ TraceUnlock \/ TraceRet \/ TraceEnd
\* Unobservable steps that may precede an event.  With the once-events logged these are the three
\* steps of rngInit (between the winning CAS and the publication).  Without them another thread's
\* mtCallOnce may have won, initialised and published before the event (its own Lock event comes later).
TraceNext ==
  \/ Event
  \/ \E w \in Threads : pc[w] = "i_mtx" /\ (InitSteps(w) \cdot Event)
  \* rngIsValid reads the trigger outside every bracket: it may see the publication before the Pub event is stamped
  \/ \E w \in Threads : obs.once /\ IsValidSync /\ pc[w] = "c_pub" /\ IsEv("Lock") /\ Ev.call = "IsValid" /\ (K(CPub(w)) \cdot Event)
  \/ \E w \in Threads : ~obs.once /\ pc[w] = "c_cas" /\ once = 0 /\ (K(CCasWin(w)) \cdot InitSteps(w) \cdot Event)
  \/ \E w \in Threads : ~obs.once /\ pc[w] = "c_cas" /\ once = 0 /\ (K(CCasWin(w)) \cdot InitSteps(w) \cdot K(CPub(w)) \cdot Event)
  \/ \E w \in Threads : ~obs.once /\ pc[w] = "c_pub" /\ (K(CPub(w)) \cdot Event)
TraceSpec == TraceInit /\ [][TraceNext]_tvars

TraceAccepted ==
  LET d == TLCGet("stats").diameter IN
  IF d - 1 = Len(Tr) THEN TRUE
  ELSE /\ PrintT(<<"@REJECT", d, IF d <= Len(Tr) THEN Tr[d] ELSE "end">>) /\ FALSE
=============================================================================
