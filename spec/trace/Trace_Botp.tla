----------------------------- MODULE Trace_Botp -----------------------------
(* C03, record direction for the botp state objects: the call histories executed by harness/drv_botp.c
   on ONE real state object are stepped through the actions of sm/BotpSM.tla.  Every logged field is
   bound: the arguments select the action instance, the outputs (password, verdict, counter returned by
   StepG, the counter the object holds after the call -- pc) must be the successor state's.  The
   password values are the reference semantics itself (OtpH <- Botp!HOTP, OtpO <- Botp!OCRA).
   Histories are concatenated with Reset lines; run with -workers 1 (TraceAccepted uses the diameter). *)
EXTENDS BotpSM, Json, IOUtils, TLC

Tr == ndJsonDeserialize(IOEnv.TRACE)

HotpRef(d, k, c) == HOTP(d, k, c)
OcraRef(u, k, q, c, p, s, tbe) == OCRA(u, k, q, c, p, s, tbe)

VARIABLE idx
tvars == <<vars, idx>>

TInit == Init /\ idx = 1

L == Tr[idx]
IsEvent(e) == idx <= Len(Tr) /\ Tr[idx].e = e /\ idx' = idx + 1
\* the projected counter is bound wherever the header defines it
PcOk == IF HasCtrOf(vMode', vSet', vPr') THEN L.pc = vCtr' ELSE TRUE

TReset == /\ IsEvent("Reset")
          /\ vMode' = "off" /\ vDigit' = 0 /\ vKey' = <<>> /\ vCtr' = <<>> /\ vSet' = FALSE
          /\ vSuite' = <<>> /\ vPr' = NoParse /\ vP' = <<>> /\ vS' = <<>>
          /\ vRes' = Res("none", <<>>, TRUE, <<>>)

THotpStart == IsEvent("HotpStart") /\ HotpStart(L.digit, L.key)
THotpStepS == IsEvent("HotpStepS") /\ HotpStepS(L.ctr) /\ PcOk
THotpStepR == IsEvent("HotpStepR") /\ HotpStepR /\ vRes'.otp = L.otp /\ PcOk
THotpStepV == IsEvent("HotpStepV") /\ HotpStepV(L.arg) /\ vRes'.ok = L.ok /\ PcOk
THotpStepG == IsEvent("HotpStepG") /\ HotpStepG /\ vRes'.ctr = L.got /\ PcOk
TMove      == IsEvent("Move") /\ Move /\ PcOk
TTotpStart == IsEvent("TotpStart") /\ TotpStart(L.digit, L.key)
TTotpStepR == IsEvent("TotpStepR") /\ TotpStepR(L.t) /\ vRes'.otp = L.otp
TTotpStepV == IsEvent("TotpStepV") /\ TotpStepV(L.arg, L.t) /\ vRes'.ok = L.ok
TOcraStart == IsEvent("OcraStart") /\ OcraStart(L.suite, L.key) /\ vRes'.ok = L.ok
TOcraStepS == IsEvent("OcraStepS") /\ OcraStepS(L.ctr, L.p, L.s) /\ PcOk
TOcraStepR == IsEvent("OcraStepR") /\ OcraStepR(L.q, L.t) /\ vRes'.otp = L.otp /\ PcOk
TOcraStepV == IsEvent("OcraStepV") /\ OcraStepV(L.arg, L.q, L.t) /\ vRes'.ok = L.ok /\ PcOk
\* without a counter in the suite the octets returned by StepG are not specified
TOcraStepG == IsEvent("OcraStepG") /\ OcraStepG /\ (IF vPr.ctr THEN vRes'.ctr = L.got ELSE TRUE) /\ PcOk

TNext == \/ TReset \/ THotpStart \/ THotpStepS \/ THotpStepR \/ THotpStepV \/ THotpStepG \/ TMove
         \/ TTotpStart \/ TTotpStepR \/ TTotpStepV
         \/ TOcraStart \/ TOcraStepS \/ TOcraStepR \/ TOcraStepV \/ TOcraStepG
TSpec == TInit /\ [][TNext]_tvars

\* the action properties of BotpSM on the recorded steps (a Reset starts a new history)
NoReset == vRes'.op # "none"
TP_FailKeeps == [][NoReset => A_FailKeeps]_tvars
TP_CtrMoves  == [][NoReset => A_CtrMoves]_tvars
TP_Consumes  == [][NoReset => A_Consumes]_tvars
TP_GetPure   == [][NoReset => A_GetPure]_tvars
TP_GetCtr    == [][NoReset => A_GetCtr]_tvars

TraceAccepted ==
  LET dm == TLCGet("stats").diameter IN
  IF dm - 1 = Len(Tr) THEN TRUE
  ELSE /\ PrintT(<<"@REJECT", dm, IF dm <= Len(Tr) THEN Tr[dm].e ELSE "end">>) /\ FALSE
=============================================================================
