----------------------------- MODULE Trace_Once -----------------------------
(* C18, record direction for sm/Once.tla: runs of the real mtCallOnce / mtAtomicIncr / mtAtomicDecr /
   mtAtomicCmpSwap under free-running threads (harness/drv_rng.c once).
     OnceRound    one trigger raced by n threads, observed after the join: the initialiser's run
                  counter, the trigger, the payload                 -> FinalOK of Once.tla
     OnceSummary  callers that returned without seeing the payload, calls that returned FALSE: none
     CtrPhase     n threads x ops operations of one kind on the shared counter: value before/after
     CtrOp        one operation and the value it returned.  checks/C18.py orders the operations of a
                  phase by the value returned (the only possible linearisation); each line is the
                  composition Start . Incr | Start . CasLoad . CasOk | Start . Decr  of Once.tla and
                  must return what the specification's counter holds
     OnExit       n threads registered a destructor each with utilOnExit: all accepted, each ran once
     Race         ThreadSanitizer report: no action, the trace is rejected here. *)
EXTENDS Once, Json, IOUtils, Sequences

Tr == ndJsonDeserialize(IOEnv.TRACE)
VARIABLES l, phase
tvars == <<vars, l, phase>>
TN == <<"t1", "t2", "t3", "t4", "t5", "t6", "t7", "t8", "t9", "t10", "t11", "t12", "t13", "t14", "t15", "t16">>
TraceThreads == {TN[i] : i \in 1..16}
TraceKinds == {"Incr", "CasIncr", "Decr"}

Ev == Tr[l]
IsEv(e) == l <= Len(Tr) /\ Ev.e = e
Th == TN[Ev.th]
K(A) == A /\ UNCHANGED <<l, phase>>
Adv(cond) == cond /\ l' = l + 1 /\ UNCHANGED <<vars, phase>>

TraceInit == Init /\ l = 1 /\ phase = [op |-> "none", n |-> 0, after |-> 0, count |-> 0]

TraceOnceRound == IsEv("OnceRound") /\ Adv(FinalOK(Ev.runs, Ev.once, Ev.payload))
TraceOnceSummary == IsEv("OnceSummary") /\ Adv(Ev.stale = 0 /\ Ev.retfalse = 0)
TraceOnExit == IsEv("OnExit") /\ Adv(Ev.n > 0 /\ Len(Ev.registered) = Ev.n /\ Len(Ev.ran) = Ev.n
                                      /\ \A i \in 1..Ev.n : Ev.registered[i] = 1 /\ Ev.ran[i] = 1)

\* a phase must have been completed (all its operations seen, final value reached) before the next starts
PhaseDone == phase.op = "none" \/ (phase.count = 0 /\ cnt = phase.after)
TraceCtrPhase ==
  /\ IsEv("CtrPhase") /\ PhaseDone /\ Ev.op \in TraceKinds
  /\ cnt' = Ev.before /\ left' = [t \in Threads |-> Ev.ops] /\ cur' = [t \in Threads |-> NoCur]
  /\ kind' = [t \in Threads |-> "none"] /\ incs' = Ev.before /\ decs' = 0 /\ rets' = {}
  /\ phase' = [op |-> Ev.op, n |-> Ev.n, after |-> Ev.after, count |-> Ev.n * Ev.ops]
  /\ l' = l + 1 /\ UNCHANGED v1
OpBind(r) == /\ r /\ l' = l + 1 /\ phase' = [phase EXCEPT !.count = @ - 1] /\ UNCHANGED vars
TraceCtrOp ==
  /\ IsEv("CtrOp") /\ Ev.op = phase.op /\ Ev.th \in 1..phase.n /\ phase.count > 0
  /\ \/ Ev.op = "Incr" /\ (K(Start(Th, "Incr")) \cdot K(Incr(Th)) \cdot OpBind(Ev.ret = cnt))
     \/ Ev.op = "Decr" /\ (K(Start(Th, "Decr")) \cdot K(Decr(Th)) \cdot OpBind(Ev.ret = cnt))
     \/ Ev.op = "CasIncr" /\ (K(Start(Th, "CasIncr")) \cdot K(CasLoad(Th)) \cdot K(CasOk(Th)) \cdot OpBind(Ev.ret = cnt - 1))
TraceEnd == IsEv("End") /\ Adv(PhaseDone)

TraceNext == TraceOnceRound \/ TraceOnceSummary \/ TraceOnExit \/ TraceCtrPhase \/ TraceCtrOp \/ TraceEnd
TraceSpec == TraceInit /\ [][TraceNext]_tvars
TraceAccepted ==
  LET d == TLCGet("stats").diameter IN
  IF d - 1 = Len(Tr) THEN TRUE
  ELSE /\ PrintT(<<"@REJECT", d, IF d <= Len(Tr) THEN Tr[d] ELSE "end">>) /\ FALSE
=============================================================================
