INIT Init
NEXT Next
