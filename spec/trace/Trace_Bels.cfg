INIT Init
NEXT Next
