--------------------------- MODULE Trace_Schemes ---------------------------
(* C16: every recorded scenario of harness/drv_schemes.c (key generation from a tape, signing from a tape, verification,
   alterations, point compression, key agreement on a standard parameter set) is decided by ref/Schemes.tla.
   Bad(r) = set of failing parts of the line:
     1 key generation (private key = the tape's first admissible draw; public key on the curve; heavy: Q = dP)
     2 signature (components in range; s from the signature equation given r; heavy: r from the nonce)
     3 Sign -> Verify (a produced signature verifies)         4 validation calls (KeypairVal, PubkeyVal, PointVal ...)
     5 compression / recovery                                  6 key agreement (both parties, values when heavy)
     10 + i  alteration i:  out-of-range component / non-zero padding / bad ld => rejected;
             reduced hash unchanged and nothing else altered => same answer as the unaltered call;
             heavy (i <= heavyAlts): the verification equation decides;  otherwise rejected (assumption A1 of the check:
             an in-range single alteration of a valid signature, key or reduced hash does not verify).
     7 (retry lines) the constructed history does not take the planned branches: no verdict on the code (reported as
       inconclusive by the check), the other parts are still decided
   Retry lines (g12sRetry, bign96Retry, dstuRetry): the tape is CONSTRUCTED so that its draws take the repetition branches of
   the signing algorithm (one-time key out of range, r = 0, s = 0; r.want lists the planned branch per draw).  Cheap form
   (every line): key pair, components in range, the signature equation for the draw the library stopped at, no admissible
   draw skipped as far as the range conditions tell, Sign -> Verify.  hs = 1: G12sSign / B96Sign / DstuSign of ref/Schemes.tla
   recompute the whole loop: which draw is used and the signature it defines;  hv = 1: the verification equation accepts
   the recorded signature under the recorded public key;  hg = 1: the public key belongs to d.
   "heavy" lines spend scalar multiplications / long exponentiations in TLC (value oracle). *)
EXTENDS Schemes, Json, IOUtils, TLC, FiniteSetsExt

Tr == ndJsonDeserialize(IOEnv.TRACE)

Has(r, k) == k \in DOMAIN r
\* the check marks which expensive part of a line TLC evaluates (copies of one scenario spread the parts over the workers):
\* hg = 1: key generation value;  hs = 1: signature / key agreement values;  ha = <<i, ..>>: alterations decided by the equation
HeavyGen(r) == Has(r, "hg") /\ r.hg = 1
HeavySign(r) == Has(r, "hs") /\ r.hs = 1
HeavyAlt(r, i) == Has(r, "ha") /\ \E k \in 1..Len(r.ha) : r.ha[k] = i
Part(code, okv) == IF okv THEN {} ELSE {code}

\* ------------------------------------------------------------------ g12s
G12sBad(r) ==
  LET q == Num(r.q)  p == Num(r.p)  no == Len(r.p)  l == r.l
      E == EB!BCurve(p, Num(r.a), Num(r.b))
      P == EB!BPt(Num(r.xP), Num(r.yP))
      PtOf(o) == <<Num(SubSeq(o, 1, no)), Num(SubSeq(o, no + 1, 2 * no))>>
      dd == DrawNZ(r.d, q)
      d == Num(r.priv)
      Q == PtOf(r.pub)
      e == G12sE(r.hash, q)
      rs == G12sRS(r.sig, l)
      kd == DrawNZ(r.k, q)
      genOk == IF ~dd.ok THEN r.rcGen # 0
               ELSE /\ r.rcGen = 0 /\ Eq(d, dd.v) /\ r.drawsGen = dd.tries
                    /\ EB!IsOnCurve(E, Q[1], Q[2])
                    /\ (HeavyGen(r) => EB!ScalarMulJ(E, d, P) = Q)
      \* the specified signature for the draws of the tape (heavy): the loop of GOST 6.1 (repeat while r = 0 or s = 0)
      specSig == G12sSign(E, P, q, d, e, r.k)
      signOk == IF ~dd.ok THEN TRUE
                ELSE IF ~kd.ok THEN r.rcSign # 0
                ELSE /\ r.rcSign = 0
                     /\ G12sSigInRange(rs[1], rs[2], q)
                     /\ IF HeavySign(r) THEN specSig.ok /\ Eq(rs[1], specSig.r) /\ Eq(rs[2], specSig.s) /\ r.drawsSign = specSig.used
                        \* cheap form: s fits the signature equation for the draw the library stopped at (its number of
                        \* generator calls); a later draw than the first admissible one only in the constructed s = 0 scenarios
                        \* (redraw = 1), where the heavy copy recomputes the whole loop
                        ELSE LET len == (BitLen(q) + 7) \div 8
                                 kj == Norm(ModPow2(Num(TapeChunk(r.k, r.drawsSign, len)), BitLen(q)))
                             IN /\ r.drawsSign >= kd.tries /\ r.drawsSign <= 4
                                /\ (r.drawsSign > kd.tries => Has(r, "redraw") /\ r.redraw = 1)
                                /\ ~IsZero(kj) /\ Less(kj, q)
                                /\ Eq(rs[2], G12sSOf(rs[1], d, kj, e, q))
      verOk == (dd.ok /\ kd.ok /\ r.rcSign = 0) => r.rcVerify = 0
      altOk(i) ==
        LET x == r.alts[i]
            rs2 == G12sRS(x.sig, l)
            e2 == G12sE(x.hash, q)
            Q2 == PtOf(x.pub)
        IN IF ~G12sSigInRange(rs2[1], rs2[2], q) THEN x.rc # 0
           \* e and q - e give opposite points C, hence the same abscissa: the equation accepts both (anchor g12s_A1_negated_hash)
           ELSE IF x.sig = r.sig /\ x.pub = r.pub /\ (Eq(e2, e) \/ Eq(Add(e2, e), q)) THEN x.rc = r.rcVerify
           ELSE IF x.pub # r.pub /\ ~EB!IsOnCurve(E, Q2[1], Q2[2]) THEN TRUE        \* outside the precondition of Verify
           ELSE IF HeavyAlt(r, i) THEN (x.rc = 0) = G12sVerifyEq(E, P, q, e2, rs2[1], rs2[2], Q2)
           ELSE x.rc # 0
  IN IF r.rcStd # 0 THEN {0}
     ELSE Part(1, genOk) \cup Part(2, signOk) \cup Part(3, verOk)
          \* the same standard set in an object whose unused octets are FF is still a valid set (g12s.h)
          \cup Part(4, Has(r, "rcValDirty") => r.rcValDirty = 0)
          \cup UNION {Part(10 + i, altOk(i)) : i \in 1..Len(r.alts)}

\* ------------------------------------------------------------------ bign96
B96Bad(r) ==
  LET q == Num(r.q)  p == Num(r.p)
      E == EB!BCurve(p, Num(r.pa), Num(r.pb))
      G == EB!BPt(Zero, Num(r.yG))
      PtOf(o) == <<Num(SubSeq(o, 1, 24)), Num(SubSeq(o, 25, 48))>>
      dd == DrawNZ(r.d, q)
      d == Num(r.priv)
      Q == PtOf(r.pub)
      kd == DrawNZ(r.k, q)
      s0 == Num(SubSeq(r.sig, 1, 10))
      s1 == Num(SubSeq(r.sig, 11, 34))
      genOk == IF ~dd.ok THEN r.rcGen # 0
               ELSE /\ r.rcGen = 0 /\ Eq(d, dd.v) /\ EB!IsOnCurve(E, Q[1], Q[2])
                    /\ (HeavyGen(r) => EB!ScalarMulJ(E, d, G) = Q)
      valOk == dd.ok => (r.rcKeypairVal = 0 /\ r.rcPubkeyVal = 0 /\ r.rcCalc = 0 /\ r.calcSame = 1)
      signOk == IF ~dd.ok THEN TRUE
                ELSE IF ~kd.ok THEN r.rcSign # 0
                ELSE /\ r.rcSign = 0 /\ Less(s1, q)
                     /\ Eq(s1, B96S1Of(s0, r.hash, d, kd.v, q))
                     /\ (HeavySign(r) => r.sig = B96SignWith(E, G, q, r.oid, r.hash, d, kd.v))
      verOk == (dd.ok /\ kd.ok /\ r.rcSign = 0 => r.rcVerify = 0)
               /\ (dd.ok /\ r.rcSign2 = 0 => r.rcVerify2 = 0 /\ Less(Num(SubSeq(r.sig2, 11, 34)), q))
               /\ (dd.ok => r.rcSign2 = 0)
               \* the optional data t of the deterministic edition (empty, 1, 40 octets): signs, verifies, is deterministic
               /\ ((dd.ok /\ Has(r, "sign2t")) => \A i \in 1..Len(r.sign2t) : r.sign2t[i] = 0)
      altOk(i) ==
        LET x == r.alts[i]
            Q2 == PtOf(x.pub)
        IN IF ~Less(Num(SubSeq(x.sig, 11, 34)), q) THEN x.rc # 0
           ELSE IF ~EB!IsOnCurve(E, Q2[1], Q2[2]) THEN TRUE                       \* outside the precondition of Verify
           ELSE IF HeavyAlt(r, i) THEN (x.rc = 0) = B96Verify(E, G, q, r.oid, x.hash, x.sig, Q2)
           ELSE x.rc # 0
  IN IF r.rcStd # 0 THEN {0}
     ELSE Part(1, genOk) \cup Part(4, valOk) \cup Part(2, signOk) \cup Part(3, verOk)
          \cup UNION {Part(10 + i, altOk(i)) : i \in 1..Len(r.alts)}

\* ------------------------------------------------------------------ dstu
DstuCurve(r) == [F |-> DstuField(r.f), A |-> r.A, B |-> PNorm(POfOct(r.B))]
DPt(o, no) == <<PNorm(POfOct(SubSeq(o, 1, no))), PNorm(POfOct(SubSeq(o, no + 1, 2 * no)))>>
DstuBad(r) ==
  LET C == DstuCurve(r)
      m == r.f[1]  no == (m + 7) \div 8
      n == Num(r.n)  nb == BitLen(n)  ono == (nb + 7) \div 8
      P == <<PNorm(POfOct(r.Px)), PNorm(POfOct(r.Py))>>
      dd == DrawBits(r.d, nb - 1)
      d == Num(r.priv)
      Q == DPt(r.pub, no)
      h == DstuH(r.hash, m)
      ed == DrawBits(r.e, nb - 1)
      ldok == DstuLdOk(r.ld, n)
      parts == DstuSigParts(r.sig, r.ld, n)
      paramOk == r.rcPointGen = 0 /\ r.rcParamsVal = 0 /\ r.rcPointVal = 0 /\ E2OnCurve(C, P[1], P[2])
                 /\ (Has(r, "hp") /\ r.hp = 1 => E2IsO(E2Mul(C, n, P)))
      compOk(pt, rcC, xp, rcR, rec) ==
        /\ rcC = 0 /\ PEq(POfOct(xp), DstuCompress(C, pt[1], pt[2]))
        /\ rcR = 0 /\ DPt(rec, no) = pt
      genOk == IF ~dd.ok THEN r.rcGen # 0
               ELSE /\ r.rcGen = 0 /\ Eq(d, dd.v) /\ Len(r.priv) = ono
                    /\ E2OnCurve(C, Q[1], Q[2]) /\ r.rcPubVal = 0
                    /\ (HeavyGen(r) => Q = E2Neg(C, E2Mul(C, d, P)))
      cmpOk == /\ compOk(P, r.rcCompP, r.xpP, r.rcRecP, r.recP)
               /\ (dd.ok => /\ compOk(Q, r.rcCompQ, r.xpQ, r.rcRecQ, r.recQ)
                            \* the flipped trace bit selects the other point of this abscissa: -Q
                            /\ r.rcRecQf = 0 /\ DPt(r.recQf, no) = E2Neg(C, Q)
                            /\ DstuRecoverOk(C, PNorm(POfOct(r.xpQf)), DPt(r.recQf, no)[1], DPt(r.recQf, no)[2]))
      \* dstu.h: point and xpoint may overlap: no placement gives a result different from the disjoint-buffer one
      ovOk == Has(r, "ovComp") => (r.ovComp = <<>> /\ r.ovRec = <<>> /\ r.ovCompN > 0 /\ r.ovRecN > 0)
      signOk == IF ~dd.ok THEN TRUE
                ELSE IF ~ldok \/ ~ed.ok THEN r.rcSign # 0
                ELSE /\ r.rcSign = 0 /\ parts[3] /\ DstuSigInRange(parts[1], parts[2], n)
                     /\ Eq(parts[2], DstuSOf(ed.v, d, parts[1], n))
                     /\ (HeavySign(r) => LET R == E2Mul(C, ed.v, P)
                                     IN ~E2IsO(R) /\ Eq(parts[1], DstuTrunc(GMul(h, R[1], C.F), nb)))
      verOk == (dd.ok /\ r.rcSign = 0) => r.rcVerify = 0
      altOk(i) ==
        LET x == r.alts[i]
            p2 == DstuSigParts(x.sig, x.ld, n)
            Q2 == DPt(x.pub, no)
        IN IF ~DstuLdOk(x.ld, n) THEN x.rc # 0
           ELSE IF ~p2[3] \/ ~DstuSigInRange(p2[1], p2[2], n) THEN x.rc # 0
           ELSE IF Eq(p2[1], parts[1]) /\ Eq(p2[2], parts[2]) /\ x.pub = r.pub /\ PEq(DstuH(x.hash, m), h) THEN x.rc = r.rcVerify
           ELSE IF x.pub # r.pub /\ ~E2OnCurve(C, Q2[1], Q2[2]) THEN TRUE           \* outside the precondition of Verify
           ELSE IF HeavyAlt(r, i) THEN (x.rc = 0) = DstuVerifyEq(C, P, n, DstuH(x.hash, m), p2[1], p2[2], Q2)
           ELSE x.rc # 0
  IN IF r.rcStd # 0 THEN {0}
     ELSE Part(4, paramOk) \cup Part(1, genOk) \cup Part(5, cmpOk) \cup Part(8, ovOk) \cup Part(2, signOk) \cup Part(3, verOk)
          \cup UNION {Part(10 + i, altOk(i)) : i \in 1..Len(r.alts)}

\* recovery from a given compressed value, then compression of the result
DstuPointBad(r) ==
  LET C == DstuCurve(r)
      m == r.f[1]  no == (m + 7) \div 8
      xp == PNorm(POfOct(r.xp))
      x0 == PNorm(PAdd(xp, <<PBit(xp, 0)>>))
      xr == IF GTr(x0, C.F) = C.A THEN x0 ELSE PNorm(PAdd(x0, POne))
      \* z^2 + z = x + A + B / x^2 has a solution iff its right-hand side has trace 0
      v == PNorm(PAdd(PAdd(xr, E2A(C)), GDiv(C.B, GSqr(xr, C.F), C.F)))
      solvable == PIsZero(xp) \/ GTr(v, C.F) = 0
      rec == DPt(r.rec, no)
  IN IF PDeg(xp) >= m THEN Part(5, r.rcRec # 0)
     \* a non-zero compressed value whose abscissa is 0 is not the compression of any point (6.10 divides by x^2): not judged
     ELSE IF ~PIsZero(xp) /\ PIsZero(xr) THEN {}
     ELSE IF ~solvable THEN Part(5, r.rcRec # 0)
     ELSE Part(5, /\ r.rcRec = 0
                  /\ DstuRecoverOk(C, xp, rec[1], rec[2])
                  /\ r.rcComp = 0
                  /\ PEq(POfOct(r.xp2), DstuCompress(C, rec[1], rec[2])))

\* ------------------------------------------------------------------ constructed histories: the repetitions of the signing loops
HeavyVer(r) == Has(r, "hv") /\ r.hv = 1
\* cheap knowledge about the draws before the one the library stopped at: none of them is admissible unless the plan says that
\* it is discarded for r = 0 / s = 0 (decided by the heavy copy); the draw used is in range
G12sRetryBad(r) ==
  LET q == Num(r.q)  p == Num(r.p)  no == Len(r.p)  l == r.l
      E == EB!BCurve(p, Num(r.a), Num(r.b))
      P == EB!BPt(Num(r.xP), Num(r.yP))
      dd == DrawNZ(r.dtape, q)
      d == Num(r.priv)
      Q == <<Num(SubSeq(r.pub, 1, no)), Num(SubSeq(r.pub, no + 1, 2 * no))>>
      e == G12sE(r.H, q)
      rs == G12sRS(r.sig, l)
      nd == Len(r.tape) \div ((BitLen(q) + 7) \div 8)
      InRange(j) == LET k == DrawOf(r.tape, j, q) IN ~IsZero(k) /\ Less(k, q)
      genOk == /\ dd.ok /\ r.rcGen = 0 /\ Eq(d, dd.v) /\ EB!IsOnCurve(E, Q[1], Q[2])
               /\ (HeavyGen(r) => EB!ScalarMulJ(E, d, P) = Q)
      spec == G12sSign(E, P, q, d, e, r.tape)
      signOk == IF HeavySign(r)
                THEN /\ (r.rcSign = 0) = spec.ok
                     /\ (spec.ok => r.sig = G12sSigOct(spec.r, spec.s, l) /\ r.drawsSign = spec.used)
                ELSE /\ r.rcSign = 0 /\ G12sSigInRange(rs[1], rs[2], q)
                     /\ r.drawsSign \in 1..nd /\ InRange(r.drawsSign)
                     /\ \A j \in 1..(r.drawsSign - 1) : InRange(j) => r.want[j] \in {"r=0", "s=0"}
                     /\ Eq(rs[2], G12sSOf(rs[1], d, DrawOf(r.tape, r.drawsSign, q), e, q))
      verOk == /\ (r.rcSign = 0 => r.rcVerify = 0)
               /\ (HeavyVer(r) /\ r.rcSign = 0 => G12sVerify(E, P, q, r.H, r.sig, l, Q))
      planOk == HeavySign(r) => spec.why = r.want
  IN IF r.rcStd # 0 \/ r.built # 1 THEN {0}
     ELSE Part(1, genOk) \cup Part(2, signOk) \cup Part(3, verOk) \cup Part(7, planOk)

B96RetryBad(r) ==
  LET q == Num(r.q)  p == Num(r.p)
      E == EB!BCurve(p, Num(r.pa), Num(r.pb))
      G == EB!BPt(Zero, Num(r.yG))
      dd == DrawNZ(r.dtape, q)
      d == Num(r.priv)
      Q == <<Num(SubSeq(r.pub, 1, 24)), Num(SubSeq(r.pub, 25, 48))>>
      s0 == Num(SubSeq(r.sig, 1, 10))
      s1 == Num(SubSeq(r.sig, 11, 34))
      nd == Len(r.tape) \div 24
      InRange(j) == LET k == DrawOf(r.tape, j, q) IN ~IsZero(k) /\ Less(k, q)
      genOk == /\ dd.ok /\ r.rcGen = 0 /\ Eq(d, dd.v) /\ EB!IsOnCurve(E, Q[1], Q[2])
               /\ (HeavyGen(r) => EB!ScalarMulJ(E, d, G) = Q)
      spec == B96Sign(E, G, q, r.oid, r.H, d, r.tape)
      signOk == IF HeavySign(r)
                THEN /\ (r.rcSign = 0) = spec.ok
                     /\ (spec.ok => r.sig = spec.r /\ r.drawsSign = spec.used)
                ELSE /\ r.rcSign = 0 /\ Less(s1, q)
                     /\ r.drawsSign \in 1..nd /\ InRange(r.drawsSign)
                     /\ \A j \in 1..(r.drawsSign - 1) : ~InRange(j)
                     /\ Eq(s1, B96S1Of(s0, r.H, d, DrawOf(r.tape, r.drawsSign, q), q))
      verOk == /\ (r.rcSign = 0 => r.rcVerify = 0)
               /\ (HeavyVer(r) /\ r.rcSign = 0 => B96Verify(E, G, q, r.oid, r.H, r.sig, Q))
      planOk == HeavySign(r) => spec.why = r.want
  IN IF r.rcStd # 0 \/ r.built # 1 THEN {0}
     ELSE Part(1, genOk) \cup Part(2, signOk) \cup Part(3, verOk) \cup Part(7, planOk)

DstuRetryBad(r) ==
  LET C == [F |-> DstuField(r.f), A |-> r.A, B |-> PNorm(POfOct(r.B))]
      m == r.f[1]  no == (m + 7) \div 8
      n == Num(r.n)  nb == BitLen(n)  ono == (nb + 7) \div 8
      P == <<PNorm(POfOct(r.Px)), PNorm(POfOct(r.Py))>>
      dd == DrawBits(r.dtape, nb - 1)
      d == Num(r.priv)
      Q == <<PNorm(POfOct(SubSeq(r.pub, 1, no))), PNorm(POfOct(SubSeq(r.pub, no + 1, 2 * no)))>>
      h == DstuH(r.H, m)
      ld == r.ldSig
      parts == DstuSigParts(r.sig, ld, n)
      nd == Len(r.tape) \div ono
      EOf(j) == Norm(ModPow2(Num(TapeChunk(r.tape, j, ono)), nb - 1))
      genOk == /\ r.rcPointGen = 0 /\ E2OnCurve(C, P[1], P[2])
               /\ dd.ok /\ r.rcGen = 0 /\ Eq(d, dd.v) /\ Len(r.priv) = ono
               /\ E2OnCurve(C, Q[1], Q[2]) /\ r.rcPubVal = 0
               /\ (HeavyGen(r) => Q = E2Neg(C, E2Mul(C, d, P)))
      spec == DstuSign(C, P, n, d, h, r.tape)
      signOk == IF ~DstuLdOk(ld, n) THEN r.rcSign # 0
                ELSE IF HeavySign(r)
                THEN /\ (r.rcSign = 0) = spec.ok
                     /\ (spec.ok => r.sig = DstuSigOct(spec.r, spec.s, ld) /\ r.drawsSign = spec.used)
                ELSE /\ r.rcSign = 0 /\ parts[3] /\ DstuSigInRange(parts[1], parts[2], n)
                     /\ r.drawsSign \in 1..nd /\ ~IsZero(EOf(r.drawsSign))
                     /\ \A j \in 1..(r.drawsSign - 1) : ~IsZero(EOf(j)) => r.want[j] \in {"r=0", "s=0"}
                     /\ Eq(parts[2], DstuSOf(EOf(r.drawsSign), d, parts[1], n))
      verOk == /\ (r.rcSign = 0 => r.rcVerify = 0)
               /\ (HeavyVer(r) /\ r.rcSign = 0 => DstuVerifyEq(C, P, n, h, parts[1], parts[2], Q))
      planOk == HeavySign(r) => spec.why = r.want
  IN IF r.rcStd # 0 \/ r.built # 1 THEN {0}
     ELSE Part(1, genOk) \cup Part(2, signOk) \cup Part(3, verOk) \cup Part(7, planOk)

\* ------------------------------------------------------------------ pfok
PfokBad(r) ==
  LET P == [l |-> r.l, r |-> r.r, n |-> r.n, p |-> Num(r.p), g |-> Num(r.g)]
      mo == (r.r + 7) \div 8
      priv(t) == Norm(ModPow2(Num(TapeChunk(t, 1, mo)), r.r))
      xa == Num(r.priv_xa)  xb == Num(r.priv_xb)  ua == Num(r.priv_ua)  ub == Num(r.priv_ub)
      ya == Num(r.pub_xa)  yb == Num(r.pub_xb)  va == Num(r.pub_ua)  vb == Num(r.pub_ub)
      genOk == /\ r.rcGen_xa = 0 /\ r.rcGen_xb = 0 /\ r.rcGen_ua = 0 /\ r.rcGen_ub = 0
               /\ Eq(xa, priv(r.xa)) /\ Eq(xb, priv(r.xb)) /\ Eq(ua, priv(r.ua)) /\ Eq(ub, priv(r.ub))
               /\ PfokPubOk(P, ya) /\ PfokPubOk(P, yb) /\ PfokPubOk(P, va) /\ PfokPubOk(P, vb)
               /\ (HeavyGen(r) => Eq(ya, PfokPub(P, xa)) /\ Eq(yb, PfokPub(P, xb)) /\ Eq(va, PfokPub(P, ua)) /\ Eq(vb, PfokPub(P, ub)))
      valOk == /\ r.rcVal_xa = 0 /\ r.rcVal_xb = 0 /\ r.rcVal_ua = 0 /\ r.rcVal_ub = 0
               /\ r.calc_xa = 1 /\ r.calc_xb = 1 /\ r.calc_ua = 1 /\ r.calc_ub = 1
               /\ r.rcDH_pub0 # 0 /\ r.rcDH_pubp # 0 /\ r.rcMTI_pub0 # 0 /\ r.rcMTI_pubp # 0
               /\ (Has(r, "rcDH_privbig") => r.rcDH_privbig # 0 /\ r.rcCalc_privbig # 0)
      \* the shared key is n bits of the common value: [O_OF_B(n)] octets with nothing above bit n - 1
      nbits(x) == Len(x) = (r.n + 7) \div 8 /\ BitLen(Num(x)) <= r.n
      agreeOk == /\ nbits(r.dh_a) /\ nbits(r.dh1_a) /\ nbits(r.mti_a)
                 /\ r.rcDH_a = 0 /\ r.rcDH_b = 0 /\ r.dh_a = r.dh_b
                 /\ r.rcDH1_a = 0 /\ r.rcDH1_b = 0 /\ r.dh1_a = r.dh1_b
                 /\ r.rcMTI_a = 0 /\ r.rcMTI_b = 0 /\ r.mti_a = r.mti_b
                 /\ (HeavySign(r) => /\ Eq(Num(r.dh_a), PfokDH(P, ua, vb))
                                 /\ Eq(Num(r.dh1_a), PfokDH(P, ua, yb))
                                 /\ Eq(Num(r.mti_a), PfokMTI(P, xa, ua, yb, vb)))
  IN IF r.rcStd # 0 THEN {0} ELSE Part(1, genOk) \cup Part(4, valOk) \cup Part(6, agreeOk)

\* ------------------------------------------------------------------ GF(2^m): trace, z^2 + z = x (m odd)
Gf2Bad(r) ==
  LET F == DstuField(r.f)
      m == r.f[1]
      elOk(e) == LET x == PNorm(POfOct(e.x))  z == PNorm(POfOct(e.z))  t == GTr(x, F)
                 IN /\ e.tr = t
                    /\ IF m % 2 = 0 THEN TRUE
                       ELSE IF t = 1 THEN e.ok = 0                                  \* z^2 + z = x has no solution
                       ELSE e.ok = 1 /\ PDeg(z) < m /\ PEq(PAdd(GSqr(z, F), z), x)
  IN IF r.rc # 0 THEN {0} ELSE {i \in 1..Len(r.els) : ~elOk(r.els[i])}

Bad(r) ==
  CASE r.op = "g12s" -> G12sBad(r)
    [] r.op = "bign96" -> B96Bad(r)
    [] r.op = "dstu" -> DstuBad(r)
    [] r.op = "dstuPoint" -> DstuPointBad(r)
    [] r.op = "pfok" -> PfokBad(r)
    [] r.op = "g12sRetry" -> G12sRetryBad(r)
    [] r.op = "bign96Retry" -> B96RetryBad(r)
    [] r.op = "dstuRetry" -> DstuRetryBad(r)
    [] r.op = "gf2" -> Gf2Bad(r)
    [] OTHER -> {0}

SeqOfSet(S) == SetToSortSeq(S, LAMBDA a, b : a < b)

VARIABLES phase, idx, ok
Init == phase = 0 /\ idx = 0 /\ ok = TRUE
Next == \/ phase = 0 /\ phase' = 1 /\ idx' \in 1..Len(Tr) /\ ok' = TRUE
        \/ phase = 1 /\ phase' = 2 /\ idx' = idx
                     /\ LET b == Bad(Tr[idx])
                        IN /\ ok' = (b = {})
                           /\ (ok' \/ (PrintT(<<"@BAD", idx>>) /\ PrintT(<<"@PARTS", idx, SeqOfSet(b)>>)))
=============================================================================
