SPECIFICATION TraceSpec
INVARIANT AcceptedRight
INVARIANT InStepRecovered
INVARIANT AlteredRejected
INVARIANT WrongParityRefused
POSTCONDITION TraceAccepted
