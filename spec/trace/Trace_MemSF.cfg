INIT Init
NEXT Next
