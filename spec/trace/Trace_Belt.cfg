INIT Init
NEXT Next
