----------------------------- MODULE Trace_Belt -----------------------------
(* C01 (and the value side of C10, C11, C19): every recorded call of a belt function is
   recomputed with the reference semantics of STB 34.101.31 (ref/BeltModes.tla).
   Fields: op, key, iv, in, hdr (header / associated data / level), tag, out, rc (0 = ERR_OK). *)
EXTENDS BeltFmt, Json, IOUtils, TLC

Tr == ndJsonDeserialize(IOEnv.TRACE)

Ok0(r) == r.rc = 0
\* an authenticated unwrap: accepted iff the specification accepts, and then with the spec's plaintext;
\* on rejection no value is compared here (C09 looks at what is left in the output buffer)
UnwrapOk(r, res) == IF res[1] THEN Ok0(r) /\ r.out = res[2] ELSE r.rc # 0

\* little-endian octet-string arithmetic for the length blocks: a + b mod 256^Len(a); c * 8 on n octets
AddOct(a, b) == FoldLeft(LAMBDA acc, i : LET t == a[i] + b[i] + acc[2] IN <<Append(acc[1], t % 256), t \div 256>>,
                         <<<<>>, 0>>, Upto(Len(a)))[1]
Shl3(c, n) == [i \in 1..n |-> (((IF i <= Len(c) THEN c[i] ELSE 0) * 8) % 256)
                              + (IF i >= 2 /\ i - 1 <= Len(c) THEN c[i - 1] \div 32 ELSE 0)]

\* C10: a fragment script executed on a Start/Step/Get bundle (harness/drv_belt_steps.c):
\* the concatenated outputs equal the one-shot value on the concatenated input, every Get
\* equals the one-shot value on the prefix fed so far, Verify answered correctly.
GetsOk(r, f(_, _)) == \A k \in 1..Len(r.gets) : r.gets[k].tag = f(r.gets[k].ilen, r.gets[k].xlen)
StepsOk(r) ==
  /\ r.vbad = 0
  /\ CASE r.b = "ecbE" -> r.out = ECBEncr(r.in, r.key)
       [] r.b = "ecbD" -> r.out = ECBDecr(r.in, r.key)
       [] r.b = "cbcE" -> r.out = CBCEncr(r.in, r.key, r.iv)
       [] r.b = "cbcD" -> r.out = CBCDecr(r.in, r.key, r.iv)
       [] r.b = "cfbE" -> r.out = CFBEncr(r.in, r.key, r.iv)
       [] r.b = "cfbD" -> r.out = CFBDecr(r.in, r.key, r.iv)
       [] r.b = "ctr"  -> r.out = CTR(r.in, r.key, r.iv)
       [] r.b = "bdeE" -> r.out = BDEEncr(r.in, r.key, r.iv)
       [] r.b = "bdeD" -> r.out = BDEDecr(r.in, r.key, r.iv)
       [] r.b = "mac"  -> GetsOk(r, LAMBDA il, xl : MAC(TakeN(r.in, xl), r.key))
       [] r.b = "hash" -> GetsOk(r, LAMBDA il, xl : Hash(TakeN(r.in, xl)))
       [] r.b = "hmac" -> GetsOk(r, LAMBDA il, xl : HMAC(r.key, TakeN(r.in, xl)))
       [] r.b = "dwpE" -> /\ r.out = DWPWrap(r.in, r.hdr, r.key, r.iv)[1]
                          /\ GetsOk(r, LAMBDA il, xl : DWPWrap(TakeN(r.in, xl), TakeN(r.hdr, il), r.key, r.iv)[2])
       [] r.b = "cheE" -> /\ r.out = CHEWrap(r.in, r.hdr, r.key, r.iv)[1]
                          /\ GetsOk(r, LAMBDA il, xl : CHEWrap(TakeN(r.in, xl), TakeN(r.hdr, il), r.key, r.iv)[2])
       \* decryption direction: the input is the ciphertext, tags are over the ciphertext prefix
       [] r.b = "dwpD" -> /\ r.out = CTR(r.in, r.key, r.iv)
                          /\ GetsOk(r, LAMBDA il, xl : AeadTag(TakeN(r.in, xl), TakeN(r.hdr, il), r.key, r.iv, FALSE))
       [] r.b = "cheD" -> /\ r.out = CHEWrap(r.in, r.hdr, r.key, r.iv)[1]
                          /\ GetsOk(r, LAMBDA il, xl : AeadTag(TakeN(r.in, xl), TakeN(r.hdr, il), r.key, r.iv, TRUE))
       [] OTHER -> FALSE

LineOk(r) ==
  CASE r.op = "blockE"   -> r.out = BeltEncr(r.in, r.key)
    [] r.op = "blockD"   -> r.out = BeltDecr(r.in, r.key)
    [] r.op = "keyExpand" -> r.out = KeyExpandOctets(r.key)
    [] r.op = "wblE"     -> r.out = WBLEncr(r.in, r.key)
    [] r.op = "wblD"     -> r.out = WBLDecr(r.in, r.key)
    [] r.op = "macT"     -> Ok0(r) /\ r.out = SubSeq(MAC(r.in, r.key), 1, Len(r.out))
    [] r.op = "hashT"    -> Ok0(r) /\ r.out = SubSeq(Hash(r.in), 1, Len(r.out))
    [] r.op = "hmacT"    -> Ok0(r) /\ r.out = SubSeq(HMAC(r.key, r.in), 1, Len(r.out))
    [] r.op = "wblR"     -> r.out = WBLEncrFrom(r.in, r.key, r.k)
    [] r.op = "compr"    -> r.out = Sigma2(r.in) /\ r.tag = Sigma1(r.in)
    [] r.op = "ecbE"     -> Ok0(r) /\ r.out = ECBEncr(r.in, r.key)
    [] r.op = "ecbD"     -> Ok0(r) /\ r.out = ECBDecr(r.in, r.key)
    [] r.op = "cbcE"     -> Ok0(r) /\ r.out = CBCEncr(r.in, r.key, r.iv)
    [] r.op = "cbcD"     -> Ok0(r) /\ r.out = CBCDecr(r.in, r.key, r.iv)
    [] r.op = "cfbE"     -> Ok0(r) /\ r.out = CFBEncr(r.in, r.key, r.iv)
    [] r.op = "cfbD"     -> Ok0(r) /\ r.out = CFBDecr(r.in, r.key, r.iv)
    [] r.op = "ctr"      -> Ok0(r) /\ r.out = CTR(r.in, r.key, r.iv)
    [] r.op = "mac"      -> Ok0(r) /\ r.out = MAC(r.in, r.key)
    [] r.op = "dwpW"     -> Ok0(r) /\ <<r.out, r.tag>> = DWPWrap(r.in, r.hdr, r.key, r.iv)
    [] r.op = "dwpU"     -> UnwrapOk(r, DWPUnwrap(r.in, r.hdr, r.tag, r.key, r.iv))
    [] r.op = "cheW"     -> Ok0(r) /\ <<r.out, r.tag>> = CHEWrap(r.in, r.hdr, r.key, r.iv)
    [] r.op = "cheU"     -> UnwrapOk(r, CHEUnwrap(r.in, r.hdr, r.tag, r.key, r.iv))
    [] r.op = "kwpW"     -> Ok0(r) /\ r.out = KWPWrap(r.in, r.hdr, r.key)
    [] r.op = "kwpU"     -> UnwrapOk(r, KWPUnwrap(r.in, r.hdr, r.key))
    [] r.op = "hash"     -> Ok0(r) /\ r.out = Hash(r.in)
    [] r.op = "bdeE"     -> Ok0(r) /\ r.out = BDEEncr(r.in, r.key, r.iv)
    [] r.op = "bdeD"     -> Ok0(r) /\ r.out = BDEDecr(r.in, r.key, r.iv)
    [] r.op = "sdeE"     -> Ok0(r) /\ r.out = SDEEncr(r.in, r.key, r.iv)
    [] r.op = "sdeD"     -> Ok0(r) /\ r.out = SDEDecr(r.in, r.key, r.iv)
    [] r.op = "krp"      -> Ok0(r) /\ r.out = KRP(r.key, r.iv, r.hdr, Len(r.out))
    [] r.op = "hmac"     -> Ok0(r) /\ r.out = HMAC(r.key, r.in)
    [] r.op = "pbkdf2"   -> Ok0(r) /\ r.out = PBKDF2(r.key, r.iter, r.in)
    [] r.op = "addBitSizeU32" -> r.out = AddOct(r.in, Shl3(r.hdr, 16))
    [] r.op = "addBitSizeW"   -> r.out = AddOct(r.in, Shl3(r.hdr, 8))
    [] r.op = "memMove"  -> r.out = r.in
    [] r.op = "memJoin"  -> r.out = r.in \o r.hdr
    [] r.op = "steps"    -> StepsOk(r)
    [] r.op = "fmtE"     -> Ok0(r) /\ r.out = FMTEncr(r.in, r.mod, r.key, r.iv)
    [] r.op = "fmtD"     -> Ok0(r) /\ r.out = FMTDecr(r.in, r.mod, r.key, r.iv)
    \* block-count table: a reported value, and a breakpoint (largest alphabet with count <= b)
    [] r.op = "fmtPoint" -> BlockCount(r.mod, r.n) = r.b
    [] r.op = "fmtBreak" -> PowLe(r.mod, r.n, r.b) /\ ~PowLe(r.mod + 1, r.n, r.b)
                            /\ (r.b = 1 \/ ~PowLe(r.mod, r.n, r.b - 1))
    [] OTHER -> FALSE

VARIABLES phase, idx, ok
Init == phase = 0 /\ idx = 0 /\ ok = TRUE
Next == \/ phase = 0 /\ phase' = 1 /\ idx' \in 1..Len(Tr) /\ ok' = TRUE
        \/ phase = 1 /\ phase' = 2 /\ idx' = idx /\ ok' = LineOk(Tr[idx])
                     /\ (ok' \/ PrintT(<<"@BAD", idx>>))
=============================================================================
