----------------------------- MODULE Trace_Belt -----------------------------
(* C01 (and the value side of C10, C11, C19): every recorded call of a belt function is
   recomputed with the reference semantics of STB 34.101.31 (ref/BeltModes.tla).
   Fields: op, key, iv, in, hdr (header / associated data / level), tag, out, rc (0 = ERR_OK). *)
EXTENDS BeltModes, Json, IOUtils, TLC

Tr == ndJsonDeserialize(IOEnv.TRACE)

Ok0(r) == r.rc = 0
\* an authenticated unwrap: accepted iff the specification accepts, and then with the spec's plaintext;
\* on rejection no value is compared here (C09 looks at what is left in the output buffer)
UnwrapOk(r, res) == IF res[1] THEN Ok0(r) /\ r.out = res[2] ELSE r.rc # 0

LineOk(r) ==
  CASE r.op = "blockE"   -> r.out = BeltEncr(r.in, r.key)
    [] r.op = "blockD"   -> r.out = BeltDecr(r.in, r.key)
    [] r.op = "keyExpand" -> r.out = KeyExpandOctets(r.key)
    [] r.op = "wblE"     -> r.out = WBLEncr(r.in, r.key)
    [] r.op = "wblD"     -> r.out = WBLDecr(r.in, r.key)
    [] r.op = "compr"    -> r.out = Sigma2(r.in) /\ r.tag = Sigma1(r.in)
    [] r.op = "ecbE"     -> Ok0(r) /\ r.out = ECBEncr(r.in, r.key)
    [] r.op = "ecbD"     -> Ok0(r) /\ r.out = ECBDecr(r.in, r.key)
    [] r.op = "cbcE"     -> Ok0(r) /\ r.out = CBCEncr(r.in, r.key, r.iv)
    [] r.op = "cbcD"     -> Ok0(r) /\ r.out = CBCDecr(r.in, r.key, r.iv)
    [] r.op = "cfbE"     -> Ok0(r) /\ r.out = CFBEncr(r.in, r.key, r.iv)
    [] r.op = "cfbD"     -> Ok0(r) /\ r.out = CFBDecr(r.in, r.key, r.iv)
    [] r.op = "ctr"      -> Ok0(r) /\ r.out = CTR(r.in, r.key, r.iv)
    [] r.op = "mac"      -> Ok0(r) /\ r.out = MAC(r.in, r.key)
    [] r.op = "dwpW"     -> Ok0(r) /\ <<r.out, r.tag>> = DWPWrap(r.in, r.hdr, r.key, r.iv)
    [] r.op = "dwpU"     -> UnwrapOk(r, DWPUnwrap(r.in, r.hdr, r.tag, r.key, r.iv))
    [] r.op = "cheW"     -> Ok0(r) /\ <<r.out, r.tag>> = CHEWrap(r.in, r.hdr, r.key, r.iv)
    [] r.op = "cheU"     -> UnwrapOk(r, CHEUnwrap(r.in, r.hdr, r.tag, r.key, r.iv))
    [] r.op = "kwpW"     -> Ok0(r) /\ r.out = KWPWrap(r.in, r.hdr, r.key)
    [] r.op = "kwpU"     -> UnwrapOk(r, KWPUnwrap(r.in, r.hdr, r.key))
    [] r.op = "hash"     -> Ok0(r) /\ r.out = Hash(r.in)
    [] r.op = "bdeE"     -> Ok0(r) /\ r.out = BDEEncr(r.in, r.key, r.iv)
    [] r.op = "bdeD"     -> Ok0(r) /\ r.out = BDEDecr(r.in, r.key, r.iv)
    [] r.op = "sdeE"     -> Ok0(r) /\ r.out = SDEEncr(r.in, r.key, r.iv)
    [] r.op = "sdeD"     -> Ok0(r) /\ r.out = SDEDecr(r.in, r.key, r.iv)
    [] r.op = "krp"      -> Ok0(r) /\ r.out = KRP(r.key, r.iv, r.hdr, Len(r.out))
    [] r.op = "hmac"     -> Ok0(r) /\ r.out = HMAC(r.key, r.in)
    [] r.op = "pbkdf2"   -> Ok0(r) /\ r.out = PBKDF2(r.key, r.iter, r.in)
    [] OTHER -> FALSE

VARIABLES phase, idx, ok
Init == phase = 0 /\ idx = 0 /\ ok = TRUE
Next == \/ phase = 0 /\ phase' = 1 /\ idx' \in 1..Len(Tr) /\ ok' = TRUE
        \/ phase = 1 /\ phase' = 2 /\ idx' = idx /\ ok' = LineOk(Tr[idx])
                     /\ (ok' \/ PrintT(<<"@BAD", idx>>))
=============================================================================
