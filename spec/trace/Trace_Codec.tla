---------------------------- MODULE Trace_Codec ----------------------------
(* C08, record direction: every line written by harness/drv_codec.c (one call of a decoder or an
   encoder of bee2/core on an enumerated input) is recomputed with the reference semantics of
   ref/Der.tla and ref/Codecs.tla.  Common fields: op, cls (structural class of the input),
   in (octets or character codes), fault (0 = the call returned normally without touching
   memory outside its buffers).  Decoder lines: ok, n (consumed), decoded value fields, and the
   re-encoding of the decoded value (reok, relen, reeq = "equals the first relen octets of the
   input", re = its octets when short).  pc = "the length-probing call (null output) and the
   real call agree", oob = "the returned length / pointer leaves the input".                  *)
EXTENDS Codecs, Json, IOUtils, TLC

Tr == ndJsonDeserialize(IOEnv.TRACE)

T(o4) == TagOfU32(o4)
\* canonical re-encoding of an accepted code of n octets
ReOk(r, n) == r.reok /\ r.reeq /\ r.relen = n /\ (r.relen > 1024 \/ r.re = TakeN(r.in, n))
\* accepted iff the specification accepts, with the same consumed length
Same(r, d) == IF d.ok THEN r.ok /\ r.n = d.n ELSE ~r.ok
WJ(a) == <<a[1], a[2]>>

LineOk(r) == r.fault = 0 /\
  CASE r.op = "derTLDec" ->
         LET d == TLDec(r.in) IN Same(r, d) /\ (d.ok => T(r.tag) = d.tag /\ r.len = d.len /\ ReOk(r, d.n))
    [] r.op = "derDec" ->
         LET d == Dec(r.in) IN Same(r, d) /\ ~r.oob /\ (d.ok => T(r.tag) = d.tag /\ r.val = d.val /\ ReOk(r, d.n))
    [] r.op = "derIsValid" -> r.ok = IsValid(r.in)
    [] r.op = "derIsValid2" -> r.ok = IsValid2(r.in, T(r.atag))
    [] r.op = "derStartsWith" -> r.ok = StartsWith(r.in, T(r.atag))
    [] r.op = "derDec2" ->
         LET d == Dec2(r.in, T(r.atag)) IN Same(r, d) /\ ~r.oob /\ (d.ok => r.val = d.val)
    [] r.op = "derDec3" ->
         LET d == Dec3(r.in, T(r.atag), r.alen) IN Same(r, d) /\ ~r.oob /\ (d.ok => r.val = d.val)
    [] r.op = "derDec4" ->
         LET d == Dec4(r.in, T(r.atag), r.aval) IN Same(r, d) /\ ~r.oob
    [] r.op = "derTSIZEDec" ->
         LET d == SizeDec(r.in, T(r.atag)) IN Same(r, d) /\ r.pc /\ (d.ok => r.val = d.val /\ ReOk(r, d.n))
    [] r.op = "derTSIZEDec2" ->
         LET d == SizeDec2(r.in, T(r.atag), r.aval) IN Same(r, d)
    [] r.op = "derTUINTDec" ->
         LET d == UintDec(r.in, T(r.atag)) IN Same(r, d) /\ ~r.oob /\ r.pc /\ (d.ok => r.val = d.val /\ ReOk(r, d.n))
    [] r.op = "derTUINTDec2" ->
         LET d == UintDec2(r.in, T(r.atag), r.alen) IN Same(r, d) /\ r.pc /\ (d.ok => r.val = d.val)
    [] r.op = "derTBITDec" ->
         LET d == BitDec(r.in, T(r.atag)) IN Same(r, d) /\ ~r.oob /\ r.pc /\ (d.ok => r.val = d.val /\ r.bits = d.bits /\ ReOk(r, d.n))
    [] r.op = "derTBITDec2" ->
         LET d == BitDec2(r.in, T(r.atag), r.abits) IN Same(r, d) /\ r.pc /\ (d.ok => r.val = d.val)
    [] r.op = "derTOCTDec" ->
         LET d == OctDec(r.in, T(r.atag)) IN Same(r, d) /\ ~r.oob /\ r.pc /\ (d.ok => r.val = d.val)
    [] r.op = "derTOCTDec2" ->
         LET d == OctDec2(r.in, T(r.atag), r.alen) IN Same(r, d) /\ r.pc /\ (d.ok => r.val = d.val)
    [] r.op = "derNULLDec" -> Same(r, NullDec(r.in))
    [] r.op = "derTPSTRDec" ->
         LET d == PstrDec(r.in, T(r.atag)) IN Same(r, d) /\ ~r.oob /\ r.pc /\ (d.ok => r.str = d.val /\ ReOk(r, d.n))
    [] r.op = "derOIDDec" ->
         LET d == OidDec(r.in) IN Same(r, d) /\ ~r.oob /\ r.pc /\ (d.ok => r.oid = d.oid /\ ReOk(r, d.n))
    [] r.op = "derOIDDec2" -> Same(r, OidDec2(r.in, r.aoid))
    [] r.op = "oidFromDER" ->
         LET d == OidFromDer(r.in) IN ~r.oob /\ r.pc /\ (IF d.ok THEN r.ok /\ r.n = d.len /\ r.oid = d.oid ELSE ~r.ok)
    [] r.op = "seqDec" ->
         LET d == SeqDecStart(r.in, T(r.atag)) IN
         Same(r, d) /\ (d.ok => r.len = d.len /\ \A i \in 1..Len(r.sp) : (r.sr[i] = 1) = SeqDecStopOk(d, r.sp[i]))
    \* ---- encoders
    [] r.op = "derTLEnc" ->
         r.pc /\ (IF ~TagValid(T(r.atag)) THEN ~r.ok ELSE r.ok /\ r.out = TLEnc(T(r.atag), r.alen))
    [] r.op = "derEnc" ->
         r.pc /\ (IF ~TagValid(T(r.atag)) THEN ~r.ok ELSE r.ok /\ r.out = Enc(T(r.atag), r.in))
    [] r.op = "derTSIZEEnc" ->
         r.pc /\ (IF ~TagValid(T(r.atag)) THEN ~r.ok ELSE r.ok /\ r.out = SizeEnc(T(r.atag), r.aval))
    [] r.op = "derTUINTEnc" ->
         r.pc /\ (IF ~TagValid(T(r.atag)) THEN ~r.ok ELSE r.ok /\ r.out = UintEnc(T(r.atag), r.in))
    [] r.op = "derTBITEnc" ->
         r.pc /\ (IF ~TagValid(T(r.atag)) THEN ~r.ok ELSE r.ok /\ r.out = BitEnc(T(r.atag), r.in, r.abits))
    [] r.op \in {"derOIDEnc", "oidToDER"} ->
         r.pc /\ (IF ~OidStrIsValid(r.in) THEN ~r.ok ELSE r.ok /\ r.out = OidEnc(r.in))
    [] r.op = "derTPSTREnc" ->
         r.pc /\ (IF ~(TagValid(T(r.atag)) /\ IsPrintable(r.in)) THEN ~r.ok ELSE r.ok /\ r.out = PstrEnc(T(r.atag), r.in))
    [] r.op = "seqEnc" ->
         r.pc /\ (IF ~(TagValid(T(r.atag)) /\ TagIsConstructed(T(r.atag))) THEN ~r.ok
                  ELSE r.ok /\ r.out = SeqEnc(T(r.atag), r.in) /\ r.shift = SeqEncStopShift(Len(r.in)))
    \* ---- oid / hex / b64 / dec
    [] r.op = "oidIsValid" -> r.ok = OidIsValid(r.in)
    [] r.op = "hexIsValid" -> r.ok = HexIsValid(r.in)
    [] r.op = "b64IsValid" -> r.ok = B64IsValid(r.in)
    [] r.op = "decIsValid" -> r.ok = DecIsValid(r.in)
    [] r.op = "hexTo" ->
         /\ r.out = HexTo(r.in) /\ r.outrev = HexToRev(r.in) /\ r.up = HexUpper(r.in) /\ r.lo = HexLower(r.in)
         /\ r.eq /\ r.eqrev /\ r.neq /\ r.neqrev
    [] r.op = "hexFrom" -> r.term /\ r.out = HexFrom(r.in) /\ r.outrev = HexFromRev(r.in)
    [] r.op = "b64From" -> r.term /\ r.out = B64From(r.in)
    [] r.op = "b64To" -> r.pc /\ r.out = B64To(r.in) /\ r.n = Len(r.out)
    [] r.op = "decStr" ->
         /\ r.clz = DecCLZ(r.in) /\ WJ(r.u32) = DecToU32(r.in)
         /\ r.luhn = DecLuhnCalc(r.in) /\ r.damm = DecDammCalc(r.in)
         /\ r.luhnv = DecLuhnVerify(r.in) /\ r.dammv = DecDammVerify(r.in)
    [] r.op = "decFromU32" -> r.term /\ r.out = DecFromU32(r.acount, WJ(r.anum))
    \* ---- apdu
    [] r.op = "apduCmdDec" ->
         LET d == CmdDec(r.in) IN
         ~r.oob /\ r.pc /\
         (IF ~d.ok THEN ~r.ok
          ELSE LET same == /\ r.ok /\ r.valid
                           /\ [cla |-> r.cla, ins |-> r.ins, p1 |-> r.p1, p2 |-> r.p2, cdf |-> r.cdf, rdf |-> r.rdf] = d.cmd
                           /\ r.reok /\ r.relen = Len(CmdEnc(d.cmd)) /\ (r.relen > 1024 \/ r.re = CmdEnc(d.cmd))
               IN IF CmdIsCanonical(r.in) THEN same /\ r.reeq /\ r.relen = Len(r.in)
                  ELSE (~r.ok \/ same))          \* a well-formed code in a non-minimal form may be refused
    [] r.op = "apduCmdEnc" ->
         LET c == [cla |-> r.cla, ins |-> r.ins, p1 |-> r.p1, p2 |-> r.p2, cdf |-> r.cdf, rdf |-> r.rdf] IN
         r.pc /\ r.ok /\ r.out = CmdEnc(c) /\ CmdDec(r.out) = [ok |-> TRUE, cmd |-> c]
    [] r.op = "apduRespDec" ->
         LET d == RespDec(r.in) IN
         ~r.oob /\ r.pc /\
         (IF ~d.ok THEN ~r.ok
          ELSE r.ok /\ [sw1 |-> r.sw1, sw2 |-> r.sw2, rdf |-> r.rdf] = d.resp
               /\ (RespIsValid(d.resp) => r.reok /\ r.reeq /\ r.relen = Len(r.in)))
    \* ---- containers
    [] r.op = "bignParamsDec" ->
         LET d == ParamsDec(r.in) IN
         IF ~d.ok THEN ~r.ok
         ELSE /\ r.ok
              /\ [l |-> r.l, p |-> r.p, a |-> r.a, b |-> r.b, seed |-> r.seed, yG |-> r.yG, q |-> r.q] = d.params
              /\ (~d.cofactor => ParamsEnc(d.params) = r.in)                  \* DER is canonical
              /\ (r.reok => r.re = ParamsEnc(d.params))
              /\ (r.operable => r.reok)
    [] r.op = "bignParamsEnc" ->
         r.ok /\ r.pc /\ r.out = ParamsEnc([l |-> r.l, p |-> r.p, a |-> r.a, b |-> r.b, seed |-> r.seed, yG |-> r.yG, q |-> r.q])
    [] r.op = "btokCVCUnwrap" ->         \* fmt = "the code was accepted as a certificate" (any outcome but ERR_BAD_FORMAT)
         LET d == CvcDec(r.in) IN
         IF ~d.ok THEN ~r.fmt
         ELSE r.fmt /\ d.cvc = [authority |-> r.authority, holder |-> r.holder, pubkey |-> r.pubkey, from |-> r.from,
                                until |-> r.until, hat_eid |-> r.hat_eid, hat_esign |-> r.hat_esign]
                    /\ d.sig = r.sig
    [] r.op = "btokCVCLen" -> Same(r, CvcLen(r.in))
    [] OTHER -> FALSE

\* what the specification says about the input of a line (for the report of a disagreement)
Expected(r) ==
  CASE r.op = "derTLDec" -> TLDec(r.in)
    [] r.op = "derDec" -> Dec(r.in)
    [] r.op = "derTSIZEDec" -> SizeDec(r.in, T(r.atag))
    [] r.op = "derTUINTDec" -> UintDec(r.in, T(r.atag))
    [] r.op = "derTBITDec" -> BitDec(r.in, T(r.atag))
    [] r.op = "derOIDDec" -> OidDec(r.in)
    [] r.op = "oidFromDER" -> OidFromDer(r.in)
    [] r.op = "derTLEnc" -> <<TagValid(T(r.atag)), T(r.atag)>>
    [] r.op = "seqDec" -> SeqDecStart(r.in, T(r.atag))
    [] r.op = "derOIDDec2" -> OidDec2(r.in, r.aoid)
    [] r.op = "derStartsWith" -> StartsWith(r.in, T(r.atag))
    [] r.op = "btokCVCUnwrap" -> LET d == CvcDec(r.in) IN IF d.ok THEN <<"accepted", d.n>> ELSE <<"rejected", CvcBodyDec(DropN(r.in, 4)).ok>>
    [] r.op = "bignParamsDec" -> LET d == ParamsDec(r.in) IN IF d.ok THEN <<"accepted", d.n, d.cofactor>> ELSE <<"rejected">>
    [] r.op = "apduCmdDec" -> IF Len(r.in) > 64 THEN <<"long input", CmdDec(r.in).ok>> ELSE <<CmdDec(r.in), CmdIsCanonical(r.in)>>
    [] OTHER -> "see the reference semantics"

VARIABLES phase, idx, ok
Init == phase = 0 /\ idx = 0 /\ ok = TRUE
Next == \/ phase = 0 /\ phase' = 1 /\ idx' \in 1..Len(Tr) /\ ok' = TRUE
        \/ phase = 1 /\ phase' = 2 /\ idx' = idx /\ ok' = LineOk(Tr[idx])
                     /\ (ok' \/ PrintT(<<"@BAD", idx>>))
                     /\ (ok' \/ Tr[idx].fault # 0 \/ (Len(Tr[idx].in) > 64 /\ Tr[idx].op \notin {"bignParamsDec", "btokCVCUnwrap"}) \/ PrintT(<<"@SPEC", idx, Expected(Tr[idx])>>))
=============================================================================
