------------------------------ MODULE Trace_EC ------------------------------
(* C06, record direction (and the value side of C07 / C19 for the ec suite): every line logged by
   harness/drv_ec.c `record` is self-contained (curve p, A, B and all operands as 16-bit limbs) and is recomputed
   with the reference semantics ref/ECp.tla over BigNat, or - for the standard curves, where one 256-bit scalar
   multiplication costs tens of seconds - checked against a LAW that relates recorded results:
     pair / unary    R = P + Q, P - Q, -P, 2P, 3P  (operands must be points of the curve)
     mulsub ...      on a group of small known order ord (TLC checks ord P = O): d P = (d mod ord) P
     isonrow/isonraw the curve equation, coordinates >= p => FALSE
     swu             STB 34.101.66 map
     mul             R = d P by the Jacobian double-and-add evaluation of ScalarMul (few lines: "heavy")
     law_succ        e = d + 1  and  R2 = R1 + P           ((k+1)P = kP + P)
     law_neg         d + e = q  and  R2 = -R1              ((q-k)P = -kP)
     law_order       q G = O is reported as FALSE by ecMulA and TRUE by ecHasOrderA
     law_addmul      ecAddMulA's result = R1 + R2 of the two recorded multiples *)
EXTENDS BigNat, Json, IOUtils, TLC

EB == INSTANCE ECpBig

Tr == ndJsonDeserialize(IOEnv.TRACE)

N16(x) == Norm(From16(x))
Cv(r) == EB!BCurve(N16(r.p), N16(r.A), N16(r.B))
Pt(v) == IF Len(v) = 0 THEN EB!O ELSE <<N16(v[1]), N16(v[2])>>
OnE(e, v) == EB!IsPoint(e, Pt(v))

PairOk(r) ==
  LET e == Cv(r)  P == Pt(r.P)  Q == Pt(r.Q)
  IN /\ EB!IsPoint(e, P) /\ EB!IsPoint(e, Q)
     /\ CASE r.f \in {"addJ", "addAJ", "addAA"} -> Pt(r.R) = EB!PAdd(e, P, Q)
          [] r.f \in {"subJ", "subAJ", "subAA"} -> Pt(r.R) = EB!PSub(e, P, Q)
          [] OTHER -> FALSE
UnaryOk(r) ==
  LET e == Cv(r)  P == Pt(r.P)
  IN /\ EB!IsPoint(e, P)
     /\ CASE r.f \in {"negJ", "negA"} -> Pt(r.R) = EB!PNeg(e, P)
          [] r.f \in {"dblJ", "dblAJ"} -> Pt(r.R) = EB!PDbl(e, P)
          [] r.f = "tplJ" -> Pt(r.R) = EB!PTpl(e, P)
          [] r.f = "fromAtoA" -> Pt(r.R) = P
          [] OTHER -> FALSE
\* P lies in a group of order dividing ord
InGroup(e, P, ord) == EB!IsPoint(e, P) /\ EB!IsO(EB!ScalarMul(e, OfInt(ord), P))
MulSubOk(r) ==
  LET e == Cv(r)  P == Pt(r.P)
  IN InGroup(e, P, r.ord) /\ Pt(r.R) = EB!ScalarMul(e, Mod(From16(r.d), OfInt(r.ord)), P)
\* ec.h: TRUE iff d P = O; when d is a proper multiple of the order of P (d composite) both answers are admitted
HasOrderSubOk(r) ==
  LET e == Cv(r)  P == Pt(r.P)  d == Norm(From16(r.d))
      isO == EB!IsO(EB!ScalarMul(e, Mod(d, OfInt(r.ord)), P))
      exact == \A k \in 1..r.ord : (EB!IsO(EB!ScalarMul(e, OfInt(k), P)) /\ \A j \in 1..(k - 1) : ~EB!IsO(EB!ScalarMul(e, OfInt(j), P))) => d = OfInt(k)
  IN /\ InGroup(e, P, r.ord) /\ ~EB!IsO(P)
     /\ (~isO => r.res = FALSE)
     /\ ((isO /\ exact) => r.res = TRUE)
AddMulSubOk(r) ==
  LET e == Cv(r)  P == Pt(r.P)  Q == Pt(r.Q)
  IN /\ InGroup(e, P, r.ord) /\ InGroup(e, Q, r.ord)
     /\ Pt(r.R) = EB!PAdd(e, EB!ScalarMul(e, Mod(From16(r.d), OfInt(r.ord)), P), EB!ScalarMul(e, OfInt(r.e % r.ord), Q))
IsOnRowOk(r) ==
  LET e == Cv(r)
  IN \A y \in 0..(r.lim - 1) : (\E k \in 1..Len(r.ys) : r.ys[k] = y) = EB!IsOnCurve(e, OfInt(r.x), OfInt(y))
IsOnRawOk(r) == r.res = EB!IsOnCurve(Cv(r), N16(r.x), N16(r.y))
SwuOk(r) ==
  LET e == Cv(r)
  IN /\ Get(e.p, 1) % 4 = 3 /\ ~IsZero(e.A) /\ ~IsZero(e.B) /\ Less(N16(r.s), e.p)
     /\ Pt(r.R) = EB!SWU(e, N16(r.s))
GroupOk(r) ==
  LET e == Cv(r)
  IN r.valid = EB!IsSmooth(e) /\ r.ison = EB!IsPoint(e, Pt(r.P)) /\ r.seems
MulOk(r) ==
  LET e == Cv(r)  P == Pt(r.P)
  IN EB!IsPoint(e, P) /\ Pt(r.R) = EB!ScalarMulJ(e, Norm(From16(r.d)), P)
LawSuccOk(r) ==
  LET e == Cv(r)  P == Pt(r.P)  R1 == Pt(r.R1)  R2 == Pt(r.R2)
  IN /\ EB!IsPoint(e, P) /\ EB!IsPoint(e, R1) /\ EB!IsPoint(e, R2)
     /\ Eq(From16(r.e), Add(From16(r.d), One))
     /\ R2 = EB!PAdd(e, R1, P)
LawNegOk(r) ==
  LET e == Cv(r)  R1 == Pt(r.R1)  R2 == Pt(r.R2)
  IN /\ EB!IsPoint(e, R1) /\ EB!IsPoint(e, R2) /\ EB!IsPoint(e, Pt(r.P))
     /\ Eq(Add(From16(r.d), From16(r.e)), From16(r.q)) /\ ~IsZero(From16(r.d)) /\ ~IsZero(From16(r.e))
     /\ R2 = EB!PNeg(e, R1)
LawOrderOk(r) == r.mul_affine = FALSE /\ r.hasorder = TRUE /\ r.mul_affine_m1 = FALSE /\ EB!IsPoint(Cv(r), Pt(r.P))
LawAddMulOk(r) ==
  LET e == Cv(r)
  IN EB!IsPoint(e, Pt(r.R1)) /\ EB!IsPoint(e, Pt(r.R2)) /\ Pt(r.R) = EB!PAdd(e, Pt(r.R1), Pt(r.R2))

LineOk(r) ==
  CASE r.op = "pair" -> PairOk(r)
    [] r.op = "unary" -> UnaryOk(r)
    [] r.op = "mulsub" -> MulSubOk(r)
    [] r.op = "hasordersub" -> HasOrderSubOk(r)
    [] r.op = "addmulsub" -> AddMulSubOk(r)
    [] r.op = "isonrow" -> IsOnRowOk(r)
    [] r.op = "isonraw" -> IsOnRawOk(r)
    [] r.op = "swu" -> SwuOk(r)
    [] r.op = "group" -> GroupOk(r)
    [] r.op = "mul" -> MulOk(r)
    [] r.op = "law_succ" -> LawSuccOk(r)
    [] r.op = "law_neg" -> LawNegOk(r)
    [] r.op = "law_order" -> LawOrderOk(r)
    [] r.op = "law_addmul" -> LawAddMulOk(r)
    [] OTHER -> FALSE

VARIABLES phase, idx, ok
Init == phase = 0 /\ idx = 0 /\ ok = TRUE
Next == \/ phase = 0 /\ phase' = 1 /\ idx' \in 1..Len(Tr) /\ ok' = TRUE
        \/ phase = 1 /\ phase' = 2 /\ idx' = idx /\ ok' = LineOk(Tr[idx])
                     /\ (ok' \/ PrintT(<<"@BAD", idx>>))
=============================================================================
