---------------------------- MODULE Trace_Heap ----------------------------
(* C09 (E3, E4) / C15 (W): Pattern S trace validation.  The allocator and call events that
   harness/wrap_alloc.c recorded while REAL high-level functions ran (clean runs, argument
   errors, failed authentications, every fault position k = 1..n+1) are stepped through the
   actions of sm/Heap.tla; all logged fields are bound; E3, E4, W, NoBadFree are evaluated at
   every step.  The unlogged internal action Wipe(b) is inferred from the free-time snapshot:
   a Free line whose snapshot is wiped is preceded by one Wipe step of the machine.
   Acceptance: TraceDone stutters once every line is consumed, so with TLC's deadlock checking ON
   (checks/C09.py passes deadlock=True) a line the machine cannot take is reported as a deadlock
   at that line; POSTCONDITION TraceAccepted is the cheaper count-based cross-check.
   Every call starts with a Reset line (the harness releases what a call leaked after
   reporting it, and a crashed call leaves no CallEnd).
   The set of secret-processing functions comes from the contract table (sm/ErrContract.tla);
   the driver's own flag is bound against it.                                              *)
EXTENDS Heap, Sequences, SequencesExt, Json, IOUtils

EC == INSTANCE ErrContract

Tr == ndJsonDeserialize(IOEnv.TRACE)
TraceSecretFuncs == EC!SecretFns

TBlocks == Nat
TSizes == Nat
TFuncs == EC!AllFns
TErrs == Nat

VARIABLE l
tvars == <<hvars, l>>

TraceInit == HeapInit /\ l = 1

IsEvent(e) == l <= Len(Tr) /\ Tr[l].e = e /\ l' = l + 1

\* snapshot verdict of a block at the moment it is handed back
Snap(r) == r.wiped \/ r.zero

TraceReset == /\ IsEvent("Reset")
              /\ live' = Empty /\ live0' = {} /\ inCall' = FALSE /\ fn' = NoFn /\ failAt' = 0
              /\ allocCount' = 0 /\ failed' = FALSE /\ err' = OK /\ unwiped' = {} /\ badFree' = FALSE

TraceCallBegin == /\ IsEvent("CallBegin")
                  /\ Tr[l].secret = (Tr[l].fn \in SecretFuncs)
                  /\ CallBegin(Tr[l].fn, Tr[l].failAt)

TraceAlloc == IsEvent("Alloc") /\ Alloc(Tr[l].b, Tr[l].n)

\* an injected failure is exactly the failAt-th attempt
TraceAllocFail == IsEvent("AllocFail") /\ Tr[l].b = failAt /\ AllocFail(Tr[l].b)

TraceRealloc == IsEvent("Realloc") /\ Realloc(Tr[l].b, Tr[l].b2, Tr[l].n, ~Tr[l].hit)

TraceReallocFail == IsEvent("ReallocFail") /\ Tr[l].b2 = failAt /\ ReallocFail(Tr[l].b, Tr[l].b2)

\* inferred, not logged: the wipe that the snapshot of the next Free line proves
TraceWipe == /\ l <= Len(Tr) /\ Tr[l].e = "Free" /\ Snap(Tr[l])
             /\ Tr[l].b \in DOMAIN live /\ ~live[Tr[l].b].wiped
             /\ Wipe(Tr[l].b) /\ UNCHANGED l

TraceFree == /\ IsEvent("Free")
             /\ Tr[l].b \in DOMAIN live /\ Tr[l].n = live[Tr[l].b].size
             /\ Free(Tr[l].b, Snap(Tr[l]))

TraceFreeUnknown == IsEvent("FreeUnknown") /\ FreeUnknown

\* blocks still live at the return were snapshot too: `dirty` lists those that are not wiped
Dirty(r) == {r.dirty[i] : i \in 1..Len(r.dirty)}
TraceWipeAtEnd == /\ l <= Len(Tr) /\ Tr[l].e = "CallEnd"
                  /\ \E b \in DOMAIN live : ~live[b].wiped /\ b \notin Dirty(Tr[l]) /\ Wipe(b)
                  /\ UNCHANGED l

TraceCallEnd == /\ IsEvent("CallEnd")
                /\ Tr[l].live = Cardinality(DOMAIN live)
                /\ Dirty(Tr[l]) = {b \in DOMAIN live : ~live[b].wiped}
                /\ CallEnd(Tr[l].err)

\* the whole trace was consumed: stutter, so that any OTHER state without a successor is a
\* deadlock = a line the machine cannot take (TLC runs with deadlock checking on)
TraceDone == l = Len(Tr) + 1 /\ UNCHANGED tvars

TraceNext == \/ TraceDone \/ TraceReset \/ TraceCallBegin \/ TraceAlloc \/ TraceAllocFail \/ TraceRealloc
             \/ TraceReallocFail \/ TraceWipe \/ TraceWipeAtEnd \/ TraceFree \/ TraceFreeUnknown \/ TraceCallEnd

TraceSpec == TraceInit /\ [][TraceNext]_tvars

\* invariants with the position of the offending line
At(name) == PrintT(<<"@VIOL", name, l - 1, fn, failAt, unwiped>>)
TE3 == E3 \/ (At("E3") /\ FALSE)
TE4 == E4 \/ (At("E4") /\ FALSE)
TW == W \/ (At("W") /\ FALSE)
TWEnd == WEnd \/ (At("WEnd") /\ FALSE)
TNoBadFree == NoBadFree \/ (At("NoBadFree") /\ FALSE)

NWipes == Cardinality({i \in 1..Len(Tr) : Tr[i].e = "Free" /\ Snap(Tr[i])})
          + FoldLeft(LAMBDA acc, r : IF r.e = "CallEnd" THEN acc + (r.live - Len(r.dirty)) ELSE acc, 0, Tr)

TraceAccepted ==
  LET d == TLCGet("stats").diameter IN
  IF d - 1 = Len(Tr) + NWipes THEN TRUE
  ELSE /\ PrintT(<<"@REJECT", d, NWipes, Len(Tr)>>) /\ FALSE
=============================================================================
