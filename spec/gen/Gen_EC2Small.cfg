INIT Init
NEXT Next
