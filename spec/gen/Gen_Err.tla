------------------------------ MODULE Gen_Err ------------------------------
(* C09, replay direction: TLC enumerates the cases of spec/sm/ErrContract.tla (per driven
   function: the baseline call and every boundary value of every scalar argument, the others
   at their baseline; with Pairwise = TRUE also every value of one argument x every value of
   another one) and prints each case with the verdict the contract predicts (violated clauses,
   admissible error codes).  checks/C09.py turns the cases into command lines of
   harness/drv_err.c.  The table itself is checked on the way (TableOK): every baseline
   satisfies every clause and every driven clause is violated by at least one case. *)
EXTENDS ErrContract

CONSTANT Pairwise

VARIABLES gphase, gcase
Init == gphase = 0 /\ gcase = <<"", "", 0, "", 0>>
Next == \/ gphase = 0 /\ gphase' = 1 /\ gcase' \in (IF Pairwise THEN Cases \cup PairCases ELSE Cases)
        \/ /\ gphase = 1 /\ gphase' = 2 /\ gcase' = gcase
           /\ LET f == gcase[1] a == Args2(f, gcase[2], gcase[3], gcase[4], gcase[5]) IN
              PrintT("@J " \o ToJson([fn |-> f, p |-> gcase[2], v |-> gcase[3], q |-> gcase[4], w |-> gcase[5],
                                      a |-> a,
                                      viol |-> Violated(f, a), expect |-> Expect(f, a),
                                      secret |-> Contract(f).secret, fault |-> Contract(f).fault,
                                      tamper |-> Contract(f).tamper, auth |-> Contract(f).auth,
                                      nclauses |-> NClauses(f),
                                      kinds |-> [i \in 1..NClauses(f) |-> Contract(f).clauses[i].kind]]))
Table == gphase = 0 => TableOK
=============================================================================
