INIT Init
NEXT Next
