INIT Init
NEXT Next
INVARIANT Table
