---------------------------- MODULE Gen_DerTL ----------------------------
(* C08, exhaustive part.  TLC evaluates a decoder of the reference semantics on EVERY string of
   at most 3 symbols (16 843 008 octet strings for the DER functions; 16 646 656 character
   strings over the codes 1..255 for the text predicates) and prints one aggregate per 2-symbol
   prefix; harness/drv_codec.c computes the same aggregates over the real functions and
   checks/C08.py compares the tables and expands a differing prefix to its member strings.

   Two-level pattern: level 1 picks the prefix (a, b) - one TLC state each, so the workers run in
   parallel; level 2 folds over the 256 continuations.  The strings <<a, b>>, <<a>> (when b is
   the least symbol) and <<>> (when a and b are) are attributed to the prefix as well.
   IOEnv.GEN_FN selects the function:
     tl    derTLDec            n = consumed, v1 = length, v2 = tag code
     size  derTSIZEDec(0x02)   n = consumed, v1 = value
     oid   oidFromDER          n = characters, v1 = sum of codes, v2 = xor of i * code[i]
     hex   hexIsValid + hexTo  n = octets, v1 = sum, v2 = xor of i * octet[i]
     dec   decIsValid + CLZ, ToU32, Luhn and Damm digits
     b64   b64IsValid + b64To on 4-symbol strings <<a, b, c, d>>: a over 8 representatives (letter,
           letter with low bits, '/', '=', control, '-', 0x80, 0xFF), b over 1..255, (c, d) over
           representatives x representatives and over all c with d = '=' (the positions whose
           low bits matter get the full range)
   IOEnv.GEN_MOD / GEN_REM select a slice of the second symbols, IOEnv.GEN_R1..R3 (or -1)
   restrict the first octet to the given tag numbers (a % 32) - quick tier.                     *)
EXTENDS Codecs, TLC, IOUtils

Fn == IOEnv.GEN_FN
SliceMod == atoi(IOEnv.GEN_MOD)
SliceRem == atoi(IOEnv.GEN_REM)
\* "-1" is written as "n1" in the environment (atoi reads digits only)
Num(x) == IF x = "n1" THEN -1 ELSE atoi(x)
R1 == Num(IOEnv.GEN_R1)
R2 == Num(IOEnv.GEN_R2)
R3 == Num(IOEnv.GEN_R3)

IsOctetFn == Fn \in {"tl", "size", "oid"}
Lo == IF IsOctetFn THEN 0 ELSE 1
Syms == [i \in 1..(256 - Lo) |-> i - 1 + Lo]
B64Rep == <<65, 81, 47, 61, 1, 45, 128, 255>>

SumOf(v) == FoldLeft(LAMBDA acc, x : acc + x, 0, v)
XorW(v) == FoldLeft(LAMBDA acc, i : acc ^^ (i * v[i]), 0, Upto(Len(v)))
None == <<FALSE, 0, 0, 0>>

Eval(s) ==
  CASE Fn = "tl" -> LET d == TLDec(s) IN IF d.ok THEN <<TRUE, d.n, BNToInt(d.len), BNToInt(d.tag)>> ELSE None
    [] Fn = "size" -> LET d == SizeDec(s, <<2>>) IN IF d.ok THEN <<TRUE, d.n, BNToInt(d.val), 0>> ELSE None
    [] Fn = "oid" -> LET d == OidFromDer(s) IN IF d.ok THEN <<TRUE, d.len, SumOf(d.oid), XorW(d.oid)>> ELSE None
    [] Fn = "hex" -> IF HexIsValid(s) THEN LET o == HexTo(s) IN <<TRUE, Len(o), SumOf(o), XorW(o)>> ELSE None
    [] Fn = "dec" -> IF DecIsValid(s) THEN <<TRUE, DecCLZ(s), DecToU32(s)[1], (DecLuhnCalc(s) * 256) + DecDammCalc(s)>> ELSE None
    [] Fn = "b64" -> IF B64IsValid(s) THEN LET o == B64To(s) IN <<TRUE, Len(o), SumOf(o), XorW(o)>> ELSE None

B64RepSet == {B64Rep[i] : i \in 1..8}
B64CD == SetToSeq((B64RepSet \X B64RepSet) \cup {<<c, 61>> : c \in 1..255})
Z7 == <<0, 0, 0, 0, 0, 0, 0>>
Step(acc, s, w) ==
  LET r == Eval(s) IN
  IF ~r[1] THEN acc
  ELSE <<acc[1] + 1, acc[2] + r[2], acc[3] + r[3], acc[4] ^^ r[3], acc[5] + r[4], acc[6] ^^ r[4], acc[7] + w>>

Agg(a, b) ==
  IF Fn = "b64"
  THEN FoldLeft(LAMBDA acc, cd : Step(acc, <<a, b, cd[1], cd[2]>>, cd[1] + cd[2]), Z7, B64CD)
  ELSE LET x3 == FoldLeft(LAMBDA acc, c : Step(acc, <<a, b, c>>, c + 1), Z7, Syms)
           x2 == Step(x3, <<a, b>>, 0)
           x1 == IF b = Lo THEN Step(x2, <<a>>, 0) ELSE x2
       IN IF a = Lo /\ b = Lo THEN Step(x1, <<>>, 0) ELSE x1

BSet == Lo..255
ASet == IF Fn = "b64" THEN B64RepSet ELSE {x \in BSet : R1 = -1 \/ (x % 32) \in {R1, R2, R3}}
InSlice(a, b) == SliceMod = 1 \/ (((a * 256) + b) * 7 + (a \div 16)) % SliceMod = SliceRem

VARIABLES a, b, ph
Init == a \in ASet /\ b = 0 /\ ph = 0
Next == \/ ph = 0 /\ ph' = 1 /\ a' = a /\ b' \in {x \in BSet : InSlice(a, x)}
        \/ ph = 1 /\ ph' = 2 /\ a' = a /\ b' = b /\ PrintT(<<"@A", a, b, Agg(a, b)>>)
=============================================================================
