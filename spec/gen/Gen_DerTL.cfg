INIT Init
NEXT Next
