------------------------------ MODULE Gen_Belt ------------------------------
(* C01, replay direction: TLC enumerates (mechanism, key length, message length, header length)
   over the boundary classes, draws the data octets from Prng, computes with the reference
   semantics what STB 34.101.31 says the outputs are, and writes one case file per state.
   The harness (drv_belt exec) executes the cases on the real library; python compares. *)
EXTENDS BeltModes, Prng, Json, IOUtils, TLC

Seed == atoi(IOEnv.GEN_SEED)
OutDir == IOEnv.GEN_DIR
Tier == IOEnv.GEN_TIER

Ops == <<"ecbE","ecbD","cbcE","cbcD","cfbE","cfbD","ctr","mac","hash","hmac","bdeE","bdeD",
         "sdeE","sdeD","kwpW","dwpW","cheW","dwpU","cheU","kwpU","wblE","wblD","krp">>
Lens == IF Tier = "thorough" THEN <<0,1,15,16,17,18,23,31,32,33,40,47,48,49,63,64,65,79,80,81,95,96,97>>
        ELSE <<0,1,15,16,17,31,32,33,47,48,64,65,80,81>>
KLs == <<16, 24, 32>>

Admissible(op, len) ==
  CASE op \in {"ecbE","ecbD","cbcE","cbcD","kwpW"} -> len >= 16
    [] op \in {"bdeE","bdeD"} -> len >= 16 /\ len % 16 = 0
    [] op \in {"sdeE","sdeD"} -> len >= 32 /\ len % 16 = 0
    [] op \in {"wblE","wblD","kwpU"} -> len >= 32
    [] op = "krp" -> len \in {16, 32}            \* output length m; m <= n is required below
    [] OTHER -> TRUE

\* case identifiers: (op index, len index, key-length index)
CaseIds == {<<o, l, k>> \in (1..Len(Ops)) \X (1..Len(Lens)) \X (1..3) :
              /\ Admissible(Ops[o], Lens[l])
              /\ (Ops[o] = "krp" => Lens[l] <= KLs[k])
              /\ (Tier = "thorough" \/ (o + l + k + Seed) % 3 = 0)}

Case(id) ==
  LET op == Ops[id[1]]  len == Lens[id[2]]  klen == KLs[id[3]]
      s == id[1] * 97 + id[2] * 7 + id[3]
      key == PrngOctets(Seed, s, klen)
      iv == PrngOctets(Seed, s + 1000, 16)
      in == PrngOctets(Seed, s + 2000, len)
      hl == (id[2] * 5 + id[3]) % 35
      hdr == IF op \in {"kwpW", "kwpU", "krp"} THEN PrngOctets(Seed, s + 3000, 16) ELSE PrngOctets(Seed, s + 3000, hl)
      base == [op |-> op, key |-> key, iv |-> iv, in |-> in, hdr |-> hdr, rc |-> 0, m |-> 0, tag |-> <<>>]
  IN CASE op = "ecbE" -> [base EXCEPT !.iv = <<>>] @@ [out |-> ECBEncr(in, key)]
       [] op = "ecbD" -> base @@ [out |-> ECBDecr(in, key)]
       [] op = "cbcE" -> base @@ [out |-> CBCEncr(in, key, iv)]
       [] op = "cbcD" -> base @@ [out |-> CBCDecr(in, key, iv)]
       [] op = "cfbE" -> base @@ [out |-> CFBEncr(in, key, iv)]
       [] op = "cfbD" -> base @@ [out |-> CFBDecr(in, key, iv)]
       [] op = "ctr"  -> base @@ [out |-> CTR(in, key, iv)]
       [] op = "mac"  -> base @@ [out |-> MAC(in, key)]
       [] op = "hash" -> base @@ [out |-> Hash(in)]
       [] op = "hmac" -> base @@ [out |-> HMAC(key, in)]
       [] op = "bdeE" -> base @@ [out |-> BDEEncr(in, key, iv)]
       [] op = "bdeD" -> base @@ [out |-> BDEDecr(in, key, iv)]
       [] op = "sdeE" -> base @@ [out |-> SDEEncr(in, key, iv)]
       [] op = "sdeD" -> base @@ [out |-> SDEDecr(in, key, iv)]
       [] op = "kwpW" -> base @@ [out |-> KWPWrap(in, hdr, key)]
       [] op = "wblE" -> base @@ [out |-> WBLEncr(in, key)]
       [] op = "wblD" -> base @@ [out |-> WBLDecr(in, key)]
       [] op = "krp"  -> [base EXCEPT !.iv = SubSeq(iv, 1, 12), !.m = len, !.in = <<>>] @@ [out |-> KRP(key, SubSeq(iv, 1, 12), hdr, len)]
       [] op = "dwpW" -> LET w == DWPWrap(in, hdr, key, iv) IN [base EXCEPT !.tag = w[2]] @@ [out |-> w[1]]
       [] op = "cheW" -> LET w == CHEWrap(in, hdr, key, iv) IN [base EXCEPT !.tag = w[2]] @@ [out |-> w[1]]
       \* unwrap of a token produced by the specification itself: must be accepted with the plaintext
       [] op = "dwpU" -> LET w == DWPWrap(in, hdr, key, iv) IN [base EXCEPT !.in = w[1], !.tag = w[2]] @@ [out |-> in]
       [] op = "cheU" -> LET w == CHEWrap(in, hdr, key, iv) IN [base EXCEPT !.in = w[1], !.tag = w[2]] @@ [out |-> in]
       [] op = "kwpU" -> LET w == KWPWrap(SubSeq(in, 1, len - 16), hdr, key) IN [base EXCEPT !.in = w] @@ [out |-> SubSeq(in, 1, len - 16)]

VARIABLES phase, id
Init == phase = 0 /\ id = <<0, 0, 0>>
Next == \/ phase = 0 /\ phase' = 1 /\ id' \in CaseIds
        \/ phase = 1 /\ phase' = 2 /\ id' = id
                     /\ JsonSerialize(OutDir \o "/c_" \o ToString(id[1]) \o "_" \o ToString(id[2]) \o "_" \o ToString(id[3]) \o ".json", Case(id))
=============================================================================
