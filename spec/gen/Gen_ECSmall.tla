----------------------------- MODULE Gen_ECSmall -----------------------------
(* C06, replay direction: complete tables of the group law, computed by TLC from the definition (ref/ECp.tla).

   GEN_KIND = "int":  a complete small curve y^2 = x^3 + A x + B over GF(p), p < 2^10 (GEN_P, GEN_A, GEN_B).
     TLC enumerates ALL points by scanning (x, y), and emits
       pts.json     the point list (index 0 = O, then affine points in increasing (x, y)), the group order,
                    negation / doubling / tripling of every point, seeded multiples of the group order
                    (multi-word scalars with high words set that are congruent to 0)
       add_<i>.json row i of the full addition and subtraction tables
       mul_<i>.json kP for k = 0 .. 2*order+2 by ITERATED ADDITION
       ison_<b>.json for x in a block of [0, 2^GEN_BITS): the y in [0, 2^GEN_BITS) with IsOnCurve (incl. x, y >= p)
       swu.json     SWU(s) for every s in GF(p)   (p = 3 mod 4, A # 0, B # 0)
     Points are encoded as x * 32768 + y, O as -1.
   GEN_KIND = "big":  a multi-word prime p (GEN_PHEX, big-endian hex) and N in {5, 7} (GEN_N): the curve in Tate
     normal form  y^2 + (1-c) x y - b y = x^3 - b x^2  on which (0,0) has exact order N
     (N = 5: b = c = t;  N = 7: b = t^3 - t^2, c = t^2 - t), transformed to short Weierstrass form:
       a1 = 1-c, a2 = a3 = -b, a4 = a6 = 0;  b2 = a1^2 + 4 a2, b4 = a1 a3, b6 = a3^2;
       c4 = b2^2 - 24 b4, c6 = -b2^3 + 36 b2 b4 - 216 b6;   A = -27 c4, B = -54 c6, P = (3 b2, 108 a3).
     GEN_A3 = "1": the isomorphic curve with A = -3 (u^4 = -3/A; p = 3 mod 4), t is the first parameter
     >= GEN_T for which everything exists.  TLC CHECKS that the curve is smooth, P is on it, N P = O and
     i P # O for 0 < i < N, lists <P> = {O, P, .., (N-1)P} and emits the same tables (entries = indices).
   Two-level pattern: level 1 picks a batch, level 2 evaluates and serialises it. *)
EXTENDS BigNat, Prng, Json, IOUtils, TLC

EI == INSTANCE ECpInt
EB == INSTANCE ECpBig

Kind == IOEnv.GEN_KIND
OutDir == IOEnv.GEN_DIR
Seed == atoi(IOEnv.GEN_SEED)
IsInt == Kind = "int"

\* ------------------------------------------------------------------ complete small curve (integers)
IE == [p |-> atoi(IOEnv.GEN_P), A |-> atoi(IOEnv.GEN_A), B |-> atoi(IOEnv.GEN_B)]
Bits == atoi(IOEnv.GEN_BITS)
\* all affine points in increasing (x, y): for each x the y with y^2 = x^3 + A x + B
IPtsOfX(x) == LET r == EI!Rhs(IE, x)
              IN FoldLeft(LAMBDA acc, y : IF (y * y) % IE.p = r THEN Append(acc, <<x, y>>) ELSE acc, <<>>, Rng(0, IE.p - 1))
IPts == <<EI!O>> \o FoldLeft(LAMBDA acc, x : acc \o IPtsOfX(x), <<>>, [i \in 1..IE.p |-> i - 1])
IOrd == Len(IPts)
Code(P) == IF EI!IsO(P) THEN -1 ELSE P[1] * 32768 + P[2]
Codes(ps) == [i \in 1..Len(ps) |-> Code(ps[i])]
IK == 2 * IOrd + 2

\* seeded multiples of the group order filling mo octets (top octet non-zero): order * T
MultOf(ord, mo, stream) ==
  LET lenT == mo * 8 - BitLen(ord) - 2                    \* bits of T, so that ord*T + (2 ord + 2) < 2^(8 mo)
      T0 == ModPow2(FromOctets(PrngOctets(Seed, stream, mo)), lenT - 1)
      T == Add(T0, PowerOf2(lenT - 1))                    \* top bit of T set
      M == Mul(ord, T)
  IN [mo |-> mo, d16 |-> To16(M, mo \div 2), zero |-> IsZero(Mod(M, ord)), t16 |-> To16(T, mo \div 2)]
MoList == <<8, 16, 48>>
Mults(ord) == [i \in 1..Len(MoList) |-> MultOf(ord, MoList[i], 40 + i)]

IPtsRec ==
  [kind |-> "int", p |-> IE.p, A |-> IE.A, B |-> IE.B, n |-> IOrd, smooth |-> EI!IsSmooth(IE), bits |-> Bits,
   pts |-> Codes(IPts),
   neg |-> Codes([i \in 1..IOrd |-> EI!PNeg(IE, IPts[i])]),
   dbl |-> Codes([i \in 1..IOrd |-> EI!PDbl(IE, IPts[i])]),
   tpl |-> Codes([i \in 1..IOrd |-> EI!PTpl(IE, IPts[i])]),
   mults |-> Mults(OfInt(IOrd)),
   swuok |-> (IE.p % 4 = 3 /\ IE.A # 0 /\ IE.B # 0)]
IAddRec(i) == [i |-> i - 1,
               add |-> Codes([j \in 1..IOrd |-> EI!PAdd(IE, IPts[i], IPts[j])]),
               sub |-> Codes([j \in 1..IOrd |-> EI!PSub(IE, IPts[i], IPts[j])])]
IMulRec(i) == [i |-> i - 1, mul |-> Codes(EI!MulSeq(IE, IPts[i], IK))]
IsOnBlock == 16
IIsOnRec(b) == [x0 |-> b * IsOnBlock,
                ys |-> [d \in 1..IsOnBlock |->
                          FoldLeft(LAMBDA acc, y : IF EI!IsOnCurve(IE, b * IsOnBlock + d - 1, y) THEN Append(acc, y) ELSE acc,
                                   <<>>, Rng(0, 2 ^ Bits - 1) )]]
ISwuRec == [swu |-> Codes([s \in 1..IE.p |-> EI!SWU(IE, s - 1)])]

\* ------------------------------------------------------------------ subgroup of known order over a multi-word prime
HexVal(c) == CHOOSE v \in 0..15 : SubSeq("0123456789ABCDEF", v + 1, v + 1) = c
OfHex(s) == Norm(FromOctetsBE([i \in 1..(Len(s) \div 2) |-> HexVal(SubSeq(s, 2 * i - 1, 2 * i - 1)) * 16 + HexVal(SubSeq(s, 2 * i, 2 * i))]))
BPr == OfHex(IOEnv.GEN_PHEX)
BNn == atoi(IOEnv.GEN_N)
WantA3 == IOEnv.GEN_A3 = "1"
T0 == atoi(IOEnv.GEN_T)
NoOct == (BitLen(BPr) + 7) \div 8

M(a, b) == EB!BMul(a, b, BPr)
Pl(a, b) == EB!BAdd(a, b, BPr)
Mi(a, b) == EB!BSub(a, b, BPr)
I(v) == OfInt(v)
NegF(a) == Mi(Zero, a)
\* short Weierstrass image of the Tate normal form with parameter t: <<A, B, x, y>>
Tate(t) ==
  LET tt == I(t)
      b == IF BNn = 5 THEN tt ELSE Mi(M(M(tt, tt), tt), M(tt, tt))
      c == IF BNn = 5 THEN tt ELSE Mi(M(tt, tt), tt)
      a1 == Mi(One, c)   a2 == NegF(b)   a3 == NegF(b)
      b2 == Pl(M(a1, a1), M(I(4), a2))
      b4 == M(a1, a3)
      b6 == M(a3, a3)
      c4 == Mi(M(b2, b2), M(I(24), b4))
      c6 == Mi(Pl(NegF(M(M(b2, b2), b2)), M(M(I(36), b2), b4)), M(I(216), b6))
  IN <<NegF(M(I(27), c4)), NegF(M(I(54), c6)), M(I(3), b2), M(I(108), a3)>>
\* a fourth root of v for p = 3 (mod 4): <<ok, u>>
Root4(v) ==
  LET E0 == [p |-> BPr, A |-> Zero, B |-> Zero]
      s == EB!SqrtP(E0, v)
      s1 == EB!SqrtP(E0, s[2])
      s2 == EB!SqrtP(E0, NegF(s[2]))
  IN IF ~s[1] THEN <<FALSE, Zero>> ELSE IF s1[1] THEN s1 ELSE s2
\* the curve and generator for parameter t: [ok, E, P]
BCand(t) ==
  LET w == Tate(t)
      E1 == [p |-> BPr, A |-> w[1], B |-> w[2]]
  IN IF ~WantA3 THEN [ok |-> ~IsZero(w[1]) /\ ~Eq(w[1], Mi(Zero, I(3))), E |-> E1, P |-> <<w[3], w[4]>>]
     ELSE IF IsZero(w[1]) THEN [ok |-> FALSE, E |-> E1, P |-> <<>>]
     ELSE LET r == Root4(M(NegF(I(3)), EB!BInv(w[1], BPr)))
              u == r[2]  u2 == M(u, u)  u4 == M(u2, u2)
          IN [ok |-> r[1] /\ Eq(M(w[1], u4), NegF(I(3))),
              E |-> [p |-> BPr, A |-> M(w[1], u4), B |-> M(w[2], M(u4, u2))],
              P |-> <<M(w[3], u2), M(w[4], M(u2, u))>>]
BGood(t) == LET c == BCand(t)
            IN /\ c.ok /\ EB!IsSmooth(c.E) /\ EB!IsPoint(c.E, c.P)
               /\ LET ms == EB!MulSeq(c.E, c.P, BNn)
                  IN EB!IsO(ms[BNn + 1]) /\ \A i \in 1..(BNn - 1) : ~EB!IsO(ms[i + 1])
BTt == CHOOSE t \in T0..(T0 + 60) : BGood(t) /\ \A s \in T0..(t - 1) : ~BGood(s)
BCd == BCand(BTt)
BCv == BCd.E
BPts == SubSeq(EB!MulSeq(BCv, BCd.P, BNn - 1), 1, BNn)             \* <<O, P, 2P, .., (N-1)P>>
BOrd == BNn
BK == 2 * BOrd + 2
Find(P) == IF \E i \in 1..BOrd : BPts[i] = P THEN (CHOOSE i \in 1..BOrd : BPts[i] = P) - 1 ELSE -2
Finds(ps) == [i \in 1..Len(ps) |-> Find(ps[i])]
L16 == (NoOct + 1) \div 2
Pt16(P) == IF EB!IsO(P) THEN <<>> ELSE <<To16(P[1], L16), To16(P[2], L16)>>
BPtsRec ==
  [kind |-> "big", p |-> To16(BPr, L16), A |-> To16(BCv.A, L16), B |-> To16(BCv.B, L16), n |-> BOrd, t |-> BTt, a3 |-> WantA3,
   no |-> NoOct, smooth |-> EB!IsSmooth(BCv), pmod4 |-> Get(BPr, 1) % 4,
   gen_has_order |-> EB!HasOrder(BCv, BCd.P, I(BNn)),
   pts |-> [i \in 1..BOrd |-> Pt16(BPts[i])],
   neg |-> Finds([i \in 1..BOrd |-> EB!PNeg(BCv, BPts[i])]),
   dbl |-> Finds([i \in 1..BOrd |-> EB!PDbl(BCv, BPts[i])]),
   tpl |-> Finds([i \in 1..BOrd |-> EB!PTpl(BCv, BPts[i])]),
   mults |-> Mults(I(BOrd)), swuok |-> FALSE]
BAddRec(i) == [i |-> i - 1,
               add |-> Finds([j \in 1..BOrd |-> EB!PAdd(BCv, BPts[i], BPts[j])]),
               sub |-> Finds([j \in 1..BOrd |-> EB!PSub(BCv, BPts[i], BPts[j])])]
BMulRec(i) == [i |-> i - 1, mul |-> Finds(EB!MulSeq(BCv, BPts[i], BK))]

\* ------------------------------------------------------------------ batches
Ord == IF IsInt THEN IOrd ELSE BOrd
Batches == {<<"pts", 0>>}
           \cup {<<"add", i>> : i \in 1..Ord} \cup {<<"mul", i>> : i \in 1..Ord}
           \cup (IF IsInt THEN {<<"ison", b>> : b \in 0..((2 ^ Bits) \div IsOnBlock - 1)} ELSE {})
           \cup (IF IsInt /\ IPtsRec.swuok THEN {<<"swu", 0>>} ELSE {})
File(b) == OutDir \o "/" \o b[1] \o "_" \o ToString(b[2]) \o ".json"
Emit(b) ==
  CASE b[1] = "pts" -> JsonSerialize(File(b), IF IsInt THEN IPtsRec ELSE BPtsRec)
    [] b[1] = "add" -> JsonSerialize(File(b), IF IsInt THEN IAddRec(b[2]) ELSE BAddRec(b[2]))
    [] b[1] = "mul" -> JsonSerialize(File(b), IF IsInt THEN IMulRec(b[2]) ELSE BMulRec(b[2]))
    [] b[1] = "ison" -> JsonSerialize(File(b), IIsOnRec(b[2]))
    [] b[1] = "swu" -> JsonSerialize(File(b), ISwuRec)

VARIABLES phase, batch
Init == phase = 0 /\ batch = <<"", 0>>
Next == \/ phase = 0 /\ phase' = 1 /\ batch' \in Batches
        \/ phase = 1 /\ phase' = 2 /\ batch' = batch /\ Emit(batch)
=============================================================================
