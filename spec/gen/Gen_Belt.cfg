INIT Init
NEXT Next
