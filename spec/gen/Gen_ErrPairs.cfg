INIT Init
NEXT Next
CONSTANT Pairwise = TRUE
INVARIANT Table
