---------------------------- MODULE Gen_EC2Small ----------------------------
(* C06, replay direction, binary curves: complete tables of the group law of a COMPLETE small curve
     E: y^2 + x y = x^3 + A x^2 + B  over K = GF(2^d),
   carried into the field GF(2^m) of gf2.h (GEN_M, GEN_K, GEN_L, GEN_L1 = [4]p; d = GEN_D divides m) by the embedding
   phi of ref/EC2Embed.tla; GEN_A, GEN_B are the coefficients as elements of K (integers < 2^d).
   TLC constructs K inside GF(2^m), checks the construction (EmbOk), enumerates ALL points of E(K) by scanning (x, y),
   computes the tables with the definition ref/EC2.tla over K (integers) and emits
     pts_0.json    field and embedding (g, phi(a) for every a in K as 16-bit limbs), the point list (index 0 = O, then
                   the affine points in increasing (x, y)), the group order, negation / doubling of every point, seeded
                   multiples of the group order (multi-word scalars with high words set that are congruent to 0), and
                   a cross-check: for seeded pairs the sum computed over GF(2^m) (GF2Poly) equals phi of the sum over K
     add_<i>.json  row i of the complete addition and subtraction tables
     mul_<i>.json  kP for k = 0 .. 2*order+2 by ITERATED ADDITION
     ison_<b>.json for every x of K in a block: the y of K with IsOnCurve
   Points are encoded as x * 32768 + y, O as -1.  Two-level pattern: level 1 picks a batch, level 2 emits it. *)
EXTENDS EC2Embed, Prng, Json, IOUtils, TLC

OutDir == IOEnv.GEN_DIR
Seed == atoi(IOEnv.GEN_SEED)
Poly == <<atoi(IOEnv.GEN_M), atoi(IOEnv.GEN_K), atoi(IOEnv.GEN_L), atoi(IOEnv.GEN_L1)>>
D == atoi(IOEnv.GEN_D)
BF == E2B!BField(Poly[1], Poly[2], Poly[3], Poly[4])
Emb == Embed(BF, D)
KF == KField(Emb)
IE == [f |-> KF, A |-> atoi(IOEnv.GEN_A), B |-> atoi(IOEnv.GEN_B)]
Q == 2 ^ D
EBig == E2B!BCurve(BF, Phi(Emb, IE.A), Phi(Emb, IE.B))

IPtsOfX(x) == LET r == E2I!Rhs(IE, x)
              IN FoldLeft(LAMBDA acc, y : IF E2I!Lhs(IE, x, y) = r THEN Append(acc, <<x, y>>) ELSE acc, <<>>, PRng(0, Q - 1))
IPts == <<E2I!O>> \o FoldLeft(LAMBDA acc, x : acc \o IPtsOfX(x), <<>>, PRng(0, Q - 1))
IOrd == Len(IPts)
Code(P) == IF E2I!IsO(P) THEN -1 ELSE P[1] * 32768 + P[2]
Codes(ps) == [i \in 1..Len(ps) |-> Code(ps[i])]
IK == 2 * IOrd + 2

\* seeded multiples of the group order filling mo octets (top octet non-zero): order * T
MultOf(ord, mo, stream) ==
  LET lenT == mo * 8 - BitLen(ord) - 2                    \* bits of T, so that ord*T + (2 ord + 2) < 2^(8 mo)
      T0 == ModPow2(FromOctets(PrngOctets(Seed, stream, mo)), lenT - 1)
      T == Add(T0, PowerOf2(lenT - 1))                    \* top bit of T set
      M == Mul(ord, T)
  IN [mo |-> mo, d16 |-> To16(M, mo \div 2), zero |-> IsZero(Mod(M, ord)), t16 |-> To16(T, mo \div 2)]
MoList == <<8, 16, 48>>
Mults(ord) == [i \in 1..Len(MoList) |-> MultOf(ord, MoList[i], 40 + i)]

L16 == (Poly[1] + 15) \div 16
\* seeded pairs: the law over GF(2^m) on the images = the image of the law over K
CrossIdx == LET o == PrngOctets(Seed, 77, 48)
            IN [t \in 1..24 |-> <<((o[2 * t - 1] * 7 + t) % IOrd) + 1, ((o[2 * t] * 5 + 3 * t) % IOrd) + 1>>]
CrossOk ==
  /\ E2B!IsNonSingular(EBig)
  /\ \A t \in 1..24 :
       LET P == IPts[CrossIdx[t][1]]  R == IPts[CrossIdx[t][2]]
       IN /\ E2B!IsPoint(EBig, PhiPt(Emb, P))
          /\ E2B!EAdd(EBig, PhiPt(Emb, P), PhiPt(Emb, R)) = PhiPt(Emb, E2I!EAdd(IE, P, R))
          /\ E2B!EDbl(EBig, PhiPt(Emb, P)) = PhiPt(Emb, E2I!EDbl(IE, P))
          /\ E2B!ESub(EBig, PhiPt(Emb, P), PhiPt(Emb, R)) = PhiPt(Emb, E2I!ESub(IE, P, R))

IPtsRec ==
  [kind |-> "gf2", poly |-> Poly, d |-> D, g |-> Emb.g, j |-> Emb.j, A |-> IE.A, B |-> IE.B, n |-> IOrd,
   embok |-> EmbOk(Emb, BF), nonsingular |-> E2I!IsNonSingular(IE), trA |-> E2I!KTr(IE.A, KF), cross |-> CrossOk,
   gamma |-> PFit(Emb.gamma, L16),
   phi |-> [a \in 1..Q |-> PFit(Phi(Emb, a - 1), L16)],
   pts |-> Codes(IPts),
   neg |-> Codes([i \in 1..IOrd |-> E2I!ENeg(IE, IPts[i])]),
   dbl |-> Codes([i \in 1..IOrd |-> E2I!EDbl(IE, IPts[i])]),
   mults |-> Mults(OfInt(IOrd))]
IAddRec(i) == [i |-> i - 1,
               add |-> Codes([j \in 1..IOrd |-> E2I!EAdd(IE, IPts[i], IPts[j])]),
               sub |-> Codes([j \in 1..IOrd |-> E2I!ESub(IE, IPts[i], IPts[j])])]
IMulRec(i) == [i |-> i - 1, mul |-> Codes(E2I!MulSeq(IE, IPts[i], IK))]
IsOnBlock == 16
IIsOnRec(b) == [x0 |-> b * IsOnBlock,
                ys |-> [t \in 1..(IF Q < IsOnBlock THEN Q ELSE IsOnBlock) |->
                          FoldLeft(LAMBDA acc, y : IF E2I!IsOnCurve(IE, b * IsOnBlock + t - 1, y) THEN Append(acc, y) ELSE acc,
                                   <<>>, PRng(0, Q - 1))]]

Batches == {<<"pts", 0>>}
           \cup {<<"add", i>> : i \in 1..IOrd} \cup {<<"mul", i>> : i \in 1..IOrd}
           \cup {<<"ison", b>> : b \in 0..((Q + IsOnBlock - 1) \div IsOnBlock - 1)}
File(b) == OutDir \o "/" \o b[1] \o "_" \o ToString(b[2]) \o ".json"
Emit(b) ==
  CASE b[1] = "pts" -> JsonSerialize(File(b), IPtsRec)
    [] b[1] = "add" -> JsonSerialize(File(b), IAddRec(b[2]))
    [] b[1] = "mul" -> JsonSerialize(File(b), IMulRec(b[2]))
    [] b[1] = "ison" -> JsonSerialize(File(b), IIsOnRec(b[2]))

VARIABLES phase, batch
Init == phase = 0 /\ batch = <<"", 0>>
Next == \/ phase = 0 /\ phase' = 1 /\ batch' \in Batches
        \/ phase = 1 /\ phase' = 2 /\ batch' = batch /\ Emit(batch)
=============================================================================
