INIT Init
NEXT Next
