------------------------------ MODULE Gen_Bign ------------------------------
(* C02, replay direction: TLC enumerates cases (operation x class), draws the data octets from Prng(GEN_SEED, case),
   computes with ref/Bign.tla what STB 34.101.45 says the outputs are and writes one file per case; harness/drv_bign.c
   `exec` runs them on the library, python compares.  Private keys and nonces are short (16 bits) in most cases so
   that one case costs TLC seconds; the hash values range over the boundary classes (incl. H >= q), the key-generation
   tapes start with samples in [q, p) that the standard's d <-R {1..q-1} must skip.
   Appendix B: id-signatures under the identity keys e = 0, q - 1 and a 16-bit e (the predicted signature for e = 0 is
   S0 || (k - H) mod q); thorough: a whole chain for which TLC CONSTRUCTS the trusted party's key d = k (s0 + 2^l)^(-1)
   mod q so that B.2.3 defines the identity key e = 0 - predicted: the trusted party's signature, (e, R), the
   id-signature and the verdict of B.2.5. *)
EXTENDS Bign, Prng, Json, IOUtils, TLC

Seed == atoi(IOEnv.GEN_SEED)
OutDir == IOEnv.GEN_DIR
Tier == IOEnv.GEN_TIER
Lv == 128
P == Params(Lv)
OID == <<6, 9, 42, 112, 0, 2, 0, 34, 101, 31, 81>>

R16(id, s) == LET o == PrngOctets(Seed, id * 31 + s, 2) IN OfInt(3 + o[1] + 256 * o[2])
HOf(c, id) == CASE c = 0 -> PrngOctets(Seed, id * 31 + 7, P.no)
                [] c = 1 -> Oct(P.q, P.no)
                [] c = 2 -> Rep(P.no, 255)
                [] c = 3 -> Oct(Add(P.q, One), P.no)
                [] c = 4 -> Zeros(P.no)
QP1 == Add(P.q, One)
\* <<operation, class>>
Kinds == <<<<"keygen", 0>>, <<"keygen", 1>>, <<"keygen", 2>>, <<"sign", 0>>, <<"sign", 1>>, <<"sign", 2>>, <<"sign", 3>>, <<"sign", 4>>,
           <<"wrap", 0>>, <<"wrap", 1>>, <<"unwrap", 0>>, <<"unwrap", 1>>, <<"idsign", 0>>, <<"idsign", 1>>, <<"idsign", 2>>,
           <<"sign", 5>>, <<"sign2", 0>>, <<"idchain", 0>>>>
NCases == IF Tier = "thorough" THEN Len(Kinds) ELSE Len(Kinds) - 2
Case(id) ==
  LET op == Kinds[id][1]  c == Kinds[id][2]
      d == R16(id, 1)  k == R16(id, 2)
      X == PrngOctets(Seed, id * 31 + 3, 16 + 8 * c)
      I == PrngOctets(Seed, id * 31 + 4, 16)
      Qo == PtOct(P, PubkeyOf(P, d))
      base == [op |-> op, l |-> Lv, oid |-> OID, H |-> <<>>, d |-> Oct(d, P.no), tape |-> <<>>, X |-> <<>>, I |-> I, Q |-> <<>>,
               token |-> <<>>, t |-> <<>>, sig |-> <<>>, key |-> <<>>,
               H0 |-> <<>>, e |-> <<>>, tape2 |-> <<>>, R |-> <<>>, casig |-> <<>>, verdict |-> ""]
  IN CASE op = "keygen" ->
            \* first samples q+1 / q and (q+p)/2 / 0, 2^2l-1, p-1: all outside {1..q-1}
            LET pre == CASE c = 0 -> Oct(QP1, P.no)
                         [] c = 1 -> Oct(P.q, P.no) \o Oct(Div(Add(P.q, P.p), Two), P.no)
                         [] c = 2 -> Zeros(P.no) \o Rep(P.no, 255) \o Oct(Sub2(P.p, One), P.no)
                g == KeypairGen(P, pre \o Oct(d, P.no))
            IN [base EXCEPT !.tape = pre \o Oct(d, P.no), !.d = Oct(g.d, P.no), !.Q = PtOct(P, g.Q)]
       [] op = "sign" ->
            LET H == HOf(c % 5, id)
                kk == IF c = 5 THEN Add(PowL(P), k) ELSE k           \* c = 5: a nonce just above 2^l (long: thorough)
                dd == IF c = 5 THEN One ELSE d
            IN [base EXCEPT !.H = H, !.d = Oct(dd, P.no), !.tape = Oct(kk, P.no), !.sig = Sign(P, OID, H, dd, kk)]
       [] op = "sign2" ->
            LET H == HOf(0, id)  n == DetNonce(P, OID, d, H, I)
            IN [base EXCEPT !.H = H, !.t = I, !.sig = IF n.ok THEN Sign(P, OID, H, d, n.k) ELSE <<>>]
       [] op = "idsign" ->
            LET H == HOf(IF c = 1 THEN 2 ELSE 0, id)  H0 == PrngOctets(Seed, id * 31 + 8, P.no)
                e == CASE c = 0 -> Zero [] c = 1 -> Norm(Sub2(P.q, One)) [] c = 2 -> d
            IN [base EXCEPT !.H = H, !.H0 = H0, !.e = Oct(e, P.no), !.d = <<>>, !.tape = Oct(k, P.no), !.sig = IdSign(P, OID, H0, H, e, k)]
       [] op = "idchain" ->
            LET H == HOf(0, id)  H0 == PrngOctets(Seed, id * 31 + 8, P.no)  k2 == R16(id, 5)
                s0 == Num(HashL(P, OID, EB!ScalarMulJ(Curve(P), k, G(P)), H0))
                dd == Mod(Mul(k, ModInv(Add(s0, PowL(P)), P.q)), P.q)                 \* e = k - (s0 + 2^l) d = 0
                Qd == PtOct(P, PubkeyOf(P, dd))
                cs == Sign(P, OID, H0, dd, k)
                x == IdExtract(P, OID, H0, cs, Qd)
                is == IdSign(P, OID, H0, H, x.e, k2)
            IN [base EXCEPT !.H = H, !.H0 = H0, !.d = Oct(dd, P.no), !.Q = Qd, !.tape = Oct(k, P.no), !.tape2 = Oct(k2, P.no), !.casig = cs,
                            !.e = Oct(x.e, P.no), !.R = IF x.st = "ok" THEN PtOct(P, x.R) ELSE <<>>, !.sig = is,
                            !.verdict = IF x.st = "ok" THEN IdVerify(P, OID, H0, H, is, PtOct(P, x.R), Qd) ELSE x.st]
       [] op = "wrap" -> [base EXCEPT !.X = X, !.Q = Qo, !.tape = Oct(k, P.no), !.token = KeyWrap(P, X, I, Qo, k)]
       [] op = "unwrap" -> LET tok == KeyWrap(P, X, I, Qo, k)
                               u == KeyUnwrap(P, tok, I, d)
                           IN [base EXCEPT !.X = X, !.token = tok, !.key = IF u[1] THEN u[2] ELSE <<255>>]

VARIABLES phase, id
Init == phase = 0 /\ id = 0
Next == \/ phase = 0 /\ phase' = 1 /\ id' \in 1..NCases
        \/ phase = 1 /\ phase' = 2 /\ id' = id /\ JsonSerialize(OutDir \o "/c_" \o ToString(id) \o ".json", Case(id))
=============================================================================
