------------------------------- MODULE BotpSM -------------------------------
(* C03: the one-time-password state objects of include/bee2/crypto/botp.h as a state machine.

   One state object (botpHOTP / botpTOTP / botpOCRA bundle).  The abstract state is what the
   header says the object holds:
     vMode  which bundle the object was initialised for ("off" = not initialised / unusable),
     vDigit number of digits of the passwords,
     vKey   the key,
     vCtr   the 8-octet big-endian counter of HOTP / OCRA (<<>> = not defined: no StepS yet, TOTP,
            or an OCRA suite without the counter),
     vSet   StepS was called after the last Start (session data are set),
     vSuite, vPr, vP, vS   OCRA: the suite string, its parse, the session data P and S that the
            suite uses (<<>> when it does not),
     vRes   what the last call returned: [op, otp, ok, ctr].
   (The v-prefix is not decoration: TLC decides whether a definition is constant-level -- and so
    pre-evaluates it once -- by NAME; a variable called key / digit / ctr / n makes every operator
    with a parameter of that name (HMAC(key, X), Zeros(n), ...) look state-dependent, and tables of
    their values are then recomputed at every reference.)

   One action per function of the header, with the documented effect:
     botp-hotp: "При выработке, а также при успешной проверке пароля в функциях botpHOTPStepR(),
       botpHOTPStepV() счетчик, размещенный в состоянии, инкрементируется."
       StepS  : the counter is set;
       StepR  : password of (digit, key, counter), then the counter is incremented (mod 2^64);
       StepV  : the password of the current counter is compared with otp; IF THEY COINCIDE the
                counter is incremented -- otherwise the object is as before the call;
       StepG  : returns the current counter, changes nothing.
     botp-totp: no session state: StepR(t) / StepV(otp, t) depend on (digit, key, t) only.
     botp-ocra: StepS sets ctr, P, S (those the suite uses); StepR(q, t): password of the data
       input, "Если suite задает использование счетчика, то после генерации пароля он
       инкрементируется"; StepV: "... после успешной проверки пароля он инкрементируется";
       StepG returns the counter.  StepS may be omitted iff the suite uses none of ctr, P, S.
     "Состояние можно копировать как фрагмент памяти": Move (relocation) changes nothing.
   Call orders required by the header (\expect Start < StepS < StepR* ...) are the enabling
   conditions of the actions; preconditions (digit in 6..8, 4 <= |q| <= 2 q_max, t # TIME_ERR)
   likewise: histories outside them are not behaviours (generators never produce them).

   The password VALUES are parameters: OtpH / OtpO are instantiated with Botp!HOTP / Botp!OCRA
   (reference semantics of RFC 4226 / 6287 over HMAC[belt-hash]) or with tables of their values. *)
EXTENDS Botp

CONSTANTS OtpH(_, _, _),               \* (digit, key, 8 octets) -> password  (HOTP; TOTP on the time octets)
          OtpO(_, _, _, _, _, _, _)    \* (suite, key, q, ctr, p, s, 8 time octets) -> password (OCRA)

VARIABLES vMode, vDigit, vKey, vCtr, vSet, vSuite, vPr, vP, vS, vRes
vars == <<vMode, vDigit, vKey, vCtr, vSet, vSuite, vPr, vP, vS, vRes>>
obj  == <<vMode, vDigit, vKey, vCtr, vSet, vSuite, vPr, vP, vS>>       \* the object itself (without the last result)

TimeErrL == <<65535, 65535, 65535, 65535>>      \* TIME_ERR = (tm_time_t)-1 as 16-bit limbs
Res(op, o, ok, c) == [op |-> op, otp |-> o, ok |-> ok, ctr |-> c]

\* the counter is defined (and projected by StepG)
HasCtrOf(m, cs, p) == (m = "hotp" /\ cs) \/ (m = "ocra" /\ cs /\ p.ctr)
HasCtr == HasCtrOf(vMode, vSet, vPr)

Init == /\ vMode = "off" /\ vDigit = 0 /\ vKey = <<>> /\ vCtr = <<>> /\ vSet = FALSE
        /\ vSuite = <<>> /\ vPr = NoParse /\ vP = <<>> /\ vS = <<>>
        /\ vRes = Res("none", <<>>, TRUE, <<>>)

\* ---------------------------------------------------------------- HOTP
HotpStart(d, k) ==
  /\ d \in HotpDigits
  /\ vMode' = "hotp" /\ vDigit' = d /\ vKey' = k /\ vCtr' = <<>> /\ vSet' = FALSE
  /\ vSuite' = <<>> /\ vPr' = NoParse /\ vP' = <<>> /\ vS' = <<>>
  /\ vRes' = Res("HotpStart", <<>>, TRUE, <<>>)

HotpStepS(c) ==
  /\ vMode = "hotp" /\ Len(c) = 8
  /\ vCtr' = c /\ vSet' = TRUE
  /\ vRes' = Res("HotpStepS", <<>>, TRUE, <<>>)
  /\ UNCHANGED <<vMode, vDigit, vKey, vSuite, vPr, vP, vS>>

HotpStepR ==
  /\ vMode = "hotp" /\ vSet
  /\ vRes' = Res("HotpStepR", OtpH(vDigit, vKey, vCtr), TRUE, <<>>)
  /\ vCtr' = CtrNext(vCtr)
  /\ UNCHANGED <<vMode, vDigit, vKey, vSet, vSuite, vPr, vP, vS>>

HotpStepV(o) ==
  /\ vMode = "hotp" /\ vSet
  /\ LET good == o = OtpH(vDigit, vKey, vCtr) IN
       /\ vRes' = Res("HotpStepV", <<>>, good, <<>>)
       /\ vCtr' = IF good THEN CtrNext(vCtr) ELSE vCtr
  /\ UNCHANGED <<vMode, vDigit, vKey, vSet, vSuite, vPr, vP, vS>>

HotpStepG ==
  /\ vMode = "hotp" /\ vSet
  /\ vRes' = Res("HotpStepG", <<>>, TRUE, vCtr)
  /\ UNCHANGED obj

\* ---------------------------------------------------------------- TOTP (t: four 16-bit limbs)
TotpStart(d, k) ==
  /\ d \in HotpDigits
  /\ vMode' = "totp" /\ vDigit' = d /\ vKey' = k /\ vCtr' = <<>> /\ vSet' = FALSE
  /\ vSuite' = <<>> /\ vPr' = NoParse /\ vP' = <<>> /\ vS' = <<>>
  /\ vRes' = Res("TotpStart", <<>>, TRUE, <<>>)

TotpStepR(t) ==
  /\ vMode = "totp" /\ t # TimeErrL
  /\ vRes' = Res("TotpStepR", OtpH(vDigit, vKey, TimeBE(t)), TRUE, <<>>)
  /\ UNCHANGED obj

TotpStepV(o, t) ==
  /\ vMode = "totp" /\ t # TimeErrL
  /\ vRes' = Res("TotpStepV", <<>>, o = OtpH(vDigit, vKey, TimeBE(t)), <<>>)
  /\ UNCHANGED obj

\* ---------------------------------------------------------------- OCRA
OcraStart(u, k) ==
  LET p == SuiteParse(u) IN
  /\ vRes' = Res("OcraStart", <<>>, p.ok, <<>>)
  /\ IF p.ok
     THEN /\ vMode' = "ocra" /\ vDigit' = p.digit /\ vKey' = k /\ vSuite' = u /\ vPr' = p
     ELSE /\ vMode' = "off" /\ vDigit' = 0 /\ vKey' = <<>> /\ vSuite' = <<>> /\ vPr' = NoParse    \* the object is unusable
  /\ vCtr' = <<>> /\ vSet' = FALSE /\ vP' = <<>> /\ vS' = <<>>

OcraNeedsS == vPr.ctr \/ vPr.plen > 0 \/ vPr.slen > 0
OcraReady == vMode = "ocra" /\ (IF vSet THEN TRUE ELSE ~OcraNeedsS)
\* (IF rather than =>: TLC splits an implication inside an action into two branches and generates the successor twice)
OcraArgsOk(q, t) == OCRAQOk(vPr, q) /\ (IF vPr.ts # 0 THEN t # TimeErrL ELSE TRUE)
OcraVal(q, t) == OtpO(vSuite, vKey, q, vCtr, vP, vS, TimeBE(t))

\* c, p, s: what the caller passes; only the parameters the vSuite uses are taken
OcraStepS(c, p, s) ==
  /\ vMode = "ocra"
  /\ (IF vPr.ctr THEN Len(c) = 8 ELSE TRUE)
  /\ Len(p) >= vPr.plen /\ Len(s) >= vPr.slen
  /\ vCtr' = IF vPr.ctr THEN c ELSE <<>>
  /\ vP' = TakeN(p, vPr.plen) /\ vS' = TakeN(s, vPr.slen)
  /\ vSet' = TRUE
  /\ vRes' = Res("OcraStepS", <<>>, TRUE, <<>>)
  /\ UNCHANGED <<vMode, vDigit, vKey, vSuite, vPr>>

OcraStepR(q, t) ==
  /\ OcraReady /\ OcraArgsOk(q, t)
  /\ vRes' = Res("OcraStepR", OcraVal(q, t), TRUE, <<>>)
  /\ vCtr' = IF vPr.ctr THEN CtrNext(vCtr) ELSE vCtr
  /\ UNCHANGED <<vMode, vDigit, vKey, vSet, vSuite, vPr, vP, vS>>

OcraStepV(o, q, t) ==
  /\ OcraReady /\ OcraArgsOk(q, t)
  /\ LET good == o = OcraVal(q, t) IN
       /\ vRes' = Res("OcraStepV", <<>>, good, <<>>)
       /\ vCtr' = IF good /\ vPr.ctr THEN CtrNext(vCtr) ELSE vCtr
  /\ UNCHANGED <<vMode, vDigit, vKey, vSet, vSuite, vPr, vP, vS>>

\* without a counter in the suite the octets returned by StepG are not specified (vRes.ctr = <<>>)
OcraStepG ==
  /\ vMode = "ocra" /\ vSet
  /\ vRes' = Res("OcraStepG", <<>>, TRUE, vCtr)
  /\ UNCHANGED obj

\* ---------------------------------------------------------------- relocation of the object
Move == /\ vMode # "off"
        /\ vRes' = Res("Move", <<>>, TRUE, <<>>)
        /\ UNCHANGED obj

-----------------------------------------------------------------------------
\* ---- properties of the specification (checked by TLC on every explored history)
IsDigits(o) == \A i \in 1..Len(o) : o[i] >= 48 /\ o[i] <= 57
TypeOK ==
  /\ vMode \in {"off", "hotp", "totp", "ocra"}
  /\ vSet \in BOOLEAN /\ vRes.ok \in BOOLEAN
  /\ vMode \in {"hotp", "totp"} => vDigit \in HotpDigits
  /\ vMode = "ocra" => (vPr.ok /\ vDigit = vPr.digit /\ vDigit \in 4..9)
  /\ IsOctets(vKey) /\ IsOctets(vCtr) /\ IsOctets(vP) /\ IsOctets(vS)
\* the counter has 8 octets exactly when it is defined
CtrShape == Len(vCtr) = (IF HasCtr THEN 8 ELSE 0)
\* a generated password has the announced number of decimal digits
OtpShape == vRes.op \in {"HotpStepR", "TotpStepR", "OcraStepR"} => (Len(vRes.otp) = vDigit /\ IsDigits(vRes.otp))
\* only the vSuite's session data are kept
SessShape == vMode = "ocra" => (Len(vP) = (IF vSet THEN vPr.plen ELSE 0) /\ Len(vS) = (IF vSet THEN vPr.slen ELSE 0))

StartOps == {"HotpStart", "TotpStart", "OcraStart"}
SetOps   == {"HotpStepS", "OcraStepS"}
GenOps   == {"HotpStepR", "OcraStepR"}
VerOps   == {"HotpStepV", "TotpStepV", "OcraStepV"}
\* action properties (of one step <<vars, vars'>>)
\* a failed verification leaves the object as it was
A_FailKeeps == (vRes'.op \in VerOps /\ ~vRes'.ok) => UNCHANGED obj
\* the counter changes only by StepS / Start, or by exactly one increment in StepR / a successful StepV
A_CtrMoves == (vCtr' # vCtr) => \/ vRes'.op \in (StartOps \cup SetOps)
                              \/ /\ vCtr' = CtrNext(vCtr)
                                 /\ vRes'.op \in GenOps \/ (vRes'.op \in VerOps /\ vRes'.ok)
\* ... and it does change there (when defined): generation and successful verification consume the counter
A_Consumes == ((vRes'.op \in GenOps \/ (vRes'.op \in {"HotpStepV", "OcraStepV"} /\ vRes'.ok)) /\ HasCtr)
                => vCtr' = CtrNext(vCtr)
\* StepG and Move are observations
A_GetPure == vRes'.op \in {"HotpStepG", "OcraStepG", "Move"} => UNCHANGED obj
\* StepG returns the counter
A_GetCtr == vRes'.op \in {"HotpStepG", "OcraStepG"} => vRes'.ctr = vCtr
\* generator / verifier synchronisation: a verifier in the pre-state of a generation step accepts the
\* generated password and arrives at the generator's counter
A_Sync == (vRes'.op = "HotpStepR" => vRes'.otp = OtpH(vDigit, vKey, vCtr))
=============================================================================
