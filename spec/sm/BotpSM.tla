------------------------------- MODULE BotpSM -------------------------------
(* C03: the one-time-password state objects of include/bee2/crypto/botp.h as a state machine.

   One state object (botpHOTP / botpTOTP / botpOCRA bundle).  The abstract state is what the
   header says the object holds:
     mode   which bundle the object was initialised for ("off" = not initialised / unusable),
     digit  number of digits of the passwords,
     key    the key,
     ctr    the 8-octet big-endian counter of HOTP / OCRA (<<>> = not defined: no StepS yet, TOTP,
            or an OCRA suite without the counter),
     cset   StepS was called after the last Start (session data are set),
     suite, pr, sp, ss   OCRA: the suite string, its parse, the session data P and S that the
            suite uses (<<>> when it does not),
     res    what the last call returned: [op, otp, ok, ctr].

   One action per function of the header, with the documented effect:
     botp-hotp: "При выработке, а также при успешной проверке пароля в функциях botpHOTPStepR(),
       botpHOTPStepV() счетчик, размещенный в состоянии, инкрементируется."
       StepS  : the counter is set;
       StepR  : password of (digit, key, counter), then the counter is incremented (mod 2^64);
       StepV  : the password of the current counter is compared with otp; IF THEY COINCIDE the
                counter is incremented -- otherwise the object is as before the call;
       StepG  : returns the current counter, changes nothing.
     botp-totp: no session state: StepR(t) / StepV(otp, t) depend on (digit, key, t) only.
     botp-ocra: StepS sets ctr, P, S (those the suite uses); StepR(q, t): password of the data
       input, "Если suite задает использование счетчика, то после генерации пароля он
       инкрементируется"; StepV: "... после успешной проверки пароля он инкрементируется";
       StepG returns the counter.  StepS may be omitted iff the suite uses none of ctr, P, S.
     "Состояние можно копировать как фрагмент памяти": Move (relocation) changes nothing.
   Call orders required by the header (\expect Start < StepS < StepR* ...) are the enabling
   conditions of the actions; preconditions (digit in 6..8, 4 <= |q| <= 2 q_max, t # TIME_ERR)
   likewise: histories outside them are not behaviours (generators never produce them).

   The password VALUES are parameters: OtpH / OtpO are instantiated with Botp!HOTP / Botp!OCRA
   (reference semantics of RFC 4226 / 6287 over HMAC[belt-hash]) or with tables of their values. *)
EXTENDS Botp

CONSTANTS OtpH(_, _, _),               \* (digit, key, 8 octets) -> password  (HOTP; TOTP on the time octets)
          OtpO(_, _, _, _, _, _, _)    \* (suite, key, q, ctr, p, s, 8 time octets) -> password (OCRA)

VARIABLES mode, digit, key, ctr, cset, suite, pr, sp, ss, res
vars == <<mode, digit, key, ctr, cset, suite, pr, sp, ss, res>>
obj  == <<mode, digit, key, ctr, cset, suite, pr, sp, ss>>       \* the object itself (without the last result)

TimeErrL == <<65535, 65535, 65535, 65535>>      \* TIME_ERR = (tm_time_t)-1 as 16-bit limbs
Res(op, o, ok, c) == [op |-> op, otp |-> o, ok |-> ok, ctr |-> c]

\* the counter is defined (and projected by StepG)
HasCtrOf(m, cs, p) == (m = "hotp" /\ cs) \/ (m = "ocra" /\ cs /\ p.ctr)
HasCtr == HasCtrOf(mode, cset, pr)

Init == /\ mode = "off" /\ digit = 0 /\ key = <<>> /\ ctr = <<>> /\ cset = FALSE
        /\ suite = <<>> /\ pr = NoParse /\ sp = <<>> /\ ss = <<>>
        /\ res = Res("none", <<>>, TRUE, <<>>)

\* ---------------------------------------------------------------- HOTP
HotpStart(d, k) ==
  /\ d \in HotpDigits
  /\ mode' = "hotp" /\ digit' = d /\ key' = k /\ ctr' = <<>> /\ cset' = FALSE
  /\ suite' = <<>> /\ pr' = NoParse /\ sp' = <<>> /\ ss' = <<>>
  /\ res' = Res("HotpStart", <<>>, TRUE, <<>>)

HotpStepS(c) ==
  /\ mode = "hotp" /\ Len(c) = 8
  /\ ctr' = c /\ cset' = TRUE
  /\ res' = Res("HotpStepS", <<>>, TRUE, <<>>)
  /\ UNCHANGED <<mode, digit, key, suite, pr, sp, ss>>

HotpStepR ==
  /\ mode = "hotp" /\ cset
  /\ res' = Res("HotpStepR", OtpH(digit, key, ctr), TRUE, <<>>)
  /\ ctr' = CtrNext(ctr)
  /\ UNCHANGED <<mode, digit, key, cset, suite, pr, sp, ss>>

HotpStepV(o) ==
  /\ mode = "hotp" /\ cset
  /\ LET good == o = OtpH(digit, key, ctr) IN
       /\ res' = Res("HotpStepV", <<>>, good, <<>>)
       /\ ctr' = IF good THEN CtrNext(ctr) ELSE ctr
  /\ UNCHANGED <<mode, digit, key, cset, suite, pr, sp, ss>>

HotpStepG ==
  /\ mode = "hotp" /\ cset
  /\ res' = Res("HotpStepG", <<>>, TRUE, ctr)
  /\ UNCHANGED obj

\* ---------------------------------------------------------------- TOTP (t: four 16-bit limbs)
TotpStart(d, k) ==
  /\ d \in HotpDigits
  /\ mode' = "totp" /\ digit' = d /\ key' = k /\ ctr' = <<>> /\ cset' = FALSE
  /\ suite' = <<>> /\ pr' = NoParse /\ sp' = <<>> /\ ss' = <<>>
  /\ res' = Res("TotpStart", <<>>, TRUE, <<>>)

TotpStepR(t) ==
  /\ mode = "totp" /\ t # TimeErrL
  /\ res' = Res("TotpStepR", OtpH(digit, key, TimeBE(t)), TRUE, <<>>)
  /\ UNCHANGED obj

TotpStepV(o, t) ==
  /\ mode = "totp" /\ t # TimeErrL
  /\ res' = Res("TotpStepV", <<>>, o = OtpH(digit, key, TimeBE(t)), <<>>)
  /\ UNCHANGED obj

\* ---------------------------------------------------------------- OCRA
OcraStart(u, k) ==
  LET p == SuiteParse(u) IN
  /\ res' = Res("OcraStart", <<>>, p.ok, <<>>)
  /\ IF p.ok
     THEN /\ mode' = "ocra" /\ digit' = p.digit /\ key' = k /\ suite' = u /\ pr' = p
     ELSE /\ mode' = "off" /\ digit' = 0 /\ key' = <<>> /\ suite' = <<>> /\ pr' = NoParse    \* the object is unusable
  /\ ctr' = <<>> /\ cset' = FALSE /\ sp' = <<>> /\ ss' = <<>>

OcraNeedsS == pr.ctr \/ pr.plen > 0 \/ pr.slen > 0
OcraReady == mode = "ocra" /\ (cset \/ ~OcraNeedsS)
OcraArgsOk(q, t) == OCRAQOk(pr, q) /\ (pr.ts # 0 => t # TimeErrL)
OcraVal(q, t) == OtpO(suite, key, q, ctr, sp, ss, TimeBE(t))

\* c, p, s: what the caller passes; only the parameters the suite uses are taken
OcraStepS(c, p, s) ==
  /\ mode = "ocra"
  /\ pr.ctr => Len(c) = 8
  /\ Len(p) >= pr.plen /\ Len(s) >= pr.slen
  /\ ctr' = IF pr.ctr THEN c ELSE <<>>
  /\ sp' = TakeN(p, pr.plen) /\ ss' = TakeN(s, pr.slen)
  /\ cset' = TRUE
  /\ res' = Res("OcraStepS", <<>>, TRUE, <<>>)
  /\ UNCHANGED <<mode, digit, key, suite, pr>>

OcraStepR(q, t) ==
  /\ OcraReady /\ OcraArgsOk(q, t)
  /\ res' = Res("OcraStepR", OcraVal(q, t), TRUE, <<>>)
  /\ ctr' = IF pr.ctr THEN CtrNext(ctr) ELSE ctr
  /\ UNCHANGED <<mode, digit, key, cset, suite, pr, sp, ss>>

OcraStepV(o, q, t) ==
  /\ OcraReady /\ OcraArgsOk(q, t)
  /\ LET good == o = OcraVal(q, t) IN
       /\ res' = Res("OcraStepV", <<>>, good, <<>>)
       /\ ctr' = IF good /\ pr.ctr THEN CtrNext(ctr) ELSE ctr
  /\ UNCHANGED <<mode, digit, key, cset, suite, pr, sp, ss>>

\* without a counter in the suite the octets returned by StepG are not specified (res.ctr = <<>>)
OcraStepG ==
  /\ mode = "ocra" /\ cset
  /\ res' = Res("OcraStepG", <<>>, TRUE, ctr)
  /\ UNCHANGED obj

\* ---------------------------------------------------------------- relocation of the object
Move == /\ mode # "off"
        /\ res' = Res("Move", <<>>, TRUE, <<>>)
        /\ UNCHANGED obj

-----------------------------------------------------------------------------
\* ---- properties of the specification (checked by TLC on every explored history)
IsDigits(o) == \A i \in 1..Len(o) : o[i] >= 48 /\ o[i] <= 57
TypeOK ==
  /\ mode \in {"off", "hotp", "totp", "ocra"}
  /\ cset \in BOOLEAN /\ res.ok \in BOOLEAN
  /\ mode \in {"hotp", "totp"} => digit \in HotpDigits
  /\ mode = "ocra" => (pr.ok /\ digit = pr.digit /\ digit \in 4..9)
  /\ IsOctets(key) /\ IsOctets(ctr) /\ IsOctets(sp) /\ IsOctets(ss)
\* the counter has 8 octets exactly when it is defined
CtrShape == Len(ctr) = (IF HasCtr THEN 8 ELSE 0)
\* a generated password has the announced number of decimal digits
OtpShape == res.op \in {"HotpStepR", "TotpStepR", "OcraStepR"} => (Len(res.otp) = digit /\ IsDigits(res.otp))
\* only the suite's session data are kept
SessShape == mode = "ocra" => (Len(sp) = (IF cset THEN pr.plen ELSE 0) /\ Len(ss) = (IF cset THEN pr.slen ELSE 0))

StartOps == {"HotpStart", "TotpStart", "OcraStart"}
SetOps   == {"HotpStepS", "OcraStepS"}
GenOps   == {"HotpStepR", "OcraStepR"}
VerOps   == {"HotpStepV", "TotpStepV", "OcraStepV"}
\* action properties (of one step <<vars, vars'>>)
\* a failed verification leaves the object as it was
A_FailKeeps == (res'.op \in VerOps /\ ~res'.ok) => UNCHANGED obj
\* the counter changes only by StepS / Start, or by exactly one increment in StepR / a successful StepV
A_CtrMoves == (ctr' # ctr) => \/ res'.op \in (StartOps \cup SetOps)
                              \/ /\ ctr' = CtrNext(ctr)
                                 /\ res'.op \in GenOps \/ (res'.op \in VerOps /\ res'.ok)
\* ... and it does change there (when defined): generation and successful verification consume the counter
A_Consumes == ((res'.op \in GenOps \/ (res'.op \in {"HotpStepV", "OcraStepV"} /\ res'.ok)) /\ HasCtr)
                => ctr' = CtrNext(ctr)
\* StepG and Move are observations
A_GetPure == res'.op \in {"HotpStepG", "OcraStepG", "Move"} => UNCHANGED obj
\* StepG returns the counter
A_GetCtr == res'.op \in {"HotpStepG", "OcraStepG"} => res'.ctr = ctr
\* generator / verifier synchronisation: a verifier in the pre-state of a generation step accepts the
\* generated password and arrives at the generator's counter
A_Sync == (res'.op = "HotpStepR" => res'.otp = OtpH(digit, key, ctr))
=============================================================================
