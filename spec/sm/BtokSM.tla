------------------------------- MODULE BtokSM -------------------------------
(* Secure messaging of STB 34.101.79 as described in include/bee2/crypto/btok.h (section
   "Защищенное соединение") and in the format description that heads src/crypto/btok/btok_sm.c.

   Part 1 (values): the protected forms of APDU commands and responses as functions of
   (command / response, key, counter): encrypt-then-MAC, belt-cfb under key2 with the counter as
   synchro, belt-mac under key1 over the open header and the DER-like objects 0x87 / 0x97,
   the MAC in the object 0x8E; key1 / key2 = belt-keyrep(key, 0, <1> / <2>, 256).
   Unprotecting is specified as the INVERSE of protecting (a code is well-formed iff it is the
   canonical assembly of the fields read from it), not as a sequence of checks.

   Part 2 (state machine): two peers with a counter each; a command is protected / unprotected only
   at an odd counter, a response only at an even counter (ERR_BAD_LOGIC otherwise); an altered
   protected octet is never accepted; an accepted code gives back the protected APDU when the
   counters are in step.  The MAC does not cover the counter (by design): a code unwrapped at
   another counter of the right parity is accepted and decrypts to other data; replay detection
   is not claimed.                                                                             *)
EXTENDS Codecs, BeltModes, TLC

\* ================================================================ Part 1: values
One16(i) == <<i>> \o Zeros(15)
SMKeys(key) == [k1 |-> KRP(key, Zeros(12), One16(1), 32), k2 |-> KRP(key, Zeros(12), One16(2), 32)]

HasProtBit(cla) == (cla \div 4) % 2 = 1
SetProtBit(cla) == IF HasProtBit(cla) THEN cla ELSE cla + 4
ClrProtBit(cla) == IF HasProtBit(cla) THEN cla - 4 ELSE cla

\* the Le field of the UNPROTECTED command (apdu.h rules 4, 5): it travels inside the object 0x97
LeField(cdfLen, rdf) ==
  IF rdf = 0 THEN <<>>
  ELSE IF cdfLen <= 255 /\ rdf <= 256 THEN <<rdf % 256>>
  ELSE IF cdfLen > 0 THEN <<(rdf \div 256) % 256, rdf % 256>>
  ELSE <<0, (rdf \div 256) % 256, rdf % 256>>
LeValue(o) == CASE Len(o) = 0 -> 0
                [] Len(o) = 1 -> Le1(o[1])
                [] Len(o) = 2 -> Le2(o[1], o[2])
                [] Len(o) = 3 -> Le2(o[2], o[3])
                [] OTHER -> -1

Obj(tag, v) == Enc(<<tag>>, v)                     \* DER-like TLV with a one-octet tag
Obj87(Y) == IF Len(Y) = 0 THEN <<>> ELSE Obj(135, <<2>> \o Y)
Obj97(le) == IF Len(le) = 0 THEN <<>> ELSE Obj(151, le)

\* assembly of a protected command from its open header (CLA* INS P1 P2), ciphertext, Le field and MAC
\* rules for Lc* / Le*: (1) no Le: Le* absent, Lc* short iff |CDF*| < 256; (2) |CDF*| < 256 and
\* len(RDF) <= 256: Lc* short, Le* = 00; (3) otherwise Lc* extended, Le* = 0000
CmdAssemble(hdr, Y, le, rdf, T) ==
  LET cdfS == Obj87(Y) \o Obj97(le) \o Obj(142, T)
      n == Len(cdfS)
      short == IF rdf = 0 THEN n < 256 ELSE (n < 256 /\ rdf <= 256)
      lc == IF short THEN <<n>> ELSE <<0, n \div 256, n % 256>>
      leS == IF rdf = 0 THEN <<>> ELSE IF short THEN <<0>> ELSE <<0, 0>>
  IN hdr \o lc \o cdfS \o leS
CmdMacInput(hdr, Y, le) == hdr \o Obj87(Y) \o Obj97(le)

\* c = [cla, ins, p1, p2, cdf, rdf] with the protection bit clear; K = SMKeys(key); ctr = 16 octets
SMCmdProt(c, K, ctr) ==
  LET hdr == <<SetProtBit(c.cla), c.ins, c.p1, c.p2>>
      Y == CFBEncr(c.cdf, K.k2, ctr)
      le == LeField(Len(c.cdf), c.rdf)
  IN CmdAssemble(hdr, Y, le, c.rdf, MAC(CmdMacInput(hdr, Y, le), K.k1))

\* reading of a protected command: [ok, hdr, Y, le, rdf, T] ; ok iff s is a canonical assembly
SMCmdParse(s) ==
  IF Len(s) < 15 \/ ~HasProtBit(s[1]) THEN Fail
  ELSE LET ll == IF s[5] # 0 THEN 1 ELSE 3
           len == IF ll = 1 THEN s[5] ELSE (s[6] * 256) + s[7]
       IN IF 4 + ll + len > Len(s) THEN Fail
          ELSE LET body == Sub(s, 5 + ll, 4 + ll + len)
                   o87 == Dec2(body, <<135>>)
                   has87 == o87.ok /\ Len(o87.val) >= 2 /\ o87.val[1] = 2
                   r1 == IF has87 THEN DropN(body, o87.n) ELSE body
                   Y == IF has87 THEN Tail(o87.val) ELSE <<>>
                   o97 == Dec2(r1, <<151>>)
                   has97 == o97.ok /\ Len(o97.val) >= 1
                   r2 == IF has97 THEN DropN(r1, o97.n) ELSE r1
                   le == IF has97 THEN o97.val ELSE <<>>
                   o8E == Dec3(r2, <<142>>, 8)
                   rdf == LeValue(le)
                   hdr == Sub(s, 1, 4)
               IN IF ~o8E.ok \/ rdf < 0 THEN Fail
                  ELSE IF le # LeField(Len(Y), rdf) THEN Fail                \* the Le form agrees with the lengths
                  ELSE IF CmdAssemble(hdr, Y, le, rdf, o8E.val) # s THEN Fail
                  ELSE [ok |-> TRUE, hdr |-> hdr, Y |-> Y, le |-> le, rdf |-> rdf, T |-> o8E.val]

\* [fmt, mac, cmd]: well-formed? MAC right? the command it protects (meaningful when fmt /\ mac)
SMCmdUnprot(s, K, ctr) ==
  LET p == SMCmdParse(s) IN
  IF ~p.ok THEN [fmt |-> FALSE, mac |-> FALSE, cmd |-> <<>>]
  ELSE [fmt |-> TRUE,
        mac |-> MAC(CmdMacInput(p.hdr, p.Y, p.le), K.k1) = p.T,
        cmd |-> [cla |-> ClrProtBit(s[1]), ins |-> s[2], p1 |-> s[3], p2 |-> s[4],
                 cdf |-> CFBDecr(p.Y, K.k2, ctr), rdf |-> p.rdf]]

\* responses: RDF SW1 SW2 -> [87 L 02 Y] 8E 08 T SW1 SW2, T = belt-mac([87 L 02 Y] SW1 SW2, key1)
RespAssemble(Y, T, sw) == Obj87(Y) \o Obj(142, T) \o sw
SMRespProt(r, K, ctr) ==
  LET Y == CFBEncr(r.rdf, K.k2, ctr)
      sw == <<r.sw1, r.sw2>>
  IN RespAssemble(Y, MAC(Obj87(Y) \o sw, K.k1), sw)
SMRespParse(s) ==
  IF Len(s) < 12 THEN Fail
  ELSE LET body == Sub(s, 1, Len(s) - 2)
           sw == Sub(s, Len(s) - 1, Len(s))
           o87 == Dec2(body, <<135>>)
           has87 == o87.ok /\ Len(o87.val) >= 2 /\ o87.val[1] = 2
           r1 == IF has87 THEN DropN(body, o87.n) ELSE body
           Y == IF has87 THEN Tail(o87.val) ELSE <<>>
           o8E == Dec3(r1, <<142>>, 8)
       IN IF ~o8E.ok THEN Fail
          ELSE IF RespAssemble(Y, o8E.val, sw) # s THEN Fail
          ELSE [ok |-> TRUE, Y |-> Y, T |-> o8E.val, sw |-> sw]
SMRespUnprot(s, K, ctr) ==
  LET p == SMRespParse(s) IN
  IF ~p.ok THEN [fmt |-> FALSE, mac |-> FALSE, resp |-> <<>>]
  ELSE [fmt |-> TRUE,
        mac |-> MAC(Obj87(p.Y) \o p.sw, K.k1) = p.T,
        resp |-> [sw1 |-> p.sw[1], sw2 |-> p.sw[2], rdf |-> CFBDecr(p.Y, K.k2, ctr)]]

\* the counter: a 128-bit little-endian number; +1 modulo 2^128
CtrNext(o) == IncLE(o)
CtrOdd(o) == o[1] % 2 = 1

\* which return codes the header admits, given which of the stated conditions hold
\* (several failing conditions at once: any of their codes; the header fixes no order)
Admissible(fmtOk, parOk, macOk) ==
  IF fmtOk /\ parOk /\ macOk THEN {"OK"}
  ELSE (IF fmtOk THEN {} ELSE {"BAD_APDU"})
       \cup (IF parOk THEN {} ELSE {"BAD_LOGIC"})
       \cup (IF fmtOk /\ ~macOk THEN {"BAD_MAC"} ELSE {})

\* position classes of a protected code (1-based): "M" MAC value, "B" ciphertext, "H" open header
\* octets covered by the MAC and irrelevant to the format (INS P1 P2 / SW1 SW2), "S" everything else
CmdPosClass(s, pos) ==
  LET p == SMCmdParse(s)
      ll == IF s[5] # 0 THEN 1 ELSE 3
      len == IF ll = 1 THEN s[5] ELSE (s[6] * 256) + s[7]
      bodyEnd == 4 + ll + len
      yEnd == 4 + ll + Len(Obj87(p.Y))
  IN IF pos >= 2 /\ pos <= 4 THEN "H"
     ELSE IF pos > bodyEnd - 8 /\ pos <= bodyEnd THEN "M"
     ELSE IF Len(p.Y) > 0 /\ pos > yEnd - Len(p.Y) /\ pos <= yEnd THEN "B"
     ELSE "S"
RespPosClass(s, pos) ==
  LET p == SMRespParse(s)
      n == Len(s)
      yEnd == Len(Obj87(p.Y))
  IN IF pos >= n - 1 THEN "H"
     ELSE IF pos > n - 10 /\ pos <= n - 2 THEN "M"
     ELSE IF Len(p.Y) > 0 /\ pos > yEnd - Len(p.Y) /\ pos <= yEnd THEN "B"
     ELSE "S"
FlipAt(s, pos, mask) == [i \in 1..Len(s) |-> IF i = pos THEN s[i] ^^ mask ELSE s[i]]

\* ================================================================ Part 2: the state machine
Peers == {"T", "C"}
NoMsg == [kind |-> "none", wctr |-> 0, data |-> FALSE, alt |-> "none"]
AltClasses == {"M", "B", "H", "S"}

VARIABLES ctr,        \* [Peers -> Nat]: the counters
          chan,       \* the protected code in flight: kind, counter it was protected at, carries data?, altered how
          last        \* outcome of the last operation (what the property talks about)
smvars == <<ctr, chan, last>>

NoOp == [op |-> "none", peer |-> "T", rcs |-> {"OK"}, same |-> "na", par |-> TRUE, inStep |-> TRUE, alt |-> "none"]
SMInit == /\ ctr = [p \in Peers |-> 0] /\ chan = NoMsg /\ last = NoOp

ParityOk(kind, c) == IF kind = "cmd" THEN c % 2 = 1 ELSE c % 2 = 0

CtrInc(p) == /\ ctr' = [ctr EXCEPT ![p] = @ + 1] /\ chan' = chan
             /\ last' = [NoOp EXCEPT !.op = "I", !.peer = p]

\* protect a command (kind = "cmd") or a response ("resp") that carries data or not
Wrap(p, kind, data) ==
  LET ok == ParityOk(kind, ctr[p]) IN
  /\ ctr' = ctr
  /\ chan' = IF ok THEN [kind |-> kind, wctr |-> ctr[p], data |-> data, alt |-> "none"] ELSE chan
  /\ last' = [op |-> "W", peer |-> p, rcs |-> Admissible(TRUE, ok, TRUE), same |-> "na",
              par |-> ok, inStep |-> TRUE, alt |-> "none"]
CmdWrap(p, data) == Wrap(p, "cmd", data)
RespWrap(p, data) == Wrap(p, "resp", data)

\* the outcome of unprotecting the code in flight at the counter of p
UnwrapOutcome(p) ==
  LET parOk == ParityOk(chan.kind, ctr[p])
      rcs == IF chan.alt = "S"                              \* structure altered: the format or the MAC fails
             THEN {"BAD_APDU", "BAD_MAC"} \cup (IF parOk THEN {} ELSE {"BAD_LOGIC"})
             ELSE Admissible(TRUE, parOk, chan.alt = "none")
      inStep == ctr[p] = chan.wctr
  IN [op |-> "U", peer |-> p, rcs |-> rcs,
      same |-> IF rcs = {"OK"} THEN (IF inStep \/ ~chan.data THEN "yes" ELSE "no") ELSE "na",
      par |-> parOk, inStep |-> inStep, alt |-> chan.alt]
Unwrap(p, kind) == /\ chan.kind = kind
                   /\ ctr' = ctr /\ chan' = chan
                   /\ last' = UnwrapOutcome(p)
CmdUnwrap(p) == Unwrap(p, "cmd")
RespUnwrap(p) == Unwrap(p, "resp")

\* the attacker alters one octet of the code in flight (one alteration per code)
Alter(cls) == /\ chan.kind # "none" /\ chan.alt = "none"
              /\ (cls = "B" => chan.data)
              /\ ctr' = ctr /\ chan' = [chan EXCEPT !.alt = cls]
              /\ last' = [NoOp EXCEPT !.op = "A", !.alt = cls]

\* roles: the terminal protects commands and unprotects responses, the card the converse
SMNext == \/ \E p \in Peers : CtrInc(p)
          \/ \E d \in BOOLEAN : CmdWrap("T", d) \/ RespWrap("C", d)
          \/ CmdUnwrap("C") \/ RespUnwrap("T")
          \/ \E c \in AltClasses : Alter(c)

\* ---------------------------------------------------------------- the property (invariants)
Accepted == last.op = "U" /\ "OK" \in last.rcs
\* accepted => the parity is right, nothing was altered, and the outcome is not ambiguous
AcceptedRight == Accepted => (last.rcs = {"OK"} /\ last.par /\ last.alt = "none")
\* accepted by a peer whose counter is in step => the protected APDU is recovered unchanged
InStepRecovered == (Accepted /\ last.inStep) => last.same = "yes"
\* any alteration of a protected octet is rejected
AlteredRejected == (last.op = "U" /\ last.alt # "none") => "OK" \notin last.rcs
\* calls at a counter of the wrong parity are refused (with ERR_BAD_LOGIC when nothing else is wrong)
WrongParityRefused == (last.op \in {"U", "W"} /\ ~last.par) =>
                         /\ "OK" \notin last.rcs /\ "BAD_LOGIC" \in last.rcs
                         /\ (last.alt = "none" => last.rcs = {"BAD_LOGIC"})
\* a refused Wrap leaves the code in flight as it was (nothing is emitted)
SMTypeOK == /\ ctr \in [Peers -> Nat] /\ chan.kind \in {"none", "cmd", "resp"}
            /\ chan.alt \in AltClasses \cup {"none"} /\ last.rcs # {}
=============================================================================
