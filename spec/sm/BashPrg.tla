------------------------------ MODULE BashPrg ------------------------------
(* STB 34.101.77, section 8: the cryptographic automaton of the programmable algorithms,
   as a state machine.  Transcribed from the standard's command definitions (start, restart,
   commit, absorb, squeeze, encrypt, decrypt, ratchet) with the call protocol and the
   preconditions documented in include/bee2/crypto/bash.h (Start/Step chaining: a command is
   finished when the next one starts; a Step continues the running command at position pos).

   Bit strings of the standard are octet strings here: the first bit of an octet is its most
   significant bit, so   t || 01  for a 6-bit code t is the octet 4t + 1,  and inverting the
   bit S[r] (r the buffer length in bits) is XOR of octet number r / 8 with 0x80.
   Positions are 0-based octet offsets as in the standard; TLA+ sequences are 1-based. *)
EXTENDS BashF

Levels == {128, 192, 256}
Caps == {1, 2}
\* 6-bit command codes
CodeNULL == 0
CodeKEY  == 1
CodeDATA == 2
CodeTEXT == 3
CodeOUT  == 4

\* buffer length r in octets: r = 1536 - l - d*l/2 bits with a key, 1536 - 2*d*l bits without
BufLen(lv, dv, kd) == IF kd THEN (1536 - lv - ((dv * lv) \div 2)) \div 8
                            ELSE (1536 - (2 * dv * lv)) \div 8
\* the table of the standard (also reproduced in bash_prg.c): <<l, d>> -> <<keyed, keyless>>
BufTable == [ p \in {<<128, 1>>, <<128, 2>>, <<192, 1>>, <<192, 2>>, <<256, 1>>, <<256, 2>>} |->
              CASE p = <<128, 1>> -> <<168, 160>> [] p = <<128, 2>> -> <<160, 128>>
                [] p = <<192, 1>> -> <<156, 144>> [] p = <<192, 2>> -> <<144, 96>>
                [] p = <<256, 1>> -> <<144, 128>> [] p = <<256, 2>> -> <<128, 64>> ]
BufTableOk == \A lv \in Levels, dv \in Caps :
                 /\ BufLen(lv, dv, TRUE) = BufTable[<<lv, dv>>][1]
                 /\ BufLen(lv, dv, FALSE) = BufTable[<<lv, dv>>][2]

\* admissible announcements and keys: multiples of 32 bits, at most 480 bits; a key is empty
\* or has at least l bits
AnnOk(A) == Len(A) % 4 = 0 /\ Len(A) <= 60
KeyOk(K, lv) == Len(K) % 4 = 0 /\ Len(K) <= 60 /\ (Len(K) = 0 \/ Len(K) >= lv \div 8)

-----------------------------------------------------------------------------
(* The commands as functions on <<S, pos>> (used by the actions below and by the appendix
   vectors). *)

\* XOR of the string X into S at offset pos (0-based)
XorAt(S, p, X) == [i \in 1..192 |-> IF i > p /\ i <= p + Len(X) THEN S[i] ^^ X[i - p] ELSE S[i]]
PutAt(S, p, X) == [i \in 1..192 |-> IF i > p /\ i <= p + Len(X) THEN X[i - p] ELSE S[i]]

(* commit(t):  S[pos...pos+8) <- S[pos...pos+8) + (t || 01);  S[r] <- S[r] + 1;
               S <- bash-f(S);  pos <- 0. *)
CommitS(S, p, r, code) ==
  BashF([i \in 1..192 |-> IF i = p + 1 THEN S[i] ^^ ((4 * code) + 1)
                          ELSE IF i = r + 1 THEN S[i] ^^ 128 ELSE S[i]])

(* start[l, d](A, K):  pos <- 8 + |A| + |K|;  S[...pos) <- <|A|/2 + |K|/32>_8 || A || K;
                       S[pos...1472) <- 0;  S[1472...) <- <l/4 + d>_64     (lengths in bits) *)
StartS(lv, dv, A, K) ==
  <<(4 * Len(A)) + (Len(K) \div 4)>> \o A \o K \o Zeros(183 - Len(A) - Len(K))
     \o <<(lv \div 4) + dv>> \o Zeros(7)
HeadOf(A, K) == <<(4 * Len(A)) + (Len(K) \div 4)>> \o A \o K

(* The data commands process X in pieces: the first one fills the buffer from pos, then full
   buffers, then the remainder; a full buffer (pos = r) is followed by S <- bash-f(S), pos <- 0.
     absorb:   S[pos...) <- S[pos...) + X_i
     squeeze:  Y_i <- S[pos...)
     encrypt:  S[pos...) <- S[pos...) + X_i ; Y_i <- S[pos...)
     decrypt:  X_i <- S[pos...) + Y_i ; S[pos...) <- Y_i                                  *)
Pieces(n, p, r) ==
  LET f == Min2(n, r - p)
      rest == n - f
  IN <<f>> \o [k \in 1..((rest + r - 1) \div r) |-> Min2(r, rest - ((k - 1) * r))]

\* mode in {"absorb", "squeeze", "encr", "decr"}; X = data (for squeeze: any string of the
\* requested length).  Result: [s, pos, out].
Duplex(S, p, r, X, mode) ==
  LET step(a, len) ==
        LET x == Sub(X, a.off + 1, a.off + len)
            cur == Sub(a.s, a.pos + 1, a.pos + len)
            s1 == CASE mode = "absorb" -> XorAt(a.s, a.pos, x)
                    [] mode = "squeeze" -> a.s
                    [] mode = "encr" -> XorAt(a.s, a.pos, x)
                    [] mode = "decr" -> PutAt(a.s, a.pos, x)
            y == CASE mode = "absorb" -> <<>>
                   [] mode = "squeeze" -> cur
                   [] mode = "encr" -> XorS(cur, x)
                   [] mode = "decr" -> XorS(cur, x)
            p1 == a.pos + len
        IN [s |-> IF p1 = r THEN BashF(s1) ELSE s1, pos |-> IF p1 = r THEN 0 ELSE p1,
            out |-> a.out \o y, off |-> a.off + len]
      res == FoldLeft(step, [s |-> S, pos |-> p, out |-> <<>>, off |-> 0], Pieces(Len(X), p, r))
  IN [s |-> res.s, pos |-> res.pos, out |-> res.out]

(* ratchet:  T <- S;  commit(NULL);  S <- S + T. *)
RatchetS(S, p, r) == XorS(CommitS(S, p, r, CodeNULL), S)

-----------------------------------------------------------------------------
(* The state machine.  cmd: "off" before start; "idle" after start / restart / ratchet;
   otherwise the running data command.  out: output of the last step. *)
VARIABLES l, d, keyed, buflen, pos, s, cmd, out
vars == <<l, d, keyed, buflen, pos, s, cmd, out>>

Cmds == {"off", "idle", "absorb", "squeeze", "encr", "decr"}
TypeOK == /\ cmd \in Cmds
          /\ cmd # "off" => /\ l \in Levels /\ d \in Caps /\ keyed \in BOOLEAN
                            /\ buflen \in 1..191 /\ pos \in 0..191
                            /\ Len(s) = 192 /\ IsOctets(s)

Init == /\ l = 0 /\ d = 0 /\ keyed = FALSE /\ buflen = 0 /\ pos = 0
        /\ s = <<>> /\ cmd = "off" /\ out = <<>>

Start(lv, dv, A, K) ==
  /\ lv \in Levels /\ dv \in Caps /\ AnnOk(A) /\ KeyOk(K, lv)
  /\ l' = lv /\ d' = dv /\ keyed' = (Len(K) # 0)
  /\ buflen' = BufLen(lv, dv, Len(K) # 0)
  /\ pos' = 1 + Len(A) + Len(K)
  /\ s' = StartS(lv, dv, A, K)
  /\ cmd' = "idle" /\ out' = <<>>

(* restart(A, K): if K is not empty: commit(KEY), r <- 1536 - l - d*l/2; else commit(NULL);
                  pos <- 8 + |A| + |K|;  S[...pos) <- S[...pos) + <|A|/2 + |K|/32>_8 || A || K. *)
Restart(A, K) ==
  /\ cmd # "off" /\ AnnOk(A) /\ KeyOk(K, l)
  /\ s' = XorAt(CommitS(s, pos, buflen, IF Len(K) # 0 THEN CodeKEY ELSE CodeNULL), 0, HeadOf(A, K))
  /\ keyed' = (keyed \/ Len(K) # 0)
  /\ buflen' = IF Len(K) # 0 THEN BufLen(l, d, TRUE) ELSE buflen
  /\ pos' = 1 + Len(A) + Len(K)
  /\ cmd' = "idle" /\ out' = <<>>
  /\ UNCHANGED <<l, d>>

CmdStart(name, code) ==
  /\ cmd # "off"
  /\ s' = CommitS(s, pos, buflen, code) /\ pos' = 0
  /\ cmd' = name /\ out' = <<>>
  /\ UNCHANGED <<l, d, keyed, buflen>>

CmdStep(name, X) ==
  /\ cmd = name
  /\ LET res == Duplex(s, pos, buflen, X, name)
     IN s' = res.s /\ pos' = res.pos /\ out' = res.out
  /\ UNCHANGED <<l, d, keyed, buflen, cmd>>

AbsorbStart  == CmdStart("absorb", CodeDATA)
AbsorbStep(X) == CmdStep("absorb", X)
SqueezeStart == CmdStart("squeeze", CodeOUT)
SqueezeStep(n) == CmdStep("squeeze", Zeros(n))
EncrStart    == keyed /\ CmdStart("encr", CodeTEXT)          \* only in key mode
EncrStep(X)  == CmdStep("encr", X)
DecrStart    == keyed /\ CmdStart("decr", CodeTEXT)
DecrStep(Y)  == CmdStep("decr", Y)

Ratchet ==
  /\ cmd # "off"
  /\ s' = RatchetS(s, pos, buflen) /\ pos' = 0
  /\ cmd' = "idle" /\ out' = <<>>
  /\ UNCHANGED <<l, d, keyed, buflen>>

-----------------------------------------------------------------------------
(* Properties of the automaton (checked by TLC in mc/MC_BashPrg). *)
PosInv == cmd # "off" => (0 <= pos /\ pos < buflen)
BufLenInv == cmd # "off" => buflen = BufTable[<<l, d>>][IF keyed THEN 1 ELSE 2]
\* the memory (capacity) part of the state is never shorter than l + d*l/2 bits
CapacityInv == cmd # "off" => 8 * (192 - buflen) >= l + ((d * l) \div 2)
\* only the key mode encrypts
KeyModeInv == cmd \in {"encr", "decr"} => keyed
\* encryption of X from a state (= after a command history) is inverted by decryption from the
\* same state, and both leave the automaton in the same state; decryption is inverted as well
EncrDecrInverse(S, p, r, X) ==
  LET e == Duplex(S, p, r, X, "encr")
      g == Duplex(S, p, r, e.out, "decr")
  IN g.out = X /\ g.s = e.s /\ g.pos = e.pos
DecrEncrInverse(S, p, r, Y) ==
  LET g == Duplex(S, p, r, Y, "decr")
      e == Duplex(S, p, r, g.out, "encr")
  IN e.out = Y /\ e.s = g.s /\ e.pos = g.pos
=============================================================================
