------------------------------ MODULE Overlap ------------------------------
(* C11: placements of the buffers of the functions whose headers state that buffers may
   overlap.  An arena of cells; src is at [0, len); dest at [doff, doff + outlen); key, iv,
   header and tag are either separate buffers (SEP) or lie in the arena at a given offset.
   The header's rule set per function: Params (with lengths and direction), Forbidden pairs.
   Reference semantics: outputs = F(inputs as they were before the call)  -- judged by
   Trace_Belt on the recorded call.  This module enumerates the placements (replay cases),
   never generating a forbidden combination, and checks that the rule table is closed. *)
EXTENDS Integers, Sequences, FiniteSets, TLC, Json, IOUtils

SEP == -100000
Names == {"src", "dest", "key", "iv", "hdr", "tag"}

\* f: name, params present, output length as a function of len, header length, forbidden pairs
Fn(n, ps, dl, hl, fb, lens) == [name |-> n, params |-> ps, dadd |-> dl, hlen |-> hl, forbidden |-> fb, lens |-> lens]
L1 == {16, 17, 32, 48}
LB == {16, 32, 48}
LS == {32, 48}
Funcs == {
  Fn("cbcE", {"src","dest","key","iv"}, 0, 0, {}, L1), Fn("cbcD", {"src","dest","key","iv"}, 0, 0, {}, L1),
  Fn("cfbE", {"src","dest","key","iv"}, 0, 0, {}, L1 \cup {5}), Fn("cfbD", {"src","dest","key","iv"}, 0, 0, {}, L1 \cup {5}),
  Fn("ctr",  {"src","dest","key","iv"}, 0, 0, {}, L1 \cup {5}),
  Fn("bdeE", {"src","dest","key","iv"}, 0, 0, {}, LB), Fn("bdeD", {"src","dest","key","iv"}, 0, 0, {}, LB),
  Fn("sdeE", {"src","dest","key","iv"}, 0, 0, {}, LS), Fn("sdeD", {"src","dest","key","iv"}, 0, 0, {}, LS),
  Fn("mac",  {"src","dest","key"}, -1008, 0, {}, L1),       \* dest = 8-octet tag   (dadd encodes a fixed length: -1000 - n)
  Fn("hash", {"src","dest"}, -1032, 0, {}, L1),
  Fn("hmac", {"src","dest","key"}, -1032, 0, {}, L1),
  Fn("kwpW", {"src","dest","key","hdr"}, 16, 16, {{"src","hdr"}}, {16, 17, 32}),
  Fn("kwpU", {"src","dest","key","hdr"}, -16, 16, {}, {32, 33, 48}),
  Fn("dwpW", {"src","dest","key","iv","hdr","tag"}, 0, 20, {{"dest","tag"}}, {5, 16, 17, 32}),
  Fn("cheW", {"src","dest","key","iv","hdr","tag"}, 0, 20, {{"dest","tag"}}, {5, 16, 17, 32}),
  Fn("dwpU", {"src","dest","key","iv","hdr","tag"}, 0, 20, {}, {5, 16, 17, 32}),
  Fn("cheU", {"src","dest","key","iv","hdr","tag"}, 0, 20, {}, {5, 16, 17, 32}),
  Fn("keyExpand", {"src","dest"}, -1032, 0, {}, {16, 24, 32}),
  Fn("krp",  {"src","dest","iv","hdr"}, -1016, 16, {}, {16, 24, 32}),       \* src = the key [n], dest = the derived key [16], iv = level
  Fn("krpN", {"src","dest","iv","hdr"}, 0, 16, {}, {16, 24, 32}),           \* derived key of the same length
  Fn("fmtE", {"src","dest","key","iv"}, 0, 0, {{"dest","iv"}}, {20, 34}),   \* u16 strings: len = 2 * count octets, mod = 65536
  Fn("fmtD", {"src","dest","key","iv"}, 0, 0, {{"dest","iv"}}, {20, 34}),
  Fn("memMove", {"src","dest"}, 0, 0, {}, {1, 16, 17}),
  Fn("memJoin", {"src","dest","hdr"}, 7, 7, {}, {1, 9, 16}) }

OutLen(f, len) == IF f.dadd <= -1000 THEN -1000 - f.dadd ELSE len + f.dadd
ParLen(f, len, p) == CASE p = "src" -> len [] p = "dest" -> OutLen(f, len) [] p = "key" -> 32
                       [] p = "iv" -> 16 [] p = "hdr" -> f.hlen [] p = "tag" -> 8

\* a placement: offsets of each parameter (src fixed at 0), SEP = separate buffer
Pos(pl, p) == IF p = "src" THEN 0 ELSE IF p = "dest" THEN pl.doff ELSE pl[p]
Overlaps(f, len, pl, a, b) ==
  LET pa == Pos(pl, a)  pb == Pos(pl, b) IN
  /\ pa # SEP /\ pb # SEP
  /\ pa < pb + ParLen(f, len, b) /\ pb < pa + ParLen(f, len, a)
Aligned(f, pl) == f.name \in {"fmtE", "fmtD"} => pl.doff % 2 = 0          \* u16 arrays: even offsets only
Legal(f, len, pl) == Aligned(f, pl) /\ \A pr \in f.forbidden : \A a \in pr, b \in pr : a # b => ~Overlaps(f, len, pl, a, b)
\* the arena has room for [-(ARENA_LO), ARENA_HI)
InArena(f, len, pl) == \A p \in f.params : Pos(pl, p) = SEP \/ (Pos(pl, p) >= -700 /\ Pos(pl, p) + ParLen(f, len, p) <= 1200)

Base(doff) == [doff |-> doff, key |-> SEP, iv |-> SEP, hdr |-> SEP, tag |-> SEP]
\* (a) dest swept against src over [-(len+16), len+16], auxiliary inputs separate
Sweep(f, len) == {Base(d) : d \in (-(len + 16))..(len + 16)}
\* (b) one auxiliary parameter inside / straddling the output region, for a few dest offsets
AuxPlacements(f, len) ==
  LET ol == OutLen(f, len) IN
  UNION {
    { [Base(d) EXCEPT ![a] = q] :
        q \in LET al == ParLen(f, len, a) IN
              {d, d + 1, d + ol - al, d - al + 1, d + ol - 1, d + (ol \div 2),
               0, 1, len - al, 1 - al, len - 1} }      \* ... and relative to the input region
    : a \in (f.params \ {"src", "dest"}), d \in {0, 5, -5, len + 16} }
Placements(f, len) == {pl \in Sweep(f, len) \cup AuxPlacements(f, len) : Legal(f, len, pl) /\ InArena(f, len, pl)}

\* the rule table is closed: forbidden pairs name parameters of the function
TableClosed == \A f \in Funcs : \A pr \in f.forbidden : pr \subseteq f.params /\ Cardinality(pr) = 2

-----------------------------------------------------------------------------
(* Second rule group: buffers that may overlap the STATE object.
     "start": belt.h "Буферы key и state могут пересекаться" for every *Start with a key;
     "get":   "mac / hash и state могут пересекаться" for beltMACStepG/G2, beltHashStepG/G2, beltHMACStepG2
              (the state is finished by such a call: nothing is continued afterwards).
   The state size is the implementation's keep() value, so positions are symbolic and resolved by the harness:
     at0 / at1 : offset 0 / 1;  mid : the middle;  end / end1 : the buffer ends at / one octet before the state's end;
     lo / hi : the buffer straddles the start / the end of the state (half inside).
   Reference semantics: the call behaves as with disjoint buffers: after Start(key inside state) the mechanism
   computes the one-shot value of the key AS IT WAS; Get(mac inside state) returns the one-shot tag. *)
SPos == {"at0", "at1", "mid", "end", "end1", "lo", "hi"}
SFn(n, k, lens) == [name |-> n, kind |-> k, lens |-> lens]
StateFuncs == {
  SFn("wbl", "start", {32, 48}), SFn("ecb", "start", {16, 33}), SFn("cbc", "start", {16, 33}), SFn("cfb", "start", {5, 33}),
  SFn("ctr", "start", {5, 33}), SFn("mac", "start", {0, 16, 33}), SFn("dwp", "start", {5, 33}), SFn("che", "start", {5, 33}),
  SFn("bde", "start", {16, 48}), SFn("sde", "start", {32, 48}), SFn("fmt", "start", {10, 17}), SFn("krp", "start", {32}),
  SFn("macG", "get", {0, 16, 33}), SFn("macG2", "get", {16, 33}), SFn("hashG", "get", {0, 32, 65}), SFn("hashG2", "get", {32, 65}),
  SFn("hmacG2", "get", {0, 33}) }
KeyLens == {16, 24, 32}
\* a straddling tag buffer would be written partly outside the state: allowed by the header (any overlap); a key buffer likewise
StatePlacements(f) == {[pos |-> p, klen |-> k, len |-> n] : p \in SPos, k \in (IF f.kind = "start" THEN KeyLens ELSE {32}), n \in f.lens}
\* besides the named positions the buffer is swept over EVERY offset at which it shares at least one octet with the
\* state, off \in [-(blen - 1), keep - 1]; keep is the implementation's value, so the sweep is expanded by the check
\* from this rule (one key length, one message length per function: SweepOf)
SweepOf(f) == [klen |-> 32, len |-> (CHOOSE n \in f.lens : \A m \in f.lens : n >= m)]
StateTableOk == \A f \in StateFuncs : f.kind \in {"start", "get"} /\ f.lens # {}

VARIABLES phase, fn, len
Init == phase = 0 /\ fn = "" /\ len = 0
Next == \/ phase = 0 /\ phase' = 1 /\ \E f \in Funcs : fn' = f.name /\ len' \in f.lens
        \/ phase = 1 /\ phase' = 2 /\ UNCHANGED <<fn, len>>
             /\ LET f == CHOOSE g \in Funcs : g.name = fn
                    pls == Placements(f, len)
                IN JsonSerialize(IOEnv.GEN_DIR \o "/" \o fn \o "_" \o ToString(len) \o ".json",
                     [f |-> fn, len |-> len, hlen |-> f.hlen,
                      placements |-> {[doff |-> pl.doff, key |-> pl.key, iv |-> pl.iv, hdr |-> pl.hdr, tag |-> pl.tag] : pl \in pls}])
StateNext == /\ phase = 0 /\ phase' = 3 /\ len' = 0
             /\ \E f \in StateFuncs :
                  /\ fn' = f.name
                  /\ JsonSerialize(IOEnv.GEN_DIR \o "/state_" \o f.name \o ".json",
                        [f |-> f.name, kind |-> f.kind, placements |-> StatePlacements(f), sweep |-> SweepOf(f)])
NextAll == Next \/ StateNext
NoForbidden == phase = 2 => LET f == CHOOSE g \in Funcs : g.name = fn IN
                  \A pl \in Placements(f, len) : Legal(f, len, pl)
=============================================================================
