------------------------------ MODULE StepAead ------------------------------
(* C10: the DWP / CHE step functions with encryption and authentication DECOUPLED, as belt.h allows:
     beltCHEStepI()* < beltCHEStepA()*,  beltCHEStepE()* < beltCHEStepA()*  (protect: encrypt, authenticate the ciphertext
     later, in other fragments),  beltCHEStepA()* < beltCHEStepD()  (unprotect: authenticate, decrypt later),
     StepG / StepV at any moment return the tag of what has been authenticated so far.
   StepApi's "aead" discipline always issues E and A together per fragment; here they are separate tokens, so the two
   partial blocks of the state (the keystream reserve of the cipher half and the pending block of the authentication half)
   and the pending header block are out of step with each other in every possible way.
   Dir = "E": A(n) needs n <= enc - auth;  Dir = "D": E(n) (= StepD) needs n <= auth - enc.
   The functional claim is checked on the real code through the scripts Finish writes (Trace_Belt!StepsOk: the output is
   the one-shot value of the input, every Get is the tag of (header so far, data authenticated so far)). *)
EXTENDS Integers, Sequences, SequencesExt, FiniteSets, TLC, Json, IOUtils

CONSTANTS Dir, Blk, MaxToks, MaxTotal, MaxMarks, Alphabet

VARIABLES script,   \* tokens [t, n]
          rsv,      \* keystream octets reserved by the cipher half
          hfill,    \* octets of the pending header block
          afill,    \* octets of the pending data block of the authentication half
          hdr, enc, auth,   \* totals: header, encrypted / decrypted, authenticated
          noA,      \* no StepA yet (StepI still allowed)
          done
vars == <<script, rsv, hfill, afill, hdr, enc, auth, noA, done>>

Tok(t, n) == [t |-> t, n |-> n]
NToks == Cardinality({i \in 1..Len(script) : script[i].t \in {"I", "E", "A"}})
NMarks == Cardinality({i \in 1..Len(script) : script[i].t \in {"G", "V", "R"}})
LastT == IF Len(script) = 0 THEN "none" ELSE script[Len(script)].t

Init == script = <<>> /\ rsv = 0 /\ hfill = 0 /\ afill = 0 /\ hdr = 0 /\ enc = 0 /\ auth = 0 /\ noA = TRUE /\ done = FALSE

StepI(n) == /\ ~done /\ noA /\ NToks < MaxToks /\ hdr + n <= MaxTotal
            /\ hfill' = (hfill + n) % Blk /\ hdr' = hdr + n /\ script' = Append(script, Tok("I", n))
            /\ UNCHANGED <<rsv, afill, enc, auth, noA, done>>
\* the cipher half: StepE (Dir = "E") or StepD (Dir = "D"); a stream cipher with a reserve of unused keystream octets
StepE(n) == /\ ~done /\ NToks < MaxToks /\ enc + n <= MaxTotal
            /\ (Dir = "D" => n <= auth - enc)
            /\ rsv' = (IF rsv >= n THEN rsv - n ELSE (Blk - ((n - rsv) % Blk)) % Blk)
            /\ enc' = enc + n /\ script' = Append(script, Tok("E", n))
            /\ UNCHANGED <<hfill, afill, hdr, auth, noA, done>>
StepA(n) == /\ ~done /\ NToks < MaxToks /\ auth + n <= MaxTotal
            /\ (Dir = "E" => n <= enc - auth)
            /\ afill' = (afill + n) % Blk /\ auth' = auth + n /\ noA' = FALSE /\ hfill' = 0     \* the header block is closed
            /\ script' = Append(script, Tok("A", n))
            /\ UNCHANGED <<rsv, hdr, enc, done>>
Mark(t) == /\ ~done /\ NMarks < MaxMarks /\ LastT # t /\ script' = Append(script, Tok(t, 0))
           /\ UNCHANGED <<rsv, hfill, afill, hdr, enc, auth, noA, done>>
\* a finished script has processed everything it authenticated / encrypted and ends with a Get
Finish == /\ ~done /\ NToks >= 1 /\ enc = auth /\ LastT \in {"G", "V"} /\ done' = TRUE
          /\ UNCHANGED <<script, rsv, hfill, afill, hdr, enc, auth, noA>>
\* besides the alphabet, the lagging half may catch up with the other one in a single call
Next == (\E n \in Alphabet : StepI(n) \/ StepE(n) \/ StepA(n))
        \/ (Dir = "E" /\ enc - auth > 0 /\ StepA(enc - auth)) \/ (Dir = "D" /\ auth - enc > 0 /\ StepE(auth - enc))
        \/ (\E t \in {"G", "V", "R"} : Mark(t)) \/ Finish
Spec == Init /\ [][Next]_vars

Ranges == rsv \in 0..(Blk - 1) /\ hfill \in 0..(Blk - 1) /\ afill \in 0..(Blk - 1)
\* the reserve and the pending blocks are functions of the totals alone (no history dependence)
Bookkeeping == /\ rsv = (Blk - (enc % Blk)) % Blk
               /\ afill = auth % Blk
               /\ (noA => hfill = hdr % Blk)
Order == (Dir = "E" => auth <= enc) /\ (Dir = "D" => enc <= auth)
MarksInvisible == [][(\E t \in {"G", "V", "R"} : Mark(t)) => UNCHANGED <<rsv, hfill, afill, hdr, enc, auth>>]_vars

TokStr(k) == IF k.t \in {"I", "E", "A"} THEN k.t \o ToString(k.n) ELSE k.t
ScriptStr == FoldLeft(LAMBDA acc, k : IF acc = "" THEN TokStr(k) ELSE acc \o "," \o TokStr(k), "", script)
FileStr == FoldLeft(LAMBDA acc, k : acc \o "_" \o TokStr(k), "", script)
\* only scripts in which the two halves are really out of step are written (the others are StepApi's)
Decoupled == \E i \in 1..(Len(script) - 1) : (script[i].t = "E" /\ script[i + 1].t # "A") \/ (script[i].t = "A" /\ script[i + 1].t = "A")
Emit == (done /\ Decoupled) => JsonSerialize(IOEnv.GEN_DIR \o "/aead" \o Dir \o FileStr \o ".json", [d |-> "aead" \o Dir, script |-> ScriptStr])
=============================================================================
