------------------------------- MODULE Heap -------------------------------
(* C09 (E3, E4) and C15 (W): life cycle of the heap blocks a high-level function obtains.

   The machine records what the interposed allocator (harness/wrap_alloc.c) observes between
   the CallBegin and CallEnd markers of ONE call of a high-level err_t function:

     CallBegin(f, k)      the call of function f starts; allocation attempt number k is going to
                          fail (k = 0: no injected failure)
     Alloc(b, n)          attempt number b succeeded and created block b of n octets
     AllocFail(b)         attempt number b failed (returned NULL)
     Realloc(b, b2, n, clean)   block b was moved to the new block b2 (attempt number b2); the old
                          block is handed back to the allocator; `clean` = it did not contain
                          the secrets of the call
     ReallocFail(b, b2)   attempt b2 (a realloc of b) failed; b stays live
     Wipe(b)              the whole block b was overwritten (memWipe pattern or zeros); not
                          logged on its own: derived from the free-time snapshot
     Write(b)             the library stores into b (only in the abstract exploration)
     Free(b, w)           block b is handed back; w = its free-time snapshot was wiped as a whole
     FreeUnknown          free of a pointer that is not a live block of the call (double free...)
     CallEnd(e)           the call returns error code e

   Blocks are named by the attempt number that created them.  Nothing in the actions enforces
   the properties: they are stated as invariants over the recorded observations, so that
   a behaviour of the real library (spec/trace/Trace_Heap.tla) or of an abstract library
   (spec/mc/MC_Heap.tla) can violate them.

     E3  an allocation failed during the call  =>  err # OK
     E4  live at CallEnd = live at CallBegin (nothing leaked), on every path
     W   inside a secret-processing call a block is freed only if wiped as a whole
         (blocks released through realloc: only if clean)
     WEnd  a block left behind by a secret-processing call (leaked) is at least wiped
     NoBadFree   no double free, no free of an unknown block                             *)
EXTENDS Naturals, FiniteSets, TLC

CONSTANTS Blocks,      \* attempt numbers / block names: 1..MaxAllocs
          Sizes,       \* block sizes
          Funcs,       \* function names
          SecretFuncs, \* those that process a key, private key, password, shared secret
          Errs         \* error codes; 0 is ERR_OK

VARIABLES live,        \* [block -> [size, wiped]] for the blocks live now
          live0,       \* DOMAIN live at CallBegin
          inCall, fn, failAt, allocCount, failed, err,
          unwiped,     \* blocks handed back unwiped / not clean during this call
          badFree      \* a free of an unknown block happened during this call

hvars == <<live, live0, inCall, fn, failAt, allocCount, failed, err, unwiped, badFree>>

OK == 0
NoFn == "-"

TypeOK == /\ DOMAIN live \subseteq Blocks
          /\ \A b \in DOMAIN live : live[b].size \in Sizes /\ live[b].wiped \in BOOLEAN
          /\ live0 \subseteq Blocks
          /\ inCall \in BOOLEAN /\ fn \in Funcs \cup {NoFn}
          /\ failAt \in Nat /\ allocCount \in Nat
          /\ failed \in BOOLEAN /\ err \in Errs
          /\ unwiped \subseteq Blocks /\ badFree \in BOOLEAN

Empty == [b \in {} |-> [size |-> 0, wiped |-> FALSE]]

HeapInit == /\ live = Empty /\ live0 = {} /\ inCall = FALSE /\ fn = NoFn /\ failAt = 0
            /\ allocCount = 0 /\ failed = FALSE /\ err = OK /\ unwiped = {} /\ badFree = FALSE

Without(b) == [x \in DOMAIN live \ {b} |-> live[x]]
With(b, n) == [x \in DOMAIN live \cup {b} |-> IF x = b THEN [size |-> n, wiped |-> FALSE] ELSE live[x]]

CallBegin(f, k) ==
  /\ ~inCall
  /\ inCall' = TRUE /\ fn' = f /\ failAt' = k
  /\ live0' = DOMAIN live
  /\ allocCount' = 0 /\ failed' = FALSE /\ err' = OK /\ unwiped' = {} /\ badFree' = FALSE
  /\ UNCHANGED live

\* attempt number b succeeds: it is not the attempt chosen for the injected failure
Alloc(b, n) ==
  /\ inCall /\ b = allocCount + 1 /\ b # failAt /\ b \notin DOMAIN live
  /\ live' = With(b, n) /\ allocCount' = b
  /\ UNCHANGED <<live0, inCall, fn, failAt, failed, err, unwiped, badFree>>

AllocFail(b) ==
  /\ inCall /\ b = allocCount + 1
  /\ allocCount' = b /\ failed' = TRUE
  /\ UNCHANGED <<live, live0, inCall, fn, failAt, err, unwiped, badFree>>

Realloc(b, b2, n, clean) ==
  /\ inCall /\ b \in DOMAIN live /\ b2 = allocCount + 1 /\ b2 # failAt /\ b2 \notin DOMAIN live
  /\ live' = [x \in (DOMAIN live \ {b}) \cup {b2} |->
                IF x = b2 THEN [size |-> n, wiped |-> FALSE] ELSE live[x]]
  /\ allocCount' = b2
  /\ unwiped' = IF clean \/ live[b].wiped THEN unwiped ELSE unwiped \cup {b}
  /\ UNCHANGED <<live0, inCall, fn, failAt, failed, err, badFree>>

ReallocFail(b, b2) ==
  /\ inCall /\ b \in DOMAIN live /\ b2 = allocCount + 1
  /\ allocCount' = b2 /\ failed' = TRUE
  /\ UNCHANGED <<live, live0, inCall, fn, failAt, err, unwiped, badFree>>

Wipe(b) ==
  /\ inCall /\ b \in DOMAIN live /\ ~live[b].wiped
  /\ live' = [live EXCEPT ![b].wiped = TRUE]
  /\ UNCHANGED <<live0, inCall, fn, failAt, allocCount, failed, err, unwiped, badFree>>

Write(b) ==
  /\ inCall /\ b \in DOMAIN live /\ live[b].wiped
  /\ live' = [live EXCEPT ![b].wiped = FALSE]
  /\ UNCHANGED <<live0, inCall, fn, failAt, allocCount, failed, err, unwiped, badFree>>

\* w is the free-time snapshot: it must agree with what the machine knows about the block
Free(b, w) ==
  /\ inCall /\ b \in DOMAIN live /\ w = live[b].wiped
  /\ live' = Without(b)
  /\ unwiped' = IF w THEN unwiped ELSE unwiped \cup {b}
  /\ UNCHANGED <<live0, inCall, fn, failAt, allocCount, failed, err, badFree>>

FreeUnknown ==
  /\ inCall /\ badFree' = TRUE
  /\ UNCHANGED <<live, live0, inCall, fn, failAt, allocCount, failed, err, unwiped>>

CallEnd(e) ==
  /\ inCall /\ inCall' = FALSE /\ err' = e
  /\ UNCHANGED <<live, live0, fn, failAt, allocCount, failed, unwiped, badFree>>

-----------------------------------------------------------------------------
(* the properties *)

E3 == (~inCall /\ failed) => err # OK
E4 == ~inCall => DOMAIN live = live0
W == (fn \in SecretFuncs) => unwiped = {}
\* a block that a secret-processing call leaves behind (it leaked) must not be left unwiped either
WEnd == (~inCall /\ fn \in SecretFuncs) => \A b \in DOMAIN live \ live0 : live[b].wiped
NoBadFree == ~badFree

\* an injected failure really is the failAt-th attempt, and only that one (binding sanity)
FailAtExact == (failed /\ failAt # 0) => allocCount >= failAt
=============================================================================
