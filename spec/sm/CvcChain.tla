------------------------------ MODULE CvcChain ------------------------------
(* CV certificates of STB 34.101.79 as managed by btokCVC* (include/bee2/crypto/btok.h, section
   "CV-сертификаты").  A certificate is a record: content (authority, holder, public key, validity
   period from/until, access words) plus a signature, which is a SYMBOLIC term
   sig(key, content): it verifies under a public key exactly when that key is the public half of
   the signing key and the signed content is the content presented.  (The real signatures are
   produced by the real bign in the harness; bign itself is tied to its standard by C02.)

   Every function of the header is specified by the list of conditions the header states for it;
   the result is ERR_OK iff all of them hold.  When some fail, the header does not say which
   code comes back, so the specification admits the codes that name a failing condition.

   Names are sequences of character codes, dates sequences of 6 octets (YYMMDD, one decimal digit
   per octet, years 2000..2099, tm.h).                                                        *)
EXTENDS Codecs, FiniteSets, TLC

\* ---------------------------------------------------------------- dates (tm.h)
DigitsOk(d) == Len(d) = 6 /\ \A i \in 1..6 : d[i] \in 0..9
DateY(d) == 2000 + (10 * d[1]) + d[2]
DateM(d) == (10 * d[3]) + d[4]
DateD(d) == (10 * d[5]) + d[6]
Leap(y) == y % 4 = 0 /\ (y % 100 # 0 \/ y % 400 = 0)
DaysIn(y, m) == IF m \in {4, 6, 9, 11} THEN 30 ELSE IF m = 2 THEN (IF Leap(y) THEN 29 ELSE 28) ELSE 31
DateOk(d) == /\ DigitsOk(d)
             /\ DateM(d) \in 1..12
             /\ DateD(d) >= 1 /\ DateD(d) <= DaysIn(DateY(d), DateM(d))
DateNum(d) == (((DateY(d) * 100) + DateM(d)) * 100) + DateD(d)
DateLeq(a, b) == DateNum(a) <= DateNum(b)                        \* pre: DateOk(a), DateOk(b)

\* ---------------------------------------------------------------- keys
\* private key [kid, len] (len = 24, 32, 48, 64 octets); its public key [kid, len = 2 * len, ok = TRUE];
\* a public key that is not on the curve has ok = FALSE
PrivLens == {24, 32, 48, 64}
PubLens == {48, 64, 96, 128}
PubOf(k) == [kid |-> k.kid, len |-> 2 * k.len, ok |-> TRUE]
SigLenOfPub(plen) == IF plen = 48 THEN 34 ELSE plen - (plen \div 4)
SigLenOfPriv(len) == IF len = 24 THEN 34 ELSE len + (len \div 2)

\* ---------------------------------------------------------------- content checks
NameOk(n) == Len(n) >= 8 /\ Len(n) <= 12 /\ IsPrintable(n)
NameErr(n) == IF NameOk(n) THEN {} ELSE {"BAD_NAME"}
PeriodOk(f, u) == DateOk(f) /\ DateOk(u) /\ DateLeq(f, u)
PubErr(p) == IF p.len \notin PubLens THEN {"BAD_INPUT", "BAD_PUBKEY", "BAD_PARAMS", "BAD_FORMAT"}
             ELSE IF ~p.ok THEN {"BAD_PUBKEY"} ELSE {}

\* btokCVCCheck: names printable of length 8..12; dates valid; from <= until; public key valid
CheckErr(c) == NameErr(c.authority) \cup NameErr(c.holder)
               \cup (IF PeriodOk(c.from, c.until) THEN {} ELSE {"BAD_DATE"})
               \cup PubErr(c.pub)
\* btokCVCCheck2: Check(cvc); cvc.authority = cvca.holder; cvca's dates valid; cvca.from <= cvc.from <= cvca.until
InsideIssuer(c, ca) == /\ DateOk(ca.from) /\ DateOk(ca.until) /\ DateOk(c.from)
                       /\ DateLeq(ca.from, c.from) /\ DateLeq(c.from, ca.until)
Check2Err(c, ca) == CheckErr(c)
                    \cup (IF c.authority = ca.holder THEN {} ELSE {"BAD_NAME"})
                    \cup (IF InsideIssuer(c, ca) THEN {} ELSE {"BAD_DATE"})

\* ---------------------------------------------------------------- certificates
NoCert == [none |-> TRUE]
IsCert(x) == "c" \in DOMAIN x
\* the certificate with content c signed by the private key k
Signed(c, k) == [c |-> c, sig |-> [kid |-> k.kid, len |-> SigLenOfPriv(k.len), body |-> c]]

\* verification of the signature of cert under the public key p (btokCVCUnwrap with a key):
\* the key must be acceptable, the signature must have the length that goes with the key, the key
\* must be a valid public key, and the signature must be sig(private half of p, content presented)
SigErr(cert, p) ==
  IF p.len \notin PubLens THEN {"BAD_INPUT"}
  ELSE LET lenBad == SigLenOfPub(p.len) # cert.sig.len
           sigBad == ~(cert.sig.kid = p.kid /\ cert.sig.body = cert.c)
       IN (IF lenBad THEN {"BAD_FORMAT"} ELSE {})
          \cup (IF ~p.ok THEN {"BAD_PUBKEY"} ELSE {})
          \cup (IF ~lenBad /\ sigBad THEN {"BAD_SIG"} ELSE {})
KeypairErr(k, p) == IF p.len = 2 * k.len /\ p.ok /\ p.kid = k.kid THEN {}
                    ELSE {"BAD_KEYPAIR", "BAD_PUBKEY", "BAD_PRIVKEY"}
\* date of validation: valid, and inside the period of the certificate
DateArgErr(c, date) ==
  IF date = <<>> THEN {}
  ELSE IF ~DateOk(date) THEN {"BAD_DATE"}
  ELSE IF PeriodOk(c.from, c.until) /\ DateLeq(c.from, date) /\ DateLeq(date, c.until) THEN {} ELSE {"OUTOFRANGE"}

\* btokCVCWrap(cvc, privkey): Check(cvc) (the public key derived from privkey when pubkey_len = 0)
WrapErr(c, k) == CheckErr(c)
\* btokCVCUnwrap(cert, 0, 0): well-formed (by construction here) and Check(content)
\* (a name that is not a PrintableString of 8..12 characters cannot even be decoded: format error)
Unwrap0Err(cert) == CheckErr(cert.c)
                    \cup (IF NameOk(cert.c.authority) /\ NameOk(cert.c.holder) THEN {} ELSE {"BAD_FORMAT"})
\* btokCVCUnwrap(cert, pubkey): Check(content) and the signature verifies under pubkey
UnwrapKErr(cert, p) == SigErr(cert, p) \cup Unwrap0Err(cert)
\* btokCVCIss(cvc, certa, privkeya): certa well-formed; Check2(cvc, cvca); cvca's public key matches privkeya
IssErr(c, certa, ka) == Unwrap0Err(certa) \cup Check2Err(c, certa.c) \cup KeypairErr(ka, certa.c.pub)
\* btokCVCVal(cert, certa, date)
ValErr(cert, certa, date) == Unwrap0Err(certa) \cup UnwrapKErr(cert, certa.c.pub)
                             \cup Check2Err(cert.c, certa.c) \cup DateArgErr(cert.c, date)
\* btokCVCVal2(cert, cvca, date): the issuer's content is given (not re-verified)
Val2Err(cert, ca, date) == UnwrapKErr(cert, ca.pub) \cup Check2Err(cert.c, ca) \cup DateArgErr(cert.c, date)
\* btokCVCMatch(cert, privkey)
MatchErr(cert, k) == Unwrap0Err(cert) \cup KeypairErr(k, cert.c.pub)

\* the admissible return codes
Res(errs) == IF errs = {} THEN {"OK"} ELSE errs

\* ---------------------------------------------------------------- "accept exactly when everything lines up"
\* (the property, stated on the structural level; checked by TLC over the enumerated chains)
LinesUp(cert, certa, date) ==
  /\ NameOk(cert.c.authority) /\ NameOk(cert.c.holder) /\ NameOk(certa.c.authority) /\ NameOk(certa.c.holder)
  /\ PeriodOk(cert.c.from, cert.c.until) /\ PeriodOk(certa.c.from, certa.c.until)
  /\ cert.c.pub.len \in PubLens /\ cert.c.pub.ok /\ certa.c.pub.len \in PubLens /\ certa.c.pub.ok
  /\ cert.c.authority = certa.c.holder
  /\ DateLeq(certa.c.from, cert.c.from) /\ DateLeq(cert.c.from, certa.c.until)
  /\ cert.sig.kid = certa.c.pub.kid /\ cert.sig.body = cert.c /\ cert.sig.len = SigLenOfPub(certa.c.pub.len)
  /\ (date # <<>> => (DateOk(date) /\ DateLeq(cert.c.from, date) /\ DateLeq(date, cert.c.until)))
ValExact(cert, certa, date) == (ValErr(cert, certa, date) = {}) <=> LinesUp(cert, certa, date)
=============================================================================
