------------------------------- MODULE MsgApi -------------------------------
(* C10 / C01: message-level reuse of a belt state.  belt.h: "beltWBLStart() < beltWBLStepE()*",
   "< beltWBLStepD()*", "< beltWBLStepD2()*", "< beltWBLStepR()*", the same for KWP, SDE and FMT:
   after ONE Start any number of whole-message calls may follow, and every E / D call returns the
   one-shot value of its own arguments (WBL/KWP/SDE/FMT are stateless between messages apart from the
   key); only StepR is documented as history dependent (k-th call: rounds (k-1)2n+1 .. k 2n).
   beltFMTStepE/D(iv = 0) use the all-zero synchro value, whatever an earlier call passed.

   The machine is shaped like the implementation: the registers that survive a call are modelled
   (round: the round counter of belt_wbl_st; stiv: the synchro value kept in belt_fmt_st) and every
   call records which rounds / which synchro value it actually used (fields first, eff).  TLC checks
   the header's statements on those records (EFresh, DFresh, RContinues, NullIvIsZero, IvIsOwn) over all
   histories within the bounds, and Emit writes every explored history as a replay case: the harness
   runs it on ONE real state object and Trace_Belt judges every call with the reference semantics
   (one-shot value of the call's own arguments; WBLEncrFrom for StepR).

   Histories mixing StepR with other calls are not generated: the header defines StepR only for
   "Start < StepR*" (MixedR is what the implementation does there, kept for documentation). *)
EXTENDS Integers, Sequences, SequencesExt, FiniteSets, TLC, Json, IOUtils

CONSTANTS Bundle,      \* "wbl" | "kwp" | "sde" | "fmt"
          MaxCalls,
          Lens,        \* message lengths in octets (wbl/kwp/sde) or FMT parameter index (fmt: a single value)
          MixedR       \* TRUE: also explore StepR mixed with E/D (model only; never emitted)

VARIABLES calls,       \* history: records [op, n, iv, first, eff]
          round,       \* wbl: round counter left behind by the last call
          stiv,        \* fmt: synchro value left in the state ("zero" after Start is NOT assumed: "junk")
          done
vars == <<calls, round, stiv, done>>

Ops == CASE Bundle = "wbl" -> {"E", "D", "T", "R"}      \* T = StepD2 (two-part decryption)
         [] Bundle = "kwp" -> {"E", "D", "T"}
         [] OTHER -> {"E", "D"}
IvClasses == CASE Bundle = "fmt" -> {"null", "a", "b"}
               [] Bundle = "sde" -> {"a", "b"}
               [] OTHER -> {"none"}
Blocks(n) == (n + 15) \div 16

Init == calls = <<>> /\ round = 0 /\ stiv = "junk" /\ done = FALSE

ROnly == \A i \in 1..Len(calls) : calls[i].op = "R"
NoR == \A i \in 1..Len(calls) : calls[i].op # "R"
SameLen(n) == \A i \in 1..Len(calls) : calls[i].n = n

Call(op, n, iv) ==
  /\ ~done /\ Len(calls) < MaxCalls
  /\ (~MixedR => IF op = "R" THEN ROnly /\ SameLen(n) ELSE NoR)
  /\ LET two == 2 * Blocks(n)
         \* what the implementation does with its registers
         first == CASE op = "E" -> 1                     \* StepE resets the counter, runs 1..2n
                    [] op \in {"D", "T"} -> two           \* StepD counts 2n down to 1
                    [] OTHER -> round + 1                 \* StepR continues
         rnd2  == CASE op = "E" -> two [] op \in {"D", "T"} -> 0 [] OTHER -> round + two
         eff   == IF Bundle = "fmt" THEN (IF iv = "null" THEN "zero" ELSE iv) ELSE iv
     IN /\ calls' = Append(calls, [op |-> op, n |-> n, iv |-> iv, first |-> first, eff |-> eff])
        /\ round' = (IF Bundle = "fmt" THEN round ELSE rnd2)
        /\ stiv' = (IF Bundle = "fmt" THEN eff ELSE stiv)
  /\ UNCHANGED done

Finish == ~done /\ Len(calls) >= 1 /\ done' = TRUE /\ UNCHANGED <<calls, round, stiv>>
Next == (\E op \in Ops, n \in Lens, iv \in IvClasses : Call(op, n, iv)) \/ Finish
Spec == Init /\ [][Next]_vars

-----------------------------------------------------------------------------
(* the header's statements, on the recorded calls *)
EFresh == \A i \in 1..Len(calls) : calls[i].op = "E" => calls[i].first = 1
DFresh == \A i \in 1..Len(calls) : calls[i].op \in {"D", "T"} => calls[i].first = 2 * Blocks(calls[i].n)
RContinues == ROnly => \A i \in 1..Len(calls) : calls[i].first = (i - 1) * 2 * Blocks(calls[i].n) + 1
NullIvIsZero == \A i \in 1..Len(calls) : (Bundle = "fmt" /\ calls[i].iv = "null") => calls[i].eff = "zero"
IvIsOwn == \A i \in 1..Len(calls) : calls[i].iv # "null" => calls[i].eff = calls[i].iv
RoundRange == round >= 0 /\ round <= 2 * MaxCalls * 8

-----------------------------------------------------------------------------
(* replay cases *)
TokStr(k) == k.op \o ToString(k.n) \o (IF k.iv \in {"none"} THEN "" ELSE IF k.iv = "null" THEN "n" ELSE k.iv)
ScriptStr == FoldLeft(LAMBDA acc, k : IF acc = "" THEN TokStr(k) ELSE acc \o "." \o TokStr(k), "", calls)
FileStr == FoldLeft(LAMBDA acc, k : acc \o "_" \o TokStr(k), "", calls)
Emittable == NoR \/ (ROnly /\ \A i \in 1..Len(calls) : calls[i].n = calls[1].n)
Emit == (done /\ Emittable) =>
          JsonSerialize(IOEnv.GEN_DIR \o "/" \o Bundle \o FileStr \o ".json",
                        [b |-> Bundle, script |-> ScriptStr, n |-> Len(calls),
                         first |-> [i \in 1..Len(calls) |-> calls[i].first],
                         eff |-> [i \in 1..Len(calls) |-> calls[i].eff]])
=============================================================================
