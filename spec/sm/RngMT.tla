------------------------------- MODULE RngMT -------------------------------
(* C18: the shared random-number generator of bee2 (src/core/rng.c) together with the
   once-initialisation it rests on (src/core/mt.c mtCallOnce, mtAtomicCmpSwap), at the grain
   of the code's atomic steps.

   Code                                          Specification
   --------------------------------------------  -------------------------------------------
   rng.c  static size_t _once                    once   \in {0, BUSY, 1}
   rng.c  static bool_t _inited                  inited
   rng.c  static mt_mtx_t _mtx[1]                mtx    \in Threads \cup {Free}   (owner)
   rng.c  static size_t _ctr                     ctr    (reference count)
   rng.c  static rng_state_st* _state            st     = [valid, epoch, blk]  abstract generator:
                                                   valid: _state != 0,  epoch: key generation
                                                   (brngCTRStart), blk: blocks produced under the key
   octets returned by rngStepR/rngStepR2         out    set of [e, b, th]: block b of epoch e went to th

   mtCallOnce(&_once, rngInit):
       do if ((t = CAS(once,0,BUSY)) == 0) { fn(), *once = 1; break; } while (t == BUSY);
                       CCas (win / spin / done)    --  one atomic read-modify-write
       rngInit:        IMtx (mtMtxCreate)  IReg (utilOnExit)  ISet (_inited = TRUE)
       *once = 1       CPub          (atomic iff PublishAtomic; the code of 2023.04.13 uses a plain store)
   rngCreate:   ...once... ; CChk (plain read of _inited) ; Lock ; Body ; Unlock
   rngStepR/R2/Rekey/Close:  Lock ; Body ; Unlock
   rngIsValid:  VChk (plain read of _inited, OUTSIDE the mutex) ; Lock ; Body ; Unlock
                [IsValidSync: VChk (atomic read of _once) ; VChk2 (plain read of _inited) ; Lock ...]

   Every action declares the shared locations it touches (Acc).  "atomic" means a sequentially
   consistent / acquire-release primitive (the __sync builtins, the pthread mutex calls), so that the absence of
   SC-races (NoRace: no state in which two threads' enabled next steps conflict with at least
   one plain access) is the absence of C11 data races.

   A thread holds a reference while it uses the generator: StepR, StepR2, Rekey and Close are
   called only with refs[t] > 0 (precondition "the generator is valid" of rng.h).  The property
   quantifies over such programs; IsValid is part of them only with a reference as well
   (UnrefIsValid = FALSE in every checked configuration; TRUE only in the informational run
   MC_RngMT_unref.cfg, which shows that an unreferenced rngIsValid races on _inited). *)
EXTENDS Integers, Sequences, FiniteSets, TLC

CONSTANTS Threads,          \* set of thread identities
          MaxCalls,         \* calls per thread
          Ops,              \* subset of AllOps explored
          Lens,             \* request lengths (in generator blocks) of StepR/StepR2
          PublishAtomic,    \* is the final store to *once atomic?
          UnrefIsValid,     \* may a thread call rngIsValid without holding a reference?
          InitMayFail,      \* may rngInit fail (mutex creation / destructor registration)?
          IsValidSync       \* how rngIsValid decides to return early:  FALSE  if (!_inited)               [2023.04.13]
                            \*   TRUE  if (mtAtomicCmpSwap(&_once, 0, 0) != 1 || !_inited)   [proposed fix];
                            \* checks/C18.py determines which one the tree has by a probe schedule

AllOps == {"Create", "StepR", "StepR2", "Rekey", "IsValid", "Close"}
StepOps == {"StepR", "StepR2"}
NeedRef == {"StepR", "StepR2", "Rekey", "Close"}
Free == "free"
BUSY == 2                   \* SIZE_MAX in the code

VARIABLES once, inited, mtx, ctr, st, epochs, out,      \* shared
          pc, op, calls, refs, req, res,                \* per thread
          initRuns, initDone                            \* ghosts
shared == <<once, inited, mtx, ctr, st, epochs, out>>
local == <<pc, op, calls, refs, req, res>>
ghost == <<initRuns, initDone>>
vars == <<shared, local, ghost>>

NullSt == [valid |-> FALSE, epoch |-> -1, blk |-> 0]
NoRes == [v |-> "none", n |-> 0]

PcSet == {"idle", "c_cas", "i_mtx", "i_reg", "i_set", "c_pub", "c_chk", "v_chk", "v_chk2", "lock", "body", "unlock"}

TypeOK ==
  /\ once \in {0, BUSY, 1} /\ inited \in BOOLEAN /\ mtx \in Threads \cup {Free}
  /\ ctr \in Nat /\ st.valid \in BOOLEAN /\ epochs \in Nat
  /\ pc \in [Threads -> PcSet] /\ op \in [Threads -> AllOps \cup {"none"}]
  /\ calls \in [Threads -> 0..MaxCalls] /\ refs \in [Threads -> Nat]

Init ==
  /\ once = 0 /\ inited = FALSE /\ mtx = Free /\ ctr = 0 /\ st = NullSt /\ epochs = 0 /\ out = {}
  /\ pc = [t \in Threads |-> "idle"] /\ op = [t \in Threads |-> "none"]
  /\ calls = [t \in Threads |-> 0] /\ refs = [t \in Threads |-> 0]
  /\ req = [t \in Threads |-> 0] /\ res = [t \in Threads |-> NoRes]
  /\ initRuns = 0 /\ initDone = FALSE

Goto(t, l) == pc' = [pc EXCEPT ![t] = l]
\* the call of t returns value v (and n blocks)
Return(t, v, n) == /\ pc' = [pc EXCEPT ![t] = "idle"]
                   /\ res' = [res EXCEPT ![t] = [v |-> v, n |-> n]]

(* ---- the harness side: thread t starts call c.  Programs are all sequences of at most
   MaxCalls calls that respect the reference discipline and leave room to give the
   references back (so that a finished system is balanced). *)
Room(t, c) == calls[t] + 1 + refs[t] + (IF c = "Create" THEN 1 ELSE 0) - (IF c = "Close" THEN 1 ELSE 0) <= MaxCalls
MayCall(t, c) ==
  /\ c \in Ops /\ Room(t, c)
  /\ (c \in NeedRef => refs[t] > 0)
  /\ (c = "IsValid" /\ ~UnrefIsValid => refs[t] > 0)

Dispatch(t, c, k) ==
  /\ pc[t] = "idle" /\ MayCall(t, c)
  /\ k \in (IF c \in StepOps THEN Lens ELSE {0})
  /\ op' = [op EXCEPT ![t] = c] /\ calls' = [calls EXCEPT ![t] = @ + 1]
  /\ req' = [req EXCEPT ![t] = k] /\ res' = [res EXCEPT ![t] = NoRes]
  /\ Goto(t, CASE c = "Create" -> "c_cas" [] c = "IsValid" -> "v_chk" [] OTHER -> "lock")
  /\ UNCHANGED <<shared, refs, ghost>>

(* ---- mtCallOnce *)
CCasWin(t) == /\ pc[t] = "c_cas" /\ once = 0 /\ once' = BUSY /\ Goto(t, "i_mtx")
              /\ UNCHANGED <<inited, mtx, ctr, st, epochs, out, op, calls, refs, req, res, ghost>>
CCasSpin(t) == /\ pc[t] = "c_cas" /\ once = BUSY
               /\ UNCHANGED vars
CCasDone(t) == /\ pc[t] = "c_cas" /\ once = 1 /\ Goto(t, "c_chk")
               /\ UNCHANGED <<shared, op, calls, refs, req, res, ghost>>
CCas(t) == CCasWin(t) \/ CCasSpin(t) \/ CCasDone(t)

(* rngInit: three steps; each of the first two may fail when InitMayFail *)
IMtx(t) == /\ pc[t] = "i_mtx" /\ initRuns' = initRuns + 1
           /\ \/ Goto(t, "i_reg") /\ UNCHANGED initDone
              \/ InitMayFail /\ Goto(t, "c_pub") /\ initDone' = TRUE
           /\ UNCHANGED <<shared, op, calls, refs, req, res>>
IReg(t) == /\ pc[t] = "i_reg"
           /\ \/ Goto(t, "i_set") /\ UNCHANGED initDone
              \/ InitMayFail /\ Goto(t, "c_pub") /\ initDone' = TRUE
           /\ UNCHANGED <<shared, op, calls, refs, req, res, initRuns>>
ISet(t) == /\ pc[t] = "i_set" /\ inited' = TRUE /\ initDone' = TRUE /\ Goto(t, "c_pub")
           /\ UNCHANGED <<once, mtx, ctr, st, epochs, out, op, calls, refs, req, res, initRuns>>
CPub(t) == /\ pc[t] = "c_pub" /\ once' = 1 /\ Goto(t, "c_chk")
           /\ UNCHANGED <<inited, mtx, ctr, st, epochs, out, op, calls, refs, req, res, ghost>>

(* rngCreate: if (!mtCallOnce(..) || !_inited) return ERR_FILE_CREATE *)
CChk(t) == /\ pc[t] = "c_chk"
           /\ IF inited THEN Goto(t, "lock") /\ UNCHANGED res
                        ELSE Return(t, "err_create", 0)
           /\ UNCHANGED <<shared, op, calls, refs, req, ghost>>
(* rngIsValid: if (!_inited) return FALSE          -- or, IsValidSync: an atomic read of the trigger first *)
VChk(t) == /\ pc[t] = "v_chk"
           /\ IF IsValidSync
                THEN IF once = 1 THEN Goto(t, "v_chk2") /\ UNCHANGED res ELSE Return(t, "false", 0)
                ELSE IF inited THEN Goto(t, "lock") /\ UNCHANGED res ELSE Return(t, "false", 0)
           /\ UNCHANGED <<shared, op, calls, refs, req, ghost>>
VChk2(t) == /\ pc[t] = "v_chk2"
            /\ IF inited THEN Goto(t, "lock") /\ UNCHANGED res ELSE Return(t, "false", 0)
            /\ UNCHANGED <<shared, op, calls, refs, req, ghost>>

(* ---- the mutex *)
Lock(t) == /\ pc[t] = "lock" /\ mtx = Free /\ mtx' = t /\ Goto(t, "body")
           /\ UNCHANGED <<once, inited, ctr, st, epochs, out, op, calls, refs, req, res, ghost>>
Unlock(t) == /\ pc[t] = "unlock" /\ mtx' = Free /\ Goto(t, "idle")
             /\ UNCHANGED <<once, inited, ctr, st, epochs, out, op, calls, refs, req, res, ghost>>

(* ---- critical sections: one action per body.  The value returned by the call is fixed here
   (res), the call returns at Unlock. *)
SetRes(t, v, n) == res' = [res EXCEPT ![t] = [v |-> v, n |-> n]]

BodyCreate(t) ==           \* if (_ctr) { extra source: one generator block into the key material; ++_ctr }
  /\ op[t] = "Create"      \* else { _state = blobCreate; poll sources; brngCTRStart; _ctr = 1 }
  /\ IF ctr > 0
       THEN /\ ctr' = ctr + 1 /\ st' = [st EXCEPT !.blk = @ + 1] /\ UNCHANGED epochs
       ELSE /\ ctr' = 1 /\ st' = [valid |-> TRUE, epoch |-> epochs, blk |-> 0] /\ epochs' = epochs + 1
  /\ refs' = [refs EXCEPT ![t] = @ + 1] /\ SetRes(t, "ok", 0)
  /\ UNCHANGED out

BodyStep(t) ==             \* brngCTRStepR(buf, count, _state->alg_state)
  /\ op[t] \in StepOps
  /\ out' = out \cup {[e |-> st.epoch, b |-> st.blk + i, th |-> t] : i \in 0..(req[t] - 1)}
  /\ st' = [st EXCEPT !.blk = @ + req[t]]
  /\ SetRes(t, "ok", req[t])
  /\ UNCHANGED <<ctr, epochs, refs>>

BodyRekey(t) ==            \* brngCTRStepR(block) ; brngCTRStart(.., block): a new key epoch
  /\ op[t] = "Rekey"
  /\ st' = [valid |-> st.valid, epoch |-> epochs, blk |-> 0] /\ epochs' = epochs + 1
  /\ SetRes(t, "ok", 0)
  /\ UNCHANGED <<ctr, out, refs>>

BodyIsValid(t) ==          \* _ctr && _state && blobIsValid(_state)
  /\ op[t] = "IsValid"
  /\ SetRes(t, IF ctr > 0 /\ st.valid THEN "true" ELSE "false", 0)
  /\ UNCHANGED <<ctr, st, epochs, out, refs>>

BodyClose(t) ==            \* if (--_ctr == 0) blobClose(_state), _state = 0
  /\ op[t] = "Close"
  /\ ctr' = ctr - 1 /\ st' = IF ctr = 1 THEN NullSt ELSE st
  /\ refs' = [refs EXCEPT ![t] = @ - 1] /\ SetRes(t, "ok", 0)
  /\ UNCHANGED <<epochs, out>>

Body(t) == /\ pc[t] = "body" /\ Goto(t, "unlock")
           /\ (BodyCreate(t) \/ BodyStep(t) \/ BodyRekey(t) \/ BodyIsValid(t) \/ BodyClose(t))
           /\ UNCHANGED <<once, inited, mtx, op, calls, req, ghost>>

Internal(t) == \/ CCas(t) \/ IMtx(t) \/ IReg(t) \/ ISet(t) \/ CPub(t) \/ CChk(t) \/ VChk(t) \/ VChk2(t)
               \/ Lock(t) \/ Body(t) \/ Unlock(t)
Step(t) == (\E c \in AllOps, k \in Lens \cup {0} : Dispatch(t, c, k)) \/ Internal(t)
Next == \E t \in Threads : Step(t)
Spec == Init /\ [][Next]_vars

(* fairness: the scheduler runs every thread, and the mutex is eventually granted to a waiter *)
FairSpec == Spec /\ \A t \in Threads : WF_vars(Internal(t)) /\ SF_vars(Lock(t))

(* ------------------------------------------------------------------ memory accesses
   Acc(t): the shared locations touched by the next internal step of t as <<location, write?, atomic?>>.
     once    the trigger _once          inited  _inited          mtxobj  the pthread mutex object
     ctr     _ctr                       stptr   _state           stobj   the blob *_state       *)
R(l, a) == <<l, FALSE, a>>
W(l, a) == <<l, TRUE, a>>
BodyAcc(c) ==
  CASE c = "Create"  -> {W("ctr", FALSE), W("stptr", FALSE), W("stobj", FALSE)}
    [] c \in StepOps -> {R("stptr", FALSE), W("stobj", FALSE)}
    [] c = "Rekey"   -> {R("stptr", FALSE), W("stobj", FALSE)}
    [] c = "IsValid" -> {R("ctr", FALSE), R("stptr", FALSE), R("stobj", FALSE)}
    [] c = "Close"   -> {W("ctr", FALSE), W("stptr", FALSE), W("stobj", FALSE)}
    [] OTHER -> {}
Acc(t) ==
  CASE pc[t] = "c_cas"  -> {IF once = 0 THEN W("once", TRUE) ELSE R("once", TRUE)}   \* a failed CAS is a load
    [] pc[t] = "i_mtx"  -> {W("mtxobj", FALSE)}                 \* pthread_mutex_init
    [] pc[t] = "i_reg"  -> {}                                   \* utilOnExit: its own once/mutex/list
    [] pc[t] = "i_set"  -> {W("inited", FALSE)}
    [] pc[t] = "c_pub"  -> {W("once", PublishAtomic)}
    [] pc[t] \in {"c_chk", "v_chk2"} -> {R("inited", FALSE)}
    [] pc[t] = "v_chk"  -> {IF IsValidSync THEN R("once", TRUE) ELSE R("inited", FALSE)}
    [] pc[t] \in {"lock", "unlock"} -> {W("mtxobj", TRUE)}
    [] pc[t] = "body"   -> BodyAcc(op[t])
    [] OTHER -> {}
\* has t an enabled internal step?  (only the lock can block; the spin is a step)
Runnable(t) == pc[t] # "idle" /\ (pc[t] = "lock" => mtx = Free)
Conflict(a1, a2) == a1[1] = a2[1] /\ (a1[2] \/ a2[2]) /\ ~(a1[3] /\ a2[3])
NoRace == \A t1, t2 \in Threads : (t1 # t2 /\ Runnable(t1) /\ Runnable(t2)) =>
            \A a1 \in Acc(t1), a2 \in Acc(t2) : ~Conflict(a1, a2)
\* the same, without the location `inited` (to separate the two findings: see checks/C18.py)
NoRaceButInited == \A t1, t2 \in Threads : (t1 # t2 /\ Runnable(t1) /\ Runnable(t2)) =>
            \A a1 \in Acc(t1), a2 \in Acc(t2) : a1[1] # "inited" => ~Conflict(a1, a2)

(* ------------------------------------------------------------------ properties *)
InCS(t) == pc[t] \in {"body", "unlock"}
Mutex == /\ \A t1, t2 \in Threads : (t1 # t2 /\ InCS(t1)) => ~InCS(t2)
         /\ \A t \in Threads : InCS(t) <=> mtx = t
\* the initialiser runs once, and whoever is past mtCallOnce sees it finished
OnceOnly == initRuns <= 1
PastOnce(t) == pc[t] = "c_chk" \/ (op[t] = "Create" /\ pc[t] \in {"lock", "body", "unlock"})
InitComplete == \A t \in Threads : PastOnce(t) => (initDone /\ initRuns = 1 /\ once = 1)
\* ... and its effects: the mutex exists whenever somebody locks it
InitVisible == \A t \in Threads : pc[t] \in {"lock", "body", "unlock"} => inited

RECURSIVE SumRefs(_)
SumRefs(S) == IF S = {} THEN 0 ELSE LET x == CHOOSE y \in S : TRUE IN refs[x] + SumRefs(S \ {x})
\* the count equals the references held (a body moves ctr and refs together)
RefBalance == ctr = SumRefs(Threads)
StateIffCount == (ctr > 0) <=> st.valid
\* no step on a closed state
UseValid == \A t \in Threads : (pc[t] = "body" /\ op[t] \in NeedRef) => (st.valid /\ ctr > 0)
\* every request returns the full length
FullLength == \A t \in Threads : (op[t] \in StepOps /\ pc[t] \in {"unlock", "idle"} /\ res[t].v = "ok") => res[t].n = req[t]
\* no generator block is handed out twice (to two threads, or twice to one)
Distinct == \A x, y \in out : (x.e = y.e /\ x.b = y.b) => x = y
\* successful Create unless the initialiser failed
CreateOk == \A t \in Threads : (op[t] = "Create" /\ pc[t] = "idle" /\ res[t].v = "err_create") => ~inited
AllDone == \A t \in Threads : pc[t] = "idle" /\ \A c \in Ops : ~MayCall(t, c)
Final == AllDone => (ctr = 0 /\ ~st.valid /\ mtx = Free /\ \A t \in Threads : refs[t] = 0)

\* liveness (under FairSpec): every call returns
Returns == \A t \in Threads : (pc[t] # "idle") ~> (pc[t] = "idle")
=============================================================================
