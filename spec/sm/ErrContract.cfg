INIT Init
NEXT Next
INVARIANT TableOK
