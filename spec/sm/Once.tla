-------------------------------- MODULE Once --------------------------------
(* C18: threads racing on ONE once-trigger (mt.c mtCallOnce) and on ONE atomic counter
   (mtAtomicIncr / mtAtomicDecr / mtAtomicCmpSwap), at the grain of the code's atomic steps.

   Part 1, the trigger:  every thread calls mtCallOnce(&once, fn) and then reads what fn wrote
       do if ((t = CAS(once, 0, BUSY)) == 0) { fn(), *once = 1; break; } while (t == BUSY);
     fn writes `payload` (a plain store, ordered only by the protocol), the caller reads it (plain).
   Part 2, the counter:  every thread performs Ops operations out of
       Incr     __sync_add_and_fetch(ctr, 1)        returns the new value
       Decr     __sync_sub_and_fetch(ctr, 1)        returns the new value
       CasIncr  cur = CAS(ctr,0,0); while ((got = CAS(ctr,cur,cur+1)) != cur) cur = got;   returns cur
   Each primitive is one atomic step; what is checked is what its callers rely on. *)
EXTENDS Integers, FiniteSets, TLC
CONSTANTS Threads, PublishAtomic, Ops, Kinds
BUSY == 2
NoCur == -1000        \* no value loaded yet

VARIABLES once, payload, runs, pc, seen,           \* part 1
          cnt, left, cur, kind, incs, decs, rets   \* part 2
v1 == <<once, payload, runs, pc, seen>>
v2 == <<cnt, left, cur, kind, incs, decs, rets>>
vars == <<v1, v2>>

Init == /\ once = 0 /\ payload = 0 /\ runs = 0
        /\ pc = [t \in Threads |-> "cas"] /\ seen = [t \in Threads |-> -1]
        /\ cnt = 0 /\ left = [t \in Threads |-> Ops] /\ cur = [t \in Threads |-> NoCur]
        /\ kind = [t \in Threads |-> "none"] /\ incs = 0 /\ decs = 0 /\ rets = {}

Goto(t, l) == pc' = [pc EXCEPT ![t] = l]
CasWin(t) == pc[t] = "cas" /\ once = 0 /\ once' = BUSY /\ Goto(t, "init") /\ UNCHANGED <<payload, runs, seen, v2>>
CasSpin(t) == pc[t] = "cas" /\ once = BUSY /\ UNCHANGED vars
CasDone(t) == pc[t] = "cas" /\ once = 1 /\ Goto(t, "read") /\ UNCHANGED <<once, payload, runs, seen, v2>>
RunInit(t) == pc[t] = "init" /\ payload' = 1 /\ runs' = runs + 1 /\ Goto(t, "pub") /\ UNCHANGED <<once, seen, v2>>
Publish(t) == pc[t] = "pub" /\ once' = 1 /\ Goto(t, "read") /\ UNCHANGED <<payload, runs, seen, v2>>
ReadPayload(t) == pc[t] = "read" /\ seen' = [seen EXCEPT ![t] = payload] /\ Goto(t, "done") /\ UNCHANGED <<once, payload, runs, v2>>
OnceStep(t) == CasWin(t) \/ CasSpin(t) \/ CasDone(t) \/ RunInit(t) \/ Publish(t) \/ ReadPayload(t)

\* ---- counter
Start(t, k) == /\ kind[t] = "none" /\ left[t] > 0 /\ k \in Kinds
               /\ kind' = [kind EXCEPT ![t] = k] /\ left' = [left EXCEPT ![t] = @ - 1]
               /\ UNCHANGED <<cnt, cur, incs, decs, rets, v1>>
Done(t, k, r) == /\ kind' = [kind EXCEPT ![t] = "none"] /\ cur' = [cur EXCEPT ![t] = NoCur]
                 /\ rets' = rets \cup {<<k, r, t, left[t]>>}
Incr(t) == kind[t] = "Incr" /\ cnt' = cnt + 1 /\ incs' = incs + 1 /\ Done(t, "Incr", cnt + 1) /\ UNCHANGED <<left, decs, v1>>
Decr(t) == kind[t] = "Decr" /\ cnt' = cnt - 1 /\ decs' = decs + 1 /\ Done(t, "Decr", cnt - 1) /\ UNCHANGED <<left, incs, v1>>
CasLoad(t) == kind[t] = "CasIncr" /\ cur[t] = NoCur /\ cur' = [cur EXCEPT ![t] = cnt] /\ UNCHANGED <<cnt, left, kind, incs, decs, rets, v1>>
CasOk(t) == kind[t] = "CasIncr" /\ cur[t] # NoCur /\ cnt = cur[t] /\ cnt' = cnt + 1 /\ incs' = incs + 1
            /\ Done(t, "CasIncr", cur[t]) /\ UNCHANGED <<left, decs, v1>>
CasRetry(t) == kind[t] = "CasIncr" /\ cur[t] # NoCur /\ cnt # cur[t] /\ cur' = [cur EXCEPT ![t] = cnt]
               /\ UNCHANGED <<cnt, left, kind, incs, decs, rets, v1>>
CtrStep(t) == (\E k \in Kinds : Start(t, k)) \/ Incr(t) \/ Decr(t) \/ CasLoad(t) \/ CasOk(t) \/ CasRetry(t)

Next == \E t \in Threads : OnceStep(t) \/ CtrStep(t)
Spec == Init /\ [][Next]_vars
FairSpec == Spec /\ \A t \in Threads : WF_vars(OnceStep(t)) /\ WF_vars(CtrStep(t))

\* ---- accesses <<location, write?, atomic?>> of the next step of the once part
Acc(t) == CASE pc[t] = "cas"  -> {<<"once", once = 0, TRUE>>}
            [] pc[t] = "init" -> {<<"payload", TRUE, FALSE>>}
            [] pc[t] = "pub"  -> {<<"once", TRUE, PublishAtomic>>}
            [] pc[t] = "read" -> {<<"payload", FALSE, FALSE>>}
            [] OTHER -> {}
Conflict(a, b) == a[1] = b[1] /\ (a[2] \/ b[2]) /\ ~(a[3] /\ b[3])
NoRace == \A t1, t2 \in Threads : t1 # t2 => \A a \in Acc(t1), b \in Acc(t2) : ~Conflict(a, b)

RunsOnce == runs <= 1
\* whoever returned saw the initialiser's effect, and the initialiser was finished
Visible == \A t \in Threads : pc[t] \in {"read", "done"} => (runs = 1 /\ payload = 1 /\ once = 1)
SeenOk == \A t \in Threads : pc[t] = "done" => seen[t] = 1
\* what an observer of a finished round may report (used by trace/Trace_Once.tla)
FinalOK(r, o, p) == r = 1 /\ o = 1 /\ p
OnceFinal == (\A t \in Threads : pc[t] = "done") => FinalOK(runs, once, payload = 1)

CounterSum == cnt = incs - decs
\* every increment by CAS replaced a different value (no lost update) when nobody decrements
NoLostUpdate == ("Decr" \notin Kinds) =>
   \A x, y \in rets : (x[2] = y[2] /\ x[1] \in {"Incr"} /\ y[1] \in {"Incr"}) => x = y
CasDistinct == ("Decr" \notin Kinds) =>
   \A x, y \in rets : (x[1] = "CasIncr" /\ y[1] = "CasIncr" /\ x[2] = y[2]) => x = y
CtrFinal == (\A t \in Threads : left[t] = 0 /\ kind[t] = "none") => cnt = incs - decs /\ incs + decs = Ops * Cardinality(Threads)
Terminates == <>(\A t \in Threads : pc[t] = "done" /\ left[t] = 0 /\ kind[t] = "none")
=============================================================================
