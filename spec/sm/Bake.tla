-------------------------------- MODULE Bake --------------------------------
(* Key establishment of STB 34.101.66 (BMQV, BSTS, BPACE; include/bee2/crypto/bake.h) and the token
   protocol BAUTH of STB 34.101.79 (btok.h), at the level of WHO ENDS WITH WHICH KEY AND WHICH STEP
   FAILS.  Two parties A (terminal in BAUTH) and B (token), a channel that carries one message at a
   time, and an attacker who may do ONE thing: alter one part of one message, or corrupt the set-up
   (different hello strings, different passwords, a private key that does not match the certificate,
   a certificate the peer's validator refuses / whose public key is not on the curve / whose data
   differ).

   Cryptography is symbolic.  Scalars are names; a point is a product of scalar names applied to a
   base (G, or the SWU point W(Ra, Rb) of BPACE), with a sign: the Diffie-Hellman equation
   u(vG) = v(uG) is built into the representation (a SET of scalars).  X(P) forgets the sign
   (the protocols hash x-coordinates only).  A MAC / ciphertext / key-wrap made under a key is
   checked / opened exactly by the same key term.  Invalid encodings of points are the values
   off (not on the curve), xgep (coordinate >= p), zero (all-zero octets).

   Each step function follows the step of the standard as bake.h / btok.h describe it: what is
   received, what is checked (points on the curve => ERR_BAD_POINT; certificate => the validator's
   code, ERR_BAD_CERT; confirmation tags, key unwrapping and the Schnorr-like equations => ERR_AUTH),
   what is sent.                                                                              *)
EXTENDS Integers, Sequences, SequencesExt, FiniteSets, TLC

Protos == {"BMQV", "BSTS", "BPACE", "BAUTH"}
\* the admissible (kca, kcb) per protocol (bake.h: BSTS needs both; btok.h: BAUTH needs kca)
FlagsOk(p, kca, kcb) == CASE p = "BSTS" -> kca /\ kcb [] p = "BAUTH" -> kca [] OTHER -> TRUE

\* ---------------------------------------------------------------- symbolic terms (all records with a field k)
GBase == [k |-> "G"]
Pt(s, base) == [k |-> "pt", s |-> s, base |-> base, neg |-> FALSE]
BadPt(why) == [k |-> why]                              \* why in {"off", "xgep", "zero"}
IsPt(P) == P.k = "pt"
Mul(u, P) == [P EXCEPT !.s = @ \cup {u}]
Neg(P) == [P EXCEPT !.neg = ~@]
XC(P) == [k |-> "x", s |-> P.s, base |-> P.base]        \* x-coordinate: the sign is forgotten
IsPure(P, u) == IsPt(P) /\ P.s = {u} /\ P.base = GBase /\ ~P.neg          \* P = uG exactly
Nm(n) == [k |-> "name", n |-> n]
Junk(t) == [k |-> "junk", of |-> t]                    \* an altered opaque string
Hash(args) == [k |-> "hash", args |-> args]
Mac(K, what) == [k |-> "mac", key |-> K, what |-> what]
Enc(K, body) == [k |-> "enc", key |-> K, body |-> body]          \* also belt-ecb under a password key, belt-kwp
NoKey == [k |-> "none"]

\* the MQV shared point  s_a (V_b - (2^l + t) Q_b)  with  s_a = u_a - (2^l + t) d_a:
\* it is symmetric exactly when the peer's points are u_b G and d_b G
MqvKey(eph, long, V, Q, t) ==
  IF IsPt(V) /\ IsPt(Q) /\ Cardinality(V.s) = 1 /\ Cardinality(Q.s) = 1 /\ V.base = GBase /\ Q.base = GBase /\ ~V.neg /\ ~Q.neg
  THEN [k |-> "mqv", pairs |-> {<<eph, long>>, <<CHOOSE x \in V.s : TRUE, CHOOSE y \in Q.s : TRUE>>}, t |-> t]
  ELSE [k |-> "mqv?", eph |-> eph, long |-> long, V |-> V, Q |-> Q, t |-> t]
\* the Schnorr-like response s = u - (2^l + t) d and its verification  s G + (2^l + t) Q = V
Resp(eph, long, t) == [k |-> "resp", eph |-> eph, long |-> long, t |-> t]
RespOk(s, V, Q, t) == s.k = "resp" /\ IsPure(V, s.eph) /\ IsPure(Q, s.long) /\ s.t = t

\* certificates: [name ok for the peer's validator?, data version, public key point]
Cert(who, nameOk, ver, Q) == [k |-> "cert", who |-> who, nameOk |-> nameOk, ver |-> ver, Q |-> Q]
\* validation of a certificate by a party: the validator's verdict, then the protocol's own on-curve test
CertErr(c) == IF c.k # "cert" \/ ~c.nameOk THEN "BAD_CERT" ELSE IF ~IsPt(c.Q) THEN "BAD_CERT" ELSE "OK"

\* ---------------------------------------------------------------- set-up and attacks
\* su: what each party holds.  hello[X] = X's view of the pair of hello strings; pwd[X]; d[X] = X's long-term private
\* key name; cert[X][Y] = the certificate of Y as X holds / sends it
HonestSetup == [hello |-> [A |-> Nm("hello"), B |-> Nm("hello")],
                pwd |-> [A |-> Nm("pwd"), B |-> Nm("pwd")],
                d |-> [A |-> "da", B |-> "db"],
                cert |-> [A |-> [A |-> Cert("A", TRUE, 0, Pt({"da"}, GBase)), B |-> Cert("B", TRUE, 0, Pt({"db"}, GBase))],
                          B |-> [A |-> Cert("A", TRUE, 0, Pt({"da"}, GBase)), B |-> Cert("B", TRUE, 0, Pt({"db"}, GBase))]]]
Other(X) == IF X = "A" THEN "B" ELSE "A"
\* set-up corruptions: [at |-> "setup", kind, who]
SetupKinds(p) ==
  {"hello"} \cup (IF p = "BPACE" THEN {"pwd"} ELSE {"key", "cert.reject", "cert.off"})
            \cup (IF p = "BMQV" THEN {"cert.data"} ELSE {})
\* whose set-up: the long-term key / certificate of which party (BAUTH: the token's certificate matters only with kcb)
ApplySetup(su, p, kind, who) ==
  CASE kind = "hello" -> [su EXCEPT !.hello[who] = Nm("hello'")]
    [] kind = "pwd" -> [su EXCEPT !.pwd[who] = Nm("pwd'")]
    [] kind = "key" -> [su EXCEPT !.d[who] = "dx"]
    \* the certificate of `who` as the PEER gets it (the peer's copy in BMQV / BAUTH's terminal certificate, inside a
    \* message otherwise); the owner's own validator is lenient and returns the true public key
    [] kind = "cert.reject" -> [su EXCEPT !.cert[Other(who)][who].nameOk = FALSE]
    [] kind = "cert.off" -> [su EXCEPT !.cert[Other(who)][who].Q = BadPt("off")]
    [] kind = "cert.data" -> [su EXCEPT !.cert[Other(who)][who].ver = 1]

\* parts of the messages and the ways to alter them
PointKinds == {"other", "neg", "off", "xgep", "zero"}
Parts(p, kca, kcb) ==
  CASE p = "BMQV" -> [M1 |-> <<"Vb">>, M2 |-> <<"Va">> \o (IF kca THEN <<"Ta">> ELSE <<>>), M3 |-> IF kcb THEN <<"Tb">> ELSE <<>>, M4 |-> <<>>]
    [] p = "BSTS" -> [M1 |-> <<"Vb">>, M2 |-> <<"Va", "Ya", "Ta">>, M3 |-> <<"Yb", "Tb">>, M4 |-> <<>>]
    [] p = "BPACE" -> [M1 |-> <<"Yb">>, M2 |-> <<"Ya", "Va">>, M3 |-> <<"Vb">> \o (IF kcb THEN <<"Tb">> ELSE <<>>), M4 |-> IF kca THEN <<"Ta">> ELSE <<>>]
    [] p = "BAUTH" -> [M1 |-> <<"Vct", "Zct">>, M2 |-> <<"Tt">> \o (IF kcb THEN <<"Rt">> ELSE <<>>), M3 |-> IF kcb THEN <<"Zct2", "Tct">> ELSE <<>>, M4 |-> <<>>]
IsPointPart(part) == part \in {"Va", "Vb", "Vct"}
KindsOf(part) == IF IsPointPart(part) THEN PointKinds ELSE {"flip"}
AlterTerm(t, kind) ==
  CASE kind = "flip" -> Junk(t)
    [] kind = "other" -> Pt({"e"}, GBase)              \* another valid point, chosen by the attacker
    [] kind = "neg" -> Neg(t)
    [] OTHER -> BadPt(kind)
NoAtk == [at |-> "none", part |-> "-", kind |-> "-", who |-> "-"]

\* ---------------------------------------------------------------- the global state (one record)
\* party: pc = name of its next step or "done" / "fail" / "blocked"; K = master secret it derived; mem = what it remembers
Party0(first) == [pc |-> first, K |-> NoKey, mem |-> [k |-> "mem"], err |-> "OK", at |-> "-"]
NoMsg == [k |-> "nomsg"]
Log(step, rc) == [step |-> step, rc |-> rc]

InitState(p, kca, kcb, atk) ==
  [proto |-> p, kca |-> kca, kcb |-> kcb, atk |-> atk,
   su |-> IF atk.at = "setup" THEN ApplySetup(HonestSetup, p, atk.kind, atk.who) ELSE HonestSetup,
   A |-> Party0("StartA"), B |-> Party0("StartB"),
   chan |-> NoMsg, budget |-> IF atk.at = "setup" THEN 0 ELSE 1, log |-> <<>>]

\* failure of party X at a step: the protocol stops there (the peer, if it still waits for a message, is blocked)
FailAt(g, X, step, rc) ==
  LET Y == Other(X)
      y == g[Y]
  IN [g EXCEPT ![X].pc = "fail", ![X].err = rc, ![X].at = step,
               ![Y].pc = IF y.pc \in {"done", "fail"} THEN y.pc ELSE "blocked",
               !.chan = NoMsg, !.log = Append(@, Log(step, rc))]
Ok(g, step) == [g EXCEPT !.log = Append(@, Log(step, "OK"))]
Send(g, name, parts) == [g EXCEPT !.chan = [k |-> "msg", name |-> name, parts |-> parts]]
M(g, part) == g.chan.parts[part]
View(g, X) == <<g.su.hello[X]>>

\* ---------------------------------------------------------------- Start: own certificate validated (BMQV, BSTS, BAUTH)
StartOf(g, X) ==
  LET step == "Start" \o X
      own == g.su.cert[X][X]
      \* own certificate: the party's own validator is lenient about names; the public key it returns must be on the curve
      rc == IF g.proto = "BPACE" THEN "OK" ELSE IF ~IsPt(own.Q) THEN "BAD_CERT" ELSE "OK"
      next == IF X = "B" THEN "Step2" ELSE "Step3"
  IN IF rc # "OK" THEN FailAt(g, X, step, rc)
     ELSE Ok([g EXCEPT ![X].pc = next], step)

\* ================================================================ BMQV
Bmqv2(g) == LET Vb == Pt({"ub"}, GBase) IN
  Ok(Send([g EXCEPT !.B.pc = "Step4", !.B.mem = [k |-> "mem", Vb |-> Vb]], "M1", [Vb |-> Vb]), "Step2")
BmqvK(g, X, eph, V, Q, t) ==
  Hash(<<MqvKey(eph, g.su.d[X], V, Q, t), g.su.cert[X]["A"], g.su.cert[X]["B"], g.su.hello[X]>>)
Bmqv3(g) ==
  LET cb == g.su.cert["A"]["B"]   Vb == M(g, "Vb")   Va == Pt({"ua"}, GBase) IN
  IF CertErr(cb) # "OK" THEN FailAt(g, "A", "Step3", CertErr(cb))
  ELSE IF ~IsPt(Vb) THEN FailAt(g, "A", "Step3", "BAD_POINT")
  ELSE LET K == BmqvK(g, "A", "ua", Vb, cb.Q, <<XC(Va), XC(Vb)>>)
           parts == IF g.kca THEN [Va |-> Va, Ta |-> Mac(K, "0")] ELSE [Va |-> Va]
       IN Ok(Send([g EXCEPT !.A.pc = IF g.kcb THEN "Step5" ELSE "done", !.A.K = K], "M2", parts), "Step3")
Bmqv4(g) ==
  LET ca == g.su.cert["B"]["A"]   Va == M(g, "Va")   Vb == g.B.mem.Vb IN
  IF CertErr(ca) # "OK" THEN FailAt(g, "B", "Step4", CertErr(ca))
  ELSE IF ~IsPt(Va) THEN FailAt(g, "B", "Step4", "BAD_POINT")
  ELSE LET K == BmqvK(g, "B", "ub", Va, ca.Q, <<XC(Va), XC(Vb)>>) IN
       IF g.kca /\ M(g, "Ta") # Mac(K, "0") THEN FailAt(g, "B", "Step4", "AUTH")
       ELSE LET g1 == [g EXCEPT !.B.pc = "done", !.B.K = K]
            IN Ok(IF g.kcb THEN Send(g1, "M3", [Tb |-> Mac(K, "1")]) ELSE [g1 EXCEPT !.chan = NoMsg], "Step4")
Bmqv5(g) == IF M(g, "Tb") # Mac(g.A.K, "1") THEN FailAt(g, "A", "Step5", "AUTH")
            ELSE Ok([g EXCEPT !.A.pc = "done", !.chan = NoMsg], "Step5")

\* ================================================================ BSTS
Bsts2(g) == LET Vb == Pt({"ub"}, GBase) IN
  Ok(Send([g EXCEPT !.B.pc = "Step4", !.B.mem = [k |-> "mem", Vb |-> Vb]], "M1", [Vb |-> Vb]), "Step2")
BstsK(g, X, u, V) == Hash(<<XC(Mul(u, V)), g.su.hello[X]>>)
Bsts3(g) ==
  LET Vb == M(g, "Vb")   Va == Pt({"ua"}, GBase) IN
  IF ~IsPt(Vb) THEN FailAt(g, "A", "Step3", "BAD_POINT")
  ELSE LET t == <<XC(Va), XC(Vb)>>
           K == BstsK(g, "A", "ua", Vb)
           Ya == Enc(K, <<Resp("ua", g.su.d["A"], t), g.su.cert["A"]["A"]>>)
       IN Ok(Send([g EXCEPT !.A.pc = "Step5", !.A.K = K, !.A.mem = [k |-> "mem", Vb |-> Vb, t |-> t]],
                  "M2", [Va |-> Va, Ya |-> Ya, Ta |-> Mac(K, <<Ya, "0">>)]), "Step3")
Bsts4(g) ==
  LET Va == M(g, "Va")   Ya == M(g, "Ya")   Vb == g.B.mem.Vb IN
  IF ~IsPt(Va) THEN FailAt(g, "B", "Step4", "BAD_POINT")
  ELSE LET K == BstsK(g, "B", "ub", Va) IN
       IF M(g, "Ta") # Mac(K, <<Ya, "0">>) THEN FailAt(g, "B", "Step4", "AUTH")
       ELSE LET sa == Ya.body[1]
                \* the certificate arrives inside the message; B validates it with its own validator
                ca == [Ya.body[2] EXCEPT !.nameOk = g.su.cert["B"]["A"].nameOk, !.Q = g.su.cert["B"]["A"].Q]
                t == <<XC(Va), XC(Vb)>>
            IN IF CertErr(ca) # "OK" THEN FailAt(g, "B", "Step4", CertErr(ca))
               ELSE IF ~RespOk(sa, Va, ca.Q, t) THEN FailAt(g, "B", "Step4", "AUTH")
               ELSE LET Yb == Enc(K, <<Resp("ub", g.su.d["B"], t), g.su.cert["B"]["B"]>>)
                    IN Ok(Send([g EXCEPT !.B.pc = "done", !.B.K = K], "M3", [Yb |-> Yb, Tb |-> Mac(K, <<Yb, "1">>)]), "Step4")
Bsts5(g) ==
  LET Yb == M(g, "Yb")   K == g.A.K IN
  IF M(g, "Tb") # Mac(K, <<Yb, "1">>) THEN FailAt(g, "A", "Step5", "AUTH")
  ELSE LET sb == Yb.body[1]
           cb == [Yb.body[2] EXCEPT !.nameOk = g.su.cert["A"]["B"].nameOk, !.Q = g.su.cert["A"]["B"].Q]
       IN IF CertErr(cb) # "OK" THEN FailAt(g, "A", "Step5", CertErr(cb))
          ELSE IF ~RespOk(sb, g.A.mem.Vb, cb.Q, g.A.mem.t) THEN FailAt(g, "A", "Step5", "AUTH")
          ELSE Ok([g EXCEPT !.A.pc = "done", !.chan = NoMsg], "Step5")

\* ================================================================ BPACE
\* opening Enc(K2, R) with the own password key: R if the keys agree and the string is intact
Open(c, key) == IF c.k = "enc" /\ c.key = key THEN c.body ELSE Junk(<<c, key>>)
WBase(ra, rb) == [k |-> "W", ra |-> ra, rb |-> rb]
Bpace2(g) == Ok(Send([g EXCEPT !.B.pc = "Step4"], "M1", [Yb |-> Enc(g.su.pwd["B"], Nm("rb"))]), "Step2")
Bpace3(g) ==
  LET rb == Open(M(g, "Yb"), g.su.pwd["A"])
      Va == Pt({"ua"}, WBase(Nm("ra"), rb))
  IN Ok(Send([g EXCEPT !.A.pc = "Step5", !.A.mem = [k |-> "mem", Va |-> Va]], "M2",
             [Ya |-> Enc(g.su.pwd["A"], Nm("ra")), Va |-> Va]), "Step3")
BpaceY(g, X, K, Va, Vb) == Hash(<<K, XC(Va), XC(Vb), g.su.hello[X]>>)
Bpace4(g) ==
  LET Va == M(g, "Va") IN
  IF ~IsPt(Va) THEN FailAt(g, "B", "Step4", "BAD_POINT")
  ELSE LET ra == Open(M(g, "Ya"), g.su.pwd["B"])
           Vb == Pt({"ub"}, WBase(ra, Nm("rb")))
           Y == BpaceY(g, "B", XC(Mul("ub", Va)), Va, Vb)
           parts == IF g.kcb THEN [Vb |-> Vb, Tb |-> Mac(Y, "1")] ELSE [Vb |-> Vb]
       IN Ok(Send([g EXCEPT !.B.pc = IF g.kca THEN "Step6" ELSE "done", !.B.K = Y], "M3", parts), "Step4")
Bpace5(g) ==
  LET Vb == M(g, "Vb") IN
  IF ~IsPt(Vb) THEN FailAt(g, "A", "Step5", "BAD_POINT")
  ELSE LET Y == BpaceY(g, "A", XC(Mul("ua", Vb)), g.A.mem.Va, Vb) IN
       IF g.kcb /\ M(g, "Tb") # Mac(Y, "1") THEN FailAt(g, "A", "Step5", "AUTH")
       ELSE LET g1 == [g EXCEPT !.A.pc = "done", !.A.K = Y]
            IN Ok(IF g.kca THEN Send(g1, "M4", [Ta |-> Mac(Y, "0")]) ELSE [g1 EXCEPT !.chan = NoMsg], "Step5")
Bpace6(g) == IF M(g, "Ta") # Mac(g.B.K, "0") THEN FailAt(g, "B", "Step6", "AUTH")
             ELSE Ok([g EXCEPT !.B.pc = "done", !.chan = NoMsg], "Step6")

\* ================================================================ BAUTH (A = terminal T, B = token CT)
Bauth2(g) ==
  LET ct == g.su.cert["B"]["A"] IN
  IF CertErr(ct) # "OK" THEN FailAt(g, "B", "Step2", CertErr(ct))
  ELSE LET Vct == Pt({"uct"}, GBase)
           K == XC(Mul("uct", ct.Q))
       IN Ok(Send([g EXCEPT !.B.pc = "Step4", !.B.mem = [k |-> "mem", Vct |-> Vct]], "M1",
                  [Vct |-> Vct, Zct |-> Enc(K, Nm("rct"))]), "Step2")
BauthY(g, X, rct, rt) == Hash(<<rct, rt, g.su.hello[X]>>)
NoRt == Nm("-")
Bauth3(g) ==
  LET Vct == M(g, "Vct")   Zct == M(g, "Zct") IN
  IF ~IsPt(Vct) THEN FailAt(g, "A", "Step3", "BAD_POINT")
  ELSE LET K == XC(Mul(g.su.d["A"], Vct)) IN
       IF ~(Zct.k = "enc" /\ Zct.key = K) THEN FailAt(g, "A", "Step3", "AUTH")
       ELSE LET rt == IF g.kcb THEN Nm("rt") ELSE NoRt
                Y == BauthY(g, "A", Zct.body, rt)
                parts == IF g.kcb THEN [Tt |-> Mac(Y, "0"), Rt |-> rt] ELSE [Tt |-> Mac(Y, "0")]
            IN Ok(Send([g EXCEPT !.A.pc = IF g.kcb THEN "Step5" ELSE "done", !.A.K = Y,
                                 !.A.mem = [k |-> "mem", Vct |-> Vct, rt |-> rt]], "M2", parts), "Step3")
Bauth4(g) ==
  LET rt == IF g.kcb THEN M(g, "Rt") ELSE NoRt
      Y == BauthY(g, "B", Nm("rct"), rt)
  IN IF M(g, "Tt") # Mac(Y, "0") THEN FailAt(g, "B", "Step4", "AUTH")
     ELSE LET g1 == [g EXCEPT !.B.pc = "done", !.B.K = Y] IN
          IF ~g.kcb THEN Ok([g1 EXCEPT !.chan = NoMsg], "Step4")
          ELSE LET Z == Enc(Y, <<Resp("uct", g.su.d["B"], <<XC(g.B.mem.Vct), rt>>), g.su.cert["B"]["B"]>>)
               IN Ok(Send(g1, "M3", [Zct2 |-> Z, Tct |-> Mac(Y, Z)]), "Step4")
Bauth5(g) ==
  LET Z == M(g, "Zct2")   Y == g.A.K IN
  IF M(g, "Tct") # Mac(Y, Z) THEN FailAt(g, "A", "Step5", "AUTH")
  ELSE LET s == Z.body[1]
           cc == [Z.body[2] EXCEPT !.nameOk = g.su.cert["A"]["B"].nameOk, !.Q = g.su.cert["A"]["B"].Q]
       IN IF CertErr(cc) # "OK" THEN FailAt(g, "A", "Step5", CertErr(cc))
          ELSE IF ~RespOk(s, g.A.mem.Vct, cc.Q, <<XC(g.A.mem.Vct), g.A.mem.rt>>) THEN FailAt(g, "A", "Step5", "AUTH")
          ELSE Ok([g EXCEPT !.A.pc = "done", !.chan = NoMsg], "Step5")

\* ---------------------------------------------------------------- dispatch
StepFn(g, X, step) ==
  IF step \in {"StartA", "StartB"} THEN StartOf(g, X)
  ELSE CASE g.proto = "BMQV" -> (CASE step = "Step2" -> Bmqv2(g) [] step = "Step3" -> Bmqv3(g) [] step = "Step4" -> Bmqv4(g) [] step = "Step5" -> Bmqv5(g))
         [] g.proto = "BSTS" -> (CASE step = "Step2" -> Bsts2(g) [] step = "Step3" -> Bsts3(g) [] step = "Step4" -> Bsts4(g) [] step = "Step5" -> Bsts5(g))
         [] g.proto = "BPACE" -> (CASE step = "Step2" -> Bpace2(g) [] step = "Step3" -> Bpace3(g) [] step = "Step4" -> Bpace4(g) [] step = "Step5" -> Bpace5(g) [] step = "Step6" -> Bpace6(g))
         [] g.proto = "BAUTH" -> (CASE step = "Step2" -> Bauth2(g) [] step = "Step3" -> Bauth3(g) [] step = "Step4" -> Bauth4(g) [] step = "Step5" -> Bauth5(g))
\* which message a step consumes ("-" = none)
Needs(step) == CASE step = "Step3" -> "M1" [] step = "Step4" -> "M2" [] step = "Step5" -> "M3" [] step = "Step6" -> "M4" [] OTHER -> "-"
Ready(g, X) ==
  LET pc == g[X].pc IN
  /\ pc \notin {"done", "fail", "blocked"}
  /\ (pc = "Step2" => g.A.pc # "StartA")                     \* both parties are set up before the first message
  /\ (Needs(pc) # "-" => (g.chan.k = "msg" /\ g.chan.name = Needs(pc)))
  /\ (Needs(pc) = "-" /\ pc \notin {"StartA", "StartB"} => g.chan.k = "nomsg")
\* the attacker's move on the message in the channel
CanAlter(g, part, kind) ==
  /\ g.budget = 1 /\ g.chan.k = "msg" /\ part \in DOMAIN g.chan.parts /\ kind \in KindsOf(part)
DoAlter(g, part, kind) ==
  [g EXCEPT !.chan.parts[part] = AlterTerm(@, kind), !.budget = 0,
            !.atk = [at |-> g.chan.name, part |-> part, kind |-> kind, who |-> "-"]]

\* ---------------------------------------------------------------- the state machine
VARIABLE g
Cases == {<<p, a, b>> \in Protos \X BOOLEAN \X BOOLEAN : FlagsOk(p, a, b)}
SetupAtks(p) == {[at |-> "setup", part |-> "-", kind |-> k, who |-> w] : k \in SetupKinds(p), w \in {"A", "B"}}
Init == \E c \in Cases : \E atk \in {NoAtk} \cup SetupAtks(c[1]) : g = InitState(c[1], c[2], c[3], atk)
StepA == Ready(g, "A") /\ g' = StepFn(g, "A", g.A.pc)
StepB == Ready(g, "B") /\ g' = StepFn(g, "B", g.B.pc)
Alter == \E part \in {"Va", "Vb", "Vct", "Ta", "Tb", "Ya", "Yb", "Zct", "Tt", "Rt", "Zct2", "Tct"} :
           \E kind \in PointKinds \cup {"flip"} : CanAlter(g, part, kind) /\ g' = DoAlter(g, part, kind)
Next == StepA \/ StepB \/ Alter
Spec == Init /\ [][Next]_g

\* ---------------------------------------------------------------- the property
Terminal == ~Ready(g, "A") /\ ~Ready(g, "B")
Done(X) == g[X].pc = "done"
Tampered == g.atk.at # "none"
\* a sign change of a point is not an alteration of anything the protocols use where only x-coordinates enter
SignOnly == g.atk.kind = "neg"
\* set-up corruptions without effect on the run: the token's certificate / key in BAUTH without kcb is never used
Inert == g.atk.at = "setup" /\ g.proto = "BAUTH" /\ ~g.kcb /\ g.atk.who = "B" /\ g.atk.kind \in {"key", "cert.reject", "cert.off"}
RequiresConf(X) == IF X = "A" THEN g.kcb ELSE g.kca
\* honest runs: every step succeeds and both parties hold the same key
Honest == (Terminal /\ ~Tampered) => (Done("A") /\ Done("B") /\ g.A.K = g.B.K /\ g.A.K # NoKey
                                       /\ \A i \in 1..Len(g.log) : g.log[i].rc = "OK")
\* tampered runs never end with both parties accepting the same key
NeverAgree == (Terminal /\ Tampered /\ ~SignOnly /\ ~Inert) => ~(Done("A") /\ Done("B") /\ g.A.K = g.B.K)
\* a party that gets a confirmation from its peer accepts only the key its peer derived
Confirmed == \A Y \in {"A", "B"} : (Terminal /\ Tampered /\ ~Inert /\ Done(Y) /\ RequiresConf(Y)) => g[Other(Y)].K = g[Y].K
\* tampered /\ the receiver requires confirmation => somebody returns an error (nobody is left with an unconfirmed wrong key)
TamperDetected == (Terminal /\ Tampered /\ ~SignOnly /\ ~Inert /\ (g.kca \/ g.kcb)) => (g.A.pc = "fail" \/ g.B.pc = "fail")
\* without any confirmation both parties finish, with different keys (unless a step rejects an invalid point / certificate)
NoConfDiffer == (Terminal /\ Tampered /\ ~SignOnly /\ ~Inert /\ ~g.kca /\ ~g.kcb /\ Done("A") /\ Done("B")) => g.A.K # g.B.K
TypeOK == g.A.pc \in {"StartA", "Step3", "Step5", "done", "fail", "blocked"} /\ g.budget \in {0, 1}

\* ---------------------------------------------------------------- deterministic evaluation of one case (for the trace module)
\* the schedule of a protocol; the alteration (if any) is applied to its message as soon as it is in the channel
Schedule(p) == IF p = "BPACE" THEN <<"StartB", "StartA", "Step2", "Step3", "Step4", "Step5", "Step6">>
               ELSE <<"StartB", "StartA", "Step2", "Step3", "Step4", "Step5">>
WhoRuns(step) == IF step \in {"StartB", "Step2", "Step4", "Step6"} THEN "B" ELSE "A"
RunCase(p, kca, kcb, atk) ==
  LET g0 == InitState(p, kca, kcb, IF atk.at = "setup" THEN atk ELSE NoAtk)
      step(gg, s) ==
        LET Xx == WhoRuns(s)
            g1 == IF atk.at \notin {"none", "setup"} /\ gg.budget = 1 /\ gg.chan.k = "msg" /\ gg.chan.name = atk.at
                     /\ atk.part \in DOMAIN gg.chan.parts
                  THEN DoAlter(gg, atk.part, atk.kind) ELSE gg
        IN IF g1[Xx].pc = s /\ (Needs(s) = "-" \/ (g1.chan.k = "msg" /\ g1.chan.name = Needs(s))) THEN StepFn(g1, Xx, s) ELSE g1
  IN FoldLeft(step, g0, Schedule(p))
\* what the harness observes: the codes of the steps that were executed, who holds a key, whether the keys agree
Outcome(gf) == [log |-> gf.log, doneA |-> gf.A.pc = "done", doneB |-> gf.B.pc = "done",
                agree |-> gf.A.pc = "done" /\ gf.B.pc = "done" /\ gf.A.K = gf.B.K]
=============================================================================
