INIT Init
NEXT NextAll
INVARIANT TableClosed NoForbidden StateTableOk
