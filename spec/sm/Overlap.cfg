INIT Init
NEXT Next
INVARIANT TableClosed NoForbidden
