------------------------------ MODULE StepApi ------------------------------
(* C10: the Start / Step / Get bundles as a state machine over the abstract buffer
   bookkeeping of the implementation (fields filled / reserved), parameterised by the
   buffering discipline of the bundle:
     "lazy"   (belt MAC): a full block is kept back until more data or Get arrives;
     "eager"  (hash, HMAC, the I/A absorbers of DWP/CHE, bash): a block is processed as soon as full;
     "stream" (CFB, CTR, the E/D steps of DWP/CHE): unused keystream octets are reserved;
     "block"  (ECB, CBC): stateless fragments of >= Blk octets, a ragged tail only in the last one;
     "whole"  (BDE): fragments are whole blocks;
     "aead"   (DWP/CHE scripts): associated-data fragments (eager) strictly before data fragments.
   Actions: Step(len), StepI(len), Get, Reloc.  The functional claim (results equal the
   one-shot value) is checked on the real code through the scripts this machine generates
   (Finish writes each explored script as a replay case) and Trace_Belt's StepsOk. *)
EXTENDS Integers, Sequences, SequencesExt, FiniteSets, TLC, Json, IOUtils

CONSTANTS Discipline, Blk, MaxFrags, MaxTotal, MaxMarks, Alphabet

VARIABLES script,      \* tokens so far: records [t |-> "S"|"I"|"G"|"V"|"R", n |-> length]
          filled,      \* octets buffered (lazy/eager) or keystream octets reserved (stream)
          ifilled,     \* same for the associated-data absorber of an AEAD bundle
          processed,   \* octets already absorbed / transformed block-wise
          total, itotal,
          phase,       \* "I" while associated data may still come, "X" afterwards
          done
vars == <<script, filled, ifilled, processed, total, itotal, phase, done>>

Tok(t, n) == [t |-> t, n |-> n]
NFrags == Cardinality({i \in 1..Len(script) : script[i].t \in {"S", "I"}})
NMarks == Cardinality({i \in 1..Len(script) : script[i].t \in {"G", "V", "R"}})
LastT == IF Len(script) = 0 THEN "none" ELSE script[Len(script)].t
Ragged == \E i \in 1..Len(script) : script[i].t = "S" /\ script[i].n % Blk # 0

Init == /\ script = <<>> /\ filled = 0 /\ ifilled = 0 /\ processed = 0 /\ total = 0 /\ itotal = 0
        /\ phase = (IF Discipline = "aead" THEN "I" ELSE "X") /\ done = FALSE

\* the three-way "accumulate / complete / loop / tail" structure of the Step functions
LazyStep(f, n) ==      \* returns <<filled', processed-delta>>
  IF f < Blk /\ n <= Blk - f THEN <<f + n, 0>>
  ELSE LET n1 == IF f < Blk THEN n - (Blk - f) ELSE n          \* block completed, n1 octets left
           full == n1 \div Blk   rest == n1 % Blk
       IN IF n1 = 0 THEN <<Blk, 0>>
          ELSE IF rest = 0 THEN <<Blk, full * Blk>>             \* the last full block is kept back
          ELSE <<rest, (full + 1) * Blk>>
EagerStep(f, n) == <<(f + n) % Blk, ((f + n) \div Blk) * Blk>>
StreamStep(r, n) ==    \* r reserved keystream octets
  IF r >= n THEN <<r - n, 0>>
  ELSE LET n1 == n - r IN <<(Blk - (n1 % Blk)) % Blk, ((n1 + Blk - 1) \div Blk) * Blk>>

Allowed(n) ==
  CASE Discipline = "block" -> n >= Blk /\ ~Ragged
    [] Discipline = "whole" -> n % Blk = 0
    [] OTHER -> TRUE

Step(n) ==
  /\ ~done /\ NFrags < MaxFrags /\ total + n <= MaxTotal /\ Allowed(n)
  /\ LET r == CASE Discipline = "lazy" -> LazyStep(filled, n)
                [] Discipline \in {"eager"} -> EagerStep(filled, n)
                [] Discipline \in {"stream", "aead"} -> StreamStep(filled, n)
                [] OTHER -> <<0, n>>
     IN filled' = r[1] /\ processed' = processed + r[2]
  /\ script' = Append(script, Tok("S", n)) /\ total' = total + n /\ phase' = "X"
  /\ UNCHANGED <<ifilled, itotal, done>>

StepI(n) ==
  /\ ~done /\ Discipline = "aead" /\ phase = "I" /\ NFrags < MaxFrags /\ itotal + n <= MaxTotal
  /\ ifilled' = (ifilled + n) % Blk /\ itotal' = itotal + n
  /\ script' = Append(script, Tok("I", n))
  /\ UNCHANGED <<filled, processed, total, phase, done>>

HasGet == Discipline \in {"lazy", "eager", "aead"}
Mark(t) ==
  /\ ~done /\ NMarks < MaxMarks /\ LastT # t
  /\ (t \in {"G", "V"} => HasGet)
  /\ script' = Append(script, Tok(t, 0))
  /\ UNCHANGED <<filled, ifilled, processed, total, itotal, phase, done>>   \* Get / Reloc change nothing

Finish ==
  /\ ~done /\ NFrags >= 1 /\ done' = TRUE
  /\ (HasGet => LastT \in {"G", "V"})          \* a script of an authenticating bundle ends with a Get
  /\ UNCHANGED <<script, filled, ifilled, processed, total, itotal, phase>>

Next == (\E n \in Alphabet : Step(n) \/ StepI(n)) \/ (\E t \in {"G", "V", "R"} : Mark(t)) \/ Finish
Spec == Init /\ [][Next]_vars

-----------------------------------------------------------------------------
(* invariants of the bookkeeping *)
FilledRange == CASE Discipline = "lazy" -> filled \in 0..Blk
                 [] Discipline \in {"eager", "stream", "aead"} -> filled \in 0..(Blk - 1)
                 [] OTHER -> filled = 0
\* nothing is lost or processed twice
Conservation == CASE Discipline \in {"lazy", "eager"} -> processed + filled = total
                  [] Discipline \in {"stream", "aead"} -> processed - filled = total
                  [] OTHER -> processed = total
\* a lazy absorber never has an empty buffer once data has arrived (Get needs the last block)
LazyKeepsLast == (Discipline = "lazy" /\ total > 0) => filled > 0
IFilledRange == ifilled \in 0..(Blk - 1)
\* Get and Reloc are invisible
MarksInvisible == [][(\E t \in {"G", "V", "R"} : Mark(t)) => UNCHANGED <<filled, ifilled, processed, total, itotal>>]_vars

-----------------------------------------------------------------------------
(* replay cases: every finished script is written out *)
TokStr(k) == IF k.t \in {"S", "I"} THEN k.t \o ToString(k.n) ELSE k.t
ScriptStr == FoldLeft(LAMBDA acc, k : IF acc = "" THEN TokStr(k) ELSE acc \o "," \o TokStr(k), "", script)
FileStr == FoldLeft(LAMBDA acc, k : acc \o "_" \o TokStr(k), "", script)
Emit == done => JsonSerialize(IOEnv.GEN_DIR \o "/" \o Discipline \o FileStr \o ".json",
                              [d |-> Discipline, script |-> ScriptStr, filled |-> filled, total |-> total, itotal |-> itotal])
=============================================================================
