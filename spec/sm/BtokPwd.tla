----------------------------- MODULE BtokPwd -----------------------------
(* PIN/CAN/PUK password automaton of STB 34.101.79 as described in the prose of
   btok.h (section "Парольный автомат" and comments 1-5), written as rules per
   password, NOT as a copy of the C switch.  The automaton is parameterised by
   a transition operator T so that the same rules R1..R7 are checked
     (a) on the reference automaton RefT defined here, and
     (b) on the transition table extracted from the implementation (ImplGraph). *)
EXTENDS Integers, Sequences, FiniteSets, TLC

\* pin_state by enum index (btok.h: puk0..puk9, pin0, pin1, pind, pins, pin2, pin3)
puk0 == 0    puk1 == 1    puk9 == 9
pin0 == 10   pin1 == 11   pind == 12   pins == 13   pin2 == 14   pin3 == 15
\* auth_state by enum index
ANone == 0   APin == 1    ACan == 2    APuk == 3

PinStates == 0..15
AuthStates == 0..3
Events == {"pin_ok","pin_bad","pin_deactivate","pin_activate",
           "can_ok","can_bad","puk_ok","puk_bad","auth_close"}

Blocked(p) == p <= pin0                  \* pin0 or pukN: PIN is blocked
Usable(p)  == p \in {pin1, pin2, pin3}   \* a PIN attempt can be made

-----------------------------------------------------------------------------
(* Reference automaton.  R(ok,p,a) is a result record. *)
Res(ok, p, a) == [ok |-> ok, pin |-> p, auth |-> a]
Reject(p, a)  == Res(FALSE, p, a)

\* successor of the PIN part after one wrong PIN: pin3 -> pin2 -> pins, pin1 -> pin0
AfterWrongPin(p) == CASE p = pin3 -> pin2 [] p = pin2 -> pins [] p = pin1 -> pin0
\* a failed authentication by password X loses the status only if it was X (comments 2, 3)
Lose(a, x) == IF a = x THEN ANone ELSE a
\* PUK attempts remaining: pin0 counts as "10 left"
AfterWrongPuk(p) == IF p \in puk1..pin0 THEN p - 1 ELSE p

RefT(p, a, e) ==
  CASE e = "pin_ok"   -> IF Usable(p) THEN Res(TRUE, pin3, APin) ELSE Reject(p, a)
    [] e = "pin_bad"  -> IF Usable(p) THEN Res(TRUE, AfterWrongPin(p), Lose(a, APin)) ELSE Reject(p, a)
    [] e = "can_ok"   -> Res(TRUE, IF p = pins THEN pin1 ELSE p, ACan)
    [] e = "can_bad"  -> Res(TRUE, p, Lose(a, ACan))
    [] e = "puk_ok"   -> Res(TRUE, IF p \in puk1..pin0 THEN pin3 ELSE p, APuk)
    [] e = "puk_bad"  -> Res(TRUE, AfterWrongPuk(p), Lose(a, APuk))
    \* deactivation: after authentication by PIN or PUK *of an operational PIN*
    \* (btok.h: "Но тогда pin_state обязательно равняется pin3")
    [] e = "pin_deactivate" ->
          IF a \in {APin, APuk} /\ p = pin3
          THEN Res(TRUE, pind, IF a = APin THEN ANone ELSE a) ELSE Reject(p, a)
    [] e = "pin_activate" ->
          IF p = pind /\ a = APuk THEN Res(TRUE, pin3, a) ELSE Reject(p, a)
    [] e = "auth_close" -> IF a = ANone THEN Reject(p, a) ELSE Res(TRUE, p, ANone)

-----------------------------------------------------------------------------
(* The automaton over an arbitrary transition operator. *)
CONSTANT T(_, _, _)          \* (pin, auth, event) -> [ok, pin, auth]

VARIABLES pin, auth,          \* the real state
          wrong,              \* ghost: accepted wrong PINs since the last correct PIN / PUK (capped)
          canSince,           \* ghost: a correct CAN was accepted since the last accepted wrong PIN
          pukBad,             \* ghost: accepted wrong PUKs while blocked since the last correct PUK (capped)
          lastOk,             \* ghost: password of the most recent successful authentication
          lastEv, lastAcc     \* ghost: the event just processed and whether it was accepted
vars == <<pin, auth, wrong, canSince, pukBad, lastOk, lastEv, lastAcc>>

Init == /\ pin \in PinStates /\ auth = ANone
        /\ wrong = 0 /\ canSince = FALSE /\ pukBad = 0 /\ lastOk = ANone
        /\ lastEv = "none" /\ lastAcc = TRUE

Min(a, b) == IF a < b THEN a ELSE b

Step(e) ==
  LET r == T(pin, auth, e) IN
  /\ pin' = r.pin /\ auth' = r.auth /\ lastEv' = e /\ lastAcc' = r.ok
  /\ wrong' = IF r.ok /\ e = "pin_bad" THEN Min(wrong + 1, 5)
              ELSE IF r.ok /\ e \in {"pin_ok", "puk_ok"} THEN 0 ELSE wrong
  /\ canSince' = IF r.ok /\ e = "can_ok" THEN TRUE
                 ELSE IF r.ok /\ e = "pin_bad" THEN FALSE ELSE canSince
  /\ pukBad' = IF r.ok /\ e = "puk_bad" /\ Blocked(pin) THEN Min(pukBad + 1, 12)
               ELSE IF r.ok /\ e = "puk_ok" THEN 0 ELSE pukBad
  /\ lastOk' = IF ~r.ok THEN lastOk
               ELSE CASE e = "pin_ok" -> APin [] e = "can_ok" -> ACan [] e = "puk_ok" -> APuk
                      [] OTHER -> lastOk

Next == \E e \in Events : Step(e)
Spec == Init /\ [][Next]_vars

-----------------------------------------------------------------------------
(* The rules of property C20. *)
TypeOK == pin \in PinStates /\ auth \in AuthStates

\* R1: never more than three consecutive wrong PINs without the PIN becoming blocked
R1 == wrong <= 3 /\ (wrong = 3 => Blocked(pin))

\* R2: a correct CAN lies between the second and the last PIN attempt
A2 == \A e \in {"pin_ok", "pin_bad"} :
            (lastEv' = e /\ lastAcc' /\ wrong = 2) => canSince
R2 == [][A2]_vars
\* ... and structurally: the suspended state is left only by a correct CAN (to pin1)
A2b == (pin = pins /\ pin' # pins) => (lastEv' = "can_ok" /\ pin' = pin1)
R2b == [][A2b]_vars

\* R3: a blocked PIN is unblocked only by a correct PUK
A3 == (Blocked(pin) /\ ~Blocked(pin')) => (lastEv' = "puk_ok" /\ lastAcc')
R3 == [][A3]_vars

\* R4: ten wrong PUKs block permanently: puk0 is absorbing for the PIN part, and
\*     ten accepted wrong PUKs on a blocked PIN always end in puk0
A4 == pin = puk0 => pin' = puk0
R4 == [][A4]_vars
R4b == pukBad >= 10 => pin = puk0
A4c == (lastEv' = "puk_bad" /\ pin \in puk1..pin0) => pin' = pin - 1
R4c == [][A4c]_vars

\* R5: the deactivated state is left only through activation under PUK authentication
A5 == (pin = pind /\ pin' # pind) => (lastEv' = "pin_activate" /\ lastAcc' /\ auth = APuk)
R5 == [][A5]_vars

\* R6: at most the authentication status of the most recent successful password
R6 == auth \in {ANone, lastOk}

\* R7 (rejected events leave the state unchanged) is a property of the transition
\* operator alone; it is stated as R7(T) by the model-checking modules:
RejectKeeps(TT(_,_,_)) == \A p \in PinStates, a \in AuthStates, e \in Events :
        ~TT(p, a, e).ok => (TT(p, a, e).pin = p /\ TT(p, a, e).auth = a)

\* after the correct password X the status is X (soundness of the status)
A8 == \A x \in {"pin_ok", "can_ok", "puk_ok"} : (lastEv' = x /\ lastAcc') =>
            auth' = (CASE x = "pin_ok" -> APin [] x = "can_ok" -> ACan [] x = "puk_ok" -> APuk)
R8 == [][A8]_vars
=============================================================================
