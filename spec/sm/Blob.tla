-------------------------------- MODULE Blob --------------------------------
(* C07: the blob object of core/blob.h as a state machine.  blob.h promises: a created blob is zero-filled; blobResize
   keeps the first min(old, new) octets, appends zero octets when growing, returns the same descriptor when the size
   does not change, closes the blob for size 0 and creates it when there is none; blobCopy makes dest a copy of src;
   blobSize reports the current size; a null descriptor is a valid blob of size 0.  The memory a blob owns is
   exactly blobSize octets for the caller ("every caller buffer ... allocated at exactly the documented size"):
   the harness writes ALL of them after every step (Fill), so an implementation whose bookkeeping of the underlying
   allocation (pages, header) goes wrong is caught by the sanitizers in the page-rounded AND the exact-size build.

   Abstract content of a blob: [kind, k, plen, zlen]: the first plen octets are the octets 0..plen-1 of pattern k
   (written by the harness), the next zlen octets are zero; kind = "junk" after blobWipe (content unspecified).
   Two blobs A (exercised) and B (copy target).  Every explored history is written out with the predicted
   observation after every step (replay case). *)
EXTENDS Integers, Sequences, SequencesExt, FiniteSets, TLC, Json, IOUtils

CONSTANTS Sizes,        \* sizes used by Create / Resize (0 = close)
          MaxSizeOps,   \* Create / Resize steps per history
          MaxLen        \* steps per history

VARIABLES a, b,         \* blobs: Null or [size, kind, k, plen, zlen]
          hist,         \* steps: [op, n] with the predicted observation [sa, pa, za, sb, pb, zb, same, eq, cmp]
          nextPat, nsz, nw, ny, done
vars == <<a, b, hist, nextPat, nsz, nw, ny, done>>

Null == [size |-> 0, kind |-> "null", k |-> 0, plen |-> 0, zlen |-> 0]
Zeroed(s) == IF s = 0 THEN Null ELSE [size |-> s, kind |-> "pat", k |-> 0, plen |-> 0, zlen |-> s]
MinOf(x, y) == IF x < y THEN x ELSE y

\* blobResize(x, s)
Resized(x, s) ==
  IF s = 0 THEN Null
  ELSE IF x.kind = "null" THEN Zeroed(s)
  ELSE IF s <= x.size
       THEN [size |-> s, kind |-> x.kind, k |-> x.k, plen |-> MinOf(x.plen, s), zlen |-> MinOf(x.zlen, s - MinOf(x.plen, s))]
       ELSE \* grow: the old content (junk stays junk in its old range: tracked as plen = old size of unknown octets) + zeros
            IF x.kind = "junk" THEN [size |-> s, kind |-> "junk", k |-> 0, plen |-> x.plen, zlen |-> x.zlen + (s - x.size)]
            ELSE [size |-> s, kind |-> "pat", k |-> x.k, plen |-> x.plen, zlen |-> x.zlen + (s - x.size)]

Filled(x, k) == IF x.kind = "null" THEN Null ELSE [size |-> x.size, kind |-> "pat", k |-> k, plen |-> x.size, zlen |-> 0]
\* after blobWipe the content is unspecified: plen counts the octets of unknown value, zlen the known zeros after them
Wiped(x) == IF x.kind = "null" THEN Null ELSE [size |-> x.size, kind |-> "junk", k |-> 0, plen |-> x.size, zlen |-> 0]

\* blobEq / blobCmp between A and B: decidable in the model when both contents are known (pattern octets are never
\* zero and patterns with different numbers differ in their first octet)
Known(x) == x.kind # "junk"
SameContent(x, y) == x.size = y.size /\ ((x.k = y.k /\ x.plen = y.plen) \/ (x.plen = 0 /\ y.plen = 0))
EqPred(x, y) == IF x.size # y.size THEN "F" ELSE IF x.size = 0 THEN "T"
                ELSE IF ~(Known(x) /\ Known(y)) THEN "?" ELSE IF SameContent(x, y) THEN "T" ELSE "F"
CmpPred(x, y) == IF x.size < y.size THEN "<" ELSE IF x.size > y.size THEN ">" ELSE IF x.size = 0 THEN "="
                 ELSE IF Known(x) /\ Known(y) /\ SameContent(x, y) THEN "=" ELSE "?"

Obs(x, y, same) == [sa |-> x.size, ka |-> x.kind, pa |-> x.plen, za |-> x.zlen, pk |-> x.k,
                    sb |-> y.size, kb |-> y.kind, pb |-> y.plen, zb |-> y.zlen, qk |-> y.k, same |-> same,
                    eq |-> EqPred(x, y), cmp |-> CmpPred(x, y)]
Step(op, n, x, y, same) ==
  /\ a' = x /\ b' = y
  /\ hist' = Append(hist, [op |-> op, n |-> n, obs |-> Obs(x, y, same)])

Init == a = Null /\ b = Null /\ hist = <<>> /\ nextPat = 1 /\ nsz = 0 /\ nw = 0 /\ ny = 0 /\ done = FALSE
\* the caller fills a (re)sized blob before anything else happens to it
MustFill == Len(hist) > 0 /\ hist[Len(hist)].op \in {"C", "R"} /\ a.kind # "null"

Create(s) == /\ ~done /\ a.kind = "null" /\ s > 0 /\ nsz < MaxSizeOps /\ Len(hist) < MaxLen
             /\ Step("C", s, Zeroed(s), b, "n") /\ nsz' = nsz + 1 /\ UNCHANGED <<nextPat, nw, ny, done>>
\* "same": the header promises an unchanged descriptor only when the size does not change
Resize(s) == /\ ~done /\ ~MustFill /\ nsz < MaxSizeOps /\ Len(hist) < MaxLen /\ (a.kind = "null" => s > 0)
             /\ Step("R", s, Resized(a, s), b, IF a.kind # "null" /\ s = a.size THEN "y" ELSE "n")
             /\ nsz' = nsz + 1 /\ UNCHANGED <<nextPat, nw, ny, done>>
\* the caller uses all of its blob: always directly after a step that (re)sized it
Fill == /\ ~done /\ a.kind # "null" /\ Len(hist) < MaxLen /\ Len(hist) > 0 /\ hist[Len(hist)].op \in {"C", "R"}
        /\ Step("F", nextPat, Filled(a, nextPat), b, "n") /\ nextPat' = nextPat + 1 /\ UNCHANGED <<nsz, nw, ny, done>>
Wipe == /\ ~done /\ nw = 0 /\ nw' = 1 /\ a.kind = "pat" /\ Len(hist) < MaxLen /\ hist[Len(hist)].op = "F"
        /\ Step("W", 0, Wiped(a), b, "n") /\ UNCHANGED <<nextPat, nsz, ny, done>>
\* b <- blobCopy(b, a): the descriptor of b stays when the sizes coincide
Copy == /\ ~done /\ ny = 0 /\ ny' = 1 /\ ~MustFill /\ Len(hist) < MaxLen /\ Len(hist) > 0 /\ hist[Len(hist)].op \in {"F", "R"}
        /\ Step("Y", 0, a, a,
                IF a.kind # "null" /\ b.kind # "null" /\ a.size = b.size THEN "y" ELSE "n")
        /\ UNCHANGED <<nextPat, nsz, nw, done>>
Close == /\ ~done /\ ~MustFill /\ Len(hist) > 0 /\ Step("X", 0, Null, Null, "n") /\ done' = TRUE /\ UNCHANGED <<nextPat, nsz, nw, ny>>

Next == (\E s \in Sizes : Create(s) \/ Resize(s)) \/ Fill \/ Wipe \/ Copy \/ Close
Spec == Init /\ [][Next]_vars

-----------------------------------------------------------------------------
SizeOK(x) == x.plen + x.zlen = x.size /\ x.plen >= 0 /\ x.zlen >= 0 /\ (x.kind = "null" <=> x.size = 0)
Shape == SizeOK(a) /\ SizeOK(b)
\* growing never invents non-zero octets; shrinking never changes a kept octet (stated on the abstract content)
ResizeKeeps == [][\A s \in Sizes : (Resize(s) /\ a.kind = "pat" /\ s > 0) =>
                     (a'.k = a.k /\ a'.plen = MinOf(a.plen, s) /\ (s >= a.size => a'.zlen = a.zlen + s - a.size))]_vars
CopyIsCopy == [][Copy => b' = a]_vars

-----------------------------------------------------------------------------
TokStr(h) == h.op \o (IF h.op \in {"C", "R"} THEN ToString(h.n) ELSE "")
ScriptStr == FoldLeft(LAMBDA acc, h : IF acc = "" THEN TokStr(h) ELSE acc \o "." \o TokStr(h), "", hist)
FileStr == FoldLeft(LAMBDA acc, h : acc \o "_" \o TokStr(h), "", hist)
Emit == done => JsonSerialize(IOEnv.GEN_DIR \o "/blob" \o FileStr \o ".json",
                              [script |-> ScriptStr, obs |-> [i \in 1..Len(hist) |-> hist[i].obs]])
=============================================================================
