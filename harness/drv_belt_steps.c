/* belt driver, replay directions:
   "steps"   (C10) executes fragment scripts produced by TLC (spec/mc/MC_StepApi) on the real
             Start/Step/Get bundles, with Get/Verify at any position and state relocation;
   "overlap" (C11) executes placements produced by TLC (spec/mc/MC_Overlap) in one arena.
   Each executed case is logged as one ndjson line judged by spec/trace/Trace_Belt.tla. */
#include "vx.h"
#include <bee2/core/mem.h>
#include <bee2/core/err.h>
#include <bee2/core/util.h>
#include <bee2/crypto/belt.h>

static octet* rnd(size_t n) { octet* p = (octet*)malloc(n ? n : 1); vxRandBuf(p, n); return p; }

enum { B_ECBE, B_ECBD, B_CBCE, B_CBCD, B_CFBE, B_CFBD, B_CTR, B_MAC, B_DWPE, B_DWPD, B_CHEE, B_CHED,
	B_HASH, B_HMAC, B_BDEE, B_BDED, B_N };
static const char* BN[B_N] = {"ecbE","ecbD","cbcE","cbcD","cfbE","cfbD","ctr","mac","dwpE","dwpD","cheE","cheD",
	"hash","hmac","bdeE","bdeD"};

static size_t keepOf(int b)
{
	switch (b)
	{
	case B_ECBE: case B_ECBD: return beltECB_keep();
	case B_CBCE: case B_CBCD: return beltCBC_keep();
	case B_CFBE: case B_CFBD: return beltCFB_keep();
	case B_CTR: return beltCTR_keep();
	case B_MAC: return beltMAC_keep();
	case B_DWPE: case B_DWPD: return beltDWP_keep();
	case B_CHEE: case B_CHED: return beltCHE_keep();
	case B_HASH: return beltHash_keep();
	case B_HMAC: return beltHMAC_keep();
	default: return beltBDE_keep();
	}
}

typedef struct { size_t ilen, xlen; octet tag[32]; size_t tlen; } get_t;

static int runScript(int b, size_t klen, const char* script, int reloc_all)
{
	octet* key = rnd(klen); octet iv[16];
	size_t cap = 4096, inl = 0, hl = 0, ng = 0, vbad = 0, keep = keepOf(b), authl = 0; int decoupled = 0;
	octet* in = (octet*)malloc(cap); octet* out = (octet*)malloc(cap); octet* hdr = (octet*)malloc(cap);
	get_t gets[64]; void* st = malloc(keep);
	memset(st, 0xC3, keep);
	const char* p = script;
	vxRandBuf(iv, 16);
	switch (b)
	{
	case B_ECBE: case B_ECBD: beltECBStart(st, key, klen); break;
	case B_CBCE: case B_CBCD: beltCBCStart(st, key, klen, iv); break;
	case B_CFBE: case B_CFBD: beltCFBStart(st, key, klen, iv); break;
	case B_CTR: beltCTRStart(st, key, klen, iv); break;
	case B_MAC: beltMACStart(st, key, klen); break;
	case B_DWPE: case B_DWPD: beltDWPStart(st, key, klen, iv); break;
	case B_CHEE: case B_CHED: beltCHEStart(st, key, klen, iv); break;
	case B_HASH: beltHashStart(st); break;
	case B_HMAC: beltHMACStart(st, key, klen); break;
	default: beltBDEStart(st, key, klen, iv); break;
	}
	while (*p)
	{
		char c = *p++; size_t n = 0;
		while (*p >= '0' && *p <= '9') n = n * 10 + (size_t)(*p++ - '0');
		if (*p == ',') ++p;
		if (c == 'R' || reloc_all)
		{	/* relocate: copy the state elsewhere, overwrite and release the original */
			void* st2 = malloc(keep); memcpy(st2, st, keep); memset(st, 0x5A, keep); free(st); st = st2;
		}
		if (c == 'R')
			continue;
		if (c == 'I')
		{
			octet* frag = (octet*)malloc(n ? n : 1);	/* exact-size fragment buffer */
			if (hl + n > cap) return 2;
			vxRandBuf(frag, n); memcpy(hdr + hl, frag, n);
			if (b == B_DWPE || b == B_DWPD) beltDWPStepI(frag, n, st); else beltCHEStepI(frag, n, st);
			hl += n; free(frag);
		}
		else if ((c == 'E' || c == 'A') && b >= B_DWPE && b <= B_CHED)
		{	/* decoupled cipher / authentication halves (spec/sm/StepAead.tla): E = StepE (StepD for the D bundles),
			   A = StepA over ciphertext octets; protect: A reads ciphertext already produced, unprotect: D needs authenticated octets */
			int prot = (b == B_DWPE || b == B_CHEE), dwp = (b == B_DWPE || b == B_DWPD);
			octet* frag = (octet*)malloc(n ? n : 1);
			decoupled = 1;
			if (c == 'E')
			{
				if (inl + n > cap || (!prot && inl + n > authl)) return 2;
				if (prot) { vxRandBuf(frag, n); memcpy(in + inl, frag, n); } else memcpy(frag, in + inl, n);
				if (prot) { if (dwp) beltDWPStepE(frag, n, st); else beltCHEStepE(frag, n, st); }
				else { if (dwp) beltDWPStepD(frag, n, st); else beltCHEStepD(frag, n, st); }
				memcpy(out + inl, frag, n); inl += n;
			}
			else
			{
				if (authl + n > cap || (prot && authl + n > inl)) return 2;
				if (prot) memcpy(frag, out + authl, n); else { vxRandBuf(frag, n); memcpy(in + authl, frag, n); }
				if (dwp) beltDWPStepA(frag, n, st); else beltCHEStepA(frag, n, st);
				authl += n;
			}
			free(frag);
		}
		else if (c == 'S')
		{
			octet* frag = (octet*)malloc(n ? n : 1);
			if (inl + n > cap) return 2;
			vxRandBuf(frag, n); memcpy(in + inl, frag, n);
			switch (b)
			{
			case B_ECBE: beltECBStepE(frag, n, st); break;
			case B_ECBD: beltECBStepD(frag, n, st); break;
			case B_CBCE: beltCBCStepE(frag, n, st); break;
			case B_CBCD: beltCBCStepD(frag, n, st); break;
			case B_CFBE: beltCFBStepE(frag, n, st); break;
			case B_CFBD: beltCFBStepD(frag, n, st); break;
			case B_CTR: beltCTRStepE(frag, n, st); break;
			case B_MAC: beltMACStepA(frag, n, st); break;
			case B_DWPE: beltDWPStepE(frag, n, st); beltDWPStepA(frag, n, st); break;
			case B_DWPD: beltDWPStepA(frag, n, st); beltDWPStepD(frag, n, st); break;
			case B_CHEE: beltCHEStepE(frag, n, st); beltCHEStepA(frag, n, st); break;
			case B_CHED: beltCHEStepA(frag, n, st); beltCHEStepD(frag, n, st); break;
			case B_HASH: beltHashStepH(frag, n, st); break;
			case B_HMAC: beltHMACStepA(frag, n, st); break;
			case B_BDEE: beltBDEStepE(frag, n, st); break;
			default: beltBDEStepD(frag, n, st); break;
			}
			memcpy(out + inl, frag, n); inl += n; free(frag);
		}
		else if (c == 'G' || c == 'V')
		{
			get_t* g = &gets[ng]; octet bad[32]; bool_t v1 = TRUE, v2 = FALSE;
			if (ng >= 64) return 2;
			g->ilen = hl; g->xlen = decoupled ? authl : inl; g->tlen = 0;
			switch (b)
			{
			case B_MAC: beltMACStepG(g->tag, st); g->tlen = 8; break;
			case B_DWPE: case B_DWPD: beltDWPStepG(g->tag, st); g->tlen = 8; break;
			case B_CHEE: case B_CHED: beltCHEStepG(g->tag, st); g->tlen = 8; break;
			case B_HASH: beltHashStepG(g->tag, st); g->tlen = 32; break;
			case B_HMAC: beltHMACStepG(g->tag, st); g->tlen = 32; break;
			default: break;
			}
			if (g->tlen && (b == B_MAC || b == B_HASH || b == B_HMAC))
			{	/* truncated tags: StepG2 gives the prefix of the full value, StepV2 accepts exactly it */
				octet t2[32], t3[32]; size_t tl = 1 + (inl + hl + ng) % g->tlen; bool_t a1, a2;
				if (b == B_MAC) { beltMACStepG2(t2, tl, st); memcpy(t3, t2, tl); t3[tl - 1] ^= 0x80; a1 = beltMACStepV2(t2, tl, st); a2 = beltMACStepV2(t3, tl, st); }
				else if (b == B_HASH) { beltHashStepG2(t2, tl, st); memcpy(t3, t2, tl); t3[tl - 1] ^= 0x80; a1 = beltHashStepV2(t2, tl, st); a2 = beltHashStepV2(t3, tl, st); }
				else { beltHMACStepG2(t2, tl, st); memcpy(t3, t2, tl); t3[tl - 1] ^= 0x80; a1 = beltHMACStepV2(t2, tl, st); a2 = beltHMACStepV2(t3, tl, st); }
				if (memcmp(t2, g->tag, tl) != 0 || !a1 || a2) ++vbad;
			}
			if (g->tlen && c == 'V')
			{
				memcpy(bad, g->tag, g->tlen); bad[vxRandN(g->tlen)] ^= (octet)(1u << vxRandN(8));
				switch (b)
				{
				case B_MAC: v1 = beltMACStepV(g->tag, st); v2 = beltMACStepV(bad, st); break;
				case B_DWPE: case B_DWPD: v1 = beltDWPStepV(g->tag, st); v2 = beltDWPStepV(bad, st); break;
				case B_CHEE: case B_CHED: v1 = beltCHEStepV(g->tag, st); v2 = beltCHEStepV(bad, st); break;
				case B_HASH: v1 = beltHashStepV(g->tag, st); v2 = beltHashStepV(bad, st); break;
				case B_HMAC: v1 = beltHMACStepV(g->tag, st); v2 = beltHMACStepV(bad, st); break;
				default: break;
				}
				if (!v1) ++vbad;
				if (v2) ++vbad;
			}
			if (g->tlen) ++ng;
		}
	}
	if (getenv("VERIF_REGIONS"))
	{	/* C07: how much of the keep()-sized state was written (relocations copy the canary along) */
		size_t hwm = keep; while (hwm && ((octet*)st)[hwm - 1] == 0xC3) --hwm;
		jBegin(); jStr("e", "Region"); jStr("f", BN[b]); jStr("kind", "state"); jInt("size", (long long)keep); jInt("hwm", (long long)hwm); jEnd();
	}
	jBegin(); jStr("op", "steps"); jStr("b", BN[b]); jStr("script", script); jInt("reloc", reloc_all);
	jOct("key", key, klen); jOct("iv", iv, 16); jOct("hdr", hdr, hl); jOct("in", in, inl);
	if (b == B_MAC || b == B_HASH || b == B_HMAC) jOct("out", out, 0); else jOct("out", out, inl);
	jInt("vbad", (long long)vbad);
	{
		size_t i; jSep(); fprintf(vx_out, "\"gets\":[");
		for (i = 0; i < ng; ++i)
		{
			size_t j; fprintf(vx_out, "%s{\"ilen\":%u,\"xlen\":%u,\"tag\":[", i ? "," : "", (unsigned)gets[i].ilen, (unsigned)gets[i].xlen);
			for (j = 0; j < gets[i].tlen; ++j) fprintf(vx_out, j ? ",%u" : "%u", gets[i].tag[j]);
			fprintf(vx_out, "]}");
		}
		fputc(']', vx_out);
	}
	jInt("rc", 0); jEnd();
	free(key); free(in); free(out); free(hdr); free(st);
	return 0;
}

int stepsMain(void)
{
	static char line[1 << 16]; vx_cmd c;
	while (fgets(line, sizeof line, stdin))
	{
		const char* bn; const char* script; int b;
		if (!vxParse(&c, line)) continue;
		bn = vxArg(&c, "b"); script = vxArg(&c, "script");
		if (!bn || !script) continue;
		for (b = 0; b < B_N; ++b) if (strcmp(BN[b], bn) == 0) break;
		if (b == B_N) { fprintf(stderr, "unknown bundle %s\n", bn); return 3; }
		if (runScript(b, (size_t)vxInt(&c, "klen", 32), script, (int)vxInt(&c, "reloc", 0))) return 2;
	}
	return 0;
}

/* ------------------------------------------------------------------ msgs (C10 / C01): message-level reuse of ONE state
   command: msgs b=wbl|sde|fmt klen=K reloc=0|1 script=<tok>.<tok>...   tok = <op><n>[<iv>]
     op: E StepE, D StepD, T StepD2 (wbl), R StepR (wbl);  n: octets (wbl, sde) / word length (fmt: 10 -> mod 10,
     21 -> mod 58, 17 -> mod 65536);  iv: a | b (two fixed synchro values), n (null pointer, fmt only).
   One Start, then the calls in order on the same state (relocated before every call if reloc=1), every message
   in a fresh exact-size buffer.  One line per call in the format of the one-shot record lines, so that the
   reference semantics judges each call by its own arguments alone (wblR carries the ordinal of the StepR call). */
static int runMsgs(const char* b, size_t klen, const char* script, int reloc)
{
	octet* key = rnd(klen); octet ivs[2][16]; octet zero[16];
	int isWbl = strcmp(b, "wbl") == 0, isSde = strcmp(b, "sde") == 0, isFmt = strcmp(b, "fmt") == 0;
	const char* p = script; size_t keep = 0; void* st = 0; int idx = 0, nR = 0; u32 mod = 0; size_t fcount = 0;
	if (!isWbl && !isSde && !isFmt) return 3;
	vxRandBuf(ivs, sizeof ivs); memset(zero, 0, 16);
	while (*p)
	{
		char op = *p++; size_t n = 0; char ivc = 0; const octet* iv = 0; const octet* iveff = zero;
		while (*p >= '0' && *p <= '9') n = n * 10 + (size_t)(*p++ - '0');
		if (*p && *p != '.') ivc = *p++;
		if (*p == '.') ++p;
		if (ivc == 'a') iv = iveff = ivs[0]; else if (ivc == 'b') iv = iveff = ivs[1];
		if (!st)
		{	/* the one Start of the history */
			if (isFmt) { fcount = n; mod = n == 10 ? 10 : n == 21 ? 58 : 65536; keep = beltFMT_keep(mod, fcount); }
			else keep = isWbl ? beltWBL_keep() : beltSDE_keep();
			st = malloc(keep); memset(st, 0xC3, keep);
			if (isFmt) beltFMTStart(st, mod, fcount, key, klen); else if (isWbl) beltWBLStart(st, key, klen); else beltSDEStart(st, key, klen);
		}
		if (reloc) { void* st2 = malloc(keep); memcpy(st2, st, keep); memset(st, 0x5A, keep); free(st); st = st2; }
		++idx;
		if (isFmt)
		{
			u16* buf = (u16*)malloc(2 * fcount); long long* a = (long long*)malloc(sizeof(long long) * fcount); size_t i;
			if (n != fcount) return 2;
			for (i = 0; i < fcount; ++i) buf[i] = (u16)(vxRand64() % mod);
			jBegin(); jStr("op", op == 'E' ? "fmtE" : "fmtD"); jStr("cls", "msgs"); jStr("b", b); jStr("script", script); jInt("idx", idx); jInt("reloc", reloc);
			jInt("mod", mod); jOct("key", key, klen); jOct("iv", iveff, 16);
			for (i = 0; i < fcount; ++i) a[i] = buf[i]; jIntArr("in", a, fcount);
			if (op == 'E') beltFMTStepE(buf, iv, st); else beltFMTStepD(buf, iv, st);
			for (i = 0; i < fcount; ++i) a[i] = buf[i]; jIntArr("out", a, fcount);
			jInt("rc", 0); jEnd(); free(buf); free(a);
		}
		else
		{
			octet* buf = rnd(n); const char* name;
			if (n < 32) return 2;
			name = isSde ? (op == 'E' ? "sdeE" : "sdeD") : op == 'E' ? "wblE" : op == 'R' ? "wblR" : "wblD";
			jBegin(); jStr("op", name); jStr("cls", "msgs"); jStr("b", b); jStr("script", script); jInt("idx", idx); jInt("reloc", reloc);
			jOct("key", key, klen); if (isSde) jOct("iv", iveff, 16); jOct("in", buf, n);
			if (isSde) { if (op == 'E') beltSDEStepE(buf, n, iv, st); else beltSDEStepD(buf, n, iv, st); }
			else if (op == 'E') beltWBLStepE(buf, n, st);
			else if (op == 'D') beltWBLStepD(buf, n, st);
			else if (op == 'R') { jInt("k", nR); ++nR; beltWBLStepR(buf, n, st); }
			else
			{	/* StepD2: the message split into [n - 16]buf1 || [16]buf2, each exact size */
				octet* b1 = (octet*)malloc(n - 16); octet* b2 = (octet*)malloc(16);
				memcpy(b1, buf, n - 16); memcpy(b2, buf + n - 16, 16);
				beltWBLStepD2(b1, b2, n, st);
				memcpy(buf, b1, n - 16); memcpy(buf + n - 16, b2, 16); free(b1); free(b2);
			}
			jOct("out", buf, n); jInt("rc", 0); jEnd(); free(buf);
		}
	}
	free(key); free(st);
	return 0;
}

int msgsMain(void)
{
	static char line[1 << 16]; vx_cmd c;
	while (fgets(line, sizeof line, stdin))
	{
		const char* bn; const char* script; int rc;
		if (!vxParse(&c, line)) continue;
		bn = vxArg(&c, "b"); script = vxArg(&c, "script");
		if (!bn || !script) continue;
		rc = runMsgs(bn, (size_t)vxInt(&c, "klen", 32), script, (int)vxInt(&c, "reloc", 0));
		if (rc) { fprintf(stderr, "msgs: bad command (%d): b=%s script=%s\n", rc, bn, script); return rc; }
	}
	return 0;
}

/* ------------------------------------------------------------------ ovstate (C11): buffers that may overlap the STATE
   command: ovstate f=<name> kind=start|get pos=at0|at1|mid|end|end1|lo|hi klen=K len=N
   start: the key lies inside / straddles the state buffer handed to *Start (belt.h: "key и state могут пересекаться"),
          then one message is processed and logged in the one-shot line format (the key as it was before Start);
   get:   the tag buffer of StepG / StepG2 lies inside / straddles the state (the state is not used afterwards). */
static long symPos(const char* pos, size_t keep, size_t blen)
{
	if (!strcmp(pos, "at0")) return 0;
	if (!strcmp(pos, "at1")) return 1;
	if (!strcmp(pos, "mid")) return keep > blen ? (long)((keep - blen) / 2) : 0;
	if (!strcmp(pos, "end")) return (long)keep - (long)blen;
	if (!strcmp(pos, "end1")) return (long)keep - (long)blen - 1;
	if (!strcmp(pos, "lo")) return -(long)(blen / 2);
	return (long)keep - (long)(blen / 2);		/* hi */
}
int ovstateMain(void)
{
	static char line[1 << 12]; vx_cmd c;
	while (fgets(line, sizeof line, stdin))
	{
		const char *f, *kind, *pos; size_t klen, len, keep = 0, blen, i; long off; int inside;
		octet *arena, *st, *buf, *msg = 0, *out = 0; octet ksnap[32], iv[16], hdr[20], level[12], tag[32], tsep[32]; size_t taglen = 0;
		u32 mod = 0; u16* w = 0; long long* a = 0;
		if (!vxParse(&c, line)) continue;
		f = vxArg(&c, "f"); kind = vxArg(&c, "kind"); pos = vxArg(&c, "pos"); if (!pos) pos = "sweep"; if (!f || !kind) continue;
		klen = (size_t)vxInt(&c, "klen", 32); len = (size_t)vxInt(&c, "len", 32);
		vxRandBuf(iv, 16); vxRandBuf(hdr, 20); vxRandBuf(level, 12); vxRandBuf(ksnap, 32);
		if (!strcmp(f, "fmt")) mod = len == 10 ? 10 : 65536;
		keep = !strcmp(f, "wbl") ? beltWBL_keep() : !strcmp(f, "ecb") ? beltECB_keep() : !strcmp(f, "cbc") ? beltCBC_keep() :
			!strcmp(f, "cfb") ? beltCFB_keep() : !strcmp(f, "ctr") ? beltCTR_keep() : !strncmp(f, "mac", 3) ? beltMAC_keep() :
			!strcmp(f, "dwp") ? beltDWP_keep() : !strcmp(f, "che") ? beltCHE_keep() : !strcmp(f, "bde") ? beltBDE_keep() :
			!strcmp(f, "sde") ? beltSDE_keep() : !strcmp(f, "fmt") ? beltFMT_keep(mod, len) : !strcmp(f, "krp") ? beltKRP_keep() :
			!strncmp(f, "hashG", 5) ? beltHash_keep() : !strncmp(f, "hmacG", 5) ? beltHMAC_keep() : 0;
		if (!keep) { fprintf(stderr, "ovstate: unknown f=%s\n", f); return 3; }
		taglen = !strcmp(f, "macG") ? 8 : !strcmp(f, "macG2") ? 5 : !strcmp(f, "hashG") ? 32 : !strcmp(f, "hashG2") ? 13 : !strcmp(f, "hmacG2") ? 21 : 0;
		if (!strcmp(kind, "keep")) { jBegin(); jStr("op", "keep"); jStr("f", f); jInt("keep", (long long)keep); jInt("taglen", (long long)taglen); jEnd(); continue; }
		blen = !strcmp(kind, "start") ? klen : taglen;
		off = vxArg(&c, "off") ? (long)vxInt(&c, "off", 0) : symPos(pos, keep, blen);
		inside = off >= 0 && off + (long)blen <= (long)keep;
		/* a buffer lying inside the state: the state is allocated at its exact size (ASan guards it); straddling: an arena with slack */
		if (inside) { arena = (octet*)malloc(keep); st = arena; } else { arena = (octet*)malloc(keep + 128); st = arena + 64; }
		memset(arena, 0xC3, inside ? keep : keep + 128);
		buf = st + off;
		if (!strcmp(f, "fmt"))
		{
			w = (u16*)malloc(2 * len); a = (long long*)malloc(sizeof(long long) * len);
			for (i = 0; i < len; ++i) w[i] = (u16)(vxRand64() % mod);
		}
		else { msg = rnd(len); out = (octet*)malloc(len ? len : 1); memcpy(out, msg, len); }
		if (!strcmp(kind, "start"))
		{
			if (vxInt(&c, "used", 0))
			{	/* re-Start of a USED state: a first Start with another key and one processed message come before */
				octet k0[32]; octet* m0 = rnd(48); vxRandBuf(k0, 32);
				if (!strcmp(f, "wbl")) { beltWBLStart(st, k0, klen); beltWBLStepE(m0, 48, st); }
				else if (!strcmp(f, "ecb")) { beltECBStart(st, k0, klen); beltECBStepE(m0, 48, st); }
				else if (!strcmp(f, "cbc")) { beltCBCStart(st, k0, klen, iv); beltCBCStepE(m0, 48, st); }
				else if (!strcmp(f, "cfb")) { beltCFBStart(st, k0, klen, iv); beltCFBStepE(m0, 33, st); }
				else if (!strcmp(f, "ctr")) { beltCTRStart(st, k0, klen, iv); beltCTRStepE(m0, 33, st); }
				else if (!strcmp(f, "bde")) { beltBDEStart(st, k0, klen, iv); beltBDEStepE(m0, 48, st); }
				else if (!strcmp(f, "sde")) { beltSDEStart(st, k0, klen); beltSDEStepE(m0, 48, iv, st); }
				else if (!strcmp(f, "mac")) { octet t0[8]; beltMACStart(st, k0, klen); beltMACStepA(m0, 33, st); beltMACStepG(t0, st); }
				else if (!strcmp(f, "dwp")) { octet t0[8]; beltDWPStart(st, k0, klen, iv); beltDWPStepI(m0, 7, st); beltDWPStepE(m0, 33, st); beltDWPStepA(m0, 33, st); beltDWPStepG(t0, st); }
				else if (!strcmp(f, "che")) { octet t0[8]; beltCHEStart(st, k0, klen, iv); beltCHEStepI(m0, 7, st); beltCHEStepE(m0, 33, st); beltCHEStepA(m0, 33, st); beltCHEStepG(t0, st); }
				else if (!strcmp(f, "krp")) { octet o0[32]; beltKRPStart(st, k0, klen, level); beltKRPStepG(o0, klen, hdr, st); }
				else if (!strcmp(f, "fmt")) { u16* w0 = (u16*)malloc(2 * len); size_t j; for (j = 0; j < len; ++j) w0[j] = (u16)(vxRand64() % mod); beltFMTStart(st, mod, len, k0, klen); beltFMTStepE(w0, iv, st); free(w0); }
				free(m0);
			}
			memcpy(buf, ksnap, klen);		/* the key inside the state */
			jBegin();
			if (!strcmp(f, "wbl")) { beltWBLStart(st, buf, klen); beltWBLStepE(out, len, st); jStr("op", "wblE"); }
			else if (!strcmp(f, "ecb")) { beltECBStart(st, buf, klen); beltECBStepE(out, len, st); jStr("op", "ecbE"); }
			else if (!strcmp(f, "cbc")) { beltCBCStart(st, buf, klen, iv); beltCBCStepE(out, len, st); jStr("op", "cbcE"); jOct("iv", iv, 16); }
			else if (!strcmp(f, "cfb")) { beltCFBStart(st, buf, klen, iv); beltCFBStepE(out, len, st); jStr("op", "cfbE"); jOct("iv", iv, 16); }
			else if (!strcmp(f, "ctr")) { beltCTRStart(st, buf, klen, iv); beltCTRStepE(out, len, st); jStr("op", "ctr"); jOct("iv", iv, 16); }
			else if (!strcmp(f, "bde")) { beltBDEStart(st, buf, klen, iv); beltBDEStepE(out, len, st); jStr("op", "bdeE"); jOct("iv", iv, 16); }
			else if (!strcmp(f, "sde")) { beltSDEStart(st, buf, klen); beltSDEStepE(out, len, iv, st); jStr("op", "sdeE"); jOct("iv", iv, 16); }
			else if (!strcmp(f, "mac")) { beltMACStart(st, buf, klen); beltMACStepA(msg, len, st); beltMACStepG(tag, st); jStr("op", "mac"); }
			else if (!strcmp(f, "dwp") || !strcmp(f, "che"))
			{
				if (f[0] == 'd') { beltDWPStart(st, buf, klen, iv); beltDWPStepI(hdr, 20, st); beltDWPStepE(out, len, st); beltDWPStepA(out, len, st); beltDWPStepG(tag, st); }
				else { beltCHEStart(st, buf, klen, iv); beltCHEStepI(hdr, 20, st); beltCHEStepE(out, len, st); beltCHEStepA(out, len, st); beltCHEStepG(tag, st); }
				jStr("op", f[0] == 'd' ? "dwpW" : "cheW"); jOct("iv", iv, 16); jOct("hdr", hdr, 20); jOct("tag", tag, 8);
			}
			else if (!strcmp(f, "krp"))
			{
				free(out); out = (octet*)malloc(klen); len = 0;
				beltKRPStart(st, buf, klen, level); beltKRPStepG(out, klen, hdr, st);
				jStr("op", "krp"); jOct("iv", level, 12); jOct("hdr", hdr, 16);
			}
			else if (!strcmp(f, "fmt"))
			{
				jStr("op", "fmtE"); jInt("mod", mod); jOct("iv", iv, 16);
				for (i = 0; i < len; ++i) a[i] = w[i]; jIntArr("in", a, len);
				beltFMTStart(st, mod, len, buf, klen); beltFMTStepE(w, iv, st);
				for (i = 0; i < len; ++i) a[i] = w[i]; jIntArr("out", a, len);
			}
			jStr("cls", "ovstate"); jStr("f", f); jStr("kind", kind); jStr("pos", pos); if (vxArg(&c, "off")) jInt("off", off);	/* a symbolic position resolves to a word-size dependent offset: not logged */
			jInt("used", vxInt(&c, "used", 0));
			jOct("key", ksnap, klen);
			if (!strcmp(f, "mac")) { jOct("in", msg, len); jOct("out", tag, 8); }
			else if (!strcmp(f, "krp")) jOct("out", out, klen);
			else if (strcmp(f, "fmt")) { jOct("in", msg, len); jOct("out", out, len); }
			jInt("rc", 0); jEnd();
		}
		else
		{	/* get: the tag is written into the state's own memory */
			memset(tsep, 0, sizeof tsep);
			jBegin();
			if (!strncmp(f, "mac", 3))
			{
				beltMACStart(st, ksnap, klen); beltMACStepA(msg, len, st);
				if (taglen == 8) beltMACStepG(buf, st); else beltMACStepG2(buf, taglen, st);
				jStr("op", taglen == 8 ? "mac" : "macT"); jOct("key", ksnap, klen);
			}
			else if (!strncmp(f, "hashG", 5))
			{
				beltHashStart(st); beltHashStepH(msg, len, st);
				if (taglen == 32) beltHashStepG(buf, st); else beltHashStepG2(buf, taglen, st);
				jStr("op", taglen == 32 ? "hash" : "hashT");
			}
			else
			{
				beltHMACStart(st, ksnap, klen); beltHMACStepA(msg, len, st); beltHMACStepG2(buf, taglen, st);
				jStr("op", "hmacT"); jOct("key", ksnap, klen);
			}
			memcpy(tsep, buf, taglen);
			jStr("cls", "ovstate"); jStr("f", f); jStr("kind", kind); jStr("pos", pos); if (vxArg(&c, "off")) jInt("off", off);	/* a symbolic position resolves to a word-size dependent offset: not logged */
			jOct("in", msg, len); jOct("out", tsep, taglen); jInt("rc", 0); jEnd();
		}
		free(arena); free(msg); free(out); free(w); free(a);
	}
	return 0;
}

/* ------------------------------------------------------------------ overlap (C11)
   command: overlap f=<op> klen=K len=N doff=D [kpos=P] [ipos=P] [hpos=P] [tpos=P]
   An arena holds src at offset BASE and dest at BASE+doff.  kpos/ipos/hpos >= 0 place the
   key / iv / header inside the arena at BASE+pos (e.g. inside the output region); absent means
   a separate buffer.  The logical inputs are snapshotted before the call. */
#define ARENA 2048
#define BASE 768

int overlapMain(void)
{
	static char line[1 << 16]; vx_cmd c;
	while (fgets(line, sizeof line, stdin))
	{
		const char* f; size_t klen, len, hlen; long doff, kpos, ipos, hpos, tpos;
		octet* arena; octet *src, *dest, *key, *iv, *hdr, *tag;
		octet ksnap[32], isnap[16], hsnap[64], tsnap[8], *ssnap; octet sepk[32], sepi[16], seph[64], sept[32];
		size_t outlen; err_t rc = 0; octet tagout[32]; size_t tagoutlen = 0;
		if (!vxParse(&c, line)) continue;
		f = vxArg(&c, "f"); if (!f) continue;
		klen = (size_t)vxInt(&c, "klen", 32); len = (size_t)vxInt(&c, "len", 32); hlen = (size_t)vxInt(&c, "hlen", 16);
		doff = (long)vxInt(&c, "doff", 0); kpos = (long)vxInt(&c, "kpos", -100000); ipos = (long)vxInt(&c, "ipos", -100000);
		hpos = (long)vxInt(&c, "hpos", -100000); tpos = (long)vxInt(&c, "tpos", -100000);
		arena = (octet*)malloc(ARENA); vxRandBuf(arena, ARENA);
		vxRandBuf(sepk, 32); vxRandBuf(sepi, 16); vxRandBuf(seph, 64); vxRandBuf(sept, 32);
		src = arena + BASE; dest = arena + BASE + doff;
		key = kpos > -100000 ? arena + BASE + kpos : sepk;
		iv = ipos > -100000 ? arena + BASE + ipos : sepi;
		hdr = hpos > -100000 ? arena + BASE + hpos : seph;
		tag = tpos > -100000 ? arena + BASE + tpos : sept;
		/* unwrapping needs a valid token: produce it with disjoint buffers, then lay it out */
		if (!strcmp(f, "kwpU") || !strcmp(f, "dwpU") || !strcmp(f, "cheU"))
		{
			octet pt[64], tk[80], t8[8], k0[32], i0[16], h0[64];
			vxRandBuf(pt, 64); memcpy(k0, key, 32); memcpy(i0, iv, 16); memcpy(h0, hdr, 64);
			if (f[0] == 'k') { beltKWPWrap(tk, pt, len - 16, h0, k0, klen); memcpy(src, tk, len); }
			else
			{
				if (f[0] == 'd') beltDWPWrap(tk, t8, pt, len, h0, hlen, k0, klen, i0); else beltCHEWrap(tk, t8, pt, len, h0, hlen, k0, klen, i0);
				/* later placements may overwrite earlier ones when inputs overlap each other: the
				   snapshots below are the logical inputs, and the specification decides acceptance */
				memcpy(src, tk, len); memcpy(tag, t8, 8);
				memcpy(key, k0, klen); memcpy(iv, i0, 16); memcpy(hdr, h0, hlen);
			}
		}
		ssnap = (octet*)malloc(len + 64); memcpy(ssnap, src, len + 16);
		memcpy(ksnap, key, klen); memcpy(isnap, iv, 16); memcpy(hsnap, hdr, hlen <= 64 ? hlen : 64); memcpy(tsnap, tag, 8);
		outlen = len;
#define CALL6(name) rc = name(dest, src, len, key, klen, iv)
		if (!strcmp(f, "ecbE")) rc = beltECBEncr(dest, src, len, key, klen);
		else if (!strcmp(f, "ecbD")) rc = beltECBDecr(dest, src, len, key, klen);
		else if (!strcmp(f, "cbcE")) CALL6(beltCBCEncr);
		else if (!strcmp(f, "cbcD")) CALL6(beltCBCDecr);
		else if (!strcmp(f, "cfbE")) CALL6(beltCFBEncr);
		else if (!strcmp(f, "cfbD")) CALL6(beltCFBDecr);
		else if (!strcmp(f, "ctr")) CALL6(beltCTR);
		else if (!strcmp(f, "bdeE")) CALL6(beltBDEEncr);
		else if (!strcmp(f, "bdeD")) CALL6(beltBDEDecr);
		else if (!strcmp(f, "sdeE")) CALL6(beltSDEEncr);
		else if (!strcmp(f, "sdeD")) CALL6(beltSDEDecr);
		else if (!strcmp(f, "mac")) { rc = beltMAC(dest, src, len, key, klen); outlen = 8; }
		else if (!strcmp(f, "hash")) { rc = beltHash(dest, src, len); outlen = 32; }
		else if (!strcmp(f, "hmac")) { rc = beltHMAC(dest, src, len, key, klen); outlen = 32; }
		else if (!strcmp(f, "kwpW")) { rc = beltKWPWrap(dest, src, len, hdr, key, klen); outlen = len + 16; hlen = 16; }
		else if (!strcmp(f, "kwpU")) { rc = beltKWPUnwrap(dest, src, len, hdr, key, klen); outlen = len - 16; hlen = 16; }
		else if (!strcmp(f, "dwpW")) { rc = beltDWPWrap(dest, tag, src, len, hdr, hlen, key, klen, iv); memcpy(tagout, tag, 8); tagoutlen = 8; }
		else if (!strcmp(f, "cheW")) { rc = beltCHEWrap(dest, tag, src, len, hdr, hlen, key, klen, iv); memcpy(tagout, tag, 8); tagoutlen = 8; }
		else if (!strcmp(f, "dwpU")) rc = beltDWPUnwrap(dest, src, len, hdr, hlen, tag, key, klen, iv);
		else if (!strcmp(f, "cheU")) rc = beltCHEUnwrap(dest, src, len, hdr, hlen, tag, key, klen, iv);
		else if (!strcmp(f, "keyExpand")) { klen = len; beltKeyExpand(dest, src, klen); outlen = 32; memcpy(ksnap, ssnap, klen); }
		else if (!strcmp(f, "krp") || !strcmp(f, "krpN"))
		{	/* src = the key, iv = level (12 octets), hdr = header (16) */
			size_t m = f[3] ? len : 16;
			rc = beltKRP(dest, m, src, len, iv, hdr);
			jBegin(); jStr("op", "krp"); jStr("cls", "overlap"); jStr("f", f); jInt("doff", doff);
			if (ipos > -100000) jInt("ipos", ipos); if (hpos > -100000) jInt("hpos", hpos);
			jOct("key", ssnap, len); jOct("iv", isnap, 12); jOct("hdr", hsnap, 16); jOct("out", dest, m); jInt("rc", rc); jEnd();
			free(arena); free(ssnap); continue;
		}
		else if (!strcmp(f, "fmtE") || !strcmp(f, "fmtD"))
		{	/* u16 strings over the alphabet of size 65536 (every octet pair is a symbol) */
			size_t cnt = len / 2, i; long long* a = (long long*)malloc(sizeof(long long) * (cnt + 1)); u16 t;
			rc = f[3] == 'E' ? beltFMTEncr((u16*)dest, 65536, (const u16*)src, cnt, key, klen, iv) : beltFMTDecr((u16*)dest, 65536, (const u16*)src, cnt, key, klen, iv);
			jBegin(); jStr("op", f); jStr("cls", "overlap"); jInt("doff", doff); if (kpos > -100000) jInt("kpos", kpos); if (ipos > -100000) jInt("ipos", ipos);
			jInt("mod", 65536); jOct("key", ksnap, klen); jOct("iv", isnap, 16);
			for (i = 0; i < cnt; ++i) { memcpy(&t, ssnap + 2 * i, 2); a[i] = t; } jIntArr("in", a, cnt);
			for (i = 0; i < cnt; ++i) { memcpy(&t, dest + 2 * i, 2); a[i] = t; } jIntArr("out", a, cnt);
			jInt("rc", rc); jEnd(); free(a);
			free(arena); free(ssnap); continue;
		}
		else if (!strcmp(f, "memMove")) { memMove(dest, src, len); }
		else if (!strcmp(f, "memJoin")) { memJoin(dest, src, len, hdr, hlen); outlen = len + hlen; }
		else { fprintf(stderr, "unknown function %s\n", f); return 3; }
		jBegin(); jStr("op", f); jStr("cls", "overlap");
		jInt("doff", doff); if (kpos > -100000) jInt("kpos", kpos); if (ipos > -100000) jInt("ipos", ipos);
		if (hpos > -100000) jInt("hpos", hpos); if (tpos > -100000) jInt("tpos", tpos);
		jOct("key", ksnap, klen); jOct("iv", isnap, 16); jOct("in", ssnap, len);
		jOct("hdr", hsnap, hlen <= 64 ? hlen : 64);
		if (tagoutlen) jOct("tag", tagout, tagoutlen); else jOct("tag", tsnap, 8);
		jOct("out", dest, outlen); jInt("rc", rc); jEnd();
		free(arena); free(ssnap);
	}
	return 0;
}
