/* C17: token layer driver (secure messaging, CV certificates, bpki containers).
   Modes (ndjson on stdout, one line per library call; every line is self-contained so that the
   Pattern-F module trace/Trace_Btok.tla can judge it alone, and the SM lines are at the same time
   the events of the Pattern-S module trace/Trace_BtokSM.tla):
     sm_replay            stdin: "sm id=N ops=tok,tok,..."  (behaviours enumerated by MC_BtokSM)
     sm_forms             every Lc/Le form x data length: inc, wrap, unwrap (values)
     sm_record N M        N seeded random dialogues of M operations
     sm_alter <tier>      every position of a few protected APDUs altered, then unwrapped
     cvc_replay           stdin: "cvc id=N ..." (cases enumerated by MC_CvcChain)
     cvc_alter <tier>     every single-octet alteration of a signed certificate, per key length (tier small: l = 128 only)
     bpki <tier>          key / share containers: wrap, unwrap, wrong passwords, altered octets (tier small: no sweep)
     curves               p, a, b of the standard curves (for tools/gen_btok_curves.py)
   All states are allocated at exactly their _keep() sizes, all buffers at their exact lengths. */
#include "vx.h"
#include <bee2/core/err.h>
#include <bee2/core/mem.h>
#include <bee2/core/str.h>
#include <bee2/core/hex.h>
#include <bee2/core/apdu.h>
#include <bee2/core/rng.h>
#include <bee2/crypto/belt.h>
#include <bee2/crypto/bign.h>
#include <bee2/crypto/bign96.h>
#include <bee2/crypto/btok.h>
#include <bee2/crypto/bpki.h>

static const char* errName(err_t e)
{
	static char buf[32];
	switch (e)
	{
	case ERR_OK: return "OK";
	case ERR_BAD_INPUT: return "BAD_INPUT";
	case ERR_OUTOFMEMORY: return "OUTOFMEMORY";
	case ERR_BAD_FORMAT: return "BAD_FORMAT";
	case ERR_BAD_DATE: return "BAD_DATE";
	case ERR_BAD_NAME: return "BAD_NAME";
	case ERR_OUTOFRANGE: return "OUTOFRANGE";
	case ERR_BAD_APDU: return "BAD_APDU";
	case ERR_BAD_POINT: return "BAD_POINT";
	case ERR_BAD_PARAMS: return "BAD_PARAMS";
	case ERR_BAD_SECKEY: return "BAD_SECKEY";
	case ERR_BAD_PRIVKEY: return "BAD_PRIVKEY";
	case ERR_BAD_PUBKEY: return "BAD_PUBKEY";
	case ERR_BAD_KEYPAIR: return "BAD_KEYPAIR";
	case ERR_BAD_SHAREKEY: return "BAD_SHAREKEY";
	case ERR_BAD_SIG: return "BAD_SIG";
	case ERR_BAD_MAC: return "BAD_MAC";
	case ERR_BAD_KEYTOKEN: return "BAD_KEYTOKEN";
	case ERR_BAD_CERT: return "BAD_CERT";
	case ERR_BAD_LOGIC: return "BAD_LOGIC";
	case ERR_AUTH: return "AUTH";
	case ERR_BAD_OID: return "BAD_OID";
	}
	sprintf(buf, "E%u", (unsigned)e);
	return buf;
}

static void* xalloc(size_t n) { void* p = malloc(n ? n : 1); if (!p) { fprintf(stderr, "driver: out of memory\n"); exit(3); } return p; }

/* =========================================================================== secure messaging */

/* projection of the SM state (btok_sm.c: key1[32] key2[32] ctr[16]); the counter is observed, never written */
static const octet* smCtr(const void* st) { return (const octet*)st + 64; }

static const size_t CMD_CDF[] = {0, 1, 255, 256, 300};
static const size_t CMD_RDF[] = {0, 1, 255, 256, 257, 65535, 65536, 258, 4660, 65280};   /* incl. values whose octets differ (0x0102, 0x1234, 0xFF00) */
static const size_t RESP_RDF[] = {0, 1, 255, 256, 300};
#define N_CDF (sizeof(CMD_CDF) / sizeof(CMD_CDF[0]))
#define N_RDF (sizeof(CMD_RDF) / sizeof(CMD_RDF[0]))
#define N_RESP (sizeof(RESP_RDF) / sizeof(RESP_RDF[0]))

typedef struct
{
	void* st[2];            /* 0 = terminal T, 1 = card C */
	octet key[32];
	octet* msg; size_t len; /* protected APDU in flight (exact-size buffer) */
	int kind;               /* 0 none, 1 command, 2 response */
	size_t ys, yl, ts;      /* offsets of the ciphertext Y (length yl) and of the MAC value T */
	long id, i;
	int altered;            /* the code in flight has been altered already */
	err_t rc; int same;     /* outcome of the last operation: return code; recovered APDU equals the protected one */
	octet* plain; size_t plen; octet phdr[4]; size_t prdf;   /* the APDU that was protected (for the equality verdict) */
} sm_run;

static void jCmd(const char* k, const apdu_cmd_t* c)
{
	jSep(); fprintf(vx_out, "\"%s\":{", k); vx_first = 1;
	jInt("cla", c->cla); jInt("ins", c->ins); jInt("p1", c->p1); jInt("p2", c->p2);
	jOct("cdf", c->cdf, c->cdf_len); jInt("rdf", (long long)c->rdf_len);
	fputc('}', vx_out); vx_first = 0;
}
static void jResp(const char* k, const apdu_resp_t* r)
{
	jSep(); fprintf(vx_out, "\"%s\":{", k); vx_first = 1;
	jInt("sw1", r->sw1); jInt("sw2", r->sw2); jOct("rdf", r->rdf, r->rdf_len);
	fputc('}', vx_out); vx_first = 0;
}
static void smHead(sm_run* r, const char* op, int peer)
{
	jBegin(); jStr("e", "Op"); jInt("id", r->id); jInt("i", r->i++); jStr("op", op);
	jStr("peer", peer ? "C" : "T"); jOct("key", r->key, 32); jOct("ctr", smCtr(r->st[peer]), 16);
}
static void smReset(sm_run* r, long id)
{
	int p;
	r->id = id; r->i = 0;
	vxRandBuf(r->key, 32);
	for (p = 0; p < 2; ++p)
	{
		free(r->st[p]); r->st[p] = xalloc(btokSM_keep());
		btokSMStart(r->st[p], r->key);
	}
	free(r->msg); r->msg = 0; r->len = 0; r->kind = 0; r->altered = 0;
	jBegin(); jStr("e", "Reset"); jInt("id", id); jOct("key", r->key, 32);
	jOct("ctrT", smCtr(r->st[0]), 16); jOct("ctrC", smCtr(r->st[1]), 16); jEnd();
}
static void smInc(sm_run* r, int peer)
{
	smHead(r, "inc", peer);
	btokSMCtrInc(r->st[peer]);
	jOct("ctr2", smCtr(r->st[peer]), 16); jEnd();
}
static size_t tlLen(size_t vlen) { return 1 + (vlen < 128 ? 1 : vlen < 256 ? 2 : 3); }

/* protect a command with cdf_len = cl, rdf_len = rl */
static void smCmdWrap(sm_run* r, int peer, size_t cl, size_t rl, int cla)
{
	apdu_cmd_t* cmd = (apdu_cmd_t*)xalloc(sizeof(apdu_cmd_t) + cl);
	size_t count = 0, count2 = 0; err_t rc; octet* out = 0;
	memset(cmd, 0, sizeof(apdu_cmd_t));
	cmd->cla = (octet)cla; cmd->ins = (octet)vxRand64(); cmd->p1 = (octet)vxRand64(); cmd->p2 = (octet)vxRand64();
	cmd->cdf_len = cl; cmd->rdf_len = rl; vxRandBuf(cmd->cdf, cl);
	smHead(r, "cmdW", peer); jCmd("cmd", cmd);
	rc = btokSMCmdWrap(0, &count, cmd, r->st[peer]);
	if (rc == ERR_OK)
	{
		out = (octet*)xalloc(count);
		rc = btokSMCmdWrap(out, &count2, cmd, r->st[peer]);
	}
	jStr("rc", errName(rc)); jOct("ctr2", smCtr(r->st[peer]), 16);
	if (rc == ERR_OK)
	{
		size_t ll = out[4] != 0 ? 1 : 3, le = rl == 0 ? 0 : (ll == 1 ? 1 : 2);
		jOct("apdu", out, count2); jInt("count", (long long)count);
		free(r->msg); r->msg = out; r->len = count2; r->kind = 1; r->altered = 0;
		free(r->plain); r->plain = (octet*)xalloc(cl); memcpy(r->plain, cmd->cdf, cl); r->plen = cl; r->prdf = rl;
		r->phdr[0] = cmd->cla; r->phdr[1] = cmd->ins; r->phdr[2] = cmd->p1; r->phdr[3] = cmd->p2;
		r->yl = cl; r->ys = cl ? 4 + ll + tlLen(cl + 1) + 1 : 0;
		r->ts = count2 - le - 8;
	}
	else { jOct("apdu", 0, 0); jInt("count", 0); free(out); }
	jEnd();
	r->rc = rc;
	free(cmd);
}
static void smRespWrap(sm_run* r, int peer, size_t rl)
{
	apdu_resp_t* resp = (apdu_resp_t*)xalloc(sizeof(apdu_resp_t) + rl);
	size_t count = 0, count2 = 0; err_t rc; octet* out = 0;
	memset(resp, 0, sizeof(apdu_resp_t));
	resp->sw1 = (octet)vxRand64(); resp->sw2 = (octet)vxRand64(); resp->rdf_len = rl; vxRandBuf(resp->rdf, rl);
	smHead(r, "respW", peer); jResp("resp", resp);
	rc = btokSMRespWrap(0, &count, resp, r->st[peer]);
	if (rc == ERR_OK)
	{
		out = (octet*)xalloc(count);
		rc = btokSMRespWrap(out, &count2, resp, r->st[peer]);
	}
	jStr("rc", errName(rc)); jOct("ctr2", smCtr(r->st[peer]), 16);
	if (rc == ERR_OK)
	{
		jOct("apdu", out, count2); jInt("count", (long long)count);
		free(r->msg); r->msg = out; r->len = count2; r->kind = 2; r->altered = 0;
		free(r->plain); r->plain = (octet*)xalloc(rl); memcpy(r->plain, resp->rdf, rl); r->plen = rl;
		r->phdr[0] = resp->sw1; r->phdr[1] = resp->sw2;
		r->yl = rl; r->ys = rl ? tlLen(rl + 1) + 1 : 0;
		r->ts = count2 - 10;
	}
	else { jOct("apdu", 0, 0); jInt("count", 0); free(out); }
	jEnd();
	r->rc = rc;
	free(resp);
}
/* unwrap an arbitrary octet string as a command */
static void smCmdUnwrapBuf(sm_run* r, int peer, const octet* msg, size_t len)
{
	size_t size = 0, size2 = 0; err_t rc; apdu_cmd_t* cmd = 0;
	octet* in = (octet*)xalloc(len); memcpy(in, msg, len);
	smHead(r, "cmdU", peer); jOct("apdu", in, len);
	rc = btokSMCmdUnwrap(0, &size, in, len, r->st[peer]);
	jStr("rcf", errName(rc));
	if (rc == ERR_OK)
	{
		cmd = (apdu_cmd_t*)xalloc(size);
		rc = btokSMCmdUnwrap(cmd, &size2, in, len, r->st[peer]);
	}
	jStr("rc", errName(rc)); jOct("ctr2", smCtr(r->st[peer]), 16);
	if (rc == ERR_OK) { jCmd("out", cmd); jBool("sizeok", size == size2 && size == sizeof(apdu_cmd_t) + cmd->cdf_len); }
	jEnd();
	r->rc = rc;
	r->same = rc == ERR_OK && r->kind == 1 && cmd->cdf_len == r->plen && cmd->rdf_len == r->prdf && cmd->cla == r->phdr[0] &&
		cmd->ins == r->phdr[1] && cmd->p1 == r->phdr[2] && cmd->p2 == r->phdr[3] && memcmp(cmd->cdf, r->plain, r->plen) == 0 &&
		size == size2 && size == sizeof(apdu_cmd_t) + cmd->cdf_len;
	free(cmd); free(in);
}
static void smRespUnwrapBuf(sm_run* r, int peer, const octet* msg, size_t len)
{
	size_t size = 0, size2 = 0; err_t rc; apdu_resp_t* resp = 0;
	octet* in = (octet*)xalloc(len); memcpy(in, msg, len);
	smHead(r, "respU", peer); jOct("apdu", in, len);
	rc = btokSMRespUnwrap(0, &size, in, len, r->st[peer]);
	jStr("rcf", errName(rc));
	if (rc == ERR_OK)
	{
		resp = (apdu_resp_t*)xalloc(size);
		rc = btokSMRespUnwrap(resp, &size2, in, len, r->st[peer]);
	}
	jStr("rc", errName(rc)); jOct("ctr2", smCtr(r->st[peer]), 16);
	if (rc == ERR_OK) { jResp("out", resp); jBool("sizeok", size == size2 && size == sizeof(apdu_resp_t) + resp->rdf_len); }
	jEnd();
	r->rc = rc;
	r->same = rc == ERR_OK && r->kind == 2 && resp->rdf_len == r->plen && resp->sw1 == r->phdr[0] && resp->sw2 == r->phdr[1] &&
		memcmp(resp->rdf, r->plain, r->plen) == 0 && size == size2 && size == sizeof(apdu_resp_t) + resp->rdf_len;
	free(resp); free(in);
}
/* alteration of the message in flight: class M (MAC value), B (ciphertext), H (open header octets:
   INS/P1/P2 or SW1/SW2), S (structure: CLA protection bit, Lc, tags, lengths, 0x02, Le*) */
static int smAlter(sm_run* r, int cls, long pos, int mask)
{
	size_t n = r->len;
	if (!r->kind || r->altered) return 0;
	r->altered = 1;
	if (pos < 0)
	{
		if (cls == 'M') pos = (long)(r->ts + vxRandN(8));
		else if (cls == 'B') { if (!r->yl) return 0; pos = (long)(r->ys + vxRandN(r->yl)); }
		else if (cls == 'H') pos = r->kind == 1 ? (long)(1 + vxRandN(3)) : (long)(n - 2 + vxRandN(2));
		else
		{
			/* structural positions */
			long cand[16]; int k = 0;
			if (r->kind == 1)
			{
				size_t ll = r->msg[4] != 0 ? 1 : 3, j;
				cand[k++] = 0;                                   /* CLA: the protection bit (mask forced to 0x04) */
				for (j = 0; j < ll; ++j) cand[k++] = (long)(4 + j);
				cand[k++] = (long)(4 + ll);                      /* first tag */
				cand[k++] = (long)(4 + ll + 1);                  /* its length octet */
				cand[k++] = (long)(r->ts - 2); cand[k++] = (long)(r->ts - 1);   /* 8E 08 */
				if (r->yl) cand[k++] = (long)(r->ys - 1);        /* 0x02 */
				for (j = r->ts + 8; j < n; ++j) cand[k++] = (long)j;   /* Le* */
			}
			else
			{
				cand[k++] = (long)(r->ts - 2); cand[k++] = (long)(r->ts - 1);
				if (r->yl) { cand[k++] = 0; cand[k++] = 1; cand[k++] = (long)(r->ys - 1); }
			}
			pos = cand[vxRandN((size_t)k)];
		}
	}
	if (mask == 0) mask = 1 << vxRandN(8);
	if (cls == 'S' && r->kind == 1 && pos == 0) mask = 0x04;
	r->msg[pos] ^= (octet)mask;
	jBegin(); jStr("e", "Op"); jInt("id", r->id); jInt("i", r->i++); jStr("op", "alter");
	{ char c[2] = {(char)cls, 0}; jStr("cls", c); }
	jStr("kind", r->kind == 1 ? "cmd" : "resp");
	jInt("pos", pos + 1); jInt("mask", mask); jOct("apdu", r->msg, r->len); jEnd();
	return 1;
}

/* deterministic choice of an APDU form with / without data for wrap number w of behaviour id */
static void pickCmdForm(long id, long w, int data, size_t* cl, size_t* rl)
{
	size_t k = (size_t)(id * 7 + w * 3);
	*cl = data ? CMD_CDF[1 + k % (N_CDF - 1)] : 0;
	*rl = CMD_RDF[(k / 4) % N_RDF];
}
static size_t pickRespForm(long id, long w, int data)
{
	size_t k = (size_t)(id * 5 + w * 3);
	return data ? RESP_RDF[1 + k % (N_RESP - 1)] : 0;
}

static char rcLetter(err_t rc)
{
	return rc == ERR_OK ? 'O' : rc == ERR_BAD_APDU ? 'A' : rc == ERR_BAD_LOGIC ? 'L' : rc == ERR_BAD_MAC ? 'M' : '?';
}
/* one behaviour; verbose = every call logged in full, otherwise one compact line with the outcomes:
   per operation  i<parT><parC> | w<rc> | u<rc><y|n><data length of the protected APDU> | a<0|1> */
static void smExec(sm_run* r, long id, char* ops, int verbose)
{
	char* tok; long w = 0; static char res[4096]; size_t k = 0;
	FILE* real = vx_out ? vx_out : stdout; static FILE* nul = 0;
	if (!nul) nul = fopen("/dev/null", "w");
	vx_out = verbose ? real : nul;
	smReset(r, id);
	for (tok = strtok(ops, ","); tok && k + 64 < sizeof res; tok = strtok(0, ","))
	{
		int peer = tok[1] == 'C';
		if (k) res[k++] = ',';
		if (tok[0] == 'i')
		{
			smInc(r, peer);
			k += (size_t)sprintf(res + k, "i%d%d", smCtr(r->st[0])[0] & 1, smCtr(r->st[1])[0] & 1);
		}
		else if (tok[0] == 'w')
		{
			if (!peer) { size_t cl, rl; pickCmdForm(id, w++, tok[2] == '1', &cl, &rl); smCmdWrap(r, 0, cl, rl, 0x00); }
			else smRespWrap(r, 1, pickRespForm(id, w++, tok[2] == '1'));
			k += (size_t)sprintf(res + k, "w%c", rcLetter(r->rc));
		}
		else if (tok[0] == 'u')
		{
			if (peer) smCmdUnwrapBuf(r, 1, r->msg, r->len); else smRespUnwrapBuf(r, 0, r->msg, r->len);
			k += (size_t)sprintf(res + k, "u%c%c%u", rcLetter(r->rc), r->same ? 'y' : 'n', (unsigned)r->plen);
		}
		else if (tok[0] == 'a')
			k += (size_t)sprintf(res + k, "a%d", smAlter(r, tok[1], -1, 0));
	}
	res[k] = 0;
	vx_out = real;
	jBegin(); jStr("e", "Res"); jInt("id", id); jStr("res", res); jEnd();
}

static int smMain(int argc, char** argv)
{
	const char* mode = argv[1];
	sm_run r; memset(&r, 0, sizeof r);
	vxSeed(vxEnvSeed());
	if (strcmp(mode, "sm_replay") == 0)
	{
		static char line[1 << 16]; vx_cmd c;
		while (fgets(line, sizeof line, stdin))
		{
			if (!vxParse(&c, line)) continue;
			smExec(&r, (long)vxInt(&c, "id", 0), (char*)vxArg(&c, "ops"), (int)vxInt(&c, "v", 0));
		}
	}
	else if (strcmp(mode, "sm_forms") == 0)
	{
		size_t a, b; long id = 0;
		for (a = 0; a < N_CDF; ++a) for (b = 0; b < N_RDF; ++b)
		{
			smReset(&r, id++);
			smInc(&r, 0); smInc(&r, 1);
			smCmdWrap(&r, 0, CMD_CDF[a], CMD_RDF[b], (int)((a * 16 + b * 32) & 0xFB));
			smCmdUnwrapBuf(&r, 1, r.msg, r.len);
		}
		for (a = 0; a < N_RESP; ++a)
		{
			smReset(&r, id++);
			smInc(&r, 0); smInc(&r, 1); smInc(&r, 0); smInc(&r, 1);
			smRespWrap(&r, 1, RESP_RDF[a]);
			smRespUnwrapBuf(&r, 0, r.msg, r.len);
		}
		/* refusals at the entry: a command that is already protected, an unprotected code given to Unwrap */
		smReset(&r, id++); smInc(&r, 0); smInc(&r, 1);
		smCmdWrap(&r, 0, 3, 2, 0x04);
		smCmdWrap(&r, 0, 3, 2, 0x00);
		r.msg[0] ^= 0x04; smCmdUnwrapBuf(&r, 1, r.msg, r.len);
	}
	else if (strcmp(mode, "sm_record") == 0)
	{
		long n = argc > 2 ? atol(argv[2]) : 20, m = argc > 3 ? atol(argv[3]) : 12, d, s;
		for (d = 0; d < n; ++d)
		{
			long w = 0;
			smReset(&r, d);
			for (s = 0; s < m; ++s)
			{
				/* biased towards the legal flow inc,inc,wrap,unwrap with alterations, stray calls and desynchronisation */
				static const char* flow[] = {"iT", "iC", "wT", "uC", "iC", "iT", "wC", "uT"};
				static size_t fp = 0;
				size_t x = vxRandN(10);
				const char* t = x < 5 ? flow[fp++ % 8] : x == 5 ? "a" : x == 6 ? "u" : flow[vxRandN(8)];
				int data = (int)vxRandN(3) != 0;
				if (s == 0) fp = 0;
				if (t[0] == 'i') smInc(&r, t[1] == 'C');
				else if (t[0] == 'w' && t[1] == 'T') { size_t cl, rl; pickCmdForm(d, w++, data, &cl, &rl); if (cl > 256) cl = 33; smCmdWrap(&r, 0, cl, rl, 0x00); }
				else if (t[0] == 'w') { size_t rl = pickRespForm(d, w++, data); if (rl > 256) rl = 47; smRespWrap(&r, 1, rl); }
				else if (t[0] == 'u' && r.kind == 1) smCmdUnwrapBuf(&r, 1, r.msg, r.len);
				else if (t[0] == 'u' && r.kind == 2) smRespUnwrapBuf(&r, 0, r.msg, r.len);
				else if (t[0] == 'a' && r.kind && !r.altered) smAlter(&r, "MBHS"[vxRandN(4)], -1, 0);
				else smInc(&r, (int)vxRandN(2));
			}
		}
	}
	else if (strcmp(mode, "sm_alter") == 0)
	{
		/* every position of a protected command and of a protected response, one seeded mask each */
		int thorough = argc > 2 && strcmp(argv[2], "thorough") == 0;
		static const size_t forms[][2] = {{5, 3}, {0, 0}, {0, 300}, {130, 256}, {256, 70000}};
		size_t f, nf = thorough ? 5 : 3, pos; long id = 0;
		for (f = 0; f < nf; ++f)
		{
			size_t rl = forms[f][1] > 65536 ? 65536 : forms[f][1];
			smReset(&r, id++); smInc(&r, 0); smInc(&r, 1);
			smCmdWrap(&r, 0, forms[f][0], rl, 0x80);
			for (pos = 0; pos < r.len; ++pos)
			{
				int mask = 1 << vxRandN(8);
				r.msg[pos] ^= (octet)mask;
				smCmdUnwrapBuf(&r, 1, r.msg, r.len);
				r.msg[pos] ^= (octet)mask;
			}
			smInc(&r, 0); smInc(&r, 1);
			smRespWrap(&r, 1, forms[f][0]);
			for (pos = 0; pos < r.len; ++pos)
			{
				int mask = 1 << vxRandN(8);
				r.msg[pos] ^= (octet)mask;
				smRespUnwrapBuf(&r, 0, r.msg, r.len);
				r.msg[pos] ^= (octet)mask;
			}
		}
	}
	else return 2;
	free(r.st[0]); free(r.st[1]); free(r.msg); free(r.plain);
	fflush(stdout);
	return 0;
}

int cvcMain(int argc, char** argv);
int bpkiMain(int argc, char** argv);
static err_t kpStd(bign_params* p, size_t len);

int main(int argc, char** argv)
{
	if (argc < 2) { fprintf(stderr, "usage: drv_btok <mode> ...\n"); return 2; }
	if (strncmp(argv[1], "sm_", 3) == 0) return smMain(argc, argv);
	if (strncmp(argv[1], "cvc_", 4) == 0) return cvcMain(argc, argv);
	if (strncmp(argv[1], "bpki", 4) == 0) return bpkiMain(argc, argv);
	if (strcmp(argv[1], "curves") == 0)      /* p, a, b of the standard curves (tools/gen_btok_curves.py) */
	{
		static const size_t Ls[] = {24, 32, 48, 64}; size_t i;
		for (i = 0; i < 4; ++i)
		{
			bign_params prm[1]; if (kpStd(prm, Ls[i]) != ERR_OK) return 3;
			jBegin(); jInt("no", (long long)(2 * Ls[i])); jOct("p", prm->p, 2 * Ls[i]); jOct("a", prm->a, 2 * Ls[i]); jOct("b", prm->b, 2 * Ls[i]);
			jOct("q", prm->q, 2 * Ls[i]); jOct("yG", prm->yG, 2 * Ls[i]); jEnd();
		}
		return 0;
	}
	fprintf(stderr, "unknown mode %s\n", argv[1]);
	return 2;
}

/* =========================================================================== CV certificates */
#include <bee2/crypto/bash.h>

typedef struct { size_t len; octet priv[64]; octet pub[128]; bign_params params[1]; } kp_t;
static void genFn(void* buf, size_t count, void* st) { (void)st; vxRandBuf(buf, count); }
static err_t kpStd(bign_params* p, size_t len)
{
	return len == 24 ? bign96ParamsStd(p, "1.2.112.0.2.0.34.101.45.3.0") :
		bignParamsStd(p, len == 32 ? "1.2.112.0.2.0.34.101.45.3.1" : len == 48 ? "1.2.112.0.2.0.34.101.45.3.2" : "1.2.112.0.2.0.34.101.45.3.3");
}
static void kpGen(kp_t* k, size_t len)
{
	err_t rc;
	memset(k, 0, sizeof *k); k->len = len;
	rc = kpStd(k->params, len);
	if (rc == ERR_OK) rc = len == 24 ? bign96KeypairGen(k->priv, k->pub, k->params, genFn, 0) : bignKeypairGen(k->priv, k->pub, k->params, genFn, 0);
	if (rc != ERR_OK) { fprintf(stderr, "driver: key generation failed (%s)\n", errName(rc)); exit(3); }
}
static err_t pubVal(const kp_t* k, const octet* pub) { return k->len == 24 ? bign96PubkeyVal(k->params, pub) : bignPubkeyVal(k->params, pub); }

/* the attacker's signing tool: signature of body under key k as a CV certificate carries it
   (belt-hash for l = 96, 128; bash384 / bash512 for l = 192, 256; deterministic bign signature) */
static size_t forgeSig(octet sig[96], const octet* body, size_t n, const kp_t* k)
{
	octet hash[64], oid[16]; size_t oid_len = sizeof oid; err_t rc;
	if (k->len <= 32)
	{
		octet h[32]; beltHash(h, body, n); memcpy(hash, h, k->len);
		rc = bignOidToDER(oid, &oid_len, "1.2.112.0.2.0.34.101.31.81");
	}
	else
	{
		bashHash(hash, k->len * 4, body, n);
		rc = bignOidToDER(oid, &oid_len, k->len == 48 ? "1.2.112.0.2.0.34.101.77.12" : "1.2.112.0.2.0.34.101.77.13");
	}
	if (rc == ERR_OK)
		rc = k->len == 24 ? bign96Sign2(sig, k->params, oid, oid_len, hash, k->priv, 0, 0) : bignSign2(sig, k->params, oid, oid_len, hash, k->priv, 0, 0);
	if (rc != ERR_OK) { fprintf(stderr, "driver: forging tool failed (%s)\n", errName(rc)); exit(3); }
	return k->len == 24 ? 34 : k->len + k->len / 2;
}
/* TLV reading for the forging tool (tags of 1 or 2 octets, definite lengths up to 2 length octets) */
static int tlvRead(const octet* p, size_t n, size_t* hl, size_t* vl)
{
	size_t t = (p[0] & 0x1F) == 0x1F ? 2 : 1, l;
	if (n < t + 1) return 0;
	if (p[t] < 0x80) { l = p[t]; *hl = t + 1; }
	else if (p[t] == 0x81) { if (n < t + 2) return 0; l = p[t + 1]; *hl = t + 2; }
	else if (p[t] == 0x82) { if (n < t + 3) return 0; l = p[t + 1] * 256u + p[t + 2]; *hl = t + 3; }
	else return 0;
	*vl = l;
	return *hl + l <= n;
}
static size_t derLenEnc(octet* out, size_t l)
{
	if (l < 128) { out[0] = (octet)l; return 1; }
	if (l < 256) { out[0] = 0x81; out[1] = (octet)l; return 2; }
	out[0] = 0x82; out[1] = (octet)(l >> 8); out[2] = (octet)l; return 3;
}
/* offsets (inside cert) of the body and of the values of authority, pubkey, holder, from, until */
typedef struct { size_t body, body_len, auth, auth_len, pk, pk_len, hold, hold_len, from, until; } cvc_map;
static int cvcMap(cvc_map* m, const octet* cert, size_t n)
{
	size_t hl, vl, off, end;
	memset(m, 0, sizeof *m);
	if (n < 4 || cert[0] != 0x7F || cert[1] != 0x21 || !tlvRead(cert, n, &hl, &vl)) return 0;
	m->body = hl;
	if (cert[hl] != 0x7F || cert[hl + 1] != 0x4E || !tlvRead(cert + hl, n - hl, &off, &vl)) return 0;
	m->body_len = off + vl; end = hl + off + vl; off += hl;
	while (off < end)
	{
		size_t h2, v2;
		if (!tlvRead(cert + off, end - off, &h2, &v2)) return 0;
		if (cert[off] == 0x42) m->auth = off + h2, m->auth_len = v2;
		else if (cert[off] == 0x5F && cert[off + 1] == 0x20) m->hold = off + h2, m->hold_len = v2;
		else if (cert[off] == 0x5F && cert[off + 1] == 0x25) m->from = off + h2;
		else if (cert[off] == 0x5F && cert[off + 1] == 0x24) m->until = off + h2;
		else if (cert[off] == 0x7F && cert[off + 1] == 0x49)
		{
			size_t o2 = off + h2, h3, v3;
			if (!tlvRead(cert + o2, end - o2, &h3, &v3)) return 0;      /* OID */
			o2 += h3 + v3;
			if (!tlvRead(cert + o2, end - o2, &h3, &v3)) return 0;      /* BIT STRING */
			m->pk = o2 + h3 + 1; m->pk_len = v3 - 1;
		}
		off += h2 + v2;
	}
	return m->auth && m->hold && m->from && m->until && m->pk;
}

typedef struct
{
	size_t L; octet a[16], h[16]; size_t al, hl; octet f[6], u[6], e[5], s[2];
	int pk; char sg;
	kp_t key;             /* the key pair of this level */
	btok_cvc_t c[1];      /* the content as submitted */
	octet* cert; size_t cert_len;   /* the certificate (issued or forged), 0 if none */
	int have;
} cvc_lvl;

static void callRes(long id, const char* fn, int lvl, err_t rc, int same)
{
	jBegin(); jStr("e", "Call"); jInt("id", id); jStr("fn", fn); jInt("lvl", lvl); jStr("rc", errName(rc));
	if (same >= 0) jBool("same", same);
	jEnd();
}
/* btok.h describes authority / holder as STRINGS of 8..12 characters: the octets behind the terminating zero are arbitrary
   (an object that held a longer name before) */
static void setName(char dst[13], const octet* src, size_t n) { size_t m = n < 12 ? n : 12; memset(dst, 0xC3, 13); memcpy(dst, src, m); dst[m] = 0; }
static int sameContent(const btok_cvc_t* x, const btok_cvc_t* y)
{
	return strcmp(x->authority, y->authority) == 0 && strcmp(x->holder, y->holder) == 0 && x->pubkey_len == y->pubkey_len &&
		memcmp(x->pubkey, y->pubkey, x->pubkey_len) == 0 && memcmp(x->from, y->from, 6) == 0 && memcmp(x->until, y->until, 6) == 0 &&
		memcmp(x->hat_eid, y->hat_eid, 5) == 0 && memcmp(x->hat_esign, y->hat_esign, 2) == 0;
}
/* certificate over the content lv->c signed by k, whatever the content is worth (same-length patching of a valid
   certificate, then re-signing); 0 if the content cannot be carried by a well-formed certificate */
static int forgeCert(cvc_lvl* lv, const kp_t* k)
{
	btok_cvc_t ph[1]; size_t n = 0, i, sl, bl; octet* tmp; octet sig[96]; cvc_map m; octet lenb[4], lens[4]; size_t ll, ls; octet* out;
	if (lv->al < 8 || lv->al > 12 || lv->hl < 8 || lv->hl > 12 || lv->pk == 2) return 0;
	memcpy(ph, lv->c, sizeof ph);
	for (i = 0; i < lv->al; ++i) ph->authority[i] = 'A';
	for (i = 0; i < lv->hl; ++i) ph->holder[i] = 'B';
	memcpy(ph->from, "\x02\x00\x00\x01\x00\x01", 6); memcpy(ph->until, "\x03\x09\x01\x02\x03\x01", 6);
	memcpy(ph->pubkey, lv->key.pub, 2 * lv->L); ph->pubkey_len = 2 * lv->L;
	if (btokCVCWrap(0, &n, ph, k->priv, k->len) != ERR_OK) return 0;
	tmp = (octet*)xalloc(n);
	if (btokCVCWrap(tmp, &n, ph, k->priv, k->len) != ERR_OK || !cvcMap(&m, tmp, n) || m.auth_len != lv->al || m.hold_len != lv->hl || m.pk_len != 2 * lv->L)
	{ free(tmp); return 0; }
	memcpy(tmp + m.auth, lv->a, lv->al); memcpy(tmp + m.hold, lv->h, lv->hl);
	memcpy(tmp + m.from, lv->f, 6); memcpy(tmp + m.until, lv->u, 6);
	memcpy(tmp + m.pk, lv->c->pubkey, 2 * lv->L);
	bl = m.body_len;
	sl = forgeSig(sig, tmp + m.body, bl, k);
	ls = derLenEnc(lens, sl); ll = derLenEnc(lenb, bl + 2 + ls + sl);
	free(lv->cert); lv->cert_len = 2 + ll + bl + 2 + ls + sl; lv->cert = out = (octet*)xalloc(lv->cert_len);
	out[0] = 0x7F; out[1] = 0x21; memcpy(out + 2, lenb, ll); memcpy(out + 2 + ll, tmp + m.body, bl);
	out[2 + ll + bl] = 0x5F; out[3 + ll + bl] = 0x37; memcpy(out + 4 + ll + bl, lens, ls); memcpy(out + 4 + ll + bl + ls, sig, sl);
	free(tmp);
	return 1;
}

static void cvcCase(vx_cmd* c)
{
	long id = (long)vxInt(c, "id", 0); int n = (int)vxInt(c, "n", 1), i;
	static cvc_lvl lv[3]; kp_t wrong, other; size_t dl = 0; octet* date = vxHex(c, "date", &dl);
	char k[8];
	for (i = 0; i < n; ++i)
	{
		cvc_lvl* v = lv + i; size_t t; octet* x;
		free(v->cert); memset(v, 0, sizeof *v);
#define ARG(nm) (sprintf(k, nm "%d", i), k)
		v->L = (size_t)vxInt(c, ARG("L"), 32);
		x = vxHex(c, ARG("a"), &v->al); memcpy(v->a, x, v->al > 16 ? 16 : v->al); free(x);
		x = vxHex(c, ARG("h"), &v->hl); memcpy(v->h, x, v->hl > 16 ? 16 : v->hl); free(x);
		x = vxHex(c, ARG("f"), &t); memcpy(v->f, x, 6); free(x);
		x = vxHex(c, ARG("u"), &t); memcpy(v->u, x, 6); free(x);
		x = vxHex(c, ARG("e"), &t); memcpy(v->e, x, 5); free(x);
		x = vxHex(c, ARG("s"), &t); memcpy(v->s, x, 2); free(x);
		v->pk = (int)vxInt(c, ARG("pk"), 0);
		v->sg = vxArg(c, ARG("sg")) ? vxArg(c, ARG("sg"))[0] : 'p';
		kpGen(&v->key, v->L);
		setName(v->c->authority, v->a, v->al); setName(v->c->holder, v->h, v->hl);
		memcpy(v->c->from, v->f, 6); memcpy(v->c->until, v->u, 6); memcpy(v->c->hat_eid, v->e, 5); memcpy(v->c->hat_esign, v->s, 2);
		memcpy(v->c->pubkey, v->key.pub, 2 * v->L); v->c->pubkey_len = 2 * v->L;
		if (v->pk == 1)        /* off the curve */
			do v->c->pubkey[vxRandN(2 * v->L)] ^= (octet)(1 << vxRandN(8)); while (pubVal(&v->key, v->c->pubkey) == ERR_OK);
		else if (v->pk == 2) v->c->pubkey_len = 50;
	}
	for (i = 0; i < n; ++i)
	{
		cvc_lvl* v = lv + i; cvc_lvl* is = i ? lv + i - 1 : v;     /* issuer level (the root signs itself) */
		const kp_t* sk = &is->key; err_t rc; size_t len = 0; btok_cvc_t got[1]; int leaf = i == n - 1;
		if (v->sg == 'w') { kpGen(&wrong, is->L); sk = &wrong; }
		else if (v->sg == 'o') { kpGen(&other, is->L == 32 ? 48 : 32); sk = &other; }
		callRes(id, "Check", i, btokCVCCheck(v->c), -1);
		if (i) callRes(id, "Check2", i, btokCVCCheck2(v->c, is->c), -1);
		/* issue */
		{
			btok_cvc_t w[1]; memcpy(w, v->c, sizeof w);
			if (i == 0)
			{
				if (v->pk == 0 && v->sg == 'p') w->pubkey_len = 0;          /* the public key is derived from the private one */
				rc = btokCVCWrap(0, &len, w, sk->priv, sk->len);
				if (rc == ERR_OK) { v->cert = (octet*)xalloc(len); memcpy(w, v->c, sizeof w); if (v->pk == 0 && v->sg == 'p') w->pubkey_len = 0; rc = btokCVCWrap(v->cert, &v->cert_len, w, sk->priv, sk->len); }
				callRes(id, "Wrap", i, rc, rc == ERR_OK ? (v->cert_len == len && sameContent(w, v->c)) : -1);
			}
			else if (is->cert)
			{
				rc = btokCVCIss(0, &len, w, is->cert, is->cert_len, sk->priv, sk->len);
				if (rc == ERR_OK) { v->cert = (octet*)xalloc(len); memcpy(w, v->c, sizeof w); rc = btokCVCIss(v->cert, &v->cert_len, w, is->cert, is->cert_len, sk->priv, sk->len); }
				callRes(id, "Iss", i, rc, rc == ERR_OK ? v->cert_len == len : -1);
			}
			else rc = ERR_BAD_INPUT;
			if (rc != ERR_OK) { free(v->cert); v->cert = 0; v->cert_len = 0; if (!forgeCert(v, sk)) continue; }
		}
		rc = btokCVCUnwrap(got, v->cert, v->cert_len, 0, 0);
		callRes(id, "Unwrap0", i, rc, rc == ERR_OK ? sameContent(got, v->c) && got->sig_len != 0 : -1);
		rc = btokCVCUnwrap(got, v->cert, v->cert_len, is->c->pubkey, is->c->pubkey_len);
		callRes(id, "UnwrapK", i, rc, rc == ERR_OK ? sameContent(got, v->c) : -1);
		if (i && is->cert)
			callRes(id, "Val", i, btokCVCVal(v->cert, v->cert_len, is->cert, is->cert_len, leaf && date ? date : 0), -1);
		if (i)
		{
			rc = btokCVCVal2(got, v->cert, v->cert_len, is->c, leaf && date ? date : 0);
			callRes(id, "Val2", i, rc, rc == ERR_OK ? sameContent(got, v->c) : -1);
		}
		callRes(id, "Match", i, btokCVCMatch(v->cert, v->cert_len, v->key.priv, v->L), -1);
		kpGen(&wrong, v->L);
		callRes(id, "MatchX", i, btokCVCMatch(v->cert, v->cert_len, wrong.priv, v->L), -1);
		{ size_t cl = btokCVCLen(v->cert, v->cert_len); callRes(id, "Len", i, cl == v->cert_len ? ERR_OK : ERR_BAD_FORMAT, -1); }
	}
	free(date);
}

int cvcMain(int argc, char** argv)
{
	const char* mode = argv[1];
	vxSeed(vxEnvSeed());
	if (strcmp(mode, "cvc_replay") == 0)
	{
		static char line[1 << 16]; vx_cmd c;
		while (fgets(line, sizeof line, stdin))
			if (vxParse(&c, line)) cvcCase(&c);
	}
	else if (strcmp(mode, "cvc_alter") == 0)
	{
		/* every single-octet alteration of a signed certificate (issued by a root of the same key length):
		   Unwrap without a key, Unwrap / Val / Val2 with the issuer's key */
		int thorough = argc > 2 && strcmp(argv[2], "thorough") == 0;
		int small = argc > 2 && strcmp(argv[2], "small") == 0;       /* the suite version: one key length */
		static const size_t Ls[] = {32, 24, 48, 64}; size_t li, pos; int rep, reps = thorough ? 3 : 1;
		for (li = 0; li < (small ? 1u : 4u); ++li) for (rep = 0; rep < reps; ++rep)
		{
			kp_t root, leaf; btok_cvc_t c0[1], c1[1], got[1]; octet* cert0; octet* cert1; size_t n0 = 0, n1 = 0;
			kpGen(&root, Ls[li]); kpGen(&leaf, Ls[(li + (size_t)rep) % 4]);
			memset(c0, 0, sizeof c0); memset(c1, 0, sizeof c1);
			memset(c0->authority, 0x5C, sizeof(c0->authority)); memset(c0->holder, 0x6D, sizeof(c0->holder));
			memset(c1->authority, 0x7E, sizeof(c1->authority)); memset(c1->holder, 0x4B, sizeof(c1->holder));
			strcpy(c0->authority, "BYCA0000"); strcpy(c0->holder, "BYCA0000");
			memcpy(c0->from, "\x02\x00\x00\x01\x00\x01", 6); memcpy(c0->until, "\x03\x09\x01\x02\x03\x01", 6);
			strcpy(c1->authority, "BYCA0000"); strcpy(c1->holder, rep == 1 ? "590082394654" : "BYCA1000");
			memcpy(c1->from, "\x02\x01\x00\x06\x00\x01", 6); memcpy(c1->until, "\x03\x00\x01\x02\x03\x01", 6);
			if (rep != 2) { memset(c1->hat_eid, 0xDD, 5); memset(c1->hat_esign, 0x33, 2); }
			memcpy(c1->pubkey, leaf.pub, 2 * leaf.len); c1->pubkey_len = 2 * leaf.len;
			if (btokCVCWrap(0, &n0, c0, root.priv, root.len) != ERR_OK) return 3;
			cert0 = (octet*)xalloc(n0); c0->pubkey_len = 0; btokCVCWrap(cert0, &n0, c0, root.priv, root.len);
			if (btokCVCIss(0, &n1, c1, cert0, n0, root.priv, root.len) != ERR_OK) return 3;
			cert1 = (octet*)xalloc(n1); btokCVCIss(cert1, &n1, c1, cert0, n0, root.priv, root.len);
			for (pos = 0; pos <= n1; ++pos)      /* pos = n1: the unaltered certificate */
			{
				int mask = small ? 1 : 1 << vxRandN(8); err_t r0, rk, rv, rv2; octet* x = (octet*)xalloc(n1);
				memcpy(x, cert1, n1); if (pos < n1) x[pos] ^= (octet)mask; else mask = 0;
				r0 = btokCVCUnwrap(got, x, n1, 0, 0);
				jBegin(); jStr("e", "Op"); jStr("op", "cvcAlt"); jInt("L", (long long)root.len); jInt("pos", (long long)pos + 1); jInt("mask", mask);
				jOct("cert", x, n1); jOct("orig", cert1, n1); jStr("rc0", errName(r0));
				if (r0 == ERR_OK)
				{
					jSep(); fprintf(vx_out, "\"got\":{"); vx_first = 1;
					jOct("authority", got->authority, strlen(got->authority)); jOct("holder", got->holder, strlen(got->holder));
					jOct("pubkey", got->pubkey, got->pubkey_len); jOct("from", got->from, 6); jOct("until", got->until, 6);
					jOct("hat_eid", got->hat_eid, 5); jOct("hat_esign", got->hat_esign, 2);
					fputc('}', vx_out); vx_first = 0;
					jOct("sig", got->sig, got->sig_len);
				}
				rk = btokCVCUnwrap(got, x, n1, c0->pubkey, c0->pubkey_len);
				rv = btokCVCVal(x, n1, cert0, n0, 0);
				rv2 = btokCVCVal2(0, x, n1, c0, 0);
				jStr("rck", errName(rk)); jStr("rcv", errName(rv)); jStr("rcv2", errName(rv2)); jEnd();
				free(x);
			}
			/* the self-signed root, read in the documented self-check mode (btok.h: pubkey == cvc->pubkey, pubkey_len == 0:
			   the signature is verified on the public key of the certificate itself) */
			for (pos = 0; pos <= n0; ++pos)
			{
				int mask = small ? 1 : 1 << vxRandN(8); err_t rs; octet* x = (octet*)xalloc(n0);
				memcpy(x, cert0, n0); if (pos < n0) x[pos] ^= (octet)mask; else mask = 0;
				memset(got, 0xA5, sizeof(*got));
				rs = btokCVCUnwrap(got, x, n0, got->pubkey, 0);
				jBegin(); jStr("e", "Op"); jStr("op", "cvcAltSelf"); jInt("L", (long long)root.len); jInt("pos", (long long)pos + 1); jInt("mask", mask);
				jOct("cert", x, n0); jOct("orig", cert0, n0); jStr("rcs", errName(rs)); jEnd();
				free(x);
			}
			free(cert0); free(cert1);
		}
	}
	else return 2;
	fflush(stdout);
	return 0;
}

/* =========================================================================== bpki containers */
static const octet* g_bpki_orig = 0; static size_t g_bpki_orig_len = 0;
static void bpkiLine(const char* op, const char* kind, const octet* key, size_t klen, const octet* pwd, size_t plen,
	const octet* salt, size_t iter, const octet* epki, size_t elen, err_t rc, const octet* out, size_t olen, const char* cls, long pos, int mask, int full)
{
	octet dk[32];
	jBegin(); jStr("e", "Op"); jStr("op", op); jStr("kind", kind); jStr("cls", cls);
	jOct("key", key, klen); jOct("pwd", pwd, plen); jOct("salt", salt, 8); jInt("iter", (long long)iter);
	/* the PBKDF2 key of the presented password under (salt, iter), by the library's own beltPBKDF2 (tied to its
	   definition by C01); lines with full = true are recomputed from the password by TLC */
	if (iter >= 1 && iter <= 100000 && beltPBKDF2(dk, pwd, plen, iter, salt, 8) == ERR_OK) jOct("dk", dk, 32); else jOct("dk", 0, 0);
	jBool("full", full); jInt("pos", pos); jInt("mask", mask);
	jOct("epki", epki, elen);
	if (strcmp(cls, "altered") == 0) jOct("orig", g_bpki_orig, g_bpki_orig_len);      /* the container as it was produced */
	jStr("rc", errName(rc)); jOct("out", out, olen); jEnd();
}
typedef err_t (*wrap_f)(octet*, size_t*, const octet*, size_t, const octet*, size_t, const octet*, size_t);
typedef err_t (*unwrap_f)(octet*, size_t*, const octet*, size_t, const octet*, size_t);

int bpkiMain(int argc, char** argv)
{
	int thorough = argc > 2 && strcmp(argv[2], "thorough") == 0;
	int small = argc > 2 && strcmp(argv[2], "small") == 0;           /* the suite version: no alteration sweep */
	static const size_t klens[2][4] = {{32, 24, 48, 64}, {17, 25, 33, 0}};
	/* the minimum iteration count 10000 (its code 02 02 27 10 can only be LOWERED by most alterations) and counts above */
	static const size_t iters[2][4] = {{10000, 10000, 10001, 10000}, {10000, 10001, 12345, 0}};
	long shard = argc > 3 ? atol(argv[3]) : -1, cont = -1;      /* shard = index of the container to do (all if absent) */
	int k; size_t li, nfull = 0;
	vxSeed(vxEnvSeed());
	for (k = 0; k < 2; ++k) for (li = 0; li < (small ? 1u : 4u) && klens[k][li]; ++li)
	{
		const char* kind = k ? "share" : "priv"; wrap_f W = k ? bpkiShareWrap : bpkiPrivkeyWrap; unwrap_f U = k ? bpkiShareUnwrap : bpkiPrivkeyUnwrap;
		size_t kl = klens[k][li], plen = 1 + vxRandN(12), iter = iters[k][li], elen = 0, olen = 0, pos, e2 = 0;
		octet key[64], pwd[16], pwd2[16], salt[8], out[64]; octet* epki; err_t rc; int full;
		vxRandBuf(key, kl); if (k) key[0] = (octet)(1 + vxRandN(16));
		vxRandBuf(pwd, plen); vxRandBuf(salt, 8);
		if (++cont, shard >= 0 && cont != shard) continue;
		full = thorough && iter == 10000 && nfull < 2 ? (++nfull, 1) : 0;
		rc = W(0, &elen, key, kl, pwd, plen, salt, iter);
		if (rc != ERR_OK) { bpkiLine("bpkiW", kind, key, kl, pwd, plen, salt, iter, 0, 0, rc, 0, 0, "len", 0, 0, 0); continue; }
		epki = (octet*)xalloc(elen);
		rc = W(epki, &e2, key, kl, pwd, plen, salt, iter);
		bpkiLine("bpkiW", kind, key, kl, pwd, plen, salt, iter, epki, rc == ERR_OK ? e2 : 0, rc, 0, 0, "wrap", 0, 0, full);
		if (rc != ERR_OK || e2 != elen) { free(epki); continue; }
		/* the right password */
		memset(out, 0, sizeof out); olen = 0;
		rc = U(0, &olen, epki, elen, pwd, plen);
		if (rc == ERR_OK && olen <= sizeof out) rc = U(out, &olen, epki, elen, pwd, plen);
		bpkiLine("bpkiU", kind, key, kl, pwd, plen, salt, iter, epki, elen, rc, out, rc == ERR_OK ? olen : 0, "right", 0, 0, 0);
		/* wrong passwords: one bit flipped, one octet shorter, one octet longer, empty */
		for (pos = 0; pos < 4; ++pos)
		{
			size_t p2 = plen;
			memcpy(pwd2, pwd, plen);
			if (pos == 0) pwd2[vxRandN(plen)] ^= (octet)(1 << vxRandN(8));
			else if (pos == 1) p2 = plen - 1;
			else if (pos == 2) pwd2[p2++] = 0;
			else p2 = 0;
			memset(out, 0, sizeof out); olen = 0;
			rc = U(out, &olen, epki, elen, pwd2, p2);
			bpkiLine("bpkiU", kind, key, kl, pwd2, p2, salt, iter, epki, elen, rc, out, rc == ERR_OK ? olen : 0, "wrongpwd", 0, 0, 0);
		}
		/* every single-octet alteration of the container, several ways per position: xor 0x01, 0x20, 0x80, set to 0x00,
		   set to 0xFF (and a seeded mask in the thorough tier); an alteration that leaves the octet as it was is skipped */
		g_bpki_orig = epki; g_bpki_orig_len = elen;
		if (!small)
			for (pos = 0; pos < elen; ++pos)
			{
				int way, ways = thorough ? 6 : 5;
				for (way = 0; way < ways; ++way)
				{
					octet nv = way == 0 ? epki[pos] ^ 0x01 : way == 1 ? epki[pos] ^ 0x20 : way == 2 ? epki[pos] ^ 0x80 :
						way == 3 ? 0x00 : way == 4 ? 0xFF : (octet)(epki[pos] ^ (1 << vxRandN(8)));
					octet* x;
					if (nv == epki[pos] || (way >= 3 && (nv == (epki[pos] ^ 0x01) || nv == (epki[pos] ^ 0x20) || nv == (epki[pos] ^ 0x80)))) continue;
					x = (octet*)xalloc(elen);
					memcpy(x, epki, elen); x[pos] = nv;
					memset(out, 0, sizeof out); olen = 0;
					rc = U(out, &olen, x, elen, pwd, plen);
					bpkiLine("bpkiU", kind, key, kl, pwd, plen, salt, 0, x, elen, rc, out, rc == ERR_OK ? olen : 0, "altered", (long)pos + 1, nv ^ epki[pos], 0);
					free(x);
				}
			}
		/* truncated / extended container */
		rc = U(out, &olen, epki, elen - 1, pwd, plen);
		bpkiLine("bpkiU", kind, key, kl, pwd, plen, salt, 0, epki, elen - 1, rc, out, 0, "altered", 0, 0, 0);
		free(epki);
	}
	/* refusals at the entry: iteration count below 10000, key lengths outside the lists */
	if (shard <= 0)
	{
		octet key[64], pwd[4] = {1, 2, 3, 4}, salt[8] = {0}; size_t elen = 0; err_t rc;
		vxRandBuf(key, 64); key[0] = 3;
		rc = bpkiPrivkeyWrap(0, &elen, key, 32, pwd, 4, salt, 9999);
		bpkiLine("bpkiW", "priv", key, 32, pwd, 4, salt, 9999, 0, 0, rc, 0, 0, "iter", 0, 0, 0);
		rc = bpkiShareWrap(0, &elen, key, 17, pwd, 4, salt, 9999);
		bpkiLine("bpkiW", "share", key, 17, pwd, 4, salt, 9999, 0, 0, rc, 0, 0, "iter", 0, 0, 0);
		rc = bpkiPrivkeyWrap(0, &elen, key, 33, pwd, 4, salt, 10000);
		bpkiLine("bpkiW", "priv", key, 33, pwd, 4, salt, 10000, 0, 0, rc, 0, 0, "len", 0, 0, 0);
		rc = bpkiShareWrap(0, &elen, key, 32, pwd, 4, salt, 10000);
		bpkiLine("bpkiW", "share", key, 32, pwd, 4, salt, 10000, 0, 0, rc, 0, 0, "len", 0, 0, 0);
		key[0] = 17;
		rc = bpkiShareWrap(0, &elen, key, 17, pwd, 4, salt, 10000);
		bpkiLine("bpkiW", "share", key, 17, pwd, 4, salt, 10000, 0, 0, rc, 0, 0, "len", 0, 0, 0);
	}
	fflush(stdout);
	return 0;
}
