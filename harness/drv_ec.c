/* C06: driver of the elliptic-curve layer (src/math/ec.c, ecp.c).
   usage: drv_ec exec                 commands on stdin (curves and point lists computed by TLC: spec/gen/Gen_ECSmall.tla);
                                      one ndjson row per (operation, aliasing, representation, first operand): results as
                                      indices into the curve's point list (0 = O, -2 = not a listed point, -9 = not applicable)
          drv_ec record <quick|thorough>   self-contained lines (curve, operands, results as 16-bit limbs) judged by
                                      spec/trace/Trace_EC.tla: small curves, multi-word subgroup curves, bign curves
   Every field / curve description and every stack is malloc'ed at exactly its documented _keep() / _deep() size,
   every point buffer at exactly its documented number of words.  Deterministic given VERIF_SEED: the seed selects
   the Z coordinates of projective representations and seeded scalars, never the structure. */
#include "vx.h"
#include <stdarg.h>
#include <bee2/core/mem.h>
#include <bee2/core/util.h>
#include <bee2/core/obj.h>
#include <bee2/core/hex.h>
#include <bee2/math/ww.h>
#include <bee2/math/zz.h>
#include <bee2/math/gfp.h>
#include <bee2/math/ecp.h>
#include <bee2/crypto/bign.h>
#include <bee2/crypto/bign96.h>
#include <bee2/crypto/g12s.h>

/* ------------------------------------------------------------------ exact-size memory */
/* Fresh memory is filled with VERIF_FILL (default 0).  NOTE: the J functions signal O by zeroing Z only and leave
   X, Y as they were; the debug build's ASSERT(ecpSeemsOn3(..)) of the NEXT function then reads whatever the buffer
   (or ecMulA's / ecAddMulA's stack) held before.  With a fill >= p (VERIF_FILL=255) the assert-enabled builds abort
   on admissible inputs (points of order 2, ecAddMulA's initial O); this is reported, not hidden: see checks/C06.py. */
static int FILL = 0;
static void* xalloc(size_t size)
{
	void* p = malloc(size ? size : 1);
	if (!p) { fprintf(stderr, "out of memory\n"); exit(3); }
	memset(p, FILL, size);
	return p;
}
#define WALLOC(nw) ((word*)xalloc((nw) * sizeof(word)))
/* stacks: one exact-size block per distinct depth */
static size_t SLACK = 0;        /* VERIF_STACK_SLACK: extra octets per stack; 0 = exactly the documented depth */
static struct { size_t size; void* p; } STK[512];
static int NSTK;
static void* stk(size_t size)
{
	int i;
	for (i = 0; i < NSTK; ++i) if (STK[i].size == size) return STK[i].p;
	if (NSTK == 512) { fprintf(stderr, "too many stack sizes\n"); exit(3); }
	STK[NSTK].size = size; STK[NSTK].p = xalloc(size + SLACK);
	return STK[NSTK++].p;
}

/* ------------------------------------------------------------------ curves */
typedef struct
{
	char name[48];
	size_t no, n;
	qr_o* f; ec_o* ec;
	size_t npts;            /* affine points in the list */
	octet* oct;             /* npts * 2 * no octets */
	word* aff;              /* npts * 2n words (internal representation) */
	octet ord[80]; size_t ord_len;      /* order of the listed group, little-endian */
	long long iord;         /* the same as an integer (it is small) */
	int* ht; size_t hmask;  /* hash: octets -> index */
	struct { size_t mo; octet d[64]; } mult[8]; int nmult;
} curve_t;

static unsigned long long hash_oct(const octet* p, size_t n)
{
	unsigned long long h = 1469598103934665603ull;
	while (n--) h = (h ^ *p++) * 1099511628211ull;
	return h ^ (h >> 29);
}
static void curve_free(curve_t* c)
{
	free(c->f); free(c->ec); free(c->oct); free(c->aff); free(c->ht);
	memset(c, 0, sizeof(*c));
}
/* field and curve from little-endian octet strings of length no */
static int curve_create(curve_t* c, const char* name, size_t no, const octet* p, const octet* a, const octet* b)
{
	memset(c, 0, sizeof(*c));
	snprintf(c->name, sizeof(c->name), "%s", name);
	c->no = no; c->n = W_OF_O(no);
	c->f = (qr_o*)xalloc(gfpCreate_keep(no));
	if (!gfpCreate(c->f, p, no, stk(gfpCreate_deep(no)))) return 0;
	c->ec = (ec_o*)xalloc(ecpCreateJ_keep(c->n));
	if (!ecpCreateJ(c->ec, c->f, a, b, stk(ecpCreateJ_deep(c->n, c->f->deep)))) return 0;
	return 1;
}
static int curve_points(curve_t* c, const octet* pts, size_t npts)
{
	size_t i, n = c->n, no = c->no, hs = 16;
	c->npts = npts;
	c->oct = (octet*)xalloc(npts * 2 * no);
	memcpy(c->oct, pts, npts * 2 * no);
	c->aff = WALLOC(npts * 2 * n);
	while (hs < 4 * npts + 4) hs *= 2;
	c->hmask = hs - 1;
	c->ht = (int*)xalloc(hs * sizeof(int));
	for (i = 0; i < hs; ++i) c->ht[i] = -1;
	for (i = 0; i < npts; ++i)
	{
		size_t h;
		if (!qrFrom(c->aff + 2 * n * i, pts + 2 * no * i, c->f, stk(c->f->deep)) ||
			!qrFrom(c->aff + 2 * n * i + n, pts + 2 * no * i + no, c->f, stk(c->f->deep)))
			return 0;
		h = hash_oct(pts + 2 * no * i, 2 * no) & c->hmask;
		while (c->ht[h] >= 0) h = (h + 1) & c->hmask;
		c->ht[h] = (int)i;
	}
	return 1;
}
/* index of an affine point given in internal representation (1..npts), -2 if it is not listed */
static int lookup(const curve_t* c, const word* a)
{
	octet o[2 * 80]; size_t h;
	qrTo(o, a, c->f, stk(c->f->deep));
	qrTo(o + c->no, a + c->n, c->f, stk(c->f->deep));
	h = hash_oct(o, 2 * c->no) & c->hmask;
	while (c->ht[h] >= 0)
	{
		if (memcmp(c->oct + 2 * c->no * c->ht[h], o, 2 * c->no) == 0) return c->ht[h] + 1;
		h = (h + 1) & c->hmask;
	}
	return -2;
}
#define AFF(c, idx) ((c)->aff + 2 * (c)->n * ((idx) - 1))
static void* ecstk(const curve_t* c) { return stk(c->ec->deep); }

/* a seeded field element (internal representation), optionally non-zero */
static void rnd_f(word* t, const curve_t* c, int nonzero)
{
	octet o[80]; size_t bits = wwBitSize(c->f->mod, c->n);
	for (;;)
	{
		vxRandBuf(o, c->no);
		if (bits % 8) o[c->no - 1] &= (octet)((1u << (bits % 8)) - 1);
		if (!qrFrom(t, o, c->f, stk(c->f->deep))) continue;
		if (nonzero && qrIsZero(t, c->f)) continue;
		return;
	}
}
/* Jacobian representation of point idx (0 = O) in dst[3n]: rep 0 = canonical (Z = 1; O = (1:1:0)), rep 1 = seeded Z */
static void mkJ(word* dst, const curve_t* c, int idx, int rep)
{
	const size_t n = c->n; const qr_o* f = c->f; void* st = ecstk(c);
	if (idx == 0)
	{
		if (rep == 0) qrSetUnity(dst, f), qrSetUnity(dst + n, f);
		else rnd_f(dst, c, 0), rnd_f(dst + n, c, 0);
		qrSetZero(dst + 2 * n, f);
		return;
	}
	if (rep == 0) { ecFromA(dst, AFF(c, idx), c->ec, st); return; }
	{
		word* z = WALLOC(n); word* z2 = WALLOC(n);
		rnd_f(z, c, 1);
		qrSqr(z2, z, f, st);
		qrMul(dst, AFF(c, idx), z2, f, st);
		qrMul(z2, z2, z, f, st);
		qrMul(dst + n, AFF(c, idx) + n, z2, f, st);
		qrCopy(dst + 2 * n, z, f);
		free(z); free(z2);
	}
}
/* index of a Jacobian point */
static int idxJ(const curve_t* c, const word* j)
{
	word* a = WALLOC(2 * c->n); int r;
	r = ecToA(a, j, c->ec, ecstk(c)) ? lookup(c, a) : 0;
	free(a);
	return r;
}

/* ------------------------------------------------------------------ rows */
static void row_begin(const curve_t* c, const char* op, const char* al, int rep)
{
	jBegin(); jStr("curve", c->name); jStr("op", op); jStr("al", al); jInt("rep", rep);
}
static void row_end(const long long* row, size_t n) { jIntArr("row", row, n); jEnd(); }

/* pairs: add / sub in J, AJ (mixed), AA forms for every ordered pair under the admissible aliasings.
   One call: op 0..5 = addJ subJ addAJ subAJ addAA subAA; al 0..3 = none, c=a, c=b, a=b (same buffer, needs i == j);
   rep = representation of projective inputs.  Returns 1 and the affine result in out[2n], 0 for O, -9 if not applicable.
   Fresh buffers of exactly the documented sizes for every call. */
static const char* POPS[6] = { "addJ", "subJ", "addAJ", "subAJ", "addAA", "subAA" };
static const char* PALS[4] = { "none", "c=a", "c=b", "a=b" };
static int pair_call(const curve_t* c, int op, int al, int rep, int i, int j, word* out)
{
	const size_t n = c->n; const ec_o* ec = c->ec; void* st = ecstk(c);
	const int mixed = op == 2 || op == 3, aa = op >= 4;
	const size_t na = aa ? 2 * n : 3 * n;                   /* words of operand a */
	const size_t nb = (mixed || aa) ? 2 * n : 3 * n;        /* words of operand b */
	const size_t nc = aa ? 2 * n : 3 * n;
	word *A, *B, *C; int r = 0; bool_t ok = TRUE;
	if (aa && (rep || i == 0)) return -9;
	if ((mixed || aa) && j == 0) return -9;
	if (al == 3 && (mixed || i != j)) return -9;            /* a projective, b affine: never the same buffer */
	A = WALLOC(al == 1 ? (na > nc ? na : nc) : na);
	B = al == 3 ? A : WALLOC(al == 2 ? (nb > nc ? nb : nc) : nb);
	C = (al == 0 || al == 3) ? WALLOC(nc) : (al == 1 ? A : B);
	if (aa) wwCopy(A, AFF(c, i), 2 * n); else mkJ(A, c, i, rep);
	if (al != 3) { if (mixed || aa) wwCopy(B, AFF(c, j), 2 * n); else mkJ(B, c, j, rep); }
	switch (op)
	{
	case 0: ecAdd(C, A, B, ec, st); break;
	case 1: ecSub(C, A, B, ec, st); break;
	case 2: ecAddA(C, A, B, ec, st); break;
	case 3: ecSubA(C, A, B, ec, st); break;
	case 4: ok = ecpAddAA(C, A, B, ec, stk(ecpAddAA_deep(n, c->f->deep))); break;
	case 5: ok = ecpSubAA(C, A, B, ec, stk(ecpSubAA_deep(n, c->f->deep))); break;
	}
	if (aa) { if (ok) wwCopy(out, C, 2 * n), r = 1; }
	else r = ecToA(out, C, ec, st) ? 1 : 0;
	if (al == 0 || al == 3) free(C);
	if (al != 3) free(B);
	free(A);
	return r;
}
static void do_pairs(const curve_t* c)
{
	const int N = (int)c->npts + 1;
	long long* row = (long long*)xalloc(N * sizeof(long long));
	word* out = WALLOC(2 * c->n);
	int op, al, rep, i, j, r;
	for (op = 0; op < 6; ++op)
	for (al = 0; al < 4; ++al)
	for (rep = 0; rep < 2; ++rep)
	{
		if (pair_call(c, op, al, rep, 1, 1, out) == -9) continue;
		if (al == 3)
		{
			row_begin(c, POPS[op], PALS[al], rep); jInt("diag", 1);
			for (i = 0; i < N; ++i)
				r = pair_call(c, op, al, rep, i, i, out), row[i] = r == 1 ? lookup(c, out) : r;
			row_end(row, N);
			continue;
		}
		for (i = 0; i < N; ++i)
		{
			if (pair_call(c, op, al, rep, i, 1, out) == -9) continue;
			row_begin(c, POPS[op], PALS[al], rep); jInt("i", i);
			for (j = 0; j < N; ++j)
				r = pair_call(c, op, al, rep, i, j, out), row[j] = r == 1 ? lookup(c, out) : r;
			row_end(row, N);
		}
	}
	free(row); free(out);
}

/* unary: neg, dbl, tpl (J), dblA (affine -> J), negA (affine), fromA/toA round trip; al 1 = output over the input */
static const char* UOPS[6] = { "negJ", "dblJ", "tplJ", "dblAJ", "negA", "fromAtoA" };
static int unary_call(const curve_t* c, int op, int al, int rep, int i, word* out)
{
	const size_t n = c->n; const ec_o* ec = c->ec; void* st = ecstk(c);
	const int affin = op >= 3;
	const size_t na = affin ? (al && op != 4 ? 3 * n : 2 * n) : 3 * n;
	word *A, *B; int r;
	if (affin && (rep || i == 0)) return -9;
	A = WALLOC(na);
	B = al ? A : WALLOC(op == 4 ? 2 * n : 3 * n);
	if (affin) wwCopy(A, AFF(c, i), 2 * n); else mkJ(A, c, i, rep);
	switch (op)
	{
	case 0: ecNeg(B, A, ec, st); break;
	case 1: ecDbl(B, A, ec, st); break;
	case 2: ec->tpl(B, A, ec, st); break;
	case 3: ecDblA(B, A, ec, st); break;
	case 4: ecpNegA(B, A, ec); break;
	case 5: ecFromA(B, A, ec, st); break;
	}
	if (op == 4) wwCopy(out, B, 2 * n), r = 1;
	else if (op == 5 && al) { r = ecToA(B, B, ec, st) ? 1 : 0; if (r) wwCopy(out, B, 2 * n); }
	else r = ecToA(out, B, ec, st) ? 1 : 0;
	if (!al) free(B);
	free(A);
	return r;
}
static void do_unary(const curve_t* c)
{
	const int N = (int)c->npts + 1;
	long long* row = (long long*)xalloc(N * sizeof(long long));
	word* out = WALLOC(2 * c->n);
	int op, al, rep, i, r;
	for (op = 0; op < 6; ++op)
	for (al = 0; al < 2; ++al)
	for (rep = 0; rep < 2; ++rep)
	{
		if (unary_call(c, op, al, rep, 1, out) == -9) continue;
		row_begin(c, UOPS[op], al ? "b=a" : "none", rep);
		for (i = 0; i < N; ++i)
			r = unary_call(c, op, al, rep, i, out), row[i] = r == 1 ? lookup(c, out) : r;
		row_end(row, N);
	}
	free(row); free(out);
}

/* scalar k (+ the registered multiple of the order of length mo when hi) in m = W_OF_O(mo) words */
static int scalar(word* d, size_t mo, const curve_t* c, long long k, int hi)
{
	const size_t m = W_OF_O(mo);
	octet o[64]; size_t i; unsigned carry;
	memset(o, 0, sizeof(o));
	if (hi)
	{
		int t;
		for (t = 0; t < c->nmult && c->mult[t].mo != mo; ++t);
		if (t == c->nmult) return 0;
		memcpy(o, c->mult[t].d, mo);
	}
	for (i = 0, carry = 0; i < mo; ++i)
	{
		unsigned v = o[i] + (i < 8 ? (unsigned)((unsigned long long)k >> (8 * i)) & 255 : 0) + carry;
		o[i] = (octet)v; carry = v >> 8;
	}
	if (carry || mo % O_PER_W) return 0;
	wwFrom(d, o, mo);
	(void)m;
	return 1;
}
/* the list of scalars of a command: ks=all (0..K) or ks=a,b,c */
static size_t parse_ks(const vx_cmd* cmd, const curve_t* c, long long** ks, long long from)
{
	const char* v = vxArg(cmd, "ks");
	long long K = 2 * c->iord + 2;
	size_t cnt = 0;
	if (!v || strcmp(v, "all") == 0)
	{
		long long k;
		*ks = (long long*)xalloc((size_t)(K + 1) * sizeof(long long));
		for (k = from; k <= K; ++k) (*ks)[cnt++] = k;
		return cnt;
	}
	*ks = (long long*)xalloc((strlen(v) / 2 + 2) * sizeof(long long));
	while (*v)
	{
		(*ks)[cnt++] = strtoll(v, (char**)&v, 10);
		if (*v == ',') ++v;
	}
	return cnt;
}
static void do_mul(const curve_t* c, const vx_cmd* cmd, int hasorder)
{
	const size_t n = c->n, mo = (size_t)vxInt(cmd, "mo", 8), m = W_OF_O(mo);
	const int hi = (int)vxInt(cmd, "hi", 0);
	long long* ks; size_t nk = parse_ks(cmd, c, &ks, hasorder ? 1 : 0), t;
	long long* row = (long long*)xalloc(nk * sizeof(long long));
	int i;
	if (mo % O_PER_W) { free(ks); free(row); return; }         /* this scalar length does not exist in this build */
	for (i = 1; i <= (int)c->npts; ++i)
	{
		jBegin(); jStr("curve", c->name); jStr("op", hasorder ? "hasOrderA" : "mulA"); jInt("mo", (long long)mo);
		jInt("hi", hi); jInt("i", i); jIntArr("ks", ks, nk);
		for (t = 0; t < nk; ++t)
		{
			word* d = WALLOC(m); word* b = WALLOC(2 * n);
			if (!scalar(d, mo, c, ks[t], hi)) row[t] = -9;
			else if (hasorder)
				row[t] = ecHasOrderA(AFF(c, i), c->ec, d, m, stk(ecHasOrderA_deep(n, c->ec->d, c->ec->deep, m)));
			else
				row[t] = ecMulA(b, AFF(c, i), c->ec, d, m, stk(ecMulA_deep(n, c->ec->d, c->ec->deep, m))) ? lookup(c, b) : 0;
			free(d); free(b);
		}
		row_end(row, nk);
	}
	free(ks); free(row);
}
/* d1 P_i + d2 P_j (+ d3 P_l): rows over j */
static void do_addmul(const curve_t* c, const vx_cmd* cmd)
{
	const size_t n = c->n, mo1 = (size_t)vxInt(cmd, "mo1", 8), mo2 = (size_t)vxInt(cmd, "mo2", 8), mo3 = (size_t)vxInt(cmd, "mo3", 8);
	const size_t m1 = W_OF_O(mo1), m2 = W_OF_O(mo2), m3 = W_OF_O(mo3);
	const int hi = (int)vxInt(cmd, "hi", 0);
	const long long d1 = vxInt(cmd, "d1", 0), d2 = vxInt(cmd, "d2", 0), d3 = vxInt(cmd, "d3", -1);
	const int l = (int)vxInt(cmd, "l", 1), i0 = (int)vxInt(cmd, "i", 0);
	const int N = (int)c->npts;
	long long* row = (long long*)xalloc((N + 1) * sizeof(long long));
	int i, j;
	if (mo1 % O_PER_W || mo2 % O_PER_W || mo3 % O_PER_W) { free(row); return; }
	for (i = 1; i <= N; ++i)
	{
		if (i0 && i != i0) continue;
		jBegin(); jStr("curve", c->name); jStr("op", d3 >= 0 ? "addMulA3" : "addMulA"); jInt("mo1", (long long)mo1); jInt("mo2", (long long)mo2);
		jInt("hi", hi); jInt("i", i); jInt("d1", d1); jInt("d2", d2);
		if (d3 >= 0) jInt("mo3", (long long)mo3), jInt("d3", d3), jInt("l", l);
		row[0] = -9;
		for (j = 1; j <= N; ++j)
		{
			word* e1 = WALLOC(m1); word* e2 = WALLOC(m2); word* e3 = WALLOC(m3); word* b = WALLOC(2 * n);
			bool_t r;
			if (!scalar(e1, mo1, c, d1, hi) || !scalar(e2, mo2, c, d2, hi) || !scalar(e3, mo3, c, d3 >= 0 ? d3 : 0, hi)) row[j] = -9;
			else
			{
				if (d3 >= 0)
					r = ecAddMulA(b, c->ec, stk(ecAddMulA_deep(n, c->ec->d, c->ec->deep, 3, m1, m2, m3)), 3,
						AFF(c, i), e1, m1, AFF(c, j), e2, m2, AFF(c, l), e3, m3);
				else
					r = ecAddMulA(b, c->ec, stk(ecAddMulA_deep(n, c->ec->d, c->ec->deep, 2, m1, m2)), 2,
						AFF(c, i), e1, m1, AFF(c, j), e2, m2);
				row[j] = r ? lookup(c, b) : 0;
			}
			free(e1); free(e2); free(e3); free(b);
		}
		row_end(row, (size_t)N + 1);
	}
	free(row);
}
/* ecpIsOnA on every (x, y) in [0, 2^bits)^2 (one-word fields, plain representation) */
static void do_ison(const curve_t* c, const vx_cmd* cmd)
{
	const long long lim = 1ll << vxInt(cmd, "bits", 4);
	long long x, y, ys[8]; size_t cnt;
	if (c->n != 1) return;
	for (x = 0; x < lim; ++x)
	{
		cnt = 0;
		for (y = 0; y < lim; ++y)
		{
			word* a = WALLOC(2);
			a[0] = (word)x; a[1] = (word)y;
			if (ecpIsOnA(a, c->ec, stk(ecpIsOnA_deep(1, c->f->deep))) && cnt < 8) ys[cnt++] = y;
			free(a);
		}
		jBegin(); jStr("curve", c->name); jStr("op", "isOnA"); jInt("x", x); jIntArr("ys", ys, cnt); jEnd();
	}
}
static void do_swu(const curve_t* c)
{
	long long p, s;
	long long* row;
	if (c->n != 1) return;
	p = (long long)c->f->mod[0];            /* the modulus itself is kept as a plain number */
	row = (long long*)xalloc((size_t)p * sizeof(long long));
	for (s = 0; s < p; ++s)
	{
		word* a = WALLOC(c->n); word* b = WALLOC(2 * c->n);
		octet o[8]; size_t t;
		for (t = 0; t < c->no; ++t) o[t] = (octet)(s >> (8 * t));
		qrFrom(a, o, c->f, stk(c->f->deep));
		ecpSWU(b, a, c->ec, stk(ecpSWU_deep(c->n, c->f->deep)));
		row[s] = lookup(c, b);
		free(a); free(b);
	}
	jBegin(); jStr("curve", c->name); jStr("op", "swu"); row_end(row, (size_t)p);
	free(row);
}

/* ================================================================== record direction: self-contained lines */
static void jArr16(const octet* o, size_t no)
{
	size_t i;
	fputc('[', vx_out);
	for (i = 0; i + 1 < no; i += 2) fprintf(vx_out, i ? ",%u" : "%u", o[i] | (o[i + 1] << 8));
	if (no & 1) fprintf(vx_out, no > 1 ? ",%u" : "%u", o[no - 1]);
	fputc(']', vx_out);
}
/* affine point in internal representation (0 = O) as [[x limbs],[y limbs]] or [] */
static void jP(const char* k, const curve_t* c, const word* aff)
{
	octet o[80];
	jSep(); fprintf(vx_out, "\"%s\":[", k);
	if (aff)
	{
		qrTo(o, aff, c->f, stk(c->f->deep)); jArr16(o, c->no); fputc(',', vx_out);
		qrTo(o, aff + c->n, c->f, stk(c->f->deep)); jArr16(o, c->no);
	}
	fputc(']', vx_out);
}
static void jPi(const char* k, const curve_t* c, int idx) { jP(k, c, idx ? AFF(c, idx) : 0); }
static void jF(const char* k, const curve_t* c, const word* a)
{
	octet o[80];
	qrTo(o, a, c->f, stk(c->f->deep)); jLimbs16(k, o, c->no);
}
static void rec_begin(const curve_t* c, const char* op)
{
	octet o[80];
	jBegin(); jStr("op", op); jStr("cv", c->name);
	wwTo(o, c->no, c->f->mod); jLimbs16("p", o, c->no);
	jF("A", c, c->ec->A); jF("B", c, c->ec->B);
}
/* d[mo octets] = k + ord * T, T a seeded number that fills the remaining bits (hi) or 0 */
static void big_scalar(octet* d, size_t mo, unsigned long long ord, unsigned long long k, int hi)
{
	size_t i, tb; unsigned long long carry; int ob = 0;
	octet t[64];
	memset(d, 0, mo); memset(t, 0, sizeof(t));
	while ((ord >> ob) != 0) ++ob;
	if (hi && mo * 8 > (size_t)ob + 10)
	{
		tb = mo * 8 - ob - 2;
		vxRandBuf(t, mo);
		for (i = tb; i < mo * 8; ++i) t[i / 8] &= (octet)~(1u << (i % 8));
		t[(tb - 1) / 8] |= (octet)(1u << ((tb - 1) % 8));
	}
	for (i = 0, carry = k; i < mo; ++i)
	{
		carry += (unsigned long long)t[i] * ord;
		d[i] = (octet)carry; carry >>= 8;
	}
}
static void rec_pairs(const curve_t* c, int all_ops)
{
	const int N = (int)c->npts + 1;
	word* out = WALLOC(2 * c->n);
	int i, j, op, r;
	for (i = 0; i < N; ++i)
	for (j = 0; j < N; ++j)
	for (op = 0; op < 6; ++op)
	{
		int al = (i + 2 * j + op) % 4, rep = (i + j + op) % 2;
		if (!all_ops && op != (i + 3 * j) % 6) continue;
		if (op >= 4) rep = 0;
		r = pair_call(c, op, al, rep, i, j, out);
		if (r == -9) { al = (i + j) % 3; r = pair_call(c, op, al, rep, i, j, out); }
		if (r == -9) continue;
		rec_begin(c, "pair"); jStr("f", POPS[op]); jStr("al", PALS[al]); jInt("rep", rep);
		jPi("P", c, i); jPi("Q", c, j); jP("R", c, r ? out : 0); jEnd();
	}
	free(out);
}
static void rec_unary(const curve_t* c)
{
	const int N = (int)c->npts + 1;
	word* out = WALLOC(2 * c->n);
	int i, op, al, r;
	for (i = 0; i < N; ++i)
	for (op = 0; op < 6; ++op)
	for (al = 0; al < 2; ++al)
	{
		int rep = (i + op + al) % 2;
		if (op >= 3) rep = 0;
		r = unary_call(c, op, al, rep, i, out);
		if (r == -9) continue;
		rec_begin(c, "unary"); jStr("f", UOPS[op]); jStr("al", al ? "b=a" : "none"); jInt("rep", rep);
		jPi("P", c, i); jP("R", c, r ? out : 0); jEnd();
	}
	free(out);
}
/* scalar multiples on a group of small known order: d = k + ord * T in mo octets */
static void rec_mulsub(const curve_t* c, int every)
{
	static const size_t MO[3] = { 8, 16, 48 };
	const size_t n = c->n;
	const int N = (int)c->npts;
	long long k; int i, t = 0;
	word* b = WALLOC(2 * n);
	for (i = 1; i <= N; i += every)
	for (k = 0; k <= 2 * c->iord + 2; ++k, ++t)
	{
		const size_t mo = MO[t % 3], m = W_OF_O(mo);
		const int hi = (t / 3) % 2;
		octet d[64]; word* dw = WALLOC(m); bool_t r;
		big_scalar(d, mo, (unsigned long long)c->iord, (unsigned long long)k, hi);
		wwFrom(dw, d, mo);
		r = ecMulA(b, AFF(c, i), c->ec, dw, m, stk(ecMulA_deep(n, c->ec->d, c->ec->deep, m)));
		rec_begin(c, "mulsub"); jInt("ord", c->iord); jLimbs16("d", d, mo); jPi("P", c, i); jP("R", c, r ? b : 0); jEnd();
		if (k >= 1 && (t % 4) == 0)
		{
			r = ecHasOrderA(AFF(c, i), c->ec, dw, m, stk(ecHasOrderA_deep(n, c->ec->d, c->ec->deep, m)));
			rec_begin(c, "hasordersub"); jInt("ord", c->iord); jLimbs16("d", d, mo); jPi("P", c, i); jBool("res", r); jEnd();
		}
		if ((t % 5) == 0 && i < N)
		{
			/* d P_i + (k+1) P_{i+1} */
			word e2 = (word)(k + 1);
			r = ecAddMulA(b, c->ec, stk(ecAddMulA_deep(n, c->ec->d, c->ec->deep, 2, m, (size_t)1)), 2,
				AFF(c, i), dw, m, AFF(c, i + 1), &e2, (size_t)1);
			rec_begin(c, "addmulsub"); jInt("ord", c->iord); jLimbs16("d", d, mo); jInt("e", k + 1);
			jPi("P", c, i); jPi("Q", c, i + 1); jP("R", c, r ? b : 0); jEnd();
		}
		free(dw);
	}
	free(b);
}
/* ecpIsOnA on raw coordinates (plain rings: the words are the numbers): all (x, y) in [0, lim)^2 for one-word p */
static void rec_ison_small(const curve_t* c, long long lim)
{
	long long x, y, ys[8]; size_t cnt;
	for (x = 0; x < lim; ++x)
	{
		for (cnt = 0, y = 0; y < lim; ++y)
		{
			word* a = WALLOC(2);
			a[0] = (word)x; a[1] = (word)y;
			if (ecpIsOnA(a, c->ec, stk(ecpIsOnA_deep(1, c->f->deep))) && cnt < 8) ys[cnt++] = y;
			free(a);
		}
		rec_begin(c, "isonrow"); jInt("x", x); jInt("lim", lim); jIntArr("ys", ys, cnt); jEnd();
	}
}
/* ecpIsOnA on listed points and on coordinates moved out of the field (x = p, p + 1, all-ones; y = p) */
static void rec_ison_big(const curve_t* c)
{
	const size_t n = c->n; int i, v;
	for (i = 1; i <= (int)c->npts; ++i)
	for (v = 0; v < 6; ++v)
	{
		word* a = WALLOC(2 * n); bool_t r; octet o[160];
		wwCopy(a, AFF(c, i), 2 * n);
		switch (v)
		{
		case 1: wwCopy(a, c->f->mod, n); break;                                  /* x = p */
		case 2: wwCopy(a + n, c->f->mod, n); break;                              /* y = p */
		case 3: wwCopy(a, c->f->mod, n); zzAddW2(a, n, 1); break;                /* x = p + 1 */
		case 4: wwCopy(a + n, c->f->unity, n); break;                            /* y = 1 */
		case 5: memset(a, 0xFF, O_OF_W(n)); break;                               /* x = B^n - 1 */
		}
		/* the raw words are what the function sees: a word vector >= p is logged as such, everything else as the
		   field element it denotes (Montgomery ring: qrTo) */
		r = ecpIsOnA(a, c->ec, stk(ecpIsOnA_deep(n, c->f->deep)));
		rec_begin(c, "isonraw"); jInt("v", v);
		if (v == 1 || v == 3 || v == 5) { wwTo(o, O_OF_W(n), a); jLimbs16("x", o, O_OF_W(n)); } else jF("x", c, a);
		if (v == 2) { wwTo(o, O_OF_W(n), a + n); jLimbs16("y", o, O_OF_W(n)); } else jF("y", c, a + n);
		jInt("outside", v == 1 || v == 2 || v == 3 || v == 5); jBool("res", r); jEnd();
		free(a);
	}
}
static void rec_swu(const curve_t* c)
{
	long long p = (long long)c->f->mod[0], s;
	for (s = 0; s < p; ++s)
	{
		word* a = WALLOC(c->n); word* b = WALLOC(2 * c->n);
		octet o[8]; size_t t;
		for (t = 0; t < c->no; ++t) o[t] = (octet)(s >> (8 * t));
		qrFrom(a, o, c->f, stk(c->f->deep));
		ecpSWU(b, a, c->ec, stk(ecpSWU_deep(c->n, c->f->deep)));
		rec_begin(c, "swu"); jF("s", c, a); jP("R", c, b); jEnd();
		free(a); free(b);
	}
}
/* a complete small curve y^2 = x^3 + A x + B over GF(p): the points are found with plain integer arithmetic */
static int small_curve(curve_t* c, const char* name, unsigned p, unsigned A, unsigned B)
{
	octet po[2], ao[2], bo[2]; size_t no = p < 256 ? 1 : 2, cnt = 0;
	octet* pts = (octet*)xalloc((size_t)2 * p * 2 * no + 4);
	unsigned x, y; octet ord[4];
	po[0] = (octet)p; po[1] = (octet)(p >> 8); ao[0] = (octet)A; ao[1] = (octet)(A >> 8); bo[0] = (octet)B; bo[1] = (octet)(B >> 8);
	for (x = 0; x < p; ++x)
	for (y = 0; y < p; ++y)
		if ((y * y) % p == ((x * x % p * x) % p + A * x % p + B) % p)
		{
			pts[2 * no * cnt] = (octet)x; pts[2 * no * cnt + no] = (octet)y;
			if (no == 2) pts[2 * no * cnt + 1] = (octet)(x >> 8), pts[2 * no * cnt + 3] = (octet)(y >> 8);
			++cnt;
		}
	if (!curve_create(c, name, no, po, ao, bo) || !curve_points(c, pts, cnt)) { free(pts); return 0; }
	free(pts);
	c->iord = (long long)cnt + 1;
	ord[0] = (octet)c->iord; ord[1] = (octet)(c->iord >> 8); ord[2] = ord[3] = 0;
	return ecCreateGroup(c->ec, c->oct, c->oct + no, ord, 4, 1, stk(ecCreateGroup_deep(c->f->deep)));
}
/* the subgroup generated by (x, y) (little-endian hex): listed by repeated ecpAddAA until O */
static int sub_curve(curve_t* c, const char* name, const char* ph, const char* ah, const char* bh, const char* xh, const char* yh, int ord)
{
	const size_t no = strlen(ph) / 2, n = W_OF_O(no);
	octet po[80], ao[80], bo[80]; octet* pts = (octet*)xalloc((size_t)ord * 2 * no);
	word* g = WALLOC(2 * n); word* t = WALLOC(2 * n); int cnt = 1; octet o4[4];
	hexTo(po, ph); hexTo(ao, ah); hexTo(bo, bh); hexTo(pts, xh); hexTo(pts + no, yh);
	if (!curve_create(c, name, no, po, ao, bo)) return 0;
	qrFrom(g, pts, c->f, stk(c->f->deep)); qrFrom(g + n, pts + no, c->f, stk(c->f->deep));
	wwCopy(t, g, 2 * n);
	while (cnt < ord - 1 && ecpAddAA(t, t, g, c->ec, stk(ecpAddAA_deep(n, c->f->deep))))
	{
		qrTo(pts + 2 * no * cnt, t, c->f, stk(c->f->deep)); qrTo(pts + 2 * no * cnt + no, t + n, c->f, stk(c->f->deep));
		++cnt;
	}
	free(g); free(t);
	if (!curve_points(c, pts, (size_t)cnt)) { free(pts); return 0; }
	free(pts);
	c->iord = ord;
	o4[0] = (octet)ord; o4[1] = o4[2] = o4[3] = 0;
	return ecCreateGroup(c->ec, c->oct, c->oct + no, o4, 4, 1, stk(ecCreateGroup_deep(c->f->deep)));
}

/* ---- the standard bign curves: boundary scalars, value lines (a few) and law lines (volume) */
static void jW(const char* k, const word* w, size_t m) { octet o[200]; wwTo(o, O_OF_W(m), w); jLimbs16(k, o, O_OF_W(m)); }
static int mulG(const curve_t* c, word* r, const word* base, const word* d, size_t m)
{
	return ecMulA(r, base, c->ec, d, m, stk(ecMulA_deep(c->n, c->ec->d, c->ec->deep, m)));
}
static void rec_mul_line(const curve_t* c, const char* cls, const word* base, const word* d, size_t m, int heavy)
{
	word* r = WALLOC(2 * c->n); int ok = mulG(c, r, base, d, m);
	rec_begin(c, "mul"); jStr("cls", cls); jInt("heavy", heavy); jW("d", d, m); jP("P", c, base); jP("R", c, ok ? r : 0); jEnd();
	free(r);
}
static void rec_std(const char* name, size_t no, const octet* p, const octet* a, const octet* b, const octet* q, const octet* xG, const octet* yG, int nheavy, int nlaws)
{
	static curve_t C; curve_t* c = &C;
	const size_t n = W_OF_O(no), n1 = W_OF_O(no + 8);    /* n1: a scalar 8 octets longer than q (any word size) */
	word* G; word* d = WALLOC(n1); word* e = WALLOC(n1); word* qw = WALLOC(n1);
	word* r1 = WALLOC(2 * n); word* r2 = WALLOC(2 * n); word* P = WALLOC(2 * n);
	int t, ok1, ok2;
	if (!curve_create(c, name, no, p, a, b)) { fprintf(stderr, "%s: cannot create\n", name); exit(4); }
	{	/* the group is set twice on the same description: first with a longer (wrong) order q + 2^(8 no), then with q -
		   the description must then be exactly the one of a single ecCreateGroup (ec.h lets the group be set after the curve) */
		octet* q2 = (octet*)xalloc(no + 1); memcpy(q2, q, no); q2[no] = 1;
		ecCreateGroup(c->ec, xG, yG, q2, no + 1, 1, stk(ecCreateGroup_deep(c->f->deep)));
		free(q2);
	}
	if (!ecCreateGroup(c->ec, xG, yG, q, no, 1, stk(ecCreateGroup_deep(c->f->deep)))) { fprintf(stderr, "%s: cannot create\n", name); exit(4); }
	G = c->ec->base;
	wwSetZero(qw, n1); wwFrom(qw, q, no);
	rec_begin(c, "group"); jLimbs16("q", q, no); jP("P", c, G);
	jBool("valid", ecpIsValid(c->ec, stk(ecpIsValid_deep(n, c->f->deep))));
	jBool("seems", ecpSeemsValidGroup(c->ec, stk(ecpSeemsValidGroup_deep(n, c->f->deep))));
	jBool("ison", ecpIsOnA(G, c->ec, stk(ecpIsOnA_deep(n, c->f->deep)))); jEnd();
	/* boundary scalars: 0, 1, 2 (cheap for the specification), q-1, q, q+1, 2^|q|, seeded n+1 words (heavy) */
	wwSetZero(d, n1); rec_mul_line(c, "0", G, d, n, 0);
	d[0] = 1; rec_mul_line(c, "1", G, d, n, 0); rec_mul_line(c, "1:8 octets", G, d, W_OF_O(8), 0);
	d[0] = 2; rec_mul_line(c, "2", G, d, n1, 0);
	d[0] = 3; rec_mul_line(c, "3", G, d, W_OF_O(8), 0);
	t = 0;
	wwCopy(d, qw, n1); zzSubW2(d, n1, 1); if (t++ < nheavy) rec_mul_line(c, "q-1", G, d, n, 1);
	wwSetZero(d, n1); vxRandBuf(d, no); if (t++ < nheavy) rec_mul_line(c, "seeded", G, d, n, 1);
	wwSetZero(d, n1); d[n] = 1; if (t++ < nheavy) rec_mul_line(c, "2^|q|", G, d, n1, 1);
	wwCopy(d, qw, n1); zzAddW2(d, n1, 1); if (t++ < nheavy) rec_mul_line(c, "q+1", G, d, n, 1);
	vxRandBuf(d, no + 8); if (t++ < nheavy) rec_mul_line(c, "seeded:m=n+1", G, d, n1, 1);
	/* q G = O: reported as FALSE by ecMulA, TRUE by ecHasOrderA */
	ok1 = mulG(c, r1, G, qw, n); ok2 = ecHasOrderA(G, c->ec, qw, n, stk(ecHasOrderA_deep(n, c->ec->d, c->ec->deep, n)));
	rec_begin(c, "law_order"); jLimbs16("q", q, no); jP("P", c, G); jBool("mul_affine", ok1); jBool("hasorder", ok2);
	ok1 = mulG(c, r1, G, qw, n1); jBool("mul_affine_m1", ok1); jEnd();
	/* laws on seeded scalars and a seeded base point P = k0 G */
	for (t = 0; t < nlaws; ++t)
	{
		const word* base = G; size_t m = (t % 3 == 2) ? n1 : n;
		if (t % 2) { wwSetZero(e, n1); vxRandBuf(e, no); zzMod(e, e, n, qw, n, stk(zzMod_deep(n, n))); mulG(c, P, G, e, n); base = P; }
		/* (k+1) P = k P + P, k at a boundary or seeded */
		switch (t % 5)
		{
		case 0: wwSetZero(d, n1); vxRandBuf(d, no); break;
		case 1: wwCopy(d, qw, n1); zzSubW2(d, n1, 2); break;               /* q-2 -> q-1 */
		case 2: wwCopy(d, qw, n1); zzSubW2(d, n1, 1); break;               /* q-1 -> q (= O) */
		case 3: wwCopy(d, qw, n1); break;                                      /* q (= O) -> q+1 (= P) */
		default: wwSetZero(d, n1); vxRandBuf(d, no / 2 + 1); break;     /* half length */
		}
		wwCopy(e, d, n1); zzAddW2(e, n1, 1);
		ok1 = mulG(c, r1, base, d, m); ok2 = mulG(c, r2, base, e, m);
		rec_begin(c, "law_succ"); jW("d", d, m); jW("e", e, m); jP("P", c, base); jP("R1", c, ok1 ? r1 : 0); jP("R2", c, ok2 ? r2 : 0); jEnd();
		/* (q - k) P = -(k P) for 0 < k < q */
		wwSetZero(d, n1); vxRandBuf(d, no); zzMod(d, d, n, qw, n, stk(zzMod_deep(n, n)));
		if (t % 4 == 1) wwSetW(d, n1, 1);
		if (wwIsZero(d, n)) d[0] = 5;
		wwSetZero(e, n1); zzSub(e, qw, d, n);
		ok1 = mulG(c, r1, base, d, n); ok2 = mulG(c, r2, base, e, n);
		rec_begin(c, "law_neg"); jLimbs16("q", q, no); jW("d", d, n); jW("e", e, n); jP("P", c, base); jP("R1", c, ok1 ? r1 : 0); jP("R2", c, ok2 ? r2 : 0); jEnd();
		/* d1 G + d2 P = (d1 + d2 k0) G: recorded as the sum of two recorded multiples */
		if (t % 2)
		{
			word* s1 = WALLOC(2 * n); word* s2 = WALLOC(2 * n); word* s3 = WALLOC(2 * n); int o1, o2, o3;
			wwSetZero(d, n1); vxRandBuf(d, no); wwSetZero(e, n1); vxRandBuf(e, no);
			if (t % 4 == 3) wwSetZero(e, n), e[0] = 1;
			o1 = mulG(c, s1, G, d, n); o2 = mulG(c, s2, P, e, n);
			o3 = ecAddMulA(s3, c->ec, stk(ecAddMulA_deep(n, c->ec->d, c->ec->deep, 2, n, n)), 2, G, d, n, P, e, n);
			rec_begin(c, "law_addmul"); jP("R1", c, o1 ? s1 : 0); jP("R2", c, o2 ? s2 : 0); jP("R", c, o3 ? s3 : 0); jEnd();
			free(s1); free(s2); free(s3);
		}
	}
	free(d); free(e); free(qw); free(r1); free(r2); free(P);
	curve_free(c);
}

static int run_record(const char* tier)
{
	static curve_t C;
	const int suite = strcmp(tier, "suite") == 0, thorough = strcmp(tier, "thorough") == 0;
	bign_params bp[1];
	/* (A) a complete small curve */
	if (small_curve(&C, suite ? "p11a" : "p23a", suite ? 11 : 23, suite ? 8 : 1, suite ? 0 : 2))
	{
		rec_pairs(&C, suite || thorough); rec_unary(&C); rec_mulsub(&C, suite ? 4 : 3); rec_ison_small(&C, suite ? 16 : 32);
		if (!suite) rec_swu(&C);
		curve_free(&C);
	}
	if (suite && small_curve(&C, "p19a", 19, 16, 9)) { rec_swu(&C); rec_unary(&C); curve_free(&C); }
	if (thorough && small_curve(&C, "p67a", 67, 64, 1)) { rec_pairs(&C, 0); rec_unary(&C); rec_swu(&C); curve_free(&C); }
	/* (B) subgroups of order 7 / 5 over multi-word primes (parameters computed by spec/gen/Gen_ECSmall.tla) */
	if (sub_curve(&C, "b192cn7a3", "13FFFFFFFFFFFFFFFFFFFFFFFFFFFFFFFFFFFFFFFFFFFFFF", "10FFFFFFFFFFFFFFFFFFFFFFFFFFFFFFFFFFFFFFFFFFFFFF",
		"5B4A5E9D42C31B66A3148B86D3E5455967D4F275AE127843", "8351587DB599528797D22CBDDDD63DBFE0946F6CF48A356F",
		"0E6F72C45AECA59E6C463380A61280CB9A73C8F3B4658A6C", 7))
	{
		rec_pairs(&C, !suite); rec_unary(&C); rec_mulsub(&C, suite ? 3 : 2); rec_ison_big(&C);
		curve_free(&C);
	}
	if (sub_curve(&C, "b192mn5", "0F916FC7105DB7F9DA717E16DA8CF4CE530DAC7EB17728C7", "F4906FC7105DB7F9DA717E16DA8CF4CE530DAC7EB17728C7",
		"36D800000000000000000000000000000000000000000000", "FA906FC7105DB7F9DA717E16DA8CF4CE530DAC7EB17728C7",
		"37906FC7105DB7F9DA717E16DA8CF4CE530DAC7EB17728C7", 5))
	{
		rec_pairs(&C, !suite); rec_unary(&C); rec_mulsub(&C, 2); rec_ison_big(&C);
		curve_free(&C);
	}
	if (sub_curve(&C, "b128n7", "1F25DD990495199FE9A67A8EE26BADEB", "8417DD990495199FE9A67A8EE26BADEB",
		"B6D80100000000000000000000000000", "F224DD990495199FE9A67A8EE26BADEB", "6F23DD990495199FE9A67A8EE26BADEB", 7))
	{
		rec_pairs(&C, 0); rec_unary(&C); rec_mulsub(&C, suite ? 4 : 3); rec_ison_big(&C);
		curve_free(&C);
	}
	/* (C) the standard curves */
	if (bignParamsStd(bp, "1.2.112.0.2.0.34.101.45.3.1") == ERR_OK)
		rec_std("bign128", bp->l / 4, bp->p, bp->a, bp->b, bp->q, 0, bp->yG, suite ? 0 : (thorough ? 5 : 2), suite ? 4 : (thorough ? 40 : 10));
	if (bign96ParamsStd(bp, "1.2.112.0.2.0.34.101.45.3.0") == ERR_OK)
		rec_std("bign96", bp->l / 4, bp->p, bp->a, bp->b, bp->q, 0, bp->yG, thorough ? 5 : 0, suite ? 4 : (thorough ? 40 : 10));
	if (bignParamsStd(bp, "1.2.112.0.2.0.34.101.45.3.2") == ERR_OK)
		rec_std("bign192", bp->l / 4, bp->p, bp->a, bp->b, bp->q, 0, bp->yG, thorough ? 3 : 0, suite ? 2 : (thorough ? 30 : 6));
	if (bignParamsStd(bp, "1.2.112.0.2.0.34.101.45.3.3") == ERR_OK)
		rec_std("bign256", bp->l / 4, bp->p, bp->a, bp->b, bp->q, 0, bp->yG, thorough ? 2 : 0, suite ? 2 : (thorough ? 30 : 6));
	/* GOST R 34.10-2012 curves (g12s): Crandall and Montgomery rings of 4 and 8 words, base points with x # 0 */
	if (thorough)
	{
		static const char* GN[4] = { "1.2.643.2.2.35.1", "1.2.643.2.2.35.2", "1.2.643.7.1.2.1.2.1", "1.2.643.7.1.2.1.2.2" };
		static const char* GS[4] = { "cryptoproA", "cryptoproB", "paramsetA512", "paramsetB512" };
		g12s_params gp[1]; int i;
		for (i = 0; i < 4; ++i)
			if (g12sParamsStd(gp, GN[i]) == ERR_OK)
				rec_std(GS[i], gp->l / 8, gp->p, gp->a, gp->b, gp->q, gp->xP, gp->yP, i == 0 ? 1 : 0, 12);
	}
	return 0;
}

static int run_exec(void)
{
	static curve_t C;
	char* line = 0; size_t cap = 0; int have = 0;
	vx_cmd cmd;
	while (getline(&line, &cap, stdin) > 0)
	{
		if (!vxParse(&cmd, line)) continue;
		if (strcmp(cmd.op, "curve") == 0)
		{
			size_t no = (size_t)vxInt(&cmd, "no", 0), l1, l2, l3, l4, l5;
			octet* p = vxHex(&cmd, "p", &l1); octet* a = vxHex(&cmd, "a", &l2); octet* b = vxHex(&cmd, "b", &l3);
			octet* pts = vxHex(&cmd, "pts", &l4); octet* ord = vxHex(&cmd, "ord", &l5);
			if (have) curve_free(&C);
			have = 0;
			if (l1 != no || l2 != no || l3 != no || l4 % (2 * no) || l5 > sizeof(C.ord) ||
				!curve_create(&C, vxArg(&cmd, "name"), no, p, a, b) || !curve_points(&C, pts, l4 / (2 * no)))
			{
				jBegin(); jStr("curve", vxArg(&cmd, "name")); jStr("op", "create"); jInt("ok", 0); jEnd();
			}
			else
			{
				size_t i;
				memcpy(C.ord, ord, l5); C.ord_len = l5;
				for (C.iord = 0, i = l5; i--;) C.iord = C.iord * 256 + ord[i];
				have = 1;
				jBegin(); jStr("curve", C.name); jStr("op", "create"); jInt("ok", 1); jInt("n", (long long)C.n);
				jInt("W", B_PER_W); jInt("valid", ecpIsValid(C.ec, stk(ecpIsValid_deep(C.n, C.f->deep)))); jEnd();
			}
			free(p); free(a); free(b); free(pts); free(ord);
			continue;
		}
		if (!have) continue;
		if (strcmp(cmd.op, "mult") == 0)
		{
			size_t l; octet* d = vxHex(&cmd, "d", &l);
			if (C.nmult < 8 && l <= 64) { C.mult[C.nmult].mo = l; memcpy(C.mult[C.nmult].d, d, l); ++C.nmult; }
			free(d);
		}
		else if (strcmp(cmd.op, "pairs") == 0) do_pairs(&C);
		else if (strcmp(cmd.op, "unary") == 0) do_unary(&C);
		else if (strcmp(cmd.op, "mul") == 0) do_mul(&C, &cmd, 0);
		else if (strcmp(cmd.op, "hasorder") == 0) do_mul(&C, &cmd, 1);
		else if (strcmp(cmd.op, "addmul") == 0) do_addmul(&C, &cmd);
		else if (strcmp(cmd.op, "ison") == 0) do_ison(&C, &cmd);
		else if (strcmp(cmd.op, "swu") == 0) do_swu(&C);
		fflush(stdout);
	}
	if (have) curve_free(&C);
	free(line);
	return 0;
}

int main(int argc, char** argv)
{
	vxSeed(vxEnvSeed());
	if (getenv("VERIF_FILL")) FILL = atoi(getenv("VERIF_FILL"));
	if (getenv("VERIF_STACK_SLACK")) SLACK = (size_t)atoi(getenv("VERIF_STACK_SLACK"));
	if (argc >= 2 && strcmp(argv[1], "exec") == 0) return run_exec();
	if (argc >= 3 && strcmp(argv[1], "record") == 0) return run_record(argv[2]);
	fprintf(stderr, "usage: drv_ec exec | record <suite|quick|thorough>\n");
	return 2;
}
